(* C03: the successive-approximation value chain.  Per coefficient, the decoder
   procedures act on the stored value as
     DC first  (Al=a) : cur := dc_state a v            (proved: dcf_scan_roundtrip)
     DC refine (Al=a) : cur := cur | (bit a of v) << a (proved: dcr_scan_roundtrip)
     AC first  (Al=a) : cur := ac_state a v            (proved: acf_scan_roundtrip, acf_res_spec)
     AC refine (Al=a) : cur := acr value rule below    (the decoder's correction rule of
                        decode_mcu_AC_refine applied to the bit the encoder sends)
   and for every chain (0,a0),(a0,a0-1),..,(1,0) accepted by validate_script the final
   value is exactly v. *)
From Coq Require Import List ZArith Lia Bool.
From LJT Require Import model.Huff model.Seq model.Prog model.Script
  proofs.SeqBits proofs.SeqProofs proofs.ProgProofs proofs.ScriptProofs.
Import ListNotations.
Local Open Scope Z_scope.

Definition dc_first_val (a v : Z) : Z := dc_state a v.
Definition dc_refine_val (a cur v : Z) : Z := Z.lor cur (if Z.testbit v a then Z.shiftl 1 a else 0).
Definition ac_first_val (a v : Z) : Z := ac_state a v.
(* newly nonzero: |v| >> a = 1 -> +-(1 << a); already nonzero: correction bit = bit a of |v| *)
Definition ac_refine_val (a cur v : Z) : Z :=
  if cur =? 0 then
    (if Z.shiftr (Z.abs v) a =? 1 then (if v <? 0 then - Z.shiftl 1 a else Z.shiftl 1 a) else 0)
  else acr_correct a cur (Z.odd (Z.shiftr (Z.abs v) a)).

Fixpoint run_chain (firstv : Z -> Z -> Z) (refv : Z -> Z -> Z -> Z) (l : list (Z * Z)) (cur v : Z) : Z :=
  match l with
  | [] => cur
  | (ah, al) :: t => run_chain firstv refv t (if ah =? 0 then firstv al v else refv al cur v) v
  end.

Lemma dc_refine_step a v : 0 <= a -> dc_refine_val a (dc_state (a + 1) v) v = dc_state a v.
Proof. intros Ha. unfold dc_refine_val, dc_state. now apply dc_refine_value. Qed.

Lemma land_mul_pow2_low k j : 0 <= j -> Z.land (k * 2 ^ (j + 1)) (2 ^ j) = 0.
Proof.
  intros Hj. apply Z.bits_inj'. intros n Hn. rewrite Z.land_spec, Z.bits_0.
  rewrite Z.pow2_bits_eqb by lia. destruct (Z.eqb_spec j n) as [->|Hne]; [|apply andb_false_r].
  rewrite Z.mul_pow2_bits_low by lia. reflexivity.
Qed.

Lemma ac_refine_step a v : 0 <= a -> ac_refine_val a (ac_state (a + 1) v) v = ac_state a v.
Proof.
  intros Ha. unfold ac_refine_val, ac_state, pt_ac, acr_correct, p1.
  rewrite !Z.shiftl_mul_pow2 by lia. rewrite !Z.shiftr_div_pow2 by lia. rewrite Z.mul_1_l.
  set (m := Z.abs v). assert (Hm : 0 <= m) by (unfold m; lia).
  assert (Hp : 2 ^ (a + 1) = 2 ^ a * 2) by (rewrite Z.pow_add_r by lia; reflexivity).
  assert (Hpa : 0 < 2 ^ a) by (apply Z.pow_pos_nonneg; lia).
  set (t := m / 2 ^ a). assert (Ht : 0 <= t) by (apply Z.div_pos; lia).
  assert (Hq : m / 2 ^ (a + 1) = t / 2) by (rewrite Hp; unfold t; rewrite Z.div_div by lia; reflexivity).
  pose proof (Z.div_mod t 2 ltac:(lia)) as Hdm. pose proof (Z.mod_pos_bound t 2 ltac:(lia)) as Hmb.
  assert (Hodd : Z.odd t = (t mod 2 =? 1)).
  { rewrite <- Z.bit0_odd. pose proof (Z.bit0_mod t) as Hb. destruct (Z.testbit t 0); cbn in Hb.
    - symmetry. apply Z.eqb_eq. lia.
    - symmetry. apply Z.eqb_neq. lia. }
  assert (Hq0 : 0 <= t / 2) by (apply Z.div_pos; lia).
  destruct (v <? 0) eqn:Ev.
  - apply Z.ltb_lt in Ev. replace (- v) with m by (unfold m; lia). fold t. rewrite Hq.
    destruct (- (t / 2) * 2 ^ (a + 1) =? 0) eqn:E0.
    + apply Z.eqb_eq in E0. assert (t / 2 = 0) by nia.
      destruct (t =? 1) eqn:E1; [apply Z.eqb_eq in E1; rewrite E1; lia|apply Z.eqb_neq in E1; assert (t = 0) by lia; lia].
    + apply Z.eqb_neq in E0. rewrite Hodd. destruct (t mod 2 =? 1) eqn:Eb.
      * apply Z.eqb_eq in Eb. replace (- (t / 2) * 2 ^ (a + 1)) with ((- (t / 2)) * 2 ^ (a + 1)) by lia.
        rewrite land_mul_pow2_low by lia. cbn [Z.eqb].
        destruct (- (t / 2) * 2 ^ (a + 1) >=? 0) eqn:Eg; [rewrite Z.geb_leb in Eg; apply Z.leb_le in Eg; nia|]. nia.
      * apply Z.eqb_neq in Eb. nia.
  - apply Z.ltb_ge in Ev. replace v with m by (unfold m; lia). fold t. rewrite Hq.
    destruct (t / 2 * 2 ^ (a + 1) =? 0) eqn:E0.
    + apply Z.eqb_eq in E0. assert (t / 2 = 0) by nia.
      destruct (t =? 1) eqn:E1; [apply Z.eqb_eq in E1; rewrite E1; lia|apply Z.eqb_neq in E1; assert (t = 0) by lia; lia].
    + apply Z.eqb_neq in E0. rewrite Hodd. destruct (t mod 2 =? 1) eqn:Eb.
      * apply Z.eqb_eq in Eb. rewrite land_mul_pow2_low by lia. cbn [Z.eqb].
        destruct (t / 2 * 2 ^ (a + 1) >=? 0) eqn:Eg; [nia|]. rewrite Z.geb_leb in Eg. apply Z.leb_gt in Eg. nia.
      * apply Z.eqb_neq in Eb. nia.
Qed.

Section Chain.
Variable state : Z -> Z -> Z.
Variable firstv : Z -> Z -> Z.
Variable refv : Z -> Z -> Z -> Z.
Hypothesis first_ok : forall a v, firstv a v = state a v.
Hypothesis ref_ok : forall a v, 0 <= a -> refv a (state (a + 1) v) v = state a v.

Lemma run_chain_state v : forall l last cur,
  chain_from last l -> (0 <= last -> cur = state last v) -> (l <> [] \/ 0 <= last) ->
  run_chain firstv refv l cur v = state (last_al last l) v.
Proof.
  induction l as [|[ah al] t IH]; intros last cur Hc Hcur Hne.
  - cbn. destruct Hne as [H|H]; [congruence|]. now apply Hcur.
  - cbn [chain_from] in Hc. destruct Hc as [[Hs Hal] Ht]. cbn [run_chain last_al].
    apply IH; [exact Ht| |right; exact Hal]. intros _.
    destruct (last <? 0) eqn:El.
    + subst ah. cbn [Z.eqb]. apply first_ok.
    + apply Z.ltb_ge in El. destruct Hs as [-> ->].
      destruct (last =? 0) eqn:E0; [apply Z.eqb_eq in E0; lia|].
      rewrite (Hcur El). pose proof (ref_ok (last - 1) v Hal) as H. replace (last - 1 + 1) with last in H by lia. exact H.
Qed.
End Chain.

Theorem sa_chain_restores nc prec scans st :
  0 <= nc -> validate_script nc prec scans = inr (Progressive, st) -> script_complete st = true ->
  forall c k v, 0 <= c < nc -> 0 <= k < 64 ->
    (k = 0 -> run_chain dc_first_val dc_refine_val (scans_of scans c k) 0 v = v) /\
    (k <> 0 -> run_chain ac_first_val ac_refine_val (scans_of scans c k) 0 v = v).
Proof.
  intros Hnc Hv Hcomp c k v Hc Hk.
  destruct (script_valid_chain_thm nc prec scans st Hnc Hv) as [Hchain [_ [_ [_ Hcm]]]].
  destruct (Hcm Hcomp c k Hc Hk) as [Hne Hlast]. specialize (Hchain c k Hc Hk). split; intros _.
  - rewrite (run_chain_state dc_state dc_first_val dc_refine_val (fun _ _ => eq_refl) dc_refine_step v _ (-1) 0 Hchain);
      [rewrite Hlast; apply dc_state_0|lia|now left].
  - rewrite (run_chain_state ac_state ac_first_val ac_refine_val (fun _ _ => eq_refl) ac_refine_step v _ (-1) 0 Hchain);
      [rewrite Hlast; apply ac_state_0|lia|now left].
Qed.
