(* C17: non-vacuity -- concrete accepted inputs for the implications of props/C17.v *)
From Coq Require Import List ZArith Bool Lia.
From LJT Require Import model.Huff gen.GenParams model.CParams proofs.CParamsHoare proofs.CParamsScript
  proofs.CParamsChain proofs.CParamsSetup proofs.CParamsBlock.
Import ListNotations.
Local Open Scope Z_scope.

Definition sc (comps : list Z) (Ss Se Ah Al : Z) : scan :=
  {| s_ncomps := Z.of_nat (length comps); s_comps := comps ++ repeat 0 (4 - length comps);
     s_Ss := Ss; s_Se := Se; s_Ah := Ah; s_Al := Al |}.

(* jcparam.c jpeg_simple_progression, YCbCr (3 components): the 10-scan script *)
Definition std_prog_ycc : list scan :=
  [ sc [0;1;2] 0 0 0 1; sc [0] 1 5 0 2; sc [2] 1 63 0 1; sc [1] 1 63 0 1; sc [0] 6 63 0 2;
    sc [0] 1 63 2 1; sc [0;1;2] 0 0 1 0; sc [2] 1 63 1 0; sc [1] 1 63 1 0; sc [0] 1 63 1 0 ].

(* the all-purpose script for ncomps = 1 (2 + 4 scans) *)
Definition std_prog_gray : list scan :=
  [ sc [0] 0 0 0 1; sc [0] 1 5 0 2; sc [0] 6 63 0 2; sc [0] 1 63 2 1; sc [0] 0 0 1 0; sc [0] 1 63 1 0 ].

Lemma std_prog_ycc_accepted : snd (validate_script 3 8 std_prog_ycc) = inr Progressive.
Proof. vm_compute. reflexivity. Qed.
Lemma std_prog_gray_accepted : snd (validate_script 1 8 std_prog_gray) = inr Progressive.
Proof. vm_compute. reflexivity. Qed.
Lemma std_prog_ycc_hist : hist std_prog_ycc 0 3 = [(0, 2); (2, 1); (1, 0)] /\ hist std_prog_ycc 2 0 = [(0, 1); (1, 0)].
Proof. vm_compute. split; reflexivity. Qed.

(* single violations are rejected with the expected class *)
Lemma script_rejections :
  snd (validate_script 3 8 [sc [0;1;2] 0 0 0 1; sc [0] 1 63 0 0; sc [0] 1 63 0 0]) = inl BadProgScript /\  (* band sent twice *)
  snd (validate_script 3 8 [sc [0] 1 63 0 0]) = inl BadProgScript /\                                       (* AC before DC *)
  snd (validate_script 3 8 [sc [0;1;2] 0 0 0 2; sc [0;1;2] 0 0 2 0]) = inl BadProgScript /\                (* Al not Ah-1 *)
  snd (validate_script 3 8 [sc [0;1;2] 0 0 0 11]) = inl BadProgScript /\                                   (* Al > 10 at 8 bits *)
  snd (validate_script 3 12 [sc [0;1;2] 0 0 0 13]) = inr Progressive /\
  snd (validate_script 3 8 [sc [0;0] 0 0 0 0]) = inl BadScanScript /\                                      (* duplicate component *)
  snd (validate_script 3 8 [sc [3] 0 0 0 0]) = inl BadScanScript /\                                        (* component index *)
  snd (validate_script 3 8 [sc [0;1] 0 0 0 0]) = inl MissingData /\
  snd (validate_script 11 8 [sc [0] 0 0 0 0]) = inl ComponentCount /\
  snd (validate_script 3 8 [sc [0;1;2] 0 63 0 0]) = inr Sequential /\
  snd (validate_script 3 16 [sc [0;1;2] 7 0 0 15]) = inr Lossless.
Proof. vm_compute. repeat split. Qed.

(* initial_setup / per_scan_setup: 4:2:0 at 33x17 accepted; 11 blocks per MCU rejected *)
Definition c420 : list comp := [{| c_h := 2; c_v := 2 |}; {| c_h := 1; c_v := 1 |}; {| c_h := 1; c_v := 1 |}].
Lemma setup_examples :
  match snd (initial_setup 33 17 3 3 8 false c420) with
  | inr u => snd (per_scan_setup 33 17 false u 3 [0;1;2] 0 70000) =
               inr {| i_blocks_in_MCU := 6; i_membership := [0;0;0;0;1;2]; i_MCUs_per_row := 3; i_MCU_rows := 2;
                      i_restart_interval := 65535; i_last := [(1, 1); (1, 1); (1, 1)] |}
  | inl _ => False end /\
  match snd (initial_setup 33 17 3 3 8 false [{| c_h := 4; c_v := 2 |}; {| c_h := 2; c_v := 1 |}; {| c_h := 1; c_v := 1 |}]) with
  | inr u => snd (per_scan_setup 33 17 false u 3 [0;1;2] 0 0) = inl BadMcuSize
  | inl _ => False end /\
  snd (initial_setup 65501 1 1 1 8 false c420) = inl ImageTooBig /\
  snd (initial_setup 8 8 3 3 8 false [{| c_h := 5; c_v := 1 |}; {| c_h := 1; c_v := 1 |}; {| c_h := 1; c_v := 1 |}]) = inl BadSampling.
Proof. vm_compute. repeat split. Qed.

(* a worst-case-looking block at 12 bits: every coefficient 16383, all symbols 16 bits long *)
Definition long_tbl : ctbl := {| ehufco := repeat 65534 257; ehufsi := repeat 16 257 |}.
Lemma long_tbl_ok : tbl_ok long_tbl.
Proof.
  intro i. unfold long_tbl, nthZ. cbn [ehufsi]. destruct (Nat.lt_ge_cases i 257) as [H|H].
  - assert (E : nth i (repeat 16 257) 0 = 16).
    { clear -H. revert i H. generalize 257%nat. induction n; intros [|i] H; cbn; try lia; auto. apply IHn. lia. }
    rewrite E. lia.
  - rewrite nth_overflow; [lia|rewrite repeat_length; lia].
Qed.
Lemma worst_block_bytes :
  match encode_one_block 12 long_tbl long_tbl bitstate0 0 (32767 :: repeat 16383 63) with
  | inr st => length (b_out st) = 416%nat
  | inl _ => False
  end.
Proof. vm_compute. reflexivity. Qed.
Lemma out_of_range_rejected :
  encode_one_block 8 long_tbl long_tbl bitstate0 0 (0 :: 1024 :: repeat 0 62) = inl BadDctCoef /\
  encode_one_block 8 long_tbl long_tbl bitstate0 0 (4096 :: repeat 0 63) = inl BadDctCoef /\
  encode_one_block 8 long_tbl {| ehufco := repeat 0 257; ehufsi := repeat 0 257 |} bitstate0 0 (0 :: 5 :: repeat 0 62) = inl MissingCode.
Proof. vm_compute. repeat split; reflexivity. Qed.

(* a restart interval above 65535 stored directly is limited to the 16 bits of the DRI marker *)
Lemma restart_interval_clamped :
  match snd (initial_setup 8 8 1 1 8 false [{| c_h := 1; c_v := 1 |}]) with
  | inr u => match snd (per_scan_setup 8 8 false u 1 [0] 100000 0) with
             | inr i => i_restart_interval i = 65535 | inl _ => False end
  | inl _ => False end.
Proof. vm_compute. reflexivity. Qed.
