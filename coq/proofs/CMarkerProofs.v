(* C17: the datastream assembled by the marker writer along the master's pass events starts with SOI,
   ends with EOI, and a reader of its markers knows every table (and the restart interval) with exactly
   the encoder's content at the point of use. *)
From Coq Require Import List ZArith Bool Lia ZifyBool.
From LJT Require Import lib.Sweep model.Huff gen.GenParams model.CParams model.CRestart model.CMarker proofs.CParamsPasses.
Import ListNotations.
Local Open Scope Z_scope.

(* ------------------------------------------------------------------ framing *)
Lemma assemble_last img scans data regen : forall ev st t,
  assemble img scans data regen (ev ++ [EvEOI]) st = inr t -> exists t0, t = t0 ++ [MkEOI].
Proof.
  induction ev as [|e r IH]; intros st t H; cbn [app assemble] in H.
  - cbn in H. injection H as <-. exists []. reflexivity.
  - destruct (step_event img scans data regen e st) as [x|[m st']]; [discriminate|].
    destruct (assemble img scans data regen (r ++ [EvEOI]) st') as [x|t'] eqn:E; [discriminate|].
    injection H as <-. destruct (IH _ _ E) as [t0 ->]. exists (m ++ t0). rewrite app_assoc. reflexivity.
Qed.

Lemma assemble_first img scans data regen r st t :
  assemble img scans data regen (EvSOI :: r) st = inr t -> exists t1, t = MkSOI :: t1.
Proof.
  cbn [assemble step_event]. unfold write_file_header.
  destruct (assemble img scans data regen r _) as [x|t']; [discriminate|].
  intro H. injection H as <-. eexists. reflexivity.
Qed.

Lemma bytes_of_app a b : bytes_of (a ++ b) = bytes_of a ++ bytes_of b.
Proof. unfold bytes_of. apply flat_map_app. Qed.

Theorem stream_complete_full_lemma : forall img scans data regen n optimize dcr st, 1 <= n ->
  exists ev, run_master n optimize dcr = Some ev /\
    forall tr, assemble img scans data regen ev st = inr tr ->
      exists body, bytes_of tr = [255; 216] ++ body ++ [255; 217].
Proof.
  intros img scans data regen n optimize dcr st Hn.
  destruct (stream_complete_partial_lemma n optimize dcr Hn) as [ev [E [Hh [Hl _]]]].
  exists ev. split; [exact E|]. intros tr Ha.
  destruct ev as [|e r]; [cbn in Hh; discriminate|]. cbn [hd] in Hh. subst e.
  assert (Hr : r <> []) by (intro; subst r; cbn in Hl; discriminate).
  destruct (exists_last Hr) as [r0 [x ->]].
  assert (x = EvEOI).
  { change (EvSOI :: r0 ++ [x]) with ((EvSOI :: r0) ++ [x]) in Hl. rewrite last_last in Hl. exact Hl. }
  subst x.
  change (EvSOI :: r0 ++ [EvEOI]) with ((EvSOI :: r0) ++ [EvEOI]) in Ha.
  destruct (assemble_last _ _ _ _ _ _ _ Ha) as [t0 Ht].
  cbn [app] in Ha. destruct (assemble_first _ _ _ _ _ _ _ Ha) as [t1 Ht1].
  subst tr. destruct t0 as [|m0 t0']; [cbn in Ht1; discriminate|]. cbn [app] in Ht1. injection Ht1 as -> _.
  exists (bytes_of t0'). cbn [app]. change (MkSOI :: t0' ++ [MkEOI]) with ([MkSOI] ++ t0' ++ [MkEOI]).
  rewrite !bytes_of_app. reflexivity.
Qed.

(* ------------------------------------------------------------------ tables *)
Lemma upd_length'' {A} (i : nat) (x : A) l : length (upd i x l) = length l.
Proof. revert i; induction l as [|h t IH]; intros [|i]; cbn; auto. Qed.
Lemma nth_upd_same'' {A} (i : nat) (x d : A) l : (i < length l)%nat -> nth i (upd i x l) d = x.
Proof. revert i; induction l as [|h t IH]; intros [|i] H; cbn in *; try lia; auto. apply IH. lia. Qed.
Lemma nth_upd_other'' {A} (i j : nat) (x d : A) l : i <> j -> nth j (upd i x l) d = nth j l d.
Proof. revert i j; induction l as [|h t IH]; intros [|i] [|j] H; cbn; auto; try lia. Qed.

Definition sent_true (st : wstate) (slot : Z) : Prop := exists t, get_tbl st slot = Some t /\ t_sent t = true.
Definition inv (st : wstate) (d : dview) : Prop :=
  length (w_tbls st) = 12%nat /\ length (d_tbls d) = 12%nat /\ w_last_ri st = d_ri d /\
  forall slot t, 0 <= slot < 12 -> get_tbl st slot = Some t -> t_sent t = true -> dget d slot = Some (content slot t).

Lemma known_of_inv st d slot : inv st d -> 0 <= slot < 12 -> sent_true st slot -> known st d slot = true.
Proof.
  intros [_ [_ [_ H]]] Hs [t [Hg Ht]]. unfold known. rewrite Hg, (H slot t Hs Hg Ht).
  destruct (content slot t) as [a b]. destruct (list_eq_dec Z.eq_dec a a); [|congruence].
  destruct (list_eq_dec Z.eq_dec b b); [reflexivity|congruence].
Qed.

(* marking one table as sent while telling the reader its content keeps the invariant *)
Lemma inv_set_sent st d slot t c :
  inv st d -> 0 <= slot < 12 -> get_tbl st slot = Some t -> c = content slot t ->
  inv (set_sent st slot t) {| d_tbls := upd (Z.to_nat slot) (Some c) (d_tbls d); d_ri := d_ri d |} /\
  sent_true (set_sent st slot t) slot /\
  (forall s, sent_true st s -> sent_true (set_sent st slot t) s).
Proof.
  intros [L1 [L2 [Hri H]]] Hs Hg ->.
  assert (N1 : forall x, nth (Z.to_nat slot) (upd (Z.to_nat slot) x (w_tbls st)) None = x)
    by (intro x; apply nth_upd_same''; lia).
  assert (N2 : forall x, nth (Z.to_nat slot) (upd (Z.to_nat slot) x (d_tbls d)) None = x)
    by (intro x; apply nth_upd_same''; lia).
  assert (O1 : forall s x, 0 <= s -> slot <> s -> nth (Z.to_nat s) (upd (Z.to_nat slot) x (w_tbls st)) None = nth (Z.to_nat s) (w_tbls st) None)
    by (intros s x H0 Hn; apply nth_upd_other''; lia).
  assert (O2 : forall s x, 0 <= s -> slot <> s -> nth (Z.to_nat s) (upd (Z.to_nat slot) x (d_tbls d)) None = nth (Z.to_nat s) (d_tbls d) None)
    by (intros s x H0 Hn; apply nth_upd_other''; lia).
  split; [|split].
  - unfold inv, set_sent, get_tbl, dget. cbn [w_tbls w_last_ri d_tbls d_ri]. rewrite !upd_length''.
    split; [exact L1|]. split; [exact L2|]. split; [exact Hri|].
    intros s t' Hs' Hg' Ht'. destruct (Z.eq_dec slot s) as [<-|Hne].
    + rewrite N1 in Hg'. rewrite N2. injection Hg' as <-. unfold content. cbn [t_a t_b]. reflexivity.
    + rewrite O1 in Hg' by lia. rewrite O2 by lia. apply (H s t' Hs' Hg' Ht').
  - unfold sent_true, set_sent, get_tbl. cbn [w_tbls]. eexists. rewrite N1. split; reflexivity.
  - intros s [t' [Hg' Ht']]. unfold sent_true, set_sent, get_tbl in *. cbn [w_tbls].
    destruct (Z.eq_dec slot s) as [<-|Hne].
    + eexists. rewrite N1. split; reflexivity.
    + destruct (Z_lt_ge_dec s 0) as [Hneg|Hpos].
      * (* negative slots read entry 0 *)
        destruct (Z.eq_dec slot 0) as [->|H0].
        -- replace (Z.to_nat s) with (Z.to_nat 0) in * by lia. eexists. rewrite N1. split; reflexivity.
        -- exists t'. replace (Z.to_nat s) with (Z.to_nat 0) in * by lia. rewrite O1 by lia. split; assumption.
      * exists t'. rewrite O1 by lia. split; assumption.
Qed.

Lemma tblno_ok_range n : tblno_ok n = true -> 0 <= n < 4.
Proof. unfold tblno_ok. change g_NUM_QUANT_TBLS with 4. lia. Qed.

Lemma emit_dht_inv st d index is_ac m st' :
  emit_dht st index is_ac = inr (m, st') -> inv st d ->
  let slot := if is_ac then acslot index else dcslot index in
  inv st' (fold_left dview_step m d) /\ sent_true st' slot /\ 0 <= slot < 12 /\
  (forall s, sent_true st s -> sent_true st' s).
Proof.
  unfold emit_dht. intros H Hi. destruct (tblno_ok index) eqn:Eok; [|discriminate]. cbn [negb] in H.
  apply tblno_ok_range in Eok. cbv zeta.
  set (slot := if is_ac then acslot index else dcslot index) in *.
  assert (Hs : 0 <= slot < 12) by (unfold slot, acslot, dcslot; destruct is_ac; lia).
  destruct (get_tbl st slot) as [h|] eqn:Eg; [|discriminate].
  destruct (t_sent h) eqn:Es.
  - injection H as <- <-. cbn [fold_left]. split; [exact Hi|]. split; [exists h; auto|]. split; [lia|auto].
  - injection H as <- <-. cbn [fold_left dview_step].
    destruct (inv_set_sent st d slot h (content slot h) Hi Hs Eg ltac:(reflexivity)) as [A [B C]].
    assert (Eslot : (if (if is_ac then index + 16 else index) <? 16 then dcslot (if is_ac then index + 16 else index)
                     else acslot ((if is_ac then index + 16 else index) - 16)) = slot).
    { unfold slot. destruct is_ac.
      - replace (index + 16 <? 16) with false by lia. f_equal. lia.
      - replace (index <? 16) with true by lia. reflexivity. }
    rewrite Eslot.
    assert (Ec : (bits16 h, huffvals h) = content slot h).
    { unfold content. replace (slot <? 4) with false by (unfold slot, acslot, dcslot; destruct is_ac; lia). reflexivity. }
    rewrite Ec. split; [exact A|]. split; [exact B|]. split; [lia|exact C].
Qed.

Lemma emit_dqt_inv st d index m st' p :
  emit_dqt st index = inr (m, st', p) -> inv st d ->
  inv st' (fold_left dview_step m d) /\ sent_true st' (qslot index) /\ 0 <= qslot index < 12 /\
  (forall s, sent_true st s -> sent_true st' s).
Proof.
  unfold emit_dqt. intros H Hi. change (g_DQT_INDEX_CHECK =? 1) with true in H. destruct (tblno_ok index) eqn:Eok; [|discriminate]. cbn [negb andb] in H.
  apply tblno_ok_range in Eok. unfold qslot in *.
  destruct (get_tbl st index) as [q|] eqn:Eg; [|discriminate].
  destruct (t_sent q) eqn:Es.
  - injection H as <- <- _. cbn [fold_left]. split; [exact Hi|]. split; [exists q; auto|]. split; [lia|auto].
  - injection H as <- <- _. cbn [fold_left dview_step]. unfold qslot.
    destruct (inv_set_sent st d index q (content index q) Hi ltac:(lia) Eg ltac:(reflexivity)) as [A [B C]].
    assert (Ec : (t_a q, @nil Z) = content index q) by (unfold content; replace (index <? 4) with true by lia; reflexivity).
    rewrite Ec. split; [exact A|]. split; [exact B|]. split; [lia|exact C].
Qed.

Lemma fold_dview_app l1 l2 d : fold_left dview_step (l1 ++ l2) d = fold_left dview_step l2 (fold_left dview_step l1 d).
Proof. apply fold_left_app. Qed.

Lemma dqt_loop_inv : forall comps st d acc prec m st' p,
  dqt_loop st comps acc prec = inr (m, st', p) -> inv st (fold_left dview_step acc d) ->
  inv st' (fold_left dview_step m d) /\
  (forall s, sent_true st s -> sent_true st' s) /\
  Forall (fun c => sent_true st' (qslot (k_tq c)) /\ 0 <= qslot (k_tq c) < 12) comps.
Proof.
  induction comps as [|c r IH]; intros st d acc prec m st' p H Hi; cbn [dqt_loop] in H.
  - injection H as <- <- _. split; [exact Hi|]. split; [auto|constructor].
  - destruct (emit_dqt st (k_tq c)) as [e|[[m1 st1] p1]] eqn:E; [discriminate|].
    destruct (emit_dqt_inv _ _ _ _ _ _ E Hi) as [A [B [C D]]].
    rewrite <- fold_dview_app in A.
    destruct (IH _ _ _ _ _ _ _ H A) as [A' [D' F']].
    split; [exact A'|]. split; [intros s Hs; apply D', D, Hs|].
    constructor; [split; [apply D', B|exact C]|exact F'].
Qed.

Lemma dht_loop_inv img s : forall comps st d acc m st',
  dht_loop img s st comps acc = inr (m, st') -> inv st (fold_left dview_step acc d) ->
  inv st' (fold_left dview_step m d) /\
  (forall x, sent_true st x -> sent_true st' x) /\
  Forall (fun ci => let c := get_comp img ci in
            (needs_dc img s = true -> sent_true st' (dcslot (k_td c)) /\ 0 <= dcslot (k_td c) < 12) /\
            (needs_ac img s = true -> sent_true st' (acslot (k_ta c)) /\ 0 <= acslot (k_ta c) < 12)) comps.
Proof.
  induction comps as [|ci r IH]; intros st d acc m st' H Hi; cbn [dht_loop] in H.
  - injection H as <- <-. split; [exact Hi|]. split; [auto|constructor].
  - cbv zeta in H. set (c := get_comp img ci) in *.
    destruct (if needs_dc img s then emit_dht st (k_td c) false else inr ([], st)) as [e|[m1 st1]] eqn:E1; [discriminate|].
    destruct (if needs_ac img s then emit_dht st1 (k_ta c) true else inr ([], st1)) as [e|[m2 st2]] eqn:E2; [discriminate|].
    assert (S1 : inv st1 (fold_left dview_step (acc ++ m1) d) /\ (forall x, sent_true st x -> sent_true st1 x) /\
                 (needs_dc img s = true -> sent_true st1 (dcslot (k_td c)) /\ 0 <= dcslot (k_td c) < 12)).
    { destruct (needs_dc img s).
      - destruct (emit_dht_inv _ _ _ _ _ _ E1 Hi) as [A [B [C D]]]. cbv zeta in *. rewrite fold_dview_app. auto.
      - injection E1 as <- <-. rewrite app_nil_r. split; [exact Hi|]. split; [auto|discriminate]. }
    destruct S1 as [I1 [M1 N1]].
    assert (S2 : inv st2 (fold_left dview_step (acc ++ m1 ++ m2) d) /\ (forall x, sent_true st1 x -> sent_true st2 x) /\
                 (needs_ac img s = true -> sent_true st2 (acslot (k_ta c)) /\ 0 <= acslot (k_ta c) < 12)).
    { destruct (needs_ac img s).
      - destruct (emit_dht_inv _ _ _ _ _ _ E2 I1) as [A [B [C D]]]. cbv zeta in *.
        rewrite app_assoc, fold_dview_app. auto.
      - injection E2 as <- <-. rewrite app_nil_r. split; [exact I1|]. split; [auto|discriminate]. }
    destruct S2 as [I2 [M2 N2]].
    destruct (IH _ _ _ _ _ H I2) as [A' [D' F']].
    split; [exact A'|]. split; [intros x Hx; apply D', M2, M1, Hx|].
    constructor; [|exact F']. cbv zeta. fold c. split.
    + intro Hn. destruct (N1 Hn) as [X Y]. split; [apply D', M2, X|exact Y].
    + intro Hn. destruct (N2 Hn) as [X Y]. split; [apply D', X|exact Y].
Qed.

Lemma dview_noop_inv st d m : inv st d ->
  (forall x, In x m -> match x with MkSOI | MkDQT _ _ _ | MkDHT _ _ _ | MkDRI _ => False | _ => True end) ->
  inv st (fold_left dview_step m d).
Proof.
  revert d. induction m as [|x m IH]; intros d Hi Hm; cbn [fold_left]; [exact Hi|].
  apply IH; [|intros y Hy; apply Hm; right; exact Hy].
  specialize (Hm x (or_introl eq_refl)). destruct x; cbn [dview_step]; try contradiction; exact Hi.
Qed.

Definition regen_ok (regen : Z -> wstate -> wstate) : Prop :=
  forall k st, length (w_tbls (regen k st)) = length (w_tbls st) /\ w_last_ri (regen k st) = w_last_ri st /\
    forall slot, get_tbl (regen k st) slot = get_tbl st slot \/
                 (forall t, get_tbl (regen k st) slot = Some t -> t_sent t = false).

Lemma step_event_inv img scans data regen e st d m st' :
  regen_ok regen -> step_event img scans data regen e st = inr (m, st') -> inv st d ->
  inv st' (fold_left dview_step m d) /\ check_event img scans e st' (fold_left dview_step m d) = true.
Proof.
  intros Hreg H Hi. destruct e; cbn [step_event] in H.
  - (* SOI *) unfold write_file_header in H. injection H as <- <-.
    destruct Hi as [L1 [L2 [Hri Ht]]].
    assert (I0 : inv {| w_tbls := w_tbls st; w_last_ri := 0 |} (dview_step d MkSOI)).
    { unfold inv, get_tbl, dget in *. cbn. repeat split; assumption. }
    split; [|reflexivity]. cbn [app fold_left].
    apply dview_noop_inv; [exact I0|]. intros x Hx. apply in_app_or in Hx.
    destruct Hx as [Hx|Hx]; [destruct (im_jfif img) as [[[[[? ?] ?] ?] ?]|]|destruct (im_adobe img)]; cbn in Hx;
      try contradiction; destruct Hx as [<-|[]]; exact I.
  - (* frame header *) unfold write_frame_header in H.
    destruct (im_lossless img) eqn:El.
    + injection H as <- <-. cbn [app fold_left dview_step]. split; [exact Hi|]. cbn [check_event]. rewrite El. reflexivity.
    + destruct (dqt_loop st (im_comps img) [] 0) as [x|[[m1 st1] p]] eqn:E; [discriminate|]. injection H as <- <-.
      destruct (dqt_loop_inv _ _ d _ _ _ _ _ E Hi) as [A [_ F]].
      rewrite fold_dview_app. cbn [fold_left dview_step]. split; [exact A|].
      cbn [check_event]. rewrite El. cbn [orb]. apply forallb_forall. intros c Hc.
      rewrite Forall_forall in F. destruct (F c Hc) as [X Y]. apply known_of_inv; assumption.
  - (* scan header *) unfold write_scan_header in H. set (s := scans scan) in *.
    destruct (im_arith img) eqn:Ea.
    + destruct (dri_step (w_last_ri st) (sp_ri s)) as [emit last'] eqn:Ed. injection H as <- <-.
      unfold dri_step in Ed. change (g_DRI_RULE =? 1) with true in Ed. cbv iota in Ed.
      destruct Hi as [L1 [L2 [Hri Ht]]].
      assert (Hd : inv st (fold_left dview_step (emit_dac img s) d)).
      { apply dview_noop_inv; [unfold inv; auto|]. intros x Hx. unfold emit_dac in Hx.
        match type of Hx with In _ (match ?l with _ => _ end) => destruct l end; [contradiction|]. destruct Hx as [<-|[]]. exact I. }
      rewrite !fold_dview_app. unfold sos_of.
      destruct (negb (sp_ri s =? w_last_ri st)) eqn:En; injection Ed as <- <-; cbn [fold_left dview_step].
      * destruct Hd as [A [B [C D]]]. split.
        -- unfold inv, get_tbl, dget in *. cbn. repeat split; assumption.
        -- cbn [check_event]. fold s. rewrite Ea. cbn [orb d_ri]. rewrite andb_true_r. apply Z.eqb_eq. reflexivity.
      * destruct Hd as [A [B [C D]]]. split.
        -- unfold inv, get_tbl, dget in *. cbn. repeat split; assumption.
        -- cbn [check_event]. fold s. rewrite Ea. cbn [orb]. rewrite andb_true_r. apply Z.eqb_eq. lia.
    + destruct (dht_loop img s st (sp_comps s) []) as [x|[m1 st1]] eqn:E; [discriminate|].
      destruct (dri_step (w_last_ri st1) (sp_ri s)) as [emit last'] eqn:Ed. injection H as <- <-.
      unfold dri_step in Ed. change (g_DRI_RULE =? 1) with true in Ed. cbv iota in Ed.
      destruct (dht_loop_inv img s _ _ d _ _ _ E Hi) as [A [_ F]].
      rewrite !fold_dview_app. unfold sos_of.
      set (d1 := fold_left dview_step m1 d) in *.
      assert (Hk : forall dd, inv {| w_tbls := w_tbls st1; w_last_ri := last' |} dd ->
                   forallb (fun ci => let c := get_comp img ci in
                     (negb (needs_dc img s) || known {| w_tbls := w_tbls st1; w_last_ri := last' |} dd (dcslot (k_td c))) &&
                     (negb (needs_ac img s) || known {| w_tbls := w_tbls st1; w_last_ri := last' |} dd (acslot (k_ta c)))) (sp_comps s) = true).
      { intros dd Hdd. apply forallb_forall. intros ci Hci. rewrite Forall_forall in F. destruct (F ci Hci) as [X Y]. cbv zeta in *.
        apply andb_true_intro. split.
        - destruct (needs_dc img s); [|reflexivity]. destruct (X eq_refl) as [P Q]. cbn [negb orb]. apply known_of_inv; assumption.
        - destruct (needs_ac img s); [|reflexivity]. destruct (Y eq_refl) as [P Q]. cbn [negb orb]. apply known_of_inv; assumption. }
      destruct A as [L1 [L2 [Hri Ht]]].
      destruct (negb (sp_ri s =? w_last_ri st1)) eqn:En; injection Ed as <- <-; cbn [fold_left dview_step].
      * assert (I2 : inv {| w_tbls := w_tbls st1; w_last_ri := sp_ri s |} {| d_tbls := d_tbls d1; d_ri := sp_ri s |})
          by (unfold inv, get_tbl, dget in *; cbn; repeat split; assumption).
        split; [exact I2|]. cbn [check_event]. fold s. rewrite Ea. cbn [orb d_ri]. rewrite Z.eqb_refl. cbn [andb]. apply Hk. exact I2.
      * assert (I2 : inv {| w_tbls := w_tbls st1; w_last_ri := w_last_ri st1 |} d1)
          by (unfold inv, get_tbl, dget in *; cbn; repeat split; assumption).
        split; [exact I2|]. cbn [check_event]. fold s. rewrite Ea. cbn [orb].
        replace (d_ri d1 =? sp_ri s) with true by lia. cbn [andb]. apply Hk. exact I2.
  - (* gather: new tables are unsent *) injection H as <- <-. cbn [fold_left]. split; [|reflexivity].
    destruct Hi as [L1 [L2 [Hri Ht]]]. destruct (Hreg scan st) as [R1 [R2 R3]].
    unfold inv. rewrite R1, R2. repeat split; try assumption.
    intros slot t Hs Hg Hsent. destruct (R3 slot) as [Eq|Hun].
    + rewrite Eq in Hg. apply (Ht slot t Hs Hg Hsent).
    + rewrite (Hun t Hg) in Hsent. discriminate.
  - (* data *) injection H as <- <-. cbn [fold_left dview_step]. split; [exact Hi|reflexivity].
  - (* EOI *) injection H as <- <-. cbn [fold_left dview_step]. split; [exact Hi|reflexivity].
Qed.

(* every table and the restart interval are known to the reader, with the encoder's content, at the point of
   use -- for every event sequence, every image description, every table content, every regeneration *)
Theorem tables_before_use_lemma : forall img scans data regen ev st d,
  regen_ok regen -> inv st d -> audit img scans data regen ev st d = true.
Proof.
  intros img scans data regen ev. induction ev as [|e r IH]; intros st d Hreg Hi; cbn [audit]; [reflexivity|].
  destruct (step_event img scans data regen e st) as [x|[m st']] eqn:E; [reflexivity|].
  destruct (step_event_inv _ _ _ _ _ _ _ _ _ Hreg E Hi) as [A B].
  rewrite B. cbn [andb]. apply IH; assumption.
Qed.

(* jpeg_start_compress(write_all_tables = TRUE): every sent_table flag is FALSE, the reader knows nothing *)
Definition all_unsent (st : wstate) : Prop :=
  length (w_tbls st) = 12%nat /\ w_last_ri st = 0 /\ forall slot t, get_tbl st slot = Some t -> t_sent t = false.
Lemma inv_initial st : all_unsent st -> inv st dview0.
Proof.
  intros [L [R U]]. unfold inv, dview0. cbn [d_tbls d_ri]. rewrite repeat_length. repeat split; auto.
  intros slot t _ Hg Hs. rewrite (U slot t Hg) in Hs. discriminate.
Qed.

(* ------------------------------------------------------------------ the statistics pass *)
Definition rel_ok (st0 st : wstate) : Prop :=
  length (w_tbls st) = length (w_tbls st0) /\ w_last_ri st = w_last_ri st0 /\
  forall slot, get_tbl st slot = get_tbl st0 slot \/ (forall t, get_tbl st slot = Some t -> t_sent t = false).

Lemma unsend_rel newc st0 st slot : rel_ok st0 st -> rel_ok st0 (unsend newc st slot).
Proof.
  intros [L [R H]]. unfold rel_ok, unsend, get_tbl in *. cbn [w_tbls w_last_ri]. rewrite upd_length''.
  split; [exact L|]. split; [exact R|]. intro s.
  destruct (Nat.eq_dec (Z.to_nat slot) (Z.to_nat s)) as [E|E].
  - destruct (Nat.lt_ge_cases (Z.to_nat slot) (length (w_tbls st))) as [Hlt|Hge].
    + right. intros t Ht. rewrite <- E in Ht. rewrite (nth_upd_same'' (Z.to_nat slot)) in Ht by exact Hlt.
      injection Ht as <-. reflexivity.
    + (* update beyond the end changes nothing *)
      assert (U : forall (A : Type) (l : list A) i x, (length l <= i)%nat -> upd i x l = l).
      { intros A l. induction l as [|h t IH]; intros [|i] x Hl; cbn in *; try lia; auto. f_equal. apply IH. lia. }
      rewrite U by exact Hge. apply H.
  - rewrite (nth_upd_other'' (Z.to_nat slot) (Z.to_nat s)) by exact E. apply H.
Qed.

Lemma regen_std_ok img scans newc : regen_ok (regen_std img scans newc).
Proof.
  intros k st. unfold regen_std. cbv zeta.
  assert (G : forall l st1, rel_ok st st1 ->
            rel_ok st (fold_left (fun st ci => let c := get_comp img ci in
               let st1 := if needs_dc img (scans k) && tblno_ok (k_td c) then unsend (newc k) st (dcslot (k_td c)) else st in
               if needs_ac img (scans k) && tblno_ok (k_ta c) then unsend (newc k) st1 (acslot (k_ta c)) else st1) l st1)).
  { induction l as [|ci r IH]; intros st1 H1; cbn [fold_left]; [exact H1|]. apply IH. cbv zeta.
    destruct (needs_dc img (scans k) && tblno_ok (k_td (get_comp img ci)));
      destruct (needs_ac img (scans k) && tblno_ok (k_ta (get_comp img ci))); repeat apply unsend_rel; exact H1. }
  apply G. unfold rel_ok. split; [reflexivity|]. split; [reflexivity|]. intro; left; reflexivity.
Qed.

(* ------------------------------------------------------------------ no table is re-emitted unless regenerated *)
Definition is_sent (st : wstate) (slot : Z) : bool :=
  match get_tbl st slot with Some t => t_sent t | None => false end.
Definition gathers (ev : list event) : Z :=
  Z.of_nat (length (filter (fun e => match e with EvGather _ => true | _ => false end) ev)).

Lemma count_defs_app slot a b : count_defs slot (a ++ b) = count_defs slot a + count_defs slot b.
Proof. unfold count_defs. rewrite filter_app, app_length. lia. Qed.

(* a marker for `slot` is produced only from an unsent table, and leaves it sent *)
Lemma emit_dht_count st index is_ac m st' slot : 0 <= slot ->
  emit_dht st index is_ac = inr (m, st') ->
  count_defs slot m + (if is_sent st' slot then 0 else 1) <= (if is_sent st slot then 0 else 1) /\
  (is_sent st slot = true -> is_sent st' slot = true).
Proof.
  intros Hslot. unfold emit_dht. intros H. destruct (tblno_ok index) eqn:Eok; [|discriminate]. cbn [negb] in H.
  apply tblno_ok_range in Eok.
  set (sl := if is_ac then acslot index else dcslot index) in *.
  destruct (get_tbl st sl) as [h|] eqn:Eg; [|discriminate].
  destruct (t_sent h) eqn:Es.
  - injection H as <- <-. unfold count_defs. cbn. split; [destruct (is_sent st slot); lia|auto].
  - injection H as <- <-. unfold count_defs. cbn [filter defines].
    assert (Edef : (if (if is_ac then index + 16 else index) <? 16 then dcslot (if is_ac then index + 16 else index)
                    else acslot ((if is_ac then index + 16 else index) - 16)) = sl).
    { unfold sl, acslot, dcslot. destruct is_ac; [replace (index + 16 <? 16) with false by lia; lia|replace (index <? 16) with true by lia; reflexivity]. }
    rewrite Edef.
    assert (Hlen : forall s, 0 <= s -> is_sent (set_sent st sl h) s = if sl =? s then true else is_sent st s).
    { intros s Hs. unfold is_sent, set_sent, get_tbl. cbn [w_tbls].
      destruct (Z.eq_dec sl s) as [<-|Hne].
      - rewrite Z.eqb_refl.
        destruct (Nat.lt_ge_cases (Z.to_nat sl) (length (w_tbls st))) as [Hlt|Hge].
        + rewrite (nth_upd_same'' (Z.to_nat sl)) by exact Hlt. reflexivity.
        + exfalso. unfold get_tbl in Eg. rewrite nth_overflow in Eg by lia. discriminate.
      - replace (sl =? s) with false by lia. rewrite (nth_upd_other'' (Z.to_nat sl) (Z.to_nat s)) by (unfold sl, acslot, dcslot in *; destruct is_ac; lia). reflexivity. }
    rewrite (Hlen slot Hslot). destruct (sl =? slot) eqn:E.
    + assert (sl = slot) by lia. subst slot. unfold is_sent. rewrite Eg, Es. cbn [length]. split; [lia|discriminate].
    + cbn [length]. split; [destruct (is_sent st slot); lia|auto].
Qed.

(* ------------------------------------------------------------------ termination for every accepted script *)
From LJT Require Import proofs.CParamsHoare proofs.CParamsScript.
Theorem finish_compress_terminates_lemma : forall nc prec scans mode optimize dcr,
  snd (validate_script nc prec scans) = inr mode ->
  exists ev, run_master (Z.of_nat (length scans)) optimize dcr = Some ev /\
             last ev EvSOI = EvEOI /\ scan_data ev = zrange 0 (length scans) /\ headed None ev.
Proof.
  intros nc prec scans mode optimize dcr H.
  pose proof (sat_result _ _ _ (validate_script_safe_lemma nc prec scans) H) as [_ [Hne _]].
  assert (Hn : 1 <= Z.of_nat (length scans)) by (destruct scans; [congruence|cbn; lia]).
  destruct (stream_complete_partial_lemma (Z.of_nat (length scans)) optimize dcr Hn) as [ev [E [_ [L [D Hh]]]]].
  exists ev. rewrite Nat2Z.id in D. auto.
Qed.

(* the generated facts about the source that the model and the proofs above rely on *)
Lemma source_facts :
  g_NCOMP_CHECK_IN_VALIDATE = 1 /\ g_REVALIDATE_AFTER_LOSSLESS = 1 /\ g_ZERO_QUANT_REJECTED = 1 /\
  g_DIVISOR_CLAMPED_EVERYWHERE = 1 /\ g_MISSING_CODE_CHECK = 1 /\ g_MISSING_ZRL_EOB_CHECK = 1 /\
  g_SIMD_RANGE_PRECHECK = 1 /\ g_RESTART_CLAMP_DIRECT = 1 /\ g_SP_SIZE_RULE = 1 /\ g_SP_ALLOC_GUARD = 1 /\
  g_DRI_RULE = 1 /\ g_RAW_ADVANCE = 1 /\ g_DQT_INDEX_CHECK = 1 /\ g_HUFF_TBLNO_CHECK_FIRST = 1 /\
  g_M_SOI = 216 /\ g_M_EOI = 217 /\ g_BUFSIZE = 512 /\ g_BIT_BUF_SIZE = 64.
Proof. repeat split; reflexivity. Qed.

(* ================================================================= not re-emitted unless regenerated *)
Definition unsent1 (st : wstate) (slot : Z) : Z := if is_sent st slot then 0 else 1.

Lemma is_sent_set_sent st sl h s : 0 <= sl -> 0 <= s -> get_tbl st sl = Some h ->
  is_sent (set_sent st sl h) s = if sl =? s then true else is_sent st s.
Proof.
  intros Hsl Hs Eg. unfold is_sent, set_sent, get_tbl in *. cbn [w_tbls].
  destruct (Z.eq_dec sl s) as [<-|Hne].
  - rewrite Z.eqb_refl.
    destruct (Nat.lt_ge_cases (Z.to_nat sl) (length (w_tbls st))) as [Hlt|Hge].
    + rewrite (nth_upd_same'' (Z.to_nat sl)) by exact Hlt. reflexivity.
    + exfalso. rewrite nth_overflow in Eg by lia. discriminate.
  - replace (sl =? s) with false by lia. rewrite (nth_upd_other'' (Z.to_nat sl) (Z.to_nat s)) by lia. reflexivity.
Qed.

Lemma emit_dqt_count st index m st' p slot : 0 <= slot ->
  emit_dqt st index = inr (m, st', p) -> count_defs slot m + unsent1 st' slot <= unsent1 st slot.
Proof.
  intros Hslot. unfold emit_dqt, unsent1. change (g_DQT_INDEX_CHECK =? 1) with true. intro H.
  destruct (tblno_ok index) eqn:Eok; [|discriminate]. cbn [negb andb] in H. apply tblno_ok_range in Eok. unfold qslot in *.
  destruct (get_tbl st index) as [q|] eqn:Eg; [|discriminate].
  destruct (t_sent q) eqn:Es.
  - injection H as <- <- _. unfold count_defs. cbn. destruct (is_sent st slot); lia.
  - injection H as <- <- _. unfold count_defs. cbn [filter defines]. unfold qslot.
    rewrite (is_sent_set_sent st index q slot ltac:(lia) Hslot Eg).
    destruct (index =? slot) eqn:E.
    + assert (index = slot) by lia. subst slot. unfold is_sent. rewrite Eg, Es. cbn [length]. lia.
    + cbn [length]. destruct (is_sent st slot); lia.
Qed.

Lemma emit_dht_count' st index is_ac m st' slot : 0 <= slot ->
  emit_dht st index is_ac = inr (m, st') -> count_defs slot m + unsent1 st' slot <= unsent1 st slot.
Proof. intros Hs H. unfold unsent1. exact (proj1 (emit_dht_count st index is_ac m st' slot Hs H)). Qed.

Lemma dqt_loop_count slot : 0 <= slot -> forall comps st acc prec m st' p,
  dqt_loop st comps acc prec = inr (m, st', p) ->
  count_defs slot m + unsent1 st' slot <= count_defs slot acc + unsent1 st slot.
Proof.
  intros Hs. induction comps as [|c r IH]; intros st acc prec m st' p H; cbn [dqt_loop] in H.
  - injection H as <- <- _. lia.
  - destruct (emit_dqt st (k_tq c)) as [e|[[m1 st1] p1]] eqn:E; [discriminate|].
    pose proof (emit_dqt_count _ _ _ _ _ slot Hs E). specialize (IH _ _ _ _ _ _ H). rewrite count_defs_app in IH. lia.
Qed.

Lemma dht_loop_count img s slot : 0 <= slot -> forall comps st acc m st',
  dht_loop img s st comps acc = inr (m, st') ->
  count_defs slot m + unsent1 st' slot <= count_defs slot acc + unsent1 st slot.
Proof.
  intros Hs. induction comps as [|ci r IH]; intros st acc m st' H; cbn [dht_loop] in H.
  - injection H as <- <-. lia.
  - cbv zeta in H.
    destruct (if needs_dc img s then emit_dht st (k_td (get_comp img ci)) false else inr ([], st)) as [e|[m1 st1]] eqn:E1; [discriminate|].
    destruct (if needs_ac img s then emit_dht st1 (k_ta (get_comp img ci)) true else inr ([], st1)) as [e|[m2 st2]] eqn:E2; [discriminate|].
    assert (A1 : count_defs slot m1 + unsent1 st1 slot <= unsent1 st slot).
    { destruct (needs_dc img s); [exact (emit_dht_count' _ _ _ _ _ slot Hs E1)|]. injection E1 as <- <-. unfold count_defs; cbn; lia. }
    assert (A2 : count_defs slot m2 + unsent1 st2 slot <= unsent1 st1 slot).
    { destruct (needs_ac img s); [exact (emit_dht_count' _ _ _ _ _ slot Hs E2)|]. injection E2 as <- <-. unfold count_defs; cbn; lia. }
    specialize (IH _ _ _ _ H). rewrite !count_defs_app in IH. lia.
Qed.

Lemma count_defs_nodef slot m : (forall x, In x m -> defines slot x = false) -> count_defs slot m = 0.
Proof.
  intro H. unfold count_defs. induction m as [|x m IH]; [reflexivity|]. cbn [filter].
  rewrite (H x (or_introl eq_refl)). apply IH. intros y Hy. apply H. right; exact Hy.
Qed.

Lemma unsent1_bounds st slot : 0 <= unsent1 st slot <= 1.
Proof. unfold unsent1. destruct (is_sent st slot); lia. Qed.

Lemma step_event_count img scans data regen slot e st m st' : 0 <= slot ->
  step_event img scans data regen e st = inr (m, st') ->
  count_defs slot m + unsent1 st' slot <= unsent1 st slot + (match e with EvGather _ => 1 | _ => 0 end).
Proof.
  intros Hs H. destruct e; cbn [step_event] in H.
  - unfold write_file_header in H. injection H as <- <-. rewrite count_defs_nodef.
    + unfold unsent1, is_sent, get_tbl. cbn [w_tbls]. lia.
    + intros x Hx. cbn [app] in Hx. destruct Hx as [<-|Hx]; [reflexivity|]. apply in_app_or in Hx.
      destruct Hx as [Hx|Hx]; [destruct (im_jfif img) as [[[[[? ?] ?] ?] ?]|]|destruct (im_adobe img)]; cbn in Hx;
        try contradiction; destruct Hx as [<-|[]]; reflexivity.
  - unfold write_frame_header in H. destruct (im_lossless img).
    + injection H as <- <-. unfold count_defs. cbn. lia.
    + destruct (dqt_loop st (im_comps img) [] 0) as [x|[[m1 st1] p]] eqn:E; [discriminate|]. injection H as <- <-.
      pose proof (dqt_loop_count slot Hs _ _ _ _ _ _ _ E) as A. rewrite count_defs_app.
      unfold count_defs at 2. cbn [filter defines length]. unfold count_defs at 2 in A. cbn in A. lia.
  - unfold write_scan_header in H. set (s := scans scan) in *.
    destruct (im_arith img).
    + destruct (dri_step (w_last_ri st) (sp_ri s)) as [emit last']. injection H as <- <-.
      rewrite count_defs_nodef.
      * unfold unsent1, is_sent, get_tbl. cbn [w_tbls]. lia.
      * intros x Hx. apply in_app_or in Hx. destruct Hx as [Hx|Hx].
        -- unfold emit_dac in Hx. match type of Hx with In _ (match ?l with _ => _ end) => destruct l end; [contradiction|].
           destruct Hx as [<-|[]]. reflexivity.
        -- apply in_app_or in Hx. destruct Hx as [Hx|Hx]; [destruct emit; cbn in Hx; try contradiction; destruct Hx as [<-|[]]; reflexivity|].
           destruct Hx as [<-|[]]. reflexivity.
    + destruct (dht_loop img s st (sp_comps s) []) as [x|[m1 st1]] eqn:E; [discriminate|].
      destruct (dri_step (w_last_ri st1) (sp_ri s)) as [emit last']. injection H as <- <-.
      pose proof (dht_loop_count img s slot Hs _ _ _ _ _ E) as A. unfold count_defs at 2 in A. cbn in A.
      rewrite count_defs_app. rewrite (count_defs_nodef slot (_ ++ [sos_of img s])).
      * unfold unsent1, is_sent, get_tbl in *. cbn [w_tbls]. lia.
      * intros x Hx. apply in_app_or in Hx. destruct Hx as [Hx|Hx]; [destruct emit; cbn in Hx; try contradiction; destruct Hx as [<-|[]]; reflexivity|].
        destruct Hx as [<-|[]]. reflexivity.
  - injection H as <- <-. unfold count_defs. cbn. pose proof (unsent1_bounds (regen scan st) slot). pose proof (unsent1_bounds st slot). lia.
  - injection H as <- <-. unfold count_defs. cbn. lia.
  - injection H as <- <-. unfold count_defs. cbn. lia.
Qed.

(* over a whole datastream: a table slot (DQT or DHT) is defined at most once, plus once per statistics pass,
   and not at all by the first if its sent_table flag was set -- for ANY regeneration function *)
Theorem tables_not_reemitted_lemma : forall img scans data regen slot ev st tr, 0 <= slot ->
  assemble img scans data regen ev st = inr tr ->
  count_defs slot tr <= unsent1 st slot + gathers ev.
Proof.
  intros img scans data regen slot ev. induction ev as [|e r IH]; intros st tr Hs H; cbn [assemble] in H.
  - injection H as <-. unfold count_defs, gathers. cbn. pose proof (unsent1_bounds st slot). lia.
  - destruct (step_event img scans data regen e st) as [x|[m st']] eqn:E; [discriminate|].
    destruct (assemble img scans data regen r st') as [x|t] eqn:Ea; [discriminate|]. injection H as <-.
    pose proof (step_event_count _ _ _ _ slot _ _ _ _ Hs E) as A. specialize (IH _ _ Hs Ea).
    rewrite count_defs_app. unfold gathers in *. cbn [filter].
    destruct e; cbn [length] in *; try lia.
Qed.

(* quantisation tables are never regenerated by a pass: with the modelled statistics pass each DQT slot is written
   at most once per datastream *)
Lemma regen_std_keeps_quant img scans newc k st slot : 0 <= slot < 4 ->
  get_tbl (regen_std img scans newc k st) slot = get_tbl st slot.
Proof.
  intros Hs. unfold regen_std. cbv zeta.
  assert (G : forall l st1, get_tbl st1 slot = get_tbl st slot ->
     get_tbl (fold_left (fun st ci => let c := get_comp img ci in
               let st1 := if needs_dc img (scans k) && tblno_ok (k_td c) then unsend (newc k) st (dcslot (k_td c)) else st in
               if needs_ac img (scans k) && tblno_ok (k_ta c) then unsend (newc k) st1 (acslot (k_ta c)) else st1) l st1) slot = get_tbl st slot).
  { induction l as [|ci r IH]; intros st1 H1; cbn [fold_left]; [exact H1|]. apply IH. cbv zeta.
    assert (U : forall s0 sl, 4 <= sl -> get_tbl (unsend (newc k) s0 sl) slot = get_tbl s0 slot).
    { intros s0 sl Hsl. unfold get_tbl, unsend. cbn [w_tbls]. apply nth_upd_other''. lia. }
    destruct (needs_dc img (scans k) && tblno_ok (k_td (get_comp img ci))) eqn:E1;
      destruct (needs_ac img (scans k) && tblno_ok (k_ta (get_comp img ci))) eqn:E2; rewrite ?U; try exact H1.
    all: try (apply andb_prop in E1; destruct E1 as [_ E1]; apply tblno_ok_range in E1).
    all: try (apply andb_prop in E2; destruct E2 as [_ E2]; apply tblno_ok_range in E2).
    all: unfold acslot, dcslot; lia. }
  apply G. reflexivity.
Qed.

Theorem dqt_at_most_once_lemma : forall img scans data newc slot ev st tr, 0 <= slot < 4 ->
  assemble img scans data (regen_std img scans newc) ev st = inr tr ->
  count_defs slot tr <= unsent1 st slot.
Proof.
  intros img scans data newc slot ev. induction ev as [|e r IH]; intros st tr Hs H; cbn [assemble] in H.
  - injection H as <-. unfold count_defs. cbn. pose proof (unsent1_bounds st slot). lia.
  - destruct (step_event img scans data (regen_std img scans newc) e st) as [x|[m st']] eqn:E; [discriminate|].
    destruct (assemble img scans data (regen_std img scans newc) r st') as [x|t] eqn:Ea; [discriminate|]. injection H as <-.
    specialize (IH _ _ Hs Ea). rewrite count_defs_app.
    destruct e; try (pose proof (step_event_count _ _ _ _ slot _ _ _ _ ltac:(lia) E) as A; cbn in A; lia).
    cbn [step_event] in E. injection E as <- <-.
    assert (unsent1 (regen_std img scans newc scan st) slot = unsent1 st slot).
    { unfold unsent1, is_sent. rewrite regen_std_keeps_quant by exact Hs. reflexivity. }
    unfold count_defs at 1. cbn. lia.
Qed.

(* ================================================================= abbreviated datastreams (two streams) *)
Lemma wt_loop_inv emit present :
  (forall st d i m st', emit st i = inr (m, st') -> inv st d -> inv st' (fold_left dview_step m d)) ->
  forall idx st d acc m st', wt_loop st emit present idx acc = inr (m, st') ->
    inv st (fold_left dview_step acc d) -> inv st' (fold_left dview_step m d).
Proof.
  intros Hemit. induction idx as [|i r IH]; intros st d acc m st' H Hi; cbn [wt_loop] in H.
  - injection H as <- <-. exact Hi.
  - destruct (present st i).
    + destruct (emit st i) as [e|[m1 st1]] eqn:E; [discriminate|].
      apply (IH _ _ _ _ _ H). rewrite fold_dview_app. apply (Hemit _ _ _ _ _ E Hi).
    + apply (IH _ _ _ _ _ H Hi).
Qed.

(* jpeg_write_tables keeps the reader's knowledge in step with the sent_table flags ... *)
Lemma write_tables_only_inv arith st d m st' :
  write_tables_only arith st = inr (m, st') -> inv st d -> inv st' (fold_left dview_step m d).
Proof.
  unfold write_tables_only. cbv zeta. intros H Hi.
  set (st0 := {| w_tbls := w_tbls st; w_last_ri := 0 |}) in *.
  assert (I0 : inv st0 (fold_left dview_step [MkSOI] d)).
  { cbn [fold_left dview_step]. destruct Hi as [L1 [L2 [Hri Ht]]]. unfold inv, st0, get_tbl, dget in *. cbn.
    split; [exact L1|]. split; [exact L2|]. split; [reflexivity|exact Ht]. }
  destruct (wt_loop st0 _ (has qslot) tbl_idx [MkSOI]) as [e|[m1 st1]] eqn:E1; [discriminate|].
  assert (I1 : inv st1 (fold_left dview_step m1 d)).
  { refine (wt_loop_inv _ _ _ _ _ _ _ _ _ E1 I0).
    intros s0 d0 i m0 s1 Hx Hy. destruct (emit_dqt s0 i) as [e|[[mm ss] pp]] eqn:Eq; [discriminate|].
    injection Hx as <- <-. exact (proj1 (emit_dqt_inv _ _ _ _ _ _ Eq Hy)). }
  assert (Iend : forall mm ss, inv ss (fold_left dview_step mm d) -> inv ss (fold_left dview_step (mm ++ [MkEOI]) d)).
  { intros mm ss Hx. rewrite fold_dview_app. cbn [fold_left dview_step]. exact Hx. }
  destruct arith.
  - injection H as <- <-. apply Iend. exact I1.
  - destruct (wt_loop st1 _ (fun _ _ => true) tbl_idx m1) as [e|[m2 st2]] eqn:E2; [discriminate|].
    injection H as <- <-. apply Iend.
    refine (wt_loop_inv _ _ _ _ _ _ _ _ _ E2 I1).
    intros s0 d0 i m0 s1 Hx Hy.
    destruct (if has dcslot s0 i then emit_dht s0 i false else inr ([], s0)) as [e|[ma sa]] eqn:Ea; [discriminate|].
    destruct (if has acslot sa i then emit_dht sa i true else inr ([], sa)) as [e|[mb sb]] eqn:Eb; [discriminate|].
    injection Hx as <- <-.
    assert (Ia : inv sa (fold_left dview_step ma d0)).
    { destruct (has dcslot s0 i); [exact (proj1 (emit_dht_inv _ _ _ _ _ _ Ea Hy))|injection Ea as <- <-; exact Hy]. }
    rewrite fold_dview_app.
    destruct (has acslot sa i); [exact (proj1 (emit_dht_inv _ _ _ _ _ _ Eb Ia))|injection Eb as <- <-; exact Ia].
Qed.

(* ... hence the two-stream theorem: a reader that has read the tables-only datastream knows, at every point of use
   in ANY following image datastream written from the resulting state (e.g. jpeg_start_compress(write_all_tables =
   FALSE): no table in it), every table and the restart interval with the encoder's content *)
Theorem abbreviated_streams_lemma : forall arith st d tr1 st1 img scans data regen ev,
  inv st d -> write_tables_only arith st = inr (tr1, st1) -> regen_ok regen ->
  audit img scans data regen ev st1 (fold_left dview_step tr1 d) = true /\
  (exists body, bytes_of tr1 = [255; 216] ++ body ++ [255; 217]).
Proof.
  intros arith st d tr1 st1 img scans data regen ev Hi Hw Hreg. split.
  - apply tables_before_use_lemma; [exact Hreg|]. exact (write_tables_only_inv _ _ _ _ _ Hw Hi).
  - unfold write_tables_only in Hw. cbv zeta in Hw.
    assert (G : forall emit present idx st0 acc m st', wt_loop st0 emit present idx acc = inr (m, st') -> exists t, m = acc ++ t).
    { intros emit present. induction idx as [|i r IH]; intros st0 acc m st' H; cbn [wt_loop] in H.
      - injection H as <- <-. exists []. rewrite app_nil_r. reflexivity.
      - destruct (present st0 i); [|exact (IH _ _ _ _ H)].
        destruct (emit st0 i) as [e|[m1 s1]]; [discriminate|]. destruct (IH _ _ _ _ H) as [t ->]. exists (m1 ++ t). rewrite app_assoc. reflexivity. }
    match type of Hw with match ?X with _ => _ end = _ => destruct X as [e|[m1 s1]] eqn:E1 end; [discriminate|].
    destruct (G _ _ _ _ _ _ _ E1) as [t1 ->].
    destruct arith.
    + injection Hw as Hx _. subst tr1. exists (bytes_of t1). unfold bytes_of. cbn [flat_map]. rewrite !flat_map_app. cbn [flat_map encode_mk]. unfold marker.
      change g_M_SOI with 216. change g_M_EOI with 217. cbn [app]. rewrite ?app_nil_r. reflexivity.
    + match type of Hw with match ?X with _ => _ end = _ => destruct X as [e|[m2 s2]] eqn:E2 end; [discriminate|].
      destruct (G _ _ _ _ _ _ _ E2) as [t2 ->]. injection Hw as Hx _. subst tr1.
      exists (bytes_of t1 ++ bytes_of t2). unfold bytes_of. cbn [flat_map]. rewrite !flat_map_app. cbn [flat_map encode_mk]. unfold marker.
      change g_M_SOI with 216. change g_M_EOI with 217. cbn [app]. rewrite ?app_nil_r, <- ?app_assoc. reflexivity.
Qed.

(* ================================================================= application markers *)
Lemma api_write_marker_state g next code data m :
  api_write_marker g next code data = inr m ->
  next = 0 /\ g <> CSTATE_START /\ Z.of_nat (length data) <= 65533 /\ m = [MkApp code data].
Proof.
  unfold api_write_marker. intro H.
  destruct (negb (next =? 0) || match g with CSTATE_START => true | _ => false end) eqn:E; [discriminate|].
  change g_MARKER_MAX_DATA with 65533 in H. destruct (Z.of_nat (length data) >? 65533) eqn:E2; [discriminate|]. injection H as <-.
  apply orb_false_elim in E. destruct E as [E3 E4]. repeat split; try lia. intro; subst g; discriminate.
Qed.

Lemma apps_invisible (a : list mk) (apps : list (Z * list Z)) (t : list mk) d :
  fold_left dview_step (a ++ map (fun x => MkApp (fst x) (snd x)) apps ++ t) d = fold_left dview_step (a ++ t) d.
Proof.
  rewrite !fold_left_app. f_equal. generalize (fold_left dview_step a d). induction apps as [|x apps IH]; intro d0; [reflexivity|].
  cbn [map fold_left dview_step]. apply IH.
Qed.

(* markers the application writes after jpeg_start_compress do not disturb the framing nor what the reader knows *)
Theorem app_markers_lemma : forall img scans data regen apps n optimize dcr st d, 1 <= n ->
  regen_ok regen -> inv st d ->
  exists ev, run_master n optimize dcr = Some ev /\
    forall tr, assemble_with_apps img scans data regen apps ev st = inr tr ->
      (exists body, bytes_of tr = [255; 216] ++ body ++ [255; 217]) /\
      (forall tr0, assemble img scans data regen ev st = inr tr0 ->
         fold_left dview_step tr d = fold_left dview_step tr0 d).
Proof.
  intros img scans data regen apps n optimize dcr st d Hn Hreg Hi.
  destruct (stream_complete_full_lemma img scans data regen n optimize dcr st Hn) as [ev [E Hfull]].
  exists ev. split; [exact E|]. intros tr Ha.
  unfold run_master in E. cbv zeta in E.
  destruct (run_passes _ optimize dcr _ _) as [r|] eqn:Er; [|discriminate]. injection E as <-.
  cbn [assemble_with_apps] in Ha. unfold write_file_header in Ha.
  set (hd0 := [MkSOI] ++ match im_jfif img with Some (ma, mi, u, x, y) => [MkAPP0 ma mi u x y] | None => [] end ++
              match im_adobe img with Some t => [MkAPP14 t] | None => [] end) in *.
  destruct (assemble img scans data regen r _) as [x|t] eqn:Et; [discriminate|]. injection Ha as <-.
  assert (H0 : assemble img scans data regen (EvSOI :: r) st = inr (hd0 ++ t)).
  { cbn [assemble step_event]. unfold write_file_header. fold hd0. rewrite Et. reflexivity. }
  split.
  - assert (Hlast : exists t0, t = t0 ++ [MkEOI]).
    { pose proof (stream_complete_partial_lemma n optimize dcr Hn) as [ev' [E' [_ [L' _]]]].
      unfold run_master in E'. cbv zeta in E'. rewrite Er in E'. injection E' as <-.
      destruct r as [|e0 r0]; [cbn in L'; discriminate|].
      assert (Hne : e0 :: r0 <> []) by discriminate. destruct (exists_last Hne) as [r1 [x Hx]]. rewrite Hx in *.
      assert (x = EvEOI). { change (EvSOI :: r1 ++ [x]) with ((EvSOI :: r1) ++ [x]) in L'. rewrite last_last in L'. exact L'. }
      subst x. exact (assemble_last _ _ _ _ _ _ _ Et). }
    destruct Hlast as [t0 ->]. unfold hd0.
    set (rest := match im_jfif img with Some (ma, mi, u, x, y) => [MkAPP0 ma mi u x y] | None => [] end ++
                 match im_adobe img with Some t => [MkAPP14 t] | None => [] end).
    exists (bytes_of rest ++ bytes_of (map (fun a => MkApp (fst a) (snd a)) apps) ++ bytes_of t0).
    unfold bytes_of. cbn [flat_map]. rewrite !flat_map_app. cbn [flat_map encode_mk]. unfold marker.
    change g_M_SOI with 216. change g_M_EOI with 217. cbn [app]. rewrite ?app_nil_r, <- ?app_assoc. reflexivity.
  - intros tr0 H1. rewrite H0 in H1. injection H1 as <-.
    exact (apps_invisible hd0 apps t d).
Qed.
