(* C08 -- the no-context row scheduler (model/Partial.v, section b1): a history
   of Read/Skip calls without hazard behaves like a full decode. *)
From Coq Require Import List ZArith Lia Bool ZifyBool.
From LJT Require Import model.Partial.
Import ListNotations.
Local Open Scope Z_scope.

(* ---------- small list facts ---------- *)
Lemma zseq_length a n : length (zseq a n) = n.
Proof. revert a. induction n; intros; cbn; [reflexivity|]. now rewrite IHn. Qed.

Lemma zlen_map_zseq {A} (f : Z -> A) a n : zlen (map f (zseq a n)) = Z.of_nat n.
Proof. unfold zlen. now rewrite map_length, zseq_length. Qed.

Lemma map_shift {A} (f : Z -> A) a n b :
  map (fun k => f (a + k)) (zseq b n) = map f (zseq (a + b) n).
Proof.
  revert b. induction n; intros b; cbn; [reflexivity|].
  f_equal. rewrite IHn. f_equal. f_equal. lia.
Qed.

Lemma zseq_app a n m : zseq a (n + m) = zseq a n ++ zseq (a + Z.of_nat n) m.
Proof.
  revert a. induction n; intros a.
  - cbn. f_equal. lia.
  - cbn [Nat.add zseq app]. f_equal. rewrite IHn. f_equal. f_equal. lia.
Qed.

Lemma zseq_split a (p q : Z) : 0 <= p -> 0 <= q ->
  zseq a (Z.to_nat (p + q)) = zseq a (Z.to_nat p) ++ zseq (a + p) (Z.to_nat q).
Proof.
  intros. rewrite Z2Nat.inj_add by lia. rewrite zseq_app. now rewrite Z2Nat.id by lia.
Qed.

Fixpoint zsum (l : list Z) : Z := match l with [] => 0 | x :: t => x + zsum t end.

Section Sched.
Variable g : geom.
Hypothesis HM : 1 <= gM g.
Hypothesis Hv : 1 <= gv g.
Hypothesis HH : 0 <= gH g < 4294967296.
Hypothesis Hmv : gmerged g = true -> gv g = 1 \/ gv g = 2.

Definition rows_of (s k : Z) : list prov := map ideal_s (zseq s (Z.to_nat k)).

(* the state is what a full decode has after delivering exactly s rows (s < H), up to
   pend:  an iMCU row is pending (buffer_full = FALSE in the middle of an iMCU row)
   exact: rows_to_go is exact (it is always >= the number of rows left) *)
Definition Inv (s : Z) (pend exact : bool) (st : sst) : Prop :=
  exists R gi r,
    s = (R * gM g + gi) * gv g + r /\ 0 <= R /\ 0 <= gi < gM g /\ 0 <= r < gv g /\ s < gH g /\
    scan st = s /\ rgctr st = gi /\
    (bfull st = true -> bufrow st = R /\ imcu st = R + 1 /\ (0 < gi \/ 0 < r) /\ pend = false) /\
    (bfull st = false -> imcu st = R /\ r = 0 /\ (pend = false -> gi = 0) /\ (pend = true -> 0 < gi)) /\
    ((gmerged g = false \/ gv g = 2) -> gH g - s <= rtg st /\ (exact = true -> rtg st = gH g - s)) /\
    (gmerged g = false -> nro st = (if r =? 0 then gv g else r) /\ (0 < r -> cbuf st = R * gM g + gi)) /\
    (merged2v g = true -> sfull st = (r =? 1) /\ (r = 1 -> spare st = s) /\ pend = false).

(* weakening of the two flags, one at a time *)
Lemma Inv_inexact s p e st : Inv s p e st -> Inv s p false st.
Proof.
  intros (R & gi & r & H1 & H2 & H3 & H4 & H5 & H6 & H7 & H8 & H9 & H10 & H11 & H12).
  exists R, gi, r. repeat match goal with |- _ /\ _ => split end; auto; try lia.
  all: try (intros Hm; destruct (H10 Hm); split; auto; discriminate).
Qed.

Lemma Inv_scan s p e st : Inv s p e st -> scan st = s /\ 0 <= s < gH g.
Proof.
  intros (R & gi & r & H1 & H2 & H3 & H4 & H5 & H6 & _). split; [assumption|]. nia.
Qed.

Ltac splits := repeat match goal with |- _ /\ _ => split end.
Ltac simp_st := cbn [scan bfull rgctr imcu bufrow nro rtg cbuf sfull spare fst snd].
Ltac simp_st_in H := cbn [scan bfull rgctr imcu bufrow nro rtg cbuf sfull spare fst snd] in H.

(* ---------- one call of jpeg_read_scanlines ---------- *)
Definition ReadOk (s : Z) (exact : bool) (avail : Z) (res : sst * list prov) : Prop :=
  exists k, snd res = rows_of s k /\
    1 <= k <= avail /\ s + k <= gH g /\ scan (fst res) = s + k /\
    (s + k < gH g -> Inv (s + k) false exact (fst res)).

Lemma read_call_sep s pend exact st avail :
  gmerged g = false ->
  Inv s pend exact st -> 1 <= avail ->
  (exact = true \/ gH g mod gv g = 0 \/ avail <= gH g - s) ->
  ReadOk s exact avail (read_scanlines_s g st avail).
Proof.
  intros Emg (R & gi & r & Hs & HR & Hgi & Hr & HsH & Hscan & Hrg & Hbt & Hbf & Hrtg & Hsep & Hm2) Hav Hside.
  assert (Hm2f : merged2v g = false) by (unfold merged2v; rewrite Emg; reflexivity).
  destruct st as [sc bf rc im br nr rt cb sf sp]. simp_st_in Hscan. simp_st_in Hrg. simp_st_in Hbt. simp_st_in Hbf.
  simp_st_in Hrtg. simp_st_in Hsep. subst sc rc.
  destruct (Hsep Emg) as (Hnro & Hcb). destruct (Hrtg (or_introl Emg)) as (Hrt1 & Hrt2). clear Hsep Hrtg Hm2.
  unfold read_scanlines_s. simp_st.
  destruct (gH g <=? s) eqn:E0; [lia|]. clear E0.
  unfold simple_main, upsample_s. rewrite Emg. simp_st.
  (* after the buffer is filled: bufrow = R, imcu = R + 1 *)
  assert (Hfill : (if bf then mkS s bf gi im br nr rt cb sf sp else mkS s true gi (im + 1) im nr rt cb sf sp)
                  = mkS s true gi (R + 1) R nr rt cb sf sp).
  { destruct bf.
    - destruct (Hbt eq_refl) as (-> & -> & _). reflexivity.
    - destruct (Hbf eq_refl) as (-> & _). reflexivity. }
  rewrite Hfill. clear Hfill.
  unfold sep_upsample_s. simp_st.
  assert (Hpair : (if gv g <=? nr then (0, R * gM g + gi) else (nr, cb)) = (r, R * gM g + gi)).
  { rewrite Hnro. destruct (r =? 0) eqn:Er.
    - assert (r = 0) by lia. subst r. assert (E : (gv g <=? gv g) = true) by lia. rewrite E. reflexivity.
    - assert (E : (gv g <=? r) = false) by lia. rewrite E. rewrite Hcb by lia. reflexivity. }
  rewrite Hpair. clear Hpair.
  set (k := Z.max 0 (Z.min (Z.min (gv g - r) rt) avail)).
  assert (Hk : 1 <= k <= avail /\ k <= gv g - r /\ k <= rt) by (unfold k; lia).
  assert (HkH : s + k <= gH g).
  { destruct Hside as [He | [He | He]].
    - rewrite (Hrt2 He) in Hk. lia.
    - assert (gH g = gv g * (gH g / gv g)) by (pose proof (Z.div_mod (gH g) (gv g)); lia).
      set (q := gH g / gv g) in *. set (G := R * gM g + gi) in *.
      assert (G < q) by nia. nia.
    - lia. }
  simp_st.
  assert (Hrows : map (fun j : Z => ((R * gM g + gi) * gv g + r + j, -1)) (zseq 0 (Z.to_nat k)) = rows_of s k).
  { unfold rows_of. replace (zseq s (Z.to_nat k)) with (zseq (s + 0) (Z.to_nat k)) by (f_equal; lia).
    rewrite <- map_shift. apply map_ext. intros j. unfold ideal_s. f_equal. lia. }
  rewrite Hrows.
  assert (Hlen : zlen (rows_of s k) = k) by (unfold rows_of; rewrite zlen_map_zseq; lia).
  exists k. 
  assert (Hnia : gi + 1 = gM g -> s + k = ((R + 1) * gM g + 0) * gv g + 0 \/ r + k < gv g) by nia.
  destruct (gv g <=? r + k) eqn:Eg; simp_st.
  - assert (Hrk : r + k = gv g) by lia.
    destruct (gM g <=? gi + 1) eqn:EM; simp_st; unfold set_scan; simp_st; rewrite Hlen.
    + splits; try lia; try reflexivity.
      intros Hlt. exists (R + 1), 0, 0. simp_st. splits; try lia; try discriminate.
      all: try (rewrite Hm2f; discriminate).
      all: try (intros _; split; [|lia]; cbn [Z.eqb]; lia).
    + splits; try lia; try reflexivity.
      intros Hlt. exists R, (gi + 1), 0. simp_st. splits; try lia; try discriminate.
      all: try (rewrite Hm2f; discriminate).
      all: try (intros _; split; [|lia]; cbn [Z.eqb]; lia).
  - assert (EM : (gM g <=? gi) = false) by lia. rewrite EM. unfold set_scan; simp_st. rewrite Hlen.
    splits; try lia; try reflexivity.
    intros Hlt. exists R, gi, (r + k). simp_st. splits; try lia; try discriminate.
    all: try (rewrite Hm2f; discriminate).
    all: try (intros _; split; [|lia]; assert (E : (r + k =? 0) = false) by lia; rewrite E; reflexivity).
Qed.

Lemma read_call_m1 s pend exact st avail :
  gmerged g = true -> gv g = 1 ->
  Inv s pend exact st -> 1 <= avail ->
  ReadOk s exact avail (read_scanlines_s g st avail).
Proof.
  intros Emg Hv1 (R & gi & r & Hs & HR & Hgi & Hr & HsH & Hscan & Hrg & Hbt & Hbf & Hrtg & Hsep & Hm2) Hav.
  assert (Hm2f : merged2v g = false) by (unfold merged2v; rewrite Emg, Hv1; reflexivity).
  assert (r = 0) by lia. subst r.
  destruct st as [sc bf rc im br nr rt cb sf sp]. simp_st_in Hscan. simp_st_in Hrg. simp_st_in Hbt. simp_st_in Hbf.
  subst sc rc. clear Hsep Hrtg Hm2.
  unfold read_scanlines_s. simp_st.
  destruct (gH g <=? s) eqn:E0; [lia|]. clear E0.
  unfold simple_main, upsample_s. rewrite Emg, Hv1. cbn [Z.eqb Pos.eqb]. simp_st.
  assert (Hfill : (if bf then mkS s bf gi im br nr rt cb sf sp else mkS s true gi (im + 1) im nr rt cb sf sp)
                  = mkS s true gi (R + 1) R nr rt cb sf sp).
  { destruct bf.
    - destruct (Hbt eq_refl) as (-> & -> & _). reflexivity.
    - destruct (Hbf eq_refl) as (-> & _). reflexivity. }
  rewrite Hfill. clear Hfill.
  unfold merged_1v_s. simp_st.
  assert (Hrow : [(R * gM g + gi, -1)] = rows_of s 1).
  { unfold rows_of. change (Z.to_nat 1) with 1%nat. cbn [zseq map]. unfold ideal_s. rewrite Hv1 in Hs.
    do 2 f_equal. lia. }
  rewrite Hrow.
  assert (Hlen : zlen (rows_of s 1) = 1) by (unfold rows_of; rewrite zlen_map_zseq; lia).
  exists 1.
  destruct (gM g <=? gi + 1) eqn:EM; simp_st; unfold set_scan; simp_st; rewrite Hlen.
  - splits; try lia; try reflexivity.
    intros Hlt. exists (R + 1), 0, 0. simp_st. rewrite Hv1 in *. splits; try lia; try discriminate.
    all: try (rewrite Hm2f; discriminate).
    all: try (rewrite Emg; discriminate).
  - splits; try lia; try reflexivity.
    intros Hlt. exists R, (gi + 1), 0. simp_st. rewrite Hv1 in *. splits; try lia; try discriminate.
    all: try (rewrite Hm2f; discriminate).
    all: try (rewrite Emg; discriminate).
Qed.

Lemma read_call_m2 s pend exact st avail :
  gmerged g = true -> gv g = 2 ->
  Inv s pend exact st -> 1 <= avail ->
  (exact = true \/ gH g mod gv g = 0 \/ avail <= gH g - s) ->
  ReadOk s exact avail (read_scanlines_s g st avail).
Proof.
  intros Emg Hv2 (R & gi & r & Hs & HR & Hgi & Hr & HsH & Hscan & Hrg & Hbt & Hbf & Hrtg & Hsep & Hm2) Hav Hside.
  assert (Hm2t : merged2v g = true) by (unfold merged2v; rewrite Emg, Hv2; reflexivity).
  destruct st as [sc bf rc im br nr rt cb sf sp]. simp_st_in Hscan. simp_st_in Hrg. simp_st_in Hbt. simp_st_in Hbf.
  simp_st_in Hrtg. simp_st_in Hm2. subst sc rc.
  destruct (Hm2 Hm2t) as (Hsf & Hsp & Hp). destruct (Hrtg (or_intror Hv2)) as (Hrt1 & Hrt2). clear Hsep Hrtg Hm2.
  unfold read_scanlines_s. simp_st.
  destruct (gH g <=? s) eqn:E0; [lia|]. clear E0.
  unfold simple_main, upsample_s. rewrite Emg, Hv2. cbn [Z.eqb Pos.eqb]. simp_st.
  assert (Hfill : (if bf then mkS s bf gi im br nr rt cb sf sp else mkS s true gi (im + 1) im nr rt cb sf sp)
                  = mkS s true gi (R + 1) R nr rt cb sf sp).
  { destruct bf.
    - destruct (Hbt eq_refl) as (-> & -> & _). reflexivity.
    - destruct (Hbf eq_refl) as (-> & _). reflexivity. }
  rewrite Hfill. clear Hfill.
  unfold merged_2v_s. simp_st. rewrite Hv2 in *.
  assert (Hr01 : r = 0 \/ r = 1) by lia.
  destruct Hr01 as [-> | ->].
  - (* spare empty *)
    rewrite Hsf. cbn [Z.eqb].
    set (num := Z.max 0 (Z.min (Z.min 2 rt) avail)).
    assert (Hnum : num = 1 \/ num = 2) by (unfold num; lia).
    assert (Hs2 : (R * gM g + gi) * 2 = s) by lia. rewrite Hs2.
    destruct Hnum as [Hn | Hn]; rewrite Hn; cbn [Z.ltb Z.compare Pos.compare Pos.compare_cont negb]; simp_st.
    + assert (Hrow : ztake 1 [(s, -1); (s + 1, -1)] = rows_of s 1) by reflexivity.
      rewrite Hrow.
      assert (Hlen : zlen (rows_of s 1) = 1) by (unfold rows_of; rewrite zlen_map_zseq; lia).
      exists 1. assert (EM : (gM g <=? gi) = false) by lia. rewrite EM. unfold set_scan; simp_st. rewrite Hlen.
      splits; try lia; try reflexivity.
      intros Hlt. exists R, gi, 1. simp_st. rewrite Hv2. splits; try lia; try discriminate.
      all: try (rewrite Emg; discriminate).
      all: try (intros _; splits; try reflexivity; try assumption; lia).
    + assert (Hs2H : s + 2 <= gH g).
      { unfold num in Hn. destruct Hside as [He | [He | He]].
        - rewrite (Hrt2 He) in Hn. lia.
        - clear Hn. Z.div_mod_to_equations. lia.
        - lia. }
      assert (Hrow : ztake 2 [(s, -1); (s + 1, -1)] = rows_of s 2).
      { unfold rows_of, ztake. change (Z.to_nat 2) with 2%nat. cbn [zseq map firstn]. reflexivity. }
      rewrite Hrow.
      assert (Hlen : zlen (rows_of s 2) = 2) by (unfold rows_of; rewrite zlen_map_zseq; lia).
      exists 2.
      destruct (gM g <=? gi + 1) eqn:EM; simp_st; unfold set_scan; simp_st; rewrite Hlen.
      * splits; try lia; try reflexivity.
        intros Hlt. exists (R + 1), 0, 0. simp_st. rewrite Hv2. splits; try lia; try discriminate.
        all: try (rewrite Emg; discriminate).
        all: try (intros _; splits; try reflexivity; try assumption; lia).
      * splits; try lia; try reflexivity.
        intros Hlt. exists R, (gi + 1), 0. simp_st. rewrite Hv2. splits; try lia; try discriminate.
        all: try (rewrite Emg; discriminate).
        all: try (intros _; splits; try reflexivity; try assumption; lia).
  - (* the spare row is delivered *)
    rewrite Hsf. cbn [Z.eqb Pos.eqb]. simp_st.
    assert (Hrow : [(sp, -1)] = rows_of s 1).
    { rewrite (Hsp eq_refl). reflexivity. }
    rewrite Hrow.
    assert (Hlen : zlen (rows_of s 1) = 1) by (unfold rows_of; rewrite zlen_map_zseq; lia).
    exists 1.
    destruct (gM g <=? gi + 1) eqn:EM; simp_st; unfold set_scan; simp_st; rewrite Hlen.
    + splits; try lia; try reflexivity.
      intros Hlt. exists (R + 1), 0, 0. simp_st. rewrite Hv2. splits; try lia; try discriminate.
      all: try (rewrite Emg; discriminate).
      all: try (intros _; splits; try reflexivity; try assumption; lia).
    + splits; try lia; try reflexivity.
      intros Hlt. exists R, (gi + 1), 0. simp_st. rewrite Hv2. splits; try lia; try discriminate.
      all: try (rewrite Emg; discriminate).
      all: try (intros _; splits; try reflexivity; try assumption; lia).
Qed.

Lemma read_call s pend exact st avail :
  Inv s pend exact st -> 1 <= avail ->
  (exact = true \/ gH g mod gv g = 0 \/ avail <= gH g - s) ->
  ReadOk s exact avail (read_scanlines_s g st avail).
Proof.
  intros HI Hav Hside. destruct (Bool.bool_dec (gmerged g) true) as [Emg | Emg].
  - destruct (Hmv Emg) as [H1 | H2].
    + eapply read_call_m1; eauto.
    + eapply read_call_m2; eauto.
  - apply not_true_is_false in Emg. eapply read_call_sep; eauto.
Qed.

(* ---------- read_and_discard_scanlines ---------- *)
Lemma rad_ok n : forall s pend exact st,
  Inv s pend exact st -> s + Z.of_nat n <= gH g ->
  scan (read_and_discard_s g n st) = s + Z.of_nat n /\
  (s + Z.of_nat n < gH g -> Inv (s + Z.of_nat n) (pend && Nat.eqb n 0) exact (read_and_discard_s g n st)).
Proof.
  induction n as [|n IH]; intros s pend exact st HI Hle.
  - cbn [read_and_discard_s Nat.eqb]. rewrite andb_true_r. replace (s + Z.of_nat 0) with s by lia.
    split; [apply (Inv_scan _ _ _ _ HI)|]. intros _. exact HI.
  - cbn [read_and_discard_s Nat.eqb]. rewrite andb_false_r.
    destruct (Inv_scan _ _ _ _ HI) as (_ & Hs).
    destruct (read_call s pend exact st 1 HI ltac:(lia) ltac:(right; right; lia)) as (k & Hrows & Hk & HkH & Hsc & HI1).
    assert (k = 1) by lia. subst k.
    set (st1 := fst (read_scanlines_s g st 1)) in *.
    destruct (Z.eq_dec (s + 1) (gH g)) as [Heq | Hne].
    + assert (n = 0%nat) by lia. subst n. cbn [read_and_discard_s]. split; [lia|]. intros; lia.
    + assert (Hlt : s + 1 < gH g) by lia.
      destruct (IH (s + 1) false exact st1 (HI1 Hlt) ltac:(lia)) as (A & B).
      split; [lia|]. intros Hlt2.
      replace (s + Z.of_nat (S n)) with (s + 1 + Z.of_nat n) by lia.
      cbn [andb] in B. apply B. lia.
Qed.

(* ---------- op Read n ---------- *)
Lemma read_loop_zero fuel st n : n <= 0 -> read_loop_s g fuel st n = (st, [], []).
Proof. intros. destruct fuel; cbn [read_loop_s]; [reflexivity|]. assert (E : (n <=? 0) = true) by lia. rewrite E. reflexivity. Qed.

Lemma read_loop_bottom fuel st n : gH g <= scan st -> read_loop_s g fuel st n = (st, [], []).
Proof.
  intros. destruct fuel; cbn [read_loop_s]; [reflexivity|].
  assert (E : (gH g <=? scan st) = true) by lia. rewrite E, orb_true_r. reflexivity.
Qed.

Lemma rows_of_app s p q : 0 <= p -> 0 <= q -> rows_of s (p + q) = rows_of s p ++ rows_of (s + p) q.
Proof. intros. unfold rows_of. rewrite zseq_split by lia. apply map_app. Qed.

Lemma read_loop_ok fuel : forall s pend exact st n,
  Inv s pend exact st -> 0 < n -> n <= Z.of_nat fuel ->
  (exact = true \/ gH g mod gv g = 0 \/ s + n <= gH g) ->
  exists st' cs, read_loop_s g fuel st n = (st', cs, rows_of s (Z.min n (gH g - s))) /\
    scan st' = Z.min (gH g) (s + n) /\ Forall (fun c => 1 <= c) cs /\ zsum cs = Z.min n (gH g - s) /\
    (s + n < gH g -> Inv (s + n) false exact st').
Proof.
  induction fuel as [|f IH]; intros s pend exact st n HI Hn Hf Hside; [lia|].
  destruct (Inv_scan _ _ _ _ HI) as (Hsc & Hs).
  cbn [read_loop_s]. rewrite Hsc.
  assert (E : ((n <=? 0) || (gH g <=? s)) = false) by lia. rewrite E. clear E.
  destruct (read_call s pend exact st n HI ltac:(lia) ltac:(lia)) as (k & Hrows & Hk & HkH & Hsc1 & HI1).
  destruct (read_scanlines_s g st n) as [st1 rows] eqn:Er. cbn [fst snd] in *. subst rows.
  assert (Hlen : zlen (rows_of s k) = k) by (unfold rows_of; rewrite zlen_map_zseq; lia).
  rewrite Hlen. assert (E : (k =? 0) = false) by lia. rewrite E. clear E.
  destruct (Z.eq_dec k n) as [Hkn | Hkn].
  - (* everything delivered by this call *)
    subst k. rewrite read_loop_zero by lia.
    exists st1, [n]. replace (Z.min n (gH g - s)) with n by lia. rewrite app_nil_r.
    splits; try lia; try reflexivity.
    + constructor; [lia|constructor].
    + cbn. lia.
    + exact HI1.
  - destruct (Z.eq_dec (s + k) (gH g)) as [Hb | Hb].
    + (* bottom reached *)
      rewrite read_loop_bottom by lia.
      exists st1, [k]. replace (Z.min n (gH g - s)) with k by lia. rewrite app_nil_r.
      splits; try lia; try reflexivity.
      * constructor; [lia|constructor].
      * cbn. lia.
    + assert (Hlt : s + k < gH g) by lia.
      destruct (IH (s + k) false exact st1 (n - k) (HI1 Hlt) ltac:(lia) ltac:(lia) ltac:(lia))
        as (st2 & cs & Hrl & Hsc2 & Hall & Hsum & HI2).
      rewrite Hrl. exists st2, (k :: cs).
      splits; try lia.
      * f_equal. replace (Z.min n (gH g - s)) with (k + Z.min (n - k) (gH g - (s + k))) by lia.
        rewrite rows_of_app by lia. reflexivity.
      * constructor; [lia|assumption].
      * cbn [zsum]. lia.
      * intros Hx. replace (s + n) with (s + k + (n - k)) by lia. apply HI2. lia.
Qed.

(* ---------- arithmetic of the position decomposition ---------- *)
Lemma decomp_mod s R gi r :
  s = (R * gM g + gi) * gv g + r -> 0 <= R -> 0 <= gi < gM g -> 0 <= r < gv g ->
  s mod gL g = gi * gv g + r /\ s / gL g = R /\ s mod gv g = r.
Proof.
  intros Hs HR Hgi Hr. unfold gL.
  assert (Hb : 0 <= gi * gv g + r < gM g * gv g) by nia.
  assert (He : s = gM g * gv g * R + (gi * gv g + r)) by lia.
  splits.
  - symmetry. apply (Z.mod_unique_pos s (gM g * gv g) R (gi * gv g + r)); assumption.
  - symmetry. apply (Z.div_unique_pos s (gM g * gv g) R (gi * gv g + r)); assumption.
  - symmetry. apply (Z.mod_unique_pos s (gv g) (R * gM g + gi) r); lia.
Qed.

Lemma m1_not_m2 : gmerged g = true -> gv g = 1 -> merged2v g = false.
Proof. intros A B. unfold merged2v. rewrite A, B. reflexivity. Qed.

(* rows_to_go is irrelevant for the merged 1v upsampler *)
Lemma Inv_exact_irrelevant s p e e' st :
  merged2v g = false -> gmerged g = true -> Inv s p e st -> Inv s p e' st.
Proof.
  intros Hm2 Emg (R & gi & r & H1 & H2 & H3 & H4 & H5 & H6 & H7 & H8 & H9 & H10 & H11 & H12).
  exists R, gi, r. splits; auto; try lia.
  all: try (intros [A | A]; [rewrite Emg in A; discriminate | unfold merged2v in Hm2; rewrite Emg in Hm2;
            assert ((gv g =? 2) = true) by lia; rewrite H in Hm2; discriminate]).
Qed.

Lemma reset_rtg_ok s p e st :
  Inv s p e st -> scan (reset_rtg g st) = s /\ Inv s p (if gmerged g then e else true) (reset_rtg g st).
Proof.
  intros HI. destruct (Inv_scan _ _ _ _ HI) as (Hsc & _). unfold reset_rtg.
  destruct (Bool.bool_dec (gmerged g) true) as [Emg | Emg].
  - rewrite Emg. split; assumption.
  - apply not_true_is_false in Emg. rewrite Emg. unfold set_rtg_now. simp_st. split; [assumption|].
    destruct HI as (R & gi & r & H1 & H2 & H3 & H4 & H5 & H6 & H7 & H8 & H9 & H10 & H11 & H12).
    exists R, gi, r. simp_st. splits; auto; try lia.
Qed.

(* rows_to_go := output_height - output_scanline, for any upsampler *)
Lemma set_rtg_ok s p e st : Inv s p e st -> scan (set_rtg_now g st) = s /\ Inv s p true (set_rtg_now g st).
Proof.
  intros HI. destruct (Inv_scan _ _ _ _ HI) as (Hsc & _). unfold set_rtg_now. simp_st. split; [assumption|].
  destruct HI as (R & gi & r & H1 & H2 & H3 & H4 & H5 & H6 & H7 & H8 & H9 & H10 & H11 & H12).
  exists R, gi, r. simp_st. splits; auto; try lia.
Qed.

Lemma reset_sep_ok s p e st :
  gmerged g = false -> Inv s p e st ->
  Inv s p true (mkS (scan st) (bfull st) (rgctr st) (imcu st) (bufrow st) (nro st) (gH g - scan st) (cbuf st)
                    (sfull st) (spare st)).
Proof.
  intros Emg HI. pose proof (reset_rtg_ok s p e st HI) as (_ & B). unfold reset_rtg, set_rtg_now in B. rewrite Emg in B. exact B.
Qed.

(* the "rowgroup_ctr += q" part of increment_simple_rowgroup_ctr *)
Lemma bump_ok s pend exact st q :
  Inv s pend exact st -> merged2v g = false -> 0 <= q ->
  (s mod gv g = 0 \/ q = 0) -> s mod gL g + gv g * q < gL g -> s + gv g * q < gH g ->
  Inv (s + gv g * q) (pend || (negb (bfull st) && (0 <? q))) (exact && (q =? 0))
      (mkS (scan st + gv g * q) (bfull st) (rgctr st + q) (imcu st) (bufrow st) (nro st) (rtg st) (cbuf st)
           (sfull st) (spare st)).
Proof.
  intros (R & gi & r & Hs & HR & Hgi & Hr & HsH & Hscan & Hrg & Hbt & Hbf & Hrtg & Hsep & Hm2) Hm2f Hq Hal Hin HltH.
  destruct (decomp_mod s R gi r Hs HR Hgi Hr) as (HmL & HdL & Hmv_).
  rewrite HmL in Hin. rewrite Hmv_ in Hal. unfold gL in Hin.
  assert (Hgq : gi + q < gM g) by nia.
  exists R, (gi + q), r. simp_st. rewrite Hscan, Hrg.
  splits; try lia.
  all: try (intros Hb; destruct (Hbt Hb) as (A & B & C & D); rewrite Hb; cbn [negb andb]; rewrite orb_false_r;
            splits; auto; lia).
  all: try (intros Hb; destruct (Hbf Hb) as (A & B & C & D); rewrite Hb; cbn [negb andb]; splits; auto;
            [ intros Hp; apply orb_false_iff in Hp; destruct Hp as (Hp1 & Hp2); specialize (C Hp1); lia
            | intros Hp; apply orb_true_iff in Hp; destruct Hp as [Hp | Hp]; [specialize (D Hp); lia | lia] ]).
  all: try (intros Hm; destruct (Hrtg Hm) as (A & B); split; [lia|];
            intros He; apply andb_true_iff in He; destruct He as (He1 & He2); rewrite (B He1); lia).
  all: try (intros Hm; destruct (Hsep Hm) as (A & B); split; [assumption|]; intros Hr0; rewrite (B Hr0); lia).
  all: try (rewrite Hm2f; discriminate).
Qed.

Lemma nat_eqb_z m : 0 <= m -> Nat.eqb (Z.to_nat m) 0 = (m =? 0).
Proof. intros. destruct (Z.eq_dec m 0) as [-> | Hne]; [reflexivity|].
  assert (E : (m =? 0) = false) by lia. rewrite E. apply Nat.eqb_neq. lia. Qed.

End Sched.
