(* C08 -- the no-context row scheduler (model/Partial.v, section b1): a history
   of Read/Skip calls without hazard behaves like a full decode. *)
From Coq Require Import List ZArith Lia Bool ZifyBool.
From LJT Require Import model.Partial.
Import ListNotations.
Local Open Scope Z_scope.

(* ---------- small list facts ---------- *)
Lemma zseq_length a n : length (zseq a n) = n.
Proof. revert a. induction n; intros; cbn; [reflexivity|]. now rewrite IHn. Qed.

Lemma zlen_map_zseq {A} (f : Z -> A) a n : zlen (map f (zseq a n)) = Z.of_nat n.
Proof. unfold zlen. now rewrite map_length, zseq_length. Qed.

Lemma map_shift {A} (f : Z -> A) a n b :
  map (fun k => f (a + k)) (zseq b n) = map f (zseq (a + b) n).
Proof.
  revert b. induction n; intros b; cbn; [reflexivity|].
  f_equal. rewrite IHn. f_equal. f_equal. lia.
Qed.

Lemma zseq_app a n m : zseq a (n + m) = zseq a n ++ zseq (a + Z.of_nat n) m.
Proof.
  revert a. induction n; intros a.
  - cbn. f_equal. lia.
  - cbn [Nat.add zseq app]. f_equal. rewrite IHn. f_equal. f_equal. lia.
Qed.

Lemma zseq_split a (p q : Z) : 0 <= p -> 0 <= q ->
  zseq a (Z.to_nat (p + q)) = zseq a (Z.to_nat p) ++ zseq (a + p) (Z.to_nat q).
Proof.
  intros. rewrite Z2Nat.inj_add by lia. rewrite zseq_app. now rewrite Z2Nat.id by lia.
Qed.

Fixpoint zsum (l : list Z) : Z := match l with [] => 0 | x :: t => x + zsum t end.

Section Sched.
Variable g : geom.
Hypothesis HM : 1 <= gM g.
Hypothesis Hv : 1 <= gv g.
Hypothesis HH : 0 <= gH g < 4294967296.
Hypothesis Hmv : gmerged g = true -> gv g = 1 \/ gv g = 2.

Definition rows_of (s k : Z) : list prov := map ideal_s (zseq s (Z.to_nat k)).

(* the state is what a full decode has after delivering exactly s rows (s < H), up to
   pend:  an iMCU row is pending (buffer_full = FALSE in the middle of an iMCU row)
   exact: rows_to_go is exact (it is always >= the number of rows left) *)
Definition Inv (s : Z) (pend exact : bool) (st : sst) : Prop :=
  exists R gi r,
    s = (R * gM g + gi) * gv g + r /\ 0 <= R /\ 0 <= gi < gM g /\ 0 <= r < gv g /\ s < gH g /\
    scan st = s /\ rgctr st = gi /\
    (bfull st = true -> bufrow st = R /\ imcu st = R + 1 /\ (0 < gi \/ 0 < r)) /\
    (bfull st = false -> imcu st = R /\ r = 0 /\ (pend = false -> gi = 0)) /\
    ((gmerged g = false \/ gv g = 2) -> gH g - s <= rtg st /\ (exact = true -> rtg st = gH g - s)) /\
    (gmerged g = false -> nro st = (if r =? 0 then gv g else r) /\ (0 < r -> cbuf st = R * gM g + gi)) /\
    (merged2v g = true -> sfull st = (r =? 1) /\ (r = 1 -> spare st = s) /\ pend = false).

(* weakening of the two flags, one at a time *)
Lemma Inv_inexact s p e st : Inv s p e st -> Inv s p false st.
Proof.
  intros (R & gi & r & H1 & H2 & H3 & H4 & H5 & H6 & H7 & H8 & H9 & H10 & H11 & H12).
  exists R, gi, r. repeat match goal with |- _ /\ _ => split end; auto; try lia.
  all: try (intros Hm; destruct (H10 Hm); split; auto; discriminate).
Qed.

Lemma Inv_pend s e st : merged2v g = false -> forall p, Inv s false e st -> Inv s p e st.
Proof.
  intros Hm2 p (R & gi & r & H1 & H2 & H3 & H4 & H5 & H6 & H7 & H8 & H9 & H10 & H11 & H12).
  exists R, gi, r. repeat match goal with |- _ /\ _ => split end; auto; try lia.
  all: try (intros Hb; destruct (H9 Hb) as (A & B & C); repeat split; auto; intros; apply C; reflexivity).
  all: try (intros Hx; rewrite Hm2 in Hx; discriminate).
Qed.

Lemma Inv_scan s p e st : Inv s p e st -> scan st = s /\ 0 <= s < gH g.
Proof.
  intros (R & gi & r & H1 & H2 & H3 & H4 & H5 & H6 & _). split; [assumption|]. nia.
Qed.

(* ---------- one call of jpeg_read_scanlines ---------- *)
Lemma read_call s pend exact st avail :
  Inv s pend exact st -> 1 <= avail ->
  (exact = true \/ gH g mod gv g = 0 \/ avail <= gH g - s) ->
  exists k st', read_scanlines_s g st avail = (st', rows_of s k) /\
    1 <= k <= avail /\ s + k <= gH g /\ scan st' = s + k /\
    (s + k < gH g -> Inv (s + k) false exact st').
Proof.
  intros (R & gi & r & Hs & HR & Hgi & Hr & HsH & Hscan & Hrg & Hbt & Hbf & Hrtg & Hsep & Hm2) Hav Hside.
  unfold read_scanlines_s. rewrite Hscan.
  destruct (gH g <=? s) eqn:E0; [lia|]. clear E0.
  unfold simple_main.
  (* state after the buffer was filled if necessary *)
  set (st1 := if bfull st then st
              else mkS (scan st) true (rgctr st) (imcu st + 1) (imcu st) (nro st) (rtg st) (cbuf st) (sfull st) (spare st)).
  assert (F1 : scan st1 = s /\ bfull st1 = true /\ rgctr st1 = gi /\ imcu st1 = R + 1 /\ bufrow st1 = R /\
               nro st1 = nro st /\ rtg st1 = rtg st /\ cbuf st1 = cbuf st /\ sfull st1 = sfull st /\ spare st1 = spare st).
  { unfold st1. destruct (bfull st) eqn:Eb.
    - destruct (Hbt eq_refl) as (A & B & _). repeat split; auto.
    - destruct (Hbf eq_refl) as (A & _). cbn. repeat split; auto; lia. }
  destruct F1 as (S1 & B1 & G1 & I1 & U1 & N1 & T1 & C1 & SF1 & SP1).
  (* r > 0 forces a full buffer *)
  assert (Hrb : 0 < r -> bfull st = true).
  { intros. destruct (bfull st) eqn:Eb; [reflexivity|]. destruct (Hbf eq_refl) as (_ & A & _). lia. }
  unfold upsample_s.
  destruct (gmerged g) eqn:Emg.
  - (* merged *)
    destruct (Hmv eq_refl) as [Hv1 | Hv2].
    + (* merged 1v *)
      assert (E2 : (gv g =? 2) = false) by lia. rewrite E2.
      assert (r = 0) by lia. subst r.
      unfold merged_1v_s. cbn [fst snd].
      exists 1. eexists. split.
      { rewrite U1, G1. unfold rows_of. cbn [Z.to_nat Pos.to_nat Pos.iter_op Nat.add zseq map].
        unfold ideal_s. replace (R * gM g + gi) with s by nia. reflexivity. }
      split; [lia|]. split; [lia|].
      destruct (gM g <=? gi + 1) eqn:EM; rewrite G1, EM; cbn [scan].
      * split. { unfold zlen. cbn. lia. }
        intros Hlt. exists (R + 1), 0, 0. cbn [scan bfull rgctr imcu bufrow nro rtg cbuf sfull spare].
        rewrite Hv1 in *. repeat match goal with |- _ /\ _ => split end; try lia.
        -- unfold zlen; cbn; lia.
        -- discriminate.
        -- intros [A|A]; [discriminate|lia].
        -- discriminate.
        -- unfold merged2v. rewrite Emg, Hv1. discriminate.
      * split. { unfold zlen. cbn. lia. }
        intros Hlt. exists R, (gi + 1), 0. cbn [scan bfull rgctr imcu bufrow nro rtg cbuf sfull spare].
        rewrite Hv1 in *. repeat match goal with |- _ /\ _ => split end; try lia.
        -- unfold zlen; cbn; lia.
        -- intros _. rewrite B1, U1, I1. repeat split; lia.
        -- rewrite B1. discriminate.
        -- intros [A|A]; [discriminate|lia].
        -- discriminate.
        -- unfold merged2v. rewrite Emg, Hv1. discriminate.
    + (* merged 2v *)
      assert (E2 : (gv g =? 2) = true) by lia. rewrite E2.
      assert (Hm2' : merged2v g = true) by (unfold merged2v; rewrite Emg, E2; reflexivity).
      destruct (Hm2 Hm2') as (Hsf & Hsp & Hp).
      destruct (Hrtg (or_intror Hv2)) as (Hrt1 & Hrt2).
      unfold merged_2v_s. rewrite SF1, Hsf.
      assert (Hr01 : r = 0 \/ r = 1) by lia.
      destruct Hr01 as [-> | ->].
      * (* spare empty *)
        cbn [Z.eqb].
        set (num := Z.max 0 (Z.min (Z.min 2 (rtg st1)) avail)).
        assert (Hnum : num = 1 \/ num = 2) by (unfold num; rewrite T1; lia).
        assert (Hs2 : s = (R * gM g + gi) * 2) by lia.
        destruct Hnum as [Hn | Hn].
        -- (* one row, the second goes to the spare *)
           rewrite Hn. cbn [Z.ltb Z.compare Pos.compare Pos.compare_cont negb].
           exists 1. eexists. split.
           { rewrite U1, G1. unfold rows_of, ztake. cbn [Z.to_nat Pos.to_nat Pos.iter_op Nat.add zseq map firstn].
             unfold ideal_s. rewrite <- Hs2. reflexivity. }
           split; [lia|]. split; [lia|].
           cbn [rgctr]. rewrite G1.
           assert (EM : (gM g <=? gi) = false) by lia. rewrite EM. cbn [scan].
           split. { unfold zlen, ztake. cbn. lia. }
           intros Hlt. exists R, gi, 1. cbn [scan bfull rgctr imcu bufrow nro rtg cbuf sfull spare].
           rewrite Hv2. repeat match goal with |- _ /\ _ => split end; try lia.
           ++ unfold zlen, ztake; cbn; lia.
           ++ intros _. rewrite U1, I1. repeat split; lia.
           ++ rewrite B1. discriminate.
           ++ intros _. rewrite T1. split; [lia|]. intros He. rewrite (Hrt2 He). lia.
           ++ rewrite Emg. discriminate.
           ++ intros _. repeat split; [rewrite U1, G1; lia | assumption].
        -- (* two rows *)
           rewrite Hn. cbn [Z.ltb Z.compare Pos.compare Pos.compare_cont negb].
           assert (Hs2H : s + 2 <= gH g).
           { unfold num in Hn. rewrite T1 in Hn.
             destruct Hside as [He | [He | He]].
             - rewrite (Hrt2 He) in Hn. lia.
             - rewrite Hv2 in He. lia.
             - lia. }
           exists 2. eexists. split.
           { rewrite U1, G1. unfold rows_of, ztake. cbn [Z.to_nat Pos.to_nat Pos.iter_op Nat.add zseq map firstn].
             unfold ideal_s. rewrite <- Hs2. reflexivity. }
           split; [lia|]. split; [lia|].
           cbn [rgctr]. rewrite G1.
           destruct (gM g <=? gi + 1) eqn:EM; cbn [scan].
           ++ split. { unfold zlen, ztake. cbn. lia. }
              intros Hlt. exists (R + 1), 0, 0. cbn [scan bfull rgctr imcu bufrow nro rtg cbuf sfull spare].
              rewrite Hv2. repeat match goal with |- _ /\ _ => split end; try lia.
              ** unfold zlen, ztake; cbn; lia.
              ** discriminate.
              ** intros _. rewrite T1. split; [lia|]. intros He. rewrite (Hrt2 He). lia.
              ** rewrite Emg. discriminate.
              ** intros _. repeat split; [reflexivity | lia].
           ++ split. { unfold zlen, ztake. cbn. lia. }
              intros Hlt. exists R, (gi + 1), 0. cbn [scan bfull rgctr imcu bufrow nro rtg cbuf sfull spare].
              rewrite Hv2. repeat match goal with |- _ /\ _ => split end; try lia.
              ** unfold zlen, ztake; cbn; lia.
              ** intros _. rewrite U1, I1. repeat split; lia.
              ** rewrite B1. discriminate.
              ** intros _. rewrite T1. split; [lia|]. intros He. rewrite (Hrt2 He). lia.
              ** rewrite Emg. discriminate.
              ** intros _. repeat split; [reflexivity | lia].
      * (* the spare row is delivered *)
        cbn [Z.eqb Pos.eqb].
        exists 1. eexists. split.
        { rewrite SP1, (Hsp eq_refl). unfold rows_of. cbn [Z.to_nat Pos.to_nat Pos.iter_op Nat.add zseq map].
          reflexivity. }
        split; [lia|]. split; [lia|].
        cbn [rgctr]. rewrite G1.
        destruct (gM g <=? gi + 1) eqn:EM; cbn [scan].
        -- split. { unfold zlen. cbn. lia. }
           intros Hlt. exists (R + 1), 0, 0. cbn [scan bfull rgctr imcu bufrow nro rtg cbuf sfull spare].
           rewrite Hv2. repeat match goal with |- _ /\ _ => split end; try lia.
           ++ unfold zlen; cbn; lia.
           ++ discriminate.
           ++ intros _. rewrite T1. split; [lia|]. intros He. rewrite (Hrt2 He). lia.
           ++ rewrite Emg. discriminate.
           ++ intros _. repeat split; [reflexivity | lia].
        -- split. { unfold zlen. cbn. lia. }
           intros Hlt. exists R, (gi + 1), 0. cbn [scan bfull rgctr imcu bufrow nro rtg cbuf sfull spare].
           rewrite Hv2. repeat match goal with |- _ /\ _ => split end; try lia.
           ++ unfold zlen; cbn; lia.
           ++ intros _. rewrite U1, I1. repeat split; lia.
           ++ rewrite B1. discriminate.
           ++ intros _. rewrite T1. split; [lia|]. intros He. rewrite (Hrt2 He). lia.
           ++ rewrite Emg. discriminate.
           ++ intros _. repeat split; [reflexivity | lia].
  - (* separate upsampler *)
    destruct (Hsep eq_refl) as (Hnro & Hcb).
    destruct (Hrtg (or_introl eq_refl)) as (Hrt1 & Hrt2).
    assert (Hm2f : merged2v g = false) by (unfold merged2v; rewrite Emg; reflexivity).
    unfold sep_upsample_s. rewrite N1, C1, U1, G1, T1.
    (* in both cases the conversion buffer holds the current row group at offset r *)
    assert (Hpair : (if gv g <=? nro st then (0, R * gM g + gi) else (nro st, cbuf st)) = (r, R * gM g + gi)).
    { rewrite Hnro. destruct (r =? 0) eqn:Er.
      - assert (r = 0) by lia. subst r. assert (E : (gv g <=? gv g) = true) by lia. rewrite E. reflexivity.
      - assert (E : (gv g <=? r) = false) by lia. rewrite E. rewrite Hcb by lia. reflexivity. }
    rewrite Hpair.
    set (k := Z.max 0 (Z.min (Z.min (gv g - r) (rtg st)) avail)).
    assert (Hk : 1 <= k <= avail /\ k <= gv g - r /\ k <= rtg st) by (unfold k; lia).
    assert (HkH : s + k <= gH g).
    { destruct Hside as [He | [He | He]].
      - rewrite (Hrt2 He) in Hk. lia.
      - (* H is a multiple of v: a whole row group is left *)
        assert (gH g = gv g * (gH g / gv g)) by (pose proof (Z.div_mod (gH g) (gv g)); lia).
        set (q := gH g / gv g) in *. set (G := R * gM g + gi) in *.
        assert (G < q) by nia. nia.
      - lia. }
    exists k. eexists. split.
    { f_equal. unfold rows_of.
      rewrite <- (map_shift ideal_s s (Z.to_nat k) 0). replace (s + 0) with s by lia.
      apply map_ext. intros j. unfold ideal_s. f_equal. rewrite Hs. lia. }
    split; [lia|]. split; [lia|].
    cbn [rgctr scan].
    rewrite zlen_map_zseq, Z2Nat.id by lia.
    destruct (gv g <=? r + k) eqn:Eg.
    + (* the row group is finished *)
      assert (Hrk : r + k = gv g) by lia.
      destruct (gM g <=? gi + 1) eqn:EM; cbn [scan].
      * split; [lia|].
        intros Hlt. exists (R + 1), 0, 0. cbn [scan bfull rgctr imcu bufrow nro rtg cbuf sfull spare].
        repeat match goal with |- _ /\ _ => split end; try lia.
        -- assert (gi + 1 = gM g) by lia. nia.
        -- discriminate.
        -- intros _. split; [lia|]. intros He. rewrite (Hrt2 He). lia.
        -- intros _. split; [|lia]. cbn [Z.eqb]. lia.
        -- rewrite Hm2f. discriminate.
      * split; [lia|].
        intros Hlt. exists R, (gi + 1), 0. cbn [scan bfull rgctr imcu bufrow nro rtg cbuf sfull spare].
        repeat match goal with |- _ /\ _ => split end; try lia.
        -- intros _. rewrite I1. repeat split; lia.
        -- rewrite B1. discriminate.
        -- intros _. split; [lia|]. intros He. rewrite (Hrt2 He). lia.
        -- intros _. split; [|lia]. cbn [Z.eqb]. lia.
        -- rewrite Hm2f. discriminate.
    + (* still inside the row group *)
      assert (EM : (gM g <=? gi) = false) by lia. rewrite EM. cbn [scan].
      split; [lia|].
      intros Hlt. exists R, gi, (r + k). cbn [scan bfull rgctr imcu bufrow nro rtg cbuf sfull spare].
      repeat match goal with |- _ /\ _ => split end; try lia.
      * intros _. rewrite I1. repeat split; lia.
      * rewrite B1. discriminate.
      * intros _. split; [lia|]. intros He. rewrite (Hrt2 He). lia.
      * intros _. split; [|lia]. assert (E : (r + k =? 0) = false) by lia. rewrite E. reflexivity.
      * rewrite Hm2f. discriminate.
Qed.

End Sched.
