(* C05 -- accurate inverse DCT: inside the boundary c_idct_islow_ok the SSE2 kernel equals jpeg_idct_islow
   for ALL coefficient blocks and multiplier tables, incl. the zero-AC shortcuts on both sides. *)
From Coq Require Import List ZArith Lia Bool ZifyBool.
From LJT Require Import lib.Words gen.GenSimdConst model.SimdDct model.SimdIdctFast model.SimdFdctInt model.SimdIdctInt
  proofs.SimdDctProofs proofs.SimdIdctFastProofs proofs.SimdFdctIntProofs.
Import ListNotations.
Local Open Scope Z_scope.

Lemma psubd_w (x y : Z) : psubd (w32 x) (w32 y) = w32 (x - y).
Proof. unfold psubd, w32. rewrite <- Zminus_mod. reflexivity. Qed.
Lemma maddi_eq a b row : f16 a -> f16 b -> f16 (nth 0 (snd row) 0) -> f16 (nth 1 (snd row) 0) ->
  maddi (w16 a) (w16 b) row = w32 (a * nth 0 (snd row) 0 + b * nth 1 (snd row) 0).
Proof. exact (madd_eq a b row). Qed.
Lemma hi_shift t : f16 t -> psrad (dword_hi (w16 t)) 3 = w32 (t * 8192).
Proof.
  unfold f16. intros H. unfold psrad, dword_hi. change (2 ^ 3) with 8. f_equal.
  assert (E : s32 (w16 t * 65536) = t * 65536).
  { unfold s32, w16. destruct (Z_lt_le_dec t 0).
    - replace (t mod 65536) with (t + 65536) by (apply Z.mod_unique with (q := -1); lia).
      replace ((t + 65536) * 65536 + 2147483648) with (t * 65536 + 2147483648 + 1 * 4294967296) by lia.
      rewrite Z.mod_add by lia. rewrite Z.mod_small by lia. lia.
    - rewrite (Z.mod_small t) by lia. rewrite Z.mod_small by lia. lia. }
  rewrite E. replace (t * 65536) with (t * 8192 * 8) by lia. apply Z.div_mul. lia.
Qed.

Lemma ii_consts :
  map ci (seq 0 12) = [2446; 3196; 4433; 6270; 7373; 9633; 12299; 15137; 16069; 16819; 20995; 25172] /\
  c_jidctint_CONST_BITS = 13 /\ jidctint_sse2_CONST_BITS = 13 /\ jidctint_sse2_PASS1_BITS = 2 /\
  jidctint_sse2_DESCALE_P1 = 11 /\ jidctint_sse2_DESCALE_P2 = 18 /\
  rd32 jidctint_sse2_PD_DESCALE_P1 = w32 (2 ^ (11 - 1)) /\ rd32 jidctint_sse2_PD_DESCALE_P2 = w32 (2 ^ (18 - 1)) /\
  nth 0 (snd jidctint_sse2_PB_CENTERJSAMP) 0 = 128.
Proof. vm_compute. repeat split; reflexivity. Qed.
Lemma ci_num k : ci k = nth k [2446; 3196; 4433; 6270; 7373; 9633; 12299; 15137; 16069; 16819; 20995; 25172] 0.
Proof. do 12 (destruct k as [|k]; [reflexivity|]). destruct k; reflexivity. Qed.

(* the flow graph on dword lanes is the C computation on integers *)
Theorem idctint1_wide_eq d : length d = 8%nat -> Forall f16 d -> Forall f16 (cii_checks16 d) ->
  asm_idctint1_wide (map w16 d) = map w32 (c_idctint1_wide d).
Proof.
  intros Hl Hd Hc.
  destruct d as [|d0 [|d1 [|d2 [|d3 [|d4 [|d5 [|d6 [|d7 [|? ?]]]]]]]]]; try discriminate.
  unfold cii_checks16 in Hc. cbn [nth] in Hc. fits_all.
  unfold asm_idctint1_wide, c_idctint1_wide. cbn [map nth].
  destruct ii_consts as (_ & Hcb & Hab & _).
  rewrite Hcb, Hab. change (16 - 13) with 3. change (2 ^ 13) with 8192.
  rewrite !paddw_w, !psubw_w.
  rewrite !hi_shift by assumption.
  rewrite !maddi_eq by (assumption || (vm_compute; split; congruence)).
  rewrite ?paddd_w, ?psubd_w. rewrite ?paddd_w, ?psubd_w.
  rewrite !ci_num.
  cbn [snd nth jidctint_sse2_PW_F130_F054 jidctint_sse2_PW_F054_MF130 jidctint_sse2_PW_MF078_F117 jidctint_sse2_PW_F117_F078
       jidctint_sse2_PW_MF060_MF089 jidctint_sse2_PW_MF089_F060 jidctint_sse2_PW_MF050_MF256 jidctint_sse2_PW_MF256_F050].
  repeat match goal with |- _ :: _ = _ :: _ => f_equal end; f_equal; lia.
Qed.

Lemma p1_eq X : fits32b (X + 1024) = true -> f16 (c_descale X 11) -> aii_p1 (w32 X) = w16 (c_descale X 11).
Proof.
  intros H32 H16. destruct ii_consts as (_ & _ & _ & _ & Hn & _ & Hr & _).
  unfold aii_p1. rewrite Hn, Hr. apply (pack_desc_eq X 11); [lia | unfold fits32b in H32; change (2 ^ (11 - 1)) with 1024; lia | assumption].
Qed.
Lemma clamp_rl v : -512 <= v < 512 -> w8 (packsswb (w16 v) + 128) = idct_range_limit v.
Proof.
  intros Hv. unfold packsswb. rewrite s16_w16 by lia. unfold idct_range_limit, w8.
  destruct (v <? -128) eqn:E1.
  - change ((-128) mod 256) with 128. change ((128 + 128) mod 256) with 0.
    assert (Hm : v mod 1024 = v + 1024) by (symmetry; apply Z.mod_unique with (q := -1); lia).
    rewrite Hm. destruct (v + 1024 <? 128) eqn:?; [lia|]. destruct (v + 1024 <? 512) eqn:?; [lia|].
    destruct (v + 1024 <? 896) eqn:?; [reflexivity|lia].
  - destruct (127 <? v) eqn:E2.
    + change (127 mod 256) with 127. change ((127 + 128) mod 256) with 255.
      rewrite (Z.mod_small v 1024) by lia. destruct (v <? 128) eqn:?; [lia|]. destruct (v <? 512) eqn:?; [reflexivity|lia].
    + destruct (v <? 0) eqn:E3.
      * assert (Hm8 : v mod 256 = v + 256) by (symmetry; apply Z.mod_unique with (q := -1); lia).
        assert (Hm : v mod 1024 = v + 1024) by (symmetry; apply Z.mod_unique with (q := -1); lia).
        rewrite Hm8, Hm. replace (v + 256 + 128) with (v + 128 + 1 * 256) by lia. rewrite Z.mod_add by lia.
        rewrite Z.mod_small by lia.
        destruct (v + 1024 <? 128) eqn:?; [lia|]. destruct (v + 1024 <? 512) eqn:?; [lia|].
        destruct (v + 1024 <? 896) eqn:?; lia.
      * rewrite (Z.mod_small v 256) by lia. rewrite (Z.mod_small v 1024) by lia. rewrite Z.mod_small by lia.
        destruct (v <? 128) eqn:?; lia.
Qed.
Lemma p2_eq X : fits32b (X + 131072) = true -> -512 <= c_descale X 18 < 512 ->
  aii_p2 (w32 X) = idct_range_limit (c_descale X 18).
Proof.
  intros H32 Hv. destruct ii_consts as (_ & _ & _ & _ & _ & Hn & _ & Hr & H128).
  unfold aii_p2. rewrite Hn, Hr, H128.
  change (packssdw (psrad (paddd (w32 X) (w32 (2 ^ (18 - 1)))) 18)) with (pack_desc (w32 X) (w32 (2 ^ (18 - 1))) 18).
  rewrite (pack_desc_eq X 18); [apply clamp_rl; assumption | lia | unfold fits32b in H32; change (2 ^ (18 - 1)) with 131072; lia | unfold f16; lia].
Qed.

(* the C shortcuts are what the full computation gives *)
Lemma wide_dc x : c_idctint1_wide [x; 0; 0; 0; 0; 0; 0; 0] = repeat (x * 8192) 8.
Proof.
  unfold c_idctint1_wide. cbn [nth repeat]. destruct ii_consts as (_ & Hcb & _). rewrite Hcb. change (2 ^ 13) with 8192.
  repeat match goal with |- _ :: _ = _ :: _ => f_equal end; lia.
Qed.
Lemma cii_col_gen c m : length c = 8%nat -> length m = 8%nat ->
  cii_col c m = map (fun s => c_descale s 11) (c_idctint1_wide (map2 Z.mul c m)).
Proof.
  intros Hc Hm. unfold cii_col. destruct ii_consts as (_ & Hcb & _ & Hp & _). rewrite Hcb, Hp. change (13 - 2) with 11.
  destruct (all_zero (tl c)) eqn:Ez; [|reflexivity].
  rewrite (all_zero_tl8 c Hc Ez) at 2.
  destruct m as [|m0 [|m1 [|m2 [|m3 [|m4 [|m5 [|m6 [|m7 [|? ?]]]]]]]]]; try discriminate.
  unfold map2. cbn [combine map fst snd hd]. rewrite !Z.mul_0_l. rewrite wide_dc. cbn [repeat map].
  assert (E : c_descale (hd 0 c * m0 * 8192) 11 = hd 0 c * m0 * 2 ^ 2).
  { unfold c_descale. rewrite Z.shiftr_div_pow2 by lia. change (2 ^ (11 - 1)) with 1024. change (2 ^ 11) with 2048. change (2 ^ 2) with 4.
    replace (hd 0 c * m0 * 8192 + 1024) with (1024 + hd 0 c * m0 * 4 * 2048) by lia. rewrite Z.div_add by lia. reflexivity. }
  rewrite !E. reflexivity.
Qed.
Lemma cii_row_gen r : length r = 8%nat ->
  cii_row r = map (fun s => idct_range_limit (c_descale s 18)) (c_idctint1_wide r).
Proof.
  intros Hl. unfold cii_row. destruct ii_consts as (_ & Hcb & _ & Hp & _). rewrite Hcb, Hp. change (13 + 2 + 3) with 18. change (2 + 3) with 5.
  destruct (all_zero (tl r)) eqn:Ez; [|reflexivity].
  rewrite (all_zero_tl8 r Hl Ez) at 2. rewrite wide_dc. cbn [repeat map].
  assert (E : c_descale (hd 0 r * 8192) 18 = c_descale (hd 0 r) 5).
  { unfold c_descale. rewrite !Z.shiftr_div_pow2 by lia. change (2 ^ (18 - 1)) with 131072. change (2 ^ 18) with (32 * 8192).
    change (2 ^ (5 - 1)) with 16. change (2 ^ 5) with 32.
    replace (hd 0 r * 8192 + 131072) with ((hd 0 r + 16) * 8192) by lia. apply Z.div_mul_cancel_r; lia. }
  rewrite !E. reflexivity.
Qed.

Lemma c_wide_len d : length (c_idctint1_wide d) = 8%nat.
Proof. reflexivity. Qed.

Lemma icol_eq (dc : bool) c m : length c = 8%nat -> length m = 8%nat ->
  (dc = true -> all_zero (tl c) = true) ->
  forallb fits16b (map2 Z.mul c m) = true -> forallb fits16b (cii_checks16 (map2 Z.mul c m)) = true ->
  forallb (fun s => fits32b (s + 1024)) (c_idctint1_wide (map2 Z.mul c m)) = true ->
  forallb fits16b (cii_col c m) = true ->
  (if dc then repeat (psllw (pmullw (hd 0 (map w16 c)) (hd 0 (map w16 m))) jidctint_sse2_PASS1_BITS) 8
   else map aii_p1 (asm_idctint1_wide (map2 pmullw (map w16 c) (map w16 m)))) = map w16 (cii_col c m).
Proof.
  intros Hc Hm Hdc Hf Hk H32 H16.
  destruct dc.
  - specialize (Hdc eq_refl). unfold cii_col. rewrite Hdc.
    destruct c as [|c0 c']; [discriminate|]. destruct m as [|m0 m']; [discriminate|].
    cbn [map hd]. rewrite pmullw_w16. destruct ii_consts as (_ & _ & _ & Hp & _). rewrite Hp.
    rewrite psllw_w by lia. cbn [repeat map]. reflexivity.
  - assert (Hdeq : map2 pmullw (map w16 c) (map w16 m) = map w16 (map2 Z.mul c m)).
    { rewrite map2_map_both, map_map2. apply map2_ext_in. intros. apply pmullw_w16. }
    rewrite Hdeq. rewrite idctint1_wide_eq; [| apply map2_length8; assumption | apply forallb_f16; assumption | apply forallb_f16; assumption].
    rewrite (cii_col_gen c m Hc Hm) in *. rewrite !map_map.
    apply map_ext_in. intros X HX. apply p1_eq.
    + rewrite forallb_forall in H32. apply H32, HX.
    + apply f16_of_b. rewrite forallb_forall in H16. apply H16. apply in_map_iff. exists X. split; [reflexivity | assumption].
Qed.

Lemma irow_eq r : length r = 8%nat -> Forall f16 r -> forallb fits16b (cii_checks16 r) = true ->
  forallb (fun s => fits32b (s + 131072) && (let v := c_descale s (c_jidctint_CONST_BITS + jidctint_sse2_PASS1_BITS + 3) in (-512 <=? v) && (v <? 512)))
    (c_idctint1_wide r) = true ->
  map aii_p2 (asm_idctint1_wide (map w16 r)) = cii_row r.
Proof.
  intros Hl Hf Hk Hfin.
  rewrite idctint1_wide_eq by (try assumption; apply forallb_f16; assumption).
  rewrite (cii_row_gen r Hl). rewrite map_map. apply map_ext_in. intros X HX.
  rewrite forallb_forall in Hfin. specialize (Hfin X HX).
  destruct ii_consts as (_ & Hcb & _ & Hp & _). rewrite Hcb, Hp in Hfin. change (13 + 2 + 3) with 18 in Hfin. cbv zeta in Hfin.
  apply andb_prop in Hfin. destruct Hfin as [H32 Hv]. apply p2_eq; [assumption | lia].
Qed.

Theorem idct_islow_eq_partial coef q : length coef = 64%nat -> length q = 64%nat ->
  c_idct_islow_ok coef q = true -> asm_idct_islow coef q = c_idct_islow coef q.
Proof.
  intros HLc HLq Hok. unfold c_idct_islow_ok in Hok.
  repeat (apply andb_prop in Hok; let H := fresh "K" in destruct Hok as [Hok H]). rename Hok into KA.
  unfold asm_idct_islow, c_idct_islow.
  rewrite !chunk8_map by assumption. rewrite !transpose_map.
  set (cols := transpose (chunk8 8 coef)) in *. set (qc := transpose (chunk8 8 q)) in *.
  destruct (chunk8_rows coef HLc) as [Rc Lc]. destruct (chunk8_rows q HLq) as [Rq Lq].
  destruct (transpose_len8 _ Rc) as [Tc Nc]. destruct (transpose_len8 _ Rq) as [Tq Nq]. rewrite Lc in Tc. rewrite Lq in Tq.
  fold cols in Tc, Nc. fold qc in Tq, Nq.
  set (dc := forallb (fun c => all_zero (tl c)) cols).
  assert (P1 : map2 (fun c m => if dc then repeat (psllw (pmullw (hd 0 c) (hd 0 m)) jidctint_sse2_PASS1_BITS) 8
                               else map aii_p1 (asm_idctint1_wide (map2 pmullw c m))) (map (map w16) cols) (map (map w16) qc) =
               map (map w16) (map2 cii_col cols qc)).
  { rewrite map2_map_both, map_map2. apply map2_ext_in. intros c m Hin.
    destruct (in_combine_len8 _ _ _ _ Tc Tq Hin) as [Hc Hm].
    apply icol_eq; try assumption.
    - intros Hdc. unfold dc in Hdc. rewrite forallb_forall in Hdc. apply Hdc. eapply in_combine_l; eauto.
    - apply (forallb_map2 (forallb fits16b) (map2 Z.mul) cols qc KA c m Hin).
    - apply (forallb_map2 (fun d => forallb fits16b (cii_checks16 d)) (map2 Z.mul) cols qc K3 c m Hin).
    - apply (forallb_map2 (fun d => forallb (fun s => fits32b (s + 1024)) (c_idctint1_wide d)) (map2 Z.mul) cols qc K2 c m Hin).
    - apply (forallb_map2 (forallb fits16b) cii_col cols qc K1 c m Hin). }
  rewrite P1. rewrite transpose_map.
  set (p1 := map2 cii_col cols qc) in *.
  assert (Hp1len : Forall (fun r => length r = 8%nat) p1).
  { unfold p1. rewrite map2_as_map. apply Forall_forall. intros r Hr. apply in_map_iff in Hr. destruct Hr as ([c m] & <- & Hin).
    destruct (in_combine_len8 _ _ _ _ Tc Tq Hin) as [Hc Hm]. cbn [fst snd].
    rewrite cii_col_gen by assumption. rewrite map_length. reflexivity. }
  assert (Hp1n : length p1 = 8%nat) by (unfold p1; apply map2_length8; assumption).
  destruct (transpose_len8 _ Hp1len) as [Tw _]. rewrite Hp1n in Tw.
  pose proof (transpose_Forall _ _ (forallb2_Forall _ _ K1)) as Fw.
  f_equal. rewrite map_map. apply map_ext_in. intros r Hr.
  rewrite Forall_forall in Tw, Fw. rewrite forallb_forall in K0, K.
  apply irow_eq; auto.
  apply Forall_forall. intros v Hv. apply f16_of_b. specialize (Fw r Hr). rewrite Forall_forall in Fw. apply Fw, Hv.
Qed.

Example idct_islow_nonvacuous :
  let coef := [240; -31; 12; 0; 5; 0; 0; 0;  17; 9; 0; 0; 0; 0; 0; 0;  -8; 0; 3; 0; 0; 0; 0; 0] ++ repeat 0 40 in
  let q := map (fun i => 2 + i mod 7) (map Z.of_nat (seq 0 64)) in
  c_idct_islow_ok coef q = true /\ asm_idct_islow coef q = c_idct_islow coef q /\
  c_idct_islow_ok (60 :: repeat 0 63) (repeat 16 64) = true /\
  c_idct_islow_ok (100 :: 90 :: repeat 0 62) (repeat 400 64) = false /\
  asm_idct_islow (100 :: 90 :: repeat 0 62) (repeat 400 64) <> c_idct_islow (100 :: 90 :: repeat 0 62) (repeat 400 64).
Proof. vm_compute. repeat split; try reflexivity. discriminate. Qed.

(* the whole-block "all AC coefficients zero" test that guards the DC shortcut ORs exactly the rows the models test
   (rows 1..7; the 4x4 kernel never reads row 4) -- read from the .asm by a register-level row tracker *)
Theorem idct_zero_ac_rows :
  zero_ac_rows_jidctint_sse2 = [1; 2; 3; 4; 5; 6; 7] /\ zero_ac_rows_jidctint_avx2 = [1; 2; 3; 4; 5; 6; 7] /\
  zero_ac_rows_jidctfst_sse2 = [1; 2; 3; 4; 5; 6; 7] /\ zero_ac_rows_jidctred_sse2_4x4 = [1; 2; 3; 5; 6; 7].
Proof. repeat split; reflexivity. Qed.
