(* C03: what jcmaster.c validate_script guarantees for an accepted progressive
   script (the successive-approximation chain per component and coefficient). *)
From Coq Require Import List ZArith Lia Bool.
From LJT Require Import model.Huff model.Script proofs.SeqProofs.
Import ListNotations.
Local Open Scope Z_scope.

(* the (Ah, Al) of the scans that code coefficient k of component c, in script order *)
Definition covers (s : scan) (c : Z) (k : Z) : bool :=
  existsb (Z.eqb c) (s_comps s) && (s_Ss s <=? k) && (k <=? s_Se s).
Definition scans_of (scans : list scan) (c k : Z) : list (Z * Z) :=
  map (fun s => (s_Ah s, s_Al s)) (filter (fun s => covers s c k) scans).

(* the chain  (0,a0), (a0,a0-1), (a0-1,a0-2), ...   ("last" = -1: not yet seen) *)
Definition chain_step (last ah al : Z) : Prop :=
  (if last <? 0 then ah = 0 else ah = last /\ al = ah - 1) /\ 0 <= al.
Fixpoint chain_from (last : Z) (l : list (Z * Z)) : Prop :=
  match l with
  | [] => True
  | (ah, al) :: t => chain_step last ah al /\ chain_from al t
  end.
Fixpoint last_al (last : Z) (l : list (Z * Z)) : Z :=
  match l with [] => last | (_, al) :: t => last_al al t end.

Lemma chain_snoc : forall l last ah al,
  chain_from last (l ++ [(ah, al)]) <-> chain_from last l /\ chain_step (last_al last l) ah al.
Proof.
  induction l as [|[ah0 al0] t IH]; intros last ah al; cbn [app chain_from last_al].
  - tauto.
  - rewrite IH. tauto.
Qed.
Lemma last_al_snoc : forall l last ah al, last_al last (l ++ [(ah, al)]) = al.
Proof. induction l as [|[ah0 al0] t IH]; intros; cbn [app last_al]; auto. Qed.

Lemma scans_of_snoc scans s c k :
  scans_of (scans ++ [s]) c k = scans_of scans c k ++ (if covers s c k then [(s_Ah s, s_Al s)] else []).
Proof.
  unfold scans_of. rewrite filter_app, map_app. cbn [filter]. now destruct (covers s c k).
Qed.

(* ------------------------------------------------------------ inner loops *)
Lemma nthZ_upd_same (x : Z) : forall l i, (i < length l)%nat -> nthZ (upd i x l) i = x.
Proof. intros. unfold nthZ. now apply nth_upd_same. Qed.
Lemma nthZ_upd_other (x : Z) l i j : i <> j -> nthZ (upd i x l) j = nthZ l j.
Proof. intros. unfold nthZ. now apply nth_upd_other. Qed.

Lemma prog_coefs_spec : forall idx Ah Al row row',
  NoDup idx -> (forall k, In k idx -> (k < length row)%nat) ->
  prog_coefs idx Ah Al row = Some row' ->
  length row' = length row /\
  (forall k, In k idx -> (if nthZ row k <? 0 then Ah = 0 else Ah = nthZ row k /\ Al = Ah - 1) /\ nthZ row' k = Al) /\
  (forall k, ~ In k idx -> nthZ row' k = nthZ row k).
Proof.
  induction idx as [|i t IH]; intros Ah Al row row' Hnd Hlt He.
  - cbn in He. inversion He; subst. split; [reflexivity|]. split; [intros k []|reflexivity].
  - cbn [prog_coefs] in He. inversion Hnd as [|? ? Hni Hnd']; subst.
    destruct (nthZ row i <? 0) eqn:Elb.
    + destruct (negb (Ah =? 0)) eqn:E1; [discriminate|]. apply negb_false_iff, Z.eqb_eq in E1.
      destruct (IH Ah Al (upd i Al row) row' Hnd') as [Hl [Hin Hout]];
        [intros k Hk; rewrite upd_length; apply Hlt; now right|exact He|].
      rewrite upd_length in Hl. split; [exact Hl|]. split.
      * intros k [->|Hk].
        -- rewrite Elb. split; [exact E1|]. rewrite (Hout k Hni). apply nthZ_upd_same. apply Hlt. now left.
        -- destruct (Hin k Hk) as [H1 H2]. rewrite nthZ_upd_other in H1 by (intros ->; contradiction). tauto.
      * intros k Hk. rewrite (Hout k) by (intros H; apply Hk; now right).
        apply nthZ_upd_other. intros ->. apply Hk. now left.
    + destruct (negb (Ah =? nthZ row i) || negb (Al =? Ah - 1)) eqn:E1; [discriminate|].
      apply orb_false_iff in E1. destruct E1 as [E1 E2].
      apply negb_false_iff, Z.eqb_eq in E1. apply negb_false_iff, Z.eqb_eq in E2.
      destruct (IH Ah Al (upd i Al row) row' Hnd') as [Hl [Hin Hout]];
        [intros k Hk; rewrite upd_length; apply Hlt; now right|exact He|].
      rewrite upd_length in Hl. split; [exact Hl|]. split.
      * intros k [->|Hk].
        -- rewrite Elb. split; [tauto|]. rewrite (Hout k Hni). apply nthZ_upd_same. apply Hlt. now left.
        -- destruct (Hin k Hk) as [H1 H2]. rewrite nthZ_upd_other in H1 by (intros ->; contradiction). tauto.
      * intros k Hk. rewrite (Hout k) by (intros H; apply Hk; now right).
        apply nthZ_upd_other. intros ->. apply Hk. now left.
Qed.

Definition row_of (lb : list (list Z)) (c : nat) : list Z := nth c lb [].

Lemma prog_comps_spec : forall comps Ss Se Ah Al lb lb',
  0 <= Ss -> Ss <= Se -> Se < 64 ->
  NoDup comps -> (forall c, In c comps -> 0 <= c /\ (Z.to_nat c < length lb)%nat) ->
  (forall c, (c < length lb)%nat -> length (row_of lb c) = 64%nat) ->
  prog_comps comps Ss Se Ah Al lb = Some lb' ->
  length lb' = length lb /\
  (forall c, (c < length lb)%nat -> length (row_of lb' c) = 64%nat) /\
  (forall c, In c comps ->
     (Ss <> 0 -> 0 <= nthZ (row_of lb (Z.to_nat c)) 0) /\
     forall k, (k < 64)%nat ->
       if (Ss <=? Z.of_nat k) && (Z.of_nat k <=? Se) then
         (if nthZ (row_of lb (Z.to_nat c)) k <? 0 then Ah = 0
          else Ah = nthZ (row_of lb (Z.to_nat c)) k /\ Al = Ah - 1) /\
         nthZ (row_of lb' (Z.to_nat c)) k = Al
       else nthZ (row_of lb' (Z.to_nat c)) k = nthZ (row_of lb (Z.to_nat c)) k) /\
  (forall c, ~ In (Z.of_nat c) comps -> row_of lb' c = row_of lb c).
Proof.
  induction comps as [|c t IH]; intros Ss Se Ah Al lb lb' H0 H1 H2 Hnd Hr Hrows He.
  - cbn in He. inversion He; subst. split; [reflexivity|]. split; [exact Hrows|]. split; [intros c []|reflexivity].
  - cbn [prog_comps] in He. inversion Hnd as [|? ? Hni Hnd']; subst.
    destruct (Hr c (or_introl eq_refl)) as [Hc0 Hcl].
    fold (row_of lb (Z.to_nat c)) in He. set (row := row_of lb (Z.to_nat c)) in *.
    destruct (negb (Ss =? 0) && (nthZ row 0 <? 0)) eqn:Edc; [discriminate|].
    destruct (prog_coefs (seq (Z.to_nat Ss) (Z.to_nat (Se - Ss + 1))) Ah Al row) as [row'|] eqn:Ec; [|discriminate].
    assert (Hrl : length row = 64%nat) by (apply Hrows; exact Hcl).
    destruct (prog_coefs_spec (seq (Z.to_nat Ss) (Z.to_nat (Se - Ss + 1))) Ah Al row row' (seq_NoDup _ _)) as [Hl' [Hin Hout]];
      [intros k Hk; apply in_seq in Hk; lia|exact Ec|].
    destruct (IH Ss Se Ah Al (upd (Z.to_nat c) row' lb) lb' H0 H1 H2 Hnd') as [HL [HR [HI HO]]].
    { intros c2 Hc2. rewrite upd_length. apply Hr. now right. }
    { intros c2 Hc2. rewrite upd_length in Hc2. unfold row_of. destruct (Nat.eq_dec c2 (Z.to_nat c)) as [->|Hne].
      - rewrite nth_upd_same by exact Hcl. lia.
      - rewrite nth_upd_other by auto. now apply Hrows. }
    { exact He. }
    rewrite upd_length in HL, HR. split; [exact HL|]. split; [exact HR|]. split.
    + intros c2 [->|Hc2].
      * assert (Hrow' : row_of lb' (Z.to_nat c2) = row').
        { rewrite HO by (rewrite Z2Nat.id by lia; exact Hni). unfold row_of. now apply nth_upd_same. }
        split.
        -- intros Hss. apply andb_false_iff in Edc. destruct Edc as [E|E].
           ++ apply negb_false_iff, Z.eqb_eq in E. lia.
           ++ apply Z.ltb_ge in E. exact E.
        -- intros k Hk. rewrite Hrow'. fold row.
           destruct ((Ss <=? Z.of_nat k) && (Z.of_nat k <=? Se)) eqn:Eb.
           ++ apply andb_prop in Eb. destruct Eb as [E1 E2]. apply Z.leb_le in E1, E2.
              apply Hin. apply in_seq. lia.
           ++ apply Hout. intros Hk'. apply in_seq in Hk'. apply andb_false_iff in Eb.
              destruct Eb as [E|E]; apply Z.leb_gt in E; lia.
      * destruct (Hr c2 (or_intror Hc2)) as [Hc20 _].
        assert (Hne : Z.to_nat c2 <> Z.to_nat c) by (intros Heq; apply Hni; replace c with c2 by lia; exact Hc2).
        destruct (HI c2 Hc2) as [HI1 HI2]. unfold row_of in HI1, HI2. rewrite nth_upd_other in HI1, HI2 by auto.
        split; [exact HI1|exact HI2].
    + intros c2 Hc2. rewrite HO by (intros H; apply Hc2; now right).
      unfold row_of. apply nth_upd_other. intros Heq. apply Hc2. left. lia.
Qed.

Lemma comps_ok_spec nc : forall l prev, comps_ok nc prev l = true ->
  (forall c, In c l -> 0 <= c < nc /\ match prev with Some p => p < c | None => True end) /\ NoDup l.
Proof.
  induction l as [|c t IH]; intros prev H.
  - split; [intros c []|constructor].
  - cbn [comps_ok] in H.
    destruct ((c <? 0) || (c >=? nc)) eqn:E1; [discriminate|].
    apply orb_false_iff in E1. destruct E1 as [E1 E1']. apply Z.ltb_ge in E1. rewrite Z.geb_leb in E1'. apply Z.leb_gt in E1'.
    destruct (match prev with Some p => c <=? p | None => false end) eqn:E2; [discriminate|].
    destruct (IH (Some c) H) as [Hall Hnd]. split.
    + intros c2 [->|Hc2].
      * split; [lia|]. destruct prev; [apply Z.leb_gt in E2; exact E2|exact I].
      * destruct (Hall c2 Hc2) as [Hr Hp]. split; [exact Hr|]. destruct prev; [apply Z.leb_gt in E2; lia|exact I].
    + constructor; [|exact Hnd]. intros Hin. destruct (Hall c Hin) as [_ Hp]. lia.
Qed.

(* --------------------------------------------------------------- invariant *)
Definition lb_inv (nc : Z) (pre : list scan) (lb : list (list Z)) : Prop :=
  length lb = Z.to_nat nc /\
  (forall c, (c < length lb)%nat -> length (row_of lb c) = 64%nat) /\
  forall c k, (c < length lb)%nat -> (k < 64)%nat ->
    nthZ (row_of lb c) k = last_al (-1) (scans_of pre (Z.of_nat c) (Z.of_nat k)) /\
    chain_from (-1) (scans_of pre (Z.of_nat c) (Z.of_nat k)).

Lemma existsb_eqb_In c l : existsb (Z.eqb c) l = true <-> In c l.
Proof.
  rewrite existsb_exists. split.
  - intros [x [Hx E]]. apply Z.eqb_eq in E. now subst.
  - intros H. exists c. split; [exact H|apply Z.eqb_refl].
Qed.

Lemma prog_step_inv nc prec scanno s pre state state' :
  0 <= nc -> lb_inv nc pre (fst state) ->
  scan_step Progressive nc prec scanno s state = inr state' ->
  lb_inv nc (pre ++ [s]) (fst state') /\
  (s_Ss s <> 0 -> forall c, In c (s_comps s) -> scans_of pre c 0 <> []).
Proof.
  intros Hnc [HL [HR HI]] He. unfold scan_step in He.
  destruct ((Z.of_nat (length (s_comps s)) <=? 0) || (Z.of_nat (length (s_comps s)) >? MAX_COMPS_IN_SCAN)); [discriminate|].
  destruct (negb (comps_ok nc None (s_comps s))) eqn:Eok; [discriminate|]. apply negb_false_iff in Eok.
  destruct (comps_ok_spec nc _ _ Eok) as [Hall Hnd].
  destruct ((s_Ss s <? 0) || (s_Ss s >=? 64) || (s_Se s <? s_Ss s) || (s_Se s >=? 64) || (s_Ah s <? 0) ||
            (s_Ah s >? (if prec =? 12 then 13 else 10)) || (s_Al s <? 0) || (s_Al s >? (if prec =? 12 then 13 else 10))) eqn:Er;
    [discriminate|].
  repeat (apply orb_false_iff in Er; destruct Er as [Er ?]).
  apply Z.ltb_ge in Er. rewrite Z.geb_leb in *. 
  match goal with H : (64 <=? s_Ss s) = false |- _ => apply Z.leb_gt in H end.
  match goal with H : (64 <=? s_Se s) = false |- _ => apply Z.leb_gt in H end.
  match goal with H : (s_Se s <? s_Ss s) = false |- _ => apply Z.ltb_ge in H end.
  match goal with H : (s_Al s <? 0) = false |- _ => apply Z.ltb_ge in H end.
  destruct (if s_Ss s =? 0 then negb (s_Se s =? 0) else negb (Z.of_nat (length (s_comps s)) =? 1)); [discriminate|].
  destruct (prog_comps (s_comps s) (s_Ss s) (s_Se s) (s_Ah s) (s_Al s) (fst state)) as [lb'|] eqn:Ep; [|discriminate].
  inversion He; subst state'. clear He. cbn [fst].
  assert (HSs : s_Ss s <= s_Se s) by lia. assert (HSe : s_Se s < 64) by lia. assert (HAl : 0 <= s_Al s) by lia.
  destruct (prog_comps_spec (s_comps s) (s_Ss s) (s_Se s) (s_Ah s) (s_Al s) (fst state) lb' Er HSs HSe Hnd)
    as [HL' [HR' [HIn HOut]]].
  { intros c Hc. destruct (Hall c Hc) as [Hc1 _]. split; [lia|]. rewrite HL. lia. }
  { exact HR. }
  { exact Ep. }
  split.
  - split; [now rewrite HL'|]. split; [intros c Hc; rewrite HL' in Hc; now apply HR'|].
    intros c k Hc Hk. rewrite HL' in Hc. rewrite scans_of_snoc. destruct (HI c k Hc Hk) as [Hlast Hchain].
    destruct (covers s (Z.of_nat c) (Z.of_nat k)) eqn:Ecov.
    + unfold covers in Ecov. apply andb_prop in Ecov. destruct Ecov as [Ecov E3]. apply andb_prop in Ecov. destruct Ecov as [E1 E2].
      apply existsb_eqb_In in E1. destruct (HIn _ E1) as [_ Hk']. specialize (Hk' k Hk).
      rewrite E2, E3 in Hk'. cbn [andb] in Hk'. rewrite Nat2Z.id in Hk'. destruct Hk' as [Hchk Hval].
      rewrite last_al_snoc. split; [exact Hval|]. apply chain_snoc. split; [exact Hchain|].
      unfold chain_step. rewrite <- Hlast. split; [exact Hchk|exact HAl].
    + rewrite app_nil_r. split; [|exact Hchain]. rewrite <- Hlast.
      unfold covers in Ecov. destruct (existsb (Z.eqb (Z.of_nat c)) (s_comps s)) eqn:E1.
      * apply existsb_eqb_In in E1. destruct (HIn _ E1) as [_ Hk']. specialize (Hk' k Hk). rewrite Nat2Z.id in Hk'.
        cbn [andb] in Ecov. rewrite Ecov in Hk'. exact Hk'.
      * rewrite HOut; [reflexivity|]. intros Hin. apply existsb_eqb_In in Hin. congruence.
  - intros Hss c Hc. destruct (HIn c Hc) as [Hdc _]. specialize (Hdc Hss). destruct (Hall c Hc) as [Hc1 _].
    destruct (HI (Z.to_nat c) 0%nat) as [Hlast _]; [rewrite HL; lia|lia|].
    rewrite Z2Nat.id in Hlast by lia. cbn [Z.of_nat] in Hlast. intros Hnil. rewrite Hnil in Hlast. cbn in Hlast. lia.
Qed.

Lemma prog_loop_inv nc prec : forall l scanno pre state state',
  0 <= nc -> lb_inv nc pre (fst state) ->
  scan_loop Progressive nc prec scanno l state = inr state' ->
  lb_inv nc (pre ++ l) (fst state') /\
  (forall l1 s l2, l = l1 ++ s :: l2 -> s_Ss s <> 0 -> forall c, In c (s_comps s) -> scans_of (pre ++ l1) c 0 <> []).
Proof.
  induction l as [|s t IH]; intros scanno pre state state' Hnc Hinv He.
  - cbn in He. inversion He; subst. rewrite app_nil_r. split; [exact Hinv|]. intros [|? ?] ? ? H; discriminate.
  - cbn [scan_loop] in He. destruct (scan_step Progressive nc prec scanno s state) as [e|st1] eqn:Es; [discriminate|].
    destruct (prog_step_inv _ _ _ _ _ _ _ Hnc Hinv Es) as [Hinv1 Hdc].
    destruct (IH (scanno + 1) (pre ++ [s]) st1 state' Hnc Hinv1 He) as [Hinv2 Hdc2].
    rewrite <- app_assoc in Hinv2. split; [exact Hinv2|].
    intros l1 s0 l2 Heq Hss c Hc. destruct l1 as [|a l1]; cbn [app] in Heq; inversion Heq; subst.
    + rewrite app_nil_r. now apply Hdc.
    + specialize (Hdc2 l1 s0 l2 eq_refl Hss c Hc). now rewrite <- app_assoc in Hdc2.
Qed.

Lemma nth_repeat_lt {A} (a d : A) : forall m n, (n < m)%nat -> nth n (repeat a m) d = a.
Proof. induction m as [|m IH]; intros [|n] H; cbn; try lia; auto. apply IH. lia. Qed.

Lemma lb_inv_init nc : 0 <= nc -> lb_inv nc [] (repeat (repeat (-1) 64) (Z.to_nat nc)).
Proof.
  intros Hnc. split; [now rewrite repeat_length|]. rewrite repeat_length. split.
  - intros c Hc. unfold row_of. rewrite nth_repeat_lt by exact Hc. now rewrite repeat_length.
  - intros c k Hc Hk. unfold row_of. rewrite nth_repeat_lt by exact Hc. cbn [scans_of filter map last_al chain_from].
    split; [|exact I]. unfold nthZ. rewrite nth_repeat_lt by exact Hk. reflexivity.
Qed.

(* ----------------------------------------------------------------- theorem *)
Theorem script_valid_chain_thm nc prec scans state : 0 <= nc ->
  validate_script nc prec scans = inr (Progressive, state) ->
  (* every coefficient of every component: (0,a0),(a0,a0-1),... *)
  (forall c k, 0 <= c < nc -> 0 <= k < 64 -> chain_from (-1) (scans_of scans c k)) /\
  (* DC before AC *)
  (forall l1 s l2, scans = l1 ++ s :: l2 -> s_Ss s <> 0 -> forall c, In c (s_comps s) -> scans_of l1 c 0 <> []) /\
  (* some DC data for every component *)
  (forall c, 0 <= c < nc -> scans_of scans c 0 <> []) /\
  (* the returned state is the last Al per coefficient; script_complete = every chain ended at 0 *)
  (forall c k, 0 <= c < nc -> 0 <= k < 64 ->
     nthZ (row_of (fst state) (Z.to_nat c)) (Z.to_nat k) = last_al (-1) (scans_of scans c k)) /\
  (script_complete state = true ->
     forall c k, 0 <= c < nc -> 0 <= k < 64 -> scans_of scans c k <> [] /\ last_al (-1) (scans_of scans c k) = 0).
Proof.
  unfold validate_script. intros Hnc He. destruct scans as [|first rest] eqn:Es; [discriminate|]. rewrite <- Es in *.
  destruct (scan_loop (script_mode first) nc prec 1 scans _) as [e|st] eqn:El; [discriminate|].
  destruct (script_mode first) eqn:Em.
  - destruct (forallb (fun b => b) (snd st)); discriminate.
  - destruct (forallb (fun row => 0 <=? nthZ row 0) (fst st)) eqn:Edc; [|discriminate].
    inversion He; subst state. clear He.
    destruct (prog_loop_inv nc prec scans 1 [] (repeat (repeat (-1) 64) (Z.to_nat nc), repeat false (Z.to_nat nc)) st Hnc (lb_inv_init nc Hnc) El) as [[HL [HR HI]] Hdc].
    cbn [app] in HI, Hdc.
    assert (Hck : forall c k, 0 <= c < nc -> 0 <= k < 64 ->
              nthZ (row_of (fst st) (Z.to_nat c)) (Z.to_nat k) = last_al (-1) (scans_of scans c k) /\
              chain_from (-1) (scans_of scans c k)).
    { intros c k Hc Hk. destruct (HI (Z.to_nat c) (Z.to_nat k)) as [H1 H2]; [rewrite HL; lia|lia|].
      rewrite !Z2Nat.id in H1, H2 by lia. split; assumption. }
    split; [intros c k Hc Hk; apply Hck; assumption|]. split; [exact Hdc|]. split.
    + intros c Hc Hnil. destruct (Hck c 0 Hc ltac:(lia)) as [H1 _]. rewrite Hnil in H1. cbn in H1.
      rewrite forallb_forall in Edc. specialize (Edc (row_of (fst st) (Z.to_nat c))).
      assert (Hin : In (row_of (fst st) (Z.to_nat c)) (fst st)) by (unfold row_of; apply nth_In; rewrite HL; lia).
      specialize (Edc Hin). apply Z.leb_le in Edc. lia.
    + split; [intros c k Hc Hk; apply Hck; assumption|].
      intros Hcomp c k Hc Hk. unfold script_complete in Hcomp. rewrite forallb_forall in Hcomp.
      assert (Hin : In (row_of (fst st) (Z.to_nat c)) (fst st)) by (unfold row_of; apply nth_In; rewrite HL; lia).
      specialize (Hcomp _ Hin). apply andb_prop in Hcomp. destruct Hcomp as [Hz _].
      rewrite forallb_forall in Hz.
      assert (Hrl : length (row_of (fst st) (Z.to_nat c)) = 64%nat) by (apply HR; rewrite HL; lia).
      assert (H0 : nthZ (row_of (fst st) (Z.to_nat c)) (Z.to_nat k) = 0).
      { symmetry. apply Z.eqb_eq. apply Hz. rewrite firstn_all2 by lia. unfold nthZ. apply nth_In. lia. }
      destruct (Hck c k Hc Hk) as [H1 _]. rewrite H0 in H1. split; [|now symmetry].
      intros Hnil. rewrite Hnil in H1. cbn in H1. lia.
  - destruct (forallb (fun b => b) (snd st)); discriminate.
Qed.
