(* C07 -- the 8x8 DCT-II matrix  A k i = c_k * cos((2i+1) k pi / 16)  (c_0 = sqrt(1/8), c_k = 1/2)
   is orthogonal over the reals: rows and columns are orthonormal.  Exact proof: products of
   cosines -> sums of cosines, which telescope after multiplication by 2 sin(theta). *)
From Coq Require Import Reals Lra Lia Arith Psatz.
From LJT Require Import proofs.RmsBound.
Local Open Scope R_scope.

Lemma sin_n_PI n : sin (INR n * PI) = 0.
Proof.
  induction n as [|n IH]; [rewrite Rmult_0_l; apply sin_0|].
  rewrite S_INR. replace ((INR n + 1) * PI) with (INR n * PI + PI) by ring. rewrite neg_sin, IH. ring.
Qed.

Lemma INR_2n n : INR (2 * n) = 2 * INR n.
Proof. rewrite mult_INR. simpl. ring. Qed.
Lemma INR_2n1 n : INR (2 * n + 1) = 2 * INR n + 1.
Proof. rewrite plus_INR, INR_2n. simpl. ring. Qed.

(* 2 sin t * sum_{i<n} cos((2i+1) t) = sin(2n t) *)
Lemma odd_cos_telescope t n : 2 * sin t * rsum n (fun i => cos (INR (2 * i + 1) * t)) = sin (INR (2 * n) * t).
Proof.
  induction n as [|n IH]; cbn [rsum].
  - cbn. rewrite Rmult_0_l, sin_0. ring.
  - rewrite Rmult_plus_distr_l, IH.
    replace (INR (2 * S n) * t) with (INR (2 * n + 1) * t + t) by (rewrite INR_2n, INR_2n1, S_INR; ring).
    replace (INR (2 * n) * t) with (INR (2 * n + 1) * t - t) by (rewrite INR_2n, INR_2n1; ring).
    rewrite sin_plus, sin_minus. ring.
Qed.

Definition ang (m : nat) : R := INR m * (PI / 16).

Lemma sin_ang_pos m : (0 < m < 16)%nat -> 0 < sin (ang m).
Proof.
  intros H. apply sin_gt_0; unfold ang.
  - apply Rmult_lt_0_compat; [apply lt_0_INR; lia|]. pose proof PI_RGT_0. lra.
  - assert (INR m <= 15) by (replace 15 with (INR 15) by (simpl; lra); apply le_INR; lia).
    pose proof PI_RGT_0. nra.
Qed.

(* S m = sum_{i<8} cos((2i+1) m pi/16) *)
Definition S8 (m : nat) : R := rsum 8 (fun i => cos (INR (2 * i + 1) * ang m)).

Lemma S8_0 : S8 0 = 8.
Proof. unfold S8, ang. cbn [rsum]. rewrite !Rmult_0_l, !Rmult_0_r, cos_0. ring. Qed.

Lemma S8_nz m : (0 < m < 16)%nat -> S8 m = 0.
Proof.
  intros H. pose proof (odd_cos_telescope (ang m) 8) as T. fold (S8 m) in T.
  assert (E : sin (INR (2 * 8) * ang m) = 0).
  { unfold ang. replace (INR (2 * 8) * (INR m * (PI / 16))) with (INR m * PI) by (rewrite INR_2n; simpl; field). apply sin_n_PI. }
  rewrite E in T. pose proof (sin_ang_pos m H). nra.
Qed.

Lemma cos_prod a b : cos a * cos b = / 2 * (cos (a - b) + cos (a + b)).
Proof. rewrite cos_minus, cos_plus. field. Qed.

(* sum_{i<8} cos((2i+1) k pi/16) cos((2i+1) l pi/16) for l <= k *)
Lemma row_dot k l : (l <= k)%nat ->
  rsum 8 (fun i => cos (INR (2 * i + 1) * ang k) * cos (INR (2 * i + 1) * ang l)) = / 2 * (S8 (k - l) + S8 (k + l)).
Proof.
  intros H. unfold S8. rewrite <- rsum_plus, <- rsum_scal. apply rsum_ext. intros i _.
  rewrite cos_prod.
  assert (E1 : INR (2 * i + 1) * ang (k - l) = INR (2 * i + 1) * ang k - INR (2 * i + 1) * ang l)
    by (unfold ang; rewrite (minus_INR k l H); ring).
  assert (E2 : INR (2 * i + 1) * ang (k + l) = INR (2 * i + 1) * ang k + INR (2 * i + 1) * ang l)
    by (unfold ang; rewrite (plus_INR k l); ring).
  rewrite E1, E2.
  reflexivity.
Qed.

Definition ck (k : nat) : R := if Nat.eqb k 0 then sqrt (/ 8) else / 2.
Definition dctA (k i : nat) : R := ck k * cos (INR (2 * i + 1) * ang k).

Lemma sqrt8 : sqrt (/ 8) * sqrt (/ 8) = / 8.
Proof. apply sqrt_sqrt. lra. Qed.

Lemma dct_rows_le k l : (l <= k)%nat -> (k < 8)%nat -> rsum 8 (fun i => dctA k i * dctA l i) = delta k l.
Proof.
  intros Hle Hk. unfold dctA.
  rewrite (rsum_ext 8 _ (fun i => (ck k * ck l) * (cos (INR (2 * i + 1) * ang k) * cos (INR (2 * i + 1) * ang l)))) by (intros; ring).
  rewrite rsum_scal, row_dot by exact Hle. unfold delta.
  destruct (Nat.eq_dec k l) as [->|Hne].
  - replace (l - l)%nat with 0%nat by lia. rewrite S8_0. unfold ck. destruct l as [|l].
    + cbn [Nat.eqb Nat.add]. rewrite S8_0. pose proof sqrt8. nra.
    + cbn [Nat.eqb]. rewrite S8_nz by lia. field.
  - rewrite !S8_nz by lia. ring.
Qed.

Theorem dct_rows_orthonormal : forall k l, (k < 8)%nat -> (l < 8)%nat -> rsum 8 (fun i => dctA k i * dctA l i) = delta k l.
Proof.
  intros k l Hk Hl. destruct (le_lt_dec l k) as [H|H]; [apply dct_rows_le; assumption|].
  rewrite (rsum_ext 8 _ (fun i => dctA l i * dctA k i)) by (intros; ring).
  rewrite dct_rows_le by lia. unfold delta. destruct (Nat.eq_dec l k), (Nat.eq_dec k l); try reflexivity; lia.
Qed.

(* ---------------------------------------------------------------- columns *)
Lemma cos_even_PI p : cos (INR (2 * p) * PI) = 1.
Proof.
  replace (INR (2 * p) * PI) with (0 + 2 * INR p * PI) by (rewrite INR_2n; ring).
  rewrite cos_period. apply cos_0.
Qed.
Lemma cos_odd_PI p : cos (INR (2 * p + 1) * PI) = -1.
Proof.
  replace (INR (2 * p + 1) * PI) with (INR (2 * p) * PI + PI) by (rewrite INR_2n1, INR_2n; ring).
  rewrite neg_cos, cos_even_PI. ring.
Qed.

(* 2 sin t * sum_{k<=n} cos(k * 2t) = sin((2n+1) t) + sin t *)
Lemma cos_telescope t n : 2 * sin t * rsum (S n) (fun k => cos (INR k * (2 * t))) = sin (INR (2 * n + 1) * t) + sin t.
Proof.
  induction n as [|n IH].
  - cbn [rsum]. rewrite Rmult_0_l, cos_0. replace (INR (2 * 0 + 1) * t) with t by (simpl; ring). ring.
  - change (rsum (S (S n)) (fun k => cos (INR k * (2 * t)))) with
      (rsum (S n) (fun k => cos (INR k * (2 * t))) + cos (INR (S n) * (2 * t))).
    rewrite Rmult_plus_distr_l, IH.
    replace (INR (2 * S n + 1) * t) with (INR (S n) * (2 * t) + t) by (rewrite INR_2n1; ring).
    replace (INR (2 * n + 1) * t) with (INR (S n) * (2 * t) - t) by (rewrite INR_2n1, S_INR; ring).
    rewrite sin_plus, sin_minus. ring.
Qed.

(* D m = sum_{k<8} cos(k * m pi/8) *)
Definition D8 (m : nat) : R := rsum 8 (fun k => cos (INR k * (2 * ang m))).

Lemma D8_0 : D8 0 = 8.
Proof.
  assert (E : ang 0 = 0) by (unfold ang; simpl; ring).
  unfold D8. rewrite E. rewrite (rsum_ext 8 _ (fun _ => 1)) by (intros; rewrite !Rmult_0_r; apply cos_0).
  cbn [rsum]. ring.
Qed.

Lemma D8_formula m : (0 < m < 16)%nat -> 2 * D8 m = 1 - cos (INR m * PI).
Proof.
  intros H. pose proof (cos_telescope (ang m) 7) as T. fold (D8 m) in T.
  assert (E : sin (INR (2 * 7 + 1) * ang m) = - cos (INR m * PI) * sin (ang m)).
  { replace (INR (2 * 7 + 1) * ang m) with (INR m * PI - ang m) by (unfold ang; simpl; field).
    rewrite sin_minus, sin_n_PI. ring. }
  rewrite E in T. pose proof (sin_ang_pos m H).
  assert (sin (ang m) * (2 * D8 m) = sin (ang m) * (1 - cos (INR m * PI))) by lra.
  apply Rmult_eq_reg_l with (r := sin (ang m)); lra.
Qed.

Lemma D8_even p : (0 < 2 * p < 16)%nat -> D8 (2 * p) = 0.
Proof. intros H. pose proof (D8_formula (2 * p) H) as F. rewrite cos_even_PI in F. lra. Qed.
Lemma D8_odd p : (2 * p + 1 < 16)%nat -> D8 (2 * p + 1) = 1.
Proof. intros H. pose proof (D8_formula (2 * p + 1) ltac:(lia)) as F. rewrite cos_odd_PI in F. lra. Qed.

(* sum_k cos((2i+1) k pi/16) cos((2j+1) k pi/16) for j <= i *)
Lemma col_dot i j : (j <= i)%nat ->
  rsum 8 (fun k => cos (INR (2 * i + 1) * ang k) * cos (INR (2 * j + 1) * ang k)) = / 2 * (D8 (i - j) + D8 (i + j + 1)).
Proof.
  intros H. unfold D8. rewrite <- rsum_plus, <- rsum_scal. apply rsum_ext. intros k _.
  rewrite cos_prod.
  assert (E1 : INR k * (2 * ang (i - j)) = INR (2 * i + 1) * ang k - INR (2 * j + 1) * ang k)
    by (unfold ang; rewrite (minus_INR i j H), !INR_2n1; ring).
  assert (E2 : INR k * (2 * ang (i + j + 1)) = INR (2 * i + 1) * ang k + INR (2 * j + 1) * ang k)
    by (unfold ang; rewrite (plus_INR (i + j) 1), (plus_INR i j), !INR_2n1; simpl; ring).
  rewrite E1, E2. reflexivity.
Qed.

Lemma ck_sq k : ck k * ck k = if Nat.eqb k 0 then / 8 else / 4.
Proof. unfold ck. destruct (Nat.eqb k 0); [apply sqrt8|field]. Qed.

Lemma dct_cols_le i j : (j <= i)%nat -> (i < 8)%nat -> rsum 8 (fun k => dctA k i * dctA k j) = delta i j.
Proof.
  intros Hle Hi. unfold dctA.
  (* c_k^2 = 1/4 - [k = 0]/8 *)
  rewrite (rsum_ext 8 _ (fun k => / 4 * (cos (INR (2 * i + 1) * ang k) * cos (INR (2 * j + 1) * ang k))
                                  + (if Nat.eqb k 0 then - / 8 else 0))).
  2:{ intros k _. pose proof (ck_sq k) as Q.
      replace (ck k * cos (INR (2 * i + 1) * ang k) * (ck k * cos (INR (2 * j + 1) * ang k)))
        with ((ck k * ck k) * (cos (INR (2 * i + 1) * ang k) * cos (INR (2 * j + 1) * ang k))) by ring.
      rewrite Q. destruct k as [|k]; cbn [Nat.eqb]; [|ring].
      assert (E : ang 0 = 0) by (unfold ang; simpl; ring).
      rewrite E, !Rmult_0_r, cos_0. field. }
  rewrite rsum_plus, rsum_scal, col_dot by exact Hle.
  assert (Ez : rsum 8 (fun k => if Nat.eqb k 0 then - / 8 else 0) = - / 8) by (cbn [rsum Nat.eqb]; ring).
  rewrite Ez. unfold delta.
  destruct (Nat.eq_dec i j) as [->|Hne].
  - replace (j - j)%nat with 0%nat by lia. rewrite D8_0.
    replace (j + j + 1)%nat with (2 * j + 1)%nat by lia. rewrite D8_odd by lia. field.
  - destruct (Nat.Even_or_Odd (i - j)) as [[p Hp]|[p Hp]].
    + rewrite Hp. rewrite D8_even by lia.
      replace (i + j + 1)%nat with (2 * (j + p) + 1)%nat by lia. rewrite D8_odd by lia. field.
    + rewrite Hp. rewrite D8_odd by lia.
      replace (i + j + 1)%nat with (2 * (j + p + 1))%nat by lia. rewrite D8_even by lia. field.
Qed.

Theorem dct_cols_orthonormal : forall i j, (i < 8)%nat -> (j < 8)%nat -> rsum 8 (fun k => dctA k i * dctA k j) = delta i j.
Proof.
  intros i j Hi Hj. destruct (le_lt_dec j i) as [H|H]; [apply dct_cols_le; assumption|].
  rewrite (rsum_ext 8 _ (fun k => dctA k j * dctA k i)) by (intros; ring).
  rewrite dct_cols_le by lia. unfold delta. destruct (Nat.eq_dec j i), (Nat.eq_dec i j); try reflexivity; lia.
Qed.

(* ---------------------------------------------------------------- the 2-D transform on 64-vectors *)
(* index u = 8*v' + u' ; A2 (8k+l) (8y+x) = dctA k y * dctA l x  is orthogonal as a 64x64 matrix *)
Definition dctA2 (u p : nat) : R := dctA (u / 8) (p / 8) * dctA (u mod 8) (p mod 8).

Lemma rsum_shift a b f : rsum (a + b) f = rsum a f + rsum b (fun i => f (a + i)%nat).
Proof.
  induction b as [|b IH]; [rewrite Nat.add_0_r; cbn [rsum]; ring|].
  replace (a + S b)%nat with (S (a + b)) by lia. cbn [rsum]. rewrite IH. ring.
Qed.

Lemma rsum_block n m f : rsum (n * m) f = rsum n (fun a => rsum m (fun b => f (a * m + b)%nat)).
Proof.
  induction n as [|n IH]; [reflexivity|].
  replace (S n * m)%nat with (n * m + m)%nat by lia. rewrite rsum_shift, IH. cbn [rsum]. reflexivity.
Qed.

Lemma divmod8 a b : (b < 8)%nat -> ((a * 8 + b) / 8 = a /\ (a * 8 + b) mod 8 = b)%nat.
Proof.
  intros H. split.
  - rewrite Nat.div_add_l by lia. rewrite Nat.div_small by exact H. lia.
  - rewrite Nat.add_comm, Nat.mod_add by lia. apply Nat.mod_small; exact H.
Qed.

Lemma delta_mul a b c d : delta a c * delta b d = if Nat.eq_dec a c then delta b d else 0.
Proof. unfold delta. destruct (Nat.eq_dec a c), (Nat.eq_dec b d); ring. Qed.

(* the 2-D DCT of an 8x8 block, as a 64x64 matrix, has orthonormal columns and rows *)
Theorem dct2_cols_orthonormal : forall p q, (p < 64)%nat -> (q < 64)%nat ->
  rsum 64 (fun u => dctA2 u p * dctA2 u q) = delta p q.
Proof.
  intros p q Hp Hq. change 64%nat with (8 * 8)%nat. rewrite rsum_block.
  rewrite (rsum_ext 8 _ (fun a => (dctA a (p / 8) * dctA a (q / 8)) * rsum 8 (fun b => dctA b (p mod 8) * dctA b (q mod 8)))).
  2:{ intros a Ha. rewrite <- rsum_scal. apply rsum_ext. intros b Hb. unfold dctA2.
      destruct (divmod8 a b Hb) as [-> ->]. ring. }
  rewrite rsum_scal_r.
  assert (Hp8 : (p / 8 < 8)%nat) by (apply Nat.div_lt_upper_bound; lia).
  assert (Hq8 : (q / 8 < 8)%nat) by (apply Nat.div_lt_upper_bound; lia).
  rewrite !dct_cols_orthonormal by (try assumption; apply Nat.mod_upper_bound; lia).
  rewrite delta_mul. unfold delta.
  pose proof (Nat.div_mod p 8 ltac:(lia)). pose proof (Nat.div_mod q 8 ltac:(lia)).
  destruct (Nat.eq_dec (p / 8) (q / 8)), (Nat.eq_dec (p mod 8) (q mod 8)), (Nat.eq_dec p q); try reflexivity; try lia.
  all: subst; exfalso; auto.
Qed.

Theorem dct2_rows_orthonormal : forall u v, (u < 64)%nat -> (v < 64)%nat ->
  rsum 64 (fun p => dctA2 u p * dctA2 v p) = delta u v.
Proof.
  intros u v Hu Hv. change 64%nat with (8 * 8)%nat. rewrite rsum_block.
  rewrite (rsum_ext 8 _ (fun a => (dctA (u / 8) a * dctA (v / 8) a) * rsum 8 (fun b => dctA (u mod 8) b * dctA (v mod 8) b))).
  2:{ intros a Ha. rewrite <- rsum_scal. apply rsum_ext. intros b Hb. unfold dctA2.
      destruct (divmod8 a b Hb) as [-> ->]. ring. }
  rewrite rsum_scal_r.
  assert (Hp8 : (u / 8 < 8)%nat) by (apply Nat.div_lt_upper_bound; lia).
  assert (Hq8 : (v / 8 < 8)%nat) by (apply Nat.div_lt_upper_bound; lia).
  rewrite !dct_rows_orthonormal by (try assumption; apply Nat.mod_upper_bound; lia).
  rewrite delta_mul. unfold delta.
  pose proof (Nat.div_mod u 8 ltac:(lia)). pose proof (Nat.div_mod v 8 ltac:(lia)).
  destruct (Nat.eq_dec (u / 8) (v / 8)), (Nat.eq_dec (u mod 8) (v mod 8)), (Nat.eq_dec u v); try reflexivity; try lia.
  all: subst; exfalso; auto.
Qed.

(* rms_bound for the real 8x8 DCT: no orthogonality hypothesis left.
   x: centred source block (64 samples, index 8*row+col); F: forward output / 8; D: dequantised
   coefficients; y: centred reconstruction before clamping; h_k = q_k / 2 *)
Theorem rms_bound_dct_proof : forall (x F D y h : nat -> R) (e1 e2 qn : R),
  0 <= e1 -> 0 <= e2 -> 0 <= qn ->
  norm2 64 (fun k => F k - ap 64 dctA2 x k) <= e1 * e1 ->
  (forall k, (k < 64)%nat -> Rabs (D k - F k) <= h k) ->
  rsum 64 (fun k => h k * h k) <= qn * qn ->
  norm2 64 (fun i => y i - ap 64 (tr dctA2) D i) <= e2 * e2 ->
  norm2 64 (fun i => y i - x i) <= (qn + e1 + e2) * (qn + e1 + e2).
Proof.
  intros. apply (rms_bound_partial_proof 64 dctA2 dct2_cols_orthonormal dct2_rows_orthonormal x F D y h e1 e2 qn); assumption.
Qed.
