(* C09 -- corollaries for the marker reader: chunking irrelevance, save_marker. *)
From Coq Require Import List ZArith Lia Arith Bool.
From LJT Require Import model.SuspendCore model.SuspendMarker proofs.SuspendProofs proofs.SuspendWriteProofs
  proofs.SuspendMarkerProofs.
Import ListNotations.

Theorem markers_chunking_irrelevant : forall cs s, run_markers cs s = run_markers [concat cs] s.
Proof. intros. apply chunking_irrelevant_generic. apply marker_unit_resumable. Qed.

Theorem markers_two_partitions : forall cs1 cs2 s, concat cs1 = concat cs2 -> run_markers cs1 s = run_markers cs2 s.
Proof. intros. apply chunking_irrelevant_two; auto. apply marker_unit_resumable. Qed.

Lemma select_save_running : forall s, select s = BSave -> halted s = 0%Z.
Proof.
  intros s H. unfold select, select' in H.
  destruct (negb (halted s =? 0)%Z) eqn:E; [discriminate|].
  apply negb_false_iff in E. now apply Z.eqb_eq in E.
Qed.

Lemma select_idle : forall s, halted s = 0%Z -> unread_marker s = 0%Z ->
  select s = if saw_SOI s then BNext else BRoutine first_marker (fun s => s).
Proof. intros. unfold select, select'. rewrite H, H0. reflexivity. Qed.

Definition saved_of (s : mstate) (len lim : nat) (body : list byte) : saved :=
  {| sv_marker := unread_marker s; sv_orig := len; sv_dlen := lim; sv_data := firstn lim body |}.

(* a COM/APPn segment handled by save_marker, cut into chunks in any way:
   exactly the first min(limit, length) body bytes are saved, once *)
Theorem save_marker_chunking : forall s (cs : list (list byte)) (b1 b2 : byte) (body : list byte),
  select s = BSave -> cur_marker s = None ->
  (b1 * 256 + b2 - 2 >= 0)%Z -> length body = Z.to_nat (b1 * 256 + b2 - 2) ->
  concat cs = b1 :: b2 :: body ->
  let len := Z.to_nat (b1 * 256 + b2 - 2) in
  let lim := Nat.min (nth (proc_index (unread_marker s)) (limit s) 0) len in
  exists s', run_markers cs s = Susp s' [] 0 /\ cur_marker s' = None /\
             marker_list s' = marker_list s ++ [saved_of s len lim body].
Proof.
  intros s cs b1 b2 body Sel Cur Len Body Cat len lim.
  pose proof marker_unit_resumable as R.
  unfold run_markers. rewrite (run_chunked_eq_drain _ _ _ _ R), Cat.
  rewrite (drain_unfold _ _ _ _ R). unfold marker_unit at 1. rewrite Sel. simpl exec.
  assert (L : (b1 * 256 + b2 - 2 >=? 0)%Z = true) by (apply Z.geb_le; lia).
  rewrite (save_marker_fresh _ _ _ _ Cur L).
  assert (LimLe : lim <= length body) by (unfold lim; rewrite Body; apply Nat.le_min_r).
  unfold save_copy. simpl sv_dlen. fold len. fold lim.
  rewrite Nat.sub_0_r, firstn_length, (Nat.min_l _ _ LimLe). simpl Nat.add at 1.
  rewrite Nat.ltb_irrefl. cbv zeta.
  set (cm' := {| sv_marker := _; sv_orig := _; sv_dlen := _; sv_data := _ |}).
  set (s1 := set_unread 0 _).
  assert (LenSkip : length (skipn (2 + lim) (b1 :: b2 :: body)) = len - lim).
  { simpl. rewrite skipn_length. unfold len. lia. }
  simpl sv_orig. fold len.
  rewrite LenSkip, Nat.leb_refl.
  rewrite skipn_all2 by (rewrite LenSkip; lia).
  assert (H1 : halted s1 = 0%Z).
  { unfold s1. change (halted (set_unread 0 ?x)) with (halted x).
    rewrite (proj1 (examine_frame _ _ _)). simpl. now apply select_save_running. }
  assert (ML : marker_list s1 = marker_list s ++ [saved_of s len lim body] /\ cur_marker s1 = None).
  { unfold s1. change (marker_list (set_unread 0 ?x)) with (marker_list x).
    change (cur_marker (set_unread 0 ?x)) with (cur_marker x).
    destruct (examine_frame (unread_marker s) (sv_data cm')
                (set_cur None (0 + lim) (set_mlist (marker_list s ++ [cm']) s))) as (_ & _ & E3 & E4 & _).
    rewrite E3, E4. simpl. split; reflexivity. }
  rewrite (drain_unfold _ _ _ _ R). unfold marker_unit. rewrite (select_idle s1 H1 eq_refl).
  destruct (saw_SOI s1); simpl.
  - eexists. split; [reflexivity|]. simpl. destruct ML as [M1 M2]. split; assumption.
  - eexists. split; [reflexivity|]. destruct ML as [M1 M2]. split; assumption.
Qed.

(* --------------------------------------------------------- non-vacuity *)
(* a two-unit stream: SOI, DRI(interval 7) cut at every position; and a COM saved under every cut *)
Definition ex_stream : list byte := [255; 216; 255; 221; 0; 4; 0; 7; 255; 217]%Z.
Definition ex_init := minit default_procs default_limits.
Definition all_splits (l : list byte) : list (list (list byte)) :=
  map (fun i => split_at i l) (seq 0 (S (length l))).

Definition outcome_ri (o : outcome mstate merr) : option (Z * Z) :=
  match o with Halted s _ => Some (cget G_SC S_RI (cells s), halted s) | _ => None end.

Example ex_every_split :
  forallb (fun cs => match outcome_ri (run_markers cs ex_init) with Some (7, 2)%Z => true | _ => false end)
          (all_splits ex_stream ++ [singletons ex_stream; [ex_stream]; [[]; ex_stream; []]]) = true.
Proof. vm_compute. reflexivity. Qed.

Definition ex_com : list byte := [255; 216; 255; 254; 0; 7; 10; 20; 30; 40; 50; 255; 217]%Z.
Definition ex_init_save := minit (repeat 2 17) (repeat 3 17).
Definition outcome_saved (o : outcome mstate merr) : list (Z * nat * list byte) :=
  match o with Halted s _ => map (fun m => (sv_marker m, sv_orig m, sv_data m)) (marker_list s) | _ => [] end.

Example ex_save_every_split :
  forallb (fun cs => match outcome_saved (run_markers cs ex_init_save) with
                     | [(254%Z, 5, [10; 20; 30]%Z)] => true | _ => false end)
          (all_splits ex_com ++ [singletons ex_com]) = true.
Proof. vm_compute. reflexivity. Qed.

(* the hypotheses of save_marker_chunking are satisfiable *)
Example ex_save_hyp : select (set_unread 254 (set_saw_SOI true ex_init_save)) = BSave.
Proof. vm_compute. reflexivity. Qed.

(* a dirty suspended state really differs from the clean one (the discipline is not vacuous):
   SOF cut after the precision byte leaves data_precision written *)
Example ex_dirty_state :
  match run_markers [[255; 216; 255; 192; 0; 11; 8]%Z] ex_init with
  | Susp s _ _ => cget G_SC S_PREC (cells s) | _ => 0%Z end = 8%Z.
Proof. vm_compute. reflexivity. Qed.
