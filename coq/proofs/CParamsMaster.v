(* C17: the whole of jinit_c_master_control + first prepare_for_pass (master_start) and the later scans
   (master_rest): index safety for every configuration, no scan refers to a component beyond the final
   num_components; pass sequencing ends with EOI; quantisation divisors are never zero. *)
From Coq Require Import List ZArith Bool Lia ZifyBool.
From LJT Require Import model.Huff gen.GenParams model.CParams proofs.CParamsHoare proofs.CParamsScript proofs.CParamsSetup.
Import ListNotations.
Local Open Scope Z_scope.

(* ------------------------------------------------------------ quant divisors *)
Lemma quant_divisor_total_lemma : forall q, 1 <= q <= 65535 ->
  1 <= islow_divisor q <= 65535 /\ islow_divisor q = Z.min (8 * q) 65535.
Proof.
  intros q Hq. unfold islow_divisor. change (g_DIVISOR_CLAMPED_EVERYWHERE =? 1) with true. cbv iota.
  change g_DIVISOR_CLAMP with 65535. destruct (q * 8 >? 65535) eqn:E; lia.
Qed.

Lemma quant_entry_range_lemma : forall basic scale force,
  1 <= quant_entry basic scale force <= (if force then 255 else 32767).
Proof.
  intros basic scale force. unfold quant_entry. cbv zeta.
  change g_QUANT_MIN with 1. change g_QUANT_MAX with 32767. change g_QUANT_BASELINE_MAX with 255.
  destruct ((basic * scale + 50) / 100 <=? 0) eqn:E1.
  - cbn. destruct force; cbn; lia.
  - destruct ((basic * scale + 50) / 100 >? 32767) eqn:E2.
    + destruct force; cbn; lia.
    + destruct force; cbn [andb]; [destruct ((basic * scale + 50) / 100 >? 255) eqn:E3|]; lia.
Qed.

(* ------------------------------------------------------------ scans of a configuration *)
Lemma getZ_firstn l n i : 0 <= i < n -> getZ (firstn (Z.to_nat n) l) i = getZ l i.
Proof.
  intros Hi. unfold getZ.
  assert (G : forall (k m : nat) (l : list Z), (k < m)%nat -> nth k (firstn m l) 0 = nth k l 0).
  { induction k as [|k IH]; intros [|m] [|x t] H; cbn; try lia; auto. apply IH. lia. }
  apply G. lia.
Qed.

Lemma getZ_seq n i : 0 <= i < n -> getZ (map Z.of_nat (seq 0 (Z.to_nat n))) i = i.
Proof.
  intros Hi. unfold getZ.
  rewrite nth_indep with (d' := Z.of_nat 0) by (rewrite map_length, seq_length; lia).
  rewrite map_nth. rewrite seq_nth by lia. lia.
Qed.

(* every scan the master will run refers to live components only *)
Definition scans_live (nc : Z) (sl : list (Z * list Z)) : Prop :=
  Forall (fun p => 1 <= fst p <= g_MAX_COMPS_IN_SCAN /\ forall ci, 0 <= ci < fst p -> 0 <= getZ (snd p) ci < nc) sl.

Lemma scans_of_script_live nc mode prec scans :
  Forall (scan_wf nc mode prec) scans ->
  scans_live nc (map (fun s => (s_ncomps s, firstn (Z.to_nat (s_ncomps s)) (s_comps s))) scans).
Proof.
  intro H. unfold scans_live. rewrite Forall_map. eapply Forall_impl; [|exact H].
  intros s [[Hn Hc] _]. cbn [fst snd]. split; [exact Hn|]. intros ci Hci.
  rewrite getZ_firstn by exact Hci. apply Hc. exact Hci.
Qed.

Lemma later_scans_sat c lossless width height nc comps u :
  f_width c = width -> f_height c = height ->
  setup_wf width height nc lossless comps u ->
  forall sl ri, scans_live nc sl -> sat (later_scans c lossless u ri sl) (fun _ => True).
Proof.
  intros Hw Hh Hwf sl. induction sl as [|[n cur] r IH]; intros ri Hl; cbn [later_scans].
  - apply sat_ret. exact I.
  - apply Forall_cons_iff in Hl. destruct Hl as [[Hn Hc] Hr]. cbn [fst snd] in *.
    eapply sat_bind.
    { rewrite Hw, Hh. apply (per_scan_bounds_lemma width height nc lossless comps u n cur ri (f_restart_in_rows c) Hwf Hn Hc). }
    intros i _. apply IH. exact Hr.
Qed.

Lemma stale_false nc sl : scans_live nc sl ->
  (forall p, In p sl -> (length (snd p) <= Z.to_nat (fst p))%nat) ->
  existsb (fun nc_cur : Z * list Z => existsb (fun x => x >=? nc) (snd nc_cur)) sl = false.
Proof.
  intros Hl Hlen. apply not_true_is_false. intro E. apply existsb_exists in E. destruct E as [[n cur] [Hin E]].
  apply existsb_exists in E. destruct E as [x [Hx Hge]]. cbn [snd] in *.
  unfold scans_live in Hl. rewrite Forall_forall in Hl. destruct (Hl _ Hin) as [Hn Hc]. cbn [fst snd] in *.
  apply In_nth with (d := 0) in Hx. destruct Hx as [k [Hk Hnth]].
  specialize (Hlen _ Hin). cbn [fst snd] in Hlen.
  specialize (Hc (Z.of_nat k) ltac:(lia)). unfold getZ in Hc. rewrite Nat2Z.id in Hc. lia.
Qed.

Lemma scans_of_len c nc : forall p, In p (scans_of c nc) -> (length (snd p) <= Z.to_nat (fst p))%nat.
Proof.
  intros p Hin. unfold scans_of in Hin. destruct (f_script c) as [scans|].
  - apply in_map_iff in Hin. destruct Hin as [s [<- _]]. cbn [fst snd]. apply firstn_le_length.
  - destruct Hin as [<-|[]]. cbn [fst snd]. rewrite map_length, seq_length. lia.
Qed.

Lemma revalidate_present : g_REVALIDATE_AFTER_LOSSLESS = 1.
Proof. reflexivity. Qed.

(* what a successfully started compression guarantees *)
Definition started_wf (c : cfg) (t : started) : Prop :=
  t_stale t = false /\
  scans_live (t_ncomp t) (scans_of c (t_ncomp t)) /\
  (exists comps, setup_wf (f_width c) (f_height c) (t_ncomp t) (t_lossless t) comps (t_setup t)) /\
  (exists n0, scaninfo_wf n0 (f_restart_interval c) (f_restart_in_rows c) (t_scan0 t)).

Theorem master_start_safe_lemma : forall c, sat (master_start c) (started_wf c).
Proof.
  intro c. unfold master_start.
  (* 1. the script, if any *)
  eapply sat_bind with (P := fun md => match md, f_script c with
                                     | Some m, Some scans => Forall (scan_wf (f_ncomp c) m (f_prec c)) scans
                                     | None, None => True
                                     | _, _ => False end).
  { destruct (f_script c) as [scans|].
    - eapply sat_bind. { apply validate_script_safe_lemma. }
      intros m [_ [_ [_ H]]]. apply sat_ret. exact H.
    - apply sat_ret. exact I. }
  intros md Hmd. cbv zeta.
  set (lossless := match md with Some Lossless => true | Some _ => false | None => f_lossless c end).
  (* 2. the final component count and the liveness of the script against it *)
  eapply sat_bind with (P := fun nc => forall scans, f_script c = Some scans ->
                                        exists m, Forall (scan_wf nc m (f_prec c)) scans).
  { destruct lossless.
    - eapply sat_seq with (P := True). { apply sat_guard; intros _; exact I. } intros _.
      eapply sat_seq with (P := forall scans, f_script c = Some scans -> exists m, Forall (scan_wf (f_incomp c) m (f_prec c)) scans).
      { destruct (f_script c) as [scans|].
        - rewrite revalidate_present. cbn [Z.eqb Pos.eqb].
          eapply sat_bind. { apply validate_script_safe_lemma. }
          intros m [_ [_ [_ H]]]. apply sat_ret. intros s2 E. injection E as <-. exists m. exact H.
        - apply sat_ret. intros s2 E. discriminate. }
      intro H. apply sat_ret. exact H.
    - apply sat_ret. intros scans E. rewrite E in Hmd. destruct md as [m|]; [|contradiction]. exists m. exact Hmd. }
  intros nc Hlive.
  (* 3. initial_setup *)
  eapply sat_bind. { apply initial_setup_bounds_lemma. }
  intros u [Hwf _].
  (* 4. colour conversion / down-sampling checks *)
  eapply sat_seq with (P := True).
  { destruct (if lossless then false else f_raw c); [apply sat_ret; exact I|].
    eapply sat_seq with (P := True). { apply sat_guard; intros _; exact I. } intros _.
    eapply sat_weaken.
    - apply (sat_for _ 0 _ tt (fun _ _ => True)); [exact I|].
      intros j [] Hj _. destruct Hwf as [Hnc _].
      eapply sat_seq with (P := True). { apply sat_touch; [consts; lia|exact I]. } intros _.
      apply sat_guard; intros _; exact I.
    - intros; exact I. }
  intros _.
  eapply sat_seq with (P := True). { apply sat_guard; intros _; exact I. } intros _.
  eapply sat_seq. { apply sat_guard; intro Hg; exact Hg. } intro Hg.
  (* 5. the scans are live *)
  assert (Hsl : scans_live nc (scans_of c nc)).
  { unfold scans_of. destruct (f_script c) as [scans|] eqn:Es.
    - destruct (Hlive scans eq_refl) as [m Hm]. exact (scans_of_script_live nc m (f_prec c) scans Hm).
    - destruct Hwf as [Hnc _]. constructor; [|constructor]. cbn [fst snd]. split; [consts; lia|].
      intros ci Hci. rewrite getZ_seq by exact Hci. lia. }
  destruct (scans_of c nc) as [|[n0 cur0] rest] eqn:Esl; [apply sat_fail|].
  pose proof Hsl as Hsl0. apply Forall_cons_iff in Hsl0. destruct Hsl0 as [[Hn0 Hc0] _]. cbn [fst snd] in Hn0, Hc0.
  eapply sat_bind.
  { apply (per_scan_bounds_lemma (f_width c) (f_height c) nc lossless _ u n0 cur0 (f_restart_interval c) (f_restart_in_rows c) Hwf Hn0 Hc0). }
  intros i0 Hi0. eapply sat_seq with (P := True). { apply sat_guard; intros _; exact I. } intros _.
  apply sat_ret. unfold started_wf. cbn [t_stale t_ncomp t_setup t_scan0 t_lossless].
  split; [|split; [|split]].
  - rewrite <- Esl. apply stale_false.
    + rewrite Esl. exact Hsl.
    + apply scans_of_len.
  - rewrite Esl. exact Hsl.
  - eexists. exact Hwf.
  - exists n0. exact Hi0.
Qed.

Theorem master_rest_safe_lemma : forall c t, started_wf c t -> sat (master_rest c t) (fun _ => True).
Proof.
  intros c t [_ [Hsl [[comps Hwf] _]]]. unfold master_rest.
  apply (later_scans_sat c (t_lossless t) (f_width c) (f_height c) (t_ncomp t) comps (t_setup t) eq_refl eq_refl Hwf).
  unfold scans_live in *. destruct (scans_of c (t_ncomp t)) as [|p r]; cbn [skipn]; [constructor|].
  apply Forall_cons_iff in Hsl. apply Hsl.
Qed.
