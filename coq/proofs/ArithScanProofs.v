(* C03 arithmetic coding, byte level: the bytes an arithmetic scan emits (per restart interval:
   all decisions of the interval through the QM coder incl. its flush, stuffed; RSTn between
   intervals; an interval may emit no byte at all) decode to the scan's coefficients. *)
From Coq Require Import List ZArith Lia Bool.
From LJT Require Import model.Huff model.Seq model.Prog model.ArithBin model.T81Arith
  proofs.T81QMProofs proofs.T81ArithProofsIdeal proofs.T81ArithProofsBytes
  proofs.SeqBits proofs.SeqProofs proofs.ProgProofs proofs.ProgRefineProofs proofs.ArithProofs
  proofs.ArithACProofs proofs.ArithQMProofs.
Import ListNotations.
Local Open Scope Z_scope.

(* ------------------------------------------------ generic restart layer *)
Section AScanRT.
Variables M D R : Type.
Variable enc_seg : list M -> option (list decision).
Variable dec_seg : list D -> qdec -> option (list R).
Variable p : M -> D -> Prop.
Variable f : M -> D -> R.
Hypothesis seg_rt : forall ms ds dsn, Pseg M D p ms ds -> enc_seg ms = Some dsn ->
  dec_seg ds (qm_init_dec (qm_encode_all dsn)) = Some (Fseg M D R f ms ds).

Lemma asegs_roundtrip : forall fuel Ri n ms ds bytes,
  0 <= n < 8 -> Pseg M D p ms ds -> (length ms < fuel)%nat ->
  aenc_segs M enc_seg fuel Ri n ms = Some bytes ->
  adec_segs D R dec_seg fuel Ri n ds bytes = Some (Fseg M D R f ms ds).
Proof.
  induction fuel as [|fu IH]; intros Ri n ms ds bytes Hn HP Hlen He; [lia|].
  cbn [aenc_segs] in He. cbn [adec_segs].
  destruct (enc_seg (seg_take Ri ms)) as [dsn|] eqn:Es; [|discriminate].
  pose proof (Pseg_take M D p Ri ms ds HP) as HPt. pose proof (Pseg_drop M D p Ri ms ds HP) as HPd.
  pose proof (seg_drop_length Ri ms) as Hdm. pose proof (seg_drop_length Ri ds) as Hdd.
  destruct HP as [HPl _].
  destruct (seg_drop Ri ms) as [|m0 mt] eqn:Edm.
  - injection He as <-. rewrite <- (app_nil_r (stuff (qm_encode_all dsn))).
    rewrite (load_seg_stuff [] (or_introl eq_refl)). rewrite (seg_rt _ _ dsn HPt Es).
    destruct (seg_drop Ri ds) as [|d0 dt] eqn:Edd.
    + rewrite (Fseg_split M D R f Ri ms ds). rewrite Edm, Edd. unfold Fseg at 2. cbn [combine map]. now rewrite app_nil_r.
    + cbn [length] in Hdm, Hdd. destruct Ri; lia.
  - destruct (aenc_segs M enc_seg fu Ri ((n + 1) mod 8) (m0 :: mt)) as [rest|] eqn:Er; [|discriminate].
    injection He as <-. rewrite (load_seg_stuff ([255; 208 + n] ++ rest)).
    2:{ right. exists (208 + n), rest. split; [reflexivity|lia]. }
    rewrite (seg_rt _ _ dsn HPt Es).
    destruct (seg_drop Ri ds) as [|d0 dt] eqn:Edd.
    + cbn [length] in Hdm, Hdd. destruct Ri; lia.
    + cbn [app]. rewrite Z.eqb_refl.
      rewrite (IH Ri ((n + 1) mod 8) (m0 :: mt) (d0 :: dt) rest).
      * rewrite (Fseg_split M D R f Ri ms ds). rewrite Edm, Edd. reflexivity.
      * apply Z.mod_pos_bound. lia.
      * exact HPd.
      * rewrite Hdm. destruct Ri; [cbn [length] in Hdm; lia|]. cbn [length] in Hdm. lia.
      * exact Er.
Qed.

Theorem ascan_roundtrip Ri ms ds bytes : Pseg M D p ms ds ->
  aenc_scan M enc_seg Ri ms = Some bytes -> adec_scan D R dec_seg Ri ds bytes = Some (Fseg M D R f ms ds).
Proof.
  intros HP He. unfold adec_scan. destruct HP as [Hl Hf]. rewrite Hl.
  apply asegs_roundtrip; [lia|split; assumption|lia|exact He].
Qed.
End AScanRT.

(* --------------------------------------------- decisions under a key map *)
Definition carriesK (base : Z -> Z) (more : list decision) (q : qdec) (ds : list decision) : Prop :=
  carriesQ q (rekey base ds ++ more).

Lemma carriesK_step base more : forall q st b ds, carriesK base more q ((st, b) :: ds) ->
  exists q', next_k base st q = Some (b, q') /\ carriesK base more q' ds.
Proof.
  intros q st b ds H. unfold carriesK, rekey in H. cbn [map app fst snd] in H.
  destruct (carriesQ_step _ _ _ _ H) as [q' [Hd Hc]]. exists q'. split; [exact Hd|exact Hc].
Qed.

Lemma carriesQ_init ds : carriesQ (qm_init_dec (qm_encode_all ds)) ds.
Proof. unfold carriesQ. apply qm_roundtrip. Qed.

(* ------------------------------------------------------ AC first scans *)
Lemma aacf_blocks_rt cs Al Ss Se : (Ss <= Se)%nat -> (Se <= 63)%nat ->
  forall bl cur q more, length cur = length bl ->
  Forall (fun b => Forall (fun v => Z.abs v <= 32768) (acf_band Ss Se Al b)) bl ->
  carriesQ q (flat_map (fun b => rekey (ack (a_act (cmp cs 0))) (enc_acf_block_a (a_K (cmp cs 0)) Ss Se Al b)) bl ++ more) ->
  aacf_dec_blocks cs Al Ss Se cur q = Some (acf_res_list Ss Se Al bl cur).
Proof.
  intros H1 H2. induction bl as [|b t IH]; intros cur q more Hl HF Hc.
  - destruct cur; [reflexivity|discriminate].
  - destruct cur as [|c ct]; [discriminate|]. inversion HF as [|? ? Hb Ht]; subst.
    cbn [flat_map] in Hc. rewrite <- app_assoc in Hc. cbn [aacf_dec_blocks].
    set (more' := flat_map (fun b0 => rekey (ack (a_act (cmp cs 0))) (enc_acf_block_a (a_K (cmp cs 0)) Ss Se Al b0)) t ++ more) in *.
    destruct (acf_block_a_rt qdec (next_k (ack (a_act (cmp cs 0)))) (carriesK (ack (a_act (cmp cs 0))) more') (carriesK_step _ more')
                (a_K (cmp cs 0)) Se Al Ss b c [] q H1 H2 Hb) as [q' [Hd Hc']].
    { unfold carriesK. rewrite app_nil_r. exact Hc. }
    rewrite Hd. unfold carriesK in Hc'. cbn [rekey map app] in Hc'.
    cbn [length] in Hl. rewrite (IH ct q' more ltac:(lia) Ht Hc'). reflexivity.
Qed.

Theorem aacf_scan_roundtrip cs Al Ss Se Ri bl cur bytes : (Ss <= Se)%nat -> (Se <= 63)%nat ->
  length cur = length bl ->
  Forall (fun b => Forall (fun v => Z.abs v <= 32768) (acf_band Ss Se Al b)) bl ->
  aacf_enc_scan cs Al Ss Se Ri bl = Some bytes ->
  aacf_dec_scan cs Al Ss Se Ri cur bytes = Some (acf_res_list Ss Se Al bl cur).
Proof.
  intros H1 H2 Hl HF He. unfold aacf_dec_scan, aacf_enc_scan in *.
  apply (ascan_roundtrip _ _ _ (aacf_enc_blocks cs Al Ss Se) _
           (fun b _ => Forall (fun v => Z.abs v <= 32768) (acf_band Ss Se Al b)) (fun b c => acf_res Ss Se Al b c));
    [|split; [exact Hl|]|exact He].
  - intros ms ds dsn [Hl0 HF0] Hs. unfold aacf_enc_blocks in Hs. injection Hs as <-.
    apply (aacf_blocks_rt cs Al Ss Se H1 H2 ms ds _ [] Hl0).
    + cbv beta in HF0. exact (Forall_combine_fst (fun b => Forall (fun v => Z.abs v <= 32768) (acf_band Ss Se Al b)) ms ds Hl0 HF0).
    + rewrite app_nil_r. apply carriesQ_init.
  - cbv beta. now apply (Forall_combine_fst' (fun b => Forall (fun v => Z.abs v <= 32768) (acf_band Ss Se Al b))).
Qed.

(* -------------------------------------------------- AC refinement scans *)
Lemma aacr_blocks_rt cs Al Ss Se : (1 <= Ss)%nat -> (Ss <= Se)%nat /\ (Se <= 63)%nat -> 0 <= Al ->
  forall bl cur q more, length cur = length bl ->
  Forall (fun bc => acr_hist Ss Se Al (fst bc) (snd bc)) (combine bl cur) ->
  carriesQ q (flat_map (fun b => rekey (ack (a_act (cmp cs 0))) (enc_acr_block_a Ss Se Al (Al + 1) b)) bl ++ more) ->
  aacr_dec_blocks cs Al Ss Se cur q = Some (map (fun bc => acr_expected Ss Se Al (fst bc) (snd bc)) (combine bl cur)).
Proof.
  intros H1 H2 H3. induction bl as [|b t IH]; intros cur q more Hl HF Hc.
  - destruct cur; [reflexivity|discriminate].
  - destruct cur as [|c ct]; [discriminate|]. cbn [combine] in HF. inversion HF as [|? ? Hb Ht]; subst. cbn [fst snd] in Hb.
    cbn [flat_map] in Hc. rewrite <- app_assoc in Hc. cbn [aacr_dec_blocks].
    set (more' := flat_map (fun b0 => rekey (ack (a_act (cmp cs 0))) (enc_acr_block_a Ss Se Al (Al + 1) b0)) t ++ more) in *.
    destruct (acr_block_a_rt qdec (next_k (ack (a_act (cmp cs 0)))) (carriesK (ack (a_act (cmp cs 0))) more') (carriesK_step _ more')
                Ss Se Al H1 H2 H3 b c Hb [] q) as [q' [Hd Hc']].
    { unfold carriesK. rewrite app_nil_r. exact Hc. }
    rewrite Hd. unfold carriesK in Hc'. cbn [rekey map app] in Hc'.
    cbn [length] in Hl. rewrite (IH ct q' more ltac:(lia) Ht Hc'). reflexivity.
Qed.

Theorem aacr_scan_roundtrip cs Al Ss Se Ri bl cur bytes :
  (1 <= Ss)%nat -> (Ss <= Se)%nat /\ (Se <= 63)%nat -> 0 <= Al -> length cur = length bl ->
  Forall (fun bc => acr_hist Ss Se Al (fst bc) (snd bc)) (combine bl cur) ->
  aacr_enc_scan cs Al Ss Se (Al + 1) Ri bl = Some bytes ->
  aacr_dec_scan cs Al Ss Se Ri cur bytes = Some (map (fun bc => acr_expected Ss Se Al (fst bc) (snd bc)) (combine bl cur)).
Proof.
  intros H1 H2 H3 Hl HF He. unfold aacr_dec_scan, aacr_enc_scan in *.
  apply (ascan_roundtrip _ _ _ (aacr_enc_blocks cs Al Ss Se (Al + 1)) _
           (fun b c => acr_hist Ss Se Al b c) (fun b c => acr_expected Ss Se Al b c)); [|split; assumption|exact He].
  intros ms ds dsn [Hl0 HF0] Hs. unfold aacr_enc_blocks in Hs. injection Hs as <-.
  apply (aacr_blocks_rt cs Al Ss Se H1 H2 H3 ms ds _ [] Hl0 HF0). rewrite app_nil_r. apply carriesQ_init.
Qed.

(* ----------------------------------------------------- DC refinement scans *)
Lemma adcr_blocks_rt Al : forall bl cur q more, length cur = length bl ->
  carriesQ q (rekey (fun x => x) (flat_map (enc_dcr_a Al) bl) ++ more) ->
  exists q', adcr_dec_blocks Al cur q = Some (dcr_res Al bl cur, q') /\ carriesQ q' more.
Proof.
  induction bl as [|b t IH]; intros cur q more Hl Hc.
  - destruct cur; [|discriminate]. exists q. split; [reflexivity|exact Hc].
  - destruct cur as [|c ct]; [discriminate|]. cbn [flat_map enc_dcr_a app rekey map fst snd] in Hc.
    change (FIXED_BIN =? FIXED_BIN) with true in Hc. cbv iota in Hc.
    destruct (carriesQ_step _ _ _ _ Hc) as [q1 [Hd Hc1]]. cbn [adcr_dec_blocks]. unfold dec_dcr_a, next_k.
    change (FIXED_BIN =? FIXED_BIN) with true. cbv iota. rewrite Hd.
    cbn [length] in Hl. destruct (IH ct q1 more ltac:(lia) Hc1) as [q' [Hd' Hc']]. rewrite Hd'.
    exists q'. split; [reflexivity|exact Hc'].
Qed.

Lemma adcr_mcus_rt Al : forall ms cur q more, length cur = length ms ->
  Forall (fun mc => length (snd mc) = length (fst mc)) (combine ms cur) ->
  carriesQ q (rekey (fun x => x) (flat_map (fun m => flat_map (enc_dcr_a Al) m) ms) ++ more) ->
  adcr_dec_mcus Al cur q = Some (map (fun mc => dcr_res Al (fst mc) (snd mc)) (combine ms cur)).
Proof.
  induction ms as [|m t IH]; intros cur q more Hl HF Hc.
  - destruct cur; [reflexivity|discriminate].
  - destruct cur as [|c ct]; [discriminate|]. cbn [combine] in HF. inversion HF as [|? ? Hm Ht]; subst. cbn [fst snd] in Hm.
    cbn [flat_map] in Hc. unfold rekey in Hc. rewrite map_app, <- app_assoc in Hc.
    destruct (adcr_blocks_rt Al m c q _ Hm Hc) as [q1 [Hd Hc1]]. cbn [adcr_dec_mcus]. rewrite Hd.
    cbn [length] in Hl. rewrite (IH ct q1 more ltac:(lia) Ht Hc1). reflexivity.
Qed.

Theorem adcr_scan_roundtrip Al Ri ms cur bytes : length cur = length ms ->
  Forall (fun mc => length (snd mc) = length (fst mc)) (combine ms cur) ->
  adcr_enc_scan Al Ri ms = Some bytes ->
  adcr_dec_scan Al Ri cur bytes = Some (map (fun mc => dcr_res Al (fst mc) (snd mc)) (combine ms cur)).
Proof.
  intros Hl HF He. unfold adcr_dec_scan, adcr_enc_scan in *.
  apply (ascan_roundtrip _ _ _ (adcr_enc_mcus Al) _ (fun m c => length c = length m) (fun m c => dcr_res Al m c)); [|split; assumption|exact He].
  intros ms0 ds dsn [Hl0 HF0] Hs. unfold adcr_enc_mcus in Hs. injection Hs as <-.
  apply (adcr_mcus_rt Al ms0 ds _ [] Hl0 HF0). rewrite app_nil_r. apply carriesQ_init.
Qed.

(* ------------------------------------------------------- sequential scans *)
Lemma s16_mod x : -32768 <= x < 32768 -> s16 (x mod 65536) = x.
Proof.
  intros H. unfold s16. rewrite Z.mod_mod by lia. destruct (Z.lt_ge_cases x 0) as [Hn|Hp].
  - replace (x mod 65536) with (x + 65536) by (apply Z.mod_unique with (q := -1); lia).
    destruct (x + 65536 >=? 32768) eqn:E; [lia|]. rewrite Z.geb_leb in E. apply Z.leb_gt in E. lia.
  - rewrite Z.mod_small by lia. destruct (x >=? 32768) eqn:E; [rewrite Z.geb_leb in E; apply Z.leb_le in E; lia|reflexivity].
Qed.

Lemma map_upd {A B} (g : A -> B) x : forall l i, map g (upd i x l) = upd i (g x) (map g l).
Proof. induction l as [|a l IH]; intros [|i]; cbn; auto. now rewrite IH. Qed.

Lemma nthZ_map_mod l i : nthZ (map (fun x => x mod 65536) l) i = (nthZ l i) mod 65536.
Proof. unfold nthZ. change 0 with ((fun x => x mod 65536) 0) at 1. now rewrite map_nth. Qed.

Lemma seq_block_res b : length b = 64%nat -> acf_res 1 63 0 b (upd 0 (nth 0%nat b 0) (repeat 0 64)) = b.
Proof.
  intros Hb. set (blk := upd 0 (nth 0%nat b 0) (repeat 0 64)).
  assert (Hbl : length blk = 64%nat) by (unfold blk; now rewrite upd_length).
  destruct (acf_res_spec 1 63 0 b blk ltac:(lia) ltac:(lia) Hbl) as [Hl Hs].
  { intros j Hj. unfold blk. rewrite nth_upd_other.
    - pose proof (NatOrderProofs.order_lt j). now rewrite nth_repeat.
    - change 0%nat with (order 0) at 1. intros Heq. apply NatOrderProofs.order_inj in Heq; lia. }
  apply (nth_ext _ _ 0 0); [congruence|]. intros i Hi. rewrite Hl in Hi.
  rewrite <- (NatOrderProofs.order_inv i Hi). set (j := nth i NatOrderProofs.inv_order 0%nat).
  assert (Hj : (j < 64)%nat) by (apply NatOrderProofs.inv_lt; exact Hi).
  rewrite (Hs j Hj). destruct ((1 <=? j) && (j <=? 63))%nat eqn:E.
  - apply ac_state_0.
  - assert (j = 0%nat).
    { apply andb_false_iff in E. destruct E as [E|E]; [apply Nat.leb_gt in E; lia|apply Nat.leb_gt in E; lia]. }
    subst j. rewrite H. change (order 0) with 0%nat. unfold blk. now rewrite nth_upd_same by (cbn; lia).
Qed.

Lemma acf_block_k base K Ss Se Al b blk q more : (Ss <= Se)%nat -> (Se <= 63)%nat ->
  Forall (fun v => Z.abs v <= 32768) (acf_band Ss Se Al b) ->
  carriesQ q (rekey base (enc_acf_block_a K Ss Se Al b) ++ more) ->
  exists q', dec_acf_a qdec (next_k base) K Se Al 130 Ss true blk q = Some (acf_res Ss Se Al b blk, q') /\ carriesQ q' more.
Proof.
  intros H1 H2 HF Hc.
  destruct (acf_block_a_rt qdec (next_k base) (carriesK base more) (carriesK_step base more) K Se Al Ss b blk [] q H1 H2 HF) as [q' [Hd Hc']].
  { unfold carriesK. rewrite app_nil_r. exact Hc. }
  exists q'. split; [exact Hd|exact Hc'].
Qed.

Lemma dc_k base ctx L U v ds ctx' q more : Z.abs v <= 32768 -> enc_dc_arith ctx L U v = (ds, ctx') ->
  carriesQ q (rekey base ds ++ more) ->
  exists q', dec_dc_arith qdec (next_k base) ctx L U q = Some (v, ctx', q') /\ carriesQ q' more.
Proof.
  intros Hv He Hc.
  destruct (arith_dc_roundtrip qdec (next_k base) (carriesK base more) (carriesK_step base more) ctx L U v ds ctx' [] q Hv He) as [q' [Hd Hc']].
  { unfold carriesK. rewrite app_nil_r. exact Hc. }
  exists q'. split; [exact Hd|exact Hc'].
Qed.

Fixpoint amcu_ok (mm : list nat) (blocks : list (list Z)) (ldc : list Z) : Prop :=
  match mm, blocks with
  | ci :: mt, b :: bt =>
      length b = 64%nat /\ Z.abs (nth 0%nat b 0 - nthZ ldc ci) <= 32768 /\ -32768 <= nth 0%nat b 0 < 32768 /\
      Forall (fun v => Z.abs v <= 32768) (acf_band 1 63 0 b) /\ amcu_ok mt bt (upd ci (nth 0%nat b 0) ldc)
  | _, _ => True
  end.

Lemma aseq_mcu_rt cs : forall mm blocks ldc ctx q more ds l' c',
  aseq_enc_mcu cs mm blocks ldc ctx = Some (ds, l', c') -> amcu_ok mm blocks ldc ->
  carriesQ q (ds ++ more) ->
  exists q', aseq_dec_mcu cs mm (map (fun x => x mod 65536) ldc) ctx q =
               Some (blocks, map (fun x => x mod 65536) l', c', q') /\ carriesQ q' more.
Proof.
  induction mm as [|ci mt IH]; intros blocks ldc ctx q more ds l' c' He Hok Hc.
  - destruct blocks; [|discriminate]. cbn in He. injection He as <- <- <-. exists q. split; [reflexivity|exact Hc].
  - destruct blocks as [|b bt]; [discriminate|]. cbn [aseq_enc_mcu] in He. cbn [amcu_ok] in Hok.
    destruct Hok as (Hb & Hv & Hr & Hac & Hok').
    destruct (enc_dc_arith (nthZ ctx ci) (a_L (cmp cs ci)) (a_U (cmp cs ci)) (nth 0%nat b 0 - nthZ ldc ci)) as [dcd ctx'] eqn:Ed.
    destruct (aseq_enc_mcu cs mt bt (upd ci (nth 0%nat b 0) ldc) (upd ci ctx' ctx)) as [[[rest l1] c1]|] eqn:Er; [|discriminate].
    injection He as <- <- <-. rewrite <- !app_assoc in Hc. cbn [aseq_dec_mcu].
    destruct (dc_k (dck (a_dct (cmp cs ci))) _ _ _ _ dcd ctx' q _ Hv Ed Hc) as [q1 [Hd1 Hc1]].
    rewrite Hd1.
    rewrite nthZ_map_mod. rewrite Zplus_mod_idemp_l. replace (nthZ ldc ci + (nth 0%nat b 0 - nthZ ldc ci)) with (nth 0%nat b 0) by lia.
    rewrite (s16_mod _ Hr).
    destruct (acf_block_k (ack (a_act (cmp cs ci))) (a_K (cmp cs ci)) 1 63 0 b (upd 0 (nth 0%nat b 0) (repeat 0 64)) q1 (rest ++ more)
                ltac:(clear; lia) ltac:(clear; lia) Hac Hc1) as [q2 [Hd2 Hc2]].
    rewrite Hd2. rewrite (seq_block_res b Hb).
    rewrite <- (map_upd (fun x => x mod 65536)).
    destruct (IH bt _ _ q2 more rest l1 c1 Er Hok' Hc2) as [q3 [Hd3 Hc3]]. rewrite Hd3.
    exists q3. split; [reflexivity|exact Hc3].
Qed.

Fixpoint amcus_ok cs (mem : list nat) (ms : list (list (list Z))) (ldc ctx : list Z) : Prop :=
  match ms with
  | [] => True
  | m :: t => amcu_ok mem m ldc /\
              match aseq_enc_mcu cs mem m ldc ctx with
              | Some (_, l', c') => amcus_ok cs mem t l' c'
              | None => True
              end
  end.

Lemma aseq_mcus_rt cs mem : forall ms ldc ctx q more ds,
  aseq_enc_mcus cs mem ms ldc ctx = Some ds -> amcus_ok cs mem ms ldc ctx -> carriesQ q (ds ++ more) ->
  aseq_dec_mcus cs mem (length ms) (map (fun x => x mod 65536) ldc) ctx q = Some ms.
Proof.
  induction ms as [|m t IH]; intros ldc ctx q more ds He Hok Hc; [reflexivity|].
  cbn [aseq_enc_mcus] in He. cbn [amcus_ok] in Hok. destruct Hok as [Hm Hok'].
  destruct (aseq_enc_mcu cs mem m ldc ctx) as [[[d1 l1] c1]|] eqn:Em; [|discriminate].
  destruct (aseq_enc_mcus cs mem t l1 c1) as [r|] eqn:Et; [|discriminate]. injection He as <-.
  rewrite <- app_assoc in Hc. destruct (aseq_mcu_rt cs mem m ldc ctx q _ d1 l1 c1 Em Hm Hc) as [q1 [Hd Hc1]].
  cbn [length aseq_dec_mcus]. rewrite Hd. rewrite (IH l1 c1 q1 more r Et Hok' Hc1). reflexivity.
Qed.

Definition ablk_ok (b : list Z) : Prop :=
  length b = 64%nat /\ -16384 <= nth 0%nat b 0 < 16384 /\ Forall (fun v => Z.abs v <= 32768) (acf_band 1 63 0 b).
Definition ldc_ok (ldc : list Z) : Prop := Forall (fun x => -16384 <= x < 16384) ldc.

Lemma ldc_ok_nth ldc ci : ldc_ok ldc -> -16384 <= nthZ ldc ci < 16384.
Proof.
  intros H. unfold nthZ. destruct (Nat.lt_ge_cases ci (length ldc)) as [Hl|Hl].
  - unfold ldc_ok in H. rewrite Forall_forall in H. apply H. now apply nth_In.
  - rewrite nth_overflow by lia. lia.
Qed.
Lemma ldc_ok_upd ldc ci x : ldc_ok ldc -> -16384 <= x < 16384 -> ldc_ok (upd ci x ldc).
Proof.
  unfold ldc_ok. revert ci. induction ldc as [|a l IH]; intros [|ci] H Hx; cbn; auto; inversion H; subst; constructor; auto.
Qed.

Lemma amcu_ok_local : forall mm blocks ldc, Forall ablk_ok blocks -> ldc_ok ldc -> amcu_ok mm blocks ldc.
Proof.
  induction mm as [|ci mt IH]; intros blocks ldc HF Hl; [destruct blocks; exact I|].
  destruct blocks as [|b bt]; [exact I|]. inversion HF as [|? ? (Hb & Hr & Hac) Ht]; subst. cbn [amcu_ok].
  pose proof (ldc_ok_nth ldc ci Hl). repeat split; try lia; auto. apply IH; [exact Ht|now apply ldc_ok_upd].
Qed.

Lemma aseq_enc_mcu_ldc cs : forall mm blocks ldc ctx ds l' c', Forall ablk_ok blocks -> ldc_ok ldc ->
  aseq_enc_mcu cs mm blocks ldc ctx = Some (ds, l', c') -> ldc_ok l'.
Proof.
  induction mm as [|ci mt IH]; intros blocks ldc ctx ds l' c' HF Hl He.
  - destruct blocks; [|discriminate]. cbn in He. injection He as <- <- <-. exact Hl.
  - destruct blocks as [|b bt]; [discriminate|]. cbn [aseq_enc_mcu] in He. inversion HF as [|? ? (Hb & Hr & Hac) Ht]; subst.
    destruct (enc_dc_arith _ _ _ _) as [dcd ctx'].
    destruct (aseq_enc_mcu cs mt bt _ _) as [[[rest l1] c1]|] eqn:Er; [|discriminate]. injection He as <- <- <-.
    apply (IH bt _ _ _ _ _ Ht (ldc_ok_upd ldc ci _ Hl Hr) Er).
Qed.

Lemma amcus_ok_local cs mem : forall ms ldc ctx, Forall (Forall ablk_ok) ms -> ldc_ok ldc -> amcus_ok cs mem ms ldc ctx.
Proof.
  induction ms as [|m t IH]; intros ldc ctx HF Hl; [exact I|]. inversion HF as [|? ? Hm Ht]; subst. cbn [amcus_ok].
  split; [now apply amcu_ok_local|].
  destruct (aseq_enc_mcu cs mem m ldc ctx) as [[[d1 l1] c1]|] eqn:Em; [|exact I].
  apply IH; [exact Ht|]. exact (aseq_enc_mcu_ldc cs mem m ldc ctx d1 l1 c1 Hm Hl Em).
Qed.

Lemma map_mod_zeros n : map (fun x => x mod 65536) (repeat 0 n) = repeat 0 n.
Proof. induction n; cbn; [reflexivity|now rewrite IHn]. Qed.

Theorem aseq_scan_roundtrip cs mem ncomp Ri ms bytes : Forall (Forall ablk_ok) ms ->
  aseq_enc_scan cs mem ncomp Ri ms = Some bytes ->
  aseq_dec_scan cs mem ncomp Ri (length ms) bytes = Some ms.
Proof.
  intros HF He. unfold aseq_dec_scan, aseq_enc_scan in *.
  pose proof (ascan_roundtrip (list (list Z)) unit (list (list Z))
    (fun seg => aseq_enc_mcus cs mem seg (repeat 0 ncomp) (repeat 0 ncomp))
    (fun seg q => aseq_dec_mcus cs mem (length seg) (repeat 0 ncomp) (repeat 0 ncomp) q)
    (fun m _ => Forall ablk_ok m) (fun m _ => m)) as H.
  rewrite (H) with (ms := ms) (bytes := bytes).
  - now rewrite Fseg_fst by (now rewrite repeat_length).
  - intros ms0 ds dsn [Hl0 HF0] Hs. rewrite Hl0. rewrite (Fseg_fst ms0 ds Hl0).
    rewrite <- (map_mod_zeros ncomp) at 1.
    apply (aseq_mcus_rt cs mem ms0 (repeat 0 ncomp) (repeat 0 ncomp) _ [] dsn Hs).
    + apply amcus_ok_local; [exact (Forall_combine_fst (Forall ablk_ok) ms0 ds Hl0 HF0)|]. unfold ldc_ok. clear. induction ncomp; cbn; constructor; auto; lia.
    + rewrite app_nil_r. apply carriesQ_init.
  - split; [now rewrite repeat_length|]. now apply (Forall_combine_fst' (Forall ablk_ok)).
  - exact He.
Qed.

(* --------------------------------------------------------- DC first scans *)
Lemma s16_shift m Al : 0 <= Al -> -32768 <= Z.shiftl m Al < 32768 -> s16 (Z.shiftl (m mod 65536) Al) = Z.shiftl m Al.
Proof.
  intros HA Hr. rewrite !Z.shiftl_mul_pow2 in * by lia. rewrite <- (s16_mod (m * 2 ^ Al) Hr). unfold s16.
  rewrite Z.mul_mod_idemp_l by lia. rewrite Z.mod_mod by lia. reflexivity.
Qed.

Definition adcf_blk_ok (Al : Z) (b : list Z) : Prop := -16384 <= nth 0%nat b 0 < 16384.

Lemma pt_dc_range Al x : 0 <= Al <= 13 -> -16384 <= x < 16384 -> -16384 <= pt_dc Al x < 16384 /\ -32768 <= Z.shiftl (pt_dc Al x) Al < 32768.
Proof.
  intros HA Hx. unfold pt_dc. rewrite Z.shiftr_div_pow2, Z.shiftl_mul_pow2 by lia.
  assert (Hp : 1 <= 2 ^ Al) by (apply (Z.pow_le_mono_r 2 0 Al); lia).
  assert (Hp2 : 2 ^ Al <= 8192) by (apply (Z.pow_le_mono_r 2 Al 13); lia).
  pose proof (Z.div_mod x (2 ^ Al) ltac:(lia)) as Hdm. pose proof (Z.mod_pos_bound x (2 ^ Al) ltac:(lia)) as Hmb.
  assert (Hq1 : -16384 <= x / 2 ^ Al) by (apply Z.div_le_lower_bound; nia).
  assert (Hq2 : x / 2 ^ Al < 16384) by (apply Z.div_lt_upper_bound; nia).
  split; [split; [exact Hq1|exact Hq2]|]. nia.
Qed.

Lemma adcf_mcu_rt cs Al : 0 <= Al <= 13 -> forall mm blocks cur ldc ctx q more ds l' c',
  adcf_enc_mcu cs Al mm blocks ldc ctx = Some (ds, l', c') -> length cur = length blocks ->
  Forall (adcf_blk_ok Al) blocks -> ldc_ok ldc -> carriesQ q (ds ++ more) ->
  exists q', adcf_dec_mcu cs Al mm cur (map (fun x => x mod 65536) ldc) ctx q =
               Some (dcf_res Al blocks cur, map (fun x => x mod 65536) l', c', q') /\ carriesQ q' more /\ ldc_ok l'.
Proof.
  intros HA. induction mm as [|ci mt IH]; intros blocks cur ldc ctx q more ds l' c' He Hl HF Hok Hc.
  - destruct blocks; [|discriminate]. destruct cur; [|discriminate]. cbn in He. injection He as <- <- <-.
    exists q. split; [reflexivity|]. split; [exact Hc|exact Hok].
  - destruct blocks as [|b bt]; [discriminate|]. destruct cur as [|c ct]; [discriminate|]. cbn [adcf_enc_mcu] in He.
    inversion HF as [|? ? Hb Ht]; subst. unfold adcf_blk_ok in Hb. destruct (pt_dc_range Al _ HA Hb) as [Hm Hs].
    pose proof (ldc_ok_nth ldc ci Hok) as Hn.
    destruct (enc_dc_arith (nthZ ctx ci) (a_L (cmp cs ci)) (a_U (cmp cs ci)) (pt_dc Al (nth 0%nat b 0) - nthZ ldc ci)) as [dcd ctx'] eqn:Ed.
    destruct (adcf_enc_mcu cs Al mt bt (upd ci (pt_dc Al (nth 0%nat b 0)) ldc) (upd ci ctx' ctx)) as [[[rest l1] c1]|] eqn:Er; [|discriminate].
    injection He as <- <- <-. rewrite <- app_assoc in Hc. cbn [adcf_dec_mcu].
    assert (Hv : Z.abs (pt_dc Al (nth 0%nat b 0) - nthZ ldc ci) <= 32768) by lia.
    destruct (dc_k (dck (a_dct (cmp cs ci))) _ _ _ _ dcd ctx' q _ Hv Ed Hc) as [q1 [Hd1 Hc1]]. rewrite Hd1.
    rewrite nthZ_map_mod. rewrite Zplus_mod_idemp_l.
    replace (nthZ ldc ci + (pt_dc Al (nth 0%nat b 0) - nthZ ldc ci)) with (pt_dc Al (nth 0%nat b 0)) by lia.
    rewrite <- (map_upd (fun x => x mod 65536)). cbn [length] in Hl.
    destruct (IH bt ct _ _ q1 more rest l1 c1 Er ltac:(lia) Ht (ldc_ok_upd ldc ci _ Hok Hm) Hc1) as [q2 [Hd2 [Hc2 Hok2]]]. rewrite Hd2.
    rewrite (s16_shift _ Al (proj1 HA) Hs). exists q2. split; [reflexivity|]. split; [exact Hc2|exact Hok2].
Qed.

Lemma adcf_mcus_rt cs mem Al : 0 <= Al <= 13 -> forall ms cur ldc ctx q more ds,
  adcf_enc_mcus cs mem Al ms ldc ctx = Some ds -> length cur = length ms ->
  Forall (fun mc => length (snd mc) = length (fst mc) /\ Forall (adcf_blk_ok Al) (fst mc)) (combine ms cur) ->
  ldc_ok ldc -> carriesQ q (ds ++ more) ->
  adcf_dec_mcus cs mem Al cur (map (fun x => x mod 65536) ldc) ctx q = Some (map (fun mc => dcf_res Al (fst mc) (snd mc)) (combine ms cur)).
Proof.
  intros HA. induction ms as [|m t IH]; intros cur ldc ctx q more ds He Hl HF Hok Hc.
  - destruct cur; [reflexivity|discriminate].
  - destruct cur as [|c ct]; [discriminate|]. cbn [combine] in HF. inversion HF as [|? ? [Hm1 Hm2] Ht]; subst. cbn [fst snd] in Hm1, Hm2.
    cbn [adcf_enc_mcus] in He.
    destruct (adcf_enc_mcu cs Al mem m ldc ctx) as [[[d1 l1] c1]|] eqn:Em; [|discriminate].
    destruct (adcf_enc_mcus cs mem Al t l1 c1) as [r|] eqn:Et; [|discriminate]. injection He as <-.
    rewrite <- app_assoc in Hc.
    destruct (adcf_mcu_rt cs Al HA mem m c ldc ctx q _ d1 l1 c1 Em Hm1 Hm2 Hok Hc) as [q1 [Hd [Hc1 Hok1]]].
    cbn [adcf_dec_mcus]. rewrite Hd. cbn [length] in Hl. rewrite (IH ct l1 c1 q1 more r Et ltac:(lia) Ht Hok1 Hc1). reflexivity.
Qed.

Theorem adcf_scan_roundtrip cs mem Al ncomp Ri ms cur bytes : 0 <= Al <= 13 -> length cur = length ms ->
  Forall (fun mc => length (snd mc) = length (fst mc) /\ Forall (adcf_blk_ok Al) (fst mc)) (combine ms cur) ->
  adcf_enc_scan cs mem Al ncomp Ri ms = Some bytes ->
  adcf_dec_scan cs mem Al ncomp Ri cur bytes = Some (map (fun mc => dcf_res Al (fst mc) (snd mc)) (combine ms cur)).
Proof.
  intros HA Hl HF He. unfold adcf_dec_scan, adcf_enc_scan in *.
  apply (ascan_roundtrip _ _ _ (fun seg => adcf_enc_mcus cs mem Al seg (repeat 0 ncomp) (repeat 0 ncomp)) _
           (fun m c => length c = length m /\ Forall (adcf_blk_ok Al) m) (fun m c => dcf_res Al m c)); [|split; assumption|exact He].
  intros ms0 ds dsn [Hl0 HF0] Hs. rewrite <- (map_mod_zeros ncomp) at 1.
  apply (adcf_mcus_rt cs mem Al HA ms0 ds (repeat 0 ncomp) (repeat 0 ncomp) _ [] dsn Hs Hl0 HF0).
  - unfold ldc_ok. clear. induction ncomp; cbn; constructor; auto; lia.
  - rewrite app_nil_r. apply carriesQ_init.
Qed.
