(* IccProofs.v -- proofs about model/Icc.v (C16): the writer's segment structure, the
   closed form of the reader on any marker list whose ICC markers are a permutation of a
   well-numbered list, the round trip, permutation / interleaving invariance, rejection
   of damaged numberings. *)
From Coq Require Import List ZArith Bool Lia Permutation.
From LJT Require Import lib.Sweep gen.GenIccConst model.MarkerRT model.Icc proofs.C16Consts.
Import ListNotations.
Local Open Scope Z_scope.

(* ------------------------------------------------------------- list helpers *)
Lemma firstn_app_exact {A} (a b : list A) : firstn (length a) (a ++ b) = a.
Proof. induction a; cbn; [destruct b; reflexivity | f_equal; assumption]. Qed.
Lemma skipn_app_exact {A} (a b : list A) : skipn (length a) (a ++ b) = b.
Proof. induction a; cbn; [reflexivity | assumption]. Qed.
Lemma skipn_app_plus {A} (a b : list A) n : skipn (length a + n) (a ++ b) = skipn n b.
Proof. induction a; cbn; [reflexivity | assumption]. Qed.
Lemma firstn_exact {A} (a : list A) : firstn (length a) a = a.
Proof. induction a; cbn; [reflexivity | f_equal; assumption]. Qed.

Lemma zlist_eqb_refl a : zlist_eqb a a = true.
Proof. induction a; cbn; [reflexivity | rewrite Z.eqb_refl; assumption]. Qed.
Lemma zlist_eqb_eq a b : zlist_eqb a b = true -> a = b.
Proof.
  revert b; induction a as [|x a IH]; intros [|y b] H; cbn in H; try discriminate; [reflexivity|].
  apply andb_true_iff in H as [H1 H2]. apply Z.eqb_eq in H1. subst. f_equal. auto.
Qed.

Lemma zrange_In_iff lo n x : In x (zrange lo n) <-> lo <= x < lo + Z.of_nat n.
Proof.
  revert lo; induction n as [|n IH]; intros lo; cbn [zrange In].
  - lia.
  - rewrite IH. lia.
Qed.
Lemma zrange_NoDup lo n : NoDup (zrange lo n).
Proof.
  revert lo; induction n as [|n IH]; intros lo; cbn [zrange]; constructor; auto.
  rewrite zrange_In_iff. lia.
Qed.
Lemma zrange_length lo n : length (zrange lo n) = n.
Proof. revert lo; induction n; intros; cbn; auto. Qed.

Lemma NoDup_map_inj {A B} (f : A -> B) l a b :
  NoDup (map f l) -> In a l -> In b l -> f a = f b -> a = b.
Proof.
  induction l as [|x l IH]; cbn; intros ND Ha Hb E; [contradiction|].
  inversion ND as [|? ? Hn ND']; subst.
  destruct Ha as [->|Ha], Hb as [->|Hb]; auto.
  - exfalso. apply Hn. rewrite E. apply in_map. assumption.
  - exfalso. apply Hn. rewrite <- E. apply in_map. assumption.
Qed.

Lemma Zlength_nat {A} (l : list A) : Zlength l = Z.of_nat (length l).
Proof. apply Zlength_correct. Qed.

(* --------------------------------------------------- markers seen by the reader *)
Definition OVH : nat := Z.to_nat R_ICC_OVERHEAD_LEN.

Lemma is_icc_len m : marker_is_icc m = true -> (OVH <= length (sm_data m))%nat.
Proof.
  unfold marker_is_icc. intros H. apply andb_true_iff in H as [H _]. apply andb_true_iff in H as [_ H].
  apply Z.leb_le in H. rewrite Zlength_nat in H. unfold OVH. lia.
Qed.
Lemma plen_payload m : marker_is_icc m = true -> icc_plen m = Z.of_nat (length (icc_payload m)).
Proof.
  intros H. pose proof (is_icc_len m H) as L. unfold icc_plen, icc_payload. fold OVH.
  rewrite skipn_length, Zlength_nat. unfold OVH, R_ICC_OVERHEAD_LEN in *. lia.
Qed.
Lemma plen_nonneg m : marker_is_icc m = true -> 0 <= icc_plen m.
Proof. intros H. rewrite plen_payload by assumption. lia. Qed.

(* a list of ICC markers numbered k, k+1, ... all with count n *)
Fixpoint numbered (n k : Z) (l : list saved) : Prop :=
  match l with
  | [] => True
  | m :: r => marker_is_icc m = true /\ icc_seq m = k /\ icc_count m = n /\ numbered n (k + 1) r
  end.
Definition well_numbered (n : Z) (l : list saved) : Prop :=
  numbered n 1 l /\ Z.of_nat (length l) = n.

Lemma numbered_seqs n k l : numbered n k l -> map icc_seq l = zrange k (length l).
Proof.
  revert k; induction l as [|m r IH]; intros k H; cbn in *; [reflexivity|].
  destruct H as (_ & Hs & _ & Hr). rewrite Hs. f_equal. apply IH. assumption.
Qed.
Lemma numbered_Forall n k l : numbered n k l ->
  Forall (fun m => marker_is_icc m = true /\ icc_count m = n /\ k <= icc_seq m < k + Z.of_nat (length l)) l.
Proof.
  revert k; induction l as [|m r IH]; intros k H; [constructor|].
  destruct H as (Hi & Hs & Hc & Hr). constructor.
  - cbn [length]. repeat split; try assumption; lia.
  - specialize (IH _ Hr). eapply Forall_impl; [|exact IH]. cbn [length]. intros a (A & B & C). repeat split; try assumption; lia.
Qed.

(* ------------------------------------------------------------ pass 1, pass 2 *)
Lemma pass1_filter ms num tbl : pass1 ms num tbl = pass1 (filter marker_is_icc ms) num tbl.
Proof.
  revert num tbl; induction ms as [|m r IH]; intros; [reflexivity|].
  cbn [filter]. destruct (marker_is_icc m) eqn:E.
  - cbn [pass1]. destruct (pass1_step num tbl m) as [[n' t']|]; [apply IH | reflexivity].
  - cbn [pass1]. unfold pass1_step. rewrite E. apply IH.
Qed.
Lemma pass2_filter ms tbl offs buf : pass2 ms tbl offs buf = pass2 (filter marker_is_icc ms) tbl offs buf.
Proof.
  revert buf; induction ms as [|m r IH]; intros; [reflexivity|].
  cbn [filter pass2]. destruct (marker_is_icc m) eqn:E.
  - cbn [pass2]. rewrite E. apply IH.
  - apply IH.
Qed.

Definition lookup (l : list saved) (k : Z) : option Z :=
  match find (fun m => icc_seq m =? k) l with Some m => Some (icc_plen m) | None => None end.

Lemma lookup_cons m r k : lookup (m :: r) k = if icc_seq m =? k then Some (icc_plen m) else lookup r k.
Proof. unfold lookup. cbn [find]. destruct (icc_seq m =? k); reflexivity. Qed.
Lemma lookup_none l k : ~ In k (map icc_seq l) -> lookup l k = None.
Proof.
  induction l as [|m r IH]; intros H; [reflexivity|]. rewrite lookup_cons. cbn in H.
  destruct (icc_seq m =? k) eqn:E; [apply Z.eqb_eq in E; tauto | apply IH; tauto].
Qed.
Lemma lookup_in l m : NoDup (map icc_seq l) -> In m l -> lookup l (icc_seq m) = Some (icc_plen m).
Proof.
  induction l as [|x r IH]; intros ND Hin; [contradiction|]. rewrite lookup_cons.
  cbn in ND. inversion ND as [|? ? Hn ND']; subst. destruct Hin as [->|Hin].
  - rewrite Z.eqb_refl. reflexivity.
  - destruct (icc_seq x =? icc_seq m) eqn:E; [|auto].
    apply Z.eqb_eq in E. exfalso. apply Hn. rewrite E. apply in_map. assumption.
Qed.

(* completeness of the first pass on a consistent list *)
Lemma pass1_complete n l : 1 <= n ->
  Forall (fun m => marker_is_icc m = true /\ icc_count m = n /\ 1 <= icc_seq m <= n) l ->
  NoDup (map icc_seq l) ->
  forall num0 tbl0, (num0 = 0 \/ num0 = n) -> (forall m, In m l -> tbl0 (icc_seq m) = None) ->
  exists tbl', pass1 l num0 tbl0 = Some ((match l with [] => num0 | _ => n end), tbl') /\
               forall k, tbl' k = match lookup l k with Some v => Some v | None => tbl0 k end.
Proof.
  intros Hn. induction l as [|m r IH]; intros HF ND num0 tbl0 Hnum Hfree.
  - exists tbl0. split; reflexivity.
  - pose proof (Forall_inv HF) as (Hi & Hc & Hs). pose proof (Forall_inv_tail HF) as HF'.
    cbn in ND. apply NoDup_cons_iff in ND as (Hnin & ND').
    cbn [pass1]. unfold pass1_step. rewrite Hi, Hc.
    assert (E1 : negb (num0 =? 0) && negb (num0 =? n) = false).
    { destruct Hnum as [->| ->]; [reflexivity|]. rewrite Z.eqb_refl. apply andb_false_r. }
    rewrite E1.
    assert (E2 : (if num0 =? 0 then n else num0) = n).
    { destruct Hnum as [->| ->]; [reflexivity|]. destruct (n =? 0); reflexivity. }
    rewrite E2.
    assert (E3 : (icc_seq m <=? 0) || (n <? icc_seq m) = false).
    { apply orb_false_iff. split; [apply Z.leb_gt | apply Z.ltb_ge]; lia. }
    rewrite E3. rewrite (Hfree m (or_introl eq_refl)).
    destruct (IH HF' ND' n (tbl_set tbl0 (icc_seq m) (icc_plen m))) as (tbl' & P1 & P2).
    + right; reflexivity.
    + intros x Hx. unfold tbl_set. destruct (icc_seq x =? icc_seq m) eqn:E.
      * apply Z.eqb_eq in E. exfalso. apply Hnin. rewrite <- E. apply in_map. assumption.
      * apply Hfree. right. assumption.
    + exists tbl'. split.
      * rewrite P1. destruct r; reflexivity.
      * intros k. rewrite P2, lookup_cons. unfold tbl_set. rewrite (Z.eqb_sym k).
        destruct (icc_seq m =? k) eqn:E; [|reflexivity].
        apply Z.eqb_eq in E. subst k. rewrite lookup_none by assumption. reflexivity.
Qed.

(* soundness: what a successful first pass implies about the ICC markers it saw *)
Lemma pass1_sound l : Forall (fun m => marker_is_icc m = true) l ->
  forall num0 tbl0 n tbl', pass1 l num0 tbl0 = Some (n, tbl') ->
  (num0 <> 0 -> n = num0) /\ (l <> [] -> n <> 0) /\
  Forall (fun m => icc_count m = n /\ 1 <= icc_seq m <= n /\ tbl0 (icc_seq m) = None) l /\
  NoDup (map icc_seq l) /\
  forall k, tbl' k = match lookup l k with Some v => Some v | None => tbl0 k end.
Proof.
  induction l as [|m r IH]; intros HF num0 tbl0 n tbl' H.
  - cbn in H. inversion H; subst. repeat split; auto; try constructor; try (intros C; congruence).
  - pose proof (Forall_inv HF) as Hi. pose proof (Forall_inv_tail HF) as HF'. cbn beta in Hi. cbn [pass1] in H. unfold pass1_step in H. rewrite Hi in H.
    destruct (negb (num0 =? 0) && negb (num0 =? icc_count m)) eqn:E1; [discriminate|].
    set (num' := if num0 =? 0 then icc_count m else num0) in *.
    destruct ((icc_seq m <=? 0) || (num' <? icc_seq m)) eqn:E2; [discriminate|].
    destruct (tbl0 (icc_seq m)) eqn:E3; [discriminate|].
    apply orb_false_iff in E2 as [E2a E2b]. apply Z.leb_gt in E2a. apply Z.ltb_ge in E2b.
    assert (Hnum' : num' <> 0) by lia.
    destruct (IH HF' _ _ _ _ H) as (A & _ & C & D & F).
    specialize (A Hnum'). subst n.
    assert (Hcnt : icc_count m = num').
    { unfold num'. destruct (num0 =? 0) eqn:Z0; [reflexivity|].
      cbn in E1. destruct (num0 =? icc_count m) eqn:Z1; [apply Z.eqb_eq in Z1; congruence | discriminate]. }
    repeat split.
    + intros Hne. unfold num'. destruct (num0 =? 0) eqn:Z0; [apply Z.eqb_eq in Z0; contradiction | reflexivity].
    + intros _. assumption.
    + constructor; [repeat split; try assumption; lia|].
      eapply Forall_impl; [|exact C]. intros a (P & Q & R). split; [assumption|]. split; [assumption|].
      unfold tbl_set in R. destruct (icc_seq a =? icc_seq m); [discriminate | assumption].
    + cbn. constructor; [|assumption]. intros Hin. apply in_map_iff in Hin as (x & Hx & Hxin).
      rewrite Forall_forall in C. destruct (C x Hxin) as (_ & _ & R). unfold tbl_set in R.
      rewrite Hx, Z.eqb_refl in R. discriminate.
    + intros k. rewrite F, lookup_cons. unfold tbl_set. rewrite (Z.eqb_sym k).
      destruct (icc_seq m =? k) eqn:E; [|reflexivity]. apply Z.eqb_eq in E. subst k.
      destruct (lookup r (icc_seq m)) eqn:L; [|reflexivity]. exfalso.
      unfold lookup in L. destruct (find (fun m0 => icc_seq m0 =? icc_seq m) r) eqn:Fd; [|discriminate].
      apply find_some in Fd as (Fin & Feq). apply Z.eqb_eq in Feq.
      rewrite Forall_forall in C. destruct (C _ Fin) as (_ & _ & R). unfold tbl_set in R.
      rewrite Feq, Z.eqb_refl in R. discriminate.
Qed.

(* offsets: the loop over seq_no = 1..num *)
Fixpoint offs_of (l : list saved) (total : Z) (offs : Z -> Z) : Z -> Z :=
  match l with
  | [] => offs
  | m :: r => offs_of r (total + icc_plen m) (fun j => if j =? icc_seq m then total else offs j)
  end.
Fixpoint sum_plen (l : list saved) : Z := match l with [] => 0 | m :: r => icc_plen m + sum_plen r end.

Lemma offsets_ok tbl l : (forall m, In m l -> tbl (icc_seq m) = Some (icc_plen m)) ->
  forall total offs, icc_offsets (map icc_seq l) tbl total offs = Some (total + sum_plen l, offs_of l total offs).
Proof.
  induction l as [|m r IH]; intros H total offs; cbn [map icc_offsets sum_plen offs_of].
  - f_equal. f_equal. lia.
  - rewrite (H m (or_introl eq_refl)). rewrite IH by (intros; apply H; right; assumption).
    f_equal. f_equal. lia.
Qed.
Lemma offs_of_other l total offs s : ~ In s (map icc_seq l) -> offs_of l total offs s = offs s.
Proof.
  revert total offs; induction l as [|m r IH]; intros total offs H; [reflexivity|].
  cbn [offs_of]. cbn in H. rewrite IH by tauto. destruct (s =? icc_seq m) eqn:E; [|reflexivity].
  apply Z.eqb_eq in E. exfalso. apply H. left. congruence.
Qed.
Lemma offs_of_split a m b total offs : NoDup (map icc_seq (a ++ m :: b)) ->
  offs_of (a ++ m :: b) total offs (icc_seq m) = total + sum_plen a.
Proof.
  revert total offs; induction a as [|x a IH]; intros total offs ND.
  - cbn [app offs_of sum_plen]. cbn in ND. inversion ND; subst. rewrite offs_of_other by assumption.
    rewrite Z.eqb_refl. lia.
  - cbn [app offs_of sum_plen]. cbn in ND. inversion ND; subst. rewrite IH by assumption. lia.
Qed.
Lemma icc_offsets_missing tbl ks : forall total offs r, icc_offsets ks tbl total offs = Some r ->
  forall k, In k ks -> tbl k <> None.
Proof.
  induction ks as [|k0 ks IH]; intros total offs r H k Hin; [contradiction|].
  cbn [icc_offsets] in H. destruct (tbl k0) eqn:E; [|discriminate].
  destruct Hin as [->|Hin]; [congruence | eapply IH; eassumption].
Qed.

(* the buffer as a concatenation of one slot per marker of the sorted list G *)
Lemma splice_slot A s d B : length d = length s ->
  splice (Z.of_nat (length A)) d (A ++ s ++ B) = A ++ d ++ B.
Proof.
  intros L. unfold splice. rewrite Nat2Z.id, firstn_app_exact, L, skipn_app_plus, skipn_app_exact. reflexivity.
Qed.

Definition g_step (g : saved -> list Z) (m : saved) : saved -> list Z :=
  fun x => if icc_seq x =? icc_seq m then icc_payload m else g x.
Definition g_after (todo : list saved) (g : saved -> list Z) : saved -> list Z := fold_left g_step todo g.

Lemma sum_plen_concat (g : saved -> list Z) a :
  (forall x, In x a -> marker_is_icc x = true /\ length (g x) = length (icc_payload x)) ->
  sum_plen a = Z.of_nat (length (concat (map g a))).
Proof.
  induction a as [|x a IH]; intros H; [reflexivity|].
  cbn [sum_plen map concat]. rewrite app_length, Nat2Z.inj_add, <- IH by (intros; apply H; right; assumption).
  destruct (H x (or_introl eq_refl)) as (Hi & Hl). rewrite plen_payload, Hl by assumption. reflexivity.
Qed.

Section Pass2.
  Variable G : list saved.
  Variable tbl : icc_tbl.
  Variable offs0 : Z -> Z.
  Hypothesis G_icc : forall m, In m G -> marker_is_icc m = true.
  Hypothesis G_nodup : NoDup (map icc_seq G).
  Hypothesis tbl_ok : forall m, In m G -> tbl (icc_seq m) = Some (icc_plen m).
  Let offs := offs_of G 0 offs0.

  Lemma pass2_step_slots g m :
    In m G -> (forall x, In x G -> length (g x) = length (icc_payload x)) ->
    splice (offs (icc_seq m)) (firstn (Z.to_nat (icc_plen m)) (icc_payload m)) (concat (map g G))
    = concat (map (g_step g m) G) /\
    (forall x, In x G -> length (g_step g m x) = length (icc_payload x)).
  Proof.
    intros Hin Hlen.
    assert (Hlen' : forall x, In x G -> length (g_step g m x) = length (icc_payload x)).
    { intros x Hx. unfold g_step. destruct (icc_seq x =? icc_seq m) eqn:E; [|auto].
      apply Z.eqb_eq in E. rewrite (NoDup_map_inj icc_seq G x m G_nodup Hx Hin E). reflexivity. }
    split; [|exact Hlen'].
    destruct (in_split _ _ Hin) as (a & b & EG).
    assert (ND : NoDup (map icc_seq (a ++ m :: b))) by (rewrite <- EG; exact G_nodup).
    unfold offs. rewrite EG at 1. rewrite offs_of_split by assumption.
    rewrite (sum_plen_concat g a).
    2:{ intros x Hx. split; [apply G_icc | apply Hlen]; rewrite EG; apply in_or_app; left; assumption. }
    rewrite plen_payload by (apply G_icc; assumption). rewrite Nat2Z.id, firstn_exact.
    rewrite EG. rewrite !map_app, !concat_app. cbn [map concat]. rewrite Z.add_0_l.
    rewrite splice_slot by (symmetry; apply Hlen; assumption).
    assert (Ha : map (g_step g m) a = map g a).
    { apply map_ext_in. intros x Hx. unfold g_step. destruct (icc_seq x =? icc_seq m) eqn:E; [|reflexivity].
      apply Z.eqb_eq in E. exfalso. rewrite map_app in ND. cbn [map] in ND.
      apply NoDup_remove_2 in ND. apply ND. apply in_or_app. left. rewrite <- E. apply in_map. assumption. }
    assert (Hb : map (g_step g m) b = map g b).
    { apply map_ext_in. intros x Hx. unfold g_step. destruct (icc_seq x =? icc_seq m) eqn:E; [|reflexivity].
      apply Z.eqb_eq in E. exfalso. rewrite map_app in ND. cbn [map] in ND.
      apply NoDup_remove_2 in ND. apply ND. apply in_or_app. right. rewrite <- E. apply in_map. assumption. }
    rewrite Ha, Hb. unfold g_step at 1. rewrite Z.eqb_refl. reflexivity.
  Qed.

  Lemma pass2_slots todo : (forall m, In m todo -> In m G) ->
    forall g, (forall x, In x G -> length (g x) = length (icc_payload x)) ->
    pass2 todo tbl offs (concat (map g G)) = concat (map (g_after todo g) G).
  Proof.
    induction todo as [|m r IH]; intros Hsub g Hlen; [reflexivity|].
    cbn [pass2]. rewrite (G_icc m) by (apply Hsub; left; reflexivity).
    rewrite (tbl_ok m) by (apply Hsub; left; reflexivity).
    destruct (pass2_step_slots g m (Hsub m (or_introl eq_refl)) Hlen) as (E & Hlen').
    rewrite E. unfold g_after. cbn [fold_left]. apply IH; [|assumption].
    intros x Hx. apply Hsub. right. assumption.
  Qed.

  Lemma g_after_done todo : (forall m, In m todo -> In m G) -> forall g x, In x G ->
    g_after todo g x = if existsb (fun m => icc_seq m =? icc_seq x) todo then icc_payload x else g x.
  Proof.
    induction todo as [|m r IH]; intros Hsub g x Hx; [reflexivity|].
    unfold g_after in *. cbn [fold_left existsb].
    rewrite IH by (try assumption; intros; apply Hsub; right; assumption).
    destruct (existsb (fun m0 => icc_seq m0 =? icc_seq x) r) eqn:E.
    - rewrite orb_true_r. reflexivity.
    - rewrite orb_false_r. unfold g_step. rewrite (Z.eqb_sym (icc_seq m)).
      destruct (icc_seq x =? icc_seq m) eqn:E2; [|reflexivity].
      apply Z.eqb_eq in E2. rewrite (NoDup_map_inj icc_seq G x m G_nodup Hx (Hsub m (or_introl eq_refl)) E2). reflexivity.
  Qed.

  (* every marker of G is met at least once: the buffer ends up as the concatenation of the
     payloads in sequence order, whatever it contained before *)
  Lemma pass2_closed todo g : (forall m, In m todo -> In m G) -> (forall m, In m G -> In m todo) ->
    (forall x, In x G -> length (g x) = length (icc_payload x)) ->
    pass2 todo tbl offs (concat (map g G)) = concat (map icc_payload G).
  Proof.
    intros H1 H2 Hlen. rewrite pass2_slots by assumption. f_equal. apply map_ext_in. intros x Hx.
    rewrite g_after_done by assumption.
    destruct (existsb (fun m => icc_seq m =? icc_seq x) todo) eqn:E; [reflexivity|].
    exfalso. assert (T : existsb (fun m => icc_seq m =? icc_seq x) todo = true).
    { apply existsb_exists. exists x. split; [apply H2; assumption | apply Z.eqb_refl]. }
    congruence.
  Qed.
End Pass2.

Lemma concat_repeat_slots (junk : Z) (G : list saved) :
  (forall m, In m G -> marker_is_icc m = true) ->
  repeat junk (Z.to_nat (sum_plen G)) = concat (map (fun x => repeat junk (length (icc_payload x))) G).
Proof.
  induction G as [|m r IH]; intros H; [reflexivity|].
  cbn [sum_plen map concat]. rewrite plen_payload by (apply H; left; reflexivity).
  assert (0 <= sum_plen r).
  { clear IH. induction r as [|y r IHr]; cbn [sum_plen]; [lia|].
    pose proof (plen_nonneg y (H y (or_intror (or_introl eq_refl)))).
    assert (0 <= sum_plen r) by (apply IHr; intros z Hz; apply H; destruct Hz as [->|Hz]; [left; reflexivity | right; right; assumption]).
    lia. }
  rewrite Z2Nat.inj_add, Nat2Z.id by lia. rewrite repeat_app. f_equal. apply IH. intros; apply H; right; assumption.
Qed.

Lemma sum_plen_payload G : (forall m, In m G -> marker_is_icc m = true) ->
  sum_plen G = Z.of_nat (length (concat (map icc_payload G))).
Proof. intros H. apply sum_plen_concat. intros x Hx. split; [apply H; assumption | reflexivity]. Qed.

(* ------------------------------------------------------------- closed form *)
Theorem read_icc_closed junk ms srt n :
  Permutation (filter marker_is_icc ms) srt -> well_numbered n srt ->
  concat (map icc_payload srt) <> [] ->
  read_icc_with junk ms = IccOk (concat (map icc_payload srt)).
Proof.
  intros HP (Hnum & Hlen) Hne.
  set (icc := filter marker_is_icc ms) in *.
  assert (Hn1 : 1 <= n).
  { destruct srt; [cbn in Hne; congruence | cbn [length] in Hlen; lia]. }
  pose proof (numbered_seqs _ _ _ Hnum) as Hseqs.
  pose proof (numbered_Forall _ _ _ Hnum) as HF.
  assert (ND_srt : NoDup (map icc_seq srt)) by (rewrite Hseqs; apply zrange_NoDup).
  assert (ND_icc : NoDup (map icc_seq icc)).
  { eapply Permutation_NoDup; [|exact ND_srt]. apply Permutation_map. apply Permutation_sym. exact HP. }
  assert (HF_icc : Forall (fun m => marker_is_icc m = true /\ icc_count m = n /\ 1 <= icc_seq m <= n) icc).
  { eapply Permutation_Forall; [apply Permutation_sym; exact HP|].
    eapply Forall_impl; [|exact HF]. intros a (A & B & C). repeat split; try assumption; lia. }
  unfold read_icc_with. rewrite pass1_filter. fold icc.
  destruct (pass1_complete n icc Hn1 HF_icc ND_icc 0 (fun _ => None)) as (tbl & P1 & P2); [left; reflexivity | reflexivity |].
  rewrite P1.
  assert (Hicc_ne : icc <> []).
  { intros E. rewrite E in HP. apply Permutation_nil in HP. subst srt. cbn in Hne. congruence. }
  destruct icc as [|i0 icc'] eqn:Eicc; [congruence|]. rewrite <- Eicc in *. clear Hicc_ne.
  replace (n =? 0) with false by (symmetry; apply Z.eqb_neq; lia).
  assert (Htbl : forall m, In m srt -> tbl (icc_seq m) = Some (icc_plen m)).
  { intros m Hm. rewrite P2. rewrite lookup_in; [reflexivity | assumption |].
    eapply Permutation_in; [apply Permutation_sym; exact HP | assumption]. }
  assert (Hr : zrange 1 (Z.to_nat n) = map icc_seq srt).
  { rewrite Hseqs. f_equal. lia. }
  rewrite Hr, (offsets_ok tbl srt Htbl).
  assert (Hicc_srt : forall m, In m srt -> marker_is_icc m = true).
  { intros m Hm. rewrite Forall_forall in HF. apply (HF m Hm). }
  rewrite Z.add_0_l, (sum_plen_payload srt Hicc_srt).
  destruct (concat (map icc_payload srt)) as [|c0 cs] eqn:EC; [congruence|].
  replace (Z.of_nat (length (c0 :: cs)) =? 0) with false by (symmetry; apply Z.eqb_neq; cbn [length]; lia).
  rewrite <- EC. f_equal.
  rewrite pass2_filter. fold icc.
  replace (Z.of_nat (length (concat (map icc_payload srt)))) with (sum_plen srt) by (apply sum_plen_payload; assumption).
  rewrite concat_repeat_slots by assumption.
  apply pass2_closed; try assumption.
  - intros m Hm. eapply Permutation_in; [exact HP | assumption].
  - intros m Hm. eapply Permutation_in; [apply Permutation_sym; exact HP | assumption].
  - intros x Hx. apply repeat_length.
Qed.
