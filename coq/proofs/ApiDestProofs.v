(* C12 -- the TurboJPEG destination manager (jdatadst-tj.c) as modelled by dstep in
   model/ApiState.v never frees a buffer twice, for ALL sequences of compression calls,
   provided it forgets dest->newbuffer unless the caller passes the same buffer back
   (the F2 fix; the flag is read from the source by the translator). *)
From Coq Require Import List ZArith Bool Lia.
From LJT Require Import model.ApiState.
Import ListNotations.
Local Open Scope Z_scope.

Inductive argk := ANull | AFresh | AReuse.
Definition arg_act (k : argk) : dact := match k with ANull => DArgNull | AFresh => DArgFresh | AReuse => DArgReuse end.

(* one compression / transform call as the destination manager sees it: the caller prepares
   its buffer; jpeg_mem_dest_tj may be reached; the buffer grows cc_grows times; the
   destination is terminated (jpeg_finish_compress, or the bailout block when
   global_state > CSTATE_START && alloc) *)
Record ccall := mkcc { cc_arg : argk; cc_reach : bool; cc_alloc : bool; cc_grows : nat; cc_term : bool }.
(* data is only written after jpeg_start_compress, so whenever the buffer has grown the
   bailout block (or jpeg_finish_compress) terminates the destination *)
Definition wf_call (c : ccall) : Prop := (0 < cc_grows c)%nat -> cc_term c = true.

Definition call_steps (forget : bool) (c : ccall) (d : dest) : dest :=
  let d1 := dstep (arg_act (cc_arg c)) false d in
  if cc_reach c then
    let d2 := dstep (DMemDest forget) (cc_alloc c) d1 in
    let d3 := Nat.iter (cc_grows c) (dstep DGrow (cc_alloc c)) d2 in
    if cc_term c then dstep DTerm (cc_alloc c) d3 else d3
  else d1.

Definition run_calls (forget : bool) (cs : list ccall) (d : dest) : dest :=
  fold_left (fun d c => call_steps forget c d) cs d.

(* ------------------------------------------------------------ invariants *)
Definition bnd (d : dest) : Prop :=
  (forall x, zmem x (live d) = true -> x < next_buf d) /\
  (forall x, d_newbuffer d = Some x -> x < next_buf d) /\
  (forall x, d_buffer d = Some x -> x < next_buf d) /\
  (forall x, caller_buf d = Some x -> x < next_buf d).
Definition caller_live (d : dest) : Prop := forall c, caller_buf d = Some c -> zmem c (live d) = true.
Definition Kinv (d : dest) : Prop := d_newbuffer d = None \/ d_newbuffer d = d_buffer d.
Definition Ninv (d : dest) : Prop := forall b, d_newbuffer d = Some b -> zmem b (live d) = true.
Definition Ainv (d : dest) : Prop := d_alloc d = true -> exists b, d_buffer d = Some b /\ zmem b (live d) = true.

Definition J (d : dest) : Prop := d_doublefree d = false /\ bnd d /\ caller_live d /\ Kinv d.
Definition G (d : dest) : Prop :=
  d_doublefree d = false /\ bnd d /\ Kinv d /\ Ninv d /\ Ainv d /\ (d_alloc d = false -> caller_live d).

Lemma zmem_zremove_other x y l : x <> y -> zmem x (zremove y l) = zmem x l.
Proof.
  intro H. induction l as [|z t IH]; cbn; [reflexivity|].
  destruct (Z.eqb z y) eqn:E.
  - apply Z.eqb_eq in E. subst. destruct (Z.eqb y x) eqn:E2; [apply Z.eqb_eq in E2; congruence | reflexivity].
  - cbn. rewrite IH. reflexivity.
Qed.
Lemma zmem_zremove_sub x y l : zmem x (zremove y l) = true -> zmem x l = true.
Proof.
  induction l as [|z t IH]; cbn; [auto|].
  destruct (Z.eqb z y) eqn:E.
  - intro H. rewrite H. apply orb_true_r.
  - cbn. intro H. apply orb_true_iff in H. destruct H as [H|H]; [rewrite H; reflexivity | rewrite (IH H); apply orb_true_r].
Qed.

(* freeing a live buffer *)
Lemma heap_free_live d x :
  zmem x (live d) = true ->
  heap_free d (Some x) = mkdest (d_newbuffer d) (d_buffer d) (d_alloc d) (zremove x (live d)) (next_buf d) (caller_buf d) (d_doublefree d).
Proof. intro H. unfold heap_free. rewrite H. reflexivity. Qed.

Lemma J_init : J dest0.
Proof.
  unfold J, bnd, caller_live, Kinv. cbn. repeat split; try discriminate; auto.
Qed.

(* ------------------------------------------------------------ the caller's step *)
Lemma arg_step k d :
  J d ->
  let d' := dstep (arg_act k) false d in
  J d' /\ d_newbuffer d' = d_newbuffer d /\ d_buffer d' = d_buffer d /\
  (k = AFresh -> forall c, caller_buf d' = Some c -> d_buffer d' <> Some c).
Proof.
  intros (Hdf & (B1 & B2 & B3 & B4) & Hcl & HK). destruct k; cbn [arg_act dstep].
  - (* ANull *)
    destruct (caller_buf d) as [c|] eqn:Ec.
    + rewrite (heap_free_live d c (Hcl c Ec)). unfold set_caller. cbn.
      repeat split; auto; try discriminate;
        try (intros x Hx; apply B1; eapply zmem_zremove_sub; exact Hx).
    + cbn. unfold set_caller. cbn. repeat split; auto; try discriminate.
  - (* AFresh *)
    unfold heap_alloc. cbn [fst snd].
    set (b := next_buf d).
    set (d1 := mkdest (d_newbuffer d) (d_buffer d) (d_alloc d) (b :: live d) (b + 1) (caller_buf d) (d_doublefree d)).
    assert (Hfree : exists l', heap_free d1 (caller_buf d) =
                               mkdest (d_newbuffer d) (d_buffer d) (d_alloc d) l' (b + 1) (caller_buf d) (d_doublefree d) /\
                               zmem b l' = true /\ (forall x, zmem x l' = true -> x < b + 1)).
    { destruct (caller_buf d) as [c|] eqn:Ec.
      - assert (Hc : zmem c (live d1) = true) by (cbn; rewrite (Hcl c Ec); apply orb_true_r).
        rewrite (heap_free_live d1 c Hc). unfold d1. cbn [d_newbuffer d_buffer d_alloc live next_buf caller_buf d_doublefree].
        try rewrite Ec. eexists. split; [reflexivity|]. split.
        + assert (b <> c) by (specialize (B4 c eq_refl); unfold b; lia).
          rewrite zmem_zremove_other by assumption. cbn [zmem]. rewrite Z.eqb_refl. reflexivity.
        + intros x Hx. apply zmem_zremove_sub in Hx. cbn [zmem] in Hx. apply orb_true_iff in Hx.
          destruct Hx as [Hx|Hx]; [apply Z.eqb_eq in Hx; lia | specialize (B1 x Hx); unfold b; lia].
      - cbn. eexists. split; [reflexivity|]. split; [cbn; rewrite Z.eqb_refl; reflexivity|].
        intros x Hx. cbn in Hx. apply orb_true_iff in Hx.
        destruct Hx as [Hx|Hx]; [apply Z.eqb_eq in Hx; lia | specialize (B1 x Hx); unfold b; lia]. }
    destruct Hfree as (l' & Hf & Hb & Hbound). fold b. fold d1. rewrite Hf. unfold set_caller. cbn.
    repeat split; cbn; auto.
    + intros x Hx. specialize (B2 x Hx). unfold b. lia.
    + intros x Hx. specialize (B3 x Hx). unfold b. lia.
    + intros x Hx. inversion Hx. lia.
    + unfold caller_live. cbn. intros c Hc. inversion Hc. subst. exact Hb.
    + intros _ c Hc Hbuf. inversion Hc. subst. specialize (B3 _ Hbuf). unfold b in B3. lia.
  - (* AReuse *)
    cbn. repeat split; auto. intro H. discriminate.
Qed.

(* ------------------------------------------------------------ jpeg_mem_dest_tj with the fix *)
Lemma memdest_step d al :
  J d -> (forall c, caller_buf d = Some c -> d_buffer d = Some c -> zmem c (live d) = true) ->
  let d' := dstep (DMemDest true) al d in
  G d' /\ caller_live d' /\ d_alloc d' = al.
Proof.
  intros (Hdf & (B1 & B2 & B3 & B4) & Hcl & HK) _. cbn [dstep].
  destruct (caller_buf d) as [c|] eqn:Ec.
  - (* the caller supplies a buffer *)
    cbn [andb]. set (reused := optz_eqb (d_buffer d) (Some c) && true && al).
    unfold set_dest. cbn.
    assert (HN : forall b, (if reused then d_newbuffer d else None) = Some b -> b = c).
    { intros b Hb. destruct reused eqn:Er; [|discriminate].
      unfold reused in Er. apply andb_true_iff in Er. destruct Er as [Er _]. apply andb_true_iff in Er. destruct Er as [Er _].
      destruct (d_buffer d) as [x|] eqn:Eb; cbn in Er; [|discriminate]. apply Z.eqb_eq in Er. subst x.
      destruct HK as [HK|HK]; congruence. }
    split; [|split; [|reflexivity]].
    + unfold G, bnd, Kinv, Ninv, Ainv, caller_live. cbn. rewrite Ec. repeat split; auto.
      * intros x Hx. specialize (HN x Hx). subst. apply B4. reflexivity.
      * destruct reused; [|left; reflexivity].
        destruct (d_newbuffer d) as [b|] eqn:En; [|left; reflexivity].
        right. rewrite (HN b eq_refl). reflexivity.
      * intros b Hb. rewrite (HN b Hb). apply Hcl. exact Ec.
      * intros _. exists c. split; [reflexivity | apply Hcl; exact Ec].
      * intros _ c0 Hc0. inversion Hc0. subst. apply Hcl. exact Ec.
    + unfold caller_live. cbn. try rewrite Ec. intros c0 Hc0. inversion Hc0. subst. apply Hcl. exact Ec.
  - (* *jpegBuf == NULL *)
    cbn [andb]. destruct al.
    + unfold heap_alloc, set_dest, set_caller. cbn.
      split; [|split; [|reflexivity]].
      * unfold G, bnd, Kinv, Ninv, Ainv, caller_live. cbn. repeat split; auto.
        -- intros x Hx. apply orb_true_iff in Hx. destruct Hx as [Hx|Hx]; [apply Z.eqb_eq in Hx; lia | specialize (B1 x Hx); lia].
        -- intros x Hx. inversion Hx. lia.
        -- intros x Hx. inversion Hx. lia.
        -- intros x Hx. inversion Hx. lia.
        -- intros b Hb. inversion Hb. rewrite Z.eqb_refl. reflexivity.
        -- intros _. eexists. split; [reflexivity|]. rewrite Z.eqb_refl. reflexivity.
        -- intro H. discriminate.
      * unfold caller_live. cbn. intros c Hc. inversion Hc. rewrite Z.eqb_refl. reflexivity.
    + rewrite andb_false_r. unfold set_dest. cbn.
      split; [|split; [|reflexivity]].
      * unfold G, bnd, Kinv, Ninv, Ainv, caller_live. cbn. rewrite Ec. repeat split; auto; try discriminate.
      * unfold caller_live. cbn. rewrite Ec. discriminate.
Qed.

(* ------------------------------------------------------------ empty_mem_output_buffer *)
Lemma grow_step d al : G d -> d_alloc d = al -> G (dstep DGrow al d) /\ d_alloc (dstep DGrow al d) = al.
Proof.
  intros (Hdf & (B1 & B2 & B3 & B4) & HK & HN & HA & HC) Hal. cbn [dstep].
  destruct (d_alloc d) eqn:Ea; [|subst al; split; [repeat split; auto; congruence | assumption]].
  unfold heap_alloc. cbn [fst snd].
  set (b := next_buf d).
  set (d1 := mkdest (d_newbuffer d) (d_buffer d) (d_alloc d) (b :: live d) (b + 1) (caller_buf d) (d_doublefree d)).
  assert (Hfree : exists l', heap_free d1 (d_newbuffer d) =
                             mkdest (d_newbuffer d) (d_buffer d) (d_alloc d) l' (b + 1) (caller_buf d) (d_doublefree d) /\
                             zmem b l' = true /\ (forall x, zmem x l' = true -> x < b + 1)).
  { destruct (d_newbuffer d) as [x|] eqn:En.
    - assert (Hx : zmem x (live d1) = true) by (cbn; rewrite (HN x En); apply orb_true_r).
      rewrite (heap_free_live d1 x Hx). unfold d1. cbn [d_newbuffer d_buffer d_alloc live next_buf caller_buf d_doublefree].
      try rewrite En. eexists. split; [reflexivity|]. split.
      + assert (b <> x) by (specialize (B2 x eq_refl); unfold b; lia).
        rewrite zmem_zremove_other by assumption. cbn [zmem]. rewrite Z.eqb_refl. reflexivity.
      + intros y Hy. apply zmem_zremove_sub in Hy. cbn [zmem] in Hy. apply orb_true_iff in Hy.
        destruct Hy as [Hy|Hy]; [apply Z.eqb_eq in Hy; lia | specialize (B1 y Hy); unfold b; lia].
    - cbn. eexists. split; [reflexivity|]. split; [cbn; rewrite Z.eqb_refl; reflexivity|].
      intros y Hy. cbn in Hy. apply orb_true_iff in Hy.
      destruct Hy as [Hy|Hy]; [apply Z.eqb_eq in Hy; lia | specialize (B1 y Hy); unfold b; lia]. }
  destruct Hfree as (l' & Hf & Hb & Hbound). fold b. fold d1. rewrite Hf. unfold set_dest. cbn.
  split; [|first [exact Hal | symmetry; exact Hal]].
  unfold G, bnd, Kinv, Ninv, Ainv, caller_live. cbn. repeat split; cbn; auto.
  - intros x Hx. inversion Hx. lia.
  - intros x Hx. inversion Hx. lia.
  - intros x Hx. specialize (B4 x Hx). unfold b. lia.
  - intros x Hx. inversion Hx. subst. exact Hb.
  - intros _. exists b. split; [reflexivity | exact Hb].
  - intro H. discriminate.
Qed.

Lemma grows_step n : forall d al, G d -> d_alloc d = al ->
  G (Nat.iter n (dstep DGrow al) d) /\ d_alloc (Nat.iter n (dstep DGrow al) d) = al.
Proof.
  induction n as [|n IH]; intros d al HG Hal; cbn [Nat.iter]; [auto|].
  destruct (IH d al HG Hal) as [H1 H2]. apply grow_step; assumption.
Qed.

(* ------------------------------------------------------------ term_mem_destination *)
Lemma term_step d al : G d -> d_alloc d = al -> J (dstep DTerm al d).
Proof.
  intros (Hdf & (B1 & B2 & B3 & B4) & HK & HN & HA & HC) Hal. cbn [dstep].
  destruct (d_alloc d) eqn:Ea.
  - destruct (HA Ea) as (b & Hb & Hlive). unfold set_caller. unfold J, bnd, caller_live, Kinv. cbn.
    repeat split; auto. intros c Hc. rewrite Hb in Hc. inversion Hc. subst. exact Hlive.
  - unfold J. repeat split; auto.
Qed.

Lemma G_to_J d : G d -> caller_live d -> J d.
Proof. intros (Hdf & HB & HK & HN & HA & HC) Hcl. unfold J. auto. Qed.

(* ------------------------------------------------------------ one call, all calls *)
Lemma call_step c d : wf_call c -> J d -> J (call_steps true c d).
Proof.
  intros Hwf HJ. unfold call_steps.
  destruct (arg_step (cc_arg c) d HJ) as (HJ1 & _ & _ & _).
  set (d1 := dstep (arg_act (cc_arg c)) false d) in *.
  destruct (cc_reach c); [|exact HJ1].
  assert (Hcl1 : forall x, caller_buf d1 = Some x -> d_buffer d1 = Some x -> zmem x (live d1) = true).
  { intros x Hx _. destruct HJ1 as (_ & _ & Hcl & _). apply Hcl. exact Hx. }
  destruct (memdest_step d1 (cc_alloc c) HJ1 Hcl1) as (HG2 & Hcl2 & Hal2).
  set (d2 := dstep (DMemDest true) (cc_alloc c) d1) in *.
  destruct (cc_grows c) as [|n] eqn:En.
  - cbn [Nat.iter]. destruct (cc_term c); [apply term_step; assumption | apply G_to_J; assumption].
  - assert (Ht : cc_term c = true) by (apply Hwf; rewrite En; apply Nat.lt_0_succ).
    rewrite Ht. destruct (grows_step (S n) d2 (cc_alloc c) HG2 Hal2) as [HG3 Hal3].
    apply term_step; assumption.
Qed.

Lemma run_calls_J cs : forall d, Forall wf_call cs -> J d -> J (run_calls true cs d).
Proof.
  induction cs as [|c t IH]; intros d Hall HJ; cbn; [exact HJ|].
  inversion Hall; subst. apply IH; [assumption|]. apply call_step; assumption.
Qed.

Theorem dest_never_frees_twice :
  forall cs, Forall wf_call cs -> d_doublefree (run_calls true cs dest0) = false.
Proof.
  intros cs H. destruct (run_calls_J cs dest0 H J_init) as [Hdf _]. exact Hdf.
Qed.

(* without the fix: NULL buffer that grows, then a fresh buffer that grows *)
Definition f2_calls : list ccall := [mkcc ANull true true 1 true; mkcc AFresh true true 1 true].
Lemma dest_refuted_without_fix :
  Forall wf_call f2_calls /\ d_doublefree (run_calls false f2_calls dest0) = true /\
  d_doublefree (run_calls true f2_calls dest0) = false.
Proof. split; [repeat constructor; intros _; reflexivity | vm_compute; auto]. Qed.
