(* Table D.3 of the specification model = the probability estimation table of src/jaricom.c
   (regenerated from the current source on every run); the extra 114th row of jaricom.c is the
   non-adapting Qe = X'5A1D' estimate used for the fixed-probability sign decision. *)
From Coq Require Import List ZArith Bool.
From LJT Require Import model.T81Arith gen.GenAricom.
Import ListNotations.
Local Open Scope Z_scope.

Lemma aricom_is_table_D3 :
  firstn 113 jaricom_table = qe_table /\ skipn 113 jaricom_table = [(23069, 113, 113, 0)].
Proof. split; vm_compute; reflexivity. Qed.
