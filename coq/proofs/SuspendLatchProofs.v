(* C09 -- with the private copy the tables of the final pass are those of each component's first scan,
   whatever the output-pass schedule and whatever later DQT segments redefine. *)
From Coq Require Import List ZArith Lia Arith Bool.
From LJT Require Import model.SuspendLatch.
Import ListNotations.

(* c: component in the run with output passes, c': in the run without *)
Definition rel (c c' : lcomp) : Prop :=
  cid c = cid c' /\ cq c = cq c' /\ cl c = cl c' /\ cm c' = None /\
  (forall s, cl c <> Ref s) /\ (cm c = None \/ exists t, cl c = Copy t /\ cm c = Some t).

Lemma latch_rel : forall sl cs c c', rel c c' -> rel (latch_comp true sl cs c) (latch_comp true sl cs c').
Proof.
  intros sl cs c c' H. assert (R0 := H). destruct H as (A & B & C & D & E & F).
  unfold latch_comp. rewrite <- A, <- B, <- C.
  destruct (existsb (Nat.eqb (cid c)) cs); [|exact R0].
  destruct (cl c) eqn:L; try exact R0.
  destruct (nth (cq c) sl None) as [t|]; [|exact R0].
  repeat split; simpl; auto; try discriminate.
  destruct F as [F|(t0 & F1 & F2)]; [now left|discriminate].
Qed.

Lemma build_rel : forall sl c c', rel c c' -> rel (build_comp sl c) c'.
Proof.
  intros sl c c' H. assert (R0 := H). destruct H as (A & B & C & D & E & F). unfold build_comp.
  destruct (cm c) eqn:M; [exact R0|].
  unfold rel. simpl. repeat split; auto.
  destruct (cl c) eqn:L; simpl; [now left | right; eauto | exfalso; exact (E slot eq_refl)].
Qed.

Lemma Forall2_map2 {A} (R : A -> A -> Prop) (f g : A -> A) : forall l l',
  (forall a b, R a b -> R (f a) (g b)) -> Forall2 R l l' -> Forall2 R (map f l) (map g l').
Proof. intros l l' H F. induction F; simpl; constructor; auto. Qed.

Lemma run_rel : forall ops s s', slots s = slots s' -> Forall2 rel (comps s) (comps s') ->
  slots (lrun true ops s) = slots (lrun true (lstrip ops) s') /\
  Forall2 rel (comps (lrun true ops s)) (comps (lrun true (lstrip ops) s')).
Proof.
  induction ops as [|o ops IH]; intros s s' Hs Hc; simpl; [auto|].
  destruct o; simpl.
  - apply IH; simpl; [now rewrite Hs | exact Hc].
  - apply IH; simpl; [exact Hs|]. rewrite Hs. apply Forall2_map2; [apply latch_rel | exact Hc].
  - apply IH; auto.
  - apply IH; simpl; [exact Hs|].
    rewrite <- (map_id (comps s')). apply Forall2_map2; [|exact Hc].
    intros a b H. now apply build_rel.
Qed.

Lemma final_eq : forall sl c c', rel c c' -> build_comp sl c = build_comp sl c'.
Proof.
  intros sl c c' (A & B & C & D & E & F). unfold build_comp. rewrite D.
  destruct c as [i q l m], c' as [i' q' l' m']. simpl in *. subst.
  destruct F as [->|(t & -> & ->)]; reflexivity.
Qed.

Lemma fresh_rel : forall s, lfresh s -> Forall2 rel (comps s) (comps s).
Proof.
  intros s F. unfold lfresh in F. induction F as [|c l [H1 H2] F IH]; constructor; auto.
  repeat split; auto. intros sl. rewrite H1. discriminate.
Qed.

(* the clause for quantization tables: the final pass uses the same multiplier tables under every
   interleaving of output passes with the input, namely those of the run without any early pass *)
Theorem latch_schedule_irrelevant : forall ops s, lfresh s ->
  final_tables true ops s = final_tables true (lstrip ops) s.
Proof.
  intros ops s F. unfold final_tables, lrun. rewrite !fold_left_app. simpl.
  destruct (run_rel ops s s eq_refl (fresh_rel s F)) as [Hs Hc].
  unfold lrun in *. rewrite Hs. f_equal.
  set (sl := slots (fold_left (lstep true) (lstrip ops) s)).
  induction Hc; simpl; [reflexivity|]. f_equal; [now apply final_eq | assumption].
Qed.

(* a latched table is never affected by what follows (later DQT of the same slot, scans, output passes) *)
Lemma latch_copy_stable : forall sl cs c t, cl c = Copy t -> cl (latch_comp true sl cs c) = Copy t.
Proof. intros. unfold latch_comp. destruct (existsb _ cs); [rewrite H|]; auto. Qed.

Theorem latched_table_immutable : forall ops s i t,
  (exists c, nth_error (comps s) i = Some c /\ cl c = Copy t) ->
  exists c, nth_error (comps (lrun true ops s)) i = Some c /\ cl c = Copy t.
Proof.
  induction ops as [|o ops IH]; intros s i t H; simpl; [exact H|].
  apply IH. destruct H as (c & N & L). destruct o; simpl; eauto.
  - exists (latch_comp true (slots s) cs c). split; [now rewrite nth_error_map, N | now apply latch_copy_stable].
  - exists (build_comp (slots s) c). split; [now rewrite nth_error_map, N|].
    unfold build_comp. destruct (cm c); auto.
Qed.

(* non-vacuity, and the pointer variant (the seeded change) refuted *)
Definition tA : list Z := [16; 11; 10]%Z.
Definition tB : list Z := [48; 48; 48]%Z.
Definition ex_ops : list lop :=
  [LDqt 0 tA; LScan [0]; LData; LStartOutput; LData; LDqt 0 tB; LScan [1]; LData; LScan [2]; LData].

Example ex_latch_copy : final_tables true ex_ops (linit [0; 0; 0]) = [Some tA; Some tB; Some tB].
Proof. vm_compute. reflexivity. Qed.

Example ex_latch_fresh : lfresh (linit [0; 0; 0]).
Proof. repeat constructor. Qed.

Example latch_by_reference_refuted :
  final_tables false ex_ops (linit [0; 0; 0]) <> final_tables false (lstrip ex_ops) (linit [0; 0; 0]).
Proof. vm_compute. discriminate. Qed.
