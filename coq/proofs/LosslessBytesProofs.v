(* Byte level of the lossless entropy coder (model/LosslessBytes.v):
   emit_bits refines a bit queue, 0xFF stuffing and padding are undone by the
   byte reader, restart markers are numbered as the reader expects them, and
   the whole scan round-trips from BYTES to the canonical differences. *)
From Coq Require Import List ZArith Lia Bool.
From LJT Require Import model.Huff model.Lossless model.LosslessBytes proofs.LosslessProofs proofs.LosslessBitsProofs.
Import ListNotations.
Local Open Scope Z_scope.

(* ------------------------------------------------------------- bit lists *)
Lemma bits_of_app : forall a b v,
  bits_of (a + b) v = bits_of a (Z.shiftr v (Z.of_nat b)) ++ bits_of b v.
Proof.
  induction a as [|a IH]; intros b v; [reflexivity|].
  cbn [Nat.add bits_of app]. rewrite IH. f_equal.
  rewrite Z.shiftr_shiftr by lia. f_equal. f_equal. lia.
Qed.

Lemma bits_of_low : forall n m v, (n <= m)%nat -> bits_of n (v mod 2 ^ Z.of_nat m) = bits_of n v.
Proof.
  induction n as [|n IH]; intros m v H; [reflexivity|]. cbn [bits_of]. rewrite IH by lia. f_equal.
  rewrite <- !Z.testbit_odd. apply Z.mod_pow2_bits_low. lia.
Qed.

Lemma bits_of_mod n v : bits_of n (v mod 2 ^ Z.of_nat n) = bits_of n v.
Proof. apply bits_of_low. lia. Qed.

(* value with n more bits appended *)
Lemma bits_of_join (n s : nat) v c : 0 <= c < 2 ^ Z.of_nat s ->
  bits_of (n + s) (v * 2 ^ Z.of_nat s + c) = bits_of n v ++ bits_of s c.
Proof.
  intros Hc. rewrite bits_of_app. f_equal.
  - f_equal. rewrite Z.shiftr_div_pow2 by lia.
    assert (0 < 2 ^ Z.of_nat s) by (apply Z.pow_pos_nonneg; lia).
    rewrite Z.div_add_l by lia. rewrite Z.div_small by lia. lia.
  - rewrite <- (bits_of_mod s (v * 2 ^ Z.of_nat s + c)). f_equal.
    rewrite Z.add_comm, Z.mod_add by lia. apply Z.mod_small. lia.
Qed.

Lemma bits_of_split (k : nat) V :
  bits_of (8 + k) V = bits_of 8 (V / 2 ^ Z.of_nat k) ++ bits_of k (V mod 2 ^ Z.of_nat k).
Proof. rewrite bits_of_app, bits_of_mod, Z.shiftr_div_pow2 by lia. reflexivity. Qed.

(* --------------------------------------------------------------- emit_bits *)
Lemma land_disjoint a b k : 0 <= k -> 0 <= b < 2 ^ k -> a mod 2 ^ k = 0 -> Z.land a b = 0.
Proof.
  intros Hk Hb Ha. apply Z.bits_inj'. intros i Hi. rewrite Z.land_spec, Z.bits_0.
  destruct (Z_lt_ge_dec i k) as [L|G].
  - replace (Z.testbit a i) with (Z.testbit (a mod 2 ^ k) i) by (apply Z.mod_pow2_bits_low; lia).
    rewrite Ha, Z.bits_0. reflexivity.
  - replace b with (b mod 2 ^ k) by (apply Z.mod_small; lia).
    rewrite Z.mod_pow2_bits_high by lia. apply andb_false_r.
Qed.

Lemma lor_add a b k : 0 <= k -> 0 <= b < 2 ^ k -> a mod 2 ^ k = 0 -> Z.lor b a = a + b.
Proof.
  intros Hk Hb Ha. pose proof (land_disjoint a b k Hk Hb Ha) as L.
  rewrite Z.lor_comm. rewrite <- Z.lxor_lor by exact L. symmetry. apply Z.add_nocarry_lxor. exact L.
Qed.

(* the abstraction: put_bits = n < 8 pending bits of value v, left-justified
   in bits 23.. of put_buffer; whatever lies above bit 23 is dead *)
Definition eb_inv (st : ebstate) (v : Z) (n : nat) : Prop :=
  snd st = Z.of_nat n /\ (n < 8)%nat /\ 0 <= v < 2 ^ Z.of_nat n /\
  exists q, 0 <= q /\ fst st = q * 2 ^ 24 + v * 2 ^ (24 - Z.of_nat n).

Lemma eb_inv_init : eb_inv (0, 0) 0 0.
Proof. repeat split; cbn; try lia. exists 0. cbn. lia. Qed.

Definition raw_ok (raw : list Z) : Prop := Forall (fun c => 0 <= c < 256) raw.

Lemma emit_loop_spec : forall fuel (N : nat) V q pb,
  (N < 8 * fuel)%nat -> (N <= 23)%nat -> 0 <= V < 2 ^ Z.of_nat N -> 0 <= q ->
  pb = q * 2 ^ 24 + V * 2 ^ (24 - Z.of_nat N) ->
  exists raw st' v' n',
    emit_loop fuel pb (Z.of_nat N) = (flat_map stuff1 raw, st') /\ raw_ok raw /\ eb_inv st' v' n' /\
    bits_of_bytes raw ++ bits_of n' v' = bits_of N V.
Proof.
  induction fuel as [|fuel IH]; intros N V q pb Hf HN HV Hq Hpb; [lia|].
  cbn [emit_loop]. destruct (8 <=? Z.of_nat N) eqn:E.
  - apply Z.leb_le in E. set (k := (N - 8)%nat). assert (HNk : N = (8 + k)%nat) by lia.
    set (P := 2 ^ Z.of_nat k). set (Q := 2 ^ (16 - Z.of_nat k)).
    assert (HP : 0 < P) by (apply Z.pow_pos_nonneg; lia).
    assert (HQ : 0 < Q) by (apply Z.pow_pos_nonneg; lia).
    assert (HPQ : P * Q = 65536).
    { unfold P, Q. rewrite <- Z.pow_add_r by lia. replace (Z.of_nat k + (16 - Z.of_nat k)) with 16 by lia. reflexivity. }
    set (hi := V / P). set (lo := V mod P).
    assert (HVd : V = hi * P + lo) by (unfold hi, lo; rewrite Z.mul_comm; apply Z.div_mod; lia).
    assert (Hlo : 0 <= lo < P) by (apply Z.mod_pos_bound; lia).
    assert (HNP : 2 ^ Z.of_nat N = 256 * P).
    { rewrite HNk. replace (Z.of_nat (8 + k)) with (8 + Z.of_nat k) by lia. rewrite Z.pow_add_r by lia. reflexivity. }
    assert (Hhi : 0 <= hi < 256).
    { unfold hi. split; [apply Z.div_pos; lia|]. apply Z.div_lt_upper_bound; lia. }
    assert (H24 : 2 ^ (24 - Z.of_nat N) = Q) by (unfold Q; f_equal; lia).
    assert (Hpb2 : pb = (q * 256 + hi) * 65536 + lo * Q).
    { rewrite Hpb, H24, HVd. change (2 ^ 24) with (256 * 65536). rewrite <- HPQ. ring. }
    assert (HloQ : 0 <= lo * Q < 65536) by nia.
    assert (Hc : Z.land (Z.shiftr pb 16) 255 = hi).
    { rewrite Z.shiftr_div_pow2 by lia. change 255 with (Z.ones 8). rewrite Z.land_ones by lia.
      change (2 ^ 16) with 65536. change (2 ^ 8) with 256.
      assert (D : pb / 65536 = q * 256 + hi).
      { symmetry. apply Z.div_unique with (r := lo * Q); lia. }
      rewrite D. rewrite Z.add_comm, Z.mod_add by lia. apply Z.mod_small. lia. }
    rewrite Hc.
    assert (Hnext : size_t_wrap (Z.shiftl pb 8) =
                    ((q * 256 + hi) mod 2 ^ 40) * 2 ^ 24 + lo * 2 ^ (24 - Z.of_nat k)).
    { rewrite Z.shiftl_mul_pow2 by lia. rewrite Hpb2. unfold size_t_wrap.
      assert (HQ8 : 2 ^ (24 - Z.of_nat k) = Q * 2 ^ 8).
      { unfold Q. rewrite <- Z.pow_add_r by lia. f_equal. lia. }
      rewrite HQ8. set (A := q * 256 + hi).
      pose proof (Z.div_mod A (2 ^ 40) ltac:(lia)) as DA. pose proof (Z.mod_pos_bound A (2 ^ 40) ltac:(lia)) as BA.
      set (a1 := A / 2 ^ 40) in *. set (a0 := A mod 2 ^ 40) in *.
      change (2 ^ 8) with 256 in *. change (2 ^ 24) with 16777216 in *. change (2 ^ 40) with 1099511627776 in *.
      symmetry. apply Z.mod_unique with (q := a1); [left; nia|]. rewrite DA. ring. }
    replace (Z.of_nat N - 8) with (Z.of_nat k) by lia.
    destruct (IH k lo ((q * 256 + hi) mod 2 ^ 40) (size_t_wrap (Z.shiftl pb 8))) as (raw & st' & v' & n' & E1 & R1 & I1 & B1); try lia; try assumption.
    exists (hi :: raw), st', v', n'. rewrite E1. cbn [flat_map].
    split; [reflexivity|]. split; [constructor; assumption|]. split; [exact I1|].
    unfold bits_of_bytes in *. cbn [flat_map]. rewrite <- app_assoc, B1.
    rewrite HNk. rewrite bits_of_split. reflexivity.
  - apply Z.leb_gt in E. exists [], (pb, Z.of_nat N), V, N.
    split; [reflexivity|]. split; [constructor|]. split; [|reflexivity].
    split; [reflexivity|]. split; [lia|]. split; [exact HV|]. exists q. split; [assumption|exact Hpb].
Qed.

(* emit_bits appends the low [size] bits of [code] to the queue and writes out
   (stuffed) every complete byte *)
Lemma emit_bits_spec st v n code (size : nat) :
  eb_inv st v n -> (1 <= size <= 16)%nat ->
  exists raw st' v' n',
    emit_bits st code (Z.of_nat size) = (flat_map stuff1 raw, st') /\ raw_ok raw /\ eb_inv st' v' n' /\
    bits_of_bytes raw ++ bits_of n' v' = bits_of n v ++ bits_of size code.
Proof.
  intros (Hn & Hn8 & Hv & q & Hq & Hpb) Hs. unfold emit_bits.
  set (c := Z.land code (Z.shiftl 1 (Z.of_nat size) - 1)).
  assert (Hc : c = code mod 2 ^ Z.of_nat size).
  { unfold c. rewrite Z.shiftl_1_l.
    replace (2 ^ Z.of_nat size - 1) with (Z.ones (Z.of_nat size)) by (rewrite Z.ones_equiv; lia).
    apply Z.land_ones. lia. }
  assert (Hcr : 0 <= c < 2 ^ Z.of_nat size) by (rewrite Hc; apply Z.mod_pos_bound; apply Z.pow_pos_nonneg; lia).
  rewrite Hn. set (N := (n + size)%nat). replace (Z.of_nat n + Z.of_nat size) with (Z.of_nat N) by (unfold N; lia).
  set (S2 := 2 ^ Z.of_nat size) in *. set (T := 2 ^ (24 - Z.of_nat N)).
  assert (HS2 : 0 < S2) by (apply Z.pow_pos_nonneg; lia).
  assert (HT : 0 < T) by (apply Z.pow_pos_nonneg; unfold N; lia).
  assert (HTS : 2 ^ (24 - Z.of_nat n) = S2 * T).
  { unfold S2, T. rewrite <- Z.pow_add_r by (unfold N; lia). f_equal. unfold N. lia. }
  assert (H24 : 2 ^ 24 = 2 ^ Z.of_nat n * (S2 * T)).
  { rewrite <- HTS. rewrite <- Z.pow_add_r by lia. f_equal. lia. }
  assert (Hmerge : Z.lor (Z.shiftl c (24 - Z.of_nat N)) (fst st)
                   = q * 2 ^ 24 + (v * S2 + c) * 2 ^ (24 - Z.of_nat N)).
  { rewrite Z.shiftl_mul_pow2 by (unfold N; lia). fold T.
    rewrite (lor_add (fst st) (c * T) (24 - Z.of_nat n)); [| lia | rewrite HTS; nia |].
    - rewrite Hpb, HTS. ring.
    - rewrite Hpb, H24, HTS. apply Z.mod_divide; [nia|].
      exists (q * 2 ^ Z.of_nat n + v). ring. }
  rewrite Hmerge.
  destruct (emit_loop_spec 3 N (v * S2 + c) q (q * 2 ^ 24 + (v * S2 + c) * 2 ^ (24 - Z.of_nat N)))
    as (raw & st' & v' & n' & E1 & R1 & I1 & B1); try reflexivity; try (unfold N; lia).
  { unfold N. replace (Z.of_nat (n + size)) with (Z.of_nat n + Z.of_nat size) by lia. rewrite Z.pow_add_r by lia.
    fold S2. nia. }
  exists raw, st', v', n'. split; [exact E1|]. split; [exact R1|]. split; [exact I1|].
  rewrite B1. unfold N, S2 in *. rewrite (bits_of_join n size v c Hcr). f_equal.
  rewrite Hc. apply bits_of_mod.
Qed.

Lemma bits_of_length : forall n v, length (bits_of n v) = n.
Proof. induction n; intros; cbn; auto. Qed.

Lemma bits_of_bytes_length raw : length (bits_of_bytes raw) = (8 * length raw)%nat.
Proof.
  unfold bits_of_bytes. induction raw as [|c t IH]; [reflexivity|].
  cbn [flat_map length]. rewrite app_length, bits_of_length, IH. lia.
Qed.

Lemma bits_of_bytes_app a b : bits_of_bytes (a ++ b) = bits_of_bytes a ++ bits_of_bytes b.
Proof. unfold bits_of_bytes. apply flat_map_app. Qed.

(* flush_bits: the queue is written out followed by fewer than 8 padding bits *)
Lemma flush_bits_spec st v n : eb_inv st v n ->
  exists raw pad, flush_bits st = (flat_map stuff1 raw, (0, 0)) /\ raw_ok raw /\
                  bits_of_bytes raw = bits_of n v ++ pad /\ (length pad < 8)%nat.
Proof.
  intros I. destruct (emit_bits_spec st v n 127 7 I ltac:(lia)) as (raw & st' & v' & n' & E & R & I' & B).
  unfold flush_bits. change 7 with (Z.of_nat 7). rewrite E. exists raw.
  destruct I' as (_ & Hn' & _). destruct I as (_ & Hn & _).
  pose proof (f_equal (@length bool) B) as L.
  rewrite !app_length, !bits_of_length, bits_of_bytes_length in L.
  apply app_eq_app in B. destruct B as [l [[E1 E2]|[E1 E2]]].
  - exists l. repeat split; try assumption.
    pose proof (f_equal (@length bool) E2) as L2. rewrite app_length, !bits_of_length in L2. lia.
  - pose proof (f_equal (@length bool) E1) as L1. rewrite app_length, bits_of_length, bits_of_bytes_length in L1.
    pose proof (f_equal (@length bool) E2) as L2. rewrite app_length, !bits_of_length in L2.
    assert (length l = 0)%nat by lia. destruct l; [|discriminate].
    exists []. rewrite app_nil_r in *. repeat split; try assumption. auto. cbn. lia.
Qed.

(* -------------------------------------------------------------- tokens *)
(* the Huffman code of category s in table tbl, as the bits emit_bits sends *)
Definition ct_code (cts : Z -> ctbl) (tbl s : Z) : list bool :=
  bits_of (Z.to_nat (nthZ (ehufsi (cts tbl)) (Z.to_nat s))) (nthZ (ehufco (cts tbl)) (Z.to_nat s)).

(* every category 0..16 has a code of 1..16 bits *)
Definition sizes_ok (ct : ctbl) : Prop :=
  forall s, 0 <= s <= 16 -> 1 <= nthZ (ehufsi ct) (Z.to_nat s) <= 16.

Section Tokens.
  Variable cts : Z -> ctbl.
  Hypothesis Hsz : forall t, sizes_ok (cts t).

  Lemma emit_tok_spec tbl st v n d : eb_inv st v n ->
    exists raw st' v' n',
      emit_tok (cts tbl) st d = Some (flat_map stuff1 raw, st') /\ raw_ok raw /\ eb_inv st' v' n' /\
      bits_of_bytes raw ++ bits_of n' v' = bits_of n v ++ encode_tok (ct_code cts) tbl d.
  Proof.
    intros I. unfold emit_tok, encode_tok, ct_code.
    pose proof (encode_diff_category d) as (Hc & He & _ & _).
    destruct (encode_diff d) as [nb extra]. cbn [fst snd] in *.
    pose proof (Hsz tbl nb Hc) as Hs.
    set (si := nthZ (ehufsi (cts tbl)) (Z.to_nat nb)) in *.
    set (co := nthZ (ehufco (cts tbl)) (Z.to_nat nb)).
    destruct (si =? 0) eqn:E0; [lia|].
    destruct (emit_bits_spec st v n co (Z.to_nat si) I ltac:(lia)) as (r1 & st1 & v1 & n1 & E1 & R1 & I1 & B1).
    rewrite Z2Nat.id in E1 by lia. rewrite E1.
    destruct ((nb =? 0) || (nb =? 16)) eqn:Ez.
    - exists r1, st1, v1, n1. rewrite app_nil_r. auto.
    - destruct (emit_bits_spec st1 v1 n1 extra (Z.to_nat nb) I1 ltac:(lia)) as (r2 & st2 & v2 & n2 & E2 & R2 & I2 & B2).
      rewrite Z2Nat.id in E2 by lia. rewrite E2.
      exists (r1 ++ r2), st2, v2, n2. rewrite flat_map_app. split; [reflexivity|].
      split; [apply Forall_app; auto|]. split; [exact I2|].
      rewrite bits_of_bytes_app, <- app_assoc, B2, app_assoc, B1, <- app_assoc. reflexivity.
  Qed.

  Lemma emit_toks_spec : forall l st v n, eb_inv st v n ->
    exists raw st' v' n',
      emit_toks cts st l = Some (flat_map stuff1 raw, st') /\ raw_ok raw /\ eb_inv st' v' n' /\
      bits_of_bytes raw ++ bits_of n' v' = bits_of n v ++ encode_toks (ct_code cts) l.
  Proof.
    induction l as [|[tbl d] t IH]; intros st v n I.
    - exists [], st, v, n. split; [reflexivity|]. split; [constructor|]. split; [exact I|].
      cbn. rewrite app_nil_r. reflexivity.
    - cbn [emit_toks encode_toks].
      destruct (emit_tok_spec tbl st v n d I) as (r1 & st1 & v1 & n1 & E1 & R1 & I1 & B1). rewrite E1.
      destruct (IH st1 v1 n1 I1) as (r2 & st2 & v2 & n2 & E2 & R2 & I2 & B2). rewrite E2.
      exists (r1 ++ r2), st2, v2, n2. rewrite flat_map_app. split; [reflexivity|].
      split; [apply Forall_app; auto|]. split; [exact I2|].
      rewrite bits_of_bytes_app, <- app_assoc, B2, app_assoc, B1, <- app_assoc. reflexivity.
  Qed.
End Tokens.

(* ---------------------------------------------------------- byte reader *)
Lemma read_ecs_stuffed : forall raw m tail, raw_ok raw -> m <> 0 -> m <> 255 ->
  read_ecs (flat_map stuff1 raw ++ 255 :: m :: tail) = (raw, Some (m, tail)).
Proof.
  induction raw as [|c t IH]; intros m tail R Hm0 Hm255.
  - cbn. destruct (m =? 255) eqn:E1; [lia|]. destruct (m =? 0) eqn:E2; [lia|]. reflexivity.
  - inversion R; subst. cbn [flat_map]. unfold stuff1 at 1. destruct (c =? 255) eqn:E.
    + assert (c = 255) by lia. subst c. cbn [app read_ecs Z.eqb Pos.eqb]. cbn. rewrite IH by assumption. reflexivity.
    + cbn [app read_ecs]. rewrite E. rewrite IH by assumption. reflexivity.
Qed.

(* ------------------------------------------------ MCUs, rows, restart counters *)
Lemma encode_toks_app code : forall a b, encode_toks code (a ++ b) = encode_toks code a ++ encode_toks code b.
Proof.
  induction a as [|[t d] a IH]; intros b; [reflexivity|]. cbn [app encode_toks]. rewrite IH, app_assoc. reflexivity.
Qed.

Fixpoint rst_iter (ri : Z) (k : nat) (rs : Z * Z) : Z * Z :=
  match k with O => rs | S k' => rst_iter ri k' (rst_after_mcu ri rs) end.

Lemma rst_iter_zero k rs : rst_iter 0 k rs = rs.
Proof. revert rs. induction k; intros; cbn; auto. Qed.

Lemma rst_iter_pos ri : 0 < ri -> forall k rs, 0 < fst rs -> Z.of_nat k <= fst rs ->
  rst_iter ri k rs = (fst rs - Z.of_nat k, snd rs).
Proof.
  intros Hri. induction k as [|k IH]; intros rs Hp Hk.
  - cbn. destruct rs; cbn. f_equal; lia.
  - cbn [rst_iter]. unfold rst_after_mcu at 1. destruct (ri =? 0) eqn:E; [lia|].
    destruct (fst rs =? 0) eqn:E0; [lia|]. destruct k as [|k'].
    + cbn. f_equal; lia.
    + rewrite IH; cbn [fst snd]; try lia. f_equal; lia.
Qed.

Lemma rst_iter_restart ri : 0 < ri -> forall k num, (1 <= k)%nat -> Z.of_nat k <= ri ->
  rst_iter ri k (0, num) = (ri - Z.of_nat k, Z.land (num + 1) 7).
Proof.
  intros Hri k num Hk Hle. destruct k as [|k]; [lia|]. cbn [rst_iter]. unfold rst_after_mcu at 1.
  destruct (ri =? 0) eqn:E; [lia|]. cbn [fst snd Z.eqb]. destruct k as [|k'].
  - cbn. f_equal; lia.
  - rewrite rst_iter_pos; cbn [fst snd]; try lia. f_equal; lia.
Qed.

Section Scan.
  Variable cts : Z -> ctbl.
  Hypothesis Hsz : forall t, sizes_ok (cts t).
  Variable ri : Z.
  Notation code := (ct_code cts).

  Definition toks_of_rows (rows : list (list (list (Z * Z)))) : list (Z * Z) := concat (concat rows).

  Lemma emit_mcus_spec : forall mcus st v n rs, eb_inv st v n ->
    exists raw st' v' n',
      emit_mcus cts ri st rs mcus = Some (flat_map stuff1 raw, st', rst_iter ri (length mcus) rs) /\
      raw_ok raw /\ eb_inv st' v' n' /\
      bits_of_bytes raw ++ bits_of n' v' = bits_of n v ++ encode_toks code (concat mcus).
  Proof.
    induction mcus as [|m t IH]; intros st v n rs I.
    - exists [], st, v, n. split; [reflexivity|]. split; [constructor|]. split; [exact I|].
      cbn. rewrite app_nil_r. reflexivity.
    - cbn [emit_mcus concat length rst_iter].
      destruct (emit_toks_spec cts Hsz m st v n I) as (r1 & st1 & v1 & n1 & E1 & R1 & I1 & B1). rewrite E1.
      destruct (IH st1 v1 n1 (rst_after_mcu ri rs) I1) as (r2 & st2 & v2 & n2 & E2 & R2 & I2 & B2). rewrite E2.
      exists (r1 ++ r2), st2, v2, n2. rewrite flat_map_app. split; [reflexivity|].
      split; [apply Forall_app; auto|]. split; [exact I2|].
      rewrite encode_toks_app, bits_of_bytes_app, <- app_assoc, B2, app_assoc, B1, <- app_assoc. reflexivity.
  Qed.

  Variable mpr : nat.
  Hypothesis Hmpr : (1 <= mpr)%nat.

  Definition rows_ok_b (rows : list (list (list (Z * Z)))) : Prop := Forall (fun r => length r = mpr) rows.

  (* rows inside a restart interval (or no restarts at all): no marker is written *)
  Lemma rows_norestart : forall rows st v n rs, eb_inv st v n -> rows_ok_b rows ->
    (ri = 0 \/ (0 < ri /\ Z.of_nat (length rows * mpr) <= fst rs)) ->
    exists raw st' v' n' rs',
      encode_rows_huff cts ri st rs rows = Some (flat_map stuff1 raw, st', rs') /\
      raw_ok raw /\ eb_inv st' v' n' /\
      bits_of_bytes raw ++ bits_of n' v' = bits_of n v ++ encode_toks code (toks_of_rows rows) /\
      (0 < ri -> rs' = (fst rs - Z.of_nat (length rows * mpr), snd rs)).
  Proof.
    induction rows as [|r t IH]; intros st v n rs I Hok Hc.
    - exists [], st, v, n, rs. split; [reflexivity|]. split; [constructor|]. split; [exact I|].
      split; [cbn; rewrite app_nil_r; reflexivity|]. intros _. destruct rs; cbn. f_equal; lia.
    - inversion Hok as [|? ? Hr Ht]; subst. cbn [encode_rows_huff]. unfold encode_mcus_huff.
      assert (Hno : negb (ri =? 0) && (fst rs =? 0) = false).
      { destruct Hc as [->|[Hri Hle]]; [reflexivity|]. cbn [length] in Hle.
        destruct (fst rs =? 0) eqn:E0; [|apply andb_false_r]. nia. }
      rewrite Hno.
      destruct (emit_mcus_spec r st v n rs I) as (r1 & st1 & v1 & n1 & E1 & R1 & I1 & B1). rewrite E1.
      set (rs1 := rst_iter ri (length r) rs) in *.
      assert (Hc1 : ri = 0 \/ (0 < ri /\ Z.of_nat (length t * mpr) <= fst rs1)).
      { destruct Hc as [->|[Hri Hle]]; [left; reflexivity|]. right. split; [assumption|].
        unfold rs1. cbn [length] in Hle. rewrite rst_iter_pos; cbn [fst]; nia. }
      destruct (IH st1 v1 n1 rs1 I1 Ht Hc1) as (r2 & st2 & v2 & n2 & rs2 & E2 & R2 & I2 & B2 & C2). rewrite E2.
      exists (r1 ++ r2), st2, v2, n2, rs2. cbn [app]. rewrite flat_map_app. split; [reflexivity|].
      split; [apply Forall_app; auto|]. split; [exact I2|]. split.
      + unfold toks_of_rows in *. cbn [concat]. rewrite concat_app, encode_toks_app.
        rewrite bits_of_bytes_app, <- app_assoc, B2, app_assoc, B1, <- app_assoc. reflexivity.
      + intros Hri. rewrite (C2 Hri). destruct Hc as [->|[_ Hle]]; [lia|]. unfold rs1.
        cbn [length] in *. rewrite rst_iter_pos; cbn [fst snd]; try nia. f_equal; nia.
  Qed.
End Scan.

(* ------------------------------------------------- intervals and the scan *)
Lemma land7_range x : 0 <= Z.land x 7 <= 7.
Proof.
  assert (E : Z.land x 7 = x mod 8) by (change 7 with (Z.ones 3); rewrite Z.land_ones by lia; reflexivity).
  rewrite E. pose proof (Z.mod_pos_bound x 8). lia.
Qed.

(* bytes of consecutive restart intervals, joined by RSTn *)
Fixpoint join (raws : list (list Z)) (num : Z) : list Z :=
  match raws with
  | [] => []
  | raw :: rest =>
      match rest with
      | [] => flat_map stuff1 raw
      | _ :: _ => flat_map stuff1 raw ++ [255; JPEG_RST0 + num] ++ join rest (Z.land (num + 1) 7)
      end
  end.

Section Scan2.
  Variable cts : Z -> ctbl.
  Hypothesis Hsz : forall t, sizes_ok (cts t).
  Variable ri : Z.
  Variable mpr R : nat.
  Hypothesis Hmpr : (1 <= mpr)%nat.
  Hypothesis HR : ri = 0 \/ ((1 <= R)%nat /\ ri = Z.of_nat (R * mpr)).
  Notation code := (ct_code cts).
  Notation rowsT := (list (list (list (Z * Z)))).

  Definition enc_total (st : ebstate) (rs : Z * Z) (rows : rowsT) : option (list Z) :=
    match encode_rows_huff cts ri st rs rows with
    | None => None
    | Some (o, st', _) => Some (o ++ fst (flush_bits st'))
    end.

  Lemma encode_rows_app : forall (a b : rowsT) st rs,
    encode_rows_huff cts ri st rs (a ++ b) =
    match encode_rows_huff cts ri st rs a with
    | None => None
    | Some (o, st', rs') =>
        match encode_rows_huff cts ri st' rs' b with
        | None => None
        | Some (o2, st2, rs2) => Some (o ++ o2, st2, rs2)
        end
    end.
  Proof.
    induction a as [|r a IH]; intros b st rs.
    - cbn. destruct (encode_rows_huff cts ri st rs b) as [[[o s] r]|]; reflexivity.
    - cbn [app encode_rows_huff]. destruct (encode_mcus_huff cts ri st rs r) as [[[o1 s1] r1]|]; [|reflexivity].
      rewrite IH. destruct (encode_rows_huff cts ri s1 r1 a) as [[[o2 s2] r2]|]; [|reflexivity].
      destruct (encode_rows_huff cts ri s2 r2 b) as [[[o3 s3] r3]|]; [|reflexivity].
      rewrite app_assoc. reflexivity.
  Qed.

  (* all intervals but the last have R rows; without restarts there is one interval *)
  Fixpoint ivs_ok (ivs : list rowsT) : Prop :=
    match ivs with
    | [] => False
    | iv :: rest =>
        rows_ok_b mpr iv /\
        match rest with
        | [] => ri = 0 \/ (0 < ri /\ (1 <= length iv <= R)%nat)
        | _ :: _ => 0 < ri /\ length iv = R /\ ivs_ok rest
        end
    end.

  Definition seg_ok (iv : rowsT) (raw : list Z) : Prop :=
    raw_ok raw /\ exists pad, bits_of_bytes raw = encode_toks code (toks_of_rows iv) ++ pad /\ (length pad < 8)%nat.

  (* an interval that begins with a restart marker *)
  Lemma interval_restart iv st v n num : eb_inv st v n -> rows_ok_b mpr iv -> 0 < ri ->
    (1 <= length iv <= R)%nat ->
    exists raw st' v' n',
      encode_rows_huff cts ri st (0, num) iv =
        Some (fst (flush_bits st) ++ [255; JPEG_RST0 + num] ++ flat_map stuff1 raw, st',
              (ri - Z.of_nat (length iv * mpr), Z.land (num + 1) 7)) /\
      raw_ok raw /\ eb_inv st' v' n' /\
      bits_of_bytes raw ++ bits_of n' v' = encode_toks code (toks_of_rows iv).
  Proof.
    intros I Hok Hri Hlen. destruct HR as [H0|[HR1 HRi]]; [lia|].
    destruct iv as [|r t]; [cbn in Hlen; lia|]. inversion Hok as [|r0 l0 Hr Ht Heq]. clear Heq.
    cbn [encode_rows_huff]. unfold encode_mcus_huff. cbn [fst snd].
    replace (negb (ri =? 0) && (0 =? 0)) with true by (destruct (ri =? 0) eqn:E; [lia|reflexivity]).
    unfold emit_restart.
    destruct (flush_bits_spec st v n I) as (rf & padf & Ef & _). rewrite Ef. cbn [fst].
    destruct (emit_mcus_spec cts Hsz ri r (0, 0) 0 0%nat (0, num) eb_inv_init) as (r1 & st1 & v1 & n1 & E1 & R1 & I1 & B1).
    rewrite E1. rewrite Hr. cbn [length] in Hlen.
    rewrite rst_iter_restart by nia.
    destruct (rows_norestart cts Hsz ri mpr Hmpr t st1 v1 n1 (ri - Z.of_nat mpr, Z.land (num + 1) 7) I1 Ht)
      as (r2 & st2 & v2 & n2 & rs2 & E2 & R2 & I2 & B2 & C2).
    { right. split; [assumption|]. cbn [fst]. nia. }
    rewrite E2. rewrite (C2 Hri). cbn [fst snd].
    exists (r1 ++ r2), st2, v2, n2. split.
    - rewrite flat_map_app. f_equal. f_equal; [|f_equal; cbn [length]; nia].
      rewrite <- !app_assoc. reflexivity.
    - split; [apply Forall_app; auto|]. split; [exact I2|].
      unfold toks_of_rows in *. cbn [concat]. rewrite concat_app, encode_toks_app.
      cbn [bits_of app] in B1. rewrite bits_of_bytes_app, <- app_assoc, B2, app_assoc, B1. reflexivity.
  Qed.

  Definition prefix_of (b : bool) (st : ebstate) (num : Z) : list Z :=
    if b then fst (flush_bits st) ++ [255; JPEG_RST0 + num] else [].
  Definition startnum (b : bool) (num : Z) : Z := if b then Z.land (num + 1) 7 else num.

  (* the encoder output is the sequence of interval segments joined by RSTn *)
  Lemma enc_total_spec : forall ivs (b : bool) st v n rs,
    ivs_ok ivs -> eb_inv st v n ->
    (b = true -> 0 < ri /\ fst rs = 0) ->
    (b = false -> n = 0%nat /\ (ri = 0 \/ fst rs = ri)) ->
    exists raws, enc_total st rs (concat ivs) = Some (prefix_of b st (snd rs) ++ join raws (startnum b (snd rs))) /\
                 Forall2 seg_ok ivs raws.
  Proof.
    induction ivs as [|iv rest IH]; intros b st v n rs Hok I Hb1 Hb0; [destruct Hok|].
    cbn [ivs_ok] in Hok. destruct Hok as [Hrows Hrest].
    (* the interval itself *)
    assert (Hiv : exists raw st' v' n' rs',
      encode_rows_huff cts ri st rs iv = Some (prefix_of b st (snd rs) ++ flat_map stuff1 raw, st', rs') /\
      raw_ok raw /\ eb_inv st' v' n' /\
      bits_of_bytes raw ++ bits_of n' v' = encode_toks code (toks_of_rows iv) /\
      (0 < ri -> rs' = (ri - Z.of_nat (length iv * mpr), startnum b (snd rs)))).
    { assert (Hlen : 0 < ri -> (1 <= length iv <= R)%nat).
      { intros Hri. destruct rest; [destruct Hrest as [?|[_ ?]]; [lia|assumption]|].
        destruct Hrest as (_ & -> & _). destruct HR as [?|[? _]]; lia. }
      destruct b.
      - destruct (Hb1 eq_refl) as [Hri Hf]. destruct rs as [rtg num]. cbn [fst snd] in *. subst rtg.
        destruct (interval_restart iv st v n num I Hrows Hri (Hlen Hri)) as (raw & st' & v' & n' & E & Rr & I' & B).
        exists raw, st', v', n', (ri - Z.of_nat (length iv * mpr), Z.land (num + 1) 7).
        unfold prefix_of, startnum. rewrite E. rewrite <- !app_assoc.
        split; [reflexivity|]. split; [exact Rr|]. split; [exact I'|]. split; [exact B|]. intros _. reflexivity.
      - destruct (Hb0 eq_refl) as [Hn0 Hc]. subst n.
        destruct (rows_norestart cts Hsz ri mpr Hmpr iv st v 0%nat rs I Hrows) as (raw & st' & v' & n' & rs' & E & Rr & I' & B & C).
        { destruct Hc as [?|Hf]; [left; assumption|]. destruct HR as [?|[HR1 HRi]]; [left; assumption|].
          right. split; [nia|]. rewrite Hf, HRi. specialize (Hlen ltac:(nia)). nia. }
        exists raw, st', v', n', rs'. unfold prefix_of, startnum. cbn [app bits_of] in *.
        split; [exact E|]. split; [exact Rr|]. split; [exact I'|]. split; [exact B|].
        intros Hri. rewrite (C Hri). destruct Hc as [?|Hf]; [lia|]. rewrite Hf. reflexivity. }
    destruct Hiv as (raw0 & st' & v' & n' & rs' & E & R0 & I' & B0 & C).
    destruct (flush_bits_spec st' v' n' I') as (rf & padf & Ef & Rf & Bf & Lf).
    assert (Hseg : seg_ok iv (raw0 ++ rf)).
    { split; [apply Forall_app; auto|]. exists padf. split; [|exact Lf].
      rewrite bits_of_bytes_app, Bf, app_assoc, B0. reflexivity. }
    destruct rest as [|iv2 rest'].
    - exists [raw0 ++ rf]. split; [|constructor; [exact Hseg|constructor]].
      cbn [concat]. rewrite app_nil_r. unfold enc_total. rewrite E, Ef. cbn [fst join].
      rewrite flat_map_app, <- !app_assoc. reflexivity.
    - destruct Hrest as (Hri & HlenR & Hok').
      specialize (C Hri). destruct HR as [?|[HR1 HRi]]; [lia|].
      assert (Hrs' : rs' = (0, startnum b (snd rs))) by (rewrite C, HlenR, HRi; f_equal; lia).
      destruct (IH true st' v' n' rs' Hok' I') as (raws & Et & F2).
      { intros _. rewrite Hrs'. split; [assumption|reflexivity]. }
      { discriminate. }
      exists ((raw0 ++ rf) :: raws). split; [|constructor; assumption].
      change (concat (iv :: iv2 :: rest')) with (iv ++ concat (iv2 :: rest')).
      unfold enc_total in *. rewrite encode_rows_app, E.
      destruct (encode_rows_huff cts ri st' rs' (concat (iv2 :: rest'))) as [[[o2 s2] r2]|]; [|discriminate].
      assert (Et' : o2 ++ fst (flush_bits s2) = prefix_of true st' (snd rs') ++ join raws (startnum true (snd rs')))
        by congruence.
      f_equal. rewrite <- app_assoc, Et'.
      unfold prefix_of at 2. rewrite Ef. cbn [fst]. rewrite Hrs'. cbn [snd startnum].
      inversion F2 as [|? raw2 ? raws2 ? ?]; subst. cbn [join].
      rewrite flat_map_app, <- !app_assoc. reflexivity.
  Qed.

  (* ---- reading it back ---- *)
  Variable dec : Z -> list bool -> option (Z * list bool).
  Hypothesis dec_code : forall tbl s rest, 0 <= s <= 16 -> dec tbl (code tbl s ++ rest) = Some (s, rest).

  Definition tblseq (iv : rowsT) : list Z := map fst (toks_of_rows iv).
  Definition canon_iv (iv : rowsT) : list Z := map (fun td => canon_diff (snd td)) (toks_of_rows iv).

  Lemma dec_intervals_join : forall ivs raws, Forall2 seg_ok ivs raws ->
    forall num m tail, ivs <> [] -> 0 <= num <= 7 -> m <> 0 -> m <> 255 ->
    dec_intervals dec (map tblseq ivs) num (join raws num ++ 255 :: m :: tail)
    = Some (map canon_iv ivs, Some (m, tail)).
  Proof.
    induction 1 as [|iv raw ivs raws Hseg F2 IH]; intros num m tail Hne Hnum Hm0 Hm255; [congruence|].
    destruct Hseg as (Rr & pad & Bp & Lp).
    assert (Hd : decode_toks dec (tblseq iv) (bits_of_bytes raw) = Some (canon_iv iv, pad)).
    { rewrite Bp. apply (decode_encode_toks code dec dec_code). }
    cbn [map dec_intervals]. destruct F2 as [|iv2 raw2 ivs' raws' Hseg2 F2'].
    - cbn [join map]. unfold dec_interval. rewrite read_ecs_stuffed by assumption.
      rewrite Hd. reflexivity.
    - change (join (raw :: raw2 :: raws') num)
        with (flat_map stuff1 raw ++ [255; JPEG_RST0 + num] ++ join (raw2 :: raws') (Z.land (num + 1) 7)).
      set (J := join (raw2 :: raws') (Z.land (num + 1) 7)) in *.
      cbn [map]. unfold dec_interval.
      replace ((flat_map stuff1 raw ++ [255; JPEG_RST0 + num] ++ J) ++ 255 :: m :: tail)
        with (flat_map stuff1 raw ++ 255 :: (JPEG_RST0 + num) :: (J ++ 255 :: m :: tail))
        by (rewrite <- !app_assoc; reflexivity).
      unfold JPEG_RST0 in *. rewrite read_ecs_stuffed by (try assumption; lia).
      rewrite Hd. rewrite Z.eqb_refl.
      specialize (IH (Z.land (num + 1) 7) m tail ltac:(discriminate) (land7_range _) Hm0 Hm255).
      cbn [map] in IH. fold J in IH. rewrite IH. reflexivity.
  Qed.

  (* BYTES: what start_pass + encode_mcus_huff per MCU row + finish_pass write for a
     scan -- Huffman codes, extra bits, 0xFF stuffing, 1-bit padding, RSTn -- is
     read back (up to the marker that follows the scan) as the canonical
     differences of every restart interval, in MCU order *)
  Theorem scan_bytes_roundtrip ivs m tail : ivs_ok ivs -> m <> 0 -> m <> 255 ->
    exists bytes, enc_total (0, 0) (ri, 0) (concat ivs) = Some bytes /\
      dec_intervals dec (map tblseq ivs) 0 (bytes ++ 255 :: m :: tail) = Some (map canon_iv ivs, Some (m, tail)).
  Proof.
    intros Hok Hm0 Hm255.
    destruct (enc_total_spec ivs false (0, 0) 0 0%nat (ri, 0) Hok eb_inv_init) as (raws & E & F2).
    { discriminate. } { intros _. split; [reflexivity|right; reflexivity]. }
    cbn [prefix_of startnum snd app] in E. exists (join raws 0). split; [exact E|].
    apply dec_intervals_join; try assumption; try lia. destruct ivs; [destruct Hok|discriminate].
  Qed.
End Scan2.
