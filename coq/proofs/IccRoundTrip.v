(* IccRoundTrip.v -- the writer's segment structure and the theorems of C16 about the ICC
   profile: round trip for every length 1..255*65519, invariance under permutation and
   interleaving, rejection of damaged numberings, the 255-segment boundary. *)
From Coq Require Import List ZArith Bool Lia Permutation ZifyBool.
From LJT Require Import lib.Sweep gen.GenIccConst model.MarkerRT model.Icc proofs.C16Consts proofs.IccProofs.
Import ListNotations.
Local Open Scope Z_scope.
Ltac Zify.zify_post_hook ::= Z.div_mod_to_equations.

Definition MAXD : Z := W_MAX_DATA_BYTES_IN_MARKER.
Definition icc_seg (cur num : Z) (chunk : list Z) : segment :=
  (W_ICC_MARKER, icc_sig_writer ++ [byte_of cur; byte_of num] ++ chunk).
Fixpoint number_from (cur num : Z) (cs : list (list Z)) : list segment :=
  match cs with [] => [] | c :: r => icc_seg cur num c :: number_from (cur + 1) num r end.

(* data cut into non-empty pieces of at most MAXD bytes, all but the last one full *)
Inductive chunked : list Z -> list (list Z) -> Prop :=
| ch_nil : chunked [] []
| ch_cons c rest cs : c <> [] -> Zlength c <= MAXD -> (rest <> [] -> Zlength c = MAXD) ->
    chunked rest cs -> chunked (c ++ rest) (c :: cs).

Lemma MAXD_val : MAXD = 65519. Proof. reflexivity. Qed.
Lemma Zlength_nonneg {A} (l : list A) : 0 <= Zlength l.
Proof. rewrite Zlength_correct. lia. Qed.
Lemma Zlength_app {A} (a b : list A) : Zlength (a ++ b) = Zlength a + Zlength b.
Proof. rewrite !Zlength_correct, app_length. lia. Qed.
Lemma Zlength_nil_iff {A} (l : list A) : Zlength l = 0 <-> l = [].
Proof. rewrite Zlength_correct. destruct l; cbn [length]; split; intros; try congruence; try lia. Qed.

Lemma write_icc_loop_ok fuel : forall data cur num,
  Zlength data <= Z.of_nat fuel * MAXD ->
  exists cs, write_icc_loop fuel data cur num = Some (number_from cur num cs) /\ chunked data cs.
Proof.
  induction fuel as [|f IH]; intros data cur num Hlen.
  - assert (data = []) by (apply Zlength_nil_iff; pose proof (Zlength_nonneg data); lia).
    subst. exists []. split; [reflexivity | constructor].
  - destruct data as [|x xs]; [exists []; split; [reflexivity | constructor]|].
    cbn [write_icc_loop]. set (data := x :: xs) in *.
    set (len := Z.min (Zlength data) W_MAX_DATA_BYTES_IN_MARKER).
    assert (Hpos : 1 <= Zlength data).
    { unfold data. rewrite Zlength_cons. pose proof (Zlength_nonneg xs). lia. }
    assert (Hl : 1 <= len <= MAXD) by (subst len; unfold MAXD, W_MAX_DATA_BYTES_IN_MARKER; lia).
    assert (Hl2 : len <= Zlength data) by (subst len; lia).
    assert (Hl3 : Zlength data <= len \/ len = MAXD) by (subst len; unfold MAXD; lia).
    clearbody len.
    assert (Hh : exists h, write_marker_header W_ICC_MARKER (len + W_ICC_OVERHEAD_LEN) = Some h).
    { unfold write_marker_header. destruct (WRITE_MARKER_MAX_DATALEN <? len + W_ICC_OVERHEAD_LEN) eqn:E; [|eauto].
      exfalso. apply Z.ltb_lt in E. rewrite MAXD_val in Hl. unfold WRITE_MARKER_MAX_DATALEN, W_ICC_OVERHEAD_LEN in E. lia. }
    destruct Hh as (h & Hh). rewrite Hh.
    assert (Hlen_le : (Z.to_nat len <= length data)%nat) by (rewrite Zlength_correct in Hl2; lia).
    destruct (IH (skipn (Z.to_nat len) data) (cur + 1) num) as (cs & E & Hc).
    { rewrite Zlength_correct, skipn_length. rewrite Zlength_correct in Hlen, Hl3. rewrite MAXD_val in *. lia. }
    rewrite E. exists (firstn (Z.to_nat len) data :: cs). split; [reflexivity|].
    rewrite <- (firstn_skipn (Z.to_nat len) data) at 1. constructor; try assumption.
    + intros C. apply (f_equal (@length Z)) in C. rewrite firstn_length in C. cbn [length] in C. lia.
    + rewrite Zlength_correct, firstn_length. lia.
    + intros Hne. rewrite Zlength_correct, firstn_length.
      assert (length (skipn (Z.to_nat len) data) <> 0)%nat by (destruct (skipn (Z.to_nat len) data); cbn; congruence).
      rewrite skipn_length in H. rewrite Zlength_correct in Hl3. lia.
Qed.

Lemma chunked_concat data cs : chunked data cs -> concat cs = data.
Proof. induction 1; cbn; [reflexivity | f_equal; assumption]. Qed.
Lemma chunked_nil cs : chunked [] cs -> cs = [].
Proof.
  intros H. remember [] as d eqn:Ed. destruct H as [|c rest cs' Hne]; [reflexivity|].
  apply app_eq_nil in Ed as (E1 & _). contradiction.
Qed.
Lemma chunked_bounds data cs : chunked data cs ->
  Forall (fun c => 1 <= Zlength c <= MAXD) cs /\
  (cs <> [] -> (Z.of_nat (length cs) - 1) * MAXD < Zlength data <= Z.of_nat (length cs) * MAXD) /\
  (cs = [] -> data = []).
Proof.
  induction 1 as [|c rest cs Hne Hle Hfull Hch (IH1 & IH2 & IH3)].
  - repeat split; auto; congruence.
  - assert (1 <= Zlength c).
    { destruct c; [congruence|]. rewrite Zlength_cons. pose proof (Zlength_nonneg c). lia. }
    repeat split; try congruence.
    + constructor; [lia | assumption].
    + rewrite Zlength_app. cbn [length]. destruct cs as [|c2 cs'].
      * rewrite (IH3 eq_refl). rewrite Zlength_nil. cbn [length]. lia.
      * assert (Hrest : rest <> []) by (intros C; subst rest; apply chunked_nil in Hch; discriminate).
        specialize (Hfull Hrest). specialize (IH2 ltac:(congruence)). cbn [length] in *. lia.
    + rewrite Zlength_app. cbn [length]. destruct cs as [|c2 cs'].
      * rewrite (IH3 eq_refl). rewrite Zlength_nil. cbn [length]. lia.
      * assert (Hrest : rest <> []) by (intros C; subst rest; apply chunked_nil in Hch; discriminate).
        specialize (Hfull Hrest). specialize (IH2 ltac:(congruence)). cbn [length] in *. lia.
Qed.

Lemma num_markers_char len n : 0 <= len -> (n - 1) * MAXD < len <= n * MAXD -> icc_num_markers len = n.
Proof.
  intros H0 H. unfold icc_num_markers. fold MAXD. rewrite MAXD_val in *.
  destruct (len / 65519 * 65519 =? len) eqn:E; [apply Z.eqb_eq in E | apply Z.eqb_neq in E]; lia.
Qed.
Lemma num_markers_bound len : 0 <= len -> (icc_num_markers len - 1) * MAXD < len <= icc_num_markers len * MAXD \/ len = 0.
Proof.
  intros H0. unfold icc_num_markers. fold MAXD. rewrite MAXD_val.
  destruct (len / 65519 * 65519 =? len) eqn:E; [apply Z.eqb_eq in E | apply Z.eqb_neq in E]; lia.
Qed.

(* ------------------------------------------------ what the reader sees in them *)
Lemma seg_is_icc cur num c : marker_is_icc (saved_of (icc_seg cur num c)) = true.
Proof.
  unfold marker_is_icc, saved_of, icc_seg. cbn [fst snd sm_code sm_data].
  apply andb_true_iff. split; [apply andb_true_iff; split|].
  - reflexivity.
  - apply Z.leb_le. rewrite Zlength_app, Zlength_app. pose proof (Zlength_nonneg c).
    change (Zlength icc_sig_writer) with 12. change (Zlength [byte_of cur; byte_of num]) with 2.
    unfold R_ICC_OVERHEAD_LEN. lia.
  - unfold has_prefix. change icc_sig_reader with icc_sig_writer. rewrite firstn_app_exact. apply zlist_eqb_refl.
Qed.
Lemma seg_seq cur num c : icc_seq (saved_of (icc_seg cur num c)) = byte_of cur.
Proof. reflexivity. Qed.
Lemma seg_count cur num c : icc_count (saved_of (icc_seg cur num c)) = byte_of num.
Proof. reflexivity. Qed.
Lemma seg_payload cur num c : icc_payload (saved_of (icc_seg cur num c)) = c.
Proof. reflexivity. Qed.
Lemma seg_len cur num c : Zlength (snd (icc_seg cur num c)) = Zlength c + W_ICC_OVERHEAD_LEN.
Proof.
  unfold icc_seg. cbn [snd]. rewrite Zlength_app, Zlength_app.
  change (Zlength icc_sig_writer) with 12. change (Zlength [byte_of cur; byte_of num]) with 2.
  unfold W_ICC_OVERHEAD_LEN. lia.
Qed.

Lemma byte_of_small x : 0 <= x < 256 -> byte_of x = x.
Proof. intros. unfold byte_of. apply Z.mod_small. assumption. Qed.

Lemma number_from_numbered n cs : forall cur, 1 <= cur -> cur + Z.of_nat (length cs) <= 256 -> 0 <= n < 256 ->
  numbered n cur (markers_of (number_from cur n cs)).
Proof.
  induction cs as [|c r IH]; intros cur H1 H2 Hn; cbn [number_from markers_of map numbered]; [exact I|].
  cbn [length] in H2. repeat split.
  - apply seg_is_icc.
  - rewrite seg_seq. apply byte_of_small. lia.
  - rewrite seg_count. apply byte_of_small. lia.
  - apply IH; lia.
Qed.
Lemma number_from_payloads n cs : forall cur, map icc_payload (markers_of (number_from cur n cs)) = cs.
Proof. induction cs as [|c r IH]; intros cur; cbn [number_from markers_of map]; [reflexivity|]. rewrite seg_payload. f_equal. apply IH. Qed.
Lemma number_from_length n cs : forall cur, length (number_from cur n cs) = length cs.
Proof. induction cs; intros; cbn; auto. Qed.
Lemma number_from_all_icc n cs : forall cur, filter marker_is_icc (markers_of (number_from cur n cs)) = markers_of (number_from cur n cs).
Proof.
  induction cs as [|c r IH]; intros cur; cbn [number_from markers_of map filter]; [reflexivity|].
  rewrite seg_is_icc. f_equal. apply IH.
Qed.

Lemma number_from_bounds num cs : Forall (fun c => 1 <= Zlength c <= MAXD) cs -> forall cur,
  Forall (fun s => fst s = W_ICC_MARKER /\ W_ICC_OVERHEAD_LEN < Zlength (snd s) <= W_MAX_BYTES_IN_MARKER) (number_from cur num cs).
Proof.
  induction cs as [|c r IH]; intros B1 cur; cbn [number_from]; constructor.
  - split; [reflexivity|]. rewrite seg_len. pose proof (Forall_inv B1) as H. cbn beta in H.
    rewrite MAXD_val in H. unfold W_ICC_OVERHEAD_LEN, W_MAX_BYTES_IN_MARKER. lia.
  - apply IH. exact (Forall_inv_tail B1).
Qed.

(* ------------------------------------------------------------ permutations *)
Lemma Permutation_filter' {A} (f : A -> bool) l l' : Permutation l l' -> Permutation (filter f l) (filter f l').
Proof.
  induction 1; cbn [filter].
  - constructor.
  - destruct (f x); [constructor|]; assumption.
  - destruct (f x), (f y); try apply perm_swap; apply Permutation_refl.
  - eapply Permutation_trans; eassumption.
Qed.

(* ============================================================ (1) round trip *)
Theorem icc_roundtrip_all p : 1 <= Zlength p <= 255 * MAXD ->
  exists segs,
    write_icc p = Some segs /\
    Z.of_nat (length segs) = icc_num_markers (Zlength p) /\ 1 <= Z.of_nat (length segs) <= 255 /\
    Forall (fun s => fst s = W_ICC_MARKER /\ W_ICC_OVERHEAD_LEN < Zlength (snd s) <= W_MAX_BYTES_IN_MARKER) segs /\
    well_numbered (Z.of_nat (length segs)) (markers_of segs) /\
    concat (map icc_payload (markers_of segs)) = p /\
    (forall junk ms, Permutation (filter marker_is_icc ms) (markers_of segs) -> read_icc_with junk ms = IccOk p).
Proof.
  intros Hlen. unfold write_icc.
  replace (Zlength p =? 0) with false by (symmetry; apply Z.eqb_neq; lia).
  set (num := icc_num_markers (Zlength p)).
  destruct (num_markers_bound (Zlength p) ltac:(lia)) as [Hb|Hb]; [|lia]. fold num in Hb.
  assert (Hnum : 1 <= num <= 255) by (rewrite MAXD_val in *; lia).
  destruct (write_icc_loop_ok (Z.to_nat num) p 1 num) as (cs & E & Hc); [rewrite Z2Nat.id by lia; lia|].
  exists (number_from 1 num cs). rewrite E.
  destruct (chunked_bounds _ _ Hc) as (B1 & B2 & B3).
  assert (Hcs : cs <> []) by (intros C; specialize (B3 C); subst p; rewrite Zlength_nil in Hlen; lia).
  specialize (B2 Hcs).
  assert (Hn : Z.of_nat (length cs) = num).
  { symmetry. apply num_markers_char; [lia | assumption]. }
  rewrite number_from_length, Hn.
  assert (Hpay : concat (map icc_payload (markers_of (number_from 1 num cs))) = p).
  { rewrite number_from_payloads. apply chunked_concat. assumption. }
  assert (Hwn : well_numbered num (markers_of (number_from 1 num cs))).
  { split; [apply number_from_numbered; lia|]. unfold markers_of. rewrite map_length, number_from_length. assumption. }
  split; [reflexivity|]. split; [reflexivity|]. split; [lia|].
  split; [apply number_from_bounds; assumption|]. split; [exact Hwn|]. split; [exact Hpay|].
  intros junk ms HP. rewrite <- Hpay. eapply read_icc_closed; [exact HP | exact Hwn |].
  rewrite Hpay. intros C. rewrite C, Zlength_nil in Hlen. lia.
Qed.

(* in stream order, the profile comes back *)
Corollary icc_roundtrip p segs : 1 <= Zlength p <= 255 * MAXD -> write_icc p = Some segs ->
  read_icc (markers_of segs) = IccOk p.
Proof.
  intros Hlen E. destruct (icc_roundtrip_all p Hlen) as (segs' & E' & _ & _ & _ & Hwn & _ & HR).
  rewrite E in E'. inversion E'; subst segs'. apply HR.
  assert (F : filter marker_is_icc (markers_of segs) = markers_of segs).
  { destruct Hwn as (Hnum & _). clear - Hnum. revert Hnum. generalize 1. induction (markers_of segs) as [|m r IH]; intros k H; [reflexivity|].
    cbn [filter]. destruct H as (Hi & _ & _ & Hr). rewrite Hi. f_equal. eapply IH. eassumption. }
  rewrite F. apply Permutation_refl.
Qed.

(* (2) any permutation of the marker list, interleaved with any non-ICC markers *)
Corollary icc_permutation_interleaving p segs ms junk : 1 <= Zlength p <= 255 * MAXD -> write_icc p = Some segs ->
  Permutation (filter marker_is_icc ms) (markers_of segs) -> read_icc_with junk ms = IccOk p.
Proof.
  intros Hlen E HP. destruct (icc_roundtrip_all p Hlen) as (segs' & E' & _ & _ & _ & _ & _ & HR).
  rewrite E in E'. inversion E'; subst segs'. apply HR. assumption.
Qed.
Corollary icc_permutation p segs ms : 1 <= Zlength p <= 255 * MAXD -> write_icc p = Some segs ->
  Permutation ms (markers_of segs) -> read_icc ms = IccOk p.
Proof.
  intros Hlen E HP. eapply icc_permutation_interleaving; try eassumption.
  destruct (icc_roundtrip_all p Hlen) as (segs' & E' & _ & _ & _ & Hwn & _ & _).
  rewrite E in E'. inversion E'; subst segs'.
  assert (F : filter marker_is_icc (markers_of segs) = markers_of segs).
  { destruct Hwn as (Hnum & _). clear - Hnum. revert Hnum. generalize 1. induction (markers_of segs) as [|m r IH]; intros k H; [reflexivity|].
    cbn [filter]. destruct H as (Hi & _ & _ & Hr). rewrite Hi. f_equal. eapply IH. eassumption. }
  rewrite <- F. apply Permutation_filter'. assumption.
Qed.

(* ===================================================== (3) what Ok implies *)
Lemma filter_all_icc ms : Forall (fun m => marker_is_icc m = true) (filter marker_is_icc ms).
Proof. apply Forall_forall. intros x Hx. apply filter_In in Hx. tauto. Qed.

Theorem read_icc_ok_inv junk ms p : read_icc_with junk ms = IccOk p ->
  let icc := filter marker_is_icc ms in
  exists n, 1 <= n /\
    Forall (fun m => icc_count m = n /\ 1 <= icc_seq m <= n) icc /\
    NoDup (map icc_seq icc) /\
    (forall k, 1 <= k <= n -> In k (map icc_seq icc)) /\ p <> [].
Proof.
  intros H icc. unfold read_icc_with in H. rewrite pass1_filter in H. fold icc in H.
  destruct (pass1 icc 0 (fun _ => None)) as [[n tbl]|] eqn:P1; [|discriminate].
  destruct (n =? 0) eqn:N0; [discriminate|]. apply Z.eqb_neq in N0.
  destruct (icc_offsets (zrange 1 (Z.to_nat n)) tbl 0 (fun _ => 0)) as [[total offs]|] eqn:O; [|discriminate].
  destruct (total =? 0) eqn:T0; [discriminate|].
  destruct (pass1_sound icc (filter_all_icc ms) _ _ _ _ P1) as (_ & _ & C & D & F).
  assert (Hn : 1 <= n).
  { destruct icc as [|m r]; [cbn in P1; inversion P1; congruence|].
    pose proof (Forall_inv C) as (_ & Q & _). lia. }
  exists n. repeat split; try assumption.
  - eapply Forall_impl; [|exact C]. intros a (P & Q & _). split; assumption.
  - intros k Hk. pose proof (icc_offsets_missing _ _ _ _ _ O k) as M.
    specialize (M ltac:(apply zrange_In_iff; lia)). rewrite F in M.
    unfold lookup in M. destruct (find (fun m => icc_seq m =? k) icc) eqn:Fd; [|congruence].
    apply find_some in Fd as (Fin & Feq). apply Z.eqb_eq in Feq. rewrite <- Feq. apply in_map. assumption.
  - inversion H; subst p. intros C0.
    (* the buffer has total > 0 bytes and pass2 preserves its length only on the success path; use
       the structure instead: total = 0 is excluded, and the result of pass2 over a buffer of
       positive length is non-empty because splice never shrinks below the prefix *)
    assert (L : forall todo buf, (0 < length buf)%nat -> (0 < length (pass2 todo tbl offs buf))%nat).
    { induction todo as [|m r IH]; intros buf Hb; [exact Hb|]. cbn [pass2]. destruct (marker_is_icc m); [|auto].
      apply IH. unfold splice. rewrite !app_length.
      destruct (Z.to_nat (offs (icc_seq m))) as [|o] eqn:Eo.
      - cbn [firstn length Nat.add].
        destruct (firstn (Z.to_nat match tbl (icc_seq m) with Some l => l | None => 0 end) (icc_payload m)) as [|y ys] eqn:Ed.
        + cbn [length Nat.add skipn]. assumption.
        + cbn [length]. lia.
      - rewrite firstn_length. destruct buf; [cbn in Hb; lia | cbn [length]; lia]. }
    specialize (L (filter marker_is_icc ms) (repeat junk (Z.to_nat total))). rewrite <- pass2_filter in L. rewrite C0 in L.
    apply Z.eqb_neq in T0.
    assert (Hicc : forall m, In m icc -> marker_is_icc m = true) by (intros m Hm; apply filter_In in Hm; tauto).
    assert (0 <= total).
    { assert (G : forall ks t o r, icc_offsets ks tbl t o = Some r -> 0 <= t -> (forall k v, tbl k = Some v -> 0 <= v) -> 0 <= fst r).
      { induction ks as [|k ks IH]; intros t o r HH Ht Hv; cbn [icc_offsets] in HH.
        - inversion HH; subst; assumption.
        - destruct (tbl k) eqn:E; [|discriminate]. eapply IH; [exact HH | specialize (Hv _ _ E); lia | exact Hv]. }
      apply (G _ _ _ _ O); [lia|].
      intros k v Hk. rewrite F in Hk. unfold lookup in Hk.
      destruct (find (fun m => icc_seq m =? k) icc) eqn:Fd; [|discriminate].
      inversion Hk; subst v. apply find_some in Fd as (Fin & _). apply plen_nonneg. apply Hicc. assumption. }
    rewrite repeat_length in L. cbn [length] in L. lia.
Qed.

Theorem read_icc_absent_iff junk ms : read_icc_with junk ms = IccAbsent <-> filter marker_is_icc ms = [].
Proof.
  unfold read_icc_with. rewrite pass1_filter. split.
  - intros H. destruct (pass1 (filter marker_is_icc ms) 0 (fun _ => None)) as [[n tbl]|] eqn:P1; [|discriminate].
    destruct (pass1_sound _ (filter_all_icc ms) _ _ _ _ P1) as (_ & B & _).
    destruct (n =? 0) eqn:N0.
    + apply Z.eqb_eq in N0. destruct (filter marker_is_icc ms); [reflexivity|]. exfalso. apply B; [congruence | assumption].
    + destruct (icc_offsets _ _ _ _) as [[t o]|]; [destruct (t =? 0)|]; discriminate.
  - intros ->. reflexivity.
Qed.

(* (3) damaged numberings are rejected with the warning *)
Theorem icc_rejects_bad junk ms :
  let icc := filter marker_is_icc ms in
  icc <> [] ->
  ( ~ NoDup (map icc_seq icc)                                            (* duplicate sequence number *)
    \/ (exists a b, In a icc /\ In b icc /\ icc_count a <> icc_count b)    (* inconsistent counts *)
    \/ (exists a, In a icc /\ (icc_seq a <= 0 \/ icc_count a < icc_seq a))  (* sequence number 0 or > count *)
    \/ (exists a k, In a icc /\ 1 <= k <= icc_count a /\ ~ In k (map icc_seq icc)) ) (* missing one *)
  -> read_icc_with junk ms = IccBogus.
Proof.
  intros icc Hne Hbad.
  destruct (read_icc_with junk ms) as [| |p] eqn:R; [|reflexivity|].
  - apply read_icc_absent_iff in R. contradiction.
  - exfalso. destruct (read_icc_ok_inv _ _ _ R) as (n & Hn & HF & ND & Hall & _). fold icc in HF, ND, Hall.
    rewrite Forall_forall in HF.
    destruct Hbad as [B|[(a & b & Ha & Hb & B)|[(a & Ha & B)|(a & k & Ha & Hk & B)]]].
    + contradiction.
    + destruct (HF a Ha) as (A1 & _), (HF b Hb) as (B1 & _). congruence.
    + destruct (HF a Ha) as (A1 & A2). lia.
    + destruct (HF a Ha) as (A1 & A2). apply B, Hall. lia.
Qed.

(* ======================================= full invariance under permutation *)
Lemma sort_exists icc n : 1 <= n ->
  Forall (fun m => marker_is_icc m = true) icc ->
  Forall (fun m => icc_count m = n /\ 1 <= icc_seq m <= n) icc ->
  NoDup (map icc_seq icc) -> (forall k, 1 <= k <= n -> In k (map icc_seq icc)) ->
  exists srt, Permutation icc srt /\ well_numbered n srt.
Proof.
  intros Hn Hicc HF ND Hall.
  destruct icc as [|d0 icc0] eqn:Eicc.
  { exfalso. specialize (Hall 1 ltac:(lia)). contradiction. }
  rewrite <- Eicc in *. clear Eicc icc0.
  set (pick := fun k => match find (fun m => icc_seq m =? k) icc with Some m => m | None => d0 end).
  assert (Hpick : forall k, 1 <= k <= n -> In (pick k) icc /\ icc_seq (pick k) = k).
  { intros k Hk. unfold pick. destruct (find (fun m => icc_seq m =? k) icc) eqn:Fd.
    - apply find_some in Fd as (A & B). apply Z.eqb_eq in B. tauto.
    - exfalso. specialize (Hall k Hk). apply in_map_iff in Hall as (x & Hx & Hin).
      pose proof (find_none _ _ Fd x Hin) as C. cbn beta in C. rewrite Hx, Z.eqb_refl in C. discriminate. }
  set (srt := map pick (zrange 1 (Z.to_nat n))).
  assert (Hnum : forall len k, 1 <= k -> k + Z.of_nat len <= n + 1 -> numbered n k (map pick (zrange k len))).
  { induction len as [|len IH]; intros k Hk1 Hk2; cbn [zrange map numbered]; [exact I|].
    destruct (Hpick k ltac:(lia)) as (A & B). rewrite Forall_forall in Hicc, HF.
    repeat split; [apply Hicc; assumption | assumption | apply (HF _ A) | apply IH; lia]. }
  assert (Hwn : well_numbered n srt).
  { split; [apply Hnum; lia|]. unfold srt. rewrite map_length, zrange_length. lia. }
  exists srt. split; [|assumption].
  apply NoDup_Permutation.
  - eapply NoDup_map_inv. exact ND.
  - eapply NoDup_map_inv with (f := icc_seq). rewrite (numbered_seqs _ _ _ (proj1 Hwn)). apply zrange_NoDup.
  - intros x. split.
    + intros Hx. rewrite Forall_forall in HF. destruct (HF x Hx) as (_ & Hr).
      destruct (Hpick (icc_seq x) Hr) as (A & B).
      assert (pick (icc_seq x) = x) by (eapply NoDup_map_inj; eassumption).
      rewrite <- H. unfold srt. apply in_map. apply zrange_In_iff. lia.
    + intros Hx. unfold srt in Hx. apply in_map_iff in Hx as (k & Hk & Hin). apply zrange_In_iff in Hin.
      rewrite <- Hk. apply Hpick. lia.
Qed.

Theorem read_icc_permutation_invariant junk ms ms' : Permutation ms ms' ->
  read_icc_with junk ms = read_icc_with junk ms'.
Proof.
  assert (OK : forall a b p, Permutation a b -> read_icc_with junk a = IccOk p -> read_icc_with junk b = IccOk p).
  { intros a b p HP R. pose proof (read_icc_ok_inv _ _ _ R) as (n & Hn & HF & ND & Hall & Hp).
    destruct (sort_exists _ n Hn (filter_all_icc a) HF ND Hall) as (srt & HPs & Hwn).
    assert (Ea : read_icc_with junk a = IccOk (concat (map icc_payload srt))).
    { apply (read_icc_closed junk a srt n HPs Hwn).
      intros C. (* the closed form on a itself *)
      destruct srt as [|s0 srt']; [destruct Hwn as (_ & L); cbn in L; lia|].
      pose proof (numbered_Forall _ _ _ (proj1 Hwn)) as NF.
      (* an empty concatenation means total = 0, which read_icc reports as bogus *)
      revert R. unfold read_icc_with. rewrite pass1_filter.
      destruct (pass1 (filter marker_is_icc a) 0 (fun _ => None)) as [[n' tbl]|] eqn:P1; [|discriminate].
      destruct (n' =? 0); [discriminate|].
      destruct (pass1_sound _ (filter_all_icc a) _ _ _ _ P1) as (_ & _ & _ & _ & F).
      assert (n' = n).
      { destruct (pass1_sound _ (filter_all_icc a) _ _ _ _ P1) as (_ & _ & C1 & _).
        assert (In s0 (filter marker_is_icc a)) by (eapply Permutation_in; [apply Permutation_sym; exact HPs | left; reflexivity]).
        rewrite Forall_forall in C1, HF. destruct (C1 _ H) as (Q & _). destruct (HF _ H) as (Q' & _). congruence. }
      subst n'.
      assert (Htbl : forall m, In m (s0 :: srt') -> tbl (icc_seq m) = Some (icc_plen m)).
      { intros m Hm. rewrite F, lookup_in; [reflexivity | assumption |].
        eapply Permutation_in; [apply Permutation_sym; exact HPs | assumption]. }
      assert (Hr : zrange 1 (Z.to_nat n) = map icc_seq (s0 :: srt')).
      { rewrite (numbered_seqs _ _ _ (proj1 Hwn)). f_equal. destruct Hwn as (_ & L). lia. }
      rewrite Hr, (offsets_ok tbl _ Htbl).
      assert (Hi : forall m, In m (s0 :: srt') -> marker_is_icc m = true).
      { intros m Hm. rewrite Forall_forall in NF. apply (NF m Hm). }
      rewrite Z.add_0_l, (sum_plen_payload _ Hi), C. cbn [length Z.of_nat Z.eqb]. discriminate. }
    rewrite R in Ea. injection Ea as Ep. subst p.
    apply (read_icc_closed junk b srt n); try assumption.
    eapply Permutation_trans; [apply Permutation_filter'; apply Permutation_sym; exact HP | exact HPs]. }
  intros HP.
  destruct (read_icc_with junk ms) as [| |p] eqn:R.
  - symmetry. apply read_icc_absent_iff. apply read_icc_absent_iff in R.
    pose proof (Permutation_filter' marker_is_icc _ _ HP) as PF. rewrite R in PF. apply Permutation_nil in PF. assumption.
  - destruct (read_icc_with junk ms') as [| |p'] eqn:R'; [|reflexivity|].
    + exfalso. apply read_icc_absent_iff in R'.
      pose proof (Permutation_filter' marker_is_icc _ _ (Permutation_sym HP)) as PF. rewrite R' in PF. apply Permutation_nil in PF.
      apply (proj2 (read_icc_absent_iff junk ms)) in PF. congruence.
    + exfalso. pose proof (OK _ _ _ (Permutation_sym HP) R'). congruence.
  - symmetry. eapply OK; eassumption.
Qed.

(* ===================================================== the 255-segment boundary *)
(* 256 segments: the count byte wraps to 0 and the reader rejects the stream *)
Theorem icc_too_long_not_recovered p segs : 255 * MAXD < Zlength p <= 256 * MAXD -> write_icc p = Some segs ->
  read_icc (markers_of segs) = IccBogus.
Proof.
  intros Hlen E. unfold write_icc in E.
  replace (Zlength p =? 0) with false in E by (symmetry; apply Z.eqb_neq; rewrite MAXD_val in *; lia).
  assert (Hnum : icc_num_markers (Zlength p) = 256) by (apply num_markers_char; rewrite MAXD_val in *; lia).
  rewrite Hnum in E.
  destruct (write_icc_loop_ok (Z.to_nat 256) p 1 256) as (cs & E' & Hc); [rewrite MAXD_val in *; lia|].
  rewrite E' in E. inversion E; subst segs. clear E.
  destruct cs as [|c cs]; [inversion Hc; subst; rewrite Zlength_nil, MAXD_val in Hlen; lia|].
  cbn [number_from markers_of map]. unfold read_icc, read_icc_with. cbn [pass1]. unfold pass1_step.
  rewrite seg_is_icc, seg_count, seg_seq.
  change (byte_of 256) with 0. change (byte_of 1) with 1. cbn. reflexivity.
Qed.
