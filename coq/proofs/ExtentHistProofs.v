(* C11 -- histories: a returned 0 implies the rows written are the rows of the stored region, and the
   region lies inside the image actually decompressed; size_t row-pointer arithmetic does not wrap. *)
From Coq Require Import List ZArith Lia Bool ZifyBool.
From LJT Require Import model.Extent model.ExtentHist gen.GenAlign proofs.ExtentProofs.
Import ListNotations.
Local Open Scope Z_scope.
Ltac Zify.zify_post_hook ::= Z.div_mod_to_equations.

(* what tj3SetCroppingRegion can have stored, whatever image / scaling factor it validated against *)
Definition stored_region (c : region) : Prop := c = mkRegion 0 0 0 0 \/ (1 <= r_w c /\ 1 <= r_h c).

Lemma hist_region_stored jwA jhA n1 d1 mcuw req : 1 <= jwA -> 1 <= jhA -> 1 <= n1 -> 1 <= d1 ->
  let c := hist_region jwA jhA n1 d1 mcuw req in stored_region c /\ 0 <= r_x c /\ 0 <= r_y c.
Proof.
  intros H H0 H1 H2. cbv zeta. unfold hist_region. destruct (set_crop jwA jhA n1 d1 mcuw req) as [c'|] eqn:E.
  - destruct (set_crop_sound _ _ _ _ _ _ _ H H0 H1 H2 E) as [-> | Hc]; unfold stored_region; cbn; [|lia].
    split; [left; reflexivity | lia].
  - unfold stored_region. cbn. split; [left; reflexivity | lia].
Qed.

(* all three checks present: whatever region is stored (whatever history produced it) *)
Theorem recheck_sound jw jh num den align c ow oh :
  1 <= jw -> 1 <= jh -> 1 <= num -> 1 <= den -> 1 <= align ->
  0 <= r_x c -> 0 <= r_y c -> stored_region c ->
  dec_recheck true true true jw jh num den align c = Accepted ow oh ->
  (* the rows written have exactly the documented size ... *)
  ow = dec_out_w jw num den c /\ oh = dec_out_h jh num den c /\ 1 <= ow /\ 1 <= oh /\
  (* ... and the region is inside the scaled image and aligned *)
  r_x c + ow <= tjscaled jw num den /\ r_y c + oh <= tjscaled jh num den /\ r_x c mod align = 0.
Proof.
  intros Hjw Hjh Hn Hd Ha Hx Hy Hs H.
  assert (Hw : 0 <= r_w c /\ 0 <= r_h c /\ (r_h c = 0 -> r_y c = 0 /\ r_x c = 0 /\ r_w c = 0) /\ (r_w c = 0 -> r_h c = 0))
    by (destruct Hs as [-> | Hs]; cbn; lia).
  pose proof (tjscaled_pos jw num den Hjw Hn Hd). pose proof (tjscaled_pos jh num den Hjh Hn Hd).
  unfold dec_recheck in H. cbn [andb] in H.
  repeat match type of H with context [if ?b then _ else _] => destruct b eqn:? end; try discriminate;
    injection H as <- <-; unfold dec_out_w, dec_out_h;
    repeat match goal with |- context [if ?b then _ else _] => destruct b eqn:? end;
    repeat split; try lia; try (replace (r_x c) with 0 by lia; apply Z.mod_0_l; lia).
Qed.

Theorem recheck_never_hangs jw jh num den align c :
  dec_recheck true true true jw jh num den align c <> NoReturn.
Proof.
  unfold dec_recheck.
  repeat match goal with |- context [if ?b then _ else _] => destruct b eqn:? end; try discriminate; lia.
Qed.

(* without the left-boundary and width checks (only the right boundary, which jpeg_crop_scanline never
   moves): region {8,0,16,16} validated at 1/2 against a 4:2:0 image, decompressed at 1/1 (align 16):
   accepted and the rows written are 24 pixels wide, 8 more than documented *)
Theorem recheck_without_left_width_refuted :
  exists jw jh num den align c ow oh,
    set_crop jw jh 1 2 16 c = Some c /\
    dec_recheck false false true jw jh num den align c = Accepted ow oh /\ dec_out_w jw num den c < ow.
Proof. exists 64, 64, 1, 1, 16, (mkRegion 8 0 16 16), 24, 16. vm_compute. repeat split; reflexivity. Qed.

(* without the bottom check: region {0,0,0,50} validated against a 70-row image, 20-row image decompressed *)
Theorem recheck_without_bottom_refuted :
  exists jwA jhA jw jh c,
    set_crop jwA jhA 1 1 8 (mkRegion 0 0 0 50) = Some c /\
    dec_recheck true true false jw jh 1 1 8 c = NoReturn.
Proof. exists 40, 70, 40, 20, (mkRegion 0 0 40 50). vm_compute. split; reflexivity. Qed.

(* the statement about the source AS IT IS NOW *)
Definition recheck_ok (l w b : bool) : Prop :=
  forall jw jh num den align c ow oh,
  1 <= jw -> 1 <= jh -> 1 <= num -> 1 <= den -> 1 <= align ->
  0 <= r_x c -> 0 <= r_y c -> stored_region c ->
  dec_recheck l w b jw jh num den align c = Accepted ow oh ->
  ow = dec_out_w jw num den c /\ oh = dec_out_h jh num den c /\ 1 <= ow /\ 1 <= oh /\
  r_x c + ow <= tjscaled jw num den /\ r_y c + oh <= tjscaled jh num den /\ r_x c mod align = 0.

Theorem recheck_current :
  (if dec_chk_left && dec_chk_width && dec_chk_bottom then recheck_ok true true true
   else True) /\
  (if dec_chk_left && dec_chk_width then True
   else exists jw jh num den align c ow oh, set_crop jw jh 1 2 16 c = Some c /\
        dec_recheck false false true jw jh num den align c = Accepted ow oh /\ dec_out_w jw num den c < ow) /\
  (if dec_chk_bottom then True
   else exists jwA jhA jw jh c, set_crop jwA jhA 1 1 8 (mkRegion 0 0 0 50) = Some c /\
        dec_recheck true true false jw jh 1 1 8 c = NoReturn).
Proof.
  split; [|split].
  - destruct (dec_chk_left && dec_chk_width && dec_chk_bottom); [|exact I].
    unfold recheck_ok. intros. eapply recheck_sound; eassumption.
  - destruct (dec_chk_left && dec_chk_width); [exact I | exact recheck_without_left_width_refuted].
  - destruct dec_chk_bottom; [exact I | exact recheck_without_bottom_refuted].
Qed.

(* ---- row-pointer arithmetic: with a 64-bit unsigned product no row offset wraps, for every int
   height and pitch; with a 32-bit int product it does ---- *)
Theorem row_ptr_c_no_wrap base pitch h bu i :
  0 <= pitch < 2 ^ 31 -> 0 <= i < h -> h < 2 ^ 31 ->
  row_ptr_c 64 base pitch h bu i = row_ptr base pitch h bu i.
Proof.
  intros Hp Hi Hh. unfold row_ptr_c, row_ptr, wrap_unsigned.
  assert (P31 : 2 ^ 31 = 2147483648) by reflexivity. assert (P64 : 2 ^ 64 = 18446744073709551616) by reflexivity.
  rewrite P31 in *. rewrite P64.
  destruct bu; rewrite Z.mod_small; try lia; nia.
Qed.

Theorem row_ptr_current : rowptr_mul_bits = 64.
Proof. reflexivity. Qed.

Theorem row_ptr_int32_wraps :
  exists pitch h i, 0 <= pitch < 2 ^ 31 /\ 0 <= i < h /\ h < 2 ^ 31 /\
    wrap_int32 (i * pitch) = i * pitch - 2 ^ 32 /\ wrap_int32 (i * pitch) < 0.
Proof. exists 1048576, 2056, 2048. vm_compute. repeat split; try discriminate; reflexivity. Qed.

(* the source under test HAS the three checks (fails to compile as soon as gen_Align reads otherwise) *)
Theorem recheck_checks_present : dec_chk_left && dec_chk_width && dec_chk_bottom = true.
Proof. reflexivity. Qed.
Theorem recheck_positive_now : recheck_ok dec_chk_left dec_chk_width dec_chk_bottom.
Proof.
  pose proof recheck_checks_present as H. apply andb_prop in H as [H Hb]. apply andb_prop in H as [Hl Hw].
  rewrite Hl, Hw, Hb. unfold recheck_ok. intros. eapply recheck_sound; eassumption.
Qed.
