(* C11 -- SIMD lane models of the downsampling / fancy-upsampling kernels equal the C loops on the
   columns the caller asked for, for ALL widths; what they compute beyond stays inside the padded rows. *)
From Coq Require Import List ZArith Lia Bool ZifyBool Arith PeanoNat.
From LJT Require Import lib.Sweep model.ExtentLanes.
Import ListNotations.
Local Open Scope Z_scope.
Ltac Zify.zify_post_hook ::= Z.div_mod_to_equations.

Definition isbyte (x : Z) : Prop := 0 <= x <= 255.
Definition bytes (l : list Z) : Prop := Forall isbyte l.

Lemma rd_byte l i : bytes l -> isbyte (rd l i).
Proof.
  intros H. unfold rd. destruct (nth_in_or_default i l 0) as [Hin | ->]; [|unfold isbyte; lia].
  unfold bytes in H. rewrite Forall_forall in H. apply H. exact Hin.
Qed.

(* ---- chunked iteration = flat iteration *)
Lemma seq_add_map a n : seq a n = map (fun i => (a + i)%nat) (seq 0 n).
Proof.
  revert a. induction n as [|n IH]; intros a; [reflexivity|].
  cbn [seq map]. rewrite Nat.add_0_r. f_equal. rewrite (IH (S a)), (IH 1%nat), map_map.
  apply map_ext. intros i. lia.
Qed.

Lemma flat_map_ext_in' {A B} (f g : A -> list B) l : (forall x, In x l -> f x = g x) -> flat_map f l = flat_map g l.
Proof.
  induction l as [|x t IH]; intros H; [reflexivity|]. cbn [flat_map]. rewrite (H x (or_introl eq_refl)).
  f_equal. apply IH. intros y Hy. apply H. right. exact Hy.
Qed.

Lemma flat_map_map {A B C} (f : B -> list C) (g : A -> B) l : flat_map f (map g l) = flat_map (fun x => f (g x)) l.
Proof. induction l as [|x t IH]; [reflexivity|]. cbn [map flat_map]. rewrite IH. reflexivity. Qed.

Lemma flat_map_chunks {A} (f : nat -> nat -> list A) V m : (0 < V)%nat ->
  flat_map (fun c => flat_map (fun i => f (c * V + i)%nat i) (seq 0 V)) (seq 0 m)
  = flat_map (fun g => f g (g mod V)%nat) (seq 0 (m * V)).
Proof.
  intros HV. induction m as [|m IH]; [reflexivity|].
  rewrite seq_S, flat_map_app, IH. cbn [flat_map Nat.add]. rewrite app_nil_r.
  replace (S m * V)%nat with (m * V + V)%nat by lia. rewrite seq_app, flat_map_app. f_equal.
  cbn [Nat.add]. rewrite (seq_add_map (m * V) V), flat_map_map.
  apply flat_map_ext_in'. intros i Hi. apply in_seq in Hi.
  replace ((m * V + i) mod V)%nat with i; [reflexivity|].
  rewrite Nat.add_comm, Nat.mod_add by lia. rewrite Nat.mod_small by lia. reflexivity.
Qed.

Lemma map_as_flat_map {A B} (f : A -> B) l : map f l = flat_map (fun x => [f x]) l.
Proof. induction l as [|x t IH]; [reflexivity|]. cbn. rewrite IH. reflexivity. Qed.

Lemma round_up_nat_spec n V : (0 < V)%nat ->
  (n <= round_up_nat n V < n + V /\ round_up_nat n V / V * V = round_up_nat n V /\ round_up_nat n V mod V = 0)%nat.
Proof.
  intros HV. unfold round_up_nat. assert (HV0 : V <> 0%nat) by (intros ->; inversion HV).
  pose proof (Nat.div_mod (n + V - 1) V HV0) as E.
  pose proof (Nat.mod_upper_bound (n + V - 1) V HV0) as B.
  set (q := ((n + V - 1) / V)%nat) in *. set (r := ((n + V - 1) mod V)%nat) in *.
  rewrite Nat.div_mul by exact HV0. rewrite Nat.mod_mul by exact HV0. split; [nia|]. split; reflexivity.
Qed.

Lemma firstn_flat_map_seq {A} (f : nat -> list A) k n R : (n <= R)%nat -> (forall g, length (f g) = k) ->
  firstn (k * n) (flat_map f (seq 0 R)) = flat_map f (seq 0 n).
Proof.
  intros Hn Hk. replace R with (n + (R - n))%nat by lia. rewrite seq_app, flat_map_app.
  assert (L : length (flat_map f (seq 0 n)) = (k * n)%nat).
  { clear Hn. generalize 0%nat at 1. induction n as [|n IH]; intros a; cbn [seq flat_map]; [rewrite Nat.mul_0_r; reflexivity|].
    rewrite app_length, Hk, IH. lia. }
  rewrite <- L at 1. rewrite firstn_app, Nat.sub_diag, firstn_all. cbn. rewrite app_nil_r. reflexivity.
Qed.

Lemma firstn_seq' n R a : (n <= R)%nat -> firstn n (seq a R) = seq a n.
Proof. revert R a. induction n as [|n IH]; intros R a H; [reflexivity|]. destruct R; [lia|]. cbn. f_equal. apply IH. lia. Qed.

Lemma nth_map_seq (f : nat -> Z) R j : (j < R)%nat -> nth j (map f (seq 0 R)) 0 = f j.
Proof.
  intros H. rewrite (nth_indep _ 0 (f 0%nat)) by (rewrite map_length, seq_length; exact H).
  rewrite (map_nth f (seq 0 R) 0%nat j). rewrite seq_nth by exact H. reflexivity.
Qed.

(* ------------------------------------------------------------ downsampling *)
Lemma Forall_firstn' {A} (P : A -> Prop) n l : Forall P l -> Forall P (firstn n l).
Proof. revert l. induction n; intros l H; [constructor|]. destruct l; [constructor|]. inversion_clear H. cbn. constructor; auto. Qed.
Lemma Forall_skipn' {A} (P : A -> Prop) n l : Forall P l -> Forall P (skipn n l).
Proof. revert l. induction n; intros l H; [exact H|]. destruct l; [constructor|]. inversion_clear H. cbn. auto. Qed.
Lemma expand_bytes row iw oc : bytes row -> bytes (expand_right_edge row iw oc).
Proof.
  intros H. unfold expand_right_edge. destruct (iw <? oc)%nat; [|exact H].
  unfold bytes in *. rewrite !Forall_app. split; [apply Forall_firstn'; exact H|]. split.
  - apply Forall_forall. intros x Hx. apply repeat_spec in Hx. subst. apply rd_byte. exact H.
  - apply Forall_skipn'. exact H.
Qed.

Lemma rd_skipn l k i : rd (skipn k l) i = rd l (k + i).
Proof. unfold rd. revert l. induction k as [|k IH]; intros l; [reflexivity|]. destruct l; [destruct i; reflexivity|]. cbn. apply IH. Qed.

Lemma skipn_add {A} a b (l : list A) : skipn a (skipn b l) = skipn (b + a) l.
Proof. revert l. induction b as [|b IH]; intros l; [reflexivity|]. destruct l; [destruct a; reflexivity|]. cbn. apply IH. Qed.

Lemma h2v1_ds_loop_spec inp m : forall k,
  h2v1_ds_loop (skipn (2 * k) inp) (Z.of_nat (k mod 2)) m
  = map (fun g => (rd inp (2 * g) + rd inp (2 * g + 1) + Z.of_nat (g mod 2)) / 2) (seq k m).
Proof.
  induction m as [|m IH]; intros k; [reflexivity|]. cbn [h2v1_ds_loop seq map].
  rewrite !rd_skipn. rewrite skipn_add. replace (2 * k + 2)%nat with (2 * S k)%nat by lia.
  replace (Z.lxor (Z.of_nat (k mod 2)) 1) with (Z.of_nat (S k mod 2)).
  - rewrite IH. rewrite Nat.add_0_r. reflexivity.
  - pose proof (Nat.mod_upper_bound k 2 ltac:(lia)). pose proof (Nat.mod_upper_bound (S k) 2 ltac:(lia)).
    assert (E : (S k mod 2 = 1 - k mod 2)%nat).
    { rewrite <- Nat.add_1_r. rewrite Nat.add_mod by lia. destruct (k mod 2)%nat as [|[|]]; cbn; lia. }
    rewrite E. destruct (k mod 2)%nat as [|[|]]; try lia; reflexivity.
Qed.

Lemma ds1_lane_exact a b bias : isbyte a -> isbyte b -> 0 <= bias <= 1 -> ds1_lane a b bias = (a + b + bias) / 2.
Proof.
  unfold isbyte, ds1_lane, wrap16, sat_ub. intros Ha Hb Hc.
  rewrite (Z.mod_small (a + b)) by lia. rewrite (Z.mod_small (a + b + bias)) by lia.
  destruct (32768 <=? (a + b + bias) / 2) eqn:E; lia.
Qed.

Lemma mod2_of_modV g V : (0 < V)%nat -> (V mod 2 = 0)%nat -> ((g mod V) mod 2 = g mod 2)%nat.
Proof.
  intros HV HE. pose proof (Nat.div_mod g V ltac:(lia)) as E. pose proof (Nat.div_mod V 2 ltac:(lia)) as E2.
  rewrite HE, Nat.add_0_r in E2.
  rewrite E at 2. rewrite E2 at 2. rewrite <- Nat.mul_assoc, Nat.add_comm, Nat.mul_comm, Nat.mod_add by lia.
  reflexivity.
Qed.

Theorem h2v1_downsample_simd_eq_c V row iw oc :
  (0 < V)%nat -> (V mod 2 = 0)%nat -> bytes row ->
  firstn oc (h2v1_downsample_simd V row iw oc) = h2v1_downsample_c row iw oc /\
  length (h2v1_downsample_simd V row iw oc) = round_up_nat oc V /\
  (forall j, (oc <= j)%nat -> rd (h2v1_downsample_simd V row iw oc) j = 0).
Proof.
  intros HV HE Hb. unfold h2v1_downsample_simd, h2v1_downsample_c.
  set (inp := expand_right_edge row iw (2 * oc)).
  assert (Hi : bytes inp) by (apply expand_bytes; exact Hb).
  destruct (round_up_nat_spec oc V HV) as (R1 & R2 & R3).
  set (F := fun (g i : nat) => ds1_lane (ld_zfill inp (2 * oc) (2 * g)) (ld_zfill inp (2 * oc) (2 * g + 1)) (Z.of_nat (i mod 2))).
  assert (E : flat_map (fun c => map (fun i => F (c * V + i)%nat i) (seq 0 V)) (seq 0 (round_up_nat oc V / V))
              = map (fun g => F g (g mod V)%nat) (seq 0 (round_up_nat oc V))).
  { rewrite (map_as_flat_map (fun g => F g (g mod V)%nat)). rewrite <- R2 at 2.
    rewrite <- (flat_map_chunks (fun g i => [F g i]) V _ HV).
    apply flat_map_ext_in'. intros c _. apply map_as_flat_map. }
  unfold F in E. rewrite E. clear E. split; [|split].
  - rewrite firstn_map. replace (firstn oc (seq 0 (round_up_nat oc V))) with (seq 0 oc).
    2:{ rewrite firstn_seq' by lia. reflexivity. }
    pose proof (h2v1_ds_loop_spec inp oc 0) as S. change (skipn (2 * 0) inp) with inp in S.
    change (Z.of_nat (0 mod 2)) with 0 in S. rewrite S.
    apply map_ext_in. intros g Hg. apply in_seq in Hg.
    unfold ld_zfill. replace (2 * g <? 2 * oc)%nat with true by lia. replace (2 * g + 1 <? 2 * oc)%nat with true by lia.
    rewrite mod2_of_modV by assumption.
    apply ds1_lane_exact; try apply rd_byte; try assumption.
    pose proof (Nat.mod_upper_bound g 2 ltac:(lia)). lia.
  - rewrite map_length, seq_length. reflexivity.
  - intros j Hj. unfold rd. destruct (Nat.lt_ge_cases j (round_up_nat oc V)) as [Hlt | Hge].
    + rewrite nth_map_seq by exact Hlt.
      unfold ld_zfill. replace (2 * j <? 2 * oc)%nat with false by lia. replace (2 * j + 1 <? 2 * oc)%nat with false by lia.
      pose proof (Nat.mod_upper_bound (j mod V) 2 ltac:(lia)).
      unfold ds1_lane, wrap16, sat_ub. destruct ((j mod V) mod 2)%nat as [|[|]]; try lia; reflexivity.
    + apply nth_overflow. rewrite map_length, seq_length. exact Hge.
Qed.

Lemma flat_map_length_const {A B} (f : A -> list B) k l : (forall x, length (f x) = k) -> length (flat_map f l) = (k * length l)%nat.
Proof. intros H. induction l as [|x t IH]; cbn [flat_map length]; [lia|]. rewrite app_length, H, IH. lia. Qed.

(* ------------------------------------------------------------ triangle filter (fancy upsampling) *)
Lemma flat_map_chunks2 {A} (f : nat -> nat -> list A) V m : (0 < V)%nat ->
  flat_map (fun c => flat_map (fun i => f c i) (seq 0 V)) (seq 0 m)
  = flat_map (fun g => f (g / V)%nat (g mod V)%nat) (seq 0 (m * V)).
Proof.
  intros HV. induction m as [|m IH]; [reflexivity|].
  rewrite seq_S, flat_map_app, IH. cbn [flat_map Nat.add]. rewrite app_nil_r.
  replace (S m * V)%nat with (m * V + V)%nat by lia. rewrite seq_app, flat_map_app. f_equal.
  cbn [Nat.add]. rewrite (seq_add_map (m * V) V), flat_map_map.
  apply flat_map_ext_in'. intros i Hi. apply in_seq in Hi.
  replace ((m * V + i) mod V)%nat with i.
  2:{ rewrite Nat.add_comm, Nat.mod_add by lia. rewrite Nat.mod_small by lia. reflexivity. }
  replace ((m * V + i) / V)%nat with m; [reflexivity|].
  rewrite Nat.add_comm, Nat.div_add by lia. rewrite Nat.div_small by lia. reflexivity.
Qed.

(* the filter as a function of the column index: the neighbour is the column itself at both ends *)
Definition tri_spec (s : list Z) (n : nat) (r_e r_o sh : Z) (g : nat) : list Z :=
  [ (rd s g * 3 + (if (g =? 0)%nat then rd s 0 else rd s (g - 1)) + r_e) / 2 ^ sh;
    (rd s g * 3 + (if (g =? n - 1)%nat then rd s g else rd s (g + 1)) + r_o) / 2 ^ sh ].

Lemma tri_general_spec s n r_e r_o sh cnt : forall i, (1 <= i)%nat -> (i + cnt <= n - 1)%nat ->
  tri_general s r_e r_o sh i cnt = flat_map (tri_spec s n r_e r_o sh) (seq i cnt).
Proof.
  induction cnt as [|cnt IH]; intros i Hi Hn; [reflexivity|].
  cbn [tri_general seq flat_map]. rewrite IH by lia. unfold tri_spec at 2. cbn [app].
  replace (i =? 0)%nat with false by lia. replace (i =? n - 1)%nat with false by lia. reflexivity.
Qed.

Lemma tri_pair_exact x p q r_e r_o sh :
  0 <= x -> 0 <= p -> 0 <= q -> 0 <= r_e -> 0 <= r_o -> (sh = 2 \/ sh = 4) ->
  x * 3 + p + r_e < 2 ^ sh * 256 -> x * 3 + q + r_o < 2 ^ sh * 256 ->
  out_pair (tri_lane x p r_e sh) (tri_lane x q r_o sh) = [(x * 3 + p + r_e) / 2 ^ sh; (x * 3 + q + r_o) / 2 ^ sh].
Proof.
  intros Hx Hp Hq Hre Hro Hsh B1 B2. unfold out_pair, tri_lane, wrap16.
  assert (P : 2 ^ sh = 4 \/ 2 ^ sh = 16) by (destruct Hsh as [-> | ->]; [left | right]; reflexivity).
  assert (E1 : ((p + r_e) mod 65536 + (x * 3) mod 65536) mod 65536 = x * 3 + p + r_e) by (destruct P as [P|P]; rewrite P in *; lia).
  assert (E2 : ((q + r_o) mod 65536 + (x * 3) mod 65536) mod 65536 = x * 3 + q + r_o) by (destruct P as [P|P]; rewrite P in *; lia).
  rewrite E1, E2. destruct P as [P|P]; rewrite P in *; f_equal; [lia | f_equal; lia | lia | f_equal; lia].
Qed.

Theorem tri_simd_eq V s s' n r_e r_o sh B :
  (0 < V)%nat -> (2 <= n)%nat ->
  (forall i, (i < n)%nat -> rd s' i = rd s i) -> ((n mod V)%nat <> 0%nat -> rd s' n = rd s (n - 1)) ->
  (forall i, 0 <= rd s i <= B) -> 0 <= r_e -> 0 <= r_o -> (sh = 2 \/ sh = 4) ->
  4 * B + r_e < 2 ^ sh * 256 -> 4 * B + r_o < 2 ^ sh * 256 ->
  firstn (2 * n) (tri_simd V s' n r_e r_o sh) = flat_map (tri_spec s n r_e r_o sh) (seq 0 n) /\
  length (tri_simd V s' n r_e r_o sh) = (2 * round_up_nat n V)%nat.
Proof.
  intros HV Hn Hs Hd HB Hre Hro Hsh B1 B2. unfold tri_simd.
  destruct (round_up_nat_spec n V HV) as (R1 & R2 & R3). set (R := round_up_nat n V) in *.
  rewrite (flat_map_chunks2 _ V (R / V) HV). rewrite R2.
  assert (HV0 : V <> 0%nat) by lia.
  split.
  - rewrite (firstn_flat_map_seq _ 2 n R); [| lia | intros g; reflexivity].
    apply flat_map_ext_in'. intros g Hg. apply in_seq in Hg.
    pose proof (Nat.div_mod g V HV0) as Eg. pose proof (Nat.mod_upper_bound g V HV0) as Bg.
    set (c := (g / V)%nat) in *. set (i := (g mod V)%nat) in *.
    replace (c * V + i)%nat with g by lia.
    pose proof (Nat.div_mod n V HV0) as En. pose proof (Nat.mod_upper_bound n V HV0) as Bn.
    assert (RV : (R / V * V = R)%nat) by exact R2.
    (* previous sample *)
    assert (Pv : (if (i =? 0)%nat then (if (c =? 0)%nat then rd s' 0 else rd s' (c * V - 1)) else rd s' (g - 1))
                 = (if (g =? 0)%nat then rd s 0 else rd s (g - 1))).
    { destruct (i =? 0)%nat eqn:Ei.
      - destruct (c =? 0)%nat eqn:Ec.
        + replace (g =? 0)%nat with true by nia. apply Hs. lia.
        + replace (g =? 0)%nat with false by nia. replace (c * V - 1)%nat with (g - 1)%nat by nia. apply Hs. lia.
      - replace (g =? 0)%nat with false by lia. apply Hs. lia. }
    (* next sample *)
    assert (Nx : (if (i =? V - 1)%nat then (if (S c =? R / V)%nat then rd s' g else rd s' (S c * V)) else rd s' (g + 1))
                 = (if (g =? n - 1)%nat then rd s g else rd s (g + 1))).
    { destruct (i =? V - 1)%nat eqn:Ei.
      - assert (Eg1 : (g + 1 = S c * V)%nat) by nia.
        destruct (S c =? R / V)%nat eqn:Ec.
        + assert (g + 1 = R)%nat by nia. replace (g =? n - 1)%nat with true by lia. apply Hs. lia.
        + assert ((g + 1 < R)%nat) by nia.
          assert (g + 1 < n)%nat.
          { destruct (Nat.eq_dec (g + 1) n) as [E|E]; [|lia]. exfalso.
            assert (n mod V = 0)%nat by (rewrite <- E, Eg1; apply Nat.mod_mul; exact HV0).
            assert (R = n) by (unfold R, round_up_nat in *; nia). lia. }
          replace (g =? n - 1)%nat with false by lia. rewrite <- Eg1. apply Hs. lia.
      - destruct (g =? n - 1)%nat eqn:Egn.
        + assert (g + 1 = n)%nat by lia.
          assert ((n mod V)%nat <> 0%nat).
          { intros Z0. assert (Hk : (n = (n / V) * V)%nat) by lia. set (k := (n / V)%nat) in *.
            assert (k = c + 1)%nat by (destruct (Nat.lt_trichotomy k (c + 1)) as [T|[T|T]]; nia).
            assert (i = V - 1)%nat by nia. lia. }
          replace (g + 1)%nat with n by lia. rewrite Hd by assumption. f_equal. lia.
        + apply Hs. lia. }
    rewrite Pv, Nx. rewrite (Hs g) by lia. unfold tri_spec.
    assert (P : 2 ^ sh = 4 \/ 2 ^ sh = 16) by (destruct Hsh as [-> | ->]; [left | right]; reflexivity).
    apply tri_pair_exact; try assumption; try apply HB.
    + destruct (g =? 0)%nat; apply HB.
    + destruct (g =? n - 1)%nat; apply HB.
    + pose proof (HB g). destruct (g =? 0)%nat; [pose proof (HB 0%nat) | pose proof (HB (g - 1)%nat)]; destruct P as [P|P]; rewrite P in *; lia.
    + pose proof (HB g). destruct (g =? n - 1)%nat; [| pose proof (HB (g + 1)%nat)]; destruct P as [P|P]; rewrite P in *; lia.
  - rewrite (flat_map_length_const _ 2) by (intros g; reflexivity). rewrite seq_length. reflexivity.
Qed.

Lemma rd_set_nth_lt l n v i : (n < length l)%nat -> (i < n)%nat -> rd (set_nth l n v) i = rd l i.
Proof.
  intros Hn Hi. unfold rd, set_nth. rewrite app_nth1 by (rewrite firstn_length; lia).
  revert l n Hn Hi. induction i as [|i IH]; intros l n Hn Hi; destruct l; destruct n; cbn in *; try lia; try reflexivity.
  apply IH; lia.
Qed.
Lemma rd_set_nth_eq l n v : (n < length l)%nat -> rd (set_nth l n v) n = v.
Proof.
  intros Hn. unfold rd, set_nth. rewrite app_nth2 by (rewrite firstn_length; lia).
  rewrite firstn_length, Nat.min_l by lia. rewrite Nat.sub_diag. reflexivity.
Qed.

Lemma insert_dummy_props V inp n : (0 < V)%nat -> ((n mod V)%nat <> 0%nat -> (n < length inp)%nat) ->
  (forall i, (i < n)%nat -> rd (insert_dummy V inp n) i = rd inp i) /\
  ((n mod V)%nat <> 0%nat -> rd (insert_dummy V inp n) n = rd inp (n - 1)).
Proof.
  intros HV Hl. unfold insert_dummy. destruct (n mod V =? 0)%nat eqn:E.
  - split; [reflexivity | intros H; apply Nat.eqb_eq in E; contradiction].
  - apply Nat.eqb_neq in E. split.
    + intros i Hi. apply rd_set_nth_lt; [apply Hl; exact E | exact Hi].
    + intros _. apply rd_set_nth_eq. apply Hl. exact E.
Qed.

Lemma seq_split_ends n : (2 <= n)%nat -> seq 0 n = 0%nat :: seq 1 (n - 2) ++ [(n - 1)%nat].
Proof.
  intros H. replace n with (1 + ((n - 2) + 1))%nat at 1 by lia. rewrite seq_app. cbn [seq app]. f_equal.
  rewrite seq_app. cbn [seq]. f_equal. f_equal. lia.
Qed.

Theorem h2v1_fancy_simd_eq_c V inp n :
  (0 < V)%nat -> (2 <= n)%nat -> bytes inp -> ((n mod V)%nat <> 0%nat -> (n < length inp)%nat) ->
  firstn (2 * n) (h2v1_fancy_simd V inp n) = h2v1_fancy_c inp n /\
  length (h2v1_fancy_simd V inp n) = (2 * round_up_nat n V)%nat.
Proof.
  intros HV Hn Hb Hl. destruct (insert_dummy_props V inp n HV Hl) as [D1 D2].
  unfold h2v1_fancy_simd.
  destruct (tri_simd_eq V inp (insert_dummy V inp n) n 1 2 2 255 HV Hn D1 D2) as [E L]; try lia.
  { intros i. apply (rd_byte inp i Hb). }
  split; [|exact L]. rewrite E. unfold h2v1_fancy_c.
  rewrite (seq_split_ends n Hn). cbn [flat_map]. rewrite flat_map_app. cbn [flat_map]. rewrite app_nil_r.
  rewrite (tri_general_spec inp n 1 2 2 (n - 2) 1) by lia.
  unfold tri_spec at 1 3. cbn [app]. replace (0 =? 0)%nat with true by reflexivity.
  replace (0 =? n - 1)%nat with false by lia. replace (n - 1 =? 0)%nat with false by lia.
  rewrite Nat.eqb_refl. replace (n - 1 - 1)%nat with (n - 2)%nat by lia. change (0 + 1)%nat with 1%nat. change (2 ^ 2) with 4.
  pose proof (rd_byte inp 0 Hb) as B0. pose proof (rd_byte inp (n - 1) Hb) as B1. unfold isbyte in *.
  f_equal; [lia|]. f_equal. f_equal. f_equal. f_equal. lia.
Qed.

Lemma rd_colsum in0 in1 n i : (i < n)%nat -> rd (colsum in0 in1 n) i = rd in0 i * 3 + rd in1 i.
Proof. intros H. unfold colsum, rd at 1. apply (nth_map_seq (fun i => rd in0 i * 3 + rd in1 i)). exact H. Qed.

Theorem h2v2_fancy_simd_eq_c V in0 in1 n :
  (0 < V)%nat -> (2 <= n)%nat -> bytes in0 -> bytes in1 ->
  ((n mod V)%nat <> 0%nat -> (n < length in0)%nat /\ (n < length in1)%nat) ->
  firstn (2 * n) (h2v2_fancy_simd V in0 in1 n) = h2v2_fancy_c in0 in1 n /\
  length (h2v2_fancy_simd V in0 in1 n) = (2 * round_up_nat n V)%nat.
Proof.
  intros HV Hn Hb0 Hb1 Hl.
  destruct (insert_dummy_props V in0 n HV (fun H => proj1 (Hl H))) as [A1 A2].
  destruct (insert_dummy_props V in1 n HV (fun H => proj2 (Hl H))) as [C1 C2].
  destruct (round_up_nat_spec n V HV) as (R1 & R2 & R3).
  unfold h2v2_fancy_simd.
  set (a := insert_dummy V in0 n) in *. set (b := insert_dummy V in1 n) in *.
  set (s' := map (fun i => wrap16 (wrap16 (rd a i * 3) + rd b i)) (seq 0 (round_up_nat n V))).
  (* the reference sums, extended by zeros: only indices below n matter *)
  set (s := colsum in0 in1 n).
  assert (Hs' : forall i, (i < round_up_nat n V)%nat -> rd s' i = rd a i * 3 + rd b i).
  { intros i Hi. unfold s', rd at 1. rewrite (nth_map_seq (fun i => wrap16 (wrap16 (rd a i * 3) + rd b i))) by exact Hi.
    assert (Ba : isbyte (rd a i)).
    { unfold a, insert_dummy. destruct (n mod V =? 0)%nat; [apply rd_byte; exact Hb0|].
      apply rd_byte. unfold set_nth, bytes. rewrite Forall_app. split; [apply Forall_firstn'; exact Hb0|].
      constructor; [apply rd_byte; exact Hb0 | apply Forall_skipn'; exact Hb0]. }
    assert (Bb : isbyte (rd b i)).
    { unfold b, insert_dummy. destruct (n mod V =? 0)%nat; [apply rd_byte; exact Hb1|].
      apply rd_byte. unfold set_nth, bytes. rewrite Forall_app. split; [apply Forall_firstn'; exact Hb1|].
      constructor; [apply rd_byte; exact Hb1 | apply Forall_skipn'; exact Hb1]. }
    unfold isbyte, wrap16 in *. rewrite (Z.mod_small (rd a i * 3)) by lia. rewrite Z.mod_small by lia. reflexivity. }
  destruct (tri_simd_eq V s s' n 8 7 4 1020 HV Hn) as [E L]; try lia.
  { intros i Hi. rewrite Hs' by lia. unfold s. rewrite rd_colsum by exact Hi. rewrite A1, C1 by exact Hi. reflexivity. }
  { intros Hm. assert (n < round_up_nat n V)%nat.
    { destruct (Nat.eq_dec n (round_up_nat n V)) as [E0|E0]; [|lia]. rewrite <- E0 in R3. contradiction. }
    rewrite Hs' by assumption. rewrite A2, C2 by exact Hm. unfold s. rewrite rd_colsum by lia. reflexivity. }
  { intros i. unfold s. destruct (Nat.lt_ge_cases i n) as [Hi|Hi].
    - rewrite rd_colsum by exact Hi. pose proof (rd_byte in0 i Hb0). pose proof (rd_byte in1 i Hb1). unfold isbyte in *. lia.
    - unfold rd, colsum. rewrite nth_overflow by (rewrite map_length, seq_length; exact Hi). lia. }
  split; [|exact L]. fold s'. rewrite E. unfold h2v2_fancy_c. fold s.
  rewrite (seq_split_ends n Hn). cbn [flat_map]. rewrite flat_map_app. cbn [flat_map]. rewrite app_nil_r.
  rewrite (tri_general_spec s n 8 7 4 (n - 2) 1) by lia.
  unfold tri_spec at 1 3. cbn [app]. replace (0 =? 0)%nat with true by reflexivity.
  replace (0 =? n - 1)%nat with false by lia. replace (n - 1 =? 0)%nat with false by lia.
  rewrite Nat.eqb_refl. replace (n - 1 - 1)%nat with (n - 2)%nat by lia. change (0 + 1)%nat with 1%nat. change (2 ^ 4) with 16.
  f_equal; [f_equal; lia|]. f_equal. f_equal. f_equal. f_equal. f_equal. lia.
Qed.

(* ---- everything these kernels touch beyond the requested columns stays inside rows padded to a
   multiple of 64 samples (alloc_sarray, ALIGN_SIZE 32): input reads up to round_up(n,V), the dummy
   store at index n, output stores up to 2*round_up(n,V) resp. round_up(output_cols,V) *)
Theorem lanes_stay_in_padded_rows V n m_in m_out :
  (V = 16 \/ V = 32)%nat -> (n <= m_in)%nat -> (2 * n <= m_out)%nat ->
  (fu_input_read V n <= round_up_nat m_in 64 /\
   (forall k, fu_input_dummy V n = Some k -> k < round_up_nat m_in 64) /\
   fu_output_written V n <= round_up_nat m_out 64 /\
   ds_output_written V n <= round_up_nat m_in 64)%nat.
Proof.
  intros HV H1 H2. unfold fu_input_read, fu_input_dummy, fu_output_written, ds_output_written.
  assert (HV0 : (0 < V)%nat) by lia.
  destruct (round_up_nat_spec n V HV0) as (A1 & A2 & A3).
  destruct (round_up_nat_spec m_in 64 ltac:(lia)) as (B1 & B2 & B3).
  destruct (round_up_nat_spec m_out 64 ltac:(lia)) as (C1 & C2 & C3).
  set (R := round_up_nat n V) in *. set (Ti := round_up_nat m_in 64) in *. set (To := round_up_nat m_out 64) in *.
  assert (D : (R <= Ti)%nat) by (destruct HV as [-> | ->]; lia).
  split; [exact D|]. split.
  - intros k. destruct (n mod V =? 0)%nat eqn:E; [discriminate|]. intros [= <-]. apply Nat.eqb_neq in E.
    assert (n <> R) by (intros Hc; rewrite <- Hc in A3; contradiction). lia.
  - split; [destruct HV as [-> | ->]; lia | exact D].
Qed.

(* ------------------------------------------------------------ h2v2 downsampling *)
Lemma h2v2_ds_loop_spec in0 in1 m : forall k,
  h2v2_ds_loop (skipn (2 * k) in0) (skipn (2 * k) in1) (1 + Z.of_nat (k mod 2)) m
  = map (fun g => (rd in0 (2 * g) + rd in0 (2 * g + 1) + rd in1 (2 * g) + rd in1 (2 * g + 1) + (1 + Z.of_nat (g mod 2))) / 4) (seq k m).
Proof.
  induction m as [|m IH]; intros k; [reflexivity|]. cbn [h2v2_ds_loop seq map].
  rewrite !rd_skipn. rewrite !skipn_add. replace (2 * k + 2)%nat with (2 * S k)%nat by lia.
  replace (Z.lxor (1 + Z.of_nat (k mod 2)) 3) with (1 + Z.of_nat (S k mod 2)).
  - rewrite IH. rewrite Nat.add_0_r. reflexivity.
  - pose proof (Nat.mod_upper_bound k 2 ltac:(lia)).
    assert (E : (S k mod 2 = 1 - k mod 2)%nat).
    { rewrite <- Nat.add_1_r. rewrite Nat.add_mod by lia. destruct (k mod 2)%nat as [|[|]]; cbn; lia. }
    rewrite E. destruct (k mod 2)%nat as [|[|]]; try lia; reflexivity.
Qed.

Lemma ds2_lane_exact a0 a1 b0 b1 bias : isbyte a0 -> isbyte a1 -> isbyte b0 -> isbyte b1 -> 0 <= bias <= 2 ->
  ds2_lane a0 a1 b0 b1 bias = (a0 + a1 + b0 + b1 + bias) / 4.
Proof.
  unfold isbyte, ds2_lane, wrap16, sat_ub. intros H0 H1 H2 H3 Hc.
  rewrite (Z.mod_small (a0 + a1)) by lia. rewrite (Z.mod_small (b0 + b1)) by lia.
  rewrite (Z.mod_small (a0 + a1 + (b0 + b1))) by lia. rewrite (Z.mod_small (a0 + a1 + (b0 + b1) + bias)) by lia.
  replace (a0 + a1 + (b0 + b1) + bias) with (a0 + a1 + b0 + b1 + bias) by lia.
  destruct (32768 <=? (a0 + a1 + b0 + b1 + bias) / 4) eqn:E; lia.
Qed.

Theorem h2v2_downsample_simd_eq_c V row0 row1 iw oc :
  (0 < V)%nat -> (V mod 2 = 0)%nat -> bytes row0 -> bytes row1 ->
  firstn oc (h2v2_downsample_simd V row0 row1 iw oc) = h2v2_downsample_c row0 row1 iw oc /\
  length (h2v2_downsample_simd V row0 row1 iw oc) = round_up_nat oc V /\
  (forall j, (oc <= j)%nat -> rd (h2v2_downsample_simd V row0 row1 iw oc) j = 0).
Proof.
  intros HV HE Hb0 Hb1. unfold h2v2_downsample_simd, h2v2_downsample_c.
  set (in0 := expand_right_edge row0 iw (2 * oc)). set (in1 := expand_right_edge row1 iw (2 * oc)).
  assert (Hi0 : bytes in0) by (apply expand_bytes; exact Hb0).
  assert (Hi1 : bytes in1) by (apply expand_bytes; exact Hb1).
  destruct (round_up_nat_spec oc V HV) as (R1 & R2 & R3).
  set (F := fun (g i : nat) => ds2_lane (ld_zfill in0 (2 * oc) (2 * g)) (ld_zfill in0 (2 * oc) (2 * g + 1))
                                        (ld_zfill in1 (2 * oc) (2 * g)) (ld_zfill in1 (2 * oc) (2 * g + 1)) (1 + Z.of_nat (i mod 2))).
  assert (E : flat_map (fun c => map (fun i => F (c * V + i)%nat i) (seq 0 V)) (seq 0 (round_up_nat oc V / V))
              = map (fun g => F g (g mod V)%nat) (seq 0 (round_up_nat oc V))).
  { rewrite (map_as_flat_map (fun g => F g (g mod V)%nat)). rewrite <- R2 at 2.
    rewrite <- (flat_map_chunks (fun g i => [F g i]) V _ HV).
    apply flat_map_ext_in'. intros c _. apply map_as_flat_map. }
  unfold F in E. rewrite E. clear E. split; [|split].
  - rewrite firstn_map. rewrite firstn_seq' by lia.
    pose proof (h2v2_ds_loop_spec in0 in1 oc 0) as S. change (skipn (2 * 0) in0) with in0 in S. change (skipn (2 * 0) in1) with in1 in S.
    change (1 + Z.of_nat (0 mod 2)) with 1 in S. rewrite S.
    apply map_ext_in. intros g Hg. apply in_seq in Hg.
    unfold ld_zfill. replace (2 * g <? 2 * oc)%nat with true by lia. replace (2 * g + 1 <? 2 * oc)%nat with true by lia.
    rewrite mod2_of_modV by assumption.
    apply ds2_lane_exact; try apply rd_byte; try assumption.
    pose proof (Nat.mod_upper_bound g 2 ltac:(lia)). lia.
  - rewrite map_length, seq_length. reflexivity.
  - intros j Hj. unfold rd. destruct (Nat.lt_ge_cases j (round_up_nat oc V)) as [Hlt | Hge].
    + rewrite nth_map_seq by exact Hlt.
      unfold ld_zfill. replace (2 * j <? 2 * oc)%nat with false by lia. replace (2 * j + 1 <? 2 * oc)%nat with false by lia.
      pose proof (Nat.mod_upper_bound (j mod V) 2 ltac:(lia)).
      unfold ds2_lane, wrap16, sat_ub. destruct ((j mod V) mod 2)%nat as [|[|]]; try lia; reflexivity.
    + apply nth_overflow. rewrite map_length, seq_length. exact Hge.
Qed.
