(* C13 -- the destination manager cannot tell how the producer cuts its output into chunks:
   storing a chunk through the jchuff.c STORE_BUFFER protocol is the same as emitting its bytes
   one by one, so the whole world after a call (heap, log, result) is a function of the byte
   string alone.  This is what lets the correspondence stand a 256-byte chunk producer in for
   the real entropy encoders. *)
From Coq Require Import List ZArith Bool Lia.
From LJT Require Import gen.GenDest model.Dest proofs.DestProofs.
Import ListNotations.
Local Open Scope Z_scope.

Fixpoint put_bytes (m : mgr) (xs : list Z) (w : world) (d : dest) : world * dest * option status :=
  match xs with
  | [] => (w, d, None)
  | x :: t => match put_byte m x w d with
              | (w1, d1, None) => put_bytes m t w1 d1
              | r => r
              end
  end.

Fixpoint h_writes (h : heap) (a off : Z) (xs : list Z) : heap :=
  match xs with [] => h | x :: t => h_writes (h_write h a off x) a (off + 1) t end.

Definition adv (d : dest) (k : Z) : dest :=
  mkD (d_buffer d) (d_bufsize d) (d_newbuffer d) (d_alloc d) (d_next_base d) (d_next_off d + k) (d_free d - k).

(* ---- block updates compose *)
Lemma upd_addr_ext a f g bs : (forall b, f b = g b) -> upd_addr a f bs = upd_addr a g bs.
Proof.
  intros H. induction bs as [|b t IH]; [reflexivity|]. cbn [upd_addr]. rewrite H, IH. reflexivity.
Qed.
Lemma upd_addr_comp a f g bs : (forall b, b_addr (f b) = b_addr b) ->
  upd_addr a g (upd_addr a f bs) = upd_addr a (fun b => g (f b)) bs.
Proof.
  intros Hf. induction bs as [|b t IH]; [reflexivity|]. cbn [upd_addr].
  destruct (addr_is a b) eqn:E; cbn [upd_addr].
  - assert (E' : addr_is a (f b) = true) by (unfold addr_is in *; rewrite Hf; exact E). rewrite E'. reflexivity.
  - rewrite E, IH. reflexivity.
Qed.

Lemma putn_cons off x t b : putn off (x :: t) b = putn (off + 1) t (put1 off x b).
Proof.
  unfold putn, put1, set_data. cbn [b_id b_addr b_size b_owner b_freed b_handed b_known b_data].
  rewrite take_known_same. cbn [rev_append length]. f_equal. lia.
Qed.
Lemma putn_nil off b : b_known b = off -> putn off [] b = b.
Proof.
  intros H. unfold putn, set_data. cbn [length rev_append]. rewrite <- H, take_known_same, Z.add_0_r.
  destruct b; reflexivity.
Qed.

(* memcpy of a chunk that fits = the same bytes written one by one *)
Lemma write_list_writes : forall xs h a off b,
  blk h a = Some b -> b_freed b = false -> b_known b = off -> 0 <= off ->
  off + Z.of_nat (length xs) <= b_size b ->
  h_write_list h a off xs = h_writes h a off xs.
Proof.
  induction xs as [|x t IH]; intros h a off b Hb Hl Hk H0 Hfit; [reflexivity|].
  cbn [h_writes].
  assert (Hw : h_write h a off x = h_upd a (put1 off x) h).
  { unfold h_write. rewrite (live_some _ _ _ Hb Hl).
    assert (E : (0 <=? off) && (off <? b_size b) = true).
    { apply andb_true_intro. split; [apply Z.leb_le; lia|apply Z.ltb_lt]. cbn [length] in Hfit. lia. }
    rewrite E. reflexivity. }
  rewrite Hw.
  assert (Hb1 : blk (h_upd a (put1 off x) h) a = Some (put1 off x b)).
  { rewrite blk_upd by apply addr_put1. rewrite Z.eqb_refl, Hb. reflexivity. }
  rewrite <- (IH (h_upd a (put1 off x) h) a (off + 1) (put1 off x b) Hb1 Hl eq_refl ltac:(lia)).
  2: { cbn [length] in Hfit. change (b_size (put1 off x b)) with (b_size b). lia. }
  unfold h_write_list at 1. rewrite (live_some _ _ _ Hb Hl).
  assert (E : (0 <=? off) && (off + Z.of_nat (length (x :: t)) <=? b_size b) = true).
  { apply andb_true_intro. split; apply Z.leb_le; lia. }
  rewrite E.
  destruct t as [|y t'].
  - cbn [h_write_list]. unfold h_upd. cbn [h_blocks]. f_equal.
  - unfold h_write_list. rewrite (live_some _ _ _ Hb1 Hl).
    assert (E2 : (0 <=? off + 1) && (off + 1 + Z.of_nat (length (y :: t')) <=? b_size (put1 off x b)) = true).
    { apply andb_true_intro. change (b_size (put1 off x b)) with (b_size b). cbn [length] in *. split; apply Z.leb_le; lia. }
    rewrite E2. unfold h_upd. cbn [h_blocks h_fresh h_nextid h_lastfreed h_log]. f_equal.
    rewrite upd_addr_comp by apply addr_put1. apply upd_addr_ext. intros b0. apply putn_cons.
Qed.

(* ---- bytes one by one, as long as the buffer does not fill up *)
Lemma set_heap_set_heap h h' w : set_heap h (set_heap h' w) = set_heap h w.
Proof. reflexivity. Qed.

Lemma bytes_nofull m : forall xs w d, Z.of_nat (length xs) < d_free d ->
  put_bytes m xs w d =
  (set_heap (h_writes (w_heap w) (d_next_base d) (d_next_off d) xs) w, adv d (Z.of_nat (length xs)), None).
Proof.
  induction xs as [|x t IH]; intros w d H.
  - cbn [put_bytes h_writes length Z.of_nat]. unfold adv. rewrite Z.add_0_r, Z.sub_0_r.
    destruct w, d; reflexivity.
  - cbn [put_bytes]. unfold put_byte. cbn [length] in H.
    rewrite sub_size_t_le by lia.
    assert (E : d_free d - 1 =? 0 = false) by (apply Z.eqb_neq; lia). rewrite E.
    rewrite IH by (cbn [d_free]; lia).
    cbn [w_heap set_heap d_next_base d_next_off h_writes]. rewrite set_heap_set_heap.
    unfold adv. cbn [d_buffer d_bufsize d_newbuffer d_alloc d_next_base d_next_off d_free length].
    f_equal. f_equal. f_equal; lia.
Qed.

(* ... and when the last byte fills it *)
Lemma bytes_full m : forall xs w d, xs <> [] -> Z.of_nat (length xs) = d_free d ->
  put_bytes m xs w d =
  empty_output_buffer m (set_heap (h_writes (w_heap w) (d_next_base d) (d_next_off d) xs) w)
                        (adv d (Z.of_nat (length xs))).
Proof.
  induction xs as [|x t IH]; intros w d Hne H; [contradiction|].
  cbn [put_bytes]. unfold put_byte. cbn [length] in H. rewrite sub_size_t_le by lia.
  destruct t as [|y t'].
  - cbn [length] in H. assert (E : d_free d - 1 =? 0 = true) by (apply Z.eqb_eq; lia). rewrite E.
    cbn [h_writes length]. change (Z.of_nat 1) with 1. unfold adv.
    destruct (empty_output_buffer m _ _) as [[w1 d1] [st|]]; reflexivity.
  - assert (E : d_free d - 1 =? 0 = false) by (apply Z.eqb_neq; cbn [length] in H; lia). rewrite E.
    rewrite IH; [|discriminate|cbn [d_free length] in *; lia].
    cbn [w_heap set_heap d_next_base d_next_off h_writes]. rewrite set_heap_set_heap.
    unfold adv. cbn [d_buffer d_bufsize d_newbuffer d_alloc d_next_base d_next_off d_free].
    f_equal. f_equal; cbn [length]; lia.
Qed.

Lemma put_bytes_app m : forall xs ys w d,
  put_bytes m (xs ++ ys) w d =
  match put_bytes m xs w d with
  | (w1, d1, None) => put_bytes m ys w1 d1
  | r => r
  end.
Proof.
  induction xs as [|x t IH]; intros ys w d; [reflexivity|].
  cbn [app put_bytes]. destruct (put_byte m x w d) as [[w1 d1] [st|]]; [reflexivity|apply IH].
Qed.

(* the state the cursor facts of Jg give to the write lemmas *)
Lemma Jg_block h cur buf d wr : Jg h cur buf d wr ->
  exists b, blk h (d_next_base d) = Some b /\ b_freed b = false /\ b_known b = d_next_off d /\
            0 <= d_next_off d /\ d_next_off d + d_free d <= b_size b.
Proof.
  intros (W & NB & (b & OK & Hk & Hd) & Hbase & Hfr & Hoff & Hlen).
  destruct OK as (Hb & Hl & Hs & _). exists b. rewrite Hbase. repeat split; try assumption; lia.
Qed.

(* ---- STORE_BUFFER, local-buffer branch = byte by byte *)
Lemma store_local_bytes m : forall fuel xs w d wr,
  J (w_heap w) (w_cur w) (w_buf w) d wr -> (length xs < fuel)%nat ->
  store_local fuel m xs w d = put_bytes m xs w d.
Proof.
  induction fuel as [|f IH]; intros xs w d wr HJ Hlen; [lia|].
  destruct xs as [|x0 xs']; [reflexivity|].
  cbn [store_local]. set (xs := x0 :: xs') in *.
  assert (Hnz : (0 < length xs)%nat) by (cbn; lia).
  pose proof HJ as (HG & Hpos).
  destruct (Jg_block _ _ _ _ _ HG) as (b & Hb & Hl & Hk & H0 & Hroom).
  set (n := Z.min (Z.of_nat (length xs)) (d_free d)).
  assert (Hn : 1 <= n <= Z.of_nat (length xs) /\ n <= d_free d) by (unfold n; lia).
  set (xs1 := firstn (Z.to_nat n) xs). set (xs2 := skipn (Z.to_nat n) xs).
  assert (Hl1 : Z.of_nat (length xs1) = n) by (unfold xs1; rewrite firstn_length_le by lia; lia).
  assert (Hl2 : (length xs2 < f)%nat) by (unfold xs2; rewrite skipn_length; lia).
  assert (Hcat : xs1 ++ xs2 = xs) by apply firstn_skipn.
  assert (Hne1 : xs1 <> []) by (intros E; rewrite E in Hl1; cbn in Hl1; lia).
  assert (Hwl : h_write_list (w_heap w) (d_next_base d) (d_next_off d) xs1 =
                h_writes (w_heap w) (d_next_base d) (d_next_off d) xs1).
  { apply write_list_writes with (b := b); try assumption. lia. }
  rewrite Hwl.
  change (mkD (d_buffer d) (d_bufsize d) (d_newbuffer d) (d_alloc d) (d_next_base d) (d_next_off d + n) (d_free d - n))
    with (adv d n).
  replace (put_bytes m xs w d) with (put_bytes m (xs1 ++ xs2) w d) by (rewrite Hcat; reflexivity).
  rewrite put_bytes_app.
  cbn [d_free adv].
  destruct (d_free d - n =? 0) eqn:E.
  - apply Z.eqb_eq in E.
    rewrite (bytes_full m xs1 w d Hne1 ltac:(lia)), Hl1.
    pose proof (write_list_ok _ _ _ _ _ xs1 HG ltac:(lia)) as HW. rewrite Hwl, Hl1 in HW.
    pose proof (empty_ok m (set_heap (h_writes (w_heap w) (d_next_base d) (d_next_off d) xs1) w) (adv d n) (wr ++ xs1) HW E) as HE.
    destruct (empty_output_buffer m _ (adv d n)) as [[w2 d2] [st|]]; [reflexivity|].
    destruct HE as (F & HJ2). pose proof (framed_cur _ _ F) as (Fc & Fb & _).
    apply IH with (wr := wr ++ xs1); [|exact Hl2].
    rewrite Fc, Fb. exact HJ2.
  - apply Z.eqb_neq in E.
    assert (Hall : n = Z.of_nat (length xs)) by (unfold n in *; lia).
    assert (Hx2 : xs2 = []).
    { unfold xs2. apply skipn_all2. lia. }
    rewrite Hx2. cbn [put_bytes]. destruct f; [cbn [store_local]|cbn [store_local]];
      rewrite (bytes_nofull m xs1 w d ltac:(lia)), Hl1; reflexivity.
Qed.

(* LOAD_BUFFER/STORE_BUFFER as a whole *)
Lemma put_chunk_bytes m xs w d wr : J (w_heap w) (w_cur w) (w_buf w) d wr ->
  Z.of_nat (length xs) < huff_local_bufsize -> put_chunk m xs w d = put_bytes m xs w d.
Proof.
  intros HJ Hlen. unfold put_chunk. destruct (d_free d <? huff_local_bufsize) eqn:E.
  - apply store_local_bytes with (wr := wr); [exact HJ|lia].
  - apply Z.ltb_ge in E. destruct HJ as (HG & Hpos).
    destruct (Jg_block _ _ _ _ _ HG) as (b & Hb & Hl & Hk & H0 & Hroom).
    rewrite (write_list_writes xs _ _ _ b Hb Hl Hk H0 ltac:(lia)).
    rewrite sub_size_t_le by lia. rewrite (bytes_nofull m xs w d ltac:(lia)). reflexivity.
Qed.

(* ---- whole producers *)
Definition as_bytes (ops : list pop) : list pop := map PByte (bytes_of ops).

Lemma run_ops_bytes m : forall xs rest w d,
  run_ops m (map PByte xs ++ rest) w d =
  match put_bytes m xs w d with
  | (w1, d1, None) => run_ops m rest w1 d1
  | (w1, d1, Some st) => (w1, d1, st)
  end.
Proof.
  induction xs as [|x t IH]; intros rest w d; [reflexivity|].
  cbn [map app run_ops run_op put_bytes]. destruct (put_byte m x w d) as [[w1 d1] [st|]]; [reflexivity|apply IH].
Qed.

Lemma run_ops_as_bytes m : forall ops w d wr,
  J (w_heap w) (w_cur w) (w_buf w) d wr -> forallb chunk_ok ops = true -> forallb no_abort ops = true ->
  run_ops m ops w d = run_ops m (as_bytes ops) w d.
Proof.
  induction ops as [|o t IH]; intros w d wr HJ Hc Ha; [reflexivity|].
  cbn [forallb] in Hc, Ha. apply andb_true_iff in Hc as (Hc1 & Hc2). apply andb_true_iff in Ha as (Ha1 & Ha2).
  unfold as_bytes. cbn [bytes_of flat_map]. fold (bytes_of t). rewrite map_app, run_ops_bytes. fold (as_bytes t).
  cbn [run_ops].
  assert (Hop : run_op m o w d = put_bytes m (bytes_of_op o) w d).
  { destruct o as [x|xs|]; cbn [run_op bytes_of_op put_bytes].
    - destruct (put_byte m x w d) as [[w1 d1] [st|]]; reflexivity.
    - apply put_chunk_bytes with (wr := wr); [exact HJ|]. cbn [chunk_ok] in Hc1. apply Z.ltb_lt. exact Hc1.
    - discriminate. }
  rewrite <- Hop.
  assert (Step : match run_op m o w d with
                 | (w1, d1, None) => framed w w1 /\ J (w_heap w1) (w_cur w) (w_buf w) d1 (wr ++ bytes_of_op o)
                 | _ => True
                 end).
  { destruct o as [x|xs|]; cbn [run_op bytes_of_op].
    - pose proof (put_byte_ok m w d wr x HJ) as H. destruct (put_byte m x w d) as [[w1 d1] [st|]]; [exact I|exact H].
    - cbn [chunk_ok] in Hc1. apply Z.ltb_lt in Hc1.
      pose proof (put_chunk_ok m w d wr xs HJ Hc1) as H. destruct (put_chunk m xs w d) as [[w1 d1] [st|]]; [exact I|exact H].
    - exact I. }
  destruct (run_op m o w d) as [[w1 d1] [st|]]; [reflexivity|].
  destruct Step as (F & HJ1). pose proof (framed_cur _ _ F) as (Fc & Fb & _).
  apply IH with (wr := wr ++ bytes_of_op o); [rewrite Fc, Fb; exact HJ1|exact Hc2|exact Ha2].
Qed.

(* two producers with the same byte string are indistinguishable: the whole world after the
   call is the same (heap contents, every malloc/free event, the result) *)
Theorem chunking_irrelevant_all c hs alloc ops1 ops2 : good_cfg c ->
  w_ok (run c (hs ++ [HCall alloc ops1])) = true -> forallb hop_chunks_ok hs = true ->
  forallb chunk_ok ops1 = true -> forallb no_abort ops1 = true ->
  forallb chunk_ok ops2 = true -> forallb no_abort ops2 = true ->
  bytes_of ops1 = bytes_of ops2 ->
  run c (hs ++ [HCall alloc ops1]) = run c (hs ++ [HCall alloc ops2]).
Proof.
  intros G Hok Hch Hc1 Ha1 Hc2 Ha2 Hb. pose proof G as (Hrb & G'). rewrite !run_snoc in *.
  pose proof (hop_mono _ _ _ Hok) as Hok0.
  pose proof (hist_ok c G hs world0 Inv0 Hok0 Hch) as HI.
  set (w := run c hs) in *. cbn [run_hop] in *. rewrite run_call_frame in Hok.
  apply flag_if_ok in Hok as (Hz & Hok). apply flag_if_ok in Hok as (Hp & _).
  apply negb_false_iff in Hp. rewrite Hp in *. cbn [negb flag_if] in *. rewrite Hz. cbn [flag_if].
  unfold run_call, run_call_st.
  set (w0 := set_cur (w_buf w) w).
  assert (MD : match mem_dest c alloc w0 with (w1, None) => MDpost c alloc w0 w1 | _ => True end).
  { destruct (cf_mgr c) eqn:Hm.
    - assert (Hclr : cf_clr c = true) by (destruct G' as [H|H]; [congruence|exact H]).
      pose proof (mem_dest_tj_ok c alloc w0 Hm Hclr Hrb HI eq_refl Hp Hz) as H.
      destruct (mem_dest c alloc w0) as [w1 [st|]]; [exact I|exact H].
    - pose proof (mem_dest_ijg_ok c alloc w0 Hm Hrb HI eq_refl Hp) as H.
      destruct (mem_dest c alloc w0) as [w1 [st|]]; [exact I|exact H]. }
  destruct (mem_dest c alloc w0) as [w1 [st|]]; [reflexivity|].
  destruct MD as (d1 & Hd1 & HJ1 & _). rewrite Hd1.
  rewrite (run_ops_as_bytes (cf_mgr c) ops1 w1 d1 [] HJ1 Hc1 Ha1).
  rewrite (run_ops_as_bytes (cf_mgr c) ops2 w1 d1 [] HJ1 Hc2 Ha2).
  unfold as_bytes. rewrite Hb. reflexivity.
Qed.
