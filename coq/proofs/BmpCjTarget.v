(* C18 -- the colour space cjpeg's BMP reader ends up with is grayscale (gray palette) or RGB; hence the
   all-byte-strings theorem for that reader needs no hypothesis about the target. *)
From Coq Require Import List ZArith Lia Bool ZifyBool.
From LJT Require Import gen.GenPnm model.Pnm model.Bmp proofs.PnmProofs proofs.BmpProofs.
Import ListNotations.
Local Open Scope Z_scope.

(* the colormap step: with want = None the resolved request is None or Some TGray *)
Lemma cj_cmap_step (bpp hsize clrused bpad : Z) (s3 : list Z) cm want1 bpad1 s4 :
  (let mapentry := if bpp =? 8 then (if hsize =? 12 then 3 else 4) else 0 in
   if mapentry >? 0 then
     let n := if clrused <=? 0 then 256 else clrused in
     if n >? 256 then BErr B_BADCMAP else
     let? (cmb, s4) := take (n * mapentry) s3 in
     let cm := parse_cmap (Z.to_nat n) mapentry cmb in
     let gray := is_gray_cmap cm in
     let want1 := match @None target with None => if gray then Some TGray else None | _ => None end in
     if is_gray_t want1 && negb gray then BErr B_BADCS
     else BOk (cm, want1, bpad - n * mapentry, s4)
   else BOk ([], @None target, bpad, s3)) = BOk (cm, want1, bpad1, s4) ->
  want1 = None \/ want1 = Some TGray.
Proof.
  cbv zeta. destruct (_ >? 0); [|intro H; inversion H; auto].
  destruct (_ >? 256); [discriminate|]. unfold bbind. destruct (take _ s3) as [[cmb s4']|]; [|discriminate].
  destruct (is_gray_cmap _); cbn [is_gray_t negb andb]; intro H; inversion H; auto.
Qed.

(* the target step *)
Lemma cj_target_step bpp want1 t : want1 = None \/ want1 = Some TGray ->
  (if bpp =? 8 then BOk (match want1 with None => ext_rgb | Some t => t end)
   else match want1 with
        | None => BOk (if true then ext_rgb else if bpp =? 24 then ext_bgr else ext_bgra)
        | Some TGray => BErr B_BADCS
        | Some t => BOk t
        end) = BOk t -> t = TGray \/ t = ext_rgb.
Proof.
  intros [-> | ->]; destruct (bpp =? 8); intro H; inversion H; auto.
Qed.

Lemma bmp_header_cj_target maxpixels s hd s' : bmp_header true maxpixels None s = BOk (hd, s') ->
  b_t hd = TGray \/ b_t hd = ext_rgb.
Proof.
  unfold bmp_header, bbind.
  destruct (take 14 s) as [[fh s1]|]; [|discriminate].
  destruct (negb (get2 fh 0 =? 19778)); [discriminate|].
  destruct (take 4 s1) as [[ih0 s2]|]; [|discriminate].
  destruct ((s32 (get4 ih0 0) <? 12) || (s32 (get4 ih0 0) >? 64) || (s32 (get4 ih0 0) + 14 >? s32 (get4 fh 10))); [discriminate|].
  destruct (take (s32 (get4 ih0 0) - 4) s2) as [[ih1 s3]|]; [|discriminate].
  match goal with |- match ?X with _ => _ end = _ -> _ =>
    destruct X as [[[[[w h] planes] bpp] clrused]|]; [|discriminate] end.
  match goal with |- context [if ?c then BErr B_EMPTY else _] => destruct c end; [discriminate|].
  match goal with |- context [if ?c then BErr B_TOOBIG else _] => destruct c end; [discriminate|].
  match goal with |- context [if ?c then BErr B_BADPLANES else _] => destruct c end; [discriminate|].
  match goal with |- match ?X with _ => _ end = _ -> _ =>
    destruct X as [[[[cm want1] bpad1] s4]|] eqn:EC; [|discriminate] end.
  apply cj_cmap_step in EC.
  match goal with |- context [if ?c then BErr B_BADHEADER else _] => destruct c end; [discriminate|].
  destruct (take bpad1 s4) as [[pad s5]|]; [|discriminate].
  match goal with |- match ?X with _ => _ end = _ -> _ =>
    destruct X as [t|] eqn:ET; [|discriminate] end.
  apply (cj_target_step bpp want1 t EC) in ET.
  repeat match goal with |- context [if ?c then BErr B_WIDTH else _] => destruct c; [discriminate|] end.
  intro H. inversion H; subst. exact ET.
Qed.

(* the all-byte-strings theorem for cjpeg's BMP reader, without any hypothesis on the target *)
Theorem load_bmp_cj_safe cmyk maxpixels s : bytes s ->
  match load_bmp_cj cmyk maxpixels s with
  | BOk (w, h, t, rows) =>
    (t = TGray \/ t = ext_rgb) /\ 1 <= w /\ 1 <= h /\ (maxpixels = 0 \/ w * h <= maxpixels) /\ length rows = Z.to_nat h /\
    Forall (fun row => Forall (fun x => 0 <= x <= 255) row /\ length row = (Z.to_nat w * Z.to_nat (target_ps t))%nat) rows
  | BErr e => e <> B_OOB
  end.
Proof.
  intro B. pose proof (load_bmp_cj_spec cmyk maxpixels s B) as S.
  destruct (load_bmp_cj cmyk maxpixels s) as [[[[w h] t] rows]|e] eqn:E; [|exact S].
  assert (Ht : t = TGray \/ t = ext_rgb).
  { unfold load_bmp_cj, bbind in E.
    destruct (bmp_header true maxpixels None s) as [[hd s1]|] eqn:EH; [|discriminate].
    destruct (bmp_preload hd _ s1); [|discriminate]. destruct (bmp_serve cmyk hd _); [|discriminate].
    inversion E; subst. eapply bmp_header_cj_target; exact EH. }
  destruct S as (H1 & H2 & H3 & H4 & H5). split; [exact Ht|]. split; [exact H1|]. split; [exact H2|].
  split; [exact H3|]. split; [exact H4|]. apply H5. destruct Ht as [-> | ->]; exact I.
Qed.
