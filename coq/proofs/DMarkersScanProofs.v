(* DMarkersScanProofs.v -- proofs about model/DMarkers.v (C01), part 2:
   first-scan set-up (per_scan_setup, latch_quant_tables, entropy start_pass) and
   the tables that reach jpeg_make_d_derived_tbl. *)
From Coq Require Import List ZArith Bool Lia ZifyBool.
From LJT Require Import gen.GenLimits model.Huff model.DMarkers proofs.DMarkersProofs.
Import ListNotations.
Local Open Scope Z_scope.
Ltac Zify.zify_post_hook ::= Z.div_mod_to_equations.

(* ------------------------------------------------- derived-table validity *)
Lemma huffsizes_spec : forall bs l p r, p <= 256 -> huffsizes bs l p = Some r ->
  Z.of_nat (length r) = sumZ bs /\ p + sumZ bs <= 256 /\ Forall (fun b => 0 <= b) bs.
Proof.
  induction bs as [|b t IH]; intros l p r Hp H; cbn [huffsizes] in H.
  - inversion H; subst. cbn. split; [reflexivity|]. split; [|constructor].
    cbn. lia.
  - destruct ((b <? 0) || (p + b >? 256)) eqn:E; [discriminate|].
    destruct (huffsizes t (l + 1) (p + b)) as [r'|] eqn:E2; [|discriminate].
    inversion H; subst. assert (Hp2 : p + b <= 256) by lia. destruct (IH _ _ _ Hp2 E2) as (A & B & C).
    cbn [sumZ]. rewrite app_length, repeat_length. split; [lia|]. split; [lia|]. constructor; [lia|auto].
Qed.

(* a derived table as the entropy decoders use it: its symbols are bytes, at most 256 of
   them; a DC table only has categories 0..maxdc *)
Definition dtbl_ok (d : dtbl) : Prop := Forall byte (d_vals d) /\ (length (d_vals d) <= 256)%nat.

Lemma Forall_firstn {A} (P : A -> Prop) n l : Forall P l -> Forall P (firstn n l).
Proof. revert l; induction n; intros l H; cbn; auto. destruct l; auto. inversion H; subst. constructor; auto. Qed.

Lemma make_d_derived_spec bits vals isDC maxdc d :
  make_d_derived bits vals isDC maxdc = Some d ->
  exists n, d_vals d = firstn n vals /\
            Z.of_nat n = sumZ (skipn 1 (firstn 17 bits)) /\ Z.of_nat n <= 256 /\
            Forall (fun b => 0 <= b) (skipn 1 (firstn 17 bits)) /\
            (isDC = true -> Forall (fun s => 0 <= s <= maxdc) (d_vals d)).
Proof.
  unfold make_d_derived. intros H.
  destruct (huffsizes (skipn 1 (firstn 17 bits)) 1 0) as [sizes|] eqn:E1; [|discriminate].
  destruct (gen_codes sizes) as [codes|]; [|discriminate].
  destruct (isDC && negb _) eqn:E2; [discriminate|].
  inversion H; subst; clear H. cbn [d_vals].
  destruct (huffsizes_spec _ 1 0 _ ltac:(lia) E1) as (A & B & C).
  exists (length sizes). split; [reflexivity|]. split; [exact A|]. split; [lia|]. split; [exact C|].
  intros ->. cbn in E2. apply negb_false_iff in E2. rewrite forallb_forall in E2.
  apply Forall_forall. intros x Hx. specialize (E2 x Hx). lia.
Qed.

Lemma make_d_derived_ok bits vals isDC maxdc d :
  htbl_ok (bits, vals) -> make_d_derived bits vals isDC maxdc = Some d -> dtbl_ok d.
Proof.
  intros (A & B & C & D & E) H. cbn [fst snd] in *.
  destruct (make_d_derived_spec _ _ _ _ _ H) as (n & H1 & H2 & H3 & _).
  unfold dtbl_ok. rewrite H1. split; [apply Forall_firstn; auto|]. rewrite firstn_length. lia.
Qed.

(* ---------------------------------------------------------- std_huff_tables *)
Definition byteb (b : Z) : bool := (0 <=? b) && (b <=? 255).
Definition htbl_okb (t : htbl) : bool :=
  (length (fst t) =? 17)%nat && forallb byteb (fst t) && (length (snd t) =? 256)%nat && forallb byteb (snd t) &&
  (sumZ (skipn 1 (fst t)) <=? 256).
Lemma htbl_okb_sound t : htbl_okb t = true -> htbl_ok t.
Proof.
  unfold htbl_okb, htbl_ok. rewrite !andb_true_iff. intros ((((A & B) & C) & D) & E).
  apply Nat.eqb_eq in A. apply Nat.eqb_eq in C.
  rewrite forallb_forall in B, D.
  repeat split; auto; try lia; apply Forall_forall; intros x Hx; unfold byte;
    [specialize (B x Hx) | specialize (D x Hx)]; unfold byteb in *; lia.
Qed.

Definition std_entry_ok (e : bool * Z * list Z * list Z) : Prop :=
  match e with (_, slot, bits, vals) => 0 <= slot < 4 /\ htbl_ok (bits, pad256 vals) end.

Lemma std_huff_ok : Forall std_entry_ok std_huff.
Proof.
  assert (H : forallb (fun e => match e with (_, slot, bits, vals) =>
              (0 <=? slot) && (slot <? 4) && htbl_okb (bits, pad256 vals) end) std_huff = true) by (vm_compute; reflexivity).
  rewrite forallb_forall in H. apply Forall_forall. intros [[[i sl] b] v] Hx. specialize (H _ Hx). cbn in H.
  rewrite !andb_true_iff in H. destruct H as ((A & B) & C). split; [lia|]. apply htbl_okb_sound; auto.
Qed.

Lemma std_fill1_ok dc ac e : std_entry_ok e -> Forall (opt_ok htbl_ok) dc -> Forall (opt_ok htbl_ok) ac ->
  Forall (opt_ok htbl_ok) (fst (std_fill1 dc ac e)) /\ Forall (opt_ok htbl_ok) (snd (std_fill1 dc ac e)).
Proof.
  destruct e as [[[i sl] b] v]. intros [_ Hok] Hd Ha. unfold std_fill1. destruct i; cbn [fst snd].
  - split; auto. destruct (nthd dc sl None); auto. unfold updz. apply Forall_upd; auto.
  - split; auto. destruct (nthd ac sl None); auto. unfold updz. apply Forall_upd; auto.
Qed.

Lemma std_fold_ok : forall l p, Forall std_entry_ok l ->
  Forall (opt_ok htbl_ok) (fst p) -> Forall (opt_ok htbl_ok) (snd p) ->
  Forall (opt_ok htbl_ok) (fst (fold_left (fun p e => std_fill1 (fst p) (snd p) e) l p)) /\
  Forall (opt_ok htbl_ok) (snd (fold_left (fun p e => std_fill1 (fst p) (snd p) e) l p)).
Proof.
  induction l as [|e l IH]; intros p Hl Hd Ha; cbn [fold_left]; auto.
  inversion Hl as [|e' l' He Hl']; subst.
  destruct (std_fill1_ok (fst p) (snd p) e He Hd Ha) as [A B]. apply IH; auto.
Qed.

Lemma std_fill_spec h : hdr_ok h ->
  hdr_ok (std_fill h) /\ h_frame (std_fill h) = h_frame h /\ h_scan h = h_scan (std_fill h) /\
  saw_SOF (std_fill h) = saw_SOF h /\ q_tbls (std_fill h) = q_tbls h /\ h_ri (std_fill h) = h_ri h.
Proof.
  intros (H1 & H2 & H3). unfold std_fill.
  pose proof (std_fold_ok std_huff (dc_tbls h, ac_tbls h) std_huff_ok H2 H3) as G.
  destruct (fold_left _ std_huff (dc_tbls h, ac_tbls h)) as [dc ac]. cbn [fst snd] in G. destruct G as [G1 G2].
  cbn. split; [|repeat split; reflexivity]. unfold hdr_ok; cbn. split; [exact H1|]. split; assumption.
Qed.

(* ------------------------------------------------------------ per_scan_setup *)
Lemma L_member_fill : forall k blocks ci, 0 <= blocks -> blocks + Z.of_nat k <= 10 ->
  post (member_fill k blocks ci) (fun m => length m = k /\ Forall (fun x => x = ci) m).
Proof.
  induction k; intros blocks ci H0 H1; cbn [member_fill].
  - apply post_ret. auto.
  - plog. eapply post_bind; [apply IHk; lia|]. intros r [A B]. apply post_ret. cbn. auto.
Qed.

Lemma comp_at_ok h ci : Forall comp_ok (f_comps (h_frame h)) -> comp_ok (comp_at h ci).
Proof. intros H. unfold comp_at, nthd. apply Forall_nth; auto using comp0_ok. Qed.

Lemma L_psetup_loop h : Forall comp_ok (f_comps (h_frame h)) -> forall cur ci blocks,
  0 <= ci -> ci + Z.of_nat (length cur) <= 4 -> 0 <= blocks <= 10 ->
  post (psetup_loop cur ci h blocks)
       (fun p => blocks <= fst p <= 10 /\ Z.of_nat (length (snd p)) = fst p - blocks /\
                 Forall (fun x => ci <= x < ci + Z.of_nat (length cur)) (snd p)).
Proof.
  intros Hc. induction cur as [|cidx t IH]; intros ci blocks H0 H1 H2; cbn [psetup_loop].
  - apply post_ret. cbn. repeat split; auto; lia.
  - cbn [length] in H1. plog. cbv zeta.
    pose proof (comp_at_ok h cidx Hc) as (_ & Hh & Hv & _). unfold nib in *.
    dif; [pfail|].
    eapply post_bind; [apply L_member_fill; [lia|]; ulia|]. intros m1 [A B].
    eapply post_bind; [apply IH; try lia; ulia|]. intros [b m2] (C & D & E). cbn [fst snd] in *.
    apply post_ret. cbn [fst snd]. split; [nia|]. split.
    + rewrite app_length. nia.
    + apply Forall_app. split.
      * eapply Forall_impl; [|exact B]. cbv beta. intros; subst. cbn [length]. lia.
      * eapply Forall_impl; [|exact E]. cbv beta. intros. cbn [length]. lia.
Qed.

Definition scaninfo_ok (sc : scan) (si : scaninfo) : Prop :=
  0 <= si_blocks si <= 10 /\ Z.of_nat (length (si_member si)) = si_blocks si /\
  Forall (fun x => 0 <= x < s_n sc) (si_member si).

Lemma L_per_scan_setup h su : accepted_header h su -> post (per_scan_setup h su) (scaninfo_ok (h_scan h)).
Proof.
  intros (A1 & A2 & A3 & A4 & A5 & A6 & A7 & (S1 & S2 & S3 & S4) & _).
  unfold per_scan_setup. cbv zeta. dif.
  - plog. plog. apply post_ret. unfold scaninfo_ok; cbn. repeat split; try lia. constructor; [lia|constructor].
  - dif; [pfail|].
    eapply post_bind; [apply L_psetup_loop; auto; lia|]. intros [b m] (C & D & E). cbn [fst snd] in *.
    apply post_ret. unfold scaninfo_ok; cbn.
    split; [lia|].
    split; [lia|]. eapply Forall_impl; [|exact E]. cbv beta. intros. lia.
Qed.

(* ------------------------------------------------------- latch_quant_tables *)
Lemma L_latch_loop h : forall cur ci, 0 <= ci -> ci + Z.of_nat (length cur) <= 4 -> post (latch_loop cur ci h) (fun _ => True).
Proof.
  induction cur as [|cidx t IH]; intros ci H0 H1; cbn [latch_loop].
  - apply post_ret; auto.
  - cbn [length] in H1. plog. cbv zeta. dif; [pfail|]. plog.
    destruct (nthd (q_tbls h) _ None); [apply IH; lia | pfail].
Qed.

(* -------------------------------------------------- jpeg_make_d_derived_tbl *)
Definition maxdc (h : hdr) : Z := if f_lossless (h_frame h) then 16 else 15.
Definition used_ok (m : Z) (e : bool * Z * dtbl) : Prop :=
  match e with (isdc, tblno, d) =>
    0 <= tblno < 4 /\ dtbl_ok d /\ (isdc = true -> Forall (fun s => 0 <= s <= m) (d_vals d)) end.

Lemma Forall_nthd {A} (P : A -> Prop) l i d : Forall P l -> P d -> P (nthd l i d).
Proof. intros. unfold nthd. apply Forall_nth; auto. Qed.

Lemma L_derive h isDC tblno : hdr_ok h ->
  post (derive h isDC tblno) (fun d => used_ok (maxdc h) (isDC, tblno, d)).
Proof.
  intros (H1 & H2 & H3). unfold derive. dif; [pfail|].
  eapply post_bind; [apply post_log; destruct isDC; ulia|]. intros _ _.
  assert (Ht : opt_ok htbl_ok (nthd (if isDC then dc_tbls h else ac_tbls h) tblno None)).
  { apply Forall_nthd; [destruct isDC; auto|exact I]. }
  destruct (nthd _ tblno None) as [[bits vals]|]; [|pfail]. cbn in Ht.
  destruct (make_d_derived bits vals isDC _) as [d|] eqn:E; [|pfail].
  apply post_ret. unfold used_ok. split; [ulia|]. split; [eapply make_d_derived_ok; eauto|].
  destruct (make_d_derived_spec _ _ _ _ _ E) as (n & _ & _ & _ & _ & K). exact K.
Qed.

Definition tdta_ok (h : hdr) (cidx : Z) : Prop :=
  0 <= c_td (comp_at h cidx) < 4 /\ 0 <= c_ta (comp_at h cidx) < 4.

Lemma L_huff_tables h : hdr_ok h -> forall cur ci, 0 <= ci -> ci + Z.of_nat (length cur) <= 4 ->
  post (huff_tables cur ci h) (fun u => Forall (used_ok (maxdc h)) u /\ Forall (tdta_ok h) cur).
Proof.
  intros Hh. induction cur as [|cidx t IH]; intros ci H0 H1; cbn [huff_tables].
  - apply post_ret. auto.
  - cbn [length] in H1. plog. cbv zeta.
    eapply post_bind; [apply L_derive; auto|]. intros d Hd.
    pose proof Hd as (Hd1 & _). plog.
    eapply post_bind; [apply L_derive; auto|]. intros a Ha.
    pose proof Ha as (Ha1 & _). plog. plog.
    eapply post_bind; [apply IH; lia|]. intros r [A B].
    apply post_ret. split; [constructor; [exact Hd|constructor; [exact Ha|exact A]]|].
    constructor; [split; assumption|exact B].
Qed.

Lemma L_huff_blocks h : Z.of_nat (length (s_cur (h_scan h))) <= 4 -> Forall (tdta_ok h) (s_cur (h_scan h)) ->
  forall member blkn, Forall (fun x => 0 <= x < Z.of_nat (length (s_cur (h_scan h)))) member ->
  0 <= blkn -> blkn + Z.of_nat (length member) <= 10 -> post (huff_blocks member blkn h) (fun _ => True).
Proof.
  intros Hl Ht. induction member as [|ci t IH]; intros blkn Hm H0 H1; cbn [huff_blocks].
  - apply post_ret; auto.
  - cbn [length] in H1. inversion Hm as [|x y Hx Hy]; subst. plog. plog. cbv zeta.
    assert (Hc : tdta_ok h (nthd (s_cur (h_scan h)) ci 0)).
    { rewrite Forall_forall in Ht. apply Ht. unfold nthd. apply nth_In. lia. }
    destruct Hc as [Hc1 Hc2]. plog. plog. plog. apply IH; auto; lia.
Qed.

Lemma L_phuff_tables h : hdr_ok h -> forall cur ci, 0 <= ci -> ci + Z.of_nat (length cur) <= 4 ->
  post (phuff_tables cur ci h) (fun u => Forall (used_ok (maxdc h)) u).
Proof.
  intros Hh. induction cur as [|cidx t IH]; intros ci H0 H1; cbn [phuff_tables].
  - apply post_ret. auto.
  - cbn [length] in H1. plog. cbv zeta.
    eapply post_bind with (P := fun u => Forall (used_ok (maxdc h)) u).
    { dif; [dif|].
      - eapply post_bind; [apply L_derive; auto|]. intros d Hd. pose proof Hd as (Hd1 & _). plog.
        apply post_ret. constructor; auto.
      - apply post_ret. constructor.
      - eapply post_bind; [apply L_derive; auto|]. intros d Hd. pose proof Hd as (Hd1 & _). plog.
        apply post_ret. constructor; auto. }
    intros u Hu. plog.
    eapply post_bind; [apply IH; lia|]. intros r A.
    apply post_ret. apply Forall_app; auto.
Qed.

Lemma L_arith_tables h : forall cur ci, 0 <= ci -> ci + Z.of_nat (length cur) <= 4 -> post (arith_tables cur ci h) (fun _ => True).
Proof.
  induction cur as [|cidx t IH]; intros ci H0 H1; cbn [arith_tables].
  - apply post_ret; auto.
  - cbn [length] in H1. plog. cbv zeta.
    eapply post_bind with (P := fun _ => True).
    { dif; [|apply post_ret; auto]. dif; [pfail|]. apply post_log. ulia. }
    intros _ _.
    eapply post_bind with (P := fun _ => True).
    { dif; [|apply post_ret; auto]. dif; [pfail|]. apply post_log. ulia. }
    intros _ _. apply IH; lia.
Qed.

Lemma L_lhuff_tables h : hdr_ok h -> forall cur ci, 0 <= ci -> ci + Z.of_nat (length cur) <= 4 ->
  post (lhuff_tables cur ci h) (fun u => Forall (used_ok (maxdc h)) u).
Proof.
  intros Hh. induction cur as [|cidx t IH]; intros ci H0 H1; cbn [lhuff_tables].
  - apply post_ret. auto.
  - cbn [length] in H1. plog. cbv zeta.
    eapply post_bind; [apply L_derive; auto|]. intros d Hd. pose proof Hd as (Hd1 & _). plog.
    eapply post_bind; [apply IH; lia|]. intros r A.
    apply post_ret. constructor; auto.
Qed.

(* ---------------------------------------------------------- start_input_pass *)
Definition started_ok (h : hdr) (p : scaninfo * used) : Prop :=
  scaninfo_ok (h_scan h) (fst p) /\ Forall (used_ok (maxdc h)) (snd p).

Lemma maxdc_std_fill h : maxdc (std_fill h) = maxdc h.
Proof. reflexivity. Qed.

Lemma L_start_input_pass h su : accepted_header h su -> post (start_input_pass h su) (started_ok h).
Proof.
  intros Hacc. pose proof Hacc as (A1 & A2 & A3 & A4 & A5 & A6 & A7 & (S1 & S2 & S3 & S4) & _ & _ & _ & _ & Hh).
  unfold start_input_pass. cbv zeta. dif; [pfail|].
  eapply post_bind; [apply L_per_scan_setup; exact Hacc|]. intros si Hsi.
  pose proof Hsi as (B1 & B2 & B3).
  eapply post_bind with (P := fun _ => True).
  { dif; [apply post_ret; auto|]. apply L_latch_loop; lia. }
  intros _ _.
  eapply post_bind with (P := fun u => Forall (used_ok (maxdc h)) u).
  { dif; [|dif; [|dif]].
    - (* lossless *)
      eapply post_bind; [apply L_lhuff_tables; auto; lia|]. intros u Hu.
      eapply post_bind; [apply post_log_range; ulia|]. intros _ _.
      eapply post_bind with (P := fun _ => True).
      { unfold start_pass_lossless. cbv zeta. dif; [pfail|]. dif; [pfail|]. apply post_ret; auto. }
      intros _ _. apply post_ret. exact Hu.
    - (* arithmetic *)
      unfold start_pass_arith. cbv zeta.
      eapply post_bind with (P := fun _ => True).
      { dif; [dif; [pfail|apply post_warn_n] | dif; [apply post_warn|apply post_ret; auto]]. }
      intros _ _. eapply post_bind; [apply L_arith_tables; lia|]. intros _ _. apply post_ret. constructor.
    - (* progressive Huffman *)
      unfold start_pass_phuff. cbv zeta. dif; [pfail|].
      eapply post_bind; [apply post_warn_n|]. intros _ _. apply L_phuff_tables; auto; lia.
    - (* sequential Huffman, after std_huff_tables *)
      unfold start_pass_huff. cbv zeta.
      destruct (std_fill_spec h Hh) as (K1 & K2 & K3 & K4 & K5 & K6).
      eapply post_bind with (P := fun _ => True); [dif; [apply post_warn|apply post_ret; auto]|]. intros _ _.
      rewrite <- K3.
      eapply post_bind; [apply L_huff_tables; auto; lia|]. intros u [Hu Ht]. rewrite maxdc_std_fill in Hu.
      eapply post_bind; [|intros _ _; apply post_ret; exact Hu].
      apply L_huff_blocks; try lia.
      + rewrite <- K3. lia.
      + rewrite <- K3. exact Ht.
      + rewrite <- K3. eapply Forall_impl; [|exact B3]. cbv beta. intros; lia. }
  intros u Hu. apply post_ret. split; assumption.
Qed.
