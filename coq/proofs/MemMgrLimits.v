(* C14 -- proofs, part 3: max_memory_to_use accounting of realize_virt_arrays with no
   backing store (jmemnobs.c), the configured-limit comparisons, and the run-level
   corollaries used by props/C14.v. *)
From Coq Require Import List ZArith Bool Lia Permutation ZifyBool.
From LJT Require Import model.MemMgr proofs.MemMgrProofs proofs.MemMgrWrap.
Import ListNotations.
Local Open Scope Z_scope.

(* ---------------------------------------------------------------- realize *)
(* bytes of the not-yet-realized arrays: full height / one access height *)
Fixpoint full_bytes (unit : Z) (l : list varr) : Z :=
  match l with
  | [] => 0
  | v :: r => (if v_real v then 0 else v_rows v * v_width v * unit) + full_bytes unit r
  end.
Fixpoint min_bytes (unit : Z) (l : list varr) : Z :=
  match l with
  | [] => 0
  | v :: r => (if v_real v then 0 else v_maxacc v * v_width v * unit) + min_bytes unit r
  end.

Definition varr_wf (v : varr) : Prop := 0 <= v_width v /\ 0 <= v_rows v /\ 1 <= v_maxacc v.

Lemma space_pass_sums : forall l unit which spm0 max0 spm maximum,
  space_pass l unit which (spm0, max0) = (Some None, (spm, maximum)) ->
  spm = spm0 + min_bytes unit l /\ maximum = max0 + full_bytes unit l.
Proof.
  induction l as [|v l IH]; intros unit which spm0 max0 spm maximum H; cbn [space_pass] in H.
  - inversion H; subst. simpl. lia.
  - simpl. destruct (v_real v).
    + apply IH in H. lia.
    + unfold vbytes in H.
      destruct ((v_rows v * v_width v * unit >=? two63) || (v_maxacc v * v_width v * unit >=? two63)); [discriminate|].
      cbn [fst snd] in H.
      destruct (spm0 + v_maxacc v * v_width v * unit >=? two64); [discriminate|].
      destruct (two64 - 1 - max0 <? v_rows v * v_width v * unit); [discriminate|].
      apply IH in H. lia.
Qed.

Definition fits (K : Z) (v : varr) : Prop := v_real v = true \/ Z.quot (v_rows v - 1) (v_maxacc v) + 1 <= K.

Lemma realize_list_fits : forall alloc l m h K l' m' h',
  realize_list alloc l m h K = (l', (m', h', None)) -> Forall (fits K) l.
Proof.
  induction l as [|v l IH]; intros m h K l' m' h' H; cbn [realize_list] in H; [constructor|].
  destruct (v_real v) eqn:Er.
  - destruct (realize_list alloc l m h K) as [r' [[m2 h2] e2]] eqn:ER. inversion H; subst.
    constructor; [left; auto | eapply IH; eauto].
  - destruct (v_maxacc v =? 0); [discriminate|].
    destruct (Z.quot (v_rows v - 1) (v_maxacc v) + 1 <=? K) eqn:EK; [|discriminate].
    destruct (alloc m h (v_width v mod two32) (v_rows v mod two32)) as [[m1 h1] [e1|]]; [discriminate|].
    destruct (realize_list alloc l m1 h1 K) as [r' [[m2 h2] e2]] eqn:ER. inversion H; subst.
    constructor; [right; lia | eapply IH; eauto].
Qed.

Lemma rows_le_minheights : forall rows maxacc K,
  0 <= rows -> 1 <= maxacc -> Z.quot (rows - 1) maxacc + 1 <= K -> rows <= K * maxacc /\ 0 <= K.
Proof.
  intros rows maxacc K Hr Hm HK.
  destruct (Z.eq_dec rows 0) as [->|Hn].
  - assert (E : Z.quot (0 - 1) maxacc = -1 \/ Z.quot (0 - 1) maxacc = 0).
    { destruct (Z.eq_dec maxacc 1) as [->|]; [left; reflexivity|right]. apply Z.quot_small_iff; lia || (simpl; lia). }
    assert (0 <= K) by lia. split; auto. apply Z.mul_nonneg_nonneg; lia.
  - pose proof (Z.quot_rem' (rows - 1) maxacc) as E.
    pose proof (Z.rem_bound_pos (rows - 1) maxacc ltac:(lia) ltac:(lia)) as Hb.
    assert (0 <= Z.quot (rows - 1) maxacc) by (apply Z.quot_pos; lia).
    remember (Z.quot (rows - 1) maxacc) as q. remember (Z.rem (rows - 1) maxacc) as r.
    assert (maxacc * (q + 1) <= maxacc * K) by (apply Z.mul_le_mono_nonneg_l; lia).
    split; [|lia]. rewrite (Z.mul_comm K). lia.
Qed.

Lemma full_le_K_min : forall unit K l,
  0 <= unit -> 0 <= K -> Forall varr_wf l -> Forall (fits K) l ->
  full_bytes unit l <= K * min_bytes unit l.
Proof.
  intros unit K l Hu HK Hw Hf.
  induction l as [|v l IH]; simpl; [lia|].
  inversion Hw; subst. inversion Hf; subst.
  assert (IH' : full_bytes unit l <= K * min_bytes unit l) by (apply IH; auto).
  destruct (v_real v) eqn:Er; [lia|].
  destruct H1 as (A & B & C). destruct H3 as [Hr|Hq]; [congruence|].
  apply rows_le_minheights in Hq; auto. destruct Hq as (Hq & _).
  assert (0 <= v_width v * unit) by (apply Z.mul_nonneg_nonneg; lia).
  assert (v_rows v * (v_width v * unit) <= K * v_maxacc v * (v_width v * unit)) by (apply Z.mul_le_mono_nonneg_r; lia).
  nia.
Qed.

Lemma min_zero_full_zero : forall unit l,
  0 <= unit -> Forall varr_wf l -> min_bytes unit l <= 0 -> full_bytes unit l = 0 /\ min_bytes unit l = 0.
Proof.
  intros unit l Hu Hw. induction l as [|v l IH]; simpl; intros Hm; [lia|].
  inversion Hw; subst. destruct H1 as (A & B & C).
  assert (0 <= min_bytes unit l).
  { clear - Hu H2. induction l as [|x l IHl]; simpl; [lia|]. inversion H2; subst. destruct H1 as (A & B & C).
    destruct (v_real x); [apply IHl; auto|].
    assert (0 <= v_maxacc x * v_width x * unit) by (repeat apply Z.mul_nonneg_nonneg; lia). specialize (IHl H3). lia. }
  destruct (v_real v).
  - apply IH; auto; lia.
  - assert (0 <= v_width v * unit) by (apply Z.mul_nonneg_nonneg; lia).
    assert (v_width v * unit <= v_maxacc v * (v_width v * unit)) by nia.
    assert (v_width v * unit = 0) by nia.
    destruct IH as (I1 & I2); auto; [nia|].
    split; nia.
Qed.

Lemma full_nonneg : forall unit l, 0 <= unit -> Forall varr_wf l -> 0 <= full_bytes unit l /\ 0 <= min_bytes unit l.
Proof.
  intros unit l Hu Hw. induction l as [|v l IH]; simpl; [lia|].
  inversion Hw; subst. destruct H1 as (A & B & C). destruct (IH H2).
  destruct (v_real v); [lia|].
  assert (0 <= v_rows v * v_width v * unit) by (repeat apply Z.mul_nonneg_nonneg; lia).
  assert (0 <= v_maxacc v * v_width v * unit) by (repeat apply Z.mul_nonneg_nonneg; lia). lia.
Qed.

(* what jpeg_mem_available (jmemnobs.c) grants when max_memory_to_use = M > 0 *)
Definition avail_of (m : mgr) : Z := if m_maxmem m >? m_total m then m_maxmem m - m_total m else 0.

(* If realize_virt_arrays succeeds with a memory limit set, then the space of ALL
   virtual arrays it had to realize (each at full height) is at most
   max (M - already allocated, one access height of every array).  Otherwise it does
   not succeed: the error is JERR_NO_BACKING_STORE (or an earlier error). *)
Theorem max_memory_honoured : forall W c m h prec m' h',
  0 < c_block c -> 0 < c_bigmh c ->
  Forall varr_wf (m_vs m) -> Forall varr_wf (m_vb m) -> 0 < m_maxmem m ->
  realize_virt_arrays W c m h prec = (m', h', None) ->
  full_bytes (sample_size prec) (m_vs m) + full_bytes (c_block c) (m_vb m) <=
  Z.max (avail_of m) (min_bytes (sample_size prec) (m_vs m) + min_bytes (c_block c) (m_vb m)).
Proof.
  intros W c m h prec m' h' Hblk Hbig Hvs Hvb HM H. unfold realize_virt_arrays in H.
  assert (Hss : 0 <= sample_size prec) by (destruct (sample_size_12 prec) as [-> | ->]; lia).
  destruct (space_pass (m_vs m) (sample_size prec) 10 (0, 0)) as [[[w|]|] [s1 x1]] eqn:E1; try discriminate.
  apply space_pass_sums in E1. destruct E1 as (-> & ->).
  destruct (space_pass (m_vb m) (c_block c) 11 (0 + min_bytes (sample_size prec) (m_vs m), 0 + full_bytes (sample_size prec) (m_vs m)))
    as [[[w|]|] [spm maximum]] eqn:E2; try discriminate.
  apply space_pass_sums in E2. destruct E2 as (-> & ->).
  pose proof (full_nonneg (sample_size prec) (m_vs m) Hss Hvs) as (F1 & M1).
  pose proof (full_nonneg (c_block c) (m_vb m) ltac:(lia) Hvb) as (F2 & M2).
  set (spm := 0 + min_bytes (sample_size prec) (m_vs m) + min_bytes (c_block c) (m_vb m)) in *.
  set (maximum := 0 + full_bytes (sample_size prec) (m_vs m) + full_bytes (c_block c) (m_vb m)) in *.
  destruct (spm <=? 0) eqn:Es.
  - (* nothing to do: every unrealized array has zero width *)
    destruct (min_zero_full_zero (sample_size prec) (m_vs m)) as (Z1 & _); auto; [unfold spm in *; lia|].
    destruct (min_zero_full_zero (c_block c) (m_vb m)) as (Z2 & _); auto; [lia | unfold spm in *; lia|].
    unfold avail_of. destruct (m_maxmem m >? m_total m); lia.
  - set (avail := mem_available (m_maxmem m) maximum (m_total m)) in *.
    assert (Eav : avail = avail_of m).
    { unfold avail, mem_available, avail_of. destruct (m_maxmem m =? 0) eqn:E0; [lia|]. reflexivity. }
    set (K := max_minheights c avail spm maximum) in *.
    destruct (avail >=? maximum) eqn:Ea.
    { unfold maximum in *. lia. }
    assert (HK : 1 <= K /\ K * spm <= Z.max avail spm).
    { unfold K, max_minheights. rewrite Ea. destruct (avail / spm <=? 0) eqn:Eq; [lia|].
      split; [lia|]. pose proof (Z.mul_div_le avail spm ltac:(lia)). lia. }
    match type of H with context [realize_list ?a (m_vs m) m h K] =>
      destruct (realize_list a (m_vs m) m h K) as [vs' [[m1 h1] [e1|]]] eqn:R1 end; [discriminate|].
    apply realize_list_fits in R1.
    match type of H with context [realize_list ?a (m_vb m) ?mm h1 K] =>
      destruct (realize_list a (m_vb m) mm h1 K) as [vb' [[m2 h2] [e2|]]] eqn:R2 end; [discriminate|].
    apply realize_list_fits in R2.
    pose proof (full_le_K_min (sample_size prec) K (m_vs m) Hss ltac:(lia) Hvs R1).
    pose proof (full_le_K_min (c_block c) K (m_vb m) ltac:(lia) ltac:(lia) Hvb R2).
    rewrite <- Eav. unfold spm in *. nia.
Qed.

(* ------------------------------------------------------------------ limits *)
Theorem pixels_limit_exact : forall w h lim,
  0 <= w < two32 -> 0 <= h < two32 -> 0 < lim ->
  (pixels_rejected 64 w h lim = true <-> w * h > lim).
Proof.
  intros w h lim Hw Hh Hl. unfold pixels_rejected, two32 in *.
  assert (0 <= w * h < 2 ^ 64) by nia.
  rewrite Z.mod_small by lia.
  destruct (lim =? 0) eqn:E; [lia|]. simpl. lia.
Qed.

Theorem pixels_limit_off : forall bits w h, pixels_rejected bits w h 0 = false.
Proof. intros. unfold pixels_rejected. reflexivity. Qed.

Theorem scan_limit_exact : forall n lim, 0 < lim -> (scan_rejected true n lim = true <-> n > lim).
Proof. intros. unfold scan_rejected. destruct (lim =? 0) eqn:E; [lia|]. simpl. lia. Qed.

(* a 32-bit product would NOT implement the limit *)
Lemma pixels_limit_32_refuted : exists w h lim,
  0 <= w < two32 /\ 0 <= h < two32 /\ 0 < lim /\ w * h > lim /\ pixels_rejected 32 w h lim = false.
Proof. exists 65536, 65536, 1. unfold two32. vm_compute. repeat split; congruence. Qed.

(* ------------------------------------------------------- run-level results *)
Lemma run_app : forall W c a b s, run W c (a ++ b) s = run W c b (run W c a s).
Proof. induction a; simpl; intros; auto. Qed.

Definition pool_invariant (c : cfg) (s : st) : Prop :=
  match s_mgr s with
  | Some m =>
      (* the live heap blocks are exactly the control block and the pool blocks on the four
         lists, each with the size free_pool will account for it *)
      Permutation (live (s_heap s)) (blocks c m) /\
      m_total m = sumsz (live (s_heap s))
  | None => live (s_heap s) = []
  end /\
  NoDup (ids (live (s_heap s))) /\     (* no block id is live twice *)
  badfree (s_heap s) = 0.              (* no free() of a block that was not live: no double free, no use of a freed block id *)

Lemma st_inv_pool_invariant : forall c s, st_inv [] c s -> pool_invariant c s.
Proof.
  unfold st_inv, pool_invariant, inv. intros c s H. destruct (s_mgr s) as [m|].
  - destruct H as (HP & (Hn & _ & Hb & _) & HT). rewrite app_nil_r in HP. repeat split; auto.
    rewrite HT. symmetry. apply sumsz_perm. auto.
  - destruct H as (Hl & (Hn & _ & Hb & _)). apply Permutation_sym in Hl; apply Permutation_nil in Hl. repeat split; auto.
Qed.

Theorem pool_inv_all_runs : forall c ops oracle,
  cfg_wf c -> Forall op_in_range ops -> pool_invariant c (run w64 c ops (init_st oracle)).
Proof.
  intros. rewrite run_eq by auto. apply st_inv_pool_invariant. apply run_inv; auto. apply init_st_inv.
Qed.

Theorem destroy_frees_all_runs : forall c ops oracle,
  cfg_wf c -> Forall op_in_range ops ->
  let s := run w64 c (ops ++ [ODestroy]) (init_st oracle) in
  live (s_heap s) = [] /\ s_mgr s = None /\ badfree (s_heap s) = 0.
Proof.
  intros c ops oracle Hc Hr s. unfold s. rewrite run_eq; auto.
  2: { apply Forall_app. split; auto. constructor; simpl; auto. }
  rewrite run_app. simpl.
  pose proof (run_inv [] c ops (init_st oracle) Hc (init_st_inv c oracle)) as Hi.
  remember (run wid c ops (init_st oracle)) as s0. destruct s0 as [[m|] h prec]; unfold st_inv in Hi; simpl in *.
  - pose proof (self_destruct_spec [] c m h Hi) as (Hl & (_ & _ & Hb & _)). apply Permutation_sym in Hl; apply Permutation_nil in Hl. auto.
  - destruct Hi as (Hl & (_ & _ & Hb & _)). apply Permutation_sym in Hl; apply Permutation_nil in Hl. auto.
Qed.

(* free_pool(JPOOL_IMAGE) in any state satisfying the invariant: what remains live is
   exactly the control block and the PERMANENT pools, which are untouched *)
Theorem free_pool_image_exact : forall c m h m' h' e,
  inv [] c m h -> free_pool c m h 1 = (m', h', e) ->
  e = None /\
  Permutation (live h') ((m_blk m, c_mgr c) :: map (recblk c) (m_small0 m ++ m_large0 m)) /\
  m_small1 m' = [] /\ m_large1 m' = [] /\ m_vs m' = [] /\ m_vb m' = [] /\
  m_small0 m' = m_small0 m /\ m_large0 m' = m_large0 m /\
  m_total m' = c_mgr c + sumsz (map (recblk c) (m_small0 m ++ m_large0 m)).
Proof.
  intros c m h m' h' e Hi H.
  pose proof (free_pool_lists c m h 1 m' h' e eq_refl H) as (A1 & A2 & A3 & A4 & A5 & A6).
  destruct (A6 eq_refl) as (V1 & V2).
  unfold get_small, get_large in *. simpl in *.
  pose proof (free_pool_inv _ _ _ _ _ _ _ _ Hi H) as ((HP & _ & HT) & _). rewrite app_nil_r in HP.
  assert (He : e = None).
  { unfold free_pool in H. simpl in H. destruct (free_list c _ h _) as [h1 t1]. destruct (free_list c _ h1 t1) as [h2 t2].
    inversion H; auto. }
  assert (HB : blocks c m' = (m_blk m, c_mgr c) :: map (recblk c) (m_small0 m ++ m_large0 m)).
  { unfold blocks, pools_of. rewrite A1, A2, A3, A4, A5. simpl. rewrite app_nil_r. reflexivity. }
  rewrite HB in HP, HT. repeat split; auto.
Qed.

(* every size handed to malloc is at most MAX_ALLOC_CHUNK, in every run *)
Theorem malloc_sizes_bounded : forall c ops oracle,
  cfg_wf c -> Forall op_in_range ops ->
  Forall (ev_ok c) (trace (s_heap (run w64 c ops (init_st oracle)))).
Proof.
  intros. rewrite run_eq by auto.
  pose proof (run_inv [] c ops (init_st oracle) H (init_st_inv c oracle)) as Hi.
  unfold st_inv, inv in Hi. destruct (s_mgr (run wid c ops (init_st oracle))).
  - destruct Hi as (_ & (_ & _ & _ & Ht) & _). auto.
  - destruct Hi as (_ & (_ & _ & _ & Ht)). auto.
Qed.

Theorem never_out_of_fuel : forall c ops oracle o,
  cfg_wf c -> Forall op_in_range ops -> op_in_range o ->
  snd (step w64 c o (run w64 c ops (init_st oracle))) <> Some OutOfFuel.
Proof.
  intros. rewrite run_eq by auto. rewrite step_eq by auto.
  apply (step_inv []); auto. apply run_inv; auto. apply init_st_inv.
Qed.

(* a failing malloc inside alloc_large / jinit_memory_mgr changes neither heap nor lists *)
Theorem alloc_large_failure_changes_nothing : forall W c m h pid sz o,
  orc h = true :: o ->
  let '(m', h', e) := alloc_large W c m h pid sz in
  m' = m /\ live h' = live h /\ next h' = next h /\ badfree h' = badfree h /\ e <> None.
Proof.
  intros W c m h pid sz o Ho. unfold alloc_large.
  destruct (sz >? c_max c); [repeat split; auto; congruence|].
  destruct (W _ >? c_max c); [repeat split; auto; congruence|].
  destruct (bad_pool pid); [repeat split; auto; congruence|].
  destruct (malloc_fail_unchanged h (W (rup W sz (c_align c) + c_hdr c + c_align c - 1)) o Ho) as (h1 & E & A & B & C).
  rewrite E. repeat split; auto. congruence.
Qed.

Theorem alloc_small_failure_changes_nothing : forall W c m h pid sz,
  (forall b, In b (orc h) -> b = true) -> (64 <= length (orc h))%nat ->
  let '(m', h', e) := alloc_small W c m h pid sz in
  (m' = m \/ e = None) /\ (e <> None -> live h' = live h /\ next h' = next h /\ badfree h' = badfree h).
Proof.
  intros W c m h pid sz Hall Hlen. unfold alloc_small.
  destruct (sz >? c_max c); [split; auto|].
  destruct (W _ >? c_max c); [split; auto|].
  destruct (bad_pool pid); [split; auto|].
  destruct (find_pool _ _); [split; auto; congruence|].
  cbv zeta.
  match goal with |- context [get_pool_mem W c 64 h ?a ?b] => generalize a, b end.
  intros minreq slop.
  assert (G : forall fuel h0 s0, (forall b, In b (orc h0) -> b = true) -> (fuel <= length (orc h0))%nat ->
              match get_pool_mem W c fuel h0 minreq s0 with
              | (h1, GotPool _ _) => False
              | (h1, _) => live h1 = live h0 /\ next h1 = next h0 /\ badfree h1 = badfree h0
              end).
  { induction fuel as [|f IH]; intros h0 s0 Ha Hl; cbn [get_pool_mem]; auto.
    destruct (orc h0) as [|b o] eqn:Eo; [simpl in Hl; lia|].
    assert (b = true) by (apply Ha; left; auto). subst b.
    destruct (malloc_fail_unchanged h0 (W (minreq + s0)) o Eo) as (h1 & E & A & B & C). rewrite E.
    assert (Eo1 : orc h1 = o). { unfold malloc in E. rewrite Eo in E. inversion E; subst; reflexivity. }
    destruct (s0 / 2 <? c_minslop c); auto.
    specialize (IH h1 (s0 / 2)). rewrite Eo1 in IH.
    assert (Ha1 : forall b, In b o -> b = true) by (intros; apply Ha; right; auto).
    simpl in Hl. specialize (IH Ha1 ltac:(lia)).
    destruct (get_pool_mem W c f h1 minreq (s0 / 2)) as [h2 [| |]]; auto; rewrite A, B, C in *; tauto. }
  specialize (G 64%nat h slop Hall Hlen).
  destruct (get_pool_mem W c 64 h minreq slop) as [h1 [| |]]; [contradiction| |]; split; auto.
Qed.
