(* The strict parser accepts ONLY what the writer grammar generates:
   parse_raw bs = Some s  ->  bs = emit_stream s   (for byte lists).
   Together with T81ParseProofs: t81_parse decides the language
   { emit_stream s | stream_ok s }. *)
From Coq Require Import List ZArith Bool Lia Arith.
From LJT Require Import model.T81Spec proofs.T81StuffProofs proofs.T81ParseProofs.
Import ListNotations.
Local Open Scope Z_scope.
Ltac Zify.zify_post_hook ::= Z.div_mod_to_equations.

Definition bytes (l : list Z) : Prop := Forall (fun b => 0 <= b <= 255) l.

Lemma bytes_app : forall a b, bytes (a ++ b) <-> bytes a /\ bytes b.
Proof. intros. apply Forall_app. Qed.
Lemma bytes_cons : forall a l, bytes (a :: l) <-> 0 <= a <= 255 /\ bytes l.
Proof. intros. split; intros H; [inversion H; auto|destruct H; constructor; auto]. Qed.

(* ------------------------------------------------------------------ markers *)
Lemma skip_ff_inv : forall bs n r, skip_ff bs = (n, r) ->
  bs = repeat 255 n ++ r /\ match r with [] => True | c :: _ => c <> 255 end.
Proof.
  induction bs as [|b t IH]; intros n r H; cbn [skip_ff] in H.
  - inversion H; subst. split; [reflexivity|exact I].
  - destruct (b =? 255) eqn:E.
    + destruct (skip_ff t) as [m r'] eqn:Es. inversion H; subst.
      destruct (IH m r eq_refl) as [A B]. apply Z.eqb_eq in E. subst b. split; [|exact B].
      cbn [repeat app]. f_equal. exact A.
    + inversion H; subst. apply Z.eqb_neq in E. split; [reflexivity|exact E].
Qed.

Lemma repeat_snoc : forall n (x : Z), repeat x (S n) = repeat x n ++ [x].
Proof. induction n; intros; [reflexivity|]. cbn [repeat app] in *. f_equal. apply IHn. Qed.

Lemma read_marker_inv : forall bs n c r, read_marker bs = Some (n, c, r) ->
  bs = marker n c ++ r /\ c <> 0 /\ c <> 255.
Proof.
  intros bs n c r H. unfold read_marker in H. destruct (skip_ff bs) as [m l] eqn:E.
  destruct m as [|m]; [discriminate|]. destruct l as [|c' l']; [discriminate|].
  destruct (c' =? 0) eqn:E0; [discriminate|]. inversion H; subst.
  destruct (skip_ff_inv _ _ _ E) as [A B]. apply Z.eqb_neq in E0.
  split; [|split; assumption]. unfold marker. rewrite A, repeat_snoc, <- !app_assoc. reflexivity.
Qed.

Lemma take_inv : forall n bs a r, take n bs = Some (a, r) -> bs = a ++ r /\ length a = n.
Proof.
  intros n bs a r H. unfold take in H. destruct (n <=? length bs)%nat eqn:E; [|discriminate].
  apply Nat.leb_le in E. inversion H; subst. split; [symmetry; apply firstn_skipn|].
  rewrite firstn_length. lia.
Qed.

Lemma read_payload_inv : forall bs p r, bytes bs -> read_payload bs = Some (p, r) ->
  bs = with_len p ++ r /\ lenZ p <= 65533.
Proof.
  intros bs p r Hb H. unfold read_payload in H. destruct bs as [|h [|l t]]; try discriminate.
  apply bytes_cons in Hb. destruct Hb as [Hh Hb]. apply bytes_cons in Hb. destruct Hb as [Hl Hb].
  destruct (h * 256 + l <? 2) eqn:E; [discriminate|]. apply Z.ltb_ge in E.
  destruct (take_inv _ _ _ _ H) as [A B]. subst t.
  assert (Hlen : lenZ p = h * 256 + l - 2) by (unfold lenZ; lia).
  split; [|lia]. unfold with_len, be16. rewrite Hlen. cbn [app].
  replace (h * 256 + l - 2 + 2) with (h * 256 + l) by lia.
  f_equal; [lia|]. f_equal. lia.
Qed.

(* --------------------------------------------------------------- sub-parsers *)
Lemma list_ind2 : forall {A} (P : list A -> Prop),
  P [] -> (forall a, P [a]) -> (forall a b l, P l -> P (a :: b :: l)) -> forall l, P l.
Proof.
  intros A P H0 H1 H2. assert (H : forall l, P l /\ forall a, P (a :: l)).
  { induction l as [|x l [IHa IHb]]; [split; [exact H0|exact H1]|]. split; [apply IHb|]. intros a. apply H2. exact IHa. }
  intros l. apply H.
Qed.

Lemma list_ind3 : forall {A} (P : list A -> Prop),
  P [] -> (forall a, P [a]) -> (forall a b, P [a; b]) -> (forall a b c l, P l -> P (a :: b :: c :: l)) -> forall l, P l.
Proof.
  intros A P H0 H1 H2 H3. assert (H : forall l, P l /\ (forall a, P (a :: l)) /\ (forall a b, P (a :: b :: l))).
  { induction l as [|x l [IHa [IHb IHc]]]; [repeat split; auto|]. repeat split; [apply IHb|intros; apply IHc|].
    intros a b. apply H3. exact IHa. }
  intros l. apply H.
Qed.

Lemma nib_split : forall b, nib (b / 16) (b mod 16) = b.
Proof. intros. unfold nib. lia. Qed.

Lemma be16s_inv : forall d q, bytes d -> be16s d = Some q -> flat_map be16 q = d.
Proof.
  intros d. induction d as [|h|h l t IH] using list_ind2; intros q Hb H; cbn [be16s] in H.
  - inversion H; reflexivity.
  - discriminate.
  - apply bytes_cons in Hb. destruct Hb as [Hh Hb]. apply bytes_cons in Hb. destruct Hb as [Hl Hb].
    destruct (be16s t) as [r|] eqn:E; [|discriminate]. inversion H; subst.
    cbn [flat_map be16 app]. rewrite (IH r Hb eq_refl). f_equal; [lia|]. f_equal. lia.
Qed.

Lemma parse_qts_inv : forall fuel bs tabs, bytes bs -> parse_qts fuel bs = Some tabs -> flat_map emit_qt tabs = bs.
Proof.
  induction fuel; intros bs tabs Hb H; destruct bs as [|b r]; cbn [parse_qts] in H; try discriminate;
    try (inversion H; reflexivity).
  apply bytes_cons in Hb. destruct Hb as [Hb0 Hb].
  destruct (take (if b / 16 =? 0 then 64%nat else 128%nat) r) as [[d r']|] eqn:Et; [|discriminate].
  destruct (take_inv _ _ _ _ Et) as [A B]. subst r. apply bytes_app in Hb. destruct Hb as [Hd Hr'].
  destruct (if b / 16 =? 0 then Some d else be16s d) as [q|] eqn:Eq; [|discriminate].
  destruct (parse_qts fuel r') as [ts|] eqn:Ep; [|discriminate]. inversion H; subst.
  cbn [flat_map emit_qt]. rewrite (IHfuel r' ts Hr' Ep). rewrite nib_split. cbn [app]. f_equal.
  destruct (b / 16 =? 0).
  - inversion Eq; subst. reflexivity.
  - rewrite (be16s_inv d q Hd Eq). reflexivity.
Qed.

Lemma parse_hts_inv : forall fuel bs tabs, parse_hts fuel bs = Some tabs -> flat_map emit_ht tabs = bs.
Proof.
  induction fuel; intros bs tabs H; destruct bs as [|b r]; cbn [parse_hts] in H; try discriminate;
    try (inversion H; reflexivity).
  destruct (take 16 r) as [[counts r1]|] eqn:E1; [|discriminate].
  destruct (take (Z.to_nat (sumZ counts)) r1) as [[vals r2]|] eqn:E2; [|discriminate].
  destruct (parse_hts fuel r2) as [ts|] eqn:Ep; [|discriminate]. inversion H; subst.
  destruct (take_inv _ _ _ _ E1) as [A1 B1]. destruct (take_inv _ _ _ _ E2) as [A2 B2]. subst r r1.
  cbn [flat_map emit_ht]. rewrite (IHfuel r2 ts Ep). rewrite nib_split. cbn [app]. rewrite <- !app_assoc. reflexivity.
Qed.

Lemma parse_acs_inv : forall bs tabs, parse_acs bs = Some tabs -> flat_map emit_ac tabs = bs.
Proof.
  intros bs. induction bs as [|b|b c t IH] using list_ind2; intros tabs H; cbn [parse_acs] in H.
  - inversion H; reflexivity.
  - discriminate.
  - destruct (parse_acs t) as [r|] eqn:E; [|discriminate]. inversion H; subst.
    cbn [flat_map emit_ac app]. rewrite (IH r eq_refl), nib_split. reflexivity.
Qed.

Lemma parse_fcomps_inv : forall bs comps, parse_fcomps bs = Some comps -> flat_map emit_fcomp comps = bs.
Proof.
  intros bs. induction bs as [|c|c hv|c hv tq t IH] using list_ind3; intros comps H; cbn [parse_fcomps] in H; try discriminate.
  - inversion H; reflexivity.
  - destruct (parse_fcomps t) as [r|] eqn:E; [|discriminate]. inversion H; subst.
    cbn [flat_map emit_fcomp app]. rewrite (IH r eq_refl), nib_split. reflexivity.
Qed.

Lemma parse_scomps_inv : forall bs comps, parse_scomps bs = Some comps -> flat_map emit_scomp comps = bs.
Proof.
  intros bs. induction bs as [|c|c tda t IH] using list_ind2; intros comps H; cbn [parse_scomps] in H; try discriminate.
  - inversion H; reflexivity.
  - destruct (parse_scomps t) as [r|] eqn:E; [|discriminate]. inversion H; subst.
    cbn [flat_map emit_scomp app]. rewrite (IH r eq_refl), nib_split. reflexivity.
Qed.

Lemma be16_bytes : forall h l, 0 <= l <= 255 -> be16 (h * 256 + l) = [h; l].
Proof. intros. unfold be16. f_equal; [lia|]. f_equal. lia. Qed.

Lemma parse_payload_inv : forall c p s, bytes p -> parse_payload c p = Some s ->
  is_sos s = false /\ seg_code s = c /\ seg_payload s = p.
Proof.
  intros c p s Hb H. unfold parse_payload in H.
  destruct (c =? M_DQT) eqn:E1.
  { apply Z.eqb_eq in E1. destruct (parse_qts (length p) p) as [t|] eqn:E; [|discriminate]. inversion H; subst.
    repeat split. cbn [seg_payload]. eapply parse_qts_inv; eassumption. }
  destruct (c =? M_DHT) eqn:E2.
  { apply Z.eqb_eq in E2. destruct (parse_hts (length p) p) as [t|] eqn:E; [|discriminate]. inversion H; subst.
    repeat split. cbn [seg_payload]. eapply parse_hts_inv; eassumption. }
  destruct (c =? M_DAC) eqn:E3.
  { apply Z.eqb_eq in E3. destruct (parse_acs p) as [t|] eqn:E; [|discriminate]. inversion H; subst.
    repeat split. cbn [seg_payload]. eapply parse_acs_inv; eassumption. }
  destruct (c =? M_DRI) eqn:E4.
  { apply Z.eqb_eq in E4. destruct p as [|h [|l [|x t]]]; try discriminate. inversion H; subst.
    apply bytes_cons in Hb. destruct Hb as [_ Hb]. apply bytes_cons in Hb. destruct Hb as [Hl _].
    repeat split. cbn [seg_payload]. apply be16_bytes. assumption. }
  destruct (in_range 224 239 c) eqn:E5.
  { inversion H; subst. repeat split. cbn [seg_code]. unfold M_APP0. lia. }
  destruct (c =? M_COM) eqn:E6.
  { apply Z.eqb_eq in E6. inversion H; subst. repeat split. }
  destruct (is_sof_code c) eqn:E7; [|discriminate].
  destruct p as [|pr [|yh [|yl [|xh [|xl [|nf cs]]]]]]; try discriminate.
  destruct (parse_fcomps cs) as [comps|] eqn:E; [|discriminate].
  destruct (lenZ comps =? nf) eqn:En; [|discriminate]. apply Z.eqb_eq in En. inversion H; subst.
  repeat (apply bytes_cons in Hb; let Hx := fresh "Hx" in destruct Hb as [Hx Hb]).
  repeat split.
  - cbn [seg_code]. unfold M_SOF0. lia.
  - cbn [seg_payload]. rewrite !be16_bytes by assumption. cbn [app].
    rewrite (parse_fcomps_inv _ _ E). reflexivity.
Qed.

Lemma parse_sos_hdr_inv : forall p comps ss se ah al first rest,
  parse_sos_hdr p = Some (comps, ss, se, ah, al) ->
  seg_payload (SegSOS comps ss se ah al first rest) = p.
Proof.
  intros p comps ss se ah al first rest H. unfold parse_sos_hdr in H.
  destruct p as [|ns r]; [discriminate|].
  destruct (take (Z.to_nat (2 * ns)) r) as [[cs tl]|] eqn:Et; [|discriminate].
  destruct tl as [|a [|b [|c [|x y]]]]; try discriminate.
  destruct (parse_scomps cs) as [cc|] eqn:Ec; [|discriminate].
  destruct (lenZ cc =? ns) eqn:En; [|discriminate]. apply Z.eqb_eq in En. inversion H; subst.
  destruct (take_inv _ _ _ _ Et) as [A B]. subst r.
  cbn [seg_payload]. rewrite (parse_scomps_inv _ _ Ec), nib_split. reflexivity.
Qed.

(* ------------------------------------------------- entropy-coded segments *)
Lemma read_ecs_inv : forall bs d r, read_ecs bs = (d, r) -> bs = stuff d ++ r.
Proof.
  assert (G : forall n bs d r, (length bs <= n)%nat -> read_ecs bs = (d, r) -> bs = stuff d ++ r).
  { induction n; intros bs d r Hn H; destruct bs as [|b t]; cbn [read_ecs] in H;
      try (inversion H; reflexivity); cbn [length] in Hn; try lia.
    destruct (b =? 255) eqn:E.
    + apply Z.eqb_eq in E. subst b. destruct t as [|z t'].
      * inversion H; reflexivity.
      * destruct (z =? 0) eqn:Ez.
        -- apply Z.eqb_eq in Ez. subst z. destruct (read_ecs t') as [d' r'] eqn:Er. inversion H; subst.
           cbn [stuff]. rewrite Z.eqb_refl. cbn [app]. cbn [length] in Hn. rewrite (IHn t' d' r ltac:(lia) Er). reflexivity.
        -- inversion H; reflexivity.
    + destruct (read_ecs t) as [d' r'] eqn:Er. inversion H; subst.
      cbn [stuff]. rewrite E. cbn [app]. rewrite (IHn t d' r ltac:(lia) Er). reflexivity. }
  intros bs d r. apply (G (length bs)). lia.
Qed.

Lemma read_rsts_inv : forall fuel k bs rest r, read_rsts fuel k bs = Some (rest, r) ->
  bs = emit_rsts k rest ++ r.
Proof.
  induction fuel; intros k bs rest r H; cbn [read_rsts] in H; [discriminate|].
  destruct (read_marker bs) as [[[n c] r0]|] eqn:Em; [|discriminate].
  destruct (read_marker_inv _ _ _ _ Em) as [A [B C]].
  destruct (in_range 208 215 c) eqn:Er.
  - destruct (c =? M_RST0 + k mod 8) eqn:Ec; [|discriminate]. apply Z.eqb_eq in Ec.
    destruct (read_ecs r0) as [d r'] eqn:Ee.
    destruct (read_rsts fuel (k + 1) r') as [[l r'']|] eqn:Ei; [|discriminate]. inversion H; subst rest r.
    cbn [emit_rsts]. rewrite <- Ec. rewrite A. rewrite (read_ecs_inv _ _ _ Ee). rewrite (IHfuel _ _ _ _ Ei).
    rewrite <- !app_assoc. reflexivity.
  - inversion H; subst. reflexivity.
Qed.

(* ------------------------------------------------------------ whole streams *)
Theorem parse_segs_inv : forall fuel bs segs e, bytes bs -> parse_segs fuel bs = Some (segs, e) ->
  bs = emit_tail segs e.
Proof.
  induction fuel; intros bs segs e Hb H; cbn [parse_segs] in H; [discriminate|].
  destruct (read_marker bs) as [[[n c] r]|] eqn:Em; [|discriminate].
  destruct (read_marker_inv _ _ _ _ Em) as [A [B C]]. subst bs.
  apply bytes_app in Hb. destruct Hb as [Hm Hr].
  destruct (c =? M_EOI) eqn:Ee.
  - apply Z.eqb_eq in Ee. destruct r; [|discriminate]. inversion H; subst. unfold emit_tail. cbn [flat_map app]. apply app_nil_r.
  - destruct (read_payload r) as [[p r1]|] eqn:Ep; [|discriminate].
    destruct (read_payload_inv _ _ _ Hr Ep) as [Ap Lp]. subst r.
    apply bytes_app in Hr. destruct Hr as [Hwl Hr1].
    assert (Hpb : bytes p) by (unfold with_len in Hwl; apply bytes_app in Hwl; tauto).
    destruct (c =? M_SOS) eqn:Es.
    + apply Z.eqb_eq in Es.
      destruct (parse_sos_hdr p) as [[[[[comps ss] se] ah] al]|] eqn:Eh; [|discriminate].
      destruct (read_ecs r1) as [d0 r2] eqn:Ee0.
      destruct (read_rsts (length r2) 0 r2) as [[rest r3]|] eqn:Er; [|discriminate].
      destruct (parse_segs fuel r3) as [[l e']|] eqn:Ei; [|discriminate]. inversion H; subst segs e'.
      pose proof (read_ecs_inv _ _ _ Ee0) as A0. pose proof (read_rsts_inv _ _ _ _ _ Er) as A1. subst r1 r2.
      apply bytes_app in Hr1. destruct Hr1 as [_ Hr1]. apply bytes_app in Hr1. destruct Hr1 as [_ Hr3].
      rewrite (IHfuel r3 l e Hr3 Ei).
      unfold emit_tail. cbn [flat_map]. unfold emit_seg. cbn [fst snd seg_code seg_ecs].
      rewrite (parse_sos_hdr_inv _ _ _ _ _ _ d0 rest Eh). rewrite Es. rewrite <- !app_assoc. reflexivity.
    + destruct (parse_payload c p) as [s|] eqn:Epp; [|discriminate].
      destruct (parse_segs fuel r1) as [[l e']|] eqn:Ei; [|discriminate]. inversion H; subst segs e'.
      destruct (parse_payload_inv _ _ _ Hpb Epp) as [S1 [S2 S3]].
      rewrite (IHfuel r1 l e Hr1 Ei).
      unfold emit_tail. cbn [flat_map]. unfold emit_seg. cbn [fst snd]. rewrite S2, S3.
      replace (seg_ecs s) with (@nil Z) by (destruct s; cbn in S1; try discriminate; reflexivity).
      cbn [app]. rewrite <- !app_assoc. reflexivity.
Qed.

Theorem parse_raw_inv : forall bs s, bytes bs -> parse_raw bs = Some s -> bs = emit_stream s.
Proof.
  intros bs s Hb H. unfold parse_raw in H. destruct bs as [|a [|b r]]; try discriminate.
  destruct ((a =? 255) && (b =? M_SOI)) eqn:E; [|discriminate].
  apply andb_prop in E. destruct E as [Ea Eb0]. apply Z.eqb_eq in Ea. apply Z.eqb_eq in Eb0. subst a b.
  destruct (parse_segs (length r) r) as [[l e]|] eqn:Ep; [|discriminate]. inversion H; subst.
  apply bytes_cons in Hb. destruct Hb as [_ Hb]. apply bytes_cons in Hb. destruct Hb as [_ Hb].
  unfold emit_stream. cbn [st_segs st_eoi_fill]. rewrite (parse_segs_inv _ _ _ _ Hb Ep). reflexivity.
Qed.

(* t81_parse decides membership in the language of valid streams written out by the grammar *)
Theorem t81_parse_iff : forall bs s, bytes bs ->
  (t81_parse bs = Some s <-> (stream_ok s = true /\ bs = emit_stream s)).
Proof.
  intros bs s Hb. split.
  - intros H. unfold t81_parse in H. destruct (parse_raw bs) as [s'|] eqn:E; [|discriminate].
    destruct (stream_ok s') eqn:Eo; [|discriminate]. inversion H; subst.
    split; [assumption|apply parse_raw_inv; assumption].
  - intros [Ho ->]. apply t81_parse_emit. assumption.
Qed.
