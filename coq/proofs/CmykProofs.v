(* C18 -- cmyk.h: RGB -> CMYK -> RGB is the identity for every maxval and every pixel (exact arithmetic),
   with a margin: for ANY correctly rounded c (either tie direction) the value c*k/maxval + 1/2 that
   cmyk_to_rgb truncates stays at least (maxval - x)/(2*maxval) >= 1/(2*maxval) away from the two
   truncation boundaries when x < maxval, and exactly 1/2 away when x = maxval.  A floating-point
   evaluation whose absolute error is below 2^-17 therefore returns the same sample at every precision
   up to 16 bits; with a 53-bit significand the products c*k < 2^32 are exact and the error of one
   division is below 2^16 * 2^-53 (the generated fact cmyk_significand_bits is required to be >= 34). *)
From Coq Require Import List ZArith Lia Bool ZifyBool.
From LJT Require Import gen.GenCmyk model.Pnm model.Cmyk.
Import ListNotations.
Local Open Scope Z_scope.

Lemma div_unique_bounds a b q : 0 < b -> b * q <= a < b * q + b -> a / b = q.
Proof. intros Hb H. symmetry. apply (Z.div_unique a b q (a - b * q)); lia. Qed.

(* the margin lemma: c any integer with |c - M r / x| <= 1/2 *)
Lemma cmyk_margin M x r c : 0 < x <= M -> 0 <= r <= x -> 2 * Z.abs (c * x - M * r) <= x ->
  2 * M * r + (M - x) <= 2 * (c * x) + M <= 2 * M * r + M + x /\ round_div (c * x) M = r.
Proof.
  intros Hx Hr Hc. assert (B : 2 * M * r + (M - x) <= 2 * (c * x) + M <= 2 * M * r + M + x) by lia.
  split; [exact B|]. unfold round_div. apply div_unique_bounds; [lia|].
  destruct (Z.eq_dec x M) as [E|N].
  - subst x. assert (c = r) by nia. subst c. nia.
  - nia.
Qed.

Lemma round_div_near M r x : 0 < x -> 0 <= r -> 0 < M ->
  2 * Z.abs (round_div (M * r) x * x - M * r) <= x.
Proof.
  intros Hx Hr HM. unfold round_div. set (a := 2 * (M * r) + x).
  pose proof (Z.div_mod a (2 * x) ltac:(lia)) as D. pose proof (Z.mod_pos_bound a (2 * x) ltac:(lia)) as Bd.
  subst a. nia.
Qed.

Theorem cmyk_roundtrip_exact M r g b : 0 < M -> 0 <= r <= M -> 0 <= g <= M -> 0 <= b <= M ->
  let '(c, m, y, k) := rgb_to_cmyk_z M r g b in cmyk_to_rgb_z M c m y k = (r, g, b) /\
  k = Z.max r (Z.max g b) /\ 0 <= c <= M /\ 0 <= m <= M /\ 0 <= y <= M.
Proof.
  intros HM Hr Hg Hb. unfold rgb_to_cmyk_z, cmyk_exact. set (x := Z.max r (Z.max g b)).
  destruct (x =? 0) eqn:E.
  - assert (r = 0 /\ g = 0 /\ b = 0) as (-> & -> & ->) by lia.
    assert (Z0 : (2 * (M * 0) + M) / (2 * M) = 0) by (apply Z.div_small; lia).
    unfold cmyk_to_rgb_z, round_div. rewrite Z0. repeat split; lia.
  - assert (Hx : 0 < x <= M) by lia.
    replace ((2 * M * r + x) / (2 * x)) with (round_div (M * r) x) by (unfold round_div; f_equal; lia).
    replace ((2 * M * g + x) / (2 * x)) with (round_div (M * g) x) by (unfold round_div; f_equal; lia).
    replace ((2 * M * b + x) / (2 * x)) with (round_div (M * b) x) by (unfold round_div; f_equal; lia).
    pose proof (round_div_near M r x ltac:(lia) ltac:(lia) HM) as Nr.
    pose proof (round_div_near M g x ltac:(lia) ltac:(lia) HM) as Ng.
    pose proof (round_div_near M b x ltac:(lia) ltac:(lia) HM) as Nb.
    destruct (cmyk_margin M x r _ Hx ltac:(lia) Nr) as [_ Er].
    destruct (cmyk_margin M x g _ Hx ltac:(lia) Ng) as [_ Eg].
    destruct (cmyk_margin M x b _ Hx ltac:(lia) Nb) as [_ Eb].
    unfold cmyk_to_rgb_z. rewrite Er, Eg, Eb. split; [reflexivity|]. split; [reflexivity|].
    assert (Rg : forall v, 0 <= v <= x -> 0 <= round_div (M * v) x <= M).
    { intros v Hv. unfold round_div. split; [apply Z.div_pos; nia|].
      assert ((2 * (M * v) + x) / (2 * x) < M + 1); [|lia]. apply Z.div_lt_upper_bound; nia. }
    repeat split; apply Rg; lia.
Qed.

(* the floating-point format of the C text is wide enough for the margin argument at 16 bits *)
Lemma cmyk_float_wide_enough : 34 <= cmyk_significand_bits /\ cmyk_round_half_up = true /\ cmyk_shapes_ok = true.
Proof. repeat split; try reflexivity. unfold cmyk_significand_bits. lia. Qed.

Lemma ex_cmyk : rgb_to_cmyk_z 8191 3893 7838 8179 = (3899, 7849, 8191, 8179) /\
  cmyk_to_rgb_z 8191 3899 7849 8191 8179 = (3893, 7838, 8179) /\
  rgb_to_cmyk_z 255 0 0 0 = (255, 255, 255, 0) /\ cmyk_to_rgb_z 3 2 3 0 2 = (1, 2, 0) /\ rgb_to_cmyk_z 3 1 2 0 = (2, 3, 0, 2).
Proof. vm_compute. repeat split; reflexivity. Qed.
