(* C09 -- the Huffman MCU unit (decode_mcu with restart processing) is resumable. *)
From Coq Require Import List ZArith Lia Arith Bool.
From LJT Require Import model.SuspendCore model.SuspendMarker model.SuspendHuff proofs.SuspendProofs
  proofs.SuspendMarkerProofs.
Import ListNotations.

Lemma shift_0' {st err} : forall (r : ures st err), shift 0 r = r.
Proof. destruct r; reflexivity. Qed.

(* the same reader with more input behind it *)
Definition ext (e : list byte) (b : br) : br :=
  {| gb := gb b; bl := bl b; rest := rest b ++ e; um := um b; insuf := insuf b; wn := wn b |}.

Definition bstable {A} (m : B A) : Prop :=
  forall b e a b', m b = BOk a b' -> m (ext e b) = BOk a (ext e b').

Lemma bstable_ret {A} (a : A) : bstable (bret a).
Proof. intros b e x b' H. inversion H; subst. reflexivity. Qed.

Lemma bstable_bind {A C} (m : B A) (f : A -> B C) :
  bstable m -> (forall a, bstable (f a)) -> bstable (bbind m f).
Proof.
  intros Hm Hf b e c b' H. unfold bbind in *.
  destruct (m b) as [a b1|] eqn:E; [|discriminate].
  rewrite (Hm _ e _ _ E). now apply Hf.
Qed.

Lemma bstable_read {X A} (g : br -> X) (k : X -> B A) :
  (forall e b, g (ext e b) = g b) -> (forall x, bstable (k x)) -> bstable (bread g k).
Proof. intros Hg Hk b e a b' H. unfold bread in *. rewrite Hg. now apply Hk. Qed.

Lemma fill_go_ext : forall r g l ff e,
  match fill_go r g l ff with
  | FFull g' l' r' => fill_go (r ++ e) g l ff = FFull g' l' (r' ++ e)
  | FMarker c g' l' r' => fill_go (r ++ e) g l ff = FMarker c g' l' (r' ++ e)
  | FSuspend => True
  end.
Proof.
  induction r as [|c r IH]; intros g l ff e; simpl; [exact I|].
  destruct ff.
  - destruct (c =? 255)%Z; [apply IH|].
    destruct (c =? 0)%Z; [|reflexivity].
    destruct (l + 8 <? MIN_GET_BITS)%Z; [apply IH|reflexivity].
  - destruct (c =? 255)%Z; [apply IH|].
    destruct (l + 8 <? MIN_GET_BITS)%Z; [apply IH|reflexivity].
Qed.

Lemma no_more_bytes_ext : forall n e b, no_more_bytes n (ext e b) = ext e (no_more_bytes n b).
Proof. intros. unfold no_more_bytes, ext. simpl. destruct (n >? bl b)%Z; reflexivity. Qed.

Lemma bstable_fill n : bstable (fill n).
Proof.
  intros b e a b' H. unfold fill in *. simpl.
  destruct (um b =? 0)%Z.
  - destruct (bl b <? MIN_GET_BITS)%Z.
    + pose proof (fill_go_ext (rest b) (gb b) (bl b) false e) as F.
      destruct (fill_go (rest b) (gb b) (bl b) false) as [g l r|c g l r|]; try discriminate; rewrite F;
        inversion H; subst; try reflexivity.
      f_equal. exact (no_more_bytes_ext n e {| gb := g; bl := l; rest := r; um := c; insuf := insuf b; wn := wn b |}).
    + inversion H; subst. reflexivity.
  - inversion H; subst. f_equal. apply no_more_bytes_ext.
Qed.

Lemma bstable_drop n : bstable (drop n).
Proof. intros b e a b' H. unfold drop in *. inversion H; subst. reflexivity. Qed.

Lemma bstable_warn : bstable warn.
Proof. intros b e a b' H. unfold warn in *. inversion H; subst. reflexivity. Qed.

Lemma bstable_check n : bstable (check_bits n).
Proof.
  unfold check_bits. apply bstable_read; [reflexivity|].
  intros l. destruct (l <? n)%Z; [apply bstable_fill | apply bstable_ret].
Qed.

Lemma bstable_get n : bstable (get_bits n).
Proof.
  unfold get_bits. apply bstable_read; [reflexivity|].
  intros v. apply bstable_bind; [apply bstable_drop | intros; apply bstable_ret].
Qed.

Ltac bst :=
  repeat match goal with
  | |- bstable (bret _) => apply bstable_ret
  | |- bstable (fill _) => apply bstable_fill
  | |- bstable (drop _) => apply bstable_drop
  | |- bstable warn => apply bstable_warn
  | |- bstable (check_bits _) => apply bstable_check
  | |- bstable (get_bits _) => apply bstable_get
  | |- bstable (bbind _ _) => apply bstable_bind; [|intros]
  | |- bstable (bread _ _) => apply bstable_read; [reflexivity|intros]
  | |- bstable (if ?c then _ else _) => destruct c
  | |- bstable (match ?x with _ => _ end) => destruct x
  | |- bstable _ => assumption
  | H : forall _, _ |- bstable _ => solve [apply H]
  end.

Lemma bstable_hd_loop : forall f t code l, bstable (hd_loop f t code l).
Proof. induction f; intros; simpl; bst. Qed.

Lemma bstable_slow t n : bstable (huff_decode_slow t n).
Proof. unfold huff_decode_slow. pose proof bstable_hd_loop. bst. Qed.

Lemma bstable_huff_decode t : bstable (huff_decode t).
Proof. unfold huff_decode. pose proof (bstable_slow t). bst. Qed.

Lemma bstable_ac_loop : forall f t k coef, bstable (ac_loop f t k coef).
Proof. induction f; intros; simpl; cbv zeta; pose proof (bstable_huff_decode t); bst. Qed.

Lemma bstable_block ci dc ac last : bstable (decode_block ci dc ac last).
Proof.
  unfold decode_block. cbv zeta.
  pose proof (bstable_huff_decode dc). pose proof (bstable_ac_loop 63 ac). bst.
Qed.

Lemma bstable_blocks : forall bls last acc, bstable (decode_blocks bls last acc).
Proof.
  induction bls as [|[[ci dc] ac] bls IH]; intros; simpl; [apply bstable_ret|].
  apply bstable_bind; [apply bstable_block | intros; apply IH].
Qed.

(* ------------------------------------------------------------ the MCU body *)
Lemma mcu_body_shift : forall bls s q n m, mcu_body bls s q (n + m) = shift n (mcu_body bls s q m).
Proof.
  intros. unfold mcu_body. destruct (h_insuf s); [reflexivity|].
  destruct (decode_blocks bls (h_last s) [] (load_br s q)) as [[last blocks] b|]; simpl; [|reflexivity].
  f_equal. lia.
Qed.

Lemma load_br_ext : forall s q e, load_br s (q ++ e) = ext e (load_br s q).
Proof. reflexivity. Qed.

Lemma commit_ext : forall s e b last blocks, commit_mcu s (ext e b) last blocks = commit_mcu s b last blocks.
Proof. reflexivity. Qed.

Lemma mcu_body_done : forall bls s q n0 s' n k, mcu_body bls s q n0 = Done s' n k ->
  n <= n0 + length q /\ h_left s' = pred (h_left s) /\
  forall e, mcu_body bls s (q ++ e) n0 = Done s' n k.
Proof.
  unfold mcu_body. intros bls s q n0 s' n k H.
  destruct (h_insuf s).
  - inversion H; subst. repeat split; auto; lia.
  - destruct (decode_blocks bls (h_last s) [] (load_br s q)) as [[last blocks] b|] eqn:E; [|discriminate].
    inversion H; subst. split; [lia|]. split; [reflexivity|].
    intros e. rewrite load_br_ext, (bstable_blocks bls _ _ _ e _ _ E). simpl.
    rewrite !app_length. f_equal. lia.
Qed.

Lemma mcu_body_more : forall bls s q n0 s1 n, mcu_body bls s q n0 = More s1 n -> s1 = s /\ n = n0.
Proof.
  unfold mcu_body. intros bls s q n0 s1 n H.
  destruct (h_insuf s); [discriminate|].
  destruct (decode_blocks bls (h_last s) [] (load_br s q)) as [[last blocks] b|]; inversion H; auto.
Qed.

Lemma mcu_body_not : forall bls s q n0, (forall x, mcu_body bls s q n0 <> Fail x) /\ mcu_body bls s q n0 <> Halt.
Proof.
  intros. unfold mcu_body. destruct (h_insuf s); [split; try intros x; discriminate|].
  destruct (decode_blocks bls (h_last s) [] (load_br s q)) as [[last blocks] b|]; split; try intros x; discriminate.
Qed.

(* ------------------------------------------------------------ process_restart *)
Definition found (s1 : hstate) (n : nat) : rres :=
  if (h_um s1 =? 208 + h_nrn s1)%Z then
    ROk {| h_gb := h_gb s1; h_bl := 0; h_last := repeat 0%Z (length (h_last s1)); h_um := 0; h_insuf := false;
           h_warn := h_warn s1; h_disc := h_disc s1; h_rtg := h_ri s1; h_nrn := Z.land (h_nrn s1 + 1) 7;
           h_ri := h_ri s1; h_left := h_left s1; h_out := h_out s1 |} n
  else RFail.

Lemma process_restart_eq : forall s p, process_restart s p =
  let disc0 := (h_disc s + h_bl s / 8)%Z in
  if (h_um s =? 0)%Z then
    match nm p disc0 0 0 with
    | NM_more d n => RMore (with_restart s 0 d 0 (h_warn s)) n
    | NM_found c d n =>
        if (d =? 0)%Z then found (with_restart s 0 0 c (h_warn s)) n
        else found (with_restart s 0 0 c (S (h_warn s))) n
    end
  else found (with_restart s 0 disc0 (h_um s) (h_warn s)) 0.
Proof. reflexivity. Qed.

Lemma found_ok : forall s1 n s2 m, found s1 n = ROk s2 m ->
  m = n /\ h_left s2 = h_left s1 /\ h_ri s2 = h_ri s1 /\ h_rtg s2 = h_ri s1.
Proof. unfold found. intros. destruct (_ =? _)%Z; inversion H; subst. simpl. auto. Qed.

Lemma found_shift : forall s1 n m,
  found s1 (n + m) = match found s1 m with ROk s2 k => ROk s2 (n + k) | RMore s2 k => RMore s2 (n + k) | RFail => RFail end.
Proof. intros. unfold found. destruct (_ =? _)%Z; reflexivity. Qed.

Lemma restart_ok : forall s p s1 n, process_restart s p = ROk s1 n ->
  n <= length p /\ h_left s1 = h_left s /\ h_ri s1 = h_ri s /\ h_rtg s1 = h_ri s /\
  forall e, process_restart s (p ++ e) = ROk s1 n.
Proof.
  intros s p s1 n H. rewrite process_restart_eq in H. cbv zeta in H.
  destruct (h_um s =? 0)%Z eqn:U.
  - destruct (nm p (h_disc s + h_bl s / 8) 0 0) as [c d m|d m] eqn:E; [|discriminate].
    destruct (nm_found_bound _ _ _ _ _ _ _ E) as [_ B2]. simpl in B2.
    assert (St : forall e, process_restart s (p ++ e) = ROk s1 n).
    { intros e. rewrite process_restart_eq. cbv zeta. rewrite U, (nm_found_stable _ _ _ _ _ _ _ E e). exact H. }
    destruct (d =? 0)%Z; destruct (found_ok _ _ _ _ H) as (A & B & C & D); subst; simpl in *; repeat split; auto.
  - destruct (found_ok _ _ _ _ H) as (A & B & C & D); subst; simpl in *. repeat split; auto; try lia.
    intros e. rewrite process_restart_eq. cbv zeta. rewrite U. exact H.
Qed.

Lemma restart_fail : forall s p, process_restart s p = RFail -> forall e, process_restart s (p ++ e) = RFail.
Proof.
  intros s p H e. rewrite process_restart_eq in *. cbv zeta in *.
  destruct (h_um s =? 0)%Z eqn:U; [|exact H].
  destruct (nm p (h_disc s + h_bl s / 8) 0 0) as [c d m|d m] eqn:E; [|discriminate].
  now rewrite (nm_found_stable _ _ _ _ _ _ _ E e).
Qed.

Theorem mcu_unit_resumable : forall bls, resumable (mcu_unit bls) mcu_slack.
Proof.
  intros bls. constructor.
  - (* done_stable *)
    intros s p s' n k H. unfold mcu_unit, mcu_slack in *.
    destruct (h_left s) as [|left] eqn:L; [discriminate|].
    destruct (negb (h_ri s =? 0)%Z && (h_rtg s =? 0)%Z).
    + destruct (process_restart s p) as [s1 n1|s1 n1|] eqn:R; try discriminate.
      destruct (restart_ok _ _ _ _ R) as (A & B & C & D & St).
      destruct (mcu_body_done _ _ _ _ _ _ _ H) as (E1 & E2 & E3).
      rewrite skipn_length in E1. rewrite E2, B, L. simpl. repeat split; try lia.
      intros e. rewrite St, (skipn_app_le _ _ _ A). apply E3.
    + destruct (mcu_body_done _ _ _ _ _ _ _ H) as (E1 & E2 & E3).
      rewrite E2, L. simpl in *. repeat split; auto; lia.
  - (* fail_stable *)
    intros s p x H e. unfold mcu_unit in *.
    destruct (h_left s) as [|left]; [discriminate|].
    destruct (negb (h_ri s =? 0)%Z && (h_rtg s =? 0)%Z).
    + destruct (process_restart s p) as [s1 n1|s1 n1|] eqn:R; try discriminate.
      * exfalso. exact (proj1 (mcu_body_not _ _ _ _) x H).
      * now rewrite (restart_fail _ _ R e).
    + exfalso. exact (proj1 (mcu_body_not _ _ _ _) x H).
  - (* halt_state *)
    intros s p H q. unfold mcu_unit in *.
    destruct (h_left s) as [|left]; [reflexivity|].
    destruct (negb (h_ri s =? 0)%Z && (h_rtg s =? 0)%Z).
    + destruct (process_restart s p) as [s1 n1|s1 n1|]; try discriminate.
      exfalso. exact (proj2 (mcu_body_not _ _ _ _) H).
    + exfalso. exact (proj2 (mcu_body_not _ _ _ _) H).
  - (* more_replay *)
    intros s p s1 n H. unfold mcu_unit in H.
    destruct (h_left s) as [|left] eqn:L; [discriminate|].
    destruct (negb (h_ri s =? 0)%Z && (h_rtg s =? 0)%Z) eqn:C.
    + apply andb_true_iff in C. destruct C as [C1 C2]. apply negb_true_iff in C1.
      destruct (process_restart s p) as [s2 n2|s2 n2|] eqn:R; try discriminate.
      * (* restart done, body suspended *)
        destruct (mcu_body_more _ _ _ _ _ _ H) as [-> ->].
        destruct (restart_ok _ _ _ _ R) as (A & B & Ri & Rt & St).
        split; [exact A|]. intros e.
        unfold mcu_unit. rewrite L, C1, C2, St. simpl andb.
        rewrite B, L, Ri, Rt, C1. simpl andb. cbv iota.
        rewrite (skipn_app_le _ _ _ A).
        rewrite <- (mcu_body_shift bls s2 (skipn n2 p ++ e) n2 0). now rewrite Nat.add_0_r.
      * (* suspended inside next_marker *)
        inversion H; subst; clear H.
        rewrite process_restart_eq in R. cbv zeta in R.
        destruct (h_um s =? 0)%Z eqn:U.
        2:{ unfold found in R. match type of R with context[if ?c then _ else _] => destruct c end; discriminate. }
        destruct (nm p (h_disc s + h_bl s / 8) 0 0) as [c d m|d m] eqn:E.
        { destruct (d =? 0)%Z; unfold found in R; match type of R with context[if ?c then _ else _] => destruct c end; discriminate. }
        inversion R; subst; clear R.
        destruct (nm_more_replay p [] _ 0 0 _ _ eq_refl E) as (_ & Bn & D). simpl in Bn, D.
        split; [exact Bn|]. intros e.
        unfold mcu_unit. simpl h_left. simpl h_ri. simpl h_rtg. rewrite L, C1, C2. simpl andb. cbv iota.
        rewrite !process_restart_eq. cbv zeta. simpl h_um. rewrite U. simpl h_disc. simpl h_bl.
        rewrite Z.add_0_r || idtac.
        replace (d + 0 / 8)%Z with d by (rewrite Z.div_0_l; lia).
        rewrite D.
        pose proof (nm_base (skipn n p ++ e) d n 0 0) as NB. rewrite Nat.add_0_r in NB.
        unfold byte in *. rewrite NB.
        destruct (nm (skipn n p ++ e) d 0 0) as [c d2 m|d2 m]; simpl add_res; cbv iota.
        -- assert (X : forall w, with_restart (with_restart s 0 d 0 (h_warn s)) 0 0 c w = with_restart s 0 0 c w) by reflexivity.
           simpl h_warn. rewrite !X.
           destruct (d2 =? 0)%Z.
           ++ rewrite found_shift.
              destruct (found (with_restart s 0 0 c (h_warn s)) m) as [s3 k|s3 k|] eqn:F; try reflexivity.
              rewrite skipn_add, (skipn_app_le _ _ _ Bn). apply mcu_body_shift.
           ++ rewrite found_shift.
              destruct (found (with_restart s 0 0 c (S (h_warn s))) m) as [s3 k|s3 k|] eqn:F; try reflexivity.
              rewrite skipn_add, (skipn_app_le _ _ _ Bn). apply mcu_body_shift.
        -- reflexivity.
    + destruct (mcu_body_more _ _ _ _ _ _ H) as [-> ->].
      split; [lia|]. intros e. simpl skipn. now rewrite shift_0'.
Qed.

(* ------------------------------------------------------------ the fast/slow switch of decode_mcu *)
(* when the fast path is not eligible, or abandons the MCU (marker seen), decode_mcu is exactly the slow
   unit: nothing has been committed by the fast attempt *)
Theorem switch_falls_back : forall bls s p,
  usefast bls s p && negb (h_insuf s) = false \/ fast_mcu bls s p = None ->
  mcu_unit_sw bls s p = mcu_unit bls s p.
Proof.
  intros bls s p H. unfold mcu_unit_sw. destruct (h_left s) eqn:L; [unfold mcu_unit; now rewrite L|].
  destruct H as [H|H]; [now rewrite H|].
  destruct (usefast bls s p && negb (h_insuf s)); [now rewrite H | reflexivity].
Qed.

(* the fast path never suspends and never fails: it either completes the MCU or hands over to the slow path *)
Theorem switch_shape : forall bls s p,
  mcu_unit_sw bls s p = mcu_unit bls s p \/
  exists last blocks b, fast_mcu bls s p = Some (last, blocks, b) /\ f_mark b = 0%Z /\
    mcu_unit_sw bls s p =
    Done (commit_mcu s {| gb := f_gb b; bl := f_bl b; rest := f_rest b; um := 0; insuf := false; wn := h_warn s |} last blocks)
         (length p - length (f_rest b)) 0.
Proof.
  intros bls s p. unfold mcu_unit_sw. destruct (h_left s) eqn:L; [left; unfold mcu_unit; now rewrite L|].
  destruct (usefast bls s p && negb (h_insuf s)); [|now left].
  destruct (fast_mcu bls s p) as [[[last blocks] b]|] eqn:F; [|now left].
  right. exists last, blocks, b. repeat split; auto.
  unfold fast_mcu in F. destruct (fdecode_blocks _ _ _ _) as [[r b']|]; [|discriminate].
  destruct (f_mark b' =? 0)%Z eqn:M; [|discriminate]. inversion F; subst. now apply Z.eqb_eq.
Qed.

(* the switch is only taken with BUFSIZE bytes per block in the buffer and outside restart intervals *)
Theorem usefast_needs_buffer : forall bls s p, usefast bls s p = true ->
  FAST_BUFSIZE * length bls <= length p /\ h_ri s = 0%Z /\ h_um s = 0%Z.
Proof.
  intros bls s p H. unfold usefast in H. apply andb_true_iff in H. destruct H as [H H3].
  apply andb_true_iff in H. destruct H as [H1 H2].
  apply Z.eqb_eq in H1. apply Z.eqb_eq in H3. apply Nat.leb_le in H2. auto.
Qed.
