(* Annex G.1.2.3 (successive approximation, Huffman): what the property needs of the AC
   refinement procedures of the model -- a refinement scan with point transform Al
   (p1 = 2^Al) changes every coefficient of the block by 0 or by p1 away from zero, turns
   zero-history coefficients into 0 or +-p1 only, and touches nothing outside the band
   k..Se; so earlier (more significant) bits are never disturbed. *)
From Coq Require Import List ZArith Bool Lia FMapPositive.
From LJT Require Import model.T81Spec.
Import ListNotations.
Local Open Scope Z_scope.

Lemma pget_pset : forall m w r c k k' v, 0 <= r * w + c -> 0 <= k -> 0 <= k' ->
  pget (pset m w r c k v) w r c k' = if k' =? k then v else pget m w r c k'.
Proof.
  intros m w r c k k' v Hb Hk Hk'. unfold pget, pset, pkey. rewrite PositiveMapAdditionalFacts.gsspec.
  destruct (PositiveMap.E.eq_dec (Z.to_pos ((r * w + c) * 64 + k' + 1)) (Z.to_pos ((r * w + c) * 64 + k + 1))) as [E|E].
  - apply Z2Pos.inj in E; try lia. assert (k' = k) by lia. subst. rewrite Z.eqb_refl. reflexivity.
  - destruct (k' =? k) eqn:Ek; [apply Z.eqb_eq in Ek; subst; contradiction|reflexivity].
Qed.

(* the relation "refined by one bit at weight p1, inside the band lo..se" *)
Definition refined (m m' : PM.t Z) (w r c lo se p1 : Z) : Prop :=
  forall k', 0 <= k' ->
    pget m' w r c k' = pget m w r c k' \/
    (lo <= k' <= se /\
     ((pget m w r c k' > 0 /\ pget m' w r c k' = pget m w r c k' + p1) \/
      (pget m w r c k' < 0 /\ pget m' w r c k' = pget m w r c k' - p1) \/
      (pget m w r c k' = 0 /\ (pget m' w r c k' = p1 \/ pget m' w r c k' = - p1)))).

Lemma refined_refl : forall m w r c lo se p1, refined m m w r c lo se p1.
Proof. intros m w r c lo se p1 k' _. left. reflexivity. Qed.

Lemma refined_widen : forall m m' w r c lo lo' se p1, lo' <= lo -> refined m m' w r c lo se p1 -> refined m m' w r c lo' se p1.
Proof. intros m m' w r c lo lo' se p1 Hl H k' Hk. destruct (H k' Hk) as [A|[B C]]; [left; exact A|right; split; [lia|exact C]]. Qed.

(* one corrected / newly set coefficient at index k, then a refinement of the band above k *)
Lemma refined_step : forall m m2 w r c k se p1 v', 0 <= r * w + c -> 0 <= k <= se ->
  ((pget m w r c k > 0 /\ v' = pget m w r c k + p1) \/ (pget m w r c k < 0 /\ v' = pget m w r c k - p1) \/
   (pget m w r c k = 0 /\ (v' = p1 \/ v' = - p1))) ->
  refined (pset m w r c k v') m2 w r c (k + 1) se p1 -> refined m m2 w r c k se p1.
Proof.
  intros m m2 w r c k se p1 v' Hb Hk Hv H k' Hk'. specialize (H k' Hk').
  rewrite (pget_pset m w r c k k' v' Hb ltac:(lia) Hk') in H.
  destruct (k' =? k) eqn:E.
  - apply Z.eqb_eq in E. subst k'. destruct H as [H|[H _]]; [|lia]. right. split; [lia|]. rewrite H. exact Hv.
  - destruct H as [H|[H1 H2]]; [left; exact H|right; split; [lia|exact H2]].
Qed.

Theorem pcorrect_refines : forall fuel m w r c se p1 k bs m' bs', 0 <= r * w + c -> 0 <= k ->
  pcorrect fuel m w r c se p1 k bs = Some (m', bs') -> refined m m' w r c k se p1.
Proof.
  induction fuel; intros m w r c se p1 k bs m' bs' Hb Hk H; cbn [pcorrect] in H.
  - destruct (k >? se); [inversion H; subst; apply refined_refl|discriminate].
  - assert (Hk1 : 0 <= k + 1) by lia.
    destruct (k >? se) eqn:E; [inversion H; subst; apply refined_refl|]. rewrite Z.gtb_ltb in E. apply Z.ltb_ge in E.
    destruct (pget m w r c k =? 0) eqn:Ev.
    + apply (refined_widen _ _ _ _ _ (k + 1)); [lia|]. apply (IHfuel _ _ _ _ _ _ _ _ _ _ Hb Hk1 H).
    + apply Z.eqb_neq in Ev. destruct (read_bit bs) as [[b r1]|]; [|discriminate].
      destruct (b =? 1).
      * eapply refined_step; [exact Hb|lia| |apply (IHfuel _ _ _ _ _ _ _ _ _ _ Hb Hk1 H)].
        destruct (pget m w r c k >=? 0) eqn:Eg; [apply Z.geb_le in Eg; left; lia|rewrite Z.geb_leb in Eg; apply Z.leb_gt in Eg; right; left; lia].
      * apply (refined_widen _ _ _ _ _ (k + 1)); [lia|]. apply (IHfuel _ _ _ _ _ _ _ _ _ _ Hb Hk1 H).
Qed.

Theorem padvance_refines : forall fuel m w r c se p1 k rcnt bs m' k' reached bs', 0 <= r * w + c -> 0 <= k <= se + 1 ->
  padvance fuel m w r c se p1 k rcnt bs = Some (m', k', reached, bs') ->
  refined m m' w r c k (k' - 1) p1 /\ k <= k' <= se + 1 /\ (reached = true -> k' <= se /\ pget m' w r c k' = 0 /\ pget m w r c k' = 0).
Proof.
  induction fuel; intros m w r c se p1 k rcnt bs m' k' reached bs' Hb Hk H; cbn [padvance] in H.
  - destruct (k >? se); [inversion H; subst; split; [apply refined_refl|split; [lia|discriminate]]|discriminate].
  - destruct (k >? se) eqn:E; [inversion H; subst; split; [apply refined_refl|split; [lia|discriminate]]|].
    rewrite Z.gtb_ltb in E. apply Z.ltb_ge in E. assert (Hk1 : 0 <= k + 1 <= se + 1) by lia.
    destruct (pget m w r c k =? 0) eqn:Ev.
    + apply Z.eqb_eq in Ev. destruct (rcnt =? 0).
      * inversion H; subst. split; [apply refined_refl|split; [lia|intros _; repeat split; [lia|exact Ev|exact Ev]]].
      * destruct (IHfuel _ _ _ _ _ _ _ _ _ _ _ _ _ Hb Hk1 H) as (A & B & C).
        split; [apply (refined_widen _ _ _ _ _ (k + 1)); [lia|exact A]|split; [lia|exact C]].
    + apply Z.eqb_neq in Ev. destruct (read_bit bs) as [[b r1]|]; [|discriminate].
      destruct (b =? 1).
      * destruct (IHfuel _ _ _ _ _ _ _ _ _ _ _ _ _ Hb Hk1 H) as (A & B & C).
        split; [|split; [lia|]].
        -- eapply refined_step; [exact Hb|lia| |exact A].
           destruct (pget m w r c k >=? 0) eqn:Eg; [apply Z.geb_le in Eg; left; lia|rewrite Z.geb_leb in Eg; apply Z.leb_gt in Eg; right; left; lia].
        -- intros Hr. destruct (C Hr) as (C1 & C2 & C3). repeat split; [exact C1|exact C2|].
           rewrite (pget_pset m w r c k k' _ Hb ltac:(lia) ltac:(lia)) in C3.
           destruct (k' =? k) eqn:Ek; [apply Z.eqb_eq in Ek; lia|exact C3].
      * destruct (IHfuel _ _ _ _ _ _ _ _ _ _ _ _ _ Hb Hk1 H) as (A & B & C).
        split; [apply (refined_widen _ _ _ _ _ (k + 1)); [lia|exact A]|split; [lia|exact C]].
Qed.

(* two refinements of disjoint consecutive bands compose *)
Lemma refined_trans : forall m m1 m2 w r c lo k1 se p1, lo <= k1 <= se + 1 ->
  refined m m1 w r c lo (k1 - 1) p1 -> refined m1 m2 w r c k1 se p1 -> refined m m2 w r c lo se p1.
Proof.
  intros m m1 m2 w r c lo k1 se p1 Hl H1 H2 k' Hk. destruct (H2 k' Hk) as [E2|[B2 C2]].
  - rewrite E2. destruct (H1 k' Hk) as [E1|[B1 C1]]; [left; exact E1|right; split; [lia|exact C1]].
  - destruct (H1 k' Hk) as [E1|[B1 _]]; [|lia]. rewrite E1 in C2. right. split; [lia|exact C2].
Qed.

(* G.1.2.3 for one block: an AC refinement scan refines the band k..Se by one bit *)
Theorem pac_refine_refines : forall fuel ac m w r c se p1 k bs m' run bs', 0 <= r * w + c -> 0 <= k <= se + 1 ->
  pac_refine fuel ac m w r c se p1 k bs = Some (m', run, bs') -> refined m m' w r c k se p1.
Proof.
  induction fuel; intros ac m w r c se p1 k bs m' run bs' Hb Hk H; cbn [pac_refine] in H.
  - destruct (k >? se); [inversion H; subst; apply refined_refl|discriminate].
  - destruct (k >? se) eqn:E; [inversion H; subst; apply refined_refl|]. rewrite Z.gtb_ltb in E. apply Z.ltb_ge in E.
    destruct (hc_dec ac bs) as [[rs r1]|]; [|discriminate].
    destruct ((rs mod 16 =? 0) && negb (rs / 16 =? 15)).
    + destruct (receive (Z.to_nat (rs / 16)) 0 r1) as [[extra r2]|]; [|discriminate].
      destruct (pcorrect 64 m w r c se p1 k r2) as [[mc r3]|] eqn:Ec; [|discriminate]. inversion H; subst.
      apply (pcorrect_refines _ _ _ _ _ _ _ _ _ _ _ Hb (proj1 Hk) Ec).
    + destruct (rs mod 16 >? 1); [discriminate|].
      destruct (if rs mod 16 =? 1 then read_bit r1 else Some (0, r1)) as [[sign r2]|]; [|discriminate].
      destruct (padvance 64 m w r c se p1 k (rs / 16) r2) as [[[[m1 k1] reached] r3]|] eqn:Ea; [|discriminate].
      destruct reached; cbn [negb] in H; [|discriminate].
      destruct (padvance_refines _ _ _ _ _ _ _ _ _ _ _ _ _ _ Hb Hk Ea) as (A & B & C). destruct (C eq_refl) as (C1 & C2 & C3).
      assert (Hk1 : 0 <= k1 + 1 <= se + 1) by lia.
      pose proof (IHfuel _ _ _ _ _ _ _ _ _ _ _ _ Hb Hk1 H) as R.
      destruct (rs mod 16 =? 1).
      * apply (refined_trans _ m1 _ _ _ _ _ k1); [lia|exact A|].
        eapply refined_step; [exact Hb|lia| |exact R]. right. right. split; [exact C2|]. destruct (sign =? 1); [left|right]; reflexivity.
      * apply (refined_trans _ m1 _ _ _ _ _ k1); [lia|exact A|]. apply (refined_widen _ _ _ _ _ (k1 + 1)); [lia|exact R].
Qed.
