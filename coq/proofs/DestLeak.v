(* C13 -- every buffer the destination manager allocates is either freed by it or handed to
   the caller: between calls no live library-allocated block is left unhanded (no leak).
   Together with lib_clean (no double free) this is "freed exactly once". *)
From Coq Require Import List ZArith Bool Lia.
From LJT Require Import gen.GenDest model.Dest proofs.DestProofs.
Import ListNotations.
Local Open Scope Z_scope.

Definition leakb (b : block) : bool := owner_eqb (b_owner b) Lib && negb (b_freed b) && negb (b_handed b).
Definition U (h : heap) : list Z := map b_addr (filter leakb (h_blocks h)).
Definition ND (h : heap) : Prop := NoDup (map b_addr (h_blocks h)).

Lemma leaked_U h : leaked h = [] <-> U h = [].
Proof.
  unfold leaked, U. fold leakb. change (fun b : block => leakb b) with leakb.
  destruct (filter leakb (h_blocks h)); cbn; split; intros H; try reflexivity; discriminate.
Qed.

(* ---- list level *)
Lemma U_upd_same a f bs : (forall b, b_addr (f b) = b_addr b) -> (forall b, leakb (f b) = leakb b) ->
  map b_addr (filter leakb (upd_addr a f bs)) = map b_addr (filter leakb bs).
Proof.
  intros Ha Hl. induction bs as [|b t IH]; [reflexivity|]. cbn [upd_addr].
  destruct (addr_is a b); cbn [filter].
  - rewrite Hl. destruct (leakb b); cbn [map]; [rewrite Ha|]; reflexivity.
  - destruct (leakb b); cbn [map]; rewrite IH; reflexivity.
Qed.

Lemma addrs_upd a f bs : (forall b, b_addr (f b) = b_addr b) -> map b_addr (upd_addr a f bs) = map b_addr bs.
Proof. intros Ha. apply map_upd_addr. exact Ha. Qed.

Definition ne (a x : Z) : bool := negb (x =? a).

Lemma filter_ne_notin a l : ~ In a l -> filter (ne a) l = l.
Proof.
  induction l as [|x t IH]; intros H; [reflexivity|]. cbn [filter]. unfold ne at 1.
  destruct (x =? a) eqn:E.
  - apply Z.eqb_eq in E. subst. exfalso. apply H. left. reflexivity.
  - cbn [negb]. rewrite IH; [reflexivity|]. intros Hi. apply H. right. exact Hi.
Qed.

Lemma In_U_addr bs x : In x (map b_addr (filter leakb bs)) -> In x (map b_addr bs).
Proof.
  intros H. apply in_map_iff in H as (b & <- & Hb). apply filter_In in Hb as (Hb & _). apply in_map. exact Hb.
Qed.

Lemma U_upd_kill a f bs : (forall b, b_addr (f b) = b_addr b) -> (forall b, leakb (f b) = false) ->
  NoDup (map b_addr bs) ->
  map b_addr (filter leakb (upd_addr a f bs)) = filter (ne a) (map b_addr (filter leakb bs)).
Proof.
  intros Ha Hl. induction bs as [|b t IH]; intros Hnd; [reflexivity|].
  cbn [map] in Hnd. inversion Hnd as [|x l Hnotin Hnd']; subst. cbn [upd_addr]. unfold addr_is at 1.
  destruct (b_addr b =? a) eqn:E.
  - apply Z.eqb_eq in E. cbn [filter]. rewrite Hl.
    assert (Hn : ~ In a (map b_addr (filter leakb t))) by (intros Hi; apply Hnotin; rewrite E; apply In_U_addr; exact Hi).
    destruct (leakb b); cbn [map filter].
    + unfold ne at 1. rewrite E, Z.eqb_refl. cbn [negb]. rewrite filter_ne_notin by exact Hn. reflexivity.
    + rewrite filter_ne_notin by exact Hn. reflexivity.
  - cbn [filter]. destruct (leakb b); cbn [map filter].
    + unfold ne at 1. rewrite E. cbn [negb]. rewrite IH by exact Hnd'. reflexivity.
    + apply IH. exact Hnd'.
Qed.

(* ---- heap level *)
Definition LK (h : heap) (nb : Z) : Prop :=
  WF h /\ ND h /\ nb < h_fresh h /\ Forall (fun a => a = nb) (U h).

Lemma leakb_set_data k d b : leakb (set_data k d b) = leakb b. Proof. reflexivity. Qed.
Lemma leakb_put1 o x b : leakb (put1 o x b) = leakb b. Proof. reflexivity. Qed.
Lemma leakb_putn o x b : leakb (putn o x b) = leakb b. Proof. reflexivity. Qed.
Lemma leakb_set_freed b : leakb (set_freed b) = false.
Proof. unfold leakb. cbn. rewrite andb_false_r. reflexivity. Qed.
Lemma leakb_hand_block b : leakb (hand_block b) = false.
Proof. unfold hand_block, leakb. destruct (b_owner b) eqn:E; cbn; rewrite ?E; cbn; [apply andb_false_r|reflexivity]. Qed.

Lemma LK_upd_same h nb a f : (forall b, b_addr (f b) = b_addr b) -> (forall b, leakb (f b) = leakb b) ->
  LK h nb -> LK (h_upd a f h) nb.
Proof.
  intros Ha Hl (W & N & Hf & HU). split; [apply WF_upd; assumption|].
  split; [unfold ND, h_upd; cbn [h_blocks]; rewrite addrs_upd by exact Ha; exact N|].
  split; [exact Hf|]. unfold U, h_upd. cbn [h_blocks]. rewrite U_upd_same by assumption. exact HU.
Qed.
Lemma LK_logadd e h nb : LK h nb -> LK (h_logadd e h) nb.
Proof. intros H. exact H. Qed.
Lemma LK_lastfreed a h nb : LK h nb -> LK (h_set_lastfreed a h) nb.
Proof. intros H. exact H. Qed.

Lemma LK_write h nb a o x : LK h nb -> LK (h_write h a o x) nb.
Proof.
  intros H. unfold h_write. destruct (live h a); [|exact H].
  destruct ((0 <=? o) && (o <? b_size b)); [|exact H].
  apply LK_upd_same; [apply addr_put1|apply leakb_put1|exact H].
Qed.
Lemma LK_write_list h nb a o xs : LK h nb -> LK (h_write_list h a o xs) nb.
Proof.
  intros H. unfold h_write_list. destruct xs; [exact H|]. destruct (live h a); [|exact H].
  destruct ((0 <=? o) && _); [|exact H].
  apply LK_upd_same; [apply addr_putn|apply leakb_putn|exact H].
Qed.
Lemma LK_copy h nb s d n : LK h nb -> LK (h_copy h s d n) nb.
Proof.
  intros H. unfold h_copy. destruct (live h s); [|exact H].
  apply LK_upd_same; [apply addr_set_data|apply leakb_set_data|]. destruct (n <=? b_size b); exact H.
Qed.

(* an address in U carries a live block *)
Lemma find_unique a b bs : NoDup (map b_addr bs) -> In b bs -> b_addr b = a -> find (addr_is a) bs = Some b.
Proof.
  induction bs as [|x t IH]; intros Hnd Hin Ha; [contradiction|].
  cbn [map] in Hnd. inversion Hnd as [|y l Hnotin Hnd']; subst. cbn [find]. unfold addr_is at 1.
  destruct Hin as [->|Hin]; [rewrite Z.eqb_refl; reflexivity|].
  destruct (b_addr x =? b_addr b) eqn:E; [|apply IH; auto].
  apply Z.eqb_eq in E. exfalso. apply Hnotin. rewrite E. apply in_map. exact Hin.
Qed.

Lemma U_live h a : ND h -> In a (U h) -> exists b, live h a = Some b.
Proof.
  intros N Hin. unfold U in Hin. apply in_map_iff in Hin as (b & Ha & Hb). apply filter_In in Hb as (Hb & Hl).
  exists b. unfold live, blk. rewrite (find_unique a b _ N Hb Ha).
  unfold leakb in Hl. apply andb_true_iff in Hl as (Hl & _). apply andb_true_iff in Hl as (_ & Hl).
  apply negb_true_iff in Hl. rewrite Hl. reflexivity.
Qed.

Lemma U_pos h a : WF h -> In a (U h) -> 0 < a < h_fresh h.
Proof.
  intros (_ & W) Hin. unfold U in Hin. apply in_map_iff in Hin as (b & <- & Hb). apply filter_In in Hb as (Hb & _).
  apply W, Hb.
Qed.

(* free(a) by the library removes the address a from U *)
Lemma free_lib_U h a cur : WF h -> ND h ->
  WF (h_free_lib h a cur) /\ ND (h_free_lib h a cur) /\ h_fresh (h_free_lib h a cur) = h_fresh h /\
  U (h_free_lib h a cur) = filter (ne a) (U h).
Proof.
  intros W N. unfold h_free_lib.
  Ltac four := split; [assumption|split; [assumption|split; [first [assumption|reflexivity]|]]].
  assert (Hnot : live h a = None -> filter (ne a) (U h) = U h).
  { intros Hl. apply filter_ne_notin. intros Hin. destruct (U_live h a N Hin) as (b & Hb). congruence. }
  destruct (a =? 0) eqn:E0.
  { apply Z.eqb_eq in E0. subst a. four. symmetry. apply filter_ne_notin.
    intros Hin. pose proof (U_pos h 0 W Hin). lia. }
  destruct (live h a) as [b|] eqn:El.
  2: { four. symmetry. apply Hnot. reflexivity. }
  set (h1 := h_logadd (LFree (b_id b) Lib) (h_set_lastfreed a (h_upd a set_freed h))).
  assert (HU1 : U h1 = filter (ne a) (U h)).
  { unfold h1, U, h_logadd, h_set_lastfreed, h_upd. cbn [h_blocks].
    apply U_upd_kill; [apply addr_set_freed|apply leakb_set_freed|exact N]. }
  assert (W1 : WF h1) by (apply WF_logadd, WF_lastfreed, WF_upd; [apply addr_set_freed|exact W]).
  assert (N1 : ND h1).
  { unfold ND, h1, h_logadd, h_set_lastfreed, h_upd. cbn [h_blocks]. rewrite addrs_upd by apply addr_set_freed. exact N. }
  destruct (b_owner b); [|four; exact HU1].
  destruct (b_handed b && negb (a =? cur)); four; exact HU1.
Qed.

Lemma LK_malloc h nb sz o h1 a : LK h nb -> h_malloc h sz o false = (h1, a) ->
  WF h1 /\ ND h1 /\ a = h_fresh h /\ h_fresh h1 = h_fresh h + 1 /\
  U h1 = (match o with Lib => [a] | Caller => [] end) ++ U h.
Proof.
  intros (W & N & Hf & HU) Hm. pose proof (WF_malloc h sz o h1 a W Hm) as (W1 & Ha & Hfr & _ & _).
  rewrite malloc_fresh in Hm. inversion Hm; subst; clear Hm.
  split; [exact W1|]. split.
  { unfold ND. cbn [h_blocks map b_addr]. constructor; [|exact N].
    intros Hin. apply in_map_iff in Hin as (b & Hb & Hin). destruct W as (_ & W). specialize (W b Hin). lia. }
  split; [reflexivity|]. split; [reflexivity|].
  unfold U. cbn [h_blocks filter]. unfold leakb at 1. cbn [b_owner b_freed b_handed negb andb].
  destruct o; reflexivity.
Qed.

(* ---- the producer steps keep "all unhanded library blocks sit at newbuffer" *)
Definition lk (w : world) (d : dest) : Prop := LK (w_heap w) (d_newbuffer d).

Lemma filter_ne_all a l : Forall (fun x => x = a) l -> filter (ne a) l = [].
Proof.
  induction 1 as [|x t Hx Ht IH]; [reflexivity|]. cbn [filter]. unfold ne at 1. subst x.
  rewrite Z.eqb_refl. cbn [negb]. exact IH.
Qed.

Lemma empty_lk m w d : lk w d -> match empty_output_buffer m w d with (w', d', _) => lk w' d' end.
Proof.
  intros H. unfold empty_output_buffer. destruct (d_alloc d); cbn [negb]; [|exact H].
  destruct (h_malloc (w_heap w) (d_bufsize d * growth m) Lib false) as [h1 nb] eqn:Hm.
  pose proof H as (W & N & Hf & HU).
  destruct (LK_malloc _ _ _ _ _ _ H Hm) as (W1 & N1 & Ha & Hfr & HU1). cbn [app] in HU1.
  set (h2 := h_copy h1 (d_buffer d) nb (d_bufsize d)).
  assert (L2 : WF h2 /\ ND h2 /\ h_fresh h2 = h_fresh h1 /\ U h2 = U h1).
  { unfold h2, h_copy. destruct (live h1 (d_buffer d)) as [b|]; [|four; reflexivity].
    set (h1' := if d_bufsize d <=? b_size b then h1 else h_logadd (LBad (BadOverRead (b_id b) (d_bufsize d))) h1).
    assert (E : WF h1' /\ ND h1' /\ h_fresh h1' = h_fresh h1 /\ U h1' = U h1)
      by (unfold h1'; destruct (d_bufsize d <=? b_size b); four; reflexivity).
    destruct E as (E1 & E2 & E3 & E4).
    split; [apply WF_upd; [apply addr_set_data|exact E1]|].
    split; [unfold ND, h_upd; cbn [h_blocks]; rewrite addrs_upd by apply addr_set_data; exact E2|].
    split; [exact E3|]. unfold U, h_upd. cbn [h_blocks].
    rewrite U_upd_same; [exact E4|apply addr_set_data|apply leakb_set_data]. }
  destruct L2 as (W2 & N2 & F2 & HU2).
  destruct (free_lib_U h2 (d_newbuffer d) (w_cur w) W2 N2) as (W3 & N3 & F3 & HU3).
  unfold lk. cbn [w_heap set_heap d_newbuffer].
  split; [exact W3|]. split; [exact N3|]. split; [lia|].
  rewrite HU3, HU2, HU1. cbn [filter]. unfold ne at 1.
  assert (E : nb =? d_newbuffer d = false) by (apply Z.eqb_neq; lia). rewrite E. cbn [negb].
  rewrite (filter_ne_all _ _ HU). constructor; [reflexivity|constructor].
Qed.

Lemma lk_heap w d h' : LK h' (d_newbuffer d) -> lk (set_heap h' w) d.
Proof. intros H. exact H. Qed.

Lemma put_byte_lk m x w d : lk w d -> match put_byte m x w d with (w', d', _) => lk w' d' end.
Proof.
  intros H. unfold put_byte.
  set (h1 := h_write _ _ _ _). set (d1 := mkD _ _ _ _ _ _ _).
  assert (L1 : lk (set_heap h1 w) d1) by (apply LK_write; exact H).
  destruct (sub_size_t (d_free d) 1 =? 0); [|exact L1].
  apply (empty_lk m (set_heap h1 w) d1 L1).
Qed.

Lemma store_local_lk m : forall fuel xs w d, lk w d ->
  match store_local fuel m xs w d with (w', d', _) => lk w' d' end.
Proof.
  induction fuel as [|f IH]; intros xs w d H; destruct xs as [|x0 xs']; cbn [store_local]; try exact H.
  set (xs := x0 :: xs'). set (n := Z.min _ _).
  set (h1 := h_write_list _ _ _ _). set (d1 := mkD _ _ _ _ _ _ _).
  assert (L1 : lk (set_heap h1 w) d1) by (apply LK_write_list; exact H).
  destruct (d_free d1 =? 0).
  - pose proof (empty_lk m (set_heap h1 w) d1 L1) as HE.
    destruct (empty_output_buffer m (set_heap h1 w) d1) as [[w2 d2] [st|]]; [exact HE|].
    apply IH. exact HE.
  - apply IH. exact L1.
Qed.

Lemma run_ops_lk m : forall ops w d, lk w d -> match run_ops m ops w d with (w', d', _) => lk w' d' end.
Proof.
  induction ops as [|o t IH]; intros w d H; cbn [run_ops]; [exact H|].
  assert (S1 : match run_op m o w d with (w1, d1, _) => lk w1 d1 end).
  { destruct o as [x|xs|]; cbn [run_op].
    - apply put_byte_lk. exact H.
    - unfold put_chunk. destruct (d_free d <? huff_local_bufsize); [apply store_local_lk; exact H|].
      apply LK_write_list. exact H.
    - exact H. }
  destruct (run_op m o w d) as [[w1 d1] [st|]]; [exact S1|]. apply IH. exact S1.
Qed.

(* ---- between calls: nothing unhanded is alive *)
Definition LK0 (w : world) : Prop :=
  WF (w_heap w) /\ ND (w_heap w) /\ U (w_heap w) = [] /\
  match w_dest w with Some d => d_newbuffer d < h_fresh (w_heap w) | None => True end.

Lemma LK0_0 : LK0 world0.
Proof. split; [apply Inv0|]. split; [constructor|]. split; reflexivity. Qed.

Lemma d0_new_lt w : LK0 w -> d_newbuffer (d0_of w) < h_fresh (w_heap w).
Proof.
  intros ((W0 & _) & _ & _ & H). unfold d0_of. destruct (w_dest w); [exact H|]. cbn. exact W0.
Qed.

Lemma mem_dest_lk c alloc w : good_cfg c -> LK0 w ->
  match mem_dest c alloc w with
  | (w1, None) => exists d1, w_dest w1 = Some d1 /\ lk w1 d1
  | (w1, Some _) => LK0 w1
  end.
Proof.
  intros G L. pose proof (d0_new_lt w L) as Hd0. destruct L as (W & N & HU & HD).
  assert (W0 : 0 < h_fresh (w_heap w)) by apply W.
  assert (Given : forall nb bs al a2 o2 f2, nb < h_fresh (w_heap w) ->
     lk (set_heap (h_upd (w_buf w) (set_data 0 []) (w_heap w)) w) (mkD (w_buf w) bs nb al a2 o2 f2)).
  { intros nb bs al a2 o2 f2 Hnb. unfold lk. cbn [w_heap set_heap d_newbuffer].
    apply LK_upd_same; [apply addr_set_data|apply leakb_set_data|].
    split; [exact W|]. split; [exact N|]. split; [exact Hnb|]. rewrite HU. constructor. }
  assert (Fresh : forall m h1 a bs al, h_malloc (w_heap w) (out_buf_size m) Lib false = (h1, a) ->
     lk (set_out a (out_buf_size m) (set_heap h1 w)) (mkD a bs a al a 0 bs)).
  { intros m h1 a bs al Hm.
    assert (L : LK (w_heap w) 0) by (split; [exact W|]; split; [exact N|]; split; [exact W0|]; rewrite HU; constructor).
    destruct (LK_malloc _ _ _ _ _ _ L Hm) as (W1 & N1 & Ha & Hfr & HU1).
    unfold lk. cbn [w_heap set_heap set_out d_newbuffer].
    split; [exact W1|]. split; [exact N1|]. split; [lia|]. rewrite HU1, HU. cbn [app]. constructor; [reflexivity|constructor]. }
  assert (PX : forall wb, w_heap wb = w_heap w -> w_dest wb = w_dest w -> w_buf wb = w_buf w -> w_size wb = w_size w -> True) by auto.
  destruct G as (Hrb & G).
  unfold mem_dest. rewrite Hrb. destruct (cf_mgr c) eqn:Hm.
  - assert (Hclr : cf_clr c = true) by (destruct G as [H|H]; [congruence|exact H]).
    rewrite Hclr. unfold mem_dest_tj. cbn [orb]. unfold mem_dest_tj_body.
    change (w_dest (bind_out w)) with (w_dest w). change (w_buf (bind_out w)) with (w_buf w).
    change (w_size (bind_out w)) with (w_size w). change (w_heap (bind_out w)) with (w_heap w).
    fold (d0_of w). set (d0 := d0_of w) in *.
    set (reused := (d_buffer d0 =? w_buf w) && negb (w_buf w =? 0) && alloc).
    assert (Hnb1 : (if reused then d_newbuffer d0 else 0) < h_fresh (w_heap w)) by (destruct reused; lia).
    destruct ((w_buf w =? 0) || ((w_size w =? 0) && _)).
    + destruct alloc.
      * destruct (h_malloc (w_heap w) (out_buf_size TJ) Lib false) as [h1 a] eqn:Hmal.
        eexists. split; [reflexivity|]. exact (Fresh TJ h1 a _ _ Hmal).
      * split; [exact W|]. split; [exact N|]. split; [exact HU|]. cbn [w_dest set_dest w_heap d_newbuffer]. exact Hnb1.
    + eexists. split; [reflexivity|]. exact (Given _ _ _ _ _ _ Hnb1).
  - unfold mem_dest_ijg, mem_dest_ijg_body.
    change (w_buf (bind_out w)) with (w_buf w). change (w_size (bind_out w)) with (w_size w).
    change (w_heap (bind_out w)) with (w_heap w).
    destruct ((w_buf w =? 0) || (w_size w =? 0)).
    + destruct (h_malloc (w_heap w) (out_buf_size IJG) Lib false) as [h1 a] eqn:Hmal.
      eexists. split; [reflexivity|]. exact (Fresh IJG h1 a _ _ Hmal).
    + eexists. split; [reflexivity|]. exact (Given _ _ _ _ _ _ W0).
Qed.

Lemma finish_lk w2 d2 st wr' e :
  Jg (w_heap w2) (w_cur w2) (w_buf w2) d2 wr' -> lk w2 d2 -> bound_now w2 = true ->
  let w3 := set_dest d2 w2 in
  let w4 := if st_ok st || d_alloc d2 then term_destination w3 d2 else w3 in
  LK0 (set_reusable (st_ok st) (wlog e (hand_over w4))).
Proof.
  intros (W & NB & (b & OK & _) & _) (_ & N & Hf & HU) Hbn w3 w4.
  assert (Ht : term_destination w3 d2 = set_out (if d_alloc d2 then d_buffer d2 else w_buf w3) (d_bufsize d2 - d_free d2) w3)
    by (apply term_bound; exact Hbn).
  subst w4. rewrite Ht. clear Ht.
  set (w4 := if st_ok st || d_alloc d2 then set_out (if d_alloc d2 then d_buffer d2 else w_buf w3) (d_bufsize d2 - d_free d2) w3 else w3).
  destruct OK as (Hblk & Hlive & Hsz & Hnew & Hna).
  pose proof (blk_range _ _ _ W Hblk) as Hrng.
  set (pbuf := w_buf w4).
  assert (Hh4 : w_heap w4 = w_heap w2) by (unfold w4; destruct (st_ok st || d_alloc d2); reflexivity).
  assert (Hd4 : w_dest w4 = Some d2) by (unfold w4; destruct (st_ok st || d_alloc d2); reflexivity).
  assert (Hp : d_alloc d2 = true -> pbuf = d_buffer d2).
  { intros Ha. unfold pbuf, w4. rewrite Ha, orb_true_r. reflexivity. }
  unfold LK0, hand_over, wlog. cbn [w_heap w_dest set_reusable set_heap]. rewrite Hh4, Hd4.
  split; [apply WF_logadd, WF_upd; [apply addr_hand_block|exact W]|].
  split; [unfold ND, h_logadd, h_upd; cbn [h_blocks]; rewrite addrs_upd by apply addr_hand_block; exact N|].
  split; [|exact Hf].
  unfold U, h_logadd, h_upd. cbn [h_blocks].
  rewrite U_upd_kill; [|apply addr_hand_block|apply leakb_hand_block|exact N]. fold (U (w_heap w2)).
  destruct Hnew as [H0|(H1 & _)].
  - (* newbuffer = NULL: nothing can be unhanded *)
    destruct (U (w_heap w2)) as [|a t] eqn:E; [reflexivity|]. exfalso.
    assert (Hin : In a (U (w_heap w2))) by (rewrite E; left; reflexivity).
    inversion HU; subst. pose proof (U_pos _ _ W Hin). lia.
  - assert (Ha : d_alloc d2 = true).
    { destruct (d_alloc d2); [reflexivity|]. destruct (Hna eq_refl) as (Hz & _). lia. }
    fold pbuf. rewrite (Hp Ha), <- H1. apply filter_ne_all. exact HU.
Qed.

Lemma run_call_lk c alloc ops w : good_cfg c -> Inv w -> LK0 w ->
  pass_ok c alloc w = true -> zero_reuse c alloc w = false -> forallb chunk_ok ops = true ->
  LK0 (run_call c alloc ops w).
Proof.
  intros G HI L Hpass Hzr Hch. pose proof G as (Hrb & G'). unfold run_call, run_call_st.
  set (w0 := set_cur (w_buf w) w).
  assert (HI0 : Inv w0) by exact HI.
  assert (L0 : LK0 w0) by exact L.
  assert (MD : match mem_dest c alloc w0 with
               | (w1, None) => MDpost c alloc w0 w1
               | (w1, Some st) => True
               end).
  { destruct (cf_mgr c) eqn:Hm.
    - assert (Hclr : cf_clr c = true) by (destruct G' as [H|H]; [congruence|exact H]).
      pose proof (mem_dest_tj_ok c alloc w0 Hm Hclr Hrb HI0 eq_refl Hpass Hzr) as H.
      destruct (mem_dest c alloc w0) as [w1 [st|]]; [exact I|exact H].
    - pose proof (mem_dest_ijg_ok c alloc w0 Hm Hrb HI0 eq_refl Hpass) as H.
      destruct (mem_dest c alloc w0) as [w1 [st|]]; [exact I|exact H]. }
  pose proof (mem_dest_lk c alloc w0 G L0) as ML.
  destruct (mem_dest c alloc w0) as [w1 [st|]]; cbn [fst].
  - destruct ML as (A & B & C & D). split; [exact A|]. split; [exact B|]. split; [exact C|exact D].
  - destruct MD as (d1 & Hd1 & HJ1 & _ & _ & _ & _ & Hbn1 & _). destruct ML as (d1' & Hd1' & Hlk1).
    rewrite Hd1 in Hd1'. inversion Hd1'; subst d1'. rewrite Hd1.
    pose proof (run_ops_ok (cf_mgr c) ops w1 d1 [] HJ1 Hch) as RO.
    pose proof (run_ops_lk (cf_mgr c) ops w1 d1 Hlk1) as RL.
    destruct (run_ops (cf_mgr c) ops w1 d1) as [[w2 d2] st]. destruct RO as (F & RO).
    pose proof (framed_cur _ _ F) as (Fc & Fb & _).
    assert (HG : exists wr', Jg (w_heap w2) (w_cur w2) (w_buf w2) d2 wr').
    { rewrite Fc, Fb. destruct st.
      - destruct RO as ((HG & _) & _). eexists; exact HG.
      - destruct RO as (HG & _). exact HG.
      - destruct RO as (HG & _). exact HG.
      - destruct RO as (HG & _). exact HG. }
    destruct HG as (wr' & HG). cbn [fst].
    apply (finish_lk w2 d2 st wr' _ HG RL). unfold bound_now. rewrite (framed_px _ _ F). exact Hbn1.
Qed.

Lemma free_caller_lk h a : WF h -> ND h -> U h = [] ->
  WF (h_free_caller h a) /\ ND (h_free_caller h a) /\ U (h_free_caller h a) = [] /\
  h_fresh (h_free_caller h a) = h_fresh h.
Proof.
  intros W N HU. unfold h_free_caller. destruct (a =? 0); [repeat split; try apply W; assumption|].
  destruct (live h a) as [b|]; [|repeat split; try apply W; assumption].
  split; [apply WF_logadd, WF_lastfreed, WF_upd; [apply addr_set_freed|exact W]|].
  split; [unfold ND, h_logadd, h_set_lastfreed, h_upd; cbn [h_blocks]; rewrite addrs_upd by apply addr_set_freed; exact N|].
  split; [|reflexivity].
  unfold U, h_logadd, h_set_lastfreed, h_upd. cbn [h_blocks].
  rewrite U_upd_kill; [|apply addr_set_freed|apply leakb_set_freed|exact N]. fold (U h). rewrite HU. reflexivity.
Qed.

Lemma run_hop_lk c o w : good_cfg c -> Inv w -> LK0 w -> w_ok (run_hop c o w) = true ->
  hop_chunks_ok o = true -> LK0 (run_hop c o w).
Proof.
  intros G HI L Hok Hch.
  destruct o as [n rc| z | | | k | | k | alloc ops | cp k]; cbn [run_hop] in *.
  9: { destruct cp; [exact L|]. destruct (nth k (set_nth _ _ _) (0, 0)). exact L. }
  - destruct (n <? 0) eqn:En.
    { exfalso. destruct (h_malloc _ _ _ _) in Hok. cbn in Hok. discriminate. }
    destruct (rc && can_recycle (w_heap w)) eqn:Erc.
    { exfalso. cbn [flag_if] in Hok. destruct (h_malloc _ _ _ _) in Hok. cbn in Hok. discriminate. }
    cbn [flag_if]. rewrite (malloc_norecycle _ _ _ _ Erc).
    destruct (h_malloc (w_heap w) n Caller false) as [h1 a] eqn:Hm.
    destruct L as (W & N & HU & HD).
    assert (L' : LK (w_heap w) 0) by (split; [exact W|]; split; [exact N|]; split; [apply W|]; rewrite HU; constructor).
    destruct (LK_malloc _ _ _ _ _ _ L' Hm) as (W1 & N1 & Ha & Hfr & HU1).
    unfold LK0. cbn [w_dest set_reusable set_out set_heap w_heap].
    split; [exact W1|]. split; [exact N1|]. split; [rewrite HU1, HU; reflexivity|].
    destruct (w_dest w); [lia|exact I].
  - exact L.
  - exact L.
  - exact L.
  - destruct (nth_error (w_held w) k) as [a|]; [exact L|cbn in Hok; discriminate].
  - destruct (negb (caller_may_free (w_heap w) (w_buf w))) eqn:E; [cbn in Hok; discriminate|].
    cbn [flag_if]. destruct L as (W & N & HU & HD).
    destruct (free_caller_lk (w_heap w) (w_buf w) W N HU) as (W1 & N1 & HU1 & Hfr).
    split; [exact W1|]. split; [exact N1|]. split; [exact HU1|].
    cbn [w_dest set_reusable set_out set_heap w_heap]. rewrite Hfr. exact HD.
  - destruct (nth_error (w_held w) k) as [a|]; [|cbn in Hok; discriminate].
    destruct (negb (caller_may_free (w_heap w) a)) eqn:E; [cbn in Hok; discriminate|].
    cbn [flag_if]. destruct L as (W & N & HU & HD).
    destruct (free_caller_lk (w_heap w) a W N HU) as (W1 & N1 & HU1 & Hfr).
    split; [exact W1|]. split; [exact N1|]. split; [exact HU1|].
    cbn [w_dest set_held set_heap w_heap]. rewrite Hfr. exact HD.
  - rewrite run_call_frame in Hok.
    apply flag_if_ok in Hok as (Hz & Hok). apply flag_if_ok in Hok as (Hp & Hok).
    apply negb_false_iff in Hp. rewrite Hp in *. cbn [negb flag_if] in *. rewrite Hz. cbn [flag_if].
    apply run_call_lk; assumption.
Qed.

(* every library-allocated block is freed or handed over, after every history *)
Theorem no_leak_all c hs : good_cfg c ->
  w_ok (run c hs) = true -> forallb hop_chunks_ok hs = true -> leaked (w_heap (run c hs)) = [].
Proof.
  intros G. unfold run.
  assert (H : forall hs w, Inv w -> LK0 w -> w_ok (run_hist c hs w) = true -> forallb hop_chunks_ok hs = true ->
              LK0 (run_hist c hs w)).
  { induction hs0 as [|o t IH]; intros w HI L Hok Hch; [exact L|].
    cbn [run_hist fold_left] in *. cbn [forallb] in Hch. apply andb_true_iff in Hch as (Hc1 & Hc2).
    pose proof (hist_mono c t _ Hok) as Hok1.
    apply IH; [apply run_hop_ok; assumption|apply run_hop_lk; assumption|exact Hok|exact Hc2]. }
  intros Hok Hch. apply leaked_U. exact (proj1 (proj2 (proj2 (H hs world0 Inv0 LK0_0 Hok Hch)))).
Qed.
