(* C07 -- rms_bound_partial: the block RMS bound of the property from the per-coefficient
   quantisation bound, over the reals.

   Proved here (no hypothesis beyond those written in the theorem): Parseval for any real
   matrix with orthonormal columns, Cauchy-Schwarz, the triangle inequality of the Euclidean
   norm, and from them: if
     (h1) F (the scaled forward-DCT output / 8) is within e1 of A x      [fixed-point error of jpeg_fdct_islow]
     (h2) every dequantised coefficient D_k is within h_k of F_k         [C07_block_coef_error: h_k = q_k/2]
     (h3) the reconstruction y is within e2 of A^T D                     [fixed-point error of jpeg_idct_islow + rounding]
   for an orthogonal A, then  |y - x| <= sqrt(sum h_k^2) + e1 + e2  (Euclidean norms; divide by
   sqrt 64 = 8 for the RMS of an 8x8 block).
   NOT proved (the gap of the _partial): that the cosine matrix of the 8x8 DCT is orthogonal in R and
   that fdct_islow / idct_islow satisfy (h1) / (h3) with the e1, e2 the check measures on every run. *)
From Coq Require Import Reals Lra Lia Arith Psatz.
Local Open Scope R_scope.

Fixpoint rsum (n : nat) (f : nat -> R) : R :=
  match n with O => 0 | S k => rsum k f + f k end.

Lemma rsum_ext n f g : (forall i, (i < n)%nat -> f i = g i) -> rsum n f = rsum n g.
Proof.
  induction n as [|n IH]; intros H; [reflexivity|]. cbn [rsum].
  rewrite IH by (intros; apply H; lia). rewrite H by lia. reflexivity.
Qed.

Lemma rsum_plus n f g : rsum n (fun i => f i + g i) = rsum n f + rsum n g.
Proof. induction n as [|n IH]; cbn [rsum]; [lra|rewrite IH; lra]. Qed.

Lemma rsum_scal n c f : rsum n (fun i => c * f i) = c * rsum n f.
Proof. induction n as [|n IH]; cbn [rsum]; [lra|rewrite IH; lra]. Qed.

Lemma rsum_scal_r n c f : rsum n (fun i => f i * c) = rsum n f * c.
Proof. induction n as [|n IH]; cbn [rsum]; [lra|rewrite IH; lra]. Qed.

Lemma rsum_zero n : rsum n (fun _ => 0) = 0.
Proof. induction n as [|n IH]; cbn [rsum]; [reflexivity|rewrite IH; lra]. Qed.

Lemma rsum_swap n m (f : nat -> nat -> R) :
  rsum n (fun i => rsum m (fun j => f i j)) = rsum m (fun j => rsum n (fun i => f i j)).
Proof.
  induction n as [|n IH]; cbn [rsum].
  - symmetry. apply rsum_zero.
  - rewrite IH. rewrite <- rsum_plus. reflexivity.
Qed.

Lemma rsum_nonneg n f : (forall i, (i < n)%nat -> 0 <= f i) -> 0 <= rsum n f.
Proof.
  induction n as [|n IH]; intros H; cbn [rsum]; [lra|].
  assert (0 <= rsum n f) by (apply IH; intros; apply H; lia).
  assert (0 <= f n) by (apply H; lia). lra.
Qed.

Lemma rsum_le n f g : (forall i, (i < n)%nat -> f i <= g i) -> rsum n f <= rsum n g.
Proof.
  induction n as [|n IH]; intros H; cbn [rsum]; [lra|].
  assert (rsum n f <= rsum n g) by (apply IH; intros; apply H; lia).
  assert (f n <= g n) by (apply H; lia). lra.
Qed.

Definition delta (i j : nat) : R := if Nat.eq_dec i j then 1 else 0.

Lemma rsum_delta n i x : (i < n)%nat -> rsum n (fun j => x j * delta i j) = x i.
Proof.
  induction n as [|n IH]; intros Hi; [lia|]. cbn [rsum]. unfold delta at 2.
  destruct (Nat.eq_dec i n) as [->|Hne].
  - assert (E : rsum n (fun j => x j * delta n j) = 0).
    { rewrite <- (rsum_zero n). apply rsum_ext. intros j Hj. unfold delta.
      destruct (Nat.eq_dec n j); [lia|lra]. }
    rewrite E. lra.
  - rewrite IH by lia. lra.
Qed.

Definition dot (n : nat) (u v : nat -> R) : R := rsum n (fun i => u i * v i).
Definition norm2 (n : nat) (u : nat -> R) : R := dot n u u.

Lemma norm2_nonneg n u : 0 <= norm2 n u.
Proof. apply rsum_nonneg. intros. nra. Qed.

(* |u + t v|^2 expanded *)
Lemma norm2_lin n u v t :
  norm2 n (fun i => t * u i + v i) = t * t * norm2 n u + 2 * t * dot n u v + norm2 n v.
Proof.
  unfold norm2, dot. induction n as [|n IH]; cbn [rsum]; [lra|]. rewrite IH. lra.
Qed.

Lemma cauchy_schwarz n u v : dot n u v * dot n u v <= norm2 n u * norm2 n v.
Proof.
  set (a := norm2 n u). set (b := norm2 n v). set (c := dot n u v).
  assert (Ha : 0 <= a) by apply norm2_nonneg.
  assert (Hb : 0 <= b) by apply norm2_nonneg.
  assert (H : forall t, 0 <= t * t * a + 2 * t * c + b).
  { intros t. unfold a, b, c. rewrite <- norm2_lin. apply norm2_nonneg. }
  destruct (Req_dec a 0) as [Ha0|Ha0].
  - rewrite Ha0 in *. rewrite Rmult_0_l.
    destruct (Req_dec c 0) as [->|Hc]; [lra|].
    exfalso. specialize (H (- (b + 1) / (2 * c))).
    replace (- (b + 1) / (2 * c) * (- (b + 1) / (2 * c)) * 0 + 2 * (- (b + 1) / (2 * c)) * c + b) with (-1) in H
      by (field; exact Hc). lra.
  - assert (Hap : 0 < a) by lra.
    specialize (H (- c / a)).
    replace (- c / a * (- c / a) * a + 2 * (- c / a) * c + b) with (b - c * c / a) in H by (field; lra).
    assert (c * c / a <= b) by lra.
    assert (c * c / a * a <= b * a) by (apply Rmult_le_compat_r; lra).
    replace (c * c / a * a) with (c * c) in * by (field; lra). lra.
Qed.

(* triangle inequality, in squared form (no square roots needed) *)
Lemma norm2_add n u v a b : 0 <= a -> 0 <= b -> norm2 n u <= a * a -> norm2 n v <= b * b ->
  norm2 n (fun i => u i + v i) <= (a + b) * (a + b).
Proof.
  intros Ha Hb Hu Hv.
  assert (E : norm2 n (fun i => u i + v i) = norm2 n u + 2 * dot n u v + norm2 n v).
  { pose proof (norm2_lin n u v 1) as L. unfold norm2, dot in *.
    rewrite (rsum_ext n (fun i => (u i + v i) * (u i + v i)) (fun i => (1 * u i + v i) * (1 * u i + v i))) by (intros; lra).
    rewrite L. lra. }
  rewrite E.
  pose proof (cauchy_schwarz n u v) as CS.
  pose proof (norm2_nonneg n u). pose proof (norm2_nonneg n v).
  assert (Hc : dot n u v <= a * b).
  { destruct (Rle_dec (dot n u v) (a * b)) as [?|Hn]; [assumption|exfalso].
    assert (a * b < dot n u v) by lra.
    assert (0 <= a * b) by nra.
    assert ((a * b) * (a * b) < dot n u v * dot n u v) by nra.
    assert (norm2 n u * norm2 n v <= (a * a) * (b * b)) by nra.
    nra. }
  nra.
Qed.

Section Orthogonal.
  Variable n : nat.
  Variable A : nat -> nat -> R.          (* A k i: row k (frequency), column i (position) *)

  Definition ap (B : nat -> nat -> R) (x : nat -> R) : nat -> R := fun k => rsum n (fun i => B k i * x i).
  Definition tr (B : nat -> nat -> R) : nat -> nat -> R := fun i k => B k i.

  (* a matrix with orthonormal columns preserves the Euclidean norm (Parseval) *)
  Lemma isometry (B : nat -> nat -> R) :
    (forall i j, (i < n)%nat -> (j < n)%nat -> rsum n (fun k => B k i * B k j) = delta i j) ->
    forall x, norm2 n (ap B x) = norm2 n x.
  Proof.
    intros Horth x. unfold norm2, dot, ap.
    (* sum_k (sum_i B k i x i) * (sum_j B k j x j) = sum_k sum_i sum_j ... *)
    rewrite (rsum_ext n _ (fun k => rsum n (fun i => rsum n (fun j => (x i * x j) * (B k i * B k j))))).
    2:{ intros k Hk. rewrite <- rsum_scal_r. apply rsum_ext. intros i Hi.
        rewrite <- rsum_scal. apply rsum_ext. intros j Hj. lra. }
    rewrite rsum_swap.
    rewrite (rsum_ext n _ (fun i => rsum n (fun j => rsum n (fun k => (x i * x j) * (B k i * B k j))))).
    2:{ intros i Hi. apply rsum_swap. }
    apply rsum_ext. intros i Hi.
    rewrite (rsum_ext n _ (fun j => (x i * x j) * delta i j)).
    2:{ intros j Hj. rewrite rsum_scal. rewrite Horth by assumption. reflexivity. }
    rewrite (rsum_delta n i (fun j => x i * x j)) by exact Hi. reflexivity.
  Qed.

  Hypothesis cols : forall i j, (i < n)%nat -> (j < n)%nat -> rsum n (fun k => A k i * A k j) = delta i j.
  Hypothesis rows : forall k l, (k < n)%nat -> (l < n)%nat -> rsum n (fun i => A k i * A l i) = delta k l.

  Lemma tr_ap_inverse x i : (i < n)%nat -> ap (tr A) (ap A x) i = x i.
  Proof.
    intros Hi. unfold ap, tr.
    rewrite (rsum_ext n _ (fun k => rsum n (fun j => x j * (A k i * A k j)))).
    2:{ intros k Hk. rewrite <- rsum_scal. apply rsum_ext. intros j Hj. lra. }
    rewrite rsum_swap.
    rewrite (rsum_ext n _ (fun j => x j * delta i j)).
    2:{ intros j Hj. rewrite rsum_scal. rewrite cols by assumption. reflexivity. }
    apply rsum_delta. exact Hi.
  Qed.

  Lemma ap_sub B u v k : ap B (fun i => u i - v i) k = ap B u k - ap B v k.
  Proof.
    unfold ap. rewrite (rsum_ext n _ (fun i => B k i * u i + (-1) * (B k i * v i))) by (intros; lra).
    rewrite rsum_plus, rsum_scal. lra.
  Qed.

  (* x: centred source samples; F: forward transform as computed (scaled back by 8);
     D: dequantised coefficients; y: centred reconstruction before clamping *)
  Theorem rms_bound_partial_proof : forall (x F D y h : nat -> R) (e1 e2 qn : R),
    0 <= e1 -> 0 <= e2 -> 0 <= qn ->
    norm2 n (fun k => F k - ap A x k) <= e1 * e1 ->
    (forall k, (k < n)%nat -> Rabs (D k - F k) <= h k) ->
    rsum n (fun k => h k * h k) <= qn * qn ->
    norm2 n (fun i => y i - ap (tr A) D i) <= e2 * e2 ->
    norm2 n (fun i => y i - x i) <= (qn + e1 + e2) * (qn + e1 + e2).
  Proof.
    intros x F D y h e1 e2 qn He1 He2 Hqn H1 H2 Hq H3.
    (* y - x = (y - A^T D) + A^T (D - F) + A^T (F - A x) on the indices < n *)
    assert (Hdq : norm2 n (fun k => D k - F k) <= qn * qn).
    { eapply Rle_trans; [|exact Hq]. apply rsum_le. intros k Hk. specialize (H2 k Hk).
      assert (0 <= h k) by (pose proof (Rabs_pos (D k - F k)); lra).
      destruct (Rcase_abs (D k - F k)) as [Hn|Hp].
      - rewrite Rabs_left in H2 by exact Hn. nra.
      - rewrite Rabs_right in H2 by exact Hp. nra. }
    assert (Hiso : forall v, norm2 n (ap (tr A) v) = norm2 n v).
    { intros v. apply isometry. intros i j Hi Hj. unfold tr. apply rows; assumption. }
    assert (T1 : norm2 n (fun i => ap (tr A) (fun k => D k - F k) i + ap (tr A) (fun k => F k - ap A x k) i)
                 <= (qn + e1) * (qn + e1)).
    { apply norm2_add; try assumption; rewrite Hiso; assumption. }
    assert (T2 : norm2 n (fun i => (y i - ap (tr A) D i) +
                   (ap (tr A) (fun k => D k - F k) i + ap (tr A) (fun k => F k - ap A x k) i))
                 <= (e2 + (qn + e1)) * (e2 + (qn + e1))).
    { apply norm2_add; try assumption; lra. }
    replace ((qn + e1 + e2) * (qn + e1 + e2)) with ((e2 + (qn + e1)) * (e2 + (qn + e1))) by ring.
    eapply Rle_trans; [|exact T2]. apply Req_le. unfold norm2, dot. apply rsum_ext. intros i Hi.
    rewrite !ap_sub. rewrite (tr_ap_inverse x i Hi). ring.
  Qed.
End Orthogonal.

(* ---------------------------------------------------------------- the full clause (NOT proved) *)
From Coq Require Import List ZArith.
From LJT Require Import model.Quant model.Dct proofs.QuantProofs.

Definition sumsq (l : list R) : R := fold_right (fun a s => a * a + s) 0 l.

(* "each 8x8 block differs from the original by an RMS error no larger than
   sqrt(sum_k (q_k/2 + c)^2 / 64) plus a fixed allowance", about the model pipeline *)
Definition rms_bound_full (c allowance : R) : Prop :=
  forall cf qtbl samples out,
    cfg_ok cf -> length qtbl = 64%nat -> length samples = 64%nat ->
    (forall q, In q qtbl -> (1 <= q <= 32767)%Z) ->
    Forall (fun s => (0 <= s <= maxsample cf)%Z) samples ->
    roundtrip_block cf qtbl samples = Some out ->
    sqrt (sumsq (map (fun p => IZR (fst p - snd p)) (combine out samples)) / 64)
      <= sqrt (sumsq (map (fun q => IZR q / 2 + c) qtbl) / 64) + allowance.
