(* C17: every value tj3Set accepts lies in the range its consumers assume. *)
From Coq Require Import List ZArith Bool Lia ZifyBool.
From LJT Require Import model.Huff gen.GenParams model.CParams.
Import ListNotations.
Local Open Scope Z_scope.

(* what the consumers of the stored fields assume (read from turbojpeg.c setCompDefaults,
   jcparam.c jpeg_enable_lossless / jpeg_set_quality, jcmarker.c emit_dri / emit_jfif_app0) *)
Definition consumer_range (param : Z) : option (Z * Z) :=
  if param =? g_TJPARAM_QUALITY then Some (g_QUALITY_MIN, g_QUALITY_MAX)      (* jpeg_quality_scaling domain *)
  else if param =? g_TJPARAM_SUBSAMP then Some (0, g_TJ_NUMSAMP - 1)          (* index into tjMCUWidth[TJ_NUMSAMP] *)
  else if param =? g_TJPARAM_PRECISION then Some (g_LOSSLESS_PREC_MIN, g_LOSSLESS_PREC_MAX)
  else if param =? g_TJPARAM_COLORSPACE then Some (0, g_TJ_NUMCS - 1)
  else if param =? g_TJPARAM_LOSSLESSPSV then Some (g_PSV_MIN, g_PSV_MAX)     (* jpeg_enable_lossless Ss 1..7 *)
  else if param =? g_TJPARAM_LOSSLESSPT then Some (0, 15)                      (* T.81 Pt; < precision checked downstream *)
  else if param =? g_TJPARAM_RESTARTBLOCKS then Some (0, g_RESTART_MAX)        (* DRI holds 16 bits *)
  else if param =? g_TJPARAM_RESTARTROWS then Some (0, g_RESTART_MAX)
  else if param =? g_TJPARAM_XDENSITY then Some (1, 65535)                     (* (UINT16) cast, JFIF: non-zero *)
  else if param =? g_TJPARAM_YDENSITY then Some (1, 65535)
  else if param =? g_TJPARAM_DENSITYUNITS then Some (0, 2)                     (* (UINT8) cast, JFIF units 0..2 *)
  else if param =? g_TJPARAM_MAXMEMORY then Some (0, (2 ^ 63 - 1) / 1048576)   (* (long)maxMemory * 1048576L *)
  else if param =? g_TJPARAM_SAVEMARKERS then Some (0, 4)
  else if param =? g_TJPARAM_STOPONWARNING then Some (0, 1)
  else if param =? g_TJPARAM_BOTTOMUP then Some (0, 1)
  else if param =? g_TJPARAM_NOREALLOC then Some (0, 1)
  else if param =? g_TJPARAM_FASTUPSAMPLE then Some (0, 1)
  else if param =? g_TJPARAM_FASTDCT then Some (0, 1)
  else if param =? g_TJPARAM_OPTIMIZE then Some (0, 1)
  else if param =? g_TJPARAM_PROGRESSIVE then Some (0, 1)
  else if param =? g_TJPARAM_ARITHMETIC then Some (0, 1)
  else if param =? g_TJPARAM_LOSSLESS then Some (0, 1)
  else if param =? g_TJPARAM_SCANLIMIT then Some (0, 2 ^ 31 - 1)
  else if param =? g_TJPARAM_MAXPIXELS then Some (0, 2 ^ 31 - 1)
  else None.

(* C int domain of `value` *)
Definition is_int (v : Z) : Prop := - 2 ^ 31 <= v < 2 ^ 31.

Definition row_ok (r : Z * Z * Z * Z * Z) : Prop :=
  let '(p, kind, need, lo, hi) := r in
  forall init value, is_int value ->
    ((if need =? 0 then true else Z.testbit init (need - 1)) &&
     (if kind =? 0 then (0 <=? value) && (value <=? 1)
      else if kind =? 1 then negb ((value <? lo) || ((hi >? 0) && (value >? hi)))
      else false)) = true ->
    match consumer_range p with Some (a, b) => a <= value <= b | None => False end.

Lemma all_rows_ok : Forall row_ok g_tj_params.
Proof.
  unfold g_tj_params.
  repeat (apply Forall_cons;
          [ unfold row_ok, is_int; intros init value Hi H;
            apply andb_prop in H; destruct H as [_ H];
            match goal with |- match consumer_range ?p with _ => _ end =>
              let r := eval vm_compute in (consumer_range p) in change (consumer_range p) with r end;
            cbn in H; cbn in Hi; cbv beta iota; try discriminate; lia | ]).
  apply Forall_nil.
Qed.

Lemma tj_param_ranges_lemma : forall init param value,
  is_int value -> tj3set_accepts init param value = true ->
  match consumer_range param with Some (a, b) => a <= value <= b | None => False end.
Proof.
  intros init param value Hi H. unfold tj3set_accepts in H.
  destruct (tj_lookup param) as [r|] eqn:E; [|discriminate].
  unfold tj_lookup in E. apply find_some in E. destruct E as [Hin Hp].
  pose proof all_rows_ok as A. rewrite Forall_forall in A. specialize (A r Hin).
  destruct r as [[[[p kind] need] lo] hi]. apply Z.eqb_eq in Hp. subst p.
  unfold row_ok in A. exact (A init value Hi H).
Qed.

(* non-vacuity: accepted values exist at both ends *)
Lemma tj_accepts_examples :
  tj3set_accepts 1 g_TJPARAM_LOSSLESSPSV 7 = true /\ tj3set_accepts 1 g_TJPARAM_LOSSLESSPSV 8 = false /\
  tj3set_accepts 1 g_TJPARAM_RESTARTROWS 65535 = true /\ tj3set_accepts 1 g_TJPARAM_RESTARTROWS 65536 = false /\
  tj3set_accepts 2 g_TJPARAM_QUALITY 50 = false /\ tj3set_accepts 1 g_TJPARAM_JPEGWIDTH 5 = false.
Proof. vm_compute. repeat split. Qed.
