(* Length-field arithmetic of the marker segments (B.2.2, B.2.3, B.2.4.x): the two-byte
   length the writer puts in front of a payload equals the formula of the Recommendation,
   for every number of tables / components. *)
From Coq Require Import List ZArith Bool Lia Arith.
From LJT Require Import model.T81Spec proofs.T81ParseProofs.
Import ListNotations.
Local Open Scope Z_scope.

Definition len_field (s : segment) : Z := lenZ (seg_payload s) + 2.

Lemma with_len_field : forall s, 0 <= len_field s <= 65535 ->
  exists p, with_len (seg_payload s) = (len_field s / 256) :: (len_field s mod 256) :: p /\ p = seg_payload s.
Proof. intros. exists (seg_payload s). split; reflexivity. Qed.

Lemma lenZ_app : forall {A} (a b : list A), lenZ (a ++ b) = lenZ a + lenZ b.
Proof. intros. unfold lenZ. rewrite app_length. lia. Qed.
Lemma lenZ_cons : forall {A} (a : A) b, lenZ (a :: b) = 1 + lenZ b.
Proof. intros. unfold lenZ. cbn [length]. lia. Qed.

(* Lq = 2 + sum_t (65 + 64 * Pq(t)) *)
Lemma Lq_formula : forall tabs, forallb qtab_ok tabs = true ->
  len_field (SegDQT tabs) = 2 + sumZ (map (fun t : qtab => let '(pq, _, _) := t in 65 + 64 * pq) tabs).
Proof.
  unfold len_field. cbn [seg_payload].
  induction tabs as [|[[pq tq] q] tabs IH]; intros H; [reflexivity|].
  cbn [forallb] in H. apply andb_prop in H. destruct H as [Ht Hts].
  unfold qtab_ok in Ht. rewrite !andb_true_iff in Ht. destruct Ht as (((A & B) & C) & D).
  apply in_range_iff in A. apply Nat.eqb_eq in C.
  cbn [flat_map map sumZ emit_qt]. rewrite lenZ_app, lenZ_cons. specialize (IH Hts).
  destruct (pq =? 0) eqn:E.
  - apply Z.eqb_eq in E. subst. unfold lenZ in *. lia.
  - apply Z.eqb_neq in E. assert (pq = 1) by lia. subst.
    unfold lenZ in *. rewrite flat_be16_length. lia.
Qed.

(* Lh = 2 + sum_t (17 + m_t),  m_t = sum_i L_i *)
Lemma Lh_formula : forall tabs, forallb htab_ok tabs = true ->
  len_field (SegDHT tabs) = 2 + sumZ (map (fun t : htab => let '(_, _, counts, _) := t in 17 + sumZ counts) tabs).
Proof.
  unfold len_field. cbn [seg_payload].
  induction tabs as [|[[[tc th] counts] vals] tabs IH]; intros H; [reflexivity|].
  cbn [forallb] in H. apply andb_prop in H. destruct H as [Ht Hts].
  unfold htab_ok in Ht. rewrite !andb_true_iff in Ht. destruct Ht as (((((A & B) & C) & D) & E) & F).
  apply Nat.eqb_eq in C. apply Z.eqb_eq in E.
  cbn [flat_map map sumZ emit_ht]. rewrite lenZ_app, lenZ_cons, lenZ_app. specialize (IH Hts).
  rewrite E. unfold lenZ in *. lia.
Qed.

(* Lf = 8 + 3 * Nf *)
Lemma Lf_formula : forall n p y x comps, len_field (SegSOF n p y x comps) = 8 + 3 * lenZ comps.
Proof.
  intros. unfold len_field. cbn [seg_payload]. unfold be16, lenZ. cbn [length app].
  rewrite fcomps_length. lia.
Qed.

(* Ls = 6 + 2 * Ns *)
Lemma Ls_formula : forall comps ss se ah al d r, len_field (SegSOS comps ss se ah al d r) = 6 + 2 * lenZ comps.
Proof.
  intros. unfold len_field. cbn [seg_payload]. unfold lenZ. cbn [length]. rewrite app_length, scomps_length.
  cbn [length]. lia.
Qed.

(* Lr = 4, La = 2 + 2n, Lp / Lc = 2 + payload *)
Lemma Lr_formula : forall ri, len_field (SegDRI ri) = 4.
Proof. reflexivity. Qed.
Lemma La_formula : forall tabs, len_field (SegDAC tabs) = 2 + 2 * lenZ tabs.
Proof.
  unfold len_field. cbn [seg_payload]. induction tabs as [|[[a b] c] tabs IH]; [reflexivity|].
  cbn [flat_map emit_ac app]. rewrite !lenZ_cons in *. lia.
Qed.

Theorem length_fields :
  (forall tabs, forallb qtab_ok tabs = true ->
     len_field (SegDQT tabs) = 2 + sumZ (map (fun t : qtab => let '(pq, _, _) := t in 65 + 64 * pq) tabs)) /\
  (forall tabs, forallb htab_ok tabs = true ->
     len_field (SegDHT tabs) = 2 + sumZ (map (fun t : htab => let '(_, _, counts, _) := t in 17 + sumZ counts) tabs)) /\
  (forall n p y x comps, len_field (SegSOF n p y x comps) = 8 + 3 * lenZ comps) /\
  (forall comps ss se ah al d r, len_field (SegSOS comps ss se ah al d r) = 6 + 2 * lenZ comps) /\
  (forall ri, len_field (SegDRI ri) = 4) /\
  (forall tabs, len_field (SegDAC tabs) = 2 + 2 * lenZ tabs) /\
  (forall s, seg_ok s = true -> 2 <= len_field s <= 65535).
Proof.
  repeat split; try (intros; first [apply Lq_formula|apply Lh_formula|apply Lf_formula|apply Ls_formula|apply La_formula]; assumption).
  - unfold len_field, lenZ. lia.
  - pose proof (payload_len_ok s H). unfold len_field. lia.
Qed.
