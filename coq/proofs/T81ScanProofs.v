(* F.1.2.3 bit packing with 1-padding, restart intervals, whole scans:
   dec_scan inverts enc_scan for abstract prefix codes (any number of blocks,
   any restart interval, also one that does not divide the block count). *)
From Coq Require Import List ZArith Bool Lia Arith.
From LJT Require Import model.T81Spec proofs.T81BlockProofs.
Import ListNotations.
Local Open Scope Z_scope.

(* ------------------------------------------------------------ pack / unpack *)
Lemma list_ind8 : forall (P : list bool -> Prop),
  (forall l, (length l < 8)%nat -> P l) ->
  (forall a b c d e f g h t, P t -> P (a :: b :: c :: d :: e :: f :: g :: h :: t)) ->
  forall l, P l.
Proof.
  intros P Hs Hc. assert (H : forall n l, (length l <= n)%nat -> P l).
  { induction n; intros l Hl.
    - apply Hs. lia.
    - destruct l as [|a [|b [|c [|d [|e [|f [|g [|h t]]]]]]]]; try (apply Hs; cbn; lia).
      apply Hc. apply IHn. cbn [length] in Hl. lia. }
  intros l. apply (H (length l)). lia.
Qed.

Lemma byte_bits : forall a b c d e f g h,
  bits_of 8 (bits_to_z [a; b; c; d; e; f; g; h]) = [a; b; c; d; e; f; g; h].
Proof. intros. destruct a, b, c, d, e, f, g, h; reflexivity. Qed.

Lemma unpack_pack : forall bs, exists pad,
  unpack (pack bs) = bs ++ pad /\ (length pad < 8)%nat /\ forallb (fun b => b) pad = true.
Proof.
  apply list_ind8.
  - intros l Hl.
    destruct l as [|a [|b [|c [|d [|e [|f [|g [|h t]]]]]]]]; try (cbn [length] in Hl; lia).
    + exists []. repeat split. cbn. lia.
    + exists (repeat true 7). unfold unpack. cbn [pack flat_map app firstn repeat]. rewrite byte_bits. repeat split. cbn; lia.
    + exists (repeat true 6). unfold unpack. cbn [pack flat_map app firstn repeat]. rewrite byte_bits. repeat split. cbn; lia.
    + exists (repeat true 5). unfold unpack. cbn [pack flat_map app firstn repeat]. rewrite byte_bits. repeat split. cbn; lia.
    + exists (repeat true 4). unfold unpack. cbn [pack flat_map app firstn repeat]. rewrite byte_bits. repeat split. cbn; lia.
    + exists (repeat true 3). unfold unpack. cbn [pack flat_map app firstn repeat]. rewrite byte_bits. repeat split. cbn; lia.
    + exists (repeat true 2). unfold unpack. cbn [pack flat_map app firstn repeat]. rewrite byte_bits. repeat split. cbn; lia.
    + exists (repeat true 1). unfold unpack. cbn [pack flat_map app firstn repeat]. rewrite byte_bits. repeat split. cbn; lia.
  - intros a b c d e f g h t [pad [H1 [H2 H3]]]. exists pad. repeat split; try assumption.
    unfold unpack in *. cbn [pack flat_map]. rewrite byte_bits, H1. reflexivity.
Qed.

(* every packed byte is a byte *)
Lemma bits_to_z_byte : forall a b c d e f g h, 0 <= bits_to_z [a; b; c; d; e; f; g; h] <= 255.
Proof. intros. destruct a, b, c, d, e, f, g, h; cbn; lia. Qed.

(* ----------------------------------------------------------- one interval *)
Lemma dec_enc_interval : forall cs n blocks d, coders_ok cs ->
  Forall (fun b => block_ok (snd b)) blocks ->
  enc_interval cs n blocks = Some d ->
  dec_interval cs n (map fst blocks) d = Some blocks.
Proof.
  intros cs n blocks d Hcs Hok Henc. unfold enc_interval in Henc.
  destruct (enc_blocks cs (repeat 0 n) blocks) as [bits|] eqn:Eb; [|discriminate].
  cbn [option_map] in Henc. inversion Henc; subst. unfold dec_interval.
  destruct (unpack_pack bits) as [pad [H1 [H2 H3]]]. rewrite H1.
  rewrite (dec_enc_blocks cs blocks _ bits pad Hcs Hok Eb).
  rewrite H3. destruct (length pad <? 8)%nat eqn:E; [reflexivity|apply Nat.ltb_ge in E; lia].
Qed.

(* -------------------------------------------------------------- intervals *)
Lemma lenZ_map : forall {A B} (f : A -> B) l, lenZ (map f l) = lenZ l.
Proof. intros. unfold lenZ. rewrite map_length. reflexivity. Qed.

Lemma chunks_map : forall {A B} (f : A -> B) fuel n l,
  chunks fuel n (map f l) = map (map f) (chunks fuel n l).
Proof.
  induction fuel; intros; [reflexivity|]. cbn [chunks]. rewrite lenZ_map.
  destruct (lenZ l <=? n); [reflexivity|].
  cbn [map]. rewrite firstn_map, skipn_map, IHfuel. reflexivity.
Qed.

Lemma intervals_map : forall {A B} (f : A -> B) n l,
  intervals n (map f l) = map (map f) (intervals n l).
Proof. intros. unfold intervals. destruct (n <=? 0); [reflexivity|]. rewrite map_length. apply chunks_map. Qed.

Lemma concat_chunks : forall {A} fuel n (l : list A), concat (chunks fuel n l) = l.
Proof.
  induction fuel; intros; cbn [chunks]; [cbn; apply app_nil_r|].
  destruct (lenZ l <=? n); [cbn; apply app_nil_r|].
  cbn [concat]. rewrite IHfuel. apply firstn_skipn.
Qed.

Lemma concat_intervals : forall {A} n (l : list A), concat (intervals n l) = l.
Proof. intros. unfold intervals. destruct (n <=? 0); [cbn; apply app_nil_r|apply concat_chunks]. Qed.

Lemma Forall_firstn' : forall {A} (P : A -> Prop) n l, Forall P l -> Forall P (firstn n l).
Proof. induction n; intros; [constructor|]. destruct l; [constructor|]. inversion H; subst. cbn. constructor; auto. Qed.
Lemma Forall_skipn' : forall {A} (P : A -> Prop) n l, Forall P l -> Forall P (skipn n l).
Proof. induction n; intros; [assumption|]. destruct l; [constructor|]. inversion H; subst. cbn. auto. Qed.

Lemma Forall_chunks : forall {A} (P : A -> Prop) fuel n l, Forall P l -> Forall (Forall P) (chunks fuel n l).
Proof.
  induction fuel; intros; cbn [chunks]; [repeat constructor; assumption|].
  destruct (lenZ l <=? n); [repeat constructor; assumption|].
  constructor; [apply Forall_firstn'; assumption|apply IHfuel, Forall_skipn'; assumption].
Qed.

Lemma Forall_intervals : forall {A} (P : A -> Prop) n l, Forall P l -> Forall (Forall P) (intervals n l).
Proof. intros. unfold intervals. destruct (n <=? 0); [repeat constructor; assumption|apply Forall_chunks; assumption]. Qed.

(* no interval is longer than the restart interval, only the last may be shorter *)
Lemma chunks_sizes : forall {A} fuel n (l : list A), 0 < n -> (length l <= fuel)%nat ->
  Forall (fun c => lenZ c <= n) (chunks fuel n l).
Proof.
  induction fuel; intros n l Hn Hl; cbn [chunks].
  - destruct l; [|cbn in Hl; lia]. repeat constructor. unfold lenZ. cbn. lia.
  - destruct (lenZ l <=? n) eqn:E.
    + apply Z.leb_le in E. repeat constructor. assumption.
    + apply Z.leb_gt in E. unfold lenZ in *. constructor.
      * rewrite firstn_length. lia.
      * apply IHfuel; [assumption|]. rewrite skipn_length. lia.
Qed.

Lemma dec_enc_intervals : forall cs n chunks0 ds, coders_ok cs ->
  Forall (Forall (fun b => block_ok (snd b))) chunks0 ->
  map_opt (enc_interval cs n) chunks0 = Some ds ->
  dec_intervals cs n (map (map fst) chunks0) ds = Some (concat chunks0).
Proof.
  intros cs n. induction chunks0 as [|c t IH]; intros ds Hcs Hok Henc.
  - cbn in Henc. inversion Henc. reflexivity.
  - inversion Hok as [|x l Hc Ht]; subst. cbn [map_opt] in Henc.
    destruct (enc_interval cs n c) as [d|] eqn:Ed; [|discriminate].
    destruct (map_opt (enc_interval cs n) t) as [r|] eqn:Er; [|discriminate].
    inversion Henc; subst. cbn [map dec_intervals concat].
    rewrite (dec_enc_interval cs n c d Hcs Hc Ed). rewrite (IH r Hcs Ht eq_refl). reflexivity.
Qed.

(* the scan: every block sequence, every restart interval *)
Theorem dec_enc_scan : forall cs n per blocks ds, coders_ok cs ->
  Forall (fun b => block_ok (snd b)) blocks ->
  enc_scan cs n per blocks = Some ds ->
  dec_scan cs n per (map fst blocks) ds = Some blocks.
Proof.
  intros cs n per blocks ds Hcs Hok Henc. unfold dec_scan, enc_scan in *.
  rewrite intervals_map.
  rewrite (dec_enc_intervals cs n _ ds Hcs (Forall_intervals _ per blocks Hok) Henc).
  rewrite concat_intervals. reflexivity.
Qed.

(* number of restart intervals written = number of data segments = ceil(blocks / per) pieces *)
Lemma map_opt_length : forall {A B} (f : A -> option B) l r, map_opt f l = Some r -> length r = length l.
Proof.
  induction l; intros r H; cbn in H; [inversion H; reflexivity|].
  destruct (f a); [|discriminate]. destruct (map_opt f l) eqn:E; [|discriminate].
  inversion H; subst. cbn. f_equal. apply IHl. reflexivity.
Qed.
