(* DMarkersFastProofs.v -- proofs about model/DMarkers.v (C01), part 4:
   (a) how many bits one block of the sequential Huffman decoder can consume, for every valid
       table and every bit string, and that the generated fast-path threshold BUFSIZE of
       jdhuff.c covers it including 0xFF byte stuffing;
   (b) every per-datastream state member of the marker reader / input controller is
       re-initialised by reset_marker_reader / reset_input_controller (generated inventories). *)
From Coq Require Import List ZArith Bool Lia ZifyBool.
From Coq Require String.
Import String.StringSyntax.
Delimit Scope string_scope with string.
From LJT Require Import gen.GenLimits model.Huff model.DMarkers proofs.DMarkersProofs proofs.DMarkersScanProofs
  proofs.DMarkersBlockProofs.
Import ListNotations.
Local Open Scope Z_scope.
Ltac Zify.zify_post_hook ::= Z.div_mod_to_equations.

(* ------------------------------------------------------------ (b) reset facts *)
Definition str_mem (s : String.string) (l : list String.string) : bool := existsb (String.eqb s) l.
(* members that need no assignment in reset_marker_reader, each backed by a guard in GenLimits.guards:
   next_restart_num is set by get_sos before any restart marker can be read;
   bytes_read is written together with cur_marker and only read when cur_marker != NULL *)
Definition marker_state_exempt : list String.string := ["next_restart_num"; "bytes_read"]%string.
Definition reset_covers_state : bool :=
  forallb (fun f => str_mem f reset_marker_reader_assigns || str_mem f marker_state_exempt) marker_reader_state_fields &&
  forallb (fun f => str_mem f reset_input_controller_assigns) input_controller_state_fields &&
  str_mem "unread_marker"%string reset_marker_reader_cinfo_assigns &&
  str_mem "cur_marker"%string marker_reader_state_fields && str_mem "inheaders"%string input_controller_state_fields.
Lemma reset_covers_state_ : reset_covers_state = true.
Proof. vm_compute. reflexivity. Qed.

(* ------------------------------------------------------------ (a) bits per block *)
Definition sentinel_ok (d : dtbl) : Prop := nthZ (maxcode d) 17 = 1048575.
Definition dc_tbl_ok (d : dtbl) : Prop :=
  Forall (fun e => e mod 256 <= 15) (lookup d) /\ Forall (fun v => 0 <= v <= 15) (d_vals d).

Lemma take_code_spec : forall n bs acc c r, take_code n bs acc = Some (c, r) ->
  length bs = (n + length r)%nat /\ acc * 2 ^ Z.of_nat n <= c < (acc + 1) * 2 ^ Z.of_nat n.
Proof.
  induction n; intros bs acc c r H; cbn [take_code] in H.
  - inversion H; subst. split; [reflexivity|]. cbn. lia.
  - destruct bs as [|b t]; [discriminate|]. destruct (IHn _ _ _ _ H) as [A B].
    split; [cbn; lia|]. rewrite Nat2Z.inj_succ, Z.pow_succ_r by lia. unfold b2z in B. destruct b; nia.
Qed.

Lemma serial_loop_bits : forall fuel t code l bs sym w rest, sentinel_ok t -> 0 <= l <= 17 -> 0 <= code < 2 ^ l ->
  serial_loop fuel t code l bs = Some (sym, w, rest) ->
  (length rest <= length bs)%nat /\ Z.of_nat (length bs) - Z.of_nat (length rest) <= 17 - l.
Proof.
  induction fuel as [|k IH]; intros t code l bs sym w rest Hs Hl Hc H; cbn [serial_loop] in H.
  - destruct (code >? _); [discriminate|]. destruct (l >? 16); inversion H; subst; lia.
  - destruct (code >? nthZ (maxcode t) (Z.to_nat l)) eqn:E.
    + destruct bs as [|b r]; [discriminate|].
      assert (Hl17 : l <> 17).
      { intros ->. change (Z.to_nat 17) with 17%nat in E. rewrite Hs in E.
        assert (2 ^ 17 = 131072) by reflexivity. lia. }
      assert (Hc2 : 0 <= 2 * code + b2z b < 2 ^ (l + 1)).
      { rewrite Z.pow_add_r by lia. unfold b2z. destruct b; lia. }
      destruct (IH t _ (l + 1) r sym w rest Hs ltac:(lia) Hc2 H) as [A B]. cbn [length]. lia.
    + destruct (l >? 16); inversion H; subst; lia.
Qed.

Lemma decode_serial_bits t m bs sym w rest : sentinel_ok t -> (m <= 17)%nat ->
  decode_serial t m bs = Some (sym, w, rest) ->
  (length rest <= length bs)%nat /\ Z.of_nat (length bs) - Z.of_nat (length rest) <= 17.
Proof.
  unfold decode_serial. intros Hs Hm H. destruct (take_code m bs 0) as [[code r]|] eqn:E; [|discriminate].
  destruct (take_code_spec _ _ _ _ _ E) as [A B].
  assert (H1 : 0 <= Z.of_nat m <= 17) by lia.
  assert (H2 : 0 <= code < 2 ^ Z.of_nat m) by lia.
  destruct (serial_loop_bits _ _ _ _ _ _ _ _ Hs H1 H2 H) as [C D]. lia.
Qed.

Lemma decode_lookahead_bits t bs sym w rest : sentinel_ok t -> decode_lookahead t bs = Some (sym, w, rest) ->
  (length rest <= length bs)%nat /\ Z.of_nat (length bs) - Z.of_nat (length rest) <= 17.
Proof.
  unfold decode_lookahead. intros Hs H. destruct (8 <=? length bs)%nat.
  - destruct (take_code 8 bs 0) as [[look r]|]; [|discriminate].
    destruct (_ <=? HUFF_LOOKAHEAD) eqn:E.
    + inversion H; subst. rewrite skipn_length. unfold HUFF_LOOKAHEAD in E. lia.
    + apply (decode_serial_bits t 9 bs sym w rest Hs); [lia|exact H].
  - apply (decode_serial_bits t 1 bs sym w rest Hs); [lia|exact H].
Qed.

Lemma decode_lookahead_dc t bs sym w rest : dc_tbl_ok t -> decode_lookahead t bs = Some (sym, w, rest) -> 0 <= sym <= 15.
Proof.
  intros [Hl Hv] H. unfold decode_lookahead in H.
  assert (Hser : forall fuel code l bs' , serial_loop fuel t code l bs' = Some (sym, w, rest) -> 0 <= sym <= 15).
  { induction fuel as [|k IH]; intros code l bs' H'; cbn [serial_loop] in H'.
    - destruct (code >? _); [discriminate|]. destruct (l >? 16); inversion H'; subst; [lia|].
      unfold nthZ. apply (Forall_nth (fun v => 0 <= v <= 15)); auto. lia.
    - destruct (code >? _).
      + destruct bs' as [|b r]; [discriminate|]. eapply IH; eauto.
      + destruct (l >? 16); inversion H'; subst; [lia|].
        unfold nthZ. apply (Forall_nth (fun v => 0 <= v <= 15)); auto. lia. }
  assert (Hds : forall m, decode_serial t m bs = Some (sym, w, rest) -> 0 <= sym <= 15).
  { unfold decode_serial. intros m H'. destruct (take_code m bs 0) as [[code r]|]; [|discriminate]. eapply Hser; eauto. }
  destruct (8 <=? length bs)%nat; [|eapply Hds; eauto].
  destruct (take_code 8 bs 0) as [[look r]|]; [|discriminate].
  destruct (_ <=? HUFF_LOOKAHEAD); [|eapply Hds; eauto].
  inversion H; subst.
  assert (Hn : nthZ (lookup t) (Z.to_nat look) mod 256 <= 15).
  { unfold nthZ. apply (Forall_nth (fun e => e mod 256 <= 15)); auto. cbn. lia. }
  lia.
Qed.

(* bits consumed from bs when the block is complete *)
Definition consumed (bs rest : list bool) : Z := Z.of_nat (length bs) - Z.of_nat (length rest).

Lemma ac_loop_bits t : dtbl_ok t -> sentinel_ok t -> forall fuel k bs acc, 1 <= k ->
  match ac_loop fuel t k bs acc with
  | BlkDone _ rest => (length rest <= length bs)%nat /\ consumed bs rest <= 32 * Z.max 0 (64 - k)
  | _ => True
  end.
Proof.
  intros Hok Hs. induction fuel as [|f IH]; intros k bs acc Hk; cbn [ac_loop].
  - destruct (k <? L_DCTSIZE2) eqn:E; [exact I|]. unfold consumed. lia.
  - destruct (k <? L_DCTSIZE2) eqn:E; [|unfold consumed; lia].
    destruct (decode_lookahead t bs) as [[[sym w] bs1]|] eqn:ED; [|exact I].
    destruct (decode_lookahead_bits _ _ _ _ _ Hs ED) as [A B].
    pose proof (decode_lookahead_sym _ _ _ _ _ Hok ED) as Hsym.
    cbv zeta. destruct (sym mod 16 =? 0) eqn:E0.
    + destruct (sym / 16 =? 15).
      * specialize (IH (k + 15 + 1) bs1 acc ltac:(lia)).
        destruct (ac_loop f t (k + 15 + 1) bs1 acc); auto. destruct IH as [C D]. unfold consumed in *. ulia.
      * unfold consumed. ulia.
    + destruct (take_code (Z.to_nat (sym mod 16)) bs1 0) as [[v bs2]|] eqn:ET; [|exact I].
      destruct (take_code_spec _ _ _ _ _ ET) as [T1 _].
      match goal with |- match ac_loop f t ?k' bs2 ?acc' with _ => _ end =>
        specialize (IH k' bs2 acc' ltac:(lia)); destruct (ac_loop f t k' bs2 acc'); auto end.
      destruct IH as [C D]. unfold consumed in *.
      assert (Z.of_nat (Z.to_nat (sym mod 16)) <= 15) by lia. ulia.
Qed.

(* one block consumes at most 64 x (17 + 15) bits; the 17th bit is the sentinel step of a bad code *)
Lemma decode_block_bits dct act bs : sentinel_ok dct -> dc_tbl_ok dct -> dtbl_ok act -> sentinel_ok act ->
  match decode_block dct act bs with
  | BlkDone _ rest => (length rest <= length bs)%nat /\ consumed bs rest <= L_DCTSIZE2 * 32
  | _ => True
  end.
Proof.
  intros Hsd Hdc Hoa Hsa. unfold decode_block.
  destruct (decode_lookahead dct bs) as [[[s w] bs1]|] eqn:ED; [|exact I].
  destruct (decode_lookahead_bits _ _ _ _ _ Hsd ED) as [A B].
  pose proof (decode_lookahead_dc _ _ _ _ _ Hdc ED) as Hsym.
  destruct (s =? 0) eqn:E0.
  - pose proof (ac_loop_bits act Hoa Hsa 64 1 bs1 [(0, 0, 0)] ltac:(lia)) as H.
    destruct (ac_loop 64 act 1 bs1 _); auto. destruct H as [C D]. unfold consumed in *. ulia.
  - destruct (take_code (Z.to_nat s) bs1 0) as [[v bs2]|] eqn:ET; [|exact I].
    destruct (take_code_spec _ _ _ _ _ ET) as [T1 _].
    match goal with |- match ac_loop 64 act 1 bs2 ?acc' with _ => _ end =>
      pose proof (ac_loop_bits act Hoa Hsa 64 1 bs2 acc' ltac:(lia)) as H; destruct (ac_loop 64 act 1 bs2 acc'); auto end.
    destruct H as [C D]. unfold consumed in *. ulia.
Qed.

(* The unchecked decode_mcu_fast is used only when BUFSIZE * blocks_in_MCU source bytes are
   available.  Every data byte occupies at most two source bytes (FF is followed by a stuffed
   00), so the threshold must be at least 2 x (bits per block / 8). *)
Lemma fast_path_threshold_ : 2 * ((L_DCTSIZE2 * 32) / 8) <= L_BUFSIZE.
Proof. vm_compute. discriminate. Qed.

(* ------------------- tables built by jpeg_make_d_derived_tbl satisfy the hypotheses *)
Lemma d_scan_length : forall bits codes p, length (d_scan bits codes p) = length bits.
Proof. induction bits as [|b t IH]; intros; cbn [d_scan]; auto. destruct (b =? 0); cbn; rewrite IH; reflexivity. Qed.

Lemma fold_upd_Forall {A} (P : A -> Prop) (f : nat -> nat) x : P x -> forall l tb, Forall P tb ->
  Forall P (fold_left (fun tb k => upd (f k) x tb) l tb).
Proof. intros Hx. induction l as [|k l IH]; intros tb Ht; cbn; auto. apply IH. apply Forall_upd; auto. Qed.

Lemma look_fill_Forall (P Q : Z -> Prop) : (forall s v, Q v -> P (s * 256 + v)) ->
  forall codes sizes vals tab, Forall Q vals -> Forall P tab -> Forall P (look_fill codes sizes vals tab).
Proof.
  intros HPQ. induction codes as [|c ct IH]; intros sizes vals tab Hv Ht; cbn [look_fill]; auto.
  destruct sizes as [|s st]; auto. destruct vals as [|v vt]; auto.
  inversion Hv; subst. destruct (s <=? HUFF_LOOKAHEAD); auto.
  apply IH; auto.
  apply (fold_upd_Forall P (fun k => Z.to_nat (c * 2 ^ (HUFF_LOOKAHEAD - s) + Z.of_nat k))); auto.
Qed.

Lemma make_d_derived_fast bits vals isDC m d : length bits = 17%nat ->
  make_d_derived bits vals isDC m = Some d ->
  sentinel_ok d /\ (isDC = true -> 0 <= m <= 15 -> dc_tbl_ok d).
Proof.
  unfold make_d_derived. intros Hl.
  assert (Lb : length (skipn 1 (firstn 17 bits)) = 16%nat) by (rewrite skipn_length, firstn_length; lia).
  remember (skipn 1 (firstn 17 bits)) as bl eqn:Hbl. clear Hbl. intros H.
  destruct (huffsizes bl 1 0) as [sizes|] eqn:E1; [|discriminate].
  destruct (gen_codes sizes) as [codes|]; [|discriminate].
  destruct (isDC && negb _) eqn:E2; [discriminate|].
  inversion H; subst; clear H. split.
  - unfold sentinel_ok, nthZ. cbn [maxcode].
    assert (L : length (map fst (d_scan bl codes 0)) = 16%nat) by (rewrite map_length, d_scan_length; lia).
    change (nth 16 (map fst (d_scan bl codes 0) ++ [1048575]) 0 = 1048575).
    rewrite app_nth2 by lia. rewrite L. reflexivity.
  - intros -> Hm. cbn in E2. apply negb_false_iff in E2. rewrite forallb_forall in E2.
    assert (Hv : Forall (fun v => 0 <= v <= 15) (firstn (length sizes) vals)).
    { apply Forall_forall. intros x Hx. specialize (E2 x Hx). lia. }
    split; cbn [lookup d_vals]; [|exact Hv].
    apply (look_fill_Forall (fun e => e mod 256 <= 15) (fun v => 0 <= v <= 15)); auto.
    + intros s v Hv'. lia.
    + assert (Hr : forall n, Forall (fun e => e mod 256 <= 15) (repeat 2304 n)) by (intro; apply Forall_repeat; cbn; lia).
      exact (Hr 256%nat).
Qed.

(* The statement used in props/C01.v: tables made by jpeg_make_d_derived_tbl from well-formed
   DHT slots (lossy: DC categories <= 15), every bit string *)
Lemma block_bits_bound_ : forall dbits dvals abits avals dct act bs,
  htbl_ok (dbits, dvals) -> htbl_ok (abits, avals) ->
  make_d_derived dbits dvals true 15 = Some dct -> make_d_derived abits avals false 15 = Some act ->
  match decode_block dct act bs with
  | BlkDone _ rest => (length rest <= length bs)%nat /\
                      Z.of_nat (length bs) - Z.of_nat (length rest) <= L_DCTSIZE2 * 32
  | _ => True
  end.
Proof.
  intros dbits dvals abits avals dct act bs Hd Ha Md Ma.
  pose proof Hd as (Ld & _). pose proof Ha as (La & _). cbn [fst] in Ld, La.
  destruct (make_d_derived_fast _ _ _ _ _ Ld Md) as [S1 D1].
  destruct (make_d_derived_fast _ _ _ _ _ La Ma) as [S2 _].
  apply decode_block_bits; auto; [apply D1; [reflexivity|lia]|].
  eapply make_d_derived_ok; eauto.
Qed.
