(* C18 -- GIF / Targa statements exported to props/C18.v, and non-vacuity examples *)
From Coq Require Import List ZArith Lia Bool.
From LJT Require Import gen.GenImgRd model.RdCommon model.Gif model.Tga proofs.PnmProofs proofs.GifProofs proofs.TgaProofs.
Import ListNotations.
Local Open Scope Z_scope.

(* the model constants the proofs rely on are the ones read from the current source *)
Lemma source_constants :
  lzw_table_size = 2 ^ max_lzw_bits /\ max_lzw_bits = 12 /\ code_buf_size = 256 + 4 /\
  gif_min_codesize = 2 /\ gif_max_codesize = 8 /\ 2 ^ gif_max_codesize <= gif_maxcolormap /\
  lzw_full_test_strict = true /\ lzw_grow_guard_strict = true /\ lzw_bad_incode_zero = true /\
  tga_max_maplen = 256 /\ tga_index_check = true /\ length c5to8 = 32%nat.
Proof. repeat split; try reflexivity; cbn; lia. Qed.

(* 3x2 GIF, 4-colour palette, real LZW stream *)
Definition f_gif := [71; 73; 70; 56; 57; 97; 3; 0; 2; 0; 129; 0; 0; 0; 0; 0; 255; 0; 0; 0; 255; 0; 0; 0; 255; 44; 0; 0; 0; 0; 3; 0; 2; 0; 0; 2; 4; 68; 34; 51; 5; 0; 59].
(* same header, image data ff ff: codes above max_code -> three warnings, zero padding *)
Definition f_gif_bad := [71; 73; 70; 56; 57; 97; 3; 0; 2; 0; 129; 0; 0; 0; 0; 0; 255; 0; 0; 0; 255; 0; 0; 0; 255; 44; 0; 0; 0; 0; 3; 0; 2; 0; 0; 2; 2; 255; 255; 0; 59].
Definition f_gif_trunc := [71; 73; 70; 56; 57; 97; 3; 0; 2; 0; 129; 0; 0; 0; 0; 0; 255; 0; 0; 0; 255; 0; 0; 0; 255; 44; 0; 0; 0; 0; 3; 0; 2; 0; 0; 2; 4; 68; 34].
(* 3x2 24-bit RLE Targa, top-down: a run of 2 then a raw packet that continues on the next row *)
Definition f_tga := [0; 0; 10; 0; 0; 0; 0; 0; 0; 0; 0; 0; 3; 0; 2; 0; 24; 32; 129; 1; 2; 3; 3; 4; 5; 6; 7; 8; 9; 10; 11; 12; 13; 14; 15].
(* 2x1 colour-mapped Targa with a 2-entry map; the second file uses index 2 *)
Definition f_tga_cm := [0; 1; 1; 0; 0; 2; 0; 24; 0; 0; 0; 0; 2; 0; 1; 0; 8; 32; 1; 2; 3; 4; 5; 6; 1; 0].
Definition f_tga_cm_bad := [0; 1; 1; 0; 0; 2; 0; 24; 0; 0; 0; 0; 2; 0; 1; 0; 8; 32; 1; 2; 3; 4; 5; 6; 1; 2].
Definition f_tga_trunc := [0; 0; 10; 0; 0; 0; 0; 0; 0; 0; 0; 0; 3; 0; 2; 0; 24; 32; 129; 1; 2; 3; 3; 4; 5; 6; 7; 8; 9; 10; 11; 12].

Lemma ex_gif_tga :
  bytes f_gif /\
  load_gif 0 f_gif = ROk (3, 2, 3, 0, [[0; 0; 0; 255; 0; 0; 255; 0; 0]; [0; 255; 0; 0; 0; 255; 0; 0; 255]]) /\
  load_gif 0 f_gif_bad = ROk (3, 2, 3, 3, [[0; 0; 0; 0; 0; 0; 0; 0; 0]; [0; 0; 0; 0; 0; 0; 0; 0; 0]]) /\
  load_gif 0 f_gif_trunc = RErr R_EOF /\ load_gif 5 f_gif = RErr R_TOOBIG /\
  load_tga 0 f_tga = ROk (3, 2, 3, [[3; 2; 1; 3; 2; 1; 6; 5; 4]; [9; 8; 7; 12; 11; 10; 15; 14; 13]]) /\
  load_tga 0 f_tga_cm = ROk (2, 1, 3, [[6; 5; 4; 3; 2; 1]]) /\
  load_tga 0 f_tga_cm_bad = RErr R_TGA_BADPARMS /\ load_tga 0 f_tga_trunc = RErr R_EOF.
Proof. split; [repeat constructor; lia|]. vm_compute. repeat split; reflexivity. Qed.

(* the invariant of the LZW state is satisfiable: the state InitLZWCode builds *)
Lemma ex_linv : linv (lzw_init 2 0 [2; 140; 45; 153; 135; 42; 28; 220; 51; 160; 2; 117; 236; 149; 250; 168; 222; 96; 140; 4; 145; 76; 1; 0; 59]).
Proof. apply lzw_init_linv; [repeat constructor; lia|lia]. Qed.
