(* MarkerTraceProofs.v -- C16: the JFIF marker the compressor writes is reported as a thumbnail-free JFIF marker of
   consistent size (no JTRC_JFIF_THUMBNAIL, no JTRC_JFIF_BADTHUMBNAILSIZE; the version warning exactly when the
   major version is not 1), under every save limit jpeg_save_markers can install. *)
From Coq Require Import List ZArith Bool Lia.
From LJT Require Import lib.Sweep gen.GenIccConst model.MarkerRT model.MarkerTrace proofs.C16Consts proofs.IccProofs proofs.MarkerProofs.
Import ListNotations.
Local Open Scope Z_scope.

Theorem jfif_trace c j : jfif_ok j -> cfg_wf c ->
  trace_marker c M_APP0 (jfif_data j) =
  (if j_major j =? 1 then [] else [WarnJfifMajor (j_major j) (j_minor j)])
  ++ [TrJfif (j_major j) (j_minor j) (j_xd j) (j_yd j) (j_unit j)].
Proof.
  intros (A & B & C & D & E) (W1 & W2 & _). unfold trace_marker. rewrite Z.eqb_refl.
  change (Zlength (jfif_data j)) with 14.
  assert (Hseen : (if c M_APP0 =? 0 then (if APPN_DATA_LEN <=? 14 then APPN_DATA_LEN else if 0 <? 14 then 14 else 0) else Z.min 14 (c M_APP0)) = 14).
  { destruct (c M_APP0 =? 0) eqn:E0; [reflexivity|]. apply Z.eqb_neq in E0. destruct W2 as [W2|W2]; [contradiction|]. unfold APP0_DATA_LEN in W2. lia. }
  rewrite Hseen. change (Z.to_nat 14) with (length (jfif_data j)). rewrite firstn_exact.
  unfold trace_app0. change (APP0_DATA_LEN <=? 14) with true. cbn [andb].
  unfold jfif_data. change jfif_sig_examine with jfif_sig_emit. unfold has_prefix. rewrite firstn_app_exact, zlist_eqb_refl.
  unfold emit_2bytes, nthz.
  change (Z.to_nat 5) with 5%nat. change (Z.to_nat 6) with 6%nat. change (Z.to_nat 7) with 7%nat.
  change (Z.to_nat 8) with 8%nat. change (Z.to_nat 9) with 9%nat. change (Z.to_nat 10) with 10%nat.
  change (Z.to_nat 11) with 11%nat. change (Z.to_nat 12) with 12%nat. change (Z.to_nat 13) with 13%nat.
  unfold jfif_sig_emit. cbn [app nth]. rewrite !byte_of_id by assumption.
  change (byte_of 0) with 0. cbn [Z.eqb andb]. change (14 - APP0_DATA_LEN =? 0 * 0 * 3) with true.
  rewrite !app_nil_r. f_equal. f_equal. unfold is_byte in *.
  replace ((j_xd j / 256) mod 256 * 256 + j_xd j mod 256) with (j_xd j) by (pose proof (Z.div_mod (j_xd j) 256); assert (0 <= j_xd j / 256 < 256) by (split; [apply Z.div_pos | apply Z.div_lt_upper_bound]; lia); rewrite (Z.mod_small (j_xd j / 256)) by lia; lia).
  replace ((j_yd j / 256) mod 256 * 256 + j_yd j mod 256) with (j_yd j) by (pose proof (Z.div_mod (j_yd j) 256); assert (0 <= j_yd j / 256 < 256) by (split; [apply Z.div_pos | apply Z.div_lt_upper_bound]; lia); rewrite (Z.mod_small (j_yd j / 256)) by lia; lia).
  reflexivity.
Qed.

(* JFXX extension markers are classified by their extension code *)
Theorem jfxx_trace ext extra : is_byte ext ->
  trace_app0 (jfxx_sig ++ ext :: extra) (6 + Zlength extra) (6 + Zlength extra) =
  if ext =? 16 then [TrThumbJpeg (6 + Zlength extra)] else if ext =? 17 then [TrThumbPalette (6 + Zlength extra)]
  else if ext =? 19 then [TrThumbRgb (6 + Zlength extra)] else [TrJfifExt ext (6 + Zlength extra)].
Proof.
  intros Hb. unfold trace_app0. pose proof (Zlength_nonneg' extra).
  assert (N : has_prefix jfif_sig_examine (jfxx_sig ++ ext :: extra) = false) by reflexivity.
  rewrite N, andb_false_r. replace (6 <=? 6 + Zlength extra) with true by (symmetry; apply Z.leb_le; lia).
  assert (P : has_prefix jfxx_sig (jfxx_sig ++ ext :: extra) = true) by (unfold has_prefix; rewrite firstn_app_exact; apply zlist_eqb_refl).
  rewrite P. cbn [andb]. reflexivity.
Qed.
