(* C03: AC refinement (jcphuff.c encode_mcu_AC_refine / jdphuff.c decode_mcu_AC_refine),
   one restart interval: the decoder applied to the encoder's bits returns the refined
   coefficients and the rest of the stream.  Part 1: per-position facts, counting, the
   "frontier" invariant of the block being decoded, the decoder's skip / tail loops. *)
From Coq Require Import List ZArith Lia Bool.
From LJT Require Import model.Huff model.Seq model.Prog proofs.SeqBits proofs.NatOrderProofs
  proofs.SeqProofs proofs.ProgProofs proofs.ChainProofs.
Import ListNotations.
Local Open Scope Z_scope.

Lemma hist_zero_iff a v : 0 <= a -> (ac_state (a + 1) v = 0 <-> Z.shiftr (Z.abs v) a < 2).
Proof.
  intros Ha. unfold ac_state, pt_ac. rewrite Z.shiftl_mul_pow2 by lia. rewrite !Z.shiftr_div_pow2 by lia.
  set (m := Z.abs v). assert (Hm : 0 <= m) by (unfold m; lia).
  assert (Hpa : 0 < 2 ^ a) by (apply Z.pow_pos_nonneg; lia).
  assert (Hp : 2 ^ (a + 1) = 2 ^ a * 2) by (rewrite Z.pow_add_r by lia; reflexivity).
  assert (Hq : m / 2 ^ (a + 1) = m / 2 ^ a / 2) by (rewrite Hp, Z.div_div by lia; reflexivity).
  set (t := m / 2 ^ a) in *. assert (Ht : 0 <= t) by (apply Z.div_pos; lia).
  assert (Ht2 : t / 2 = 0 <-> t < 2).
  { split; intros H.
    - destruct (Z.lt_ge_cases t 2) as [H2|H2]; [exact H2|].
      assert (1 <= t / 2) by (apply Z.div_le_lower_bound; lia). lia.
    - apply Z.div_small. lia. }
  destruct (v <? 0) eqn:Ev.
  - apply Z.ltb_lt in Ev. replace (- v) with m by (unfold m; lia). rewrite Hq. split; intros H.
    + apply Ht2. nia.
    + apply Ht2 in H. rewrite H. lia.
  - apply Z.ltb_ge in Ev. replace v with m by (unfold m; lia). rewrite Hq. split; intros H.
    + apply Ht2. nia.
    + apply Ht2 in H. rewrite H. lia.
Qed.

Section ACR.
Variable ac : codec.
Variables Ss Se : nat.
Variable Al : Z.
Hypothesis HSs : (1 <= Ss)%nat.
Hypothesis HSe : (Ss <= Se)%nat /\ (Se <= 63)%nat.
Hypothesis HAl : 0 <= Al.

Definition av (b : list Z) (k : nat) : Z := Z.shiftr (Z.abs (nth (order k) b 0)) Al.
Definition ng (b : list Z) (k : nat) : bool := nth (order k) b 0 <? 0.
Definition lst (b : list Z) (k m : nat) : list (Z * bool) := map (fun j => (av b j, ng b j)) (seq k m).
Definition tv (b : list Z) (j : nat) : Z := ac_state Al (nth (order j) b 0).
Definition hv (h : list Z) (j : nat) : Z := nth (order j) h 0.
Definition inb (j : nat) : Prop := (Ss <= j)%nat /\ (j <= Se)%nat.

Lemma acr_abs_lst b : acr_abs Ss Se Al b = lst b Ss (S Se - Ss).
Proof. reflexivity. Qed.

Lemma av_nonneg b k : 0 <= av b k.
Proof. unfold av. apply Z.shiftr_nonneg. lia. Qed.

Lemma in_band_true j : inb j -> in_band Ss Se j = true.
Proof. intros [H1 H2]. unfold in_band. apply andb_true_intro. split; apply Nat.leb_le; lia. Qed.

(* what the history relation says about one band position *)
Lemma kind_facts b h j : acr_hist Ss Se Al b h -> inb j ->
  (hv h j = 0 <-> av b j < 2) /\
  (av b j = 0 -> tv b j = 0) /\
  (av b j = 1 -> tv b j = if ng b j then - p1 Al else p1 Al) /\
  (2 <= av b j -> tv b j = acr_correct Al (hv h j) (Z.odd (av b j))).
Proof.
  intros [_ [_ Hh]] Hj. specialize (Hh j (in_band_true j Hj)). unfold hv, tv, av, ng. rewrite Hh.
  set (v := nth (order j) b 0). pose proof (ac_refine_step Al v HAl) as Hr.
  pose proof (hist_zero_iff Al v HAl) as Hz. unfold ac_refine_val in Hr.
  split; [exact Hz|]. split; [|split].
  - intros H0. rewrite <- Hr. destruct (ac_state (Al + 1) v =? 0) eqn:E.
    + rewrite H0. reflexivity.
    + apply Z.eqb_neq in E. exfalso. apply E. apply Hz. lia.
  - intros H1. rewrite <- Hr. destruct (ac_state (Al + 1) v =? 0) eqn:E.
    + rewrite H1. cbn [Z.eqb]. unfold p1. reflexivity.
    + apply Z.eqb_neq in E. exfalso. apply E. apply Hz. lia.
  - intros H2. rewrite <- Hr. destruct (ac_state (Al + 1) v =? 0) eqn:E; [|reflexivity].
    apply Z.eqb_eq in E. apply Hz in E. lia.
Qed.

(* ------------------------------------------------------------- counting *)
Fixpoint cz (b : list Z) (k n : nat) : Z :=
  match n with O => 0 | S n' => (if av b k =? 0 then 1 else 0) + cz b (S k) n' end.
Fixpoint hb (b : list Z) (k n : nat) : list bool :=
  match n with O => [] | S n' => (if av b k >? 1 then [Z.odd (av b k)] else []) ++ hb b (S k) n' end.
Definition noN (b : list Z) (k n : nat) : Prop := forall j, (k <= j < k + n)%nat -> av b j <> 1.
Definition Ainv (b : list Z) (kd k : nat) : Prop :=
  forall j, (kd <= j < k)%nat -> 2 <= av b j -> cz b kd (j - kd) <= 15.

Lemma cz_nonneg b : forall n k, 0 <= cz b k n.
Proof. induction n as [|n IH]; intros k; cbn [cz]; [lia|]. specialize (IH (S k)). destruct (av b k =? 0); lia. Qed.

Lemma cz_split b : forall n m k, cz b k (n + m) = cz b k n + cz b (k + n) m.
Proof.
  induction n as [|n IH]; intros m k.
  - cbn [cz Nat.add]. rewrite Nat.add_0_r. lia.
  - cbn [Nat.add cz]. rewrite IH. replace (S k + n)%nat with (k + S n)%nat by lia. lia.
Qed.
Lemma hb_split b : forall n m k, hb b k (n + m) = hb b k n ++ hb b (k + n) m.
Proof.
  induction n as [|n IH]; intros m k.
  - cbn [hb Nat.add app]. now rewrite Nat.add_0_r.
  - cbn [Nat.add hb]. rewrite IH. replace (S k + n)%nat with (k + S n)%nat by lia. now rewrite app_assoc.
Qed.
Lemma cz_mono b k n m : (n <= m)%nat -> cz b k n <= cz b k m.
Proof.
  intros H. replace m with (n + (m - n))%nat by lia. rewrite cz_split. pose proof (cz_nonneg b (m - n) (k + n)). lia.
Qed.
Lemma cz_snoc b k n : cz b k (S n) = cz b k n + (if av b (k + n) =? 0 then 1 else 0).
Proof. replace (S n) with (n + 1)%nat by lia. rewrite cz_split. cbn [cz]. lia. Qed.
Lemma hb_snoc b k n : hb b k (S n) = hb b k n ++ (if av b (k + n) >? 1 then [Z.odd (av b (k + n))] else []).
Proof. replace (S n) with (n + 1)%nat by lia. rewrite hb_split. cbn [hb]. now rewrite app_nil_r. Qed.

Lemma hb_nil b : forall n k, (forall j, (k <= j < k + n)%nat -> av b j < 2) -> hb b k n = [].
Proof.
  induction n as [|n IH]; intros k H; [reflexivity|]. cbn [hb].
  destruct (av b k >? 1) eqn:E; [apply Z.gtb_lt in E; specialize (H k ltac:(lia)); lia|].
  cbn [app]. apply IH. intros j Hj. apply H. lia.
Qed.

Lemma find_zero b k : forall m c, 0 <= c < cz b k m ->
  exists n, (n < m)%nat /\ cz b k n = c /\ av b (k + n) = 0.
Proof.
  induction m as [|m IH]; intros c Hc; [cbn in Hc; lia|].
  rewrite cz_snoc in Hc. destruct (Z.lt_ge_cases c (cz b k m)) as [H|H].
  - destruct (IH c ltac:(lia)) as [n [Hn H1]]. exists n. split; [lia|exact H1].
  - destruct (av b (k + m) =? 0) eqn:E; [|lia]. apply Z.eqb_eq in E.
    exists m. split; [lia|]. split; [lia|exact E].
Qed.

Lemma noN_sub b k n k' n' : noN b k n -> (k <= k')%nat -> (k' + n' <= k + n)%nat -> noN b k' n'.
Proof. intros H H1 H2 j Hj. apply H. lia. Qed.

(* --------------------------------------------------------------- frontier *)
Definition front (b h : list Z) (k : nat) (blk : list Z) : Prop :=
  length blk = 64%nat /\
  forall j, (j < 64)%nat ->
    nth (order j) blk 0 = if in_band Ss Se j && (j <? k)%nat then tv b j else hv h j.

Lemma front_init b h : length h = 64%nat -> front b h Ss h.
Proof.
  intros Hl. split; [exact Hl|]. intros j Hj. unfold in_band.
  destruct (Ss <=? j)%nat eqn:E1; cbn [andb]; [|reflexivity].
  apply Nat.leb_le in E1. replace (j <? Ss)%nat with false by (symmetry; apply Nat.ltb_ge; lia).
  now rewrite andb_false_r.
Qed.

Lemma front_at b h k blk j : front b h k blk -> (k <= j)%nat -> (j < 64)%nat -> nth (order j) blk 0 = hv h j.
Proof.
  intros [_ H] Hk Hj. rewrite (H j Hj). replace (j <? k)%nat with false by (symmetry; apply Nat.ltb_ge; lia).
  now rewrite andb_false_r.
Qed.

Lemma front_keep b h k blk : front b h k blk -> inb k -> tv b k = hv h k -> front b h (S k) blk.
Proof.
  intros [Hl H] Hk He. split; [exact Hl|]. intros j Hj. rewrite (H j Hj).
  destruct (Nat.eq_dec j k) as [->|Hne].
  - rewrite Nat.ltb_irrefl, andb_false_r. rewrite (in_band_true k Hk).
    replace (k <? S k)%nat with true by (symmetry; apply Nat.ltb_lt; lia). cbn [andb]. now symmetry.
  - replace (j <? S k)%nat with (j <? k)%nat; [reflexivity|].
    destruct (j <? k)%nat eqn:E1, (j <? S k)%nat eqn:E2; try reflexivity;
      [apply Nat.ltb_lt in E1; apply Nat.ltb_ge in E2; lia|apply Nat.ltb_ge in E1; apply Nat.ltb_lt in E2; lia].
Qed.

Lemma front_upd b h k blk : front b h k blk -> inb k -> front b h (S k) (upd (order k) (tv b k) blk).
Proof.
  intros [Hl H] Hk. destruct Hk as [Hk1 Hk2]. split; [now rewrite upd_length|]. intros j Hj.
  destruct (Nat.eq_dec j k) as [->|Hne].
  - rewrite nth_upd_same by (rewrite Hl; apply order_lt).
    rewrite (in_band_true k (conj Hk1 Hk2)). replace (k <? S k)%nat with true by (symmetry; apply Nat.ltb_lt; lia). reflexivity.
  - rewrite nth_upd_other by (intros Heq; apply Hne; symmetry; apply order_inj; auto; lia).
    rewrite (H j Hj). replace (j <? S k)%nat with (j <? k)%nat; [reflexivity|].
    destruct (j <? k)%nat eqn:E1, (j <? S k)%nat eqn:E2; try reflexivity;
      [apply Nat.ltb_lt in E1; apply Nat.ltb_ge in E2; lia|apply Nat.ltb_ge in E1; apply Nat.ltb_lt in E2; lia].
Qed.

Lemma front_final b h blk : front b h (S Se) blk -> blk = acr_expected Ss Se Al b h.
Proof.
  intros [Hl H]. apply (nth_ext _ _ 0 0).
  - unfold acr_expected. now rewrite map_length, seq_length.
  - intros i Hi. rewrite Hl in Hi. unfold acr_expected.
    rewrite (map_nth_lt _ 0 0%nat) by (rewrite seq_length; exact Hi). rewrite seq_nth by exact Hi. cbn [Nat.add].
    set (j := nth i inv_order 0%nat). assert (Hj : (j < 64)%nat) by (apply inv_lt; exact Hi).
    assert (Ho : order j = i) by (apply order_inv; exact Hi).
    specialize (H j Hj). rewrite Ho in H. rewrite H. unfold tv, hv. rewrite Ho.
    unfold in_band. destruct (Ss <=? j)%nat eqn:E1; cbn [andb]; [|reflexivity].
    destruct (j <=? Se)%nat eqn:E2; cbn [andb]; [|reflexivity].
    apply Nat.leb_le in E2. replace (j <? S Se)%nat with true by (symmetry; apply Nat.ltb_lt; lia). reflexivity.
Qed.

(* --------------------------------------------- the decoder's inner loops *)
Section Block.
Variables b h : list Z.
Hypothesis Hhist : acr_hist Ss Se Al b h.

(* the do-while of decode_mcu_AC_refine: passes n positions without a newly-nonzero
   coefficient, reading the correction bits of the already-nonzero ones, and stops at the
   zero-history coefficient at k+n when the run count is exhausted there *)
Lemma skip_to : forall n k r blk fuel,
  front b h k blk -> (Ss <= k)%nat -> (k + n <= Se)%nat -> noN b k n -> cz b k n = r ->
  av b (k + n) < 2 -> (n < fuel)%nat ->
  exists blk', front b h (k + n) blk' /\
    forall rest, acr_skip Se Al fuel k r blk (hb b k n ++ rest) = Some ((k + n)%nat, blk', rest).
Proof.
  induction n as [|n IH]; intros k r blk fuel Hf Hk Hkn HnN Hr Hav Hfu.
  - destruct fuel as [|f]; [lia|]. rewrite Nat.add_0_r in *. cbn [hb app cz] in *.
    exists blk. split; [exact Hf|]. intros rest. cbn [acr_skip].
    rewrite (front_at b h k blk k Hf (le_n _)) by lia.
    destruct (kind_facts b h k Hhist (conj Hk Hkn)) as [K1 _].
    replace (hv h k =? 0) with true by (symmetry; apply Z.eqb_eq; apply K1; exact Hav). cbn [negb].
    subst r. change (0 - 1 <? 0) with true. reflexivity.
  - destruct fuel as [|f]; [lia|].
    assert (Hin : inb k) by (split; lia).
    destruct (kind_facts b h k Hhist Hin) as [K1 [K2 [_ K4]]].
    assert (HN : av b k <> 1) by (apply HnN; lia).
    pose proof (av_nonneg b k) as H0. cbn [cz hb] in *.
    assert (HnN' : noN b (S k) n) by (apply (noN_sub b k (S n)); [exact HnN|lia|lia]).
    replace (k + S n)%nat with (S k + n)%nat in * by lia.
    pose proof (cz_nonneg b n (S k)) as Hc.
    destruct (av b k =? 0) eqn:Ez.
    + apply Z.eqb_eq in Ez.
      destruct (IH (S k) (r - 1) blk f) as [blk' [Hf' Hs]]; try lia; auto.
      { apply front_keep; auto. rewrite (K2 Ez). symmetry. apply K1. lia. }
      exists blk'. split; [exact Hf'|]. intros rest. cbn [acr_skip].
      rewrite (front_at b h k blk k Hf (le_n _)) by lia.
      replace (hv h k =? 0) with true by (symmetry; apply Z.eqb_eq; apply K1; lia). cbn [negb].
      replace (av b k >? 1) with false by (symmetry; rewrite Z.gtb_ltb; apply Z.ltb_ge; lia). cbn [app].
      replace (r - 1 <? 0) with false by (symmetry; apply Z.ltb_ge; lia).
      replace (S k <=? Se)%nat with true by (symmetry; apply Nat.leb_le; lia). apply Hs.
    + apply Z.eqb_neq in Ez. assert (H2 : 2 <= av b k) by lia.
      assert (Hh0 : hv h k <> 0) by (intros E; apply K1 in E; lia).
      destruct (IH (S k) r (upd (order k) (tv b k) blk) f) as [blk' [Hf' Hs]]; try lia; auto.
      { apply front_upd; auto. }
      exists blk'. split; [exact Hf'|]. intros rest. cbn [acr_skip].
      rewrite (front_at b h k blk k Hf (le_n _)) by lia.
      replace (hv h k =? 0) with false by (symmetry; apply Z.eqb_neq; exact Hh0). cbn [negb].
      replace (av b k >? 1) with true by (symmetry; apply Z.gtb_lt; lia). cbn [app].
      rewrite <- (K4 H2).
      replace (S k <=? Se)%nat with true by (symmetry; apply Nat.leb_le; lia). apply Hs.
Qed.

(* the correction-bit loop after an EOB *)
Lemma tail_to : forall n k blk,
  front b h k blk -> (Ss <= k)%nat -> (k + n = S Se)%nat -> noN b k n ->
  exists blk', front b h (S Se) blk' /\
    forall rest, acr_tail Al n k blk (hb b k n ++ rest) = Some (blk', rest).
Proof.
  induction n as [|n IH]; intros k blk Hf Hk Hkn HnN.
  - exists blk. split; [replace (S Se) with k by lia; exact Hf|]. intros rest. reflexivity.
  - assert (Hin : inb k) by (split; lia).
    destruct (kind_facts b h k Hhist Hin) as [K1 [K2 [_ K4]]].
    assert (HN : av b k <> 1) by (apply HnN; lia).
    pose proof (av_nonneg b k) as H0. cbn [hb].
    assert (HnN' : noN b (S k) n) by (apply (noN_sub b k (S n)); [exact HnN|lia|lia]).
    destruct (av b k =? 0) eqn:Ez.
    + apply Z.eqb_eq in Ez.
      destruct (IH (S k) blk) as [blk' [Hf' Hs]]; try lia; auto.
      { apply front_keep; auto. rewrite (K2 Ez). symmetry. apply K1. lia. }
      exists blk'. split; [exact Hf'|]. intros rest. cbn [acr_tail].
      rewrite (front_at b h k blk k Hf (le_n _)) by lia.
      replace (hv h k =? 0) with true by (symmetry; apply Z.eqb_eq; apply K1; lia). cbn [negb].
      replace (av b k >? 1) with false by (symmetry; rewrite Z.gtb_ltb; apply Z.ltb_ge; lia). cbn [app]. apply Hs.
    + apply Z.eqb_neq in Ez. assert (H2 : 2 <= av b k) by lia.
      assert (Hh0 : hv h k <> 0) by (intros E; apply K1 in E; lia).
      destruct (IH (S k) (upd (order k) (tv b k) blk)) as [blk' [Hf' Hs]]; try lia; auto.
      { apply front_upd; auto. }
      exists blk'. split; [exact Hf'|]. intros rest. cbn [acr_tail].
      rewrite (front_at b h k blk k Hf (le_n _)) by lia.
      replace (hv h k =? 0) with false by (symmetry; apply Z.eqb_neq; exact Hh0). cbn [negb].
      replace (av b k >? 1) with true by (symmetry; apply Z.gtb_lt; lia). cbn [app].
      rewrite <- (K4 H2). apply Hs.
Qed.

(* ------------------------------------------------------------------ ZRL *)
Lemma zrl_step : forall kd k blk fuel z, c_enc ac 240 = Some z ->
  front b h kd blk -> (Ss <= kd)%nat -> (kd <= k)%nat -> (k <= Se)%nat -> noN b kd (k - kd) -> Ainv b kd k ->
  16 <= cz b kd (k - kd) -> (Se + 2 <= fuel + kd)%nat ->
  exists kd1 blk1 fuel1, (kd < kd1)%nat /\ (kd1 <= k)%nat /\ front b h kd1 blk1 /\ noN b kd1 (k - kd1) /\ Ainv b kd1 k /\
     cz b kd1 (k - kd1) = cz b kd (k - kd) - 16 /\ hb b kd1 (k - kd1) = [] /\ (Se + 2 <= fuel1 + kd1)%nat /\
     forall rest, dec_acr_loop ac Se Al fuel kd blk (z ++ hb b kd (k - kd) ++ rest) = dec_acr_loop ac Se Al fuel1 kd1 blk1 rest.
Proof.
  intros kd k blk fuel z Hz Hf Hkd Hk HkS HnN HA Hc Hfu.
  destruct (find_zero b kd (k - kd) 15 ltac:(lia)) as [n [Hn [Hc15 Hav0]]].
  set (p := (kd + n)%nat) in *.
  assert (Hc16 : cz b kd (S n) = 16) by (rewrite cz_snoc; fold p; rewrite Hav0; cbn [Z.eqb]; lia).
  assert (Hlow : forall j, (p <= j < k)%nat -> av b j < 2).
  { intros j Hj. destruct (Z.lt_ge_cases (av b j) 2) as [H|H]; [exact H|]. exfalso.
    destruct (Nat.eq_dec j p) as [->|Hne]; [lia|].
    pose proof (HA j ltac:(lia) H) as H15. pose proof (cz_mono b kd (S n) (j - kd) ltac:(lia)). lia. }
  assert (Hsplit : (k - kd = n + (k - kd - n))%nat) by lia.
  assert (Hhb : hb b kd (k - kd) = hb b kd n).
  { rewrite Hsplit, hb_split. fold p. rewrite (hb_nil b (k - kd - n) p); [apply app_nil_r|]. intros j Hj. apply Hlow. lia. }
  destruct fuel as [|f]; [lia|].
  destruct (skip_to n kd 15 blk 65 Hf Hkd ltac:(lia)) as [blk' [Hf' Hs]];
    [apply (noN_sub b kd (k - kd)); [exact HnN|lia|lia]|exact Hc15|fold p; lia|lia|].
  fold p in Hf', Hs.
  exists (S p), blk', f. split; [lia|]. split; [lia|]. split.
  { apply front_keep; [exact Hf'|split; lia|].
    destruct (kind_facts b h p Hhist ltac:(split; lia)) as [K1 [K2 _]]. rewrite (K2 Hav0). symmetry. apply K1. lia. }
  split; [apply (noN_sub b kd (k - kd)); [exact HnN|lia|lia]|].
  split; [intros j Hj H2; specialize (Hlow j ltac:(lia)); lia|].
  split.
  { replace (k - kd)%nat with (S n + (k - S p))%nat by lia. rewrite cz_split. replace (kd + S n)%nat with (S p) by lia. lia. }
  split; [apply hb_nil; intros j Hj; apply Hlow; lia|]. split; [lia|].
  intros rest. cbn [dec_acr_loop].
  replace (Se <? kd)%nat with false by (symmetry; apply Nat.ltb_ge; lia).
  rewrite (c_ok ac 240 z _ Hz). change (240 / 16) with 15. change (240 mod 16) with 0.
  change (0 =? 0) with true. change (15 =? 15) with true. cbv iota. rewrite Hhb. rewrite Hs. reflexivity.
Qed.

Lemma zrl_steps : forall nn kd k blk fuel z, c_enc ac 240 = Some z ->
  front b h kd blk -> (Ss <= kd)%nat -> (kd <= k)%nat -> (k <= Se)%nat -> noN b kd (k - kd) -> Ainv b kd k ->
  16 * Z.of_nat (S nn) <= cz b kd (k - kd) -> (Se + 2 <= fuel + kd)%nat ->
  exists kd1 blk1 fuel1, (kd < kd1)%nat /\ (kd1 <= k)%nat /\ front b h kd1 blk1 /\ noN b kd1 (k - kd1) /\ Ainv b kd1 k /\
     cz b kd1 (k - kd1) = cz b kd (k - kd) - 16 * Z.of_nat (S nn) /\ hb b kd1 (k - kd1) = [] /\ (Se + 2 <= fuel1 + kd1)%nat /\
     forall rest, dec_acr_loop ac Se Al fuel kd blk (z ++ hb b kd (k - kd) ++ rep_bits nn z ++ rest)
                  = dec_acr_loop ac Se Al fuel1 kd1 blk1 rest.
Proof.
  induction nn as [|nn IH]; intros kd k blk fuel z Hz Hf Hkd Hk HkS HnN HA Hc Hfu.
  - destruct (zrl_step kd k blk fuel z Hz Hf Hkd Hk HkS HnN HA ltac:(lia) Hfu)
      as (kd1 & blk1 & fuel1 & H1 & H2 & H3 & H4 & H5 & H6 & H7 & H8 & H9).
    exists kd1, blk1, fuel1. repeat (split; [assumption||lia|]). intros rest. cbn [rep_bits app]. apply H9.
  - destruct (zrl_step kd k blk fuel z Hz Hf Hkd Hk HkS HnN HA ltac:(lia) Hfu)
      as (kd1 & blk1 & fuel1 & H1 & H2 & H3 & H4 & H5 & H6 & H7 & H8 & H9).
    destruct (IH kd1 k blk1 fuel1 z Hz H3 ltac:(lia) H2 HkS H4 H5 ltac:(lia) H8)
      as (kd2 & blk2 & fuel2 & G1 & G2 & G3 & G4 & G5 & G6 & G7 & G8 & G9).
    exists kd2, blk2, fuel2. split; [lia|]. split; [lia|]. split; [exact G3|]. split; [exact G4|]. split; [exact G5|].
    split; [lia|]. split; [exact G7|]. split; [exact G8|].
    intros rest. cbn [rep_bits]. rewrite <- app_assoc. rewrite H9. rewrite <- (G9 rest). rewrite H7. reflexivity.
Qed.

(* ------------------------------------------------------ the encoder loop *)
Variable EOB : nat.
Hypothesis HEOB : forall j, inb j -> av b j = 1 -> (j <= Ss + EOB)%nat.

(* encoder state (r, br) describes the positions [kd, k) the decoder has not passed yet *)
Definition pre (kd k : nat) (blk : list Z) (fuel : nat) (r : Z) (br : list bool) : Prop :=
  (Ss <= kd)%nat /\ (kd <= k)%nat /\ front b h kd blk /\ noN b kd (k - kd) /\
  r = cz b kd (k - kd) /\ br = hb b kd (k - kd) /\ (Se + 2 <= fuel + kd)%nat.

Definition zrl_out (k : nat) (r : Z) (br : list bool) (e : Z) (be : list bool) :=
  let nz := if (r >? 15) && (k - Ss <=? EOB)%nat then r / 16 else 0 in
  if nz >? 0 then
    match emit_eobrun ac e be, c_enc ac 240 with
    | Some fl, Some z => Some (fl ++ z ++ br ++ rep_bits (Z.to_nat (nz - 1)) z, r - 16 * nz, @nil bool, 0, @nil bool)
    | _, _ => None
    end
  else Some ([], r, br, e, be).

Lemma zrl_part k kd blk fuel r br e be o1 r1 br1 e1 be1 :
  (k <= Se)%nat -> pre kd k blk fuel r br -> ((k <= Ss + EOB)%nat -> Ainv b kd k) ->
  zrl_out k r br e be = Some (o1, r1, br1, e1, be1) ->
  exists flA oA kdA blkA fuelA,
    o1 = flA ++ oA /\
    ((flA = [] /\ oA = [] /\ e1 = e /\ be1 = be /\ kdA = kd /\ blkA = blk /\ fuelA = fuel) \/
     (emit_eobrun ac e be = Some flA /\ e1 = 0 /\ be1 = [])) /\
    (kd <= kdA)%nat /\ pre kdA k blkA fuelA r1 br1 /\ ((k <= Ss + EOB)%nat -> Ainv b kdA k /\ r1 <= 15) /\
    forall rest, dec_acr_loop ac Se Al fuel kd blk (oA ++ rest) = dec_acr_loop ac Se Al fuelA kdA blkA rest.
Proof.
  intros HkS (P1 & P2 & P3 & P4 & P5 & P6 & P7) HA Hz. unfold zrl_out in Hz. cbv zeta in Hz.
  destruct ((r >? 15) && (k - Ss <=? EOB)%nat) eqn:Ec.
  - apply andb_prop in Ec. destruct Ec as [Er Ek]. apply Z.gtb_lt in Er. apply Nat.leb_le in Ek.
    assert (Hq : 1 <= r / 16) by (apply Z.div_le_lower_bound; lia).
    assert (Hqr : 16 * (r / 16) <= r) by (apply Z.mul_div_le; lia).
    replace (r / 16 >? 0) with true in Hz by (symmetry; apply Z.gtb_lt; lia).
    destruct (emit_eobrun ac e be) as [fl|] eqn:Efl; [|discriminate].
    destruct (c_enc ac 240) as [z|] eqn:Ez; [|discriminate].
    injection Hz as <- <- <- <- <-.
    assert (HkE : (k <= Ss + EOB)%nat) by lia.
    destruct (zrl_steps (Z.to_nat (r / 16 - 1)) kd k blk fuel z Ez P3 P1 P2 HkS P4 (HA HkE)) as
      (kd1 & blk1 & fuel1 & H1 & H2 & H3 & H4 & H5 & H6 & H7 & H8 & H9); [rewrite <- P5; lia|exact P7|].
    exists fl, (z ++ br ++ rep_bits (Z.to_nat (r / 16 - 1)) z), kd1, blk1, fuel1.
    split; [reflexivity|]. split; [right; auto|]. split; [lia|].
    assert (Hr1 : cz b kd1 (k - kd1) = r - 16 * (r / 16)) by (rewrite H6, <- P5; lia).
    split.
    { split; [lia|]. split; [exact H2|]. split; [exact H3|]. split; [exact H4|]. split; [now symmetry|].
      split; [now symmetry|exact H8]. }
    split.
    { intros _. split; [exact H5|]. change (r - 16 * (r / 16) <= 15). pose proof (Z.mod_pos_bound r 16 ltac:(lia)). pose proof (Z.div_mod r 16 ltac:(lia)). lia. }
    intros rest. rewrite <- !app_assoc. rewrite P6. apply H9.
  - change (0 >? 0) with false in Hz. cbv iota in Hz. injection Hz as <- <- <- <- <-.
    exists [], [], kd, blk, fuel. split; [reflexivity|]. split; [left; repeat split; reflexivity|]. split; [lia|].
    split; [exact (conj P1 (conj P2 (conj P3 (conj P4 (conj P5 (conj P6 P7))))))|]. split.
    { intros HkE. split; [exact (HA HkE)|]. apply andb_false_iff in Ec. destruct Ec as [E|E].
      - rewrite Z.gtb_ltb in E. apply Z.ltb_ge in E. exact E.
      - apply Nat.leb_gt in E. lia. }
    intros rest. reflexivity.
Qed.

Lemma pre_snoc_zero kd k blk fuel r br : (k <= Se)%nat -> pre kd k blk fuel r br -> av b k = 0 ->
  pre kd (S k) blk fuel (r + 1) br.
Proof.
  intros HkS (P1 & P2 & P3 & P4 & P5 & P6 & P7) Ha. unfold pre.
  replace (S k - kd)%nat with (S (k - kd)) by lia.
  split; [exact P1|]. split; [lia|]. split; [exact P3|]. split.
  { intros j Hj. destruct (Nat.eq_dec j k) as [->|Hne]; [lia|]. apply P4. lia. }
  split; [rewrite cz_snoc; replace (kd + (k - kd))%nat with k by lia; rewrite Ha; cbn [Z.eqb]; lia|].
  split; [|exact P7]. rewrite hb_snoc. replace (kd + (k - kd))%nat with k by lia. rewrite Ha. cbn. now rewrite app_nil_r.
Qed.

Lemma pre_snoc_H kd k blk fuel r br : (k <= Se)%nat -> pre kd k blk fuel r br -> 2 <= av b k ->
  pre kd (S k) blk fuel r (br ++ [Z.odd (av b k)]).
Proof.
  intros HkS (P1 & P2 & P3 & P4 & P5 & P6 & P7) Ha. unfold pre.
  replace (S k - kd)%nat with (S (k - kd)) by lia.
  split; [exact P1|]. split; [lia|]. split; [exact P3|]. split.
  { intros j Hj. destruct (Nat.eq_dec j k) as [->|Hne]; [lia|]. apply P4. lia. }
  split.
  { rewrite cz_snoc. replace (kd + (k - kd))%nat with k by lia.
    replace (av b k =? 0) with false by (symmetry; apply Z.eqb_neq; lia). lia. }
  split; [|exact P7]. rewrite hb_snoc. replace (kd + (k - kd))%nat with k by lia.
  replace (av b k >? 1) with true by (symmetry; apply Z.gtb_lt; lia). now rewrite P6.
Qed.

Lemma emit_eobrun_0 : emit_eobrun ac 0 [] = Some [].
Proof. reflexivity. Qed.

Lemma loop_main : forall m k kd r br e be blk fuel out r' br' e' be',
  (k + m = S Se)%nat -> pre kd k blk fuel r br -> ((k <= Ss + EOB)%nat -> Ainv b kd k) ->
  enc_acr_loop ac (lst b k m) (k - Ss) EOB r br e be = Some (out, r', br', e', be') ->
  exists fl out1 kd' blk' fuel',
    out = fl ++ out1 /\
    ((fl = [] /\ out1 = [] /\ e' = e /\ be' = be /\ kd' = kd /\ blk' = blk /\ fuel' = fuel) \/
     (emit_eobrun ac e be = Some fl /\ e' = 0 /\ be' = [])) /\
    (kd <= kd')%nat /\ pre kd' (S Se) blk' fuel' r' br' /\
    forall rest, dec_acr_loop ac Se Al fuel kd blk (out1 ++ rest) = dec_acr_loop ac Se Al fuel' kd' blk' rest.
Proof.
  induction m as [|m IH]; intros k kd r br e be blk fuel out r' br' e' be' Hkm Hpre HA He.
  - cbn in He. injection He as <- <- <- <- <-. replace k with (S Se) in Hpre by lia.
    exists [], [], kd, blk, fuel. split; [reflexivity|]. split; [left; repeat split; reflexivity|].
    split; [lia|]. split; [exact Hpre|]. intros rest. reflexivity.
  - assert (HkS : (k <= Se)%nat) by lia.
    pose proof Hpre as (P1 & P2 & P3 & P4 & P5 & P6 & P7).
    assert (Hin : inb k) by (split; lia).
    cbn [lst seq map enc_acr_loop] in He. change (map (fun j => (av b j, ng b j)) (seq (S k) m)) with (lst b (S k) m) in He.
    replace (S (k - Ss)) with (S k - Ss)%nat in He by lia.
    pose proof (av_nonneg b k) as Hav0.
    destruct (av b k =? 0) eqn:Ea.
    + apply Z.eqb_eq in Ea.
      apply (IH (S k) kd (r + 1) br e be blk fuel); [lia|now apply pre_snoc_zero| |exact He].
      intros HkE j Hj H2. destruct (Nat.eq_dec j k) as [->|Hne]; [lia|]. apply (HA ltac:(lia)); [lia|exact H2].
    + apply Z.eqb_neq in Ea.
      fold (zrl_out k r br e be) in He.
      destruct (zrl_out k r br e be) as [[[[[o1 r1] br1] e1] be1]|] eqn:Ez; [|discriminate].
      destruct (zrl_part k kd blk fuel r br e be o1 r1 br1 e1 be1 HkS Hpre HA Ez)
        as (flA & oA & kdA & blkA & fuelA & Ho1 & HdA & HkdA & HpreA & HAA & HdecA).
      destruct (av b k >? 1) eqn:Eg.
      * (* already nonzero: correction bit buffered *)
        apply Z.gtb_lt in Eg.
        destruct (enc_acr_loop ac (lst b (S k) m) (S k - Ss) EOB r1 (br1 ++ [Z.odd (av b k)]) e1 be1)
          as [[[[[o2 r2] br2] e2] be2]|] eqn:E2; [|discriminate].
        injection He as <- <- <- <- <-.
        destruct (IH (S k) kdA r1 (br1 ++ [Z.odd (av b k)]) e1 be1 blkA fuelA o2 r2 br2 e2 be2)
          as (fl2 & out2 & kd' & blk' & fuel' & Ho2 & Hd2 & Hkd2 & Hpre2 & Hdec2);
          [lia|apply pre_snoc_H; [exact HkS|exact HpreA|lia]| |exact E2|].
        { intros HkE j Hj H2. destruct (HAA ltac:(lia)) as [HAk Hr15].
          destruct (Nat.eq_dec j k) as [->|Hne]; [|apply HAk; [lia|exact H2]].
          destruct HpreA as (_ & _ & _ & _ & Q5 & _). rewrite <- Q5. exact Hr15. }
        destruct HdA as [(-> & -> & -> & -> & -> & -> & ->)|(HflA & -> & ->)].
        -- exists fl2, out2, kd', blk', fuel'. subst o1. cbn [app]. split; [exact Ho2|]. split; [exact Hd2|].
           split; [lia|]. split; [exact Hpre2|exact Hdec2].
        -- assert (Hfl2 : fl2 = [] /\ e2 = 0 /\ be2 = []).
           { destruct Hd2 as [(-> & _ & -> & -> & _)|(Hf2 & -> & ->)]; [auto|]. rewrite emit_eobrun_0 in Hf2. injection Hf2 as <-. auto. }
           destruct Hfl2 as (-> & -> & ->). cbn [app] in Ho2. subst o2 o1.
           exists flA, (oA ++ out2), kd', blk', fuel'. split; [now rewrite app_assoc|]. split; [right; auto|].
           split; [lia|]. split; [exact Hpre2|]. intros rest. rewrite <- app_assoc. rewrite HdecA. apply Hdec2.
      * (* newly nonzero *)
        rewrite Z.gtb_ltb in Eg. apply Z.ltb_ge in Eg. assert (Ha1 : av b k = 1) by lia.
        destruct (emit_eobrun ac e1 be1) as [fl3|] eqn:Ef3; [|discriminate].
        destruct (c_enc ac (r1 * 16 + 1)) as [c|] eqn:Ec; [|discriminate].
        destruct (enc_acr_loop ac (lst b (S k) m) (S k - Ss) EOB 0 [] 0 []) as [[[[[o2 r2] br2] e2] be2]|] eqn:E2; [|discriminate].
        injection He as <- <- <- <- <-.
        pose proof HpreA as (Q1 & Q2 & Q3 & Q4 & Q5 & Q6 & Q7).
        destruct fuelA as [|fA]; [lia|].
        destruct (skip_to (k - kdA) kdA r1 blkA 65 Q3 Q1 ltac:(lia) Q4 ltac:(now symmetry)) as [blkS [HfS HsS]];
          [replace (kdA + (k - kdA))%nat with k by lia; lia|lia|].
        replace (kdA + (k - kdA))%nat with k in HfS, HsS by lia.
        destruct (kind_facts b h k Hhist Hin) as [_ [_ [K3 _]]].
        set (blkN := upd (order k) (tv b k) blkS).
        assert (HfN : front b h (S k) blkN) by (apply front_upd; assumption).
        destruct (IH (S k) (S k) 0 [] 0 [] blkN fA o2 r2 br2 e2 be2)
          as (fl4 & out4 & kd' & blk' & fuel' & Ho4 & Hd4 & Hkd4 & Hpre4 & Hdec4); [lia| | |exact E2|].
        { unfold pre. replace (S k - S k)%nat with 0%nat by lia. split; [lia|]. split; [lia|]. split; [exact HfN|]. split; [intros j Hj; lia|].
          split; [reflexivity|]. split; [reflexivity|lia]. }
        { intros _ j Hj. lia. }
        assert (Hfl4 : fl4 = [] /\ e2 = 0 /\ be2 = []).
        { destruct Hd4 as [(-> & _ & -> & -> & _)|(Hf4 & -> & ->)]; [auto|]. rewrite emit_eobrun_0 in Hf4. injection Hf4 as <-. auto. }
        destruct Hfl4 as (-> & -> & ->). cbn [app] in Ho4. subst o2.
        (* the decoder on the (run,1) symbol *)
        assert (HdecN : forall rest, dec_acr_loop ac Se Al (S fA) kdA blkA (c ++ [negb (ng b k)] ++ br1 ++ out4 ++ rest)
                                   = dec_acr_loop ac Se Al fuel' kd' blk' rest).
        { intros rest. cbn [dec_acr_loop].
          replace (Se <? kdA)%nat with false by (symmetry; apply Nat.ltb_ge; lia).
          rewrite (c_ok ac _ c _ Ec).
          pose proof (cz_nonneg b (k - kdA) kdA) as Hc0.
          replace ((r1 * 16 + 1) / 16) with r1 by (apply Z.div_unique with (r := 1); lia).
          replace ((r1 * 16 + 1) mod 16) with 1 by (apply Z.mod_unique with (q := r1); lia).
          change (1 =? 0) with false. cbv iota. cbn [app]. rewrite Q6. rewrite HsS.
          replace (if negb (ng b k) then p1 Al else - p1 Al) with (tv b k)
            by (rewrite (K3 Ha1); destruct (ng b k); reflexivity).
          fold blkN. apply Hdec4. }
        (* merge the pending flush *)
        assert (Hmerge : exists fl, o1 ++ fl3 = fl ++ oA /\
                   ((fl = [] /\ False) \/ emit_eobrun ac e be = Some fl)).
        { destruct HdA as [(-> & -> & -> & -> & _)|(HflA & -> & ->)].
          - subst o1. exists fl3. split; [cbn [app]; now rewrite app_nil_r|right; exact Ef3].
          - rewrite emit_eobrun_0 in Ef3. injection Ef3 as <-. exists flA. subst o1. split; [now rewrite app_nil_r|right; exact HflA]. }
        destruct Hmerge as [fl [Hm [[_ []]|Hfl]]].
        exists fl, (oA ++ c ++ [negb (ng b k)] ++ br1 ++ out4), kd', blk', fuel'.
        split.
        { rewrite (app_assoc o1 fl3). rewrite Hm. now rewrite <- !app_assoc. }
        split; [right; auto|]. split; [lia|]. split; [exact Hpre4|].
        intros rest. rewrite <- !app_assoc. rewrite HdecA. cbn [app]. apply (HdecN rest).
Qed.
End Block.

(* ------------------------------------------------------------ EOB index *)
Lemma acr_eob_ge : forall (l : list (Z * bool)) idx E, (E <= idx)%nat -> (E <= acr_eob l idx E)%nat.
Proof.
  induction l as [|[a n] t IH]; intros idx E H; cbn [acr_eob]; [lia|].
  destruct (a =? 1).
  - specialize (IH (S idx) idx ltac:(lia)). lia.
  - specialize (IH (S idx) E ltac:(lia)). lia.
Qed.

Lemma acr_eob_spec b : forall m k E j, (Ss <= k)%nat -> (E <= k - Ss)%nat -> (k <= j < k + m)%nat -> av b j = 1 ->
  (j <= Ss + acr_eob (lst b k m) (k - Ss) E)%nat.
Proof.
  induction m as [|m IH]; intros k E j Hk HE Hj Ha; [lia|].
  cbn [lst seq map acr_eob]. change (map (fun j => (av b j, ng b j)) (seq (S k) m)) with (lst b (S k) m).
  replace (S (k - Ss)) with (S k - Ss)%nat by lia.
  destruct (Nat.eq_dec j k) as [->|Hne].
  - rewrite Ha. change (1 =? 1) with true. cbv iota. pose proof (acr_eob_ge (lst b (S k) m) (S k - Ss) (k - Ss) ltac:(lia)). lia.
  - apply IH; try lia. destruct (av b k =? 1); lia.
Qed.

(* --------------------------------------------------- block-level decoder *)
(* what dec_acr_block + dec_acr_blocks do once the symbol loop of the current block is
   entered at (fuel, k, blk) *)
Definition resume (fuel k : nat) (blk : list Z) (curs : list (list Z)) (bs : list bool)
  : option (list (list Z) * list bool) :=
  match dec_acr_loop ac Se Al fuel k blk bs with
  | None => None
  | Some (blk1, E1, k1, bs1) =>
      match (if E1 >? 0 then
               match acr_tail Al (S Se - k1) k1 blk1 bs1 with
               | None => None
               | Some (blk2, bs2) => Some (blk2, E1 - 1, bs2)
               end
             else Some (blk1, E1, bs1)) with
      | None => None
      | Some (blk', E', bs') =>
          match dec_acr_blocks ac Ss Se Al curs E' bs' with
          | None => None
          | Some (bl, bs'') => Some (blk' :: bl, bs'')
          end
      end
  end.

Lemma resume_eq blk curs bs : dec_acr_blocks ac Ss Se Al (blk :: curs) 0 bs = resume 65 Ss blk curs bs.
Proof.
  cbn [dec_acr_blocks]. unfold dec_acr_block, resume. change (0 =? 0) with true. cbv iota.
  destruct (dec_acr_loop ac Se Al 65 Ss blk bs) as [[[[blk1 E1] k1] bs1]|]; [|reflexivity].
  destruct (E1 >? 0); [|reflexivity].
  destruct (acr_tail Al (S Se - k1) k1 blk1 bs1) as [[blk2 bs2]|]; reflexivity.
Qed.

Lemma resume_step fuel k blk fuel' k' blk' curs out rest :
  (forall r, dec_acr_loop ac Se Al fuel k blk (out ++ r) = dec_acr_loop ac Se Al fuel' k' blk' r) ->
  resume fuel k blk curs (out ++ rest) = resume fuel' k' blk' curs rest.
Proof. intros H. unfold resume. now rewrite H. Qed.

Definition expd (bh : list Z * list Z) : list Z := acr_expected Ss Se Al (fst bh) (snd bh).
Definition pend_ok (bh : list Z * list Z) : Prop :=
  acr_hist Ss Se Al (fst bh) (snd bh) /\ noN (fst bh) Ss (S Se - Ss).
Definition tailbits (bh : list Z * list Z) : list bool := hb (fst bh) Ss (S Se - Ss).

(* blocks inside an EOB run: only correction bits *)
Lemma tail_blocks : forall pend curs bs, Forall pend_ok pend ->
  dec_acr_blocks ac Ss Se Al (map snd pend ++ curs) (Z.of_nat (length pend)) (concat (map tailbits pend) ++ bs) =
  match dec_acr_blocks ac Ss Se Al curs 0 bs with
  | Some (bl, bs') => Some (map expd pend ++ bl, bs')
  | None => None
  end.
Proof.
  induction pend as [|[b h] pend IH]; intros curs bs HF.
  - cbn [map app length concat Z.of_nat]. destruct (dec_acr_blocks ac Ss Se Al curs 0 bs) as [[? ?]|]; reflexivity.
  - inversion HF as [|? ? [Hh HnN] HF']; subst. cbn [fst snd] in Hh, HnN.
    cbn [map app length concat snd]. cbn [dec_acr_blocks]. unfold dec_acr_block.
    replace (Z.of_nat (S (length pend)) =? 0) with false by (symmetry; apply Z.eqb_neq; lia).
    replace (Z.of_nat (S (length pend)) >? 0) with true by (symmetry; apply Z.gtb_lt; lia).
    destruct Hh as (Hb & Hhl & Hhh).
    destruct (tail_to b h (conj Hb (conj Hhl Hhh)) (S Se - Ss) Ss h (front_init b h Hhl) (le_n _) ltac:(lia) HnN)
      as [blk' [Hf' Ht]].
    rewrite <- app_assoc. unfold tailbits at 1. cbn [fst]. rewrite Ht.
    replace (Z.of_nat (S (length pend)) - 1) with (Z.of_nat (length pend)) by lia.
    rewrite (IH curs bs HF'). rewrite (front_final b h blk' Hf').
    destruct (dec_acr_blocks ac Ss Se Al curs 0 bs) as [[? ?]|]; reflexivity.
Qed.

(* the EOBRUN symbol with its correction bits ends the block being decoded and the pending ones *)
Lemma eob_flush b h k0 blk0 fuel0 pend curs e be fl bs :
  acr_hist Ss Se Al b h -> front b h k0 blk0 -> (Ss <= k0)%nat -> (k0 <= Se)%nat -> noN b k0 (S Se - k0) ->
  (1 <= fuel0)%nat -> Forall pend_ok pend -> e = 1 + Z.of_nat (length pend) ->
  be = hb b k0 (S Se - k0) ++ concat (map tailbits pend) ->
  emit_eobrun ac e be = Some fl ->
  resume fuel0 k0 blk0 (map snd pend ++ curs) (fl ++ bs) =
  match dec_acr_blocks ac Ss Se Al curs 0 bs with
  | Some (bl, bs') => Some (acr_expected Ss Se Al b h :: map expd pend ++ bl, bs')
  | None => None
  end.
Proof.
  intros Hh Hf Hk0 Hk0S HnN Hfu HF He Hbe Hfl. unfold emit_eobrun in Hfl.
  destruct (e >? 0) eqn:E0; [|rewrite Z.gtb_ltb in E0; apply Z.ltb_ge in E0; lia].
  pose proof (nbits_bounds e ltac:(lia)) as [Hn1 [Hlo Hhi]].
  destruct (nbits e - 1 >? 14) eqn:E14; [discriminate|].
  rewrite Z.gtb_ltb in E14. apply Z.ltb_ge in E14. set (nb := nbits e - 1) in *.
  destruct (c_enc ac (nb * 16)) as [c|] eqn:Ec; [|discriminate]. injection Hfl as <-.
  assert (Hloop : dec_acr_loop ac Se Al fuel0 k0 blk0 ((c ++ bits_of (Z.to_nat nb) e ++ be) ++ bs) = Some (blk0, e, k0, be ++ bs)).
  { destruct fuel0 as [|f]; [lia|]. cbn [dec_acr_loop].
    replace (Se <? k0)%nat with false by (symmetry; apply Nat.ltb_ge; lia).
    rewrite <- !app_assoc. rewrite (c_ok ac _ c _ Ec).
    rewrite Z.div_mul by lia. rewrite Z.mod_mul by lia. change (0 =? 0) with true. cbv iota.
    replace (nb =? 15) with false by (symmetry; apply Z.eqb_neq; lia).
    replace (nbits e) with (nb + 1) in * by (unfold nb; lia). replace (nb + 1 - 1) with nb in * by lia.
    destruct (nb =? 0) eqn:En.
    - apply Z.eqb_eq in En. rewrite En in *. cbn in Hlo, Hhi. cbn [Z.to_nat bits_of app]. f_equal. f_equal. f_equal. f_equal. lia.
    - apply Z.eqb_neq in En. rewrite get_bits_bits_of by lia. f_equal. f_equal. f_equal. f_equal.
      assert (Hp2 : 2 ^ (nb + 1) = 2 * 2 ^ nb) by (rewrite Z.pow_add_r by lia; lia).
      replace (e mod 2 ^ nb) with (e - 2 ^ nb); [lia|]. apply Z.mod_unique with (q := 1); lia. }
  unfold resume. rewrite Hloop. rewrite E0.
  destruct (tail_to b h Hh (S Se - k0) k0 blk0 Hf Hk0 ltac:(lia) HnN) as [blk' [Hf' Ht]].
  rewrite Hbe. rewrite <- app_assoc. rewrite Ht.
  replace (e - 1) with (Z.of_nat (length pend)) by lia.
  rewrite (tail_blocks pend curs bs HF). rewrite (front_final b h blk' Hf').
  destruct (dec_acr_blocks ac Ss Se Al curs 0 bs) as [[? ?]|]; reflexivity.
Qed.

Lemma empty_interval b : forall n k, noN b k n -> cz b k n = 0 -> hb b k n = [] -> n = 0%nat.
Proof.
  intros [|n] k HnN Hc Hb; [reflexivity|]. exfalso. cbn [cz hb] in *.
  pose proof (av_nonneg b k). pose proof (cz_nonneg b n (S k)). assert (av b k <> 1) by (apply HnN; lia).
  destruct (av b k =? 0) eqn:E0; [lia|]. apply Z.eqb_neq in E0.
  replace (av b k >? 1) with true in Hb by (symmetry; apply Z.gtb_lt; lia). discriminate.
Qed.

(* ------------------------------------------------ one block of the encoder *)
Lemma block_an b h e be o e' be' : acr_hist Ss Se Al b h ->
  enc_acr_block ac Ss Se Al b e be = Some (o, e', be') ->
  exists fl out1 kd' blk' fuel' o_fl,
    o = fl ++ out1 ++ o_fl /\
    front b h kd' blk' /\ (Ss <= kd')%nat /\ (kd' <= S Se)%nat /\ noN b kd' (S Se - kd') /\ (1 <= fuel')%nat /\
    (forall rest, dec_acr_loop ac Se Al 65 Ss h (out1 ++ rest) = dec_acr_loop ac Se Al fuel' kd' blk' rest) /\
    ((fl = [] /\ out1 = [] /\ kd' = Ss /\ blk' = h /\ fuel' = 65%nat /\
      ((exists fl2, emit_eobrun ac (e + 1) (be ++ hb b Ss (S Se - Ss)) = Some fl2 /\ o_fl = fl2 /\ e' = 0 /\ be' = []) \/
       (o_fl = [] /\ e' = e + 1 /\ be' = be ++ hb b Ss (S Se - Ss))))
     \/
     (emit_eobrun ac e be = Some fl /\
      ((kd' = S Se /\ o_fl = [] /\ e' = 0 /\ be' = []) \/
       ((kd' <= Se)%nat /\
        ((exists fl2, emit_eobrun ac 1 (hb b kd' (S Se - kd')) = Some fl2 /\ o_fl = fl2 /\ e' = 0 /\ be' = []) \/
         (o_fl = [] /\ e' = 1 /\ be' = hb b kd' (S Se - kd'))))))).
Proof.
  intros Hh He. unfold enc_acr_block in He. cbv zeta in He. rewrite acr_abs_lst in He.
  set (m := (S Se - Ss)%nat) in *. set (EOB := acr_eob (lst b Ss m) 0 0) in *.
  destruct (enc_acr_loop ac (lst b Ss m) 0 EOB 0 [] e be) as [[[[[o0 r] br] e1] be1]|] eqn:El; [|discriminate].
  assert (HEOB : forall j, inb j -> av b j = 1 -> (j <= Ss + EOB)%nat).
  { intros j [Hj1 Hj2] Ha. pose proof (acr_eob_spec b m Ss 0 j (le_n _) ltac:(lia) ltac:(unfold m; lia) Ha) as H.
    rewrite Nat.sub_diag in H. exact H. }
  assert (El' : enc_acr_loop ac (lst b Ss m) (Ss - Ss) EOB 0 [] e be = Some (o0, r, br, e1, be1)) by (rewrite Nat.sub_diag; exact El).
  destruct Hh as (Hb & Hhl & Hhh). pose proof (conj Hb (conj Hhl Hhh)) as Hh.
  destruct (loop_main b h Hh EOB m Ss Ss 0 [] e be h 65 o0 r br e1 be1) as
    (fl & out1 & kd' & blk' & fuel' & Ho & Hd & Hkd & Hpre & Hdec); [unfold m; lia| | |exact El'|].
  { unfold pre. rewrite Nat.sub_diag. split; [lia|]. split; [lia|]. split; [apply front_init; exact Hhl|].
    split; [intros j Hj; lia|]. split; [reflexivity|]. split; [reflexivity|lia]. }
  { intros _ j Hj. lia. }
  destruct Hpre as (Q1 & Q2 & Q3 & Q4 & Q5 & Q6 & Q7).
  assert (Hfu : (1 <= fuel')%nat) by lia.
  set (cond := (r >? 0) || negb (match br with [] => true | _ :: _ => false end)) in *.
  assert (Hcond : cond = false -> kd' = S Se).
  { intros Hc. unfold cond in Hc. apply orb_false_iff in Hc. destruct Hc as [Hc1 Hc2].
    rewrite Z.gtb_ltb in Hc1. apply Z.ltb_ge in Hc1. pose proof (cz_nonneg b (S Se - kd') kd').
    assert (br = []) by (destruct br; [reflexivity|discriminate]).
    pose proof (empty_interval b (S Se - kd') kd' Q4 ltac:(lia) ltac:(congruence)). lia. }
  assert (Hcond' : cond = true -> (kd' <= Se)%nat).
  { intros Hc. destruct (Nat.eq_dec kd' (S Se)) as [->|Hne]; [|lia]. rewrite Nat.sub_diag in Q5, Q6. cbn in Q5, Q6. subst r br.
    unfold cond in Hc. cbn in Hc. discriminate. }
  destruct Hd as [(-> & -> & -> & -> & -> & -> & ->)|(Hfl & -> & ->)].
  - (* no symbol in this block *)
    assert (Hc : cond = true).
    { destruct cond eqn:Ec; [reflexivity|]. specialize (Hcond eq_refl). lia. }
    rewrite Hc in He. fold m in Q5, Q6. subst br.
    exists [], [], Ss, h, 65%nat.
    destruct ((e + 1 =? EOBRUN_FLUSH) || (Z.of_nat (length (be ++ hb b Ss m)) >? MAX_CORR_BITS - DCTSIZE2 + 1)).
    + destruct (emit_eobrun ac (e + 1) (be ++ hb b Ss m)) as [fl2|] eqn:E2; [|discriminate]. injection He as <- <- <-.
      exists fl2. subst o0. split; [reflexivity|]. repeat (split; [assumption||lia|]).
      left. repeat (split; [reflexivity|]). left. exists fl2. auto.
    + injection He as <- <- <-. exists []. subst o0. split; [reflexivity|]. repeat (split; [assumption||lia|]).
      left. repeat (split; [reflexivity|]). right. auto.
  - exists fl, out1, kd', blk', fuel'. destruct cond eqn:Ec.
    + specialize (Hcond' eq_refl). subst br. cbn [app] in He.
      replace (0 + 1) with 1 in He by lia.
      destruct ((1 =? EOBRUN_FLUSH) || (Z.of_nat (length (hb b kd' (S Se - kd'))) >? MAX_CORR_BITS - DCTSIZE2 + 1)).
      * destruct (emit_eobrun ac 1 (hb b kd' (S Se - kd'))) as [fl2|] eqn:E2; [|discriminate]. injection He as <- <- <-.
        exists fl2. subst o0. split; [now rewrite <- app_assoc|]. repeat (split; [assumption||lia|]).
        right. split; [exact Hfl|]. right. split; [exact Hcond'|]. left. exists fl2. auto.
      * injection He as <- <- <-. exists []. subst o0. split; [now rewrite app_nil_r|]. repeat (split; [assumption||lia|]).
        right. split; [exact Hfl|]. right. split; [exact Hcond'|]. right. auto.
    + specialize (Hcond eq_refl). injection He as <- <- <-. exists []. subst o0. split; [now rewrite app_nil_r|].
      repeat (split; [assumption||lia|]). right. split; [exact Hfl|]. left. auto.
Qed.

(* ----------------------------------------------------- all blocks of a run *)
Definition exps (bl cur : list (list Z)) : list (list Z) := map expd (combine bl cur).
Definition hists (bl cur : list (list Z)) : Prop :=
  length cur = length bl /\ Forall (fun bc => acr_hist Ss Se Al (fst bc) (snd bc)) (combine bl cur).

Definition G0 (bl : list (list Z)) : Prop :=
  forall cur bits rest, hists bl cur -> enc_acr_blocks ac Ss Se Al bl 0 [] = Some bits ->
    dec_acr_blocks ac Ss Se Al cur 0 (bits ++ rest) = Some (exps bl cur, rest).

Definition Ge (bl : list (list Z)) : Prop :=
  forall e be b0 h0 blk0 k0 fuel0 pend cur bits rest,
    acr_hist Ss Se Al b0 h0 -> front b0 h0 k0 blk0 -> (Ss <= k0)%nat -> (k0 <= Se)%nat ->
    noN b0 k0 (S Se - k0) -> (1 <= fuel0)%nat -> Forall pend_ok pend ->
    e = 1 + Z.of_nat (length pend) -> be = hb b0 k0 (S Se - k0) ++ concat (map tailbits pend) ->
    hists bl cur -> enc_acr_blocks ac Ss Se Al bl e be = Some bits ->
    resume fuel0 k0 blk0 (map snd pend ++ cur) (bits ++ rest) =
      Some (acr_expected Ss Se Al b0 h0 :: map expd pend ++ exps bl cur, rest).

Lemma resume_done fuel blk curs bs : (1 <= fuel)%nat ->
  resume fuel (S Se) blk curs bs =
  match dec_acr_blocks ac Ss Se Al curs 0 bs with Some (bl, bs') => Some (blk :: bl, bs') | None => None end.
Proof.
  intros Hf. unfold resume. destruct fuel as [|f]; [lia|]. cbn [dec_acr_loop].
  replace (Se <? S Se)%nat with true by (symmetry; apply Nat.ltb_lt; lia). change (0 >? 0) with false. reflexivity.
Qed.

Lemma acr_blocks_main : forall bl, G0 bl /\ Ge bl.
Proof.
  induction bl as [|b t [IH0 IHe]].
  - split.
    + intros cur bits rest [Hl _] He. destruct cur; [|discriminate]. cbn in He. injection He as <-. reflexivity.
    + intros e be b0 h0 blk0 k0 fuel0 pend cur bits rest Hh Hf Hk Hks HnN Hfu HF He Hbe [Hl _] Henc.
      destruct cur; [|discriminate]. cbn [enc_acr_blocks] in Henc.
      rewrite (eob_flush b0 h0 k0 blk0 fuel0 pend [] e be bits rest Hh Hf Hk Hks HnN Hfu HF He Hbe Henc).
      cbn [dec_acr_blocks]. unfold exps. cbn [combine map]. reflexivity.
  - (* a pending state followed by the flush decision, then the remaining blocks *)
    assert (HAP : forall e2 be2 b0 h0 blk0 k0 fuel0 pend ct o_fl e' be' rest1 rest,
       acr_hist Ss Se Al b0 h0 -> front b0 h0 k0 blk0 -> (Ss <= k0)%nat -> (k0 <= Se)%nat ->
       noN b0 k0 (S Se - k0) -> (1 <= fuel0)%nat -> Forall pend_ok pend ->
       e2 = 1 + Z.of_nat (length pend) -> be2 = hb b0 k0 (S Se - k0) ++ concat (map tailbits pend) ->
       hists t ct ->
       ((exists fl2, emit_eobrun ac e2 be2 = Some fl2 /\ o_fl = fl2 /\ e' = 0 /\ be' = []) \/
        (o_fl = [] /\ e' = e2 /\ be' = be2)) ->
       enc_acr_blocks ac Ss Se Al t e' be' = Some rest1 ->
       resume fuel0 k0 blk0 (map snd pend ++ ct) (o_fl ++ rest1 ++ rest) =
         Some (acr_expected Ss Se Al b0 h0 :: map expd pend ++ exps t ct, rest)).
    { intros e2 be2 b0 h0 blk0 k0 fuel0 pend ct o_fl e' be' rest1 rest Hh Hf Hk Hks HnN Hfu HF He Hbe Hht Hcase Henc.
      destruct Hcase as [(fl2 & Hfl & -> & -> & ->)|(-> & -> & ->)].
      - rewrite (eob_flush b0 h0 k0 blk0 fuel0 pend ct e2 be2 fl2 (rest1 ++ rest) Hh Hf Hk Hks HnN Hfu HF He Hbe Hfl).
        rewrite (IH0 ct rest1 rest Hht Henc). reflexivity.
      - cbn [app]. apply (IHe e2 be2 b0 h0 blk0 k0 fuel0 pend ct rest1 rest); assumption. }
    (* the current block when it emits at least one symbol *)
    assert (HTok : forall h ct kd' blk' fuel' out1 o_fl e' be' rest1 rest,
       acr_hist Ss Se Al b h -> hists t ct ->
       front b h kd' blk' -> (Ss <= kd')%nat -> (kd' <= S Se)%nat -> noN b kd' (S Se - kd') -> (1 <= fuel')%nat ->
       (forall r, dec_acr_loop ac Se Al 65 Ss h (out1 ++ r) = dec_acr_loop ac Se Al fuel' kd' blk' r) ->
       ((kd' = S Se /\ o_fl = [] /\ e' = 0 /\ be' = []) \/
        ((kd' <= Se)%nat /\
         ((exists fl2, emit_eobrun ac 1 (hb b kd' (S Se - kd')) = Some fl2 /\ o_fl = fl2 /\ e' = 0 /\ be' = []) \/
          (o_fl = [] /\ e' = 1 /\ be' = hb b kd' (S Se - kd'))))) ->
       enc_acr_blocks ac Ss Se Al t e' be' = Some rest1 ->
       resume 65 Ss h ct (out1 ++ o_fl ++ rest1 ++ rest) = Some (acr_expected Ss Se Al b h :: exps t ct, rest)).
    { intros h ct kd' blk' fuel' out1 o_fl e' be' rest1 rest Hh Hht Hf Hk1 Hk2 HnN Hfu Hdec Hcase Henc.
      rewrite (resume_step 65 Ss h fuel' kd' blk' ct out1 _ Hdec).
      destruct Hcase as [(-> & -> & -> & ->)|(Hks & Hcase)].
      - cbn [app]. rewrite (resume_done fuel' blk' ct _ Hfu). rewrite (IH0 ct rest1 rest Hht Henc).
        rewrite (front_final b h blk' Hf). reflexivity.
      - pose proof (HAP 1 (hb b kd' (S Se - kd')) b h blk' kd' fuel' [] ct o_fl e' be' rest1 rest Hh Hf Hk1 Hks HnN Hfu
                      (Forall_nil _) eq_refl ltac:(cbn; now rewrite app_nil_r) Hht Hcase Henc) as HX.
        cbn [map app] in HX. exact HX. }
    split.
    + intros cur bits rest [Hl HF] Henc. destruct cur as [|h ct]; [discriminate|].
      cbn [combine] in HF. inversion HF as [|? ? Hh HFt]; subst. cbn [fst snd] in Hh.
      assert (Hht : hists t ct) by (split; [cbn in Hl; lia|exact HFt]).
      cbn [enc_acr_blocks] in Henc.
      destruct (enc_acr_block ac Ss Se Al b 0 []) as [[[o e'] be']|] eqn:Eb; [|discriminate].
      destruct (enc_acr_blocks ac Ss Se Al t e' be') as [rest1|] eqn:Et; [|discriminate]. injection Henc as <-.
      destruct (block_an b h 0 [] o e' be' Hh Eb) as
        (fl & out1 & kd' & blk' & fuel' & o_fl & Ho & Hf & Hk1 & Hk2 & HnN & Hfu & Hdec & Hcase).
      rewrite resume_eq. unfold exps. cbn [combine map]. unfold expd at 1. cbn [fst snd]. fold (exps t ct).
      destruct Hcase as [(-> & -> & -> & -> & -> & Hc)|(Hfl & Hc)].
      * subst o. cbn [app]. rewrite <- app_assoc.
        pose proof (HAP (0 + 1) ([] ++ hb b Ss (S Se - Ss)) b h h Ss 65%nat [] ct o_fl e' be' rest1 rest Hh Hf (le_n _)
                      ltac:(lia) HnN ltac:(lia) (Forall_nil _) eq_refl ltac:(cbn; now rewrite app_nil_r) Hht Hc Et) as HX.
        cbn [map app] in HX. exact HX.
      * rewrite emit_eobrun_0 in Hfl. injection Hfl as <-. subst o. cbn [app]. rewrite <- !app_assoc.
        apply (HTok h ct kd' blk' fuel' out1 o_fl e' be' rest1 rest); assumption.
    + intros e be b0 h0 blk0 k0 fuel0 pend cur bits rest Hh0 Hf0 Hk0 Hks0 HnN0 Hfu0 HFp He Hbe [Hl HF] Henc.
      destruct cur as [|h ct]; [discriminate|].
      cbn [combine] in HF. inversion HF as [|? ? Hh HFt]; subst e be. cbn [fst snd] in Hh.
      assert (Hht : hists t ct) by (split; [cbn in Hl; lia|assumption]).
      cbn [enc_acr_blocks] in Henc.
      destruct (enc_acr_block ac Ss Se Al b _ _) as [[[o e'] be']|] eqn:Eb; [|discriminate].
      destruct (enc_acr_blocks ac Ss Se Al t e' be') as [rest1|] eqn:Et; [|discriminate]. injection Henc as <-.
      destruct (block_an b h _ _ o e' be' Hh Eb) as
        (fl & out1 & kd' & blk' & fuel' & o_fl & Ho & Hf & Hk1 & Hk2 & HnN & Hfu & Hdec & Hcase).
      unfold exps. cbn [combine map]. unfold expd at 2. cbn [fst snd]. fold (exps t ct).
      destruct Hcase as [(-> & -> & -> & -> & -> & Hc)|(Hfl & Hc)].
      * (* the block joins the pending run *)
        subst o. cbn [app]. rewrite <- app_assoc.
        replace (map snd pend ++ h :: ct) with (map snd (pend ++ [(b, h)]) ++ ct)
          by (rewrite map_app, <- app_assoc; reflexivity).
        replace (map expd pend ++ acr_expected Ss Se Al b h :: exps t ct) with (map expd (pend ++ [(b, h)]) ++ exps t ct)
          by (rewrite map_app, <- app_assoc; reflexivity).
        apply (HAP (1 + Z.of_nat (length pend) + 1)
                   ((hb b0 k0 (S Se - k0) ++ concat (map tailbits pend)) ++ hb b Ss (S Se - Ss))
                   b0 h0 blk0 k0 fuel0 (pend ++ [(b, h)]) ct o_fl e' be' rest1 rest Hh0 Hf0 Hk0 Hks0 HnN0 Hfu0).
        -- apply Forall_app. split; [exact HFp|]. constructor; [split; assumption|constructor].
        -- rewrite app_length. cbn [length]. lia.
        -- rewrite map_app, concat_app. cbn [map concat]. unfold tailbits at 2. cbn [fst]. rewrite app_nil_r, app_assoc. reflexivity.
        -- exact Hht.
        -- exact Hc.
        -- exact Et.
      * subst o. rewrite <- !app_assoc.
        rewrite (eob_flush b0 h0 k0 blk0 fuel0 pend (h :: ct) _ _ fl (out1 ++ o_fl ++ rest1 ++ rest)
                   Hh0 Hf0 Hk0 Hks0 HnN0 Hfu0 HFp eq_refl eq_refl Hfl).
        rewrite resume_eq.
        rewrite (HTok h ct kd' blk' fuel' out1 o_fl e' be' rest1 rest Hh Hht Hf Hk1 Hk2 HnN Hfu Hdec Hc Et).
        reflexivity.
Qed.

Theorem acr_segment_roundtrip_thm : acr_segment_roundtrip ac Ss Se Al.
Proof.
  intros bl cur bits rest Hl HF He. apply (proj1 (acr_blocks_main bl)); [split; assumption|exact He].
Qed.
End ACR.

(* every restart interval, bytes with stuffing / padding / RSTn *)
Theorem acr_scan_roundtrip ac Ss Se Al Ri bl cur bytes :
  (1 <= Ss)%nat -> (Ss <= Se)%nat /\ (Se <= 63)%nat -> 0 <= Al ->
  length cur = length bl ->
  Forall (fun bc => acr_hist Ss Se Al (fst bc) (snd bc)) (combine bl cur) ->
  acr_enc_scan ac Ss Se Al Ri bl = Some bytes ->
  acr_dec_scan ac Ss Se Al Ri cur bytes =
    Some (map (fun bc => acr_expected Ss Se Al (fst bc) (snd bc)) (combine bl cur)).
Proof.
  intros H1 H2 H3. apply acr_scan_roundtrip_from_segment. now apply acr_segment_roundtrip_thm.
Qed.

(* acr_expected, pointwise: band positions hold the magnitude truncation at Al, the rest is untouched *)
Lemma acr_expected_spec Ss Se Al b blk : length (acr_expected Ss Se Al b blk) = 64%nat /\
  forall j, (j < 64)%nat -> nth (order j) (acr_expected Ss Se Al b blk) 0 =
    if in_band Ss Se j then ac_state Al (nth (order j) b 0) else nth (order j) blk 0.
Proof.
  unfold acr_expected. split; [now rewrite map_length, seq_length|]. intros j Hj.
  pose proof (order_lt j) as Ho.
  rewrite (map_nth_lt _ 0 0%nat) by (rewrite seq_length; exact Ho). rewrite seq_nth by exact Ho. cbn [Nat.add].
  now rewrite inv_order_order by exact Hj.
Qed.
