(* C03 arithmetic coding, closing the abstract QM hypothesis: the decision source of
   proofs/ArithProofs.v / ArithACProofs.v is instantiated with the QM coder model of C04
   (model/T81Arith.v qm_encode_all / qm_init_dec / qm_decode, round trip proved in
   proofs/T81ArithProofsBytes.v qm_roundtrip; imported read-only).  "at_point pre r" is the decoder
   state reached inside an arithmetic-coded interval after the decisions pre, when r is still to come. *)
From Coq Require Import List ZArith Lia Bool.
From LJT Require Import model.Huff model.Seq model.Prog model.ArithBin model.T81Arith
  proofs.T81QMProofs proofs.T81ArithProofsIdeal proofs.T81ArithProofsBytes
  proofs.ProgProofs proofs.ProgRefineProofs proofs.ArithProofs proofs.ArithACProofs.
Import ListNotations.
Local Open Scope Z_scope.

Definition carriesQ (q : qdec) (ds : list decision) : Prop := fst (qm_run (map fst ds) q) = map snd ds.

Lemma carriesQ_step : forall q st b ds, carriesQ q ((st, b) :: ds) ->
  exists q', qm_decode st q = Some (b, q') /\ carriesQ q' ds.
Proof.
  intros q st b ds H. unfold carriesQ in H. cbn [map fst snd qm_run] in H.
  destruct (qm_decode st q) as [[b' q']|]; [|discriminate].
  destruct (qm_run (map fst ds) q') as [l Df] eqn:E. cbn [fst] in H. injection H as -> ->.
  exists q'. split; [reflexivity|]. unfold carriesQ. now rewrite E.
Qed.

Lemma carriesQ_app : forall pre q rest, carriesQ q (pre ++ rest) ->
  carriesQ (snd (qm_run (map fst pre) q)) rest /\ fst (qm_run (map fst pre) q) = map snd pre.
Proof.
  induction pre as [|[st b] t IH]; intros q rest H; [split; [exact H|reflexivity]|].
  cbn [app] in H. destruct (carriesQ_step _ _ _ _ H) as [q' [Hd Hc]].
  cbn [map fst snd qm_run]. rewrite Hd. destruct (IH q' rest Hc) as [H1 H2].
  destruct (qm_run (map fst t) q') as [l Df]. cbn [fst snd] in *. split; [exact H1|now rewrite H2].
Qed.

Definition at_point (pre rest : list decision) : qdec :=
  snd (qm_run (map fst pre) (qm_init_dec (qm_encode_all (pre ++ rest)))).

Lemma carries_at_point pre rest : carriesQ (at_point pre rest) rest.
Proof. unfold at_point. apply carriesQ_app. unfold carriesQ. apply qm_roundtrip. Qed.

(* DC difference (closes C03_arith_decisions_roundtrip_partial) *)
Theorem arith_dc_roundtrip_qm pre more ctx L U v ds ctx' : Z.abs v <= 32768 ->
  enc_dc_arith ctx L U v = (ds, ctx') ->
  exists q', dec_dc_arith qdec qm_decode ctx L U (at_point pre (ds ++ more)) = Some (v, ctx', q') /\ carriesQ q' more.
Proof.
  intros Hv He. apply (arith_dc_roundtrip qdec qm_decode carriesQ carriesQ_step ctx L U v ds ctx' more _ Hv He).
  apply carries_at_point.
Qed.

(* AC coefficients of a first scan / of a sequential block *)
Theorem arith_ac_first_roundtrip_qm pre more Kx Ss Se Al b blk : (Ss <= Se)%nat -> (Se <= 63)%nat ->
  Forall (fun v => Z.abs v <= 32768) (acf_band Ss Se Al b) ->
  exists q', dec_acf_a qdec qm_decode Kx Se Al 130 Ss true blk (at_point pre (enc_acf_block_a Kx Ss Se Al b ++ more))
             = Some (acf_res Ss Se Al b blk, q') /\ carriesQ q' more.
Proof.
  intros H1 H2 HF. apply (acf_block_a_rt qdec qm_decode carriesQ carriesQ_step Kx Se Al Ss b blk more _ H1 H2 HF).
  apply carries_at_point.
Qed.

(* AC refinement *)
Theorem arith_ac_refine_roundtrip_qm pre more Ss Se Al b h :
  (1 <= Ss)%nat -> (Ss <= Se)%nat /\ (Se <= 63)%nat -> 0 <= Al -> acr_hist Ss Se Al b h ->
  exists q', dec_acr_a qdec qm_decode Se Al 65 Ss true h (at_point pre (enc_acr_block_a Ss Se Al (Al + 1) b ++ more))
             = Some (acr_expected Ss Se Al b h, q') /\ carriesQ q' more.
Proof.
  intros H1 H2 H3 Hh. apply (acr_block_a_rt qdec qm_decode carriesQ carriesQ_step Ss Se Al H1 H2 H3 b h Hh more _).
  apply carries_at_point.
Qed.

(* DC refinement: one bit in the fixed bin *)
Theorem arith_dc_refine_roundtrip_qm pre more Al b blk :
  exists q', dec_dcr_a qdec qm_decode Al blk (at_point pre (enc_dcr_a Al b ++ more)) = Some (dcr_block Al b blk, q') /\ carriesQ q' more.
Proof.
  pose proof (carries_at_point pre (enc_dcr_a Al b ++ more)) as Hc. unfold enc_dcr_a in *. cbn [app] in Hc.
  destruct (carriesQ_step _ _ _ _ Hc) as [q' [Hd Hc']]. unfold dec_dcr_a. cbn [app]. rewrite Hd.
  exists q'. split; [reflexivity|exact Hc'].
Qed.

Lemma at_point_spec : forall pre rest,
  at_point pre rest = snd (qm_run (map fst pre) (qm_init_dec (qm_encode_all (pre ++ rest)))) /\
  fst (qm_run (map fst (pre ++ rest)) (qm_init_dec (qm_encode_all (pre ++ rest)))) = map snd (pre ++ rest).
Proof. intros pre rest. split; [reflexivity|apply qm_roundtrip]. Qed.
