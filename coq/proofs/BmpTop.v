(* C18 -- BMP statements exported to props/C18.v, and non-vacuity examples *)
From Coq Require Import List ZArith Lia Bool ZifyBool.
From LJT Require Import gen.GenPnm model.Pnm model.Bmp proofs.PnmProofs proofs.PnmRoundtrip proofs.BmpProofs proofs.BmpRoundtrip proofs.PnmExamples.
Import ListNotations.
Local Open Scope Z_scope.

Lemma bmp_safe_top cmyk maxpixels want bottomup s : bytes s ->
  (forall l, want = Some (TRgb l) -> 3 <= l_ps l <= 4) ->
  (forall e, load_bmp cmyk maxpixels want bottomup s = BErr e -> e <> B_OOB) /\
  (forall w h t rows, load_bmp cmyk maxpixels want bottomup s = BOk (w, h, t, rows) ->
     1 <= w /\ 1 <= h /\ (maxpixels = 0 \/ w * h <= maxpixels) /\ length rows = Z.to_nat h /\
     (t <> TCmyk \/ cmyk8_bounded cmyk ->
      Forall (fun row => Forall (fun x => 0 <= x <= 255) row /\
                         length row = (Z.to_nat w * Z.to_nat (target_ps t))%nat) rows)).
Proof.
  intros B Hw. pose proof (load_bmp_spec cmyk maxpixels want bottomup s B Hw) as S. split.
  - intros e E. rewrite E in S. exact S.
  - intros w h t rows E. rewrite E in S. destruct S as (H1 & H2 & H3 & H4 & H5).
    repeat split; auto. intro Ht. apply H5. destruct t; cbn [bclaim]; auto.
    destruct Ht as [Ht|Ht]; [congruence|exact Ht].
Qed.

Lemma bmp_roundtrip_top cmyk uncmyk t bottomup w h rows :
  (t = TGray \/ exists l, t = TRgb l /\ 1 <= l_ps l <= 4) ->
  1 <= w <= 250000000 -> 1 <= h <= 2147483647 ->
  length rows = Z.to_nat h -> Forall (Forall (fun x => 0 <= x <= 255)) rows ->
  load_bmp cmyk 0 (Some t) bottomup (save_bmp uncmyk t bottomup w h rows)
  = BOk (w, h, t, map (canon_row 8 t (Z.to_nat w)) rows).
Proof. intros. apply bmp_save_load_roundtrip; auto. Qed.

(* 2x2 24-bit file, two pad bytes per row, stored bottom-up; loaded top-down into RGB *)
Definition f_bmp24 := [66; 77; 70; 0; 0; 0; 0; 0; 0; 0; 54; 0; 0; 0; 40; 0; 0; 0; 2; 0; 0; 0; 2; 0; 0; 0; 1; 0; 24; 0; 0; 0; 0; 0; 0; 0; 0; 0; 0; 0; 0; 0; 0; 0; 0; 0; 0; 0; 0; 0; 0; 0; 0; 0; 1; 2; 3; 4; 5; 6; 0; 0; 7; 8; 9; 10; 11; 12; 0; 0].
(* 3x1 8-bit files with a two-entry colour palette; the second one uses index 2 *)
Definition f_bmp8 := [66; 77; 0; 0; 0; 0; 0; 0; 0; 0; 62; 0; 0; 0; 40; 0; 0; 0; 3; 0; 0; 0; 1; 0; 0; 0; 1; 0; 8; 0; 0; 0; 0; 0; 0; 0; 0; 0; 0; 0; 0; 0; 0; 0; 0; 0; 2; 0; 0; 0; 0; 0; 0; 0; 10; 20; 30; 0; 40; 50; 60; 0; 0; 1; 1; 0].
Definition f_bmp8_bad := [66; 77; 0; 0; 0; 0; 0; 0; 0; 0; 62; 0; 0; 0; 40; 0; 0; 0; 3; 0; 0; 0; 1; 0; 0; 0; 1; 0; 8; 0; 0; 0; 0; 0; 0; 0; 0; 0; 0; 0; 0; 0; 0; 0; 0; 0; 2; 0; 0; 0; 0; 0; 0; 0; 10; 20; 30; 0; 40; 50; 60; 0; 0; 1; 2; 0].
Lemma ex_bmp :
  bytes f_bmp24 /\
  load_bmp cmyk_exact 0 (Some rgb) false f_bmp24 = BOk (2, 2, rgb, [[9; 8; 7; 12; 11; 10]; [3; 2; 1; 6; 5; 4]]) /\
  load_bmp cmyk_exact 0 (Some rgb) true f_bmp24 = BOk (2, 2, rgb, [[3; 2; 1; 6; 5; 4]; [9; 8; 7; 12; 11; 10]]) /\
  load_bmp cmyk_exact 3 None false f_bmp24 = BErr B_TOOBIG /\
  load_bmp cmyk_exact 0 None false f_bmp8 = BOk (3, 1, ext_rgb, [[30; 20; 10; 60; 50; 40; 60; 50; 40]]) /\
  load_bmp cmyk_exact 0 None false f_bmp8_bad = BErr B_RANGE /\
  load_bmp cmyk_exact 0 (Some TGray) false f_bmp8 = BErr B_BADCS /\
  load_bmp cmyk_exact 0 None false (firstn 60 f_bmp24) = BErr B_EOF.
Proof. split; [repeat constructor; lia|]. vm_compute. repeat split; reflexivity. Qed.

Definition img8 := [[1; 2; 3; 250; 251; 252; 7; 8; 9]; [10; 20; 30; 40; 50; 60; 70; 80; 90]].
Lemma ex_bmp_roundtrip :
  load_bmp cmyk_exact 0 (Some rgb) false (save_bmp no_uncmyk rgb false 3 2 img8) = BOk (3, 2, rgb, img8) /\
  load_bmp cmyk_exact 0 (Some TGray) true (save_bmp no_uncmyk TGray true 9 2 img8) = BOk (9, 2, TGray, img8) /\
  length (save_bmp no_uncmyk rgb false 3 2 img8) = 78%nat.
Proof. vm_compute. repeat split; reflexivity. Qed.
