(* C18 -- tj3SaveImage8 to a .bmp file (wrbmp.c) followed by tj3LoadImage8 (rdbmp.c)
   returns the samples that were saved: 8-bit gray (palettised) and every RGB-family
   layout (24-bit BGR), bottom-up file order, 4-byte row padding. *)
From Coq Require Import List ZArith Lia Bool ZifyBool.
From LJT Require Import gen.GenPnm model.Pnm model.Bmp proofs.PnmProofs proofs.PnmRoundtrip proofs.BmpProofs.
Import ListNotations.
Local Open Scope Z_scope.
Ltac Zify.zify_post_hook ::= Z.div_mod_to_equations.

Lemma take_exact_app' a r : take_exact (length a) (a ++ r) = Some (a, r).
Proof. induction a as [|c a IH]; cbn [take_exact length app]; [reflexivity|]. rewrite IH. reflexivity. Qed.

Lemma take_app n a r : Z.of_nat (length a) = n -> take n (a ++ r) = BOk (a, r).
Proof.
  intro H. unfold take. rewrite app_length.
  replace (Z.of_nat (length a + length r) <? n) with false by lia.
  replace (Z.to_nat n) with (length a) by lia. rewrite take_exact_app'. reflexivity.
Qed.

Definition gray_cmap : list (Z * Z * Z) := map (fun i => (i, i, i)) (zseq 0 256).

Lemma gray_cmap_parse : parse_cmap 256 4 gray_cmap_bytes = gray_cmap /\ is_gray_cmap gray_cmap = true /\
  Z.of_nat (length gray_cmap_bytes) = 1024.
Proof. vm_compute. auto. Qed.

Lemma gray_cmap_nth x : 0 <= x <= 255 -> nth_error gray_cmap (Z.to_nat x) = Some (x, x, x).
Proof.
  intro H. unfold gray_cmap. rewrite nth_error_map, zseq_nth_error by lia. cbn [option_map].
  replace (0 + Z.of_nat (Z.to_nat x)) with x by lia. reflexivity.
Qed.

Definition wcmap (t : target) : list (Z * Z * Z) := match t with TGray => gray_cmap | _ => [] end.

Definition rt_target (t : target) : Prop := t = TGray \/ exists l, t = TRgb l /\ 1 <= l_ps l <= 4.

Lemma s32_small x : 0 <= x < 2147483648 -> s32 x = x.
Proof. intro H. unfold s32. replace (x >=? 2147483648) with false by lia. reflexivity. Qed.

Ltac calc_nth :=
  cbv [get2 get4 nthz];
  repeat (match goal with |- context [Z.to_nat ?k] =>
            let v := eval vm_compute in (Z.to_nat k) in change (Z.to_nat k) with v end);
  cbn [nth app].

Lemma header_rt t w h data : rt_target t -> 1 <= w <= 250000000 -> 1 <= h <= 2147483647 ->
  bmp_header false 0 (Some t) (bmp_file_header t w h ++ data)
  = BOk ({| b_w := w; b_h := h; b_bpp := w_bpp t; b_cmap := wcmap t; b_t := t; b_roww := w_roww t w |}, data).
Proof.
  intros Ht Hw Hh.
  set (cme := match t with TGray => 256 | _ => 0 end).
  set (hs := 14 + 40 + cme * 4).
  set (cmb := match t with TGray => gray_cmap_bytes | _ => [] end).
  assert (Hfile : exists f0 f1 f2 f3 w0 w1 w2 w3 h0 h1 h2 h3,
    bmp_file_header t w h ++ data =
    [66; 77; f0; f1; f2; f3; 0; 0; 0; 0; hs mod 256; (hs / 256) mod 256; 0; 0] ++
    [40; 0; 0; 0] ++
    [w0; w1; w2; w3; h0; h1; h2; h3; 1; 0; w_bpp t; 0; 0; 0; 0; 0; 0; 0; 0; 0; 0; 0; 0; 0; 0; 0; 0; 0;
     cme mod 256; (cme / 256) mod 256; 0; 0; 0; 0; 0; 0] ++ cmb ++ data /\
    w0 + 256 * w1 + 65536 * w2 + 16777216 * w3 = w /\ h0 + 256 * h1 + 65536 * h2 + 16777216 * h3 = h).
  { exists ((hs + w_roww t w * h) mod 256), ((hs + w_roww t w * h) / 256 mod 256),
           ((hs + w_roww t w * h) / 65536 mod 256), ((hs + w_roww t w * h) / 16777216 mod 256),
           (w mod 256), (w / 256 mod 256), (w / 65536 mod 256), (w / 16777216 mod 256),
           (h mod 256), (h / 256 mod 256), (h / 65536 mod 256), (h / 16777216 mod 256).
    split; [|split; lia].
    unfold bmp_file_header, put4, put2. fold cme. fold hs. fold cmb.
    repeat (rewrite <- app_assoc; cbn [app]).
    assert (E1 : hs / 65536 mod 256 = 0 /\ hs / 16777216 mod 256 = 0) by (subst hs cme; destruct t; cbn; lia).
    destruct E1 as [-> ->].
    assert (E2 : w_bpp t mod 256 = w_bpp t /\ w_bpp t / 256 mod 256 = 0) by (destruct t; cbn; lia).
    destruct E2 as [-> ->]. reflexivity. }
  destruct Hfile as (f0 & f1 & f2 & f3 & w0 & w1 & w2 & w3 & h0 & h1 & h2 & h3 & -> & Ew & Eh).
  unfold bmp_header.
  rewrite (take_app 14) by reflexivity. cbn [bbind].
  change (get2 [66; 77; f0; f1; f2; f3; 0; 0; 0; 0; hs mod 256; hs / 256 mod 256; 0; 0] 0) with 19778.
  cbn [Z.eqb Pos.eqb negb].
  rewrite (take_app 4) by reflexivity. cbn [bbind].
  change (get4 [40; 0; 0; 0] 0) with 40. change (s32 40) with 40.
  assert (Hoff : s32 (get4 [66; 77; f0; f1; f2; f3; 0; 0; 0; 0; hs mod 256; hs / 256 mod 256; 0; 0] 10) = hs).
  { change (get4 _ 10) with (hs mod 256 + 256 * (hs / 256 mod 256) + 65536 * 0 + 16777216 * 0).
    subst hs cme. destruct t; cbn; reflexivity. }
  rewrite Hoff.
  assert (Hhs : 54 <= hs) by (subst hs cme; destruct t; lia).
  replace ((40 <? 12) || (40 >? 64) || (40 + 14 >? hs)) with false by lia.
  rewrite (take_app (40 - 4)) by reflexivity. cbn [bbind].
  change (40 =? 12) with false. change ((40 =? 40) || (40 =? 64)) with true. cbv iota.
  match goal with |- context [get2 ?l 14] => set (ih := l) end.
  assert (G14 : get2 ih 14 = w_bpp t) by (subst ih; calc_nth; lia).
  assert (G16 : get4 ih 16 = 0) by (subst ih; calc_nth; lia).
  assert (G4 : get4 ih 4 = w) by (subst ih; calc_nth; lia).
  assert (G8 : get4 ih 8 = h) by (subst ih; calc_nth; lia).
  assert (G12 : get2 ih 12 = 1) by (subst ih; calc_nth; lia).
  assert (G32 : get4 ih 32 = cme) by (subst ih; calc_nth; subst cme; destruct t; cbn; lia).
  rewrite G14, G16, G4, G8, G12, G32. clear G14 G16 G4 G8 G12 G32 ih.
  rewrite (s32_small w), (s32_small h) by lia.
  change (negb (0 =? 0)) with false. cbv iota.
  destruct Ht as [-> | (l & -> & Hps)].
  - subst cme hs cmb. cbn [w_bpp Z.eqb Pos.eqb orb negb bbind]. change (s32 256) with 256.
    cbn [bbind]. replace ((w <=? 0) || (h <=? 0)) with false by lia. cbn [andb Z.eqb Pos.eqb negb].
    change (8 =? 8) with true. cbv iota. change (4 >? 0) with true. change (256 <=? 0) with false. cbv iota.
    change (256 >? 256) with false. cbv iota.
    destruct gray_cmap_parse as (P1 & P2 & P3).
    rewrite (take_app (256 * 4)) by (rewrite P3; reflexivity). cbn [bbind].
    change (Z.to_nat 256) with 256%nat. rewrite P1, P2. cbn [is_gray_t negb andb].
    change (14 + 40 + 256 * 4 - (40 + 14) - 256 * 4) with 0. cbn [bbind]. change (0 <? 0) with false. cbv iota.
    change (take 0 data) with (take 0 ([] ++ data)). rewrite (take_app 0) by reflexivity. cbn [bbind target_ps].
    change (8 / 8) with 1.
    replace (w * 1 >? 4294967295) with false by lia. rewrite g_chunk.
    replace (w * 1 >? 1000000000) with false by lia.
    unfold w_roww, w_datawidth, wcmap. cbn [w_bpp]. change (8 / 8) with 1.
    rewrite (Z.mod_small (w * 1)) by lia. reflexivity.
  - subst cme hs cmb. cbn [w_bpp Z.eqb Pos.eqb orb negb bbind]. change (s32 0) with 0.
    cbn [bbind]. replace ((w <=? 0) || (h <=? 0)) with false by lia. cbn [andb Z.eqb Pos.eqb negb].
    change (24 =? 8) with false. cbv iota. change (0 >? 0) with false. cbv iota. cbn [bbind].
    change (14 + 40 + 0 * 4 - (40 + 14)) with 0. change (0 <? 0) with false. cbv iota.
    rewrite (take_app 0) by reflexivity. cbn [bbind target_ps].
    change (24 / 8) with 3.
    replace (w * 3 >? 4294967295) with false by lia.
    replace (w * l_ps l >? 4294967295) with false by nia. rewrite g_chunk.
    replace (w * l_ps l >? 1000000000) with false by nia.
    unfold w_roww, w_datawidth, wcmap. cbn [w_bpp]. change (24 / 8) with 3.
    rewrite (Z.mod_small (w * 3)) by lia. reflexivity.
Qed.

Lemma firstn_skipn_app {A} (a b : list A) k : length a = k -> firstn k (a ++ b) = a /\ skipn k (a ++ b) = b.
Proof.
  intros <-. split.
  - rewrite firstn_app, Nat.sub_diag, firstn_all. cbn [firstn]. apply app_nil_r.
  - rewrite skipn_app, Nat.sub_diag, skipn_all. reflexivity.
Qed.

Section BRT.
  Variable cmyk : Z -> Z -> Z -> Z -> list Z.
  Variable uncmyk : Z -> Z -> Z -> Z -> Z -> (Z * Z * Z).

  Definition hd_of (t : target) (w h : Z) : bmp_hdr :=
    {| b_w := w; b_h := h; b_bpp := w_bpp t; b_cmap := wcmap t; b_t := t; b_roww := w_roww t w |}.

  Lemma byte_nthz px i : Forall byte px -> byte (nthz px i).
  Proof.
    intro F. unfold nthz. destruct (nth_in_or_default (Z.to_nat i) px 0) as [I| ->]; [|unfold byte; lia].
    rewrite Forall_forall in F. auto.
  Qed.

  Lemma wpixel_length t px : rt_target t ->
    Z.of_nat (length (bmp_write_pixel uncmyk t px)) = w_bpp t / 8.
  Proof. intros [-> | (l & -> & _)]; reflexivity. Qed.

  Lemma pixel_rt t w h px : rt_target t -> Forall byte px ->
    bmp_pixel cmyk (hd_of t w h) (bmp_write_pixel uncmyk t px) = BOk (canon_px 8 t px).
  Proof.
    intros Ht F. unfold bmp_pixel. cbn [b_bpp hd_of b_cmap b_t].
    rewrite (wpixel_length t px Ht), Z.eqb_refl. cbn [negb].
    destruct Ht as [-> | (l & -> & _)]; cbn [w_bpp wcmap bmp_write_pixel].
    - change (8 =? 8) with true. cbv iota.
      pose proof (byte_nthz px 0 F) as Bx. unfold byte in Bx.
      change (nthz [nthz px 0] 0) with (nthz px 0).
      change (Z.of_nat (length gray_cmap)) with 256.
      replace (nthz px 0 >=? 256) with false by lia.
      rewrite gray_cmap_nth by lia. reflexivity.
    - change (24 =? 8) with false. change (24 =? 24) with true. cbv iota. reflexivity.
  Qed.

  Lemma Forall_firstn' {A} (P : A -> Prop) n l : Forall P l -> Forall P (firstn n l).
  Proof. revert l. induction n; intros [|a l] H; cbn [firstn]; auto. inversion H; subst. constructor; auto. Qed.
  Lemma Forall_skipn' {A} (P : A -> Prop) n l : Forall P l -> Forall P (skipn n l).
  Proof. revert l. induction n; intros [|a l] H; cbn [skipn]; auto. inversion H; subst. auto. Qed.

  Lemma pixels_rt t w h n : forall row pad, rt_target t -> Forall byte row ->
    bmp_pixels cmyk (hd_of t w h) n (bmp_write_pixels uncmyk t n row ++ pad) = BOk (canon_row 8 t n row).
  Proof.
    induction n as [|n IH]; intros row pad Ht F; cbn [bmp_pixels bmp_write_pixels canon_row]; [reflexivity|].
    cbn [b_bpp hd_of]. rewrite <- app_assoc.
    destruct (firstn_skipn_app (bmp_write_pixel uncmyk t (firstn (Z.to_nat (target_ps t)) row))
                (bmp_write_pixels uncmyk t n (skipn (Z.to_nat (target_ps t)) row) ++ pad)
                (Z.to_nat (w_bpp t / 8))) as [E1 E2].
    { pose proof (wpixel_length t (firstn (Z.to_nat (target_ps t)) row) Ht). lia. }
    rewrite E1, E2. fold (hd_of t w h).
    rewrite pixel_rt by (auto using Forall_firstn'). cbn [bbind].
    rewrite IH by (auto using Forall_skipn'). reflexivity.
  Qed.

  Lemma wpixels_length t n row : rt_target t ->
    Z.of_nat (length (bmp_write_pixels uncmyk t n row)) = Z.of_nat n * (w_bpp t / 8).
  Proof.
    intro Ht. revert row. induction n as [|n IH]; intro row; cbn [bmp_write_pixels]; [reflexivity|].
    rewrite app_length, Nat2Z.inj_add, IH, wpixel_length by auto. lia.
  Qed.

  Lemma roww_facts t w : rt_target t -> 1 <= w <= 250000000 ->
    w_datawidth t w = w * (w_bpp t / 8) /\ w_datawidth t w <= w_roww t w.
  Proof.
    intros Ht Hw. unfold w_roww, w_datawidth.
    assert (K : w_bpp t / 8 = 1 \/ w_bpp t / 8 = 3) by (destruct Ht as [-> | (l & -> & _)]; cbn; lia).
    rewrite (Z.mod_small (w * (w_bpp t / 8))) by lia.
    split; [reflexivity|]. rewrite Z.mod_small; lia.
  Qed.

  Lemma row_rt t w h row rest : rt_target t -> 1 <= w <= 250000000 -> Forall byte row ->
    (let? (buf, s1) := take (w_roww t w) (bmp_write_row uncmyk t w row ++ rest) in
     let? r := bmp_pixels cmyk (hd_of t w h) (Z.to_nat w) buf in BOk (r, s1))
    = BOk (canon_row 8 t (Z.to_nat w) row, rest).
  Proof.
    intros Ht Hw F. destruct (roww_facts t w Ht Hw) as [D1 D2].
    rewrite take_app.
    - cbn [bbind]. unfold bmp_write_row. rewrite pixels_rt by auto. reflexivity.
    - unfold bmp_write_row. rewrite app_length, Nat2Z.inj_add, wpixels_length, repeat_length by auto. lia.
  Qed.

  Lemma rows_rt t w h rows : rt_target t -> 1 <= w <= 250000000 -> Forall (Forall byte) rows ->
    bmp_rows cmyk (hd_of t w h) (length rows) (flat_map (bmp_write_row uncmyk t w) rows)
    = BOk (map (canon_row 8 t (Z.to_nat w)) rows).
  Proof.
    intros Ht Hw. induction rows as [|row rows IH]; intro F; cbn [bmp_rows flat_map length map]; [reflexivity|].
    inversion F; subst. cbn [b_roww b_w hd_of]. fold (hd_of t w h).
    pose proof (row_rt t w h row (flat_map (bmp_write_row uncmyk t w) rows) Ht Hw H1) as R.
    unfold bbind in *.
    destruct (take (w_roww t w) _) as [[buf s1]|e]; [|discriminate].
    destruct (bmp_pixels cmyk (hd_of t w h) (Z.to_nat w) buf) as [r|e]; [|discriminate].
    inversion R; subst. rewrite IH by auto. reflexivity.
  Qed.

  Theorem bmp_save_load_roundtrip t bottomup w h rows :
    rt_target t -> 1 <= w <= 250000000 -> 1 <= h <= 2147483647 ->
    length rows = Z.to_nat h -> Forall (Forall byte) rows ->
    load_bmp cmyk 0 (Some t) bottomup (save_bmp uncmyk t bottomup w h rows)
    = BOk (w, h, t, map (canon_row 8 t (Z.to_nat w)) rows).
  Proof.
    intros Ht Hw Hh Hl F. unfold load_bmp, save_bmp.
    rewrite header_rt by auto. cbn [bbind b_h b_w b_t]. fold (hd_of t w h).
    destruct bottomup.
    - rewrite <- Hl. rewrite rows_rt by auto. reflexivity.
    - rewrite <- Hl, <- rev_length. rewrite rows_rt by (auto; apply Forall_rev; auto). cbn [bbind].
      rewrite <- map_rev, rev_involutive. reflexivity.
  Qed.
End BRT.
