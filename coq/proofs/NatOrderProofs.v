(* The zigzag table of the model is the table of the tree under test; it is a
   permutation of 0..63 followed by 16 entries 63; the unrolled kloop list of
   jchuff.c is entries 1..63; the constants the models use are the ones found in
   the source (gen/GenNatOrder.v is regenerated from the source on every run). *)
From Coq Require Import List ZArith Lia Bool.
From LJT Require Import model.Huff model.Seq model.Prog gen.GenNatOrder.
Import ListNotations.
Local Open Scope Z_scope.

Definition inv_order : list nat :=
  [ 0;  1;  5;  6; 14; 15; 27; 28;  2;  4;  7; 13; 16; 26; 29; 42;
    3;  8; 12; 17; 25; 30; 41; 43;  9; 11; 18; 24; 31; 40; 44; 53;
   10; 19; 23; 32; 39; 45; 52; 54; 20; 22; 33; 38; 46; 51; 55; 60;
   21; 34; 37; 47; 50; 56; 59; 61; 35; 36; 48; 49; 57; 58; 62; 63 ]%nat.

Lemma natural_order_is_source : map Z.of_nat natural_order = gen_natural_order.
Proof. reflexivity. Qed.

Lemma kloop_is_natural_order : gen_kloop_order = firstn 63 (skipn 1 gen_natural_order).
Proof. reflexivity. Qed.

Lemma natural_order_tail : skipn 64 natural_order = repeat 63%nat 16.
Proof. reflexivity. Qed.

Lemma order_inv_chk : forallb (fun i => Nat.eqb (order (nth i inv_order 0%nat)) i) (seq 0 64) = true.
Proof. vm_compute. reflexivity. Qed.
Lemma inv_order_chk : forallb (fun k => Nat.eqb (nth (order k) inv_order 0%nat) k) (seq 0 64) = true.
Proof. vm_compute. reflexivity. Qed.
Lemma order_lt_chk : forallb (fun k => Nat.ltb (order k) 64) (seq 0 80) = true.
Proof. vm_compute. reflexivity. Qed.
Lemma inv_lt_chk : forallb (fun k => Nat.ltb (nth k inv_order 0%nat) 64) (seq 0 64) = true.
Proof. vm_compute. reflexivity. Qed.

Lemma forallb_seq_lt f n : forallb f (seq 0 n) = true -> forall i, (i < n)%nat -> f i = true.
Proof.
  intros H i Hi. rewrite forallb_forall in H. apply H. apply in_seq. lia.
Qed.

Lemma order_inv i : (i < 64)%nat -> order (nth i inv_order 0%nat) = i.
Proof. intros H. apply Nat.eqb_eq. exact (forallb_seq_lt _ _ order_inv_chk i H). Qed.
Lemma inv_order_order k : (k < 64)%nat -> nth (order k) inv_order 0%nat = k.
Proof. intros H. apply Nat.eqb_eq. exact (forallb_seq_lt _ _ inv_order_chk k H). Qed.
Lemma order_lt k : (order k < 64)%nat.
Proof.
  destruct (Nat.lt_ge_cases k 80) as [H|H].
  - apply Nat.ltb_lt. exact (forallb_seq_lt _ _ order_lt_chk k H).
  - unfold order. rewrite nth_overflow by (cbn; lia). lia.
Qed.
Lemma inv_lt i : (i < 64)%nat -> (nth i inv_order 0%nat < 64)%nat.
Proof. intros H. apply Nat.ltb_lt. exact (forallb_seq_lt _ _ inv_lt_chk i H). Qed.

Lemma order_inj j k : (j < 64)%nat -> (k < 64)%nat -> order j = order k -> j = k.
Proof.
  intros Hj Hk E. rewrite <- (inv_order_order j Hj), <- (inv_order_order k Hk). now rewrite E.
Qed.
Lemma order_overflow k : (64 <= k)%nat -> order k = 63%nat.
Proof.
  intros H. destruct (Nat.lt_ge_cases k 80) as [H1|H1].
  - assert (C : forallb (fun k => Nat.eqb (order (64 + k)) 63) (seq 0 16) = true) by (vm_compute; reflexivity).
    replace k with (64 + (k - 64))%nat by lia. apply Nat.eqb_eq.
    apply (forallb_seq_lt _ _ C). lia.
  - unfold order. now rewrite nth_overflow by (cbn; lia).
Qed.

(* the first 64 entries are a permutation of 0..63 *)
Lemma natural_order_perm :
  (forall k, (k < 64)%nat -> (order k < 64)%nat) /\
  (forall j k, (j < 64)%nat -> (k < 64)%nat -> order j = order k -> j = k) /\
  (forall i, (i < 64)%nat -> exists k, (k < 64)%nat /\ order k = i).
Proof.
  split; [intros; apply order_lt|]. split; [exact order_inj|].
  intros i Hi. exists (nth i inv_order 0%nat). split; [now apply inv_lt|now apply order_inv].
Qed.

Lemma source_constants :
  gen_dctsize2 = DCTSIZE2 /\ gen_seq_zrl_threshold = 16 * gen_seq_run_step /\ gen_seq_run_step = 16 /\
  gen_seq_dc_extra_bits = 1 /\ gen_max_coef_bits_offset = 2 /\ gen_restart_num_mask = 7 /\
  gen_eobrun_flush_ac_first = EOBRUN_FLUSH /\ gen_eobrun_flush_ac_refine = EOBRUN_FLUSH /\
  gen_max_corr_bits = MAX_CORR_BITS /\ gen_acr_be_before_flush = true /\ gen_prog_zrl_run_first = 15 /\ gen_prog_zrl_run_refine = 15 /\
  gen_eobrun_max_nbits = 14 /\ gen_dec_zrl_r = 15 /\ gen_dec_zrl_skip = 15 /\
  gen_pdec_zrl_r = 15 /\ gen_pdec_zrl_skip = 15.
Proof. repeat split. Qed.

Theorem nat_order_facts :
  map Z.of_nat natural_order = gen_natural_order /\
  gen_kloop_order = firstn 63 (skipn 1 gen_natural_order) /\
  skipn 64 natural_order = repeat 63%nat 16 /\
  ((forall k, (k < 64)%nat -> (order k < 64)%nat) /\
   (forall j k, (j < 64)%nat -> (k < 64)%nat -> order j = order k -> j = k) /\
   (forall i, (i < 64)%nat -> exists k, (k < 64)%nat /\ order k = i)).
Proof.
  split; [exact natural_order_is_source|]. split; [exact kloop_is_natural_order|].
  split; [exact natural_order_tail|exact natural_order_perm].
Qed.
