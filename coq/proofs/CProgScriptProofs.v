(* C17: jpeg_simple_progression -- the workspace always holds the script it is about to receive, for
   every sequence of calls on one object; the announced scan count equals the number of scans written;
   the scripts are accepted by validate_script for every component count 1..10. *)
From Coq Require Import List ZArith Bool Lia ZifyBool.
From LJT Require Import lib.Sweep model.Huff gen.GenParams model.CParams model.CProgScript.
Import ListNotations.
Local Open Scope Z_scope.

Definition ws_inv (w : wspace) : Prop := match w_alloc w with None => True | Some a => a = w_size w end.

Lemma sp_workspace_ok w n : ws_inv w ->
  ws_inv (sp_workspace w n) /\ exists a, w_alloc (sp_workspace w n) = Some a /\ n <= a.
Proof.
  unfold ws_inv, sp_workspace. intro H.
  change (g_SP_SIZE_RULE =? 1) with true. change (g_SP_ALLOC_GUARD =? 1) with true. cbv iota.
  destruct (w_alloc w) as [a|] eqn:Ea; cbn [orb].
  - destruct (w_size w <? n) eqn:E; cbn [w_alloc w_size].
    + split; [reflexivity|]. eexists. split; [reflexivity|]. lia.
    + rewrite Ea. split; [exact H|]. exists a. split; [reflexivity|]. lia.
  - cbn [w_alloc w_size]. split; [reflexivity|]. eexists. split; [reflexivity|]. lia.
Qed.

Theorem script_workspace_safe_lemma : forall calls w, ws_inv w -> sp_run w calls = true.
Proof.
  induction calls as [|n r IH]; intros w Hw; cbn [sp_run]; [reflexivity|].
  destruct (sp_workspace_ok w n Hw) as [Hi [a [Ea Hle]]]. rewrite Ea.
  apply andb_true_intro. split; [lia|apply IH; exact Hi].
Qed.

Lemma fill_scans_len n Ss Se Ah Al : 0 <= n -> Z.of_nat (length (fill_scans n Ss Se Ah Al)) = n.
Proof. intro H. unfold fill_scans. rewrite map_length, seq_length. lia. Qed.

Lemma fill_dc_scans_len n Ah Al : 0 <= n ->
  Z.of_nat (length (fill_dc_scans n Ah Al)) = if n <=? g_MAX_COMPS_IN_SCAN then 1 else n.
Proof. intro H. unfold fill_dc_scans. destruct (n <=? g_MAX_COMPS_IN_SCAN); [reflexivity|apply fill_scans_len; exact H]. Qed.

(* the space computed for the script equals the number of scans the fill_* calls write, for EVERY ncomps *)
Theorem simple_progression_length_lemma : forall ncomps ycc, 0 <= ncomps ->
  Z.of_nat (length (simple_progression ncomps ycc)) = simple_nscans ncomps ycc.
Proof.
  intros n ycc Hn. unfold simple_progression, simple_nscans.
  destruct (sp_is_ycc n ycc) eqn:Ey.
  - unfold sp_is_ycc in Ey. assert (n = 3) by (change g_SP_YCC_NCOMPS with 3 in Ey; lia). subst n. reflexivity.
  - unfold g_sp_gen. cbn [flat_map sp_call Z.eqb Pos.eqb]. rewrite !app_length, !Nat2Z.inj_add.
    cbn [length]. rewrite !fill_scans_len, !fill_dc_scans_len by lia.
    change g_MAX_COMPS_IN_SCAN with 4. change g_SP_BIG_MUL with 6. change g_SP_ADD with 2. change g_SP_MUL with 4.
    destruct (n <=? 4) eqn:E; destruct (n >? 4) eqn:E2; lia.
Qed.

(* T1-finite: for every component count 1..MAX_COMPONENTS and both colour-space cases the generated
   script is accepted by validate_script (8- and 12-bit) *)
Definition sp_accepted (n : Z) : bool :=
  forallb (fun ycc => forallb (fun prec =>
     match snd (validate_script n prec (simple_progression n ycc)) with inr Progressive => true | _ => false end) [8; 12])
    [true; false].
Lemma sp_accepted_sweep : sweep sp_accepted 1 (g_MAX_COMPONENTS + 1) = true.
Proof. vm_compute. reflexivity. Qed.
Theorem simple_progression_accepted_lemma : forall n ycc, 1 <= n <= g_MAX_COMPONENTS ->
  snd (validate_script n 8 (simple_progression n ycc)) = inr Progressive /\
  snd (validate_script n 12 (simple_progression n ycc)) = inr Progressive.
Proof.
  intros n ycc Hn. pose proof (sweep_sound _ _ _ sp_accepted_sweep n ltac:(lia)) as H.
  unfold sp_accepted in H. cbn [forallb] in H. rewrite !andb_true_r in H.
  apply andb_prop in H. destruct H as [Ht Hf].
  apply andb_prop in Ht. apply andb_prop in Hf. destruct Ht as [T8 T12]. destruct Hf as [F8 F12].
  destruct ycc.
  - destruct (snd (validate_script n 8 (simple_progression n true))) as [|[]]; try discriminate.
    destruct (snd (validate_script n 12 (simple_progression n true))) as [|[]]; try discriminate. auto.
  - destruct (snd (validate_script n 8 (simple_progression n false))) as [|[]]; try discriminate.
    destruct (snd (validate_script n 12 (simple_progression n false))) as [|[]]; try discriminate. auto.
Qed.

(* what the seeded change C17-1 does: an existing workspace never grows (guard 2 / size rule 2) *)
Example gray_then_cmyk_needs_growth :
  sp_run wspace0 [simple_nscans 1 false; simple_nscans 4 false; simple_nscans 10 false; simple_nscans 3 true] = true /\
  simple_nscans 1 false = 6 /\ simple_nscans 4 false = 18 /\ simple_nscans 10 false = 60.
Proof. vm_compute. repeat split. Qed.
