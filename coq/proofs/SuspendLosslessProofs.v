(* C09 -- the lossless scan unit (restart inside an iMCU row, restart_pending mask) is resumable. *)
From Coq Require Import List ZArith Lia Arith Bool.
From LJT Require Import model.SuspendCore model.SuspendMarker model.SuspendHuff model.SuspendProg model.SuspendLossless
  proofs.SuspendProofs proofs.SuspendMarkerProofs proofs.SuspendHuffProofs.
Import ListNotations.

Lemma bstable_sample : forall t, bstable (sample t).
Proof. intros. unfold sample. pose proof (bstable_huff_decode t). bst. Qed.

Lemma after_mcu_ext : forall c s e b d, after_mcu c s (ext e b) d = after_mcu c s b d.
Proof. reflexivity. Qed.

(* position bookkeeping of one decoded MCU *)
Lemma after_mcu_slack : forall c s b d, l_x s < lc_w c -> l_y s < lc_v c -> 1 <= l_left s ->
  lossless_slack c (after_mcu c s b d) < lossless_slack c s.
Proof.
  intros c s b d Hx Hy Hl. unfold lossless_slack.
  assert (F : forall t, (if restart_due c t then 1 else 0) <= 1) by (intros; destruct (restart_due c t); lia).
  pose proof (F s). pose proof (F (after_mcu c s b d)).
  assert (A1 : S (l_y s) * lc_w c <= lc_v c * lc_w c) by (apply Nat.mul_le_mono_r; lia).
  assert (A2 : lc_v c * lc_w c <= l_left s * (lc_v c * lc_w c)).
  { destruct (l_left s) as [|m]; [lia|]. simpl. lia. }
  assert (A3 : S (l_y s) * lc_w c = l_y s * lc_w c + lc_w c) by (simpl; lia).
  assert (R : l_left (after_mcu c s b d) * (lc_v c * lc_w c) - (l_y (after_mcu c s b d) * lc_w c + l_x (after_mcu c s b d)) + 1
              = l_left s * (lc_v c * lc_w c) - (l_y s * lc_w c + l_x s)).
  { unfold after_mcu. destruct (Nat.ltb_spec (S (l_x s)) (lc_w c)); simpl.
    - lia.
    - destruct (Nat.ltb_spec (S (l_y s)) (lc_v c)); simpl.
      + lia.
      + destruct (undiff_rows _ _ _ _ _ _) as [[out f] p]. simpl.
        assert (lc_v c = S (l_y s)) by lia.
        destruct (l_left s) as [|m]; [lia|]. simpl in *. lia. }
  lia.
Qed.

Definition lfound := restart_found.

Lemma restart_found_shift : forall c s1 n m, restart_found c s1 (n + m) = shift n (restart_found c s1 m).
Proof. intros. unfold restart_found. destruct (_ =? _)%Z; reflexivity. Qed.

Lemma restart_step_done : forall c s p s' n k, restart_step c s p = Done s' n k ->
  n <= length p /\ k = 0 /\ restart_due c s = true -> True.
Proof. auto. Qed.

Theorem lossless_unit_resumable : forall c, resumable (lossless_unit c) (lossless_slack c).
Proof.
  intros c. constructor.
  - (* done_stable *)
    intros s p s' n k H. unfold lossless_unit in *.
    destruct (l_left s) as [|left] eqn:L; [discriminate|].
    destruct (negb (Nat.ltb (l_x s) (lc_w c) && Nat.ltb (l_y s) (lc_v c))) eqn:G; [discriminate|].
    apply negb_false_iff, andb_true_iff in G. destruct G as [G1 G2]. apply Nat.ltb_lt in G1. apply Nat.ltb_lt in G2.
    destruct (restart_due c s) eqn:D.
    + (* restart step *)
      unfold restart_step in *.
      assert (Sl : forall s1 m, restart_found c s1 m = Done s' n k -> l_x s1 = l_x s -> l_y s1 = l_y s -> l_left s1 = l_left s ->
                   n = m /\ lossless_slack c s' + 1 <= lossless_slack c s).
      { intros s1 m F X Y Lf. unfold restart_found in F.
        match type of F with context[if ?c then _ else _] => destruct c end; [|discriminate]. inversion F; subst. split; [reflexivity|].
        unfold lossless_slack. rewrite D. simpl l_left. simpl l_y. simpl l_x. rewrite X, Y, Lf.
        replace (restart_due c _) with false; [lia|].
        unfold restart_due in *. simpl. apply andb_true_iff in D. destruct D as [D1 D3]. apply andb_true_iff in D1. destruct D1 as [D1 D2].
        apply negb_true_iff in D2. rewrite D2. now rewrite !andb_false_r. }
      destruct (l_um s =? 0)%Z eqn:U.
      * destruct (nm p (l_disc s + l_bl s / 8) 0 0) as [m d k0|d k0] eqn:E; [|discriminate].
        destruct (nm_found_bound _ _ _ _ _ _ _ E) as [_ B2]. simpl in B2.
        assert (St : forall e, nm (p ++ e) (l_disc s + l_bl s / 8) 0 0 = NM_found m d k0) by (intros; now apply nm_found_stable).
        destruct (d =? 0)%Z eqn:Dz; destruct (Sl _ _ H eq_refl eq_refl eq_refl) as [-> Q]; (split; [lia|]; split; [lia|]);
          intros e; rewrite St, Dz; exact H.
      * destruct (Sl _ _ H eq_refl eq_refl eq_refl) as [-> Q]. split; [lia|]. split; [lia|]. intros e. exact H.
    + (* one MCU *)
      unfold mcu_step in *. destruct (l_insuf s).
      * inversion H; subst. split; [lia|]. split; [pose proof (after_mcu_slack c s (l_load s p) 0 G1 G2); lia|].
        intros e. reflexivity.
      * destruct (sample (lc_tbl c) (l_load s p)) as [d b|] eqn:E; [|discriminate]. inversion H; subst.
        split; [lia|]. split; [pose proof (after_mcu_slack c s b d G1 G2); lia|].
        intros e. change (l_load s (p ++ e)) with (ext e (l_load s p)).
        rewrite (bstable_sample _ _ e _ _ E), after_mcu_ext. simpl. rewrite !app_length. f_equal. lia.
  - (* fail_stable *)
    intros s p x H e. unfold lossless_unit in *.
    destruct (l_left s); [discriminate|].
    destruct (negb (Nat.ltb (l_x s) (lc_w c) && Nat.ltb (l_y s) (lc_v c))); [exact H|].
    destruct (restart_due c s).
    + unfold restart_step in *. destruct (l_um s =? 0)%Z; [|exact H].
      destruct (nm p (l_disc s + l_bl s / 8) 0 0) as [m d k0|d k0] eqn:E; [|discriminate].
      now rewrite (nm_found_stable _ _ _ _ _ _ _ E e).
    + unfold mcu_step in *. destruct (l_insuf s); [discriminate|].
      destruct (sample (lc_tbl c) (l_load s p)); discriminate.
  - (* halt_state *)
    intros s p H q. unfold lossless_unit in *.
    destruct (l_left s); [reflexivity|].
    destruct (negb (Nat.ltb (l_x s) (lc_w c) && Nat.ltb (l_y s) (lc_v c))); [discriminate|].
    destruct (restart_due c s).
    + unfold restart_step, restart_found in H.
      repeat match type of H with
      | (if ?c then _ else _) = _ => destruct c
      | match ?m with NM_found _ _ _ => _ | NM_more _ _ => _ end = _ => destruct m
      end; discriminate.
    + unfold mcu_step in H. destruct (l_insuf s); [discriminate|]. destruct (sample _ _); discriminate.
  - (* more_replay *)
    intros s p s1 n H. unfold lossless_unit in H.
    destruct (l_left s) as [|left] eqn:L; [discriminate|].
    destruct (negb (Nat.ltb (l_x s) (lc_w c) && Nat.ltb (l_y s) (lc_v c))) eqn:G; [discriminate|].
    destruct (restart_due c s) eqn:D.
    + unfold restart_step in H.
      destruct (l_um s =? 0)%Z eqn:U.
      2:{ unfold restart_found in H. match type of H with context[if ?c then _ else _] => destruct c end; discriminate. }
      destruct (nm p (l_disc s + l_bl s / 8) 0 0) as [m d k0|d k0] eqn:E.
      { destruct (d =? 0)%Z; unfold restart_found in H; match type of H with context[if ?c then _ else _] => destruct c end; discriminate. }
      inversion H; subst; clear H.
      destruct (nm_more_replay p [] _ 0 0 _ _ eq_refl E) as (_ & Bn & Dn). simpl in Bn, Dn.
      split; [exact Bn|]. intros e.
      unfold lossless_unit. cbn [l_left l_x l_y with_marker]. rewrite L, G.
      replace (restart_due c (with_marker s 0 d 0 (l_warn s))) with true by (symmetry; exact D). rewrite D.
      unfold restart_step. cbn [l_um l_disc l_bl l_warn with_marker]. rewrite U. simpl (0 =? 0)%Z. cbv iota.
      replace (d + 0 / 8)%Z with d by (rewrite Z.div_0_l; lia).
      rewrite Dn.
      pose proof (nm_base (skipn n p ++ e) d n 0 0) as NB. rewrite Nat.add_0_r in NB.
      unfold byte in *. rewrite NB.
      destruct (nm (skipn n p ++ e) d 0 0) as [m d2 k0|d2 k0]; simpl add_res; cbv iota.
      * assert (X : forall w, with_marker (with_marker s 0 d 0 (l_warn s)) 0 0 m w = with_marker s 0 0 m w) by reflexivity.
        rewrite !X. destruct (d2 =? 0)%Z; apply restart_found_shift.
      * reflexivity.
    + unfold mcu_step in H. destruct (l_insuf s); [discriminate|].
      destruct (sample (lc_tbl c) (l_load s p)) as [d b|] eqn:E; [discriminate|]. inversion H; subst.
      split; [lia|]. intros e. simpl skipn. now rewrite shift_0'.
Qed.

Theorem lossless_chunking_irrelevant : forall c cs s, run_lossless c cs s = run_lossless c [concat cs] s.
Proof. intros. apply chunking_irrelevant_generic. apply lossless_unit_resumable. Qed.

(* 2 x 2 samples, V = 2, restart interval = one MCU row: the restart marker sits in the MIDDLE of the iMCU row.
   Row 1 starts a restart interval, so it is undifferenced with the initial predictor (128), not from row 0. *)
Definition ex_ltbl := derive_dtbl [0; 1; 1; 0; 0; 0; 0; 0; 0; 0; 0; 0; 0; 0; 0; 0; 0]%Z [0; 2]%Z.
Definition ex_lcfg := {| lc_w := 2; lc_v := 2; lc_ri := 1%Z; lc_tbl := ex_ltbl; lc_init := 128%Z |}.
Definition ex_lbytes : list byte := [183; 255; 208; 79; 255; 217]%Z.
Definition lossless_out (o : outcome ls herr) : list (list Z) := match o with Halted s _ => l_out s | _ => [] end.
Definition lsplits (l : list byte) : list (list (list byte)) :=
  map (fun i => [firstn i l; skipn i l]) (seq 0 (S (length l))) ++ [map (fun x => [x]) l].

Example ex_lossless_restart_inside_imcu_row :
  forallb (fun cs => if list_eq_dec (list_eq_dec Z.eq_dec) (lossless_out (run_lossless ex_lcfg cs (linit_ls ex_lcfg 1)))
                          [[131; 131]; [128; 126]]%Z then true else false) (lsplits ex_lbytes) = true.
Proof. vm_compute. reflexivity. Qed.

(* a state at the start of MCU row 1 whose restart marker has not been seen yet (unread_marker = 0): the unit suspends
   INSIDE process_restart; position, row-0 differences and (still empty) mask are kept, and the resumed run gives the
   same image *)
Definition ex_mid : ls :=
  {| l_gb := 0; l_bl := 0; l_um := 0; l_insuf := false; l_warn := 0; l_disc := 0; l_nrn := 0; l_rtg := 0;
     l_y := 1; l_x := 0; l_pending := []; l_diff := [[3; 0]%Z]; l_first := true; l_prev := []; l_left := 1; l_out := [] |}.

Example ex_lossless_suspended_in_restart :
  match run_lossless ex_lcfg [[255%Z]] ex_mid with
  | Susp s _ _ => (l_y s, l_x s, l_diff s, l_pending s) | _ => (0, 0, [], []) end = (1, 0, [[3; 0]%Z], []) /\
  lossless_out (run_lossless ex_lcfg [[255%Z]; [208; 79; 255; 217]%Z] ex_mid) = [[131; 131]; [128; 126]]%Z /\
  lossless_out (run_lossless ex_lcfg [[255; 208; 79; 255; 217]%Z] ex_mid) = [[131; 131]; [128; 126]]%Z.
Proof. vm_compute. repeat split. Qed.
