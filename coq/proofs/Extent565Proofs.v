(* C11 -- RGB565 converters: every row stores exactly [0, 2*width) whatever its alignment. *)
From Coq Require Import List ZArith Lia Bool ZifyBool.
From LJT Require Import model.Extent model.Extent565 gen.GenAlign proofs.ExtentProofs.
Import ListNotations.
Local Open Scope Z_scope.
Ltac Zify.zify_post_hook ::= Z.div_mod_to_equations.

Lemma pair_stores_contig off cnt : contig off (pair_stores off cnt) = Some (off + 4 * Z.of_nat cnt).
Proof.
  revert off. induction cnt as [|c IH]; intros off; cbn [pair_stores contig]; [f_equal; lia|].
  replace ((off =? off) && (0 <? 4)) with true by lia. rewrite IH. f_equal. lia.
Qed.

Theorem rgb565_row_exact width addr : 1 <= width < 2 ^ 32 ->
  contig 0 (fst (rgb565_row width addr)) = Some (2 * width) /\
  exact_cover (fst (rgb565_row width addr)) (2 * width) /\
  rgb565_row_end width addr = 2 * width.
Proof.
  intros Hw. assert (P : 2 ^ 32 = 4294967296) by reflexivity. rewrite P in Hw.
  assert (C : contig 0 (fst (rgb565_row width addr)) = Some (2 * width)).
  { unfold rgb565_row, u32. rewrite P. cbn [fst]. destruct (need_align addr).
    - rewrite (Z.mod_small (width - 1)) by lia. cbn [app contig]. replace ((0 =? 0) && (0 <? 2)) with true by reflexivity.
      change (0 + 2) with 2. rewrite contig_app, pair_stores_contig. rewrite Z2Nat.id by (apply Z.div_pos; lia).
      destruct (Z.odd (width - 1)) eqn:O; cbn [contig].
      + rewrite Z.eqb_refl. change (true && (0 <? 2)) with true. cbv iota.
        f_equal. rewrite Z.odd_spec in O. destruct O as [m Hm]. lia.
      + f_equal. rewrite <- Z.negb_even in O. apply negb_false_iff in O. rewrite Z.even_spec in O. destruct O as [m Hm]. lia.
    - cbn [app]. rewrite contig_app, pair_stores_contig. rewrite Z2Nat.id by (apply Z.div_pos; lia).
      destruct (Z.odd width) eqn:O; cbn [contig].
      + rewrite Z.eqb_refl. change (true && (0 <? 2)) with true. cbv iota.
        f_equal. rewrite Z.odd_spec in O. destruct O as [m Hm]. lia.
      + f_equal. rewrite <- Z.negb_even in O. apply negb_false_iff in O. rewrite Z.even_spec in O. destruct O as [m Hm]. lia. }
  split; [exact C|]. split.
  - intros x. apply (contig_cover _ _ _ C).
  - unfold rgb565_row_end, u32. rewrite P. destruct (need_align addr).
    + rewrite (Z.mod_small (width - 1)) by lia. destruct (Z.odd (width - 1)) eqn:O.
      * rewrite Z.odd_spec in O. destruct O as [m Hm]. lia.
      * rewrite <- Z.negb_even in O. apply negb_false_iff in O. rewrite Z.even_spec in O. destruct O as [m Hm]. lia.
    + destruct (Z.odd width) eqn:O.
      * rewrite Z.odd_spec in O. destruct O as [m Hm]. lia.
      * rewrite <- Z.negb_even in O. apply negb_false_iff in O. rewrite Z.even_spec in O. destruct O as [m Hm]. lia.
Qed.

(* a whole call with num_cols re-initialised for every row: every row ends at 2*width *)
Theorem rgb565_call_exact width addrs nc : 1 <= width < 2 ^ 32 ->
  Forall (fun e => e = 2 * width) (rgb565_call_ends true width addrs nc).
Proof.
  intros Hw. revert nc. induction addrs as [|a t IH]; intros nc; cbn [rgb565_call_ends]; constructor.
  - apply (rgb565_row_exact width a Hw).
  - apply IH.
Qed.

(* num_cols initialised once per call (the code before 80b73fc): two unaligned rows of a one-pixel-wide
   image: the counter wraps and the second row runs ~8 GiB past its 2 bytes *)
Theorem rgb565_no_reset_overruns :
  exists width addrs, 1 <= width /\ nth 1 (rgb565_call_ends false width addrs width) 0 > 2 * width.
Proof. exists 1, [2; 6]. vm_compute. split; [discriminate | reflexivity]. Qed.

Theorem rgb565_current :
  if rgb565_reset_per_row then (forall width addrs nc, 1 <= width < 2 ^ 32 ->
        Forall (fun e => e = 2 * width) (rgb565_call_ends true width addrs nc))
  else exists width addrs, 1 <= width /\ nth 1 (rgb565_call_ends false width addrs width) 0 > 2 * width.
Proof. destruct rgb565_reset_per_row; [exact rgb565_call_exact | exact rgb565_no_reset_overruns]. Qed.
