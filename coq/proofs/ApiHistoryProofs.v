(* C12 -- history independence of the API model (model/ApiOps.v) from the soundness of the
   analysis (proofs/ApiStateProofs.v); error paths of the generated data. *)
From Coq Require Import List ZArith String Bool Lia.
From LJT Require Import gen.GenErrPaths model.ApiState model.ApiOps model.ErrPaths proofs.ApiStateProofs.
Import ListNotations.
Local Open Scope Z_scope.

(* ------------------------------------------------------------ error paths (generated data) *)
Lemma all_hst_complete s : In s all_hst.
Proof. destruct s as [[] [] [] [] []]; vm_compute; tauto. Qed.

Lemma errpaths_all_ok : forallb fn_ok api_functions = true.
Proof. vm_cast_no_check (eq_refl true). Qed.

Lemma early_returns_all_ok : forallb (early_returns_ok api_functions) api_functions = true.
Proof. vm_cast_no_check (eq_refl true). Qed.

Lemma errpaths_abort_lemma :
  forall f, In f api_functions ->
  forall h, h = throw_path \/ In h (fn_handlers f) ->
  forall s, (fn_uses_c f = true -> h_c (hfinal h (bail_of f) s) = false) /\
            (fn_uses_d f = true -> h_d (hfinal h (bail_of f) s) = false).
Proof.
  intros f Hf h Hh s.
  pose proof errpaths_all_ok as H. rewrite forallb_forall in H. specialize (H f Hf).
  unfold fn_ok in H. apply andb_true_iff in H. destruct H as [H _].
  rewrite forallb_forall in H. specialize (H s (all_hst_complete s)).
  rewrite forallb_forall in H.
  assert (Hin : In h (throw_path :: fn_handlers f)) by (destruct Hh as [->|Hh]; [left; reflexivity | right; assumption]).
  specialize (H h Hin). unfold path_ok in H. apply andb_true_iff in H. destruct H as [H1 H2].
  split; intro U; rewrite U in *; cbn in *.
  - destruct (h_c _); [discriminate | reflexivity].
  - destruct (h_d _); [discriminate | reflexivity].
Qed.

Lemma errpaths_tmp_lemma :
  forall f, In f api_functions -> fn_tmp_instance f = true ->
  destroys_tmp (bail_of f) = true /\
  forall h, In h (fn_handlers f) -> existsb (fun x => match x with HGotoBailout HAlways => true | _ => false end) h = true.
Proof.
  intros f Hf Ht.
  pose proof errpaths_all_ok as H. rewrite forallb_forall in H. specialize (H f Hf).
  unfold fn_ok in H. apply andb_true_iff in H. destruct H as [_ H]. rewrite Ht in H. cbn in H.
  apply andb_true_iff in H. destruct H as [H1 H2]. split; [assumption|].
  rewrite forallb_forall in H2. exact H2.
Qed.

(* ------------------------------------------------------------ invariant between calls *)
Definition idle (s : state) : Prop := forall p, memf p idle_nulls = true -> pt s p = None.
Definition Inv (x : xstate) : Prop :=
  sc (xs x) gsc = CSTART /\ sc (xs x) gsd = DSTART /\ xerr x = None /\ idle (xs x).

Lemma R_refl a s : a_p a = [] -> a_n a = idle_nulls -> idle s -> sc s gsc = a_c a -> sc s gsd = a_d a -> R a s s.
Proof.
  intros Hp Hn Hi Hc Hd. unfold R. rewrite Hp, Hn.
  split; [assumption|]. split; [assumption|]. split; [assumption|]. split; [assumption|].
  split; [reflexivity|]. split; [discriminate | auto].
Qed.

Lemma exits_from_spec fx a k ex :
  exits_from fx a k = Some ex -> ana_prog (prog_of fx k) a = Some ex /\ forallb at_start ex = true.
Proof.
  unfold exits_from. destruct (ana_prog _ _) as [e|]; [|discriminate].
  destruct (forallb at_start e) eqn:E; [|discriminate]. intro H. inversion H. subst. auto.
Qed.

Lemma at_start_spec a :
  at_start a = true -> a_c a = CSTART /\ a_d a = DSTART /\ forall p, memf p idle_nulls = true -> memf p (a_n a) = true.
Proof.
  unfold at_start. rewrite !andb_true_iff, !Z.eqb_eq. intros [[H1 H2] H3]. split; [assumption|]. split; [assumption|].
  intros p Hp. rewrite forallb_forall in H3. apply H3. apply memf_In. exact Hp.
Qed.

Lemma step_inv fx c x : ok_hist fx (c_kind c) = true -> Inv x -> Inv (step fx c x).
Proof.
  unfold ok_hist. destruct (exits_from fx (a_hist fx) (c_kind c)) as [ex|] eqn:E; [|discriminate].
  intros _ (Hc & Hd & He & Hi). destruct (exits_from_spec _ _ _ _ E) as [Ha Hs].
  unfold step. set (x0 := mkx (xs x) (xd x) [] (xerr x) 0%nat).
  assert (HX : RX (a_hist fx) x0 x0).
  { apply mkRX; [|reflexivity|reflexivity]. apply R_refl; [reflexivity | reflexivity | exact Hi | exact Hc | exact Hd]. }
  destruct (run_prog_sound (env_of (c_args c)) _ _ _ _ _ Ha HX) as (E1 & _ & (b & Hb & (HRb & _))).
  rewrite forallb_forall in Hs. destruct (at_start_spec _ (Hs _ Hb)) as (Bc & Bd & Bn).
  destruct HRb as (A & _ & C & _ & _ & _ & G). unfold Inv. rewrite A, C, Bc, Bd, E1. cbn.
  split; [reflexivity|]. split; [reflexivity|]. split; [exact He|].
  intros p Hp. apply G. apply Bn. exact Hp.
Qed.

Lemma run_inv fx h : forall x, Forall (fun c => ok_hist fx (c_kind c) = true) h -> Inv x -> Inv (run fx h x).
Proof.
  induction h as [|c t IH]; intros x Hall Hx; cbn; [assumption|].
  inversion Hall; subst. apply IH; [assumption|]. apply step_inv; assumption.
Qed.

Lemma init_inv ic id : Inv (init_x ic id).
Proof. unfold Inv, idle. cbn. auto. Qed.

(* ------------------------------------------------------------ fresh instance with the same settings *)
Lemma gs_not_param : memf gsc param_fields = false /\ memf gsd param_fields = false.
Proof. vm_compute. auto. Qed.

Lemma R_fresh s : sc s gsc = CSTART -> sc s gsd = DSTART -> idle s -> R a_probe s (fresh_like s).
Proof.
  intros Hc Hd Hi. destruct gs_not_param as [G1 G2]. unfold R, a_probe, fresh_like. cbn [a_c a_d a_s a_p a_n sc pt ep].
  rewrite G1, G2.
  split; [assumption|]. split; [reflexivity|]. split; [assumption|]. split; [reflexivity|].
  split; [intros f Hf; rewrite Hf; reflexivity|]. split; [discriminate|].
  intros p Hp. split; [apply Hi; exact Hp | reflexivity].
Qed.

Lemma inter_all_In b l f : In b l -> memf f (inter_all l) = true -> memf f (a_s b) = true.
Proof.
  induction l as [|a t IH]; intros Hin Hf; [destruct Hin|].
  destruct t as [|a' t'].
  - destruct Hin as [->|[]]. exact Hf.
  - change (inter_all (a :: a' :: t')) with (inter (a_s a) (inter_all (a' :: t'))) in Hf.
    apply memf_inter in Hf. destruct Hf as [H1 H2]. destruct Hin as [->|Hin]; auto.
Qed.

Lemma probe_seq_sound fx : forall cs a x1 x2,
  ok_seq fx a (map c_kind cs) = true ->
  a_c a = CSTART -> a_d a = DSTART -> a_p a = [] ->
  R a (xs x1) (xs x2) -> xerr x1 = None -> xerr x2 = None ->
  fst (probe_from fx cs x1) = fst (probe_from fx cs x2) /\
  snd (probe_from fx cs x1) = None /\ snd (probe_from fx cs x2) = None.
Proof.
  induction cs as [|c t IH]; intros a x1 x2 Hok Hc Hd Hp HR E1 E2.
  - cbn. auto.
  - cbn [map ok_seq] in Hok. apply andb_true_iff in Hok. destruct Hok as [_ Hok].
    destruct (exits_from fx a (c_kind c)) as [ex|] eqn:E; [|discriminate].
    destruct (exits_from_spec _ _ _ _ E) as [Ha Hs].
    cbn [probe_from]. unfold step.
    set (y1 := mkx (xs x1) (xd x1) [] (xerr x1) 0%nat). set (y2 := mkx (xs x2) (xd x2) [] (xerr x2) 0%nat).
    assert (HX : RX a y1 y2) by (apply mkRX; [exact HR | reflexivity | reflexivity]).
    destruct (run_prog_sound (env_of (c_args c)) _ _ _ _ _ Ha HX) as (F1 & F2 & (b & Hb & (HRb & Hob & _))).
    set (z1 := run_prog (env_of (c_args c)) (prog_of fx (c_kind c)) y1) in *.
    set (z2 := run_prog (env_of (c_args c)) (prog_of fx (c_kind c)) y2) in *.
    rewrite forallb_forall in Hs. destruct (at_start_spec _ (Hs _ Hb)) as (Bc & Bd & Bn).
    assert (HRn : R (next_entry ex) (xs z1) (xs z2)).
    { eapply R_weaken; [| | | | | exact HRb]; cbn [next_entry a_c a_d a_s a_p a_n]; auto.
      - intros f Hf. eapply inter_all_In; eassumption.
      - discriminate. }
    destruct (IH (next_entry ex) z1 z2 Hok eq_refl eq_refl eq_refl HRn) as (G1 & G2 & G3).
    { rewrite F1. exact E1. } { rewrite F2. exact E2. }
    destruct (probe_from fx t z1) as [o1 e1]. destruct (probe_from fx t z2) as [o2 e2].
    cbn [fst snd] in *. subst. rewrite Hob. auto.
Qed.

(* ------------------------------------------------------------ the general theorem *)
Theorem history_independence_gen fx (h : list call) (cs : list call) ic id :
  Forall (fun c => ok_hist fx (c_kind c) = true) h ->
  ok_probe fx (map c_kind cs) = true ->
  let x := run fx h (init_x ic id) in
  xerr x = None /\
  fst (probe fx cs (xs x) (xd x)) = fst (probe fx cs (fresh_like (xs x)) dest0) /\
  snd (probe fx cs (xs x) (xd x)) = None /\
  snd (probe fx cs (fresh_like (xs x)) dest0) = None.
Proof.
  intros Hh Hp x. destruct (run_inv fx h _ Hh (init_inv ic id)) as (Hc & Hd & He & Hi). fold x in Hc, Hd, He, Hi.
  split; [exact He|]. unfold probe, ok_probe in *.
  apply (probe_seq_sound fx cs a_probe); auto.
  apply R_fresh; assumption.
Qed.
