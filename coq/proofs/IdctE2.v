(* C07 -- e2 split into its rounding part (proved, proofs/IdctRound.v) and ONE named remaining hypothesis, the constant
   accuracy of the inverse flow-graph matrix (idct_constant_accuracy); with it the block bound holds for the MODEL on both
   sides: valid samples -> convsamp, fdct_islow, quantize -> dct_table, idct_islow before the range-limit clamp. *)
From Coq Require Import List ZArith Lia Reals Lra Psatz.
From LJT Require Import gen.GenDctConst model.Quant model.Dct proofs.QuantCert proofs.QuantProofs proofs.DctProofs proofs.DctRange
  proofs.DctRound proofs.RmsBound proofs.DctOrth proofs.DctAcc proofs.DctE1 proofs.RmsFinal proofs.IdctRound.
Import ListNotations.

Local Open Scope Z_scope.
Lemma wrapS_range w x : 1 <= w -> - 2 ^ (w - 1) <= wrapS w x < 2 ^ (w - 1).
Proof.
  intros Hw. unfold wrapS.
  assert (E : 2 ^ w = 2 * 2 ^ (w - 1)).
  { replace w with (Z.succ (w - 1)) at 1 by lia. rewrite Z.pow_succ_r by lia. reflexivity. }
  assert (0 < 2 ^ (w - 1)) by (apply Z.pow_pos_nonneg; lia).
  pose proof (Z.mod_pos_bound (x + 2 ^ (w - 1)) (2 ^ w) ltac:(lia)). lia.
Qed.

Lemma quantize_one_range cf dv x : -32768 <= quantize_one cf dv x <= 32767.
Proof.
  pose proof (fun y => wrapS_range 16 y ltac:(lia)) as R. change (2 ^ (16 - 1)) with 32768 in R.
  destruct dv as [rc|qv]; cbn [quantize_one]; [unfold quantize_recip_one|unfold quantize_div_one]; cbv zeta;
    destruct (x <? 0); match goal with |- _ <= wrapS 16 ?y <= _ => specialize (R y); lia end.
Qed.

Lemma nth_map2 {A B C} (f : A -> B -> C) l m k da db dc : (k < length l)%nat -> (k < length m)%nat ->
  nth k (map2 f l m) dc = f (nth k l da) (nth k m db).
Proof.
  revert m k. induction l as [|a l IH]; intros [|b m] k Hl Hm; cbn in *; try lia.
  destruct k; [reflexivity|]. apply IH; lia.
Qed.
Lemma map2_length {A B C} (f : A -> B -> C) l m : length l = length m -> length (map2 f l m) = length l.
Proof. revert m. induction l as [|a l IH]; intros [|b m] H; cbn in *; try lia. rewrite IH; lia. Qed.

Definition dmax (cf : cfg) : Z := 8 * centersample cf + 16384.
Local Close Scope Z_scope.
Local Open Scope R_scope.

(* THE NAMED REMAINING HYPOTHESIS: the exact integer inverse flow graph / 2^29 is within e2c (Euclidean norm over the
   64 samples) of the exact real inverse DCT, for every coefficient block bounded by B *)
Definition idct_constant_accuracy (B : Z) (e2c : R) : Prop :=
  forall D, length D = 64%nat -> Forall (inb B) D ->
    norm2 64 (fun i => IZR (nth i (idct_lin2d D) 0%Z) / 536870912 - ap 64 (tr dctA2) (vecZ D) i) <= e2c * e2c.

Definition e2_round (cf : cfg) : R := 8 * (IZR (irbound cf) / 536870912).

Lemma norm2_entry_bound f b : 0 <= b -> (forall j, (j < 64)%nat -> Rabs (f j) <= b) -> norm2 64 f <= (8 * b) * (8 * b).
Proof.
  intros Hb H. unfold norm2, dot.
  eapply Rle_trans.
  - apply (rsum_le 64 _ (fun _ => b * b)). intros j Hj. specialize (H j Hj).
    assert (0 <= Rabs (f j)) by apply Rabs_pos.
    assert (Hsq : f j * f j = Rabs (f j) * Rabs (f j)) by (unfold Rabs; destruct (Rcase_abs (f j)); ring).
    rewrite Hsq. nra.
  - assert (E : forall n c, rsum n (fun _ => c) = INR n * c).
    { induction n as [|n IHn]; intros c; [simpl; ring|]. cbn [rsum]. rewrite IHn, S_INR. ring. }
    rewrite E. replace (INR 64) with 64 by (simpl; lra). right. ring.
Qed.

Lemma Forall_map2 {A B C} (P : C -> Prop) (f : A -> B -> C) l m : (forall a b, P (f a b)) -> Forall P (map2 f l m).
Proof. intros H. revert m. induction l as [|a l IH]; intros [|b m]; cbn; constructor; auto. Qed.

Lemma dequantize_exact cf c q : cfg_ok cf -> (-32768 <= c <= 32767)%Z -> (1 <= q <= 32767)%Z ->
  DEQUANTIZE cf c (wrapS (c_mw cf) q) = (c * q)%Z.
Proof.
  intros Hok Hc Hq. unfold DEQUANTIZE.
  assert (Hw : forall x, (-32768 <= x <= 32767)%Z -> wrapS (c_mw cf) x = x).
  { intros x Hx. cfg_cases cf Hok; cbn [c_mw]; apply wrapS_small; norm_pow; lia. }
  rewrite !Hw by lia. reflexivity.
Qed.

Lemma Forall2_length {A B} {P : A -> B -> Prop} {l m} : Forall2 P l m -> length l = length m.
Proof. induction 1; cbn; congruence. Qed.

Lemma idct_lin2d_length D : length D = 64%nat -> length (idct_lin2d D) = 64%nat.
Proof.
  intros H. do 64 (destruct D as [|? D]; [discriminate H|]). destruct D; [|discriminate H]. reflexivity.
Qed.

Theorem rms_bound_model_proof : matrix_accuracy_fact -> forall cf e2c,
  idct_constant_accuracy (dmax cf) e2c -> 0 <= e2c ->
  forall qtbl samples, cfg_ok cf -> length qtbl = 64%nat -> length samples = 64%nat ->
  (forall q, In q qtbl -> (1 <= q <= 32767)%Z) ->
  Forall (fun s => (0 <= s <= maxsample cf)%Z) samples ->
  exists coefs, forward_block cf qtbl samples = Some coefs /\
    inverse_block cf qtbl coefs = map (range_limit cf) (idct_pre cf coefs (dct_table cf qtbl)) /\
    norm2 64 (fun i => vecZ (idct_pre cf coefs (dct_table cf qtbl)) i - vecZ (convsamp cf samples) i)
      <= (qnorm qtbl + e1_bound cf + (e2_round cf + e2c)) * (qnorm qtbl + e1_bound cf + (e2_round cf + e2c)).
Proof.
  intros Hacc cf e2c Hidct He2c qtbl samples Hok Hlq Hls Hq HS.
  assert (Hq' : forall q, In q qtbl -> (1 <= q <= 65535)%Z) by (intros q Hin; specialize (Hq q Hin); lia).
  destruct (rms_bound_forward_proof Hacc cf qtbl samples Hok Hlq Hls Hq' HS) as [coefs [Hfw Hrms]].
  destruct (block_coef_error_proof cf qtbl samples Hok Hlq Hls Hq' HS) as [coefs' [Hfw' HF2]].
  rewrite Hfw in Hfw'. injection Hfw' as <-.
  exists coefs. split; [exact Hfw|].
  set (data := convsamp cf samples) in *.
  assert (Hld : length data = 64%nat) by (unfold data, convsamp; rewrite map_length; exact Hls).
  assert (HlF : length (fdct_islow cf data) = 64%nat) by (apply fdct_length; exact Hld).
  assert (Hlcomb : length (combine qtbl (fdct_islow cf data)) = 64%nat) by (rewrite combine_length, Hlq, HlF; reflexivity).
  assert (Hlc : length coefs = 64%nat) by (rewrite <- (Forall2_length HF2); exact Hlcomb).
  assert (Hcr : Forall (fun c => (-32768 <= c <= 32767)%Z) coefs).
  { unfold forward_block in Hfw. destruct (start_pass_divisors cf qtbl); [|discriminate]. injection Hfw as <-.
    unfold quantize_block. apply Forall_map2. intros; apply quantize_one_range. }
  set (mult := dct_table cf qtbl).
  assert (Hlm : length mult = 64%nat) by (unfold mult, dct_table; rewrite map_length; exact Hlq).
  assert (HlD : length (deq_block cf coefs mult) = 64%nat) by (unfold deq_block; rewrite map2_length; lia).
  assert (Hin : Forall (inb (centersample cf)) data) by (apply convsamp_in_range; assumption).
  pose proof (fdct_in_range cf data Hok Hld Hin) as HFr.
  (* entry k of the dequantised block *)
  assert (HD : forall k, (k < 64)%nat ->
            nth k (deq_block cf coefs mult) 0%Z = (nth k coefs 0 * nth k qtbl 0)%Z /\ inb (dmax cf) (nth k (deq_block cf coefs mult) 0%Z)).
  { intros k Hk. unfold deq_block. rewrite (nth_map2 _ _ _ _ 0%Z 0%Z) by lia.
    rewrite (nth_indep mult 0%Z (wrapS (c_mw cf) 0)) by lia. unfold mult, dct_table. rewrite map_nth.
    assert (Hqk : (1 <= nth k qtbl 0 <= 32767)%Z) by (apply Hq; apply nth_In; lia).
    pose proof (Forall_nth' _ coefs 0%Z k Hcr ltac:(lia)) as Hck.
    rewrite dequantize_exact by assumption. split; [reflexivity|].
    pose proof (Forall2_nth _ _ _ (0%Z, 0%Z) 0%Z k HF2 ltac:(lia)) as Hk2. cbv beta in Hk2.
    rewrite combine_nth in Hk2 by (rewrite Hlq, HlF; reflexivity). cbn [fst snd] in Hk2.
    pose proof (Forall_nth' _ _ 0%Z k HFr ltac:(lia)) as Hfk. unfold inb, b2 in Hfk. unfold inb, dmax.
    set (c := nth k coefs 0%Z) in *. set (q := nth k qtbl 0%Z) in *. set (f := nth k (fdct_islow cf data) 0%Z) in *.
    clearbody c q f. replace (c * (8 * q))%Z with (8 * (c * q))%Z in Hk2 by ring.
    generalize dependent (c * q)%Z. intros t Hk2. lia. }
  assert (HFD : Forall (inb din_max) (deq_block cf coefs mult)).
  { apply Forall_nth. intros k d Hk. rewrite (nth_indep _ d 0%Z) by exact Hk. rewrite HlD in Hk.
    destruct (HD k Hk) as [_ Hb]. unfold inb, dmax, din_max in *.
    assert (centersample cf <= 2048)%Z by (cfg_cases cf Hok; sample_consts; lia). norm_pow. lia. }
  assert (HFD2 : Forall (inb (dmax cf)) (deq_block cf coefs mult)).
  { apply Forall_nth. intros k d Hk. rewrite (nth_indep _ d 0%Z) by exact Hk. rewrite HlD in Hk. apply (HD k Hk). }
  destruct (idct_rounding_error_proof cf coefs mult Hok Hlc Hlm HFD) as [Heq HR].
  split; [unfold inverse_block; exact Heq|].
  apply Hrms; [unfold e2_round; assert (0 <= IZR (irbound cf)) by (apply IZR_le; unfold irbound, ish1; destruct Hok as [[H0 _]|[H0 _]]; unfold ipass1; rewrite H0; vm_compute; discriminate); lra|].
  (* y - A^T D = (y - LL/2^29) + (LL/2^29 - A^T D) *)
  set (pre := idct_pre cf coefs mult) in *. set (D := deq_block cf coefs mult) in *.
  assert (Hlpre : length pre = 64%nat) by (rewrite (Forall2_length HR); apply idct_lin2d_length; exact HlD).
  pose proof (Hidct D HlD HFD2) as Hc.
  assert (Hrb0 : 0 <= IZR (irbound cf) / 536870912).
  { assert (0 <= IZR (irbound cf)) by (apply IZR_le; unfold irbound, ish1; destruct Hok as [[H0 _]|[H0 _]]; unfold ipass1; rewrite H0; vm_compute; discriminate). lra. }
  assert (Hr : norm2 64 (fun i => vecZ pre i - IZR (nth i (idct_lin2d D) 0%Z) / 536870912) <= e2_round cf * e2_round cf).
  { unfold e2_round. apply norm2_entry_bound; [exact Hrb0|]. intros j Hj.
    pose proof (Forall2_nth _ _ _ 0%Z 0%Z j HR ltac:(lia)) as Hj2. cbv beta in Hj2. unfold vecZ.
    generalize dependent (nth j pre 0%Z). generalize (nth j (idct_lin2d D) 0%Z). generalize (irbound cf).
    intros rb L s [H1 H2]. apply IZR_le in H1, H2. rewrite minus_IZR, mult_IZR in H1, H2. rewrite opp_IZR in H1.
    change (IZR (2 ^ 29)) with 536870912 in H1, H2. apply Rabs_le. split; lra. }
  pose proof (norm2_add 64 _ _ (e2_round cf) e2c ltac:(unfold e2_round; lra) He2c Hr Hc) as Hsum.
  eapply Rle_trans; [|exact Hsum]. right. unfold norm2, dot. apply rsum_ext. intros i Hi.
  assert (Eap : ap 64 (tr dctA2) (fun k => vecZ coefs k * vecZ qtbl k) i = ap 64 (tr dctA2) (vecZ D) i).
  { unfold ap. apply rsum_ext. intros k Hk. unfold vecZ. destruct (HD k Hk) as [-> _]. rewrite mult_IZR. reflexivity. }
  rewrite Eap. ring.
Qed.
