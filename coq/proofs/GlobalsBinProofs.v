(* C15 -- the AST inventory (gen/GenGlobals.v) against the data symbols of the archives built
   from the same tree (gen/GenGlobalsBin.v): both are regenerated on every run and must
   agree; every non-const object gets a justification made of checked facts. *)
From Coq Require Import List ZArith String Bool.
From LJT Require Import model.Globals gen.GenGlobals gen.GenGlobalsBin proofs.GlobalsProofs.
Import ListNotations.
Local Open Scope string_scope.

Definition is_const (c : cls) : bool := match c with Const => true | _ => false end.
Definition is_tls (c : cls) : bool := match c with Tls => true | _ => false end.
Definition is_mnw (c : cls) : bool := match c with MutableNeverWritten => true | _ => false end.

Definition matches (b : bsym) (g : gvar) : bool :=
  String.eqb (b_name b) (g_name g) && existsb (String.eqb (b_obj b)) (g_tus g).

(* binary -> inventory: every data symbol the compiler/assembler emitted is an inventory entry of a compatible class *)
Definition bin_sym_ok (b : bsym) : bool :=
  existsb (fun g => matches b g &&
     (if bsec_tls (b_sec b) then is_tls (g_cls g)
      else if bsec_writable (b_sec b)
           then negb (is_const (g_cls g)) && negb (is_tls (g_cls g)) && entry_ok allow_list escapes g
           else is_const (g_cls g) || is_mnw (g_cls g))) inventory.

Definition in_bin (p : bsec -> bool) (g : gvar) : bool :=
  existsb (fun b => matches b g && p (b_sec b)) bin_symbols.

(* inventory -> binary: thread-local objects are in a TLS section, written/escaping ones in a writable one *)
Definition inv_entry_in_bin (g : gvar) : bool :=
  match g_cls g with
  | Tls => in_bin bsec_tls g && negb (in_bin bsec_writable g)
  | MutableWritten _ | AddressEscapes _ => in_bin bsec_writable g
  | _ => true
  end.

(* every non-empty writable section of every member is accounted for by named symbols *)
Definition bsec_eqb (a b : bsec) : bool :=
  match a, b with
  | RO, RO | RelRo, RelRo | Data, Data | Bss, Bss | Tdata, Tdata | Tbss, Tbss | OtherW, OtherW => true
  | _, _ => false
  end.

Definition wsec_ok (w : string * string * bsec * Z) : bool :=
  let '(m, _, c, size) := w in
  let syms := filter (fun b => String.eqb (b_obj b) m && bsec_eqb (b_sec b) c) bin_symbols in
  let total := fold_right Z.add 0%Z (map b_size syms) in
  let n := fold_right Z.add 0%Z (map b_cnt syms) in
  negb (match syms with [] => true | _ => false end) && (total <=? size)%Z && (size <=? total + 32 * n)%Z.

Definition justify (g : gvar) : justification :=
  match g_cls g with
  | Tls => if in_bin bsec_tls g && negb (in_bin bsec_writable g) then J_ThreadLocal else J_None
  | MutableNeverWritten => if in_bin bsec_writable g then J_ConstAfterLoad_NoWrite else J_ConstAfterLoad_RO
  | AddressEscapes _ =>
      if existsb (key_eqb (key g)) allow_list
         && existsb (fun e => key_eqb (esc_key e) (key g) && dummy_ok e) escapes
         && in_bin bsec_writable g
      then J_DummyNeverAccessed else J_None
  | _ => J_None
  end.

Definition just_eqb (a b : justification) : bool :=
  match a, b with
  | J_ThreadLocal, J_ThreadLocal | J_ConstAfterLoad_RO, J_ConstAfterLoad_RO
  | J_ConstAfterLoad_NoWrite, J_ConstAfterLoad_NoWrite | J_DummyNeverAccessed, J_DummyNeverAccessed
  | J_None, J_None => true
  | _, _ => false
  end.

Definition nonconst_table : list (string * string * string * justification) :=
  map (fun g => (g_file g, g_fn g, g_name g, justify g)) (filter (fun g => negb (is_const (g_cls g))) inventory).

(* the complete list of non-const static-storage objects of the library and why each is harmless *)
Definition expected_nonconst : list (string * string * string * justification) :=
  [("simd/x86_64/jsimd.c", "", "simd_huffman", J_ThreadLocal);
   ("simd/x86_64/jsimd.c", "", "simd_support", J_ThreadLocal);
   ("src/rdbmp.c", "", "alpha_index", J_ConstAfterLoad_RO);
   ("src/rdppm.c", "", "alpha_index", J_ConstAfterLoad_RO);
   ("src/turbojpeg.c", "", "cs2pf", J_ConstAfterLoad_RO);
   ("src/turbojpeg.c", "", "errStr", J_ThreadLocal);
   ("src/turbojpeg.c", "", "pf2cs", J_ConstAfterLoad_RO);
   ("src/turbojpeg.c", "", "turbojpeg_message_table", J_ConstAfterLoad_NoWrite);
   ("src/turbojpeg.c", "_tjInitCompress", "buffer", J_DummyNeverAccessed);
   ("src/turbojpeg.c", "_tjInitDecompress", "buffer", J_ConstAfterLoad_NoWrite)].

Definition row_eqb (a b : string * string * string * justification) : bool :=
  let '(a1, a2, a3, a4) := a in let '(b1, b2, b3, b4) := b in
  String.eqb a1 b1 && String.eqb a2 b2 && String.eqb a3 b3 && just_eqb a4 b4.

Lemma bin_to_inv_check : forallb bin_sym_ok bin_symbols = true.
Proof. vm_compute. reflexivity. Qed.
Lemma inv_to_bin_check : forallb inv_entry_in_bin inventory = true.
Proof. vm_compute. reflexivity. Qed.
Lemma wsec_check : forallb wsec_ok bin_wsections = true.
Proof. vm_compute. reflexivity. Qed.
Lemma nonconst_check : list_eqb row_eqb nonconst_table expected_nonconst = true.
Proof. vm_compute. reflexivity. Qed.

Lemma just_eqb_eq a b : just_eqb a b = true -> a = b.
Proof. destruct a, b; cbn; intros; try discriminate; reflexivity. Qed.

Lemma row_eqb_eq a b : row_eqb a b = true -> a = b.
Proof.
  destruct a as [[[a1 a2] a3] a4], b as [[[b1 b2] b3] b4]. unfold row_eqb.
  rewrite !andb_true_iff, !String.eqb_eq. intros [[[-> ->] ->] H]. apply just_eqb_eq in H. subst. reflexivity.
Qed.

Theorem statics_tie_proof :
  (* every data symbol of the built archives is an inventory entry of a compatible class *)
  (forall b, In b bin_symbols -> bin_sym_ok b = true) /\
  (* thread-local / written / escaping inventory entries are where the binary says *)
  (forall g, In g inventory -> inv_entry_in_bin g = true) /\
  (* every non-empty writable section of every archive member consists of those named symbols *)
  (forall w, In w bin_wsections -> wsec_ok w = true) /\
  (* the non-const objects of the library are exactly these, each with a justification built from checked facts *)
  nonconst_table = expected_nonconst /\
  (forall g, In g inventory -> g_cls g <> Const -> justify g <> J_None).
Proof.
  split; [|split; [|split; [|split]]].
  - apply forallb_forall. exact bin_to_inv_check.
  - apply forallb_forall. exact inv_to_bin_check.
  - apply forallb_forall. exact wsec_check.
  - pose proof nonconst_check as H.
    assert (G : forall a b, list_eqb row_eqb a b = true -> a = b).
    { induction a as [|x a IH]; destruct b as [|y b]; cbn [list_eqb]; intros E; try discriminate; auto.
      apply andb_true_iff in E. destruct E as [E1 E2]. apply row_eqb_eq in E1. rewrite E1, (IH b E2). reflexivity. }
    apply G. exact H.
  - assert (H : forallb (fun g => is_const (g_cls g) || negb (just_eqb (justify g) J_None)) inventory = true)
      by (vm_compute; reflexivity).
    intros g Hg Hc. rewrite forallb_forall in H. specialize (H g Hg).
    apply orb_true_iff in H. destruct H as [H|H].
    + destruct (g_cls g); try discriminate. congruence.
    + intros E. rewrite E in H. discriminate.
Qed.
