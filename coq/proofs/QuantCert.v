(* C07 -- proofs about the quantiser model (coq/model/Quant.v).

   reciprocal_exact: for every 16-bit divisor d >= 1 and every |x| <= 32767 the
   reciprocal quantiser (compute_reciprocal + quantize, 16- or 32-bit DCTELEM)
   returns sign(x) * floor((|x| + d/2) / d).  Structure: this file shows that a handful of
   inequalities (recip_facts) between the numbers compute_reciprocal produced for d
   (reciprocal f, correction c, shift r) imply exactness for ALL x of the range
   (recip_core / recip_sound / recip_simd_sound); proofs/QuantAlg.v proves the
   inequalities algebraically for every divisor (no enumeration of divisors). *)
From Coq Require Import List ZArith Lia Bool ZifyBool.
From LJT Require Import lib.Sweep gen.GenDctConst model.Quant.
Import ListNotations.
Local Open Scope Z_scope.

(* ---------------------------------------------------------------- wraps *)
Lemma wrapU_small w x : 0 <= x < 2 ^ w -> wrapU w x = x.
Proof. intros; unfold wrapU; apply Z.mod_small; assumption. Qed.

Lemma wrapS_small w x : 1 <= w -> - 2 ^ (w - 1) <= x < 2 ^ (w - 1) -> wrapS w x = x.
Proof.
  intros Hw Hx. unfold wrapS.
  assert (E : 2 ^ w = 2 * 2 ^ (w - 1)).
  { replace w with (Z.succ (w - 1)) at 1 by lia. rewrite Z.pow_succ_r by lia. reflexivity. }
  rewrite Z.mod_small by lia. lia.
Qed.

Lemma wrapU_nonneg w x : 0 <= w -> 0 <= wrapU w x.
Proof. intros; unfold wrapU. apply Z.mod_pos_bound. apply Z.pow_pos_nonneg; lia. Qed.

(* ---------------------------------------------------------------- the algebra *)
(* (y + s) * f = k * 2^r + (k*E + (m+s)*f) with the bracket in [0, 2^r) *)
Lemma recip_core d f s R E K M k m :
  0 < d -> 0 <= f -> 0 <= s -> 0 < R -> E = f * d - R ->
  0 <= m < d -> 0 <= k -> (k < K \/ (k = K /\ m <= M)) ->
  (0 <= E \/ 0 <= K * E + s * f) ->
  (E <= 0 -> (d - 1 + s) * f < R) ->
  (0 < E -> (K = 0 \/ (K - 1) * E + (d - 1 + s) * f < R) /\ K * E + (M + s) * f < R) ->
  ((k * d + m + s) * f) / R = k.
Proof.
  intros Hd Hf Hs HR HE Hm Hk HkK HL HU1 HU2.
  assert (Eq : (k * d + m + s) * f = k * R + (k * E + (m + s) * f)) by (subst E; ring).
  symmetry. apply Z.div_unique with (r := k * E + (m + s) * f); [|lia].
  left. split.
  - (* lower *)
    assert (0 <= m * f) by (apply Z.mul_nonneg_nonneg; lia).
    destruct HL as [HL|HL].
    + assert (0 <= k * E) by (apply Z.mul_nonneg_nonneg; lia).
      assert (0 <= s * f) by (apply Z.mul_nonneg_nonneg; lia). lia.
    + destruct (Z_le_gt_dec 0 E) as [HE0|HE0].
      * assert (0 <= k * E) by (apply Z.mul_nonneg_nonneg; lia).
        assert (0 <= s * f) by (apply Z.mul_nonneg_nonneg; lia). lia.
      * assert (K * E <= k * E).
        { assert (0 <= (K - k) * (- E)) by (apply Z.mul_nonneg_nonneg; lia). lia. }
        lia.
  - (* upper *)
    destruct (Z_le_gt_dec E 0) as [HE0|HE0].
    + specialize (HU1 HE0).
      assert (k * E <= 0).
      { assert (0 <= k * (- E)) by (apply Z.mul_nonneg_nonneg; lia). lia. }
      assert ((m + s) * f <= (d - 1 + s) * f) by (apply Z.mul_le_mono_nonneg_r; lia).
      lia.
    + assert (HE1 : 0 < E) by lia. destruct (HU2 HE1) as [HUa HUb].
      destruct HkK as [Hlt|[-> HmM]].
      * destruct HUa as [->|HUa]; [lia|].
        assert (k * E <= (K - 1) * E) by (apply Z.mul_le_mono_nonneg_r; lia).
        assert ((m + s) * f <= (d - 1 + s) * f) by (apply Z.mul_le_mono_nonneg_r; lia).
        lia.
      * assert ((m + s) * f <= (M + s) * f) by (apply Z.mul_le_mono_nonneg_r; lia).
        lia.
Qed.

(* ---------------------------------------------------------------- what has to hold for a divisor *)
Definition recip_facts (cf : cfg) (d : Z) (rc : recip) : Prop :=
  let W := c_dw cf in
  let f := wrapU W (r_recip rc) in
  let c := wrapU W (r_corr rc) in
  let r := r_shift rc + W in
  let h := d / 2 in
  let s := c - h in
  let E := f * d - 2 ^ r in
  let K := (32767 + h) / d in
  let M := (32767 + h) - K * d in
  0 <= r /\ 0 <= s /\ 32767 + c < 2 ^ 16 /\ (32767 + c) * f < 2 ^ (2 * W) /\ K < 32768 /\
  (0 <= E \/ 0 <= K * E + s * f) /\
  (E <= 0 -> (d - 1 + s) * f < 2 ^ r) /\
  (0 < E -> (K = 0 \/ (K - 1) * E + (d - 1 + s) * f < 2 ^ r) /\ K * E + (M + s) * f < 2 ^ r) /\
  (* what jsimd_quantize needs in addition, when start_pass_fdctmgr lets it run (result 1) *)
  (c_simd cf = true -> r_ret rc = 1 -> W = 16 -> 16 <= r <= 32 /\ wrapU 16 (r_scale rc) = 2 ^ (32 - r)).

(* what the facts give, in terms of plain integer division *)
Lemma recip_facts_mag cf d rc :
  (c_dw cf = 16 \/ c_dw cf = 32) -> 1 <= d -> recip_facts cf d rc ->
  let W := c_dw cf in
  let f := wrapU W (r_recip rc) in
  let c := wrapU W (r_corr rc) in
  let r := r_shift rc + W in
  0 <= r /\ 0 <= c /\ 0 <= f /\ 32767 + c < 2 ^ 16 /\ (32767 + c) * f < 2 ^ (2 * W) /\
  forall a, 0 <= a <= 32767 -> ((a + c) * f) / 2 ^ r = (a + d / 2) / d /\ 0 <= (a + d / 2) / d < 32768.
Proof.
  intros HW Hd Hc. unfold recip_facts in Hc. intros W f c r.
  fold W in Hc. fold f in Hc. fold c in Hc. fold r in Hc.
  set (h := d / 2) in *.
  set (s := c - h) in *.
  set (E := f * d - 2 ^ r) in *.
  set (K := (32767 + h) / d) in *.
  set (M := (32767 + h) - K * d) in *.
  cbv zeta in Hc.
  destruct Hc as [Hr [Hs [Hc16 [Hprod [HK [HL [HU1 [HU2 _]]]]]]]].
  assert (HWpos : 16 <= W <= 32) by (destruct HW; lia).
  assert (Hf : 0 <= f) by (apply wrapU_nonneg; lia).
  assert (Hcn : 0 <= c) by (apply wrapU_nonneg; lia).
  assert (HR : 0 < 2 ^ r) by (apply Z.pow_pos_nonneg; lia).
  assert (Hh : 0 <= h) by (apply Z.div_pos; lia).
  split; [lia|]. split; [lia|]. split; [lia|]. split; [lia|]. split; [lia|].
  intros a Ha. split; [|split].
  - set (y := a + h).
    assert (Hy : y = d * (y / d) + y mod d) by (apply Z.div_mod; lia).
    assert (Hm : 0 <= y mod d < d) by (apply Z.mod_pos_bound; lia).
    assert (Hk0 : 0 <= y / d) by (apply Z.div_pos; lia).
    assert (HkK : y / d <= K) by (apply Z.div_le_mono; lia).
    assert (Hsplit : y / d < K \/ (y / d = K /\ y mod d <= M)).
    { destruct (Z_lt_ge_dec (y / d) K) as [?|?]; [left; assumption|right].
      assert (y / d = K) by lia. split; [assumption|]. unfold M. lia. }
    replace (a + c) with ((y / d) * d + y mod d + s) by (unfold s, y in *; lia).
    apply recip_core with (E := E) (K := K) (M := M); try lia; try reflexivity; assumption.
  - apply Z.div_pos; lia.
  - assert ((a + h) / d <= K) by (apply Z.div_le_mono; lia). lia.
Qed.

Lemma recip_sound cf d rc :
  (c_dw cf = 16 \/ c_dw cf = 32) -> 1 <= d -> recip_facts cf d rc ->
  forall x, -32767 <= x <= 32767 -> quantize_recip_one cf rc x = rdiv x d.
Proof.
  intros HW Hd Hc.
  destruct (recip_facts_mag cf d rc HW Hd Hc) as [Hr [Hcn [Hf [Hc16 [Hprod Mag0]]]]].
  set (W := c_dw cf) in *.
  set (f := wrapU W (r_recip rc)) in *.
  set (c := wrapU W (r_corr rc)) in *.
  set (r := r_shift rc + W) in *.
  set (h := d / 2) in *.
  assert (Hhd : 0 <= h < d) by (unfold h; split; [apply Z.div_pos; lia|apply Z.div_lt_upper_bound; lia]).
  assert (HWpos : 16 <= W <= 32) by (destruct HW; lia).
  assert (P16 : 2 ^ 16 = 65536) by reflexivity.
  assert (P32 : 2 ^ 32 = 4294967296) by reflexivity.
  assert (Mag : forall a, 0 <= a <= 32767 ->
            Z.shiftr (wrapU (2 * W) (wrapU 32 (a + c) * f)) (r_shift rc + W) = (a + h) / d
            /\ 0 <= (a + h) / d < 32768).
  { intros a Ha. fold r.
    rewrite (wrapU_small 32) by lia.
    assert (Hpa : (a + c) * f <= (32767 + c) * f) by (apply Z.mul_le_mono_nonneg_r; lia).
    assert (0 <= (a + c) * f) by (apply Z.mul_nonneg_nonneg; lia).
    rewrite wrapU_small by lia.
    rewrite Z.shiftr_div_pow2 by lia. apply Mag0; exact Ha. }
  intros x Hx. unfold quantize_recip_one, rdiv. cbv zeta. fold W. fold f. fold c.
  destruct (x <? 0) eqn:Hneg.
  - assert (Hx' : 0 <= - x <= 32767) by lia.
    rewrite (wrapS_small W (- x)) by (destruct HW as [->| ->]; simpl; lia).
    destruct (Mag (- x) Hx') as [-> Hb].
    rewrite (wrapS_small W ((- x + h) / d)) by (destruct HW as [->| ->]; simpl; lia).
    rewrite (wrapS_small W (- ((- x + h) / d))) by (destruct HW as [->| ->]; simpl; lia).
    rewrite wrapS_small by (simpl; lia).
    rewrite Z.abs_neq by lia. replace (Z.sgn x) with (-1) by lia. fold h. lia.
  - assert (Hx' : 0 <= x <= 32767) by lia.
    destruct (Mag x Hx') as [-> Hb].
    rewrite (wrapS_small W ((x + h) / d)) by (destruct HW as [->| ->]; simpl; lia).
    rewrite wrapS_small by (simpl; lia).
    rewrite Z.abs_eq by lia. fold h.
    destruct (Z.eq_dec x 0) as [->|Hnz].
    + simpl. rewrite Z.div_small; [reflexivity|]. split; [lia|]. apply Z.div_lt_upper_bound; lia.
    + replace (Z.sgn x) with 1 by lia. lia.
Qed.

(* jsimd_quantize: two "multiply, keep the high word" steps equal one shift by r *)
Lemma recip_simd_sound cf d rc :
  c_dw cf = 16 -> 1 <= d -> recip_facts cf d rc -> c_simd cf = true -> r_ret rc = 1 ->
  forall x, -32767 <= x <= 32767 -> quantize_simd_one rc x = rdiv x d.
Proof.
  intros HW16 Hd Hc Hsimd Hret.
  destruct (recip_facts_mag cf d rc (or_introl HW16) Hd Hc) as [Hr [Hcn [Hf [Hc16 [Hprod Mag0]]]]].
  assert (HS : 16 <= r_shift rc + c_dw cf <= 32 /\ wrapU 16 (r_scale rc) = 2 ^ (32 - (r_shift rc + c_dw cf))).
  { unfold recip_facts in Hc. cbv zeta in Hc. apply Hc; assumption. }
  destruct HS as [Hr16 Hscale].
  rewrite HW16 in *.
  set (f := wrapU 16 (r_recip rc)) in *.
  set (c := wrapU 16 (r_corr rc)) in *.
  set (r := r_shift rc + 16) in *.
  set (h := d / 2) in *.
  assert (Hhd : 0 <= h < d) by (unfold h; split; [apply Z.div_pos; lia|apply Z.div_lt_upper_bound; lia]).
  assert (P16 : 2 ^ 16 = 65536) by reflexivity.
  intros x Hx. unfold quantize_simd_one, rdiv. cbv zeta. fold f. fold c. fold h. rewrite Hscale.
  assert (Hax : 0 <= Z.abs x <= 32767) by lia.
  rewrite wrapU_small by lia.
  destruct (Mag0 (Z.abs x) Hax) as [Hq Hb]. fold h in Hq, Hb.
  assert (HH : Z.shiftr (Z.shiftr ((Z.abs x + c) * f) 16 * 2 ^ (32 - r)) 16 = (Z.abs x + h) / d).
  { rewrite !Z.shiftr_div_pow2 by lia. rewrite <- Hq.
    set (t := r - 16). replace (32 - r) with (16 - t) by (unfold t; lia).
    replace r with (16 + t) by (unfold t; lia).
    assert (Ht : 0 <= t <= 16) by (unfold t; lia).
    replace (2 ^ 16) with (2 ^ (16 - t) * 2 ^ t) at 2
      by (rewrite <- Z.pow_add_r by lia; f_equal; lia).
    assert (0 < 2 ^ (16 - t)) by (apply Z.pow_pos_nonneg; lia).
    assert (0 < 2 ^ t) by (apply Z.pow_pos_nonneg; lia).
    rewrite (Z.mul_comm (2 ^ (16 - t)) (2 ^ t)).
    rewrite Z.div_mul_cancel_r by lia.
    rewrite Z.div_div by lia. rewrite <- Z.pow_add_r by lia. reflexivity. }
  rewrite HH.
  destruct (x <? 0) eqn:Hneg.
  - rewrite wrapS_small by (simpl; lia). replace (Z.sgn x) with (-1) by lia. lia.
  - rewrite wrapS_small by (simpl; lia).
    destruct (Z.eq_dec x 0) as [->|Hnz].
    + simpl. simpl in Hb. rewrite Z.div_small; [reflexivity|]. split; [lia|]. apply Z.div_lt_upper_bound; lia.
    + replace (Z.sgn x) with 1 by lia. lia.
Qed.

(* the configurations used as non-vacuity witnesses *)
Definition cf16 : cfg := mkcfg 8 16 16 true.
Definition cf32 : cfg := mkcfg 8 32 32 false.
