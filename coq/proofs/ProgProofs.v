(* C03 progressive coder: DC first / DC refine / AC first round trips,
   EOBRUN handling (incl. the forced flush at 0x7FFF), bit-plane chain. *)
From Coq Require Import List ZArith Lia Bool.
From LJT Require Import model.Huff model.Seq model.Prog proofs.SeqBits proofs.NatOrderProofs proofs.SeqProofs.
Import ListNotations.
Local Open Scope Z_scope.

(* ============================================================ DC first *)
Definition dcf_res (Al : Z) (m cur : list (list Z)) : list (list Z) :=
  map (fun bc => upd 0 (Z.shiftl (pt_dc Al (nth 0%nat (fst bc) 0)) Al) (snd bc)) (combine m cur).

Section DCF.
Variable dct : nat -> codec.
Variable mcb Al : Z.

Lemma dcf_mcu_roundtrip : forall mem blocks cur ldc bits ldc' rest,
  length cur = length blocks ->
  enc_dcf_mcu dct mcb Al mem blocks ldc = Some (bits, ldc') ->
  dec_dcf_mcu dct Al mem cur ldc (bits ++ rest) = Some (dcf_res Al blocks cur, ldc', rest).
Proof.
  induction mem as [|ci mt IH]; intros blocks cur ldc bits ldc' rest Hl He.
  - destruct blocks; [|discriminate]. destruct cur; [|discriminate]. cbn in He. inversion He; subst. reflexivity.
  - destruct blocks as [|b bt]; [discriminate|]. destruct cur as [|c ct]; [discriminate|].
    cbn [enc_dcf_mcu] in He.
    destruct (enc_dc_diff (dct ci) mcb (pt_dc Al (nth 0 b 0) - nthZ ldc ci) 1) as [bb|] eqn:Eb; [|discriminate].
    destruct (enc_dcf_mcu dct mcb Al mt bt (upd ci (pt_dc Al (nth 0 b 0)) ldc)) as [[rb l']|] eqn:Er; [|discriminate].
    inversion He; subst bits ldc'. clear He. cbn [dec_dcf_mcu]. rewrite <- app_assoc.
    rewrite (dc_diff_roundtrip (dct ci) mcb _ _ _ _ Eb).
    replace (pt_dc Al (nth 0 b 0) - nthZ ldc ci + nthZ ldc ci) with (pt_dc Al (nth 0 b 0)) by lia.
    cbn [length] in Hl. rewrite (IH bt ct _ rb l' rest ltac:(lia) Er). reflexivity.
Qed.

Lemma dcf_mcus_roundtrip mem : forall ms cur ldc bits rest,
  length cur = length ms ->
  Forall (fun mc => length (snd mc) = length (fst mc)) (combine ms cur) ->
  enc_dcf_mcus dct mcb Al mem ms ldc = Some bits ->
  dec_dcf_mcus dct Al mem cur ldc (bits ++ rest) =
    Some (map (fun mc => dcf_res Al (fst mc) (snd mc)) (combine ms cur), rest).
Proof.
  induction ms as [|m t IH]; intros cur ldc bits rest Hl HF He.
  - destruct cur; [|discriminate]. cbn in He. inversion He; subst. reflexivity.
  - destruct cur as [|c ct]; [discriminate|]. cbn [enc_dcf_mcus] in He.
    destruct (enc_dcf_mcu dct mcb Al mem m ldc) as [[bm l']|] eqn:Em; [|discriminate].
    destruct (enc_dcf_mcus dct mcb Al mem t l') as [bt|] eqn:Et; [|discriminate].
    inversion He; subst bits. clear He. cbn [combine] in HF. inversion HF as [|? ? Hc Ht]; subst. cbn [fst snd] in Hc.
    cbn [dec_dcf_mcus]. rewrite <- app_assoc.
    rewrite (dcf_mcu_roundtrip mem m c ldc bm l' _ Hc Em). cbn [length] in Hl.
    rewrite (IH ct l' bt rest ltac:(lia) Ht Et). reflexivity.
Qed.
End DCF.

Theorem dcf_scan_roundtrip dct mcb Al mem ncomp Ri ms cur bytes :
  length cur = length ms ->
  Forall (fun mc => length (snd mc) = length (fst mc)) (combine ms cur) ->
  dcf_enc_scan dct mcb Al mem ncomp Ri ms = Some bytes ->
  dcf_dec_scan dct Al mem ncomp Ri cur bytes =
    Some (map (fun mc => dcf_res Al (fst mc) (snd mc)) (combine ms cur)).
Proof.
  intros Hl HF He. unfold dcf_dec_scan, dcf_enc_scan in *.
  apply (scan_roundtrip _ _ _ (fun seg => enc_dcf_mcus dct mcb Al mem seg (repeat 0 ncomp)) _ (fun m c => length c = length m) (fun m c => dcf_res Al m c)); [|split; assumption|exact He].
  intros ms0 ds bits rest [Hl0 HF0] Hb. apply dcf_mcus_roundtrip with (mcb := mcb); assumption.
Qed.

(* ============================================================ DC refine *)
Definition dcr_block (Al : Z) (b blk : list Z) : list Z :=
  if Z.testbit (nth 0%nat b 0) Al then upd 0 (Z.lor (nth 0%nat blk 0) (Z.shiftl 1 Al)) blk else blk.
Definition dcr_res (Al : Z) (m cur : list (list Z)) : list (list Z) :=
  map (fun bc => dcr_block Al (fst bc) (snd bc)) (combine m cur).

Lemma dcr_mcu_roundtrip Al : forall blocks cur rest, length cur = length blocks ->
  dec_dcr_mcu Al cur (enc_dcr_mcu Al blocks ++ rest) = Some (dcr_res Al blocks cur, rest).
Proof.
  induction blocks as [|b bt IH]; intros cur rest Hl.
  - destruct cur; [|discriminate]. reflexivity.
  - destruct cur as [|c ct]; [discriminate|]. cbn [enc_dcr_mcu map app dec_dcr_mcu].
    fold (enc_dcr_mcu Al bt). cbn [length] in Hl. rewrite (IH ct rest ltac:(lia)).
    unfold dcr_res, dcr_block. cbn [combine map fst snd]. reflexivity.
Qed.

Lemma dcr_mcus_roundtrip Al : forall ms cur rest,
  length cur = length ms ->
  Forall (fun mc => length (snd mc) = length (fst mc)) (combine ms cur) ->
  dec_dcr_mcus Al cur (flat_map (enc_dcr_mcu Al) ms ++ rest) =
    Some (map (fun mc => dcr_res Al (fst mc) (snd mc)) (combine ms cur), rest).
Proof.
  induction ms as [|m t IH]; intros cur rest Hl HF.
  - destruct cur; [|discriminate]. reflexivity.
  - destruct cur as [|c ct]; [discriminate|]. cbn [flat_map]. rewrite <- app_assoc. cbn [dec_dcr_mcus].
    cbn [combine] in HF. inversion HF as [|? ? Hc Ht]; subst. cbn [fst snd] in Hc.
    rewrite (dcr_mcu_roundtrip Al m c _ Hc). cbn [length] in Hl. rewrite (IH ct rest ltac:(lia) Ht). reflexivity.
Qed.

Theorem dcr_scan_roundtrip Al Ri ms cur bytes :
  length cur = length ms ->
  Forall (fun mc => length (snd mc) = length (fst mc)) (combine ms cur) ->
  dcr_enc_scan Al Ri ms = Some bytes ->
  dcr_dec_scan Al Ri cur bytes = Some (map (fun mc => dcr_res Al (fst mc) (snd mc)) (combine ms cur)).
Proof.
  intros Hl HF He. unfold dcr_dec_scan, dcr_enc_scan in *.
  apply (scan_roundtrip _ _ _ (enc_dcr_mcus Al) _ (fun m c => length c = length m) (fun m c => dcr_res Al m c)); [|split; assumption|exact He].
  intros ms0 ds bits rest [Hl0 HF0] Hb. unfold enc_dcr_mcus in Hb. inversion Hb; subst bits.
  apply dcr_mcus_roundtrip; assumption.
Qed.

(* the value chain of the DC coefficient: first scan at Al, then one bit per refinement *)
Lemma testbit_1 n : Z.testbit 1 n = (n =? 0).
Proof. destruct n as [|p|p]; [reflexivity|destruct p; reflexivity|reflexivity]. Qed.

Lemma dc_refine_value v Al : 0 <= Al ->
  Z.lor (Z.shiftl (Z.shiftr v (Al + 1)) (Al + 1)) (if Z.testbit v Al then Z.shiftl 1 Al else 0)
  = Z.shiftl (Z.shiftr v Al) Al.
Proof.
  intros HA. apply Z.bits_inj'. intros n Hn. rewrite Z.lor_spec.
  rewrite !Z.shiftl_spec by lia.
  destruct (Z.ltb_spec n Al) as [H1|H1].
  - rewrite (Z.testbit_neg_r _ (n - (Al + 1))) by lia. rewrite (Z.testbit_neg_r _ (n - Al)) by lia.
    destruct (Z.testbit v Al); [|now rewrite Z.bits_0].
    rewrite Z.shiftl_spec by lia. now rewrite (Z.testbit_neg_r _ (n - Al)) by lia.
  - rewrite (Z.shiftr_spec v Al) by lia. replace (n - Al + Al) with n by lia.
    destruct (Z.eq_dec n Al) as [->|Hne].
    + rewrite (Z.testbit_neg_r _ (Al - (Al + 1))) by lia. cbn [orb].
      destruct (Z.testbit v Al) eqn:E; [|now rewrite Z.bits_0].
      rewrite Z.shiftl_spec by lia. rewrite testbit_1. now rewrite Z.sub_diag.
    + rewrite Z.shiftr_spec by lia. replace (n - (Al + 1) + (Al + 1)) with n by lia.
      destruct (Z.testbit v Al); [|now rewrite Z.bits_0, orb_false_r].
      rewrite Z.shiftl_spec by lia. rewrite testbit_1.
      replace (n - Al =? 0) with false by (symmetry; apply Z.eqb_neq; lia). now rewrite orb_false_r.
Qed.

Lemma dcf_value v : Z.shiftl (pt_dc 0 v) 0 = v.
Proof. unfold pt_dc. now rewrite Z.shiftr_0_r, Z.shiftl_0_r. Qed.

(* the DC value held by the decoder after the first scan at a0 and the refinements
   a0-1 .. a: the arithmetic-shift truncation of the true value to bit plane a *)
Definition dc_state (a v : Z) : Z := Z.shiftl (Z.shiftr v a) a.

Lemma dcr_block_value Al b blk : 0 <= Al -> (0 < length blk)%nat ->
  nth 0%nat blk 0 = dc_state (Al + 1) (nth 0%nat b 0) ->
  nth 0%nat (dcr_block Al b blk) 0 = dc_state Al (nth 0%nat b 0).
Proof.
  intros HA Hl H0. unfold dcr_block, dc_state in *. pose proof (dc_refine_value (nth 0%nat b 0) Al HA) as H.
  destruct (Z.testbit (nth 0%nat b 0) Al).
  - rewrite nth_upd_same by exact Hl. rewrite H0. exact H.
  - rewrite Z.lor_0_r in H. rewrite H0. exact H.
Qed.

Lemma dc_state_0 v : dc_state 0 v = v.
Proof. unfold dc_state. now rewrite Z.shiftr_0_r, Z.shiftl_0_r. Qed.

(* ============================================================= AC first *)
Section ACF.
Variable ac : codec.
Variable mcb : Z.
Hypothesis mcb_le : mcb <= 15.
Variables Ss Se : nat.
Hypothesis HSs : (1 <= Ss)%nat.
Hypothesis HSe : (Ss <= Se)%nat /\ (Se <= 63)%nat.
Variable Al : Z.

(* the stores of decode_mcu_AC_first for the (point-transformed) band values l *)
Fixpoint writesA (l : list Z) (k : nat) (blk : list Z) : list Z :=
  match l with
  | [] => blk
  | v :: t => writesA t (S k) (if v =? 0 then blk else upd (order k) (Z.shiftl v Al) blk)
  end.

Definition acf_res (b blk : list Z) : list Z := writesA (acf_band Ss Se Al b) Ss blk.
Definition acf_res_list (bl cur : list (list Z)) : list (list Z) :=
  map (fun bc => acf_res (fst bc) (snd bc)) (combine bl cur).

Lemma dec_acf_zrls z : c_enc ac 240 = Some z -> forall n fuel kd,
  (kd + 16 * n <= Se)%nat -> (Se + 2 <= fuel + kd)%nat ->
  exists fuel', (Se + 2 <= fuel' + (kd + 16 * n))%nat /\ forall blk more,
    dec_acf_band ac Se Al fuel kd blk (rep_bits n z ++ more) = dec_acf_band ac Se Al fuel' (kd + 16 * n)%nat blk more.
Proof.
  intros Ez. induction n as [|n IHn]; intros fuel kd Hk Hf.
  - exists fuel. split; [lia|]. intros. rewrite Nat.mul_0_r, Nat.add_0_r. reflexivity.
  - destruct fuel as [|f]; [lia|].
    destruct (IHn f (kd + 16)%nat) as [fuel' [Hf' He]]; [lia|lia|].
    exists fuel'. split; [lia|]. intros blk more. cbn [rep_bits]. rewrite <- app_assoc. cbn [dec_acf_band].
    destruct (Se <? kd)%nat eqn:E; [apply Nat.ltb_lt in E; lia|].
    rewrite (c_ok ac 240 z _ Ez). change (240 / 16) with 15. change (240 mod 16) with 0.
    change (0 =? 0) with true. change (15 =? 15) with true. cbv iota.
    rewrite He. f_equal. lia.
Qed.

Lemma acf_band_roundtrip : forall l r kd k blk fuel bits r' rest,
  (k + length l = S Se)%nat -> 0 <= r -> (kd + Z.to_nat r = k)%nat -> (Se + 2 <= fuel + kd)%nat ->
  enc_band ac mcb l r = Some (bits, r') ->
  exists fuel', 0 <= r' /\ (Z.to_nat r' <= S Se)%nat /\ (Se + 2 <= fuel' + (S Se - Z.to_nat r'))%nat /\
    dec_acf_band ac Se Al fuel kd blk (bits ++ rest) =
    dec_acf_band ac Se Al fuel' (S Se - Z.to_nat r')%nat (writesA l k blk) rest.
Proof.
  induction l as [|v t IH]; intros r kd k blk fuel bits r' rest Hk Hr Hkd Hf He.
  - cbn in He. inversion He; subst bits r'. cbn [length] in Hk. exists fuel.
    split; [lia|]. split; [lia|]. split; [lia|]. cbn [app writesA]. f_equal. lia.
  - cbn [enc_band] in He. cbn [length] in Hk. cbn [writesA]. destruct (v =? 0) eqn:Ev.
    + apply (IH (r + 1) kd (S k) blk fuel bits r' rest); try lia. exact He.
    + apply Z.eqb_neq in Ev.
      destruct (nbits (Z.abs v) >? mcb) eqn:Enb; [discriminate|].
      destruct (if r >=? 16 then c_enc ac 240 else Some []) as [z|] eqn:Ez; [|discriminate].
      destruct (c_enc ac (r mod 16 * 16 + nbits (Z.abs v))) as [c|] eqn:Ec; [|discriminate].
      destruct (enc_band ac mcb t 0) as [[rest0 r0]|] eqn:Et; [|discriminate].
      inversion He; subst bits r'. clear He.
      pose proof (nbits_bounds (Z.abs v) ltac:(lia)) as [Hn1 _].
      assert (Hn15 : nbits (Z.abs v) <= 15) by lia.
      set (nb := nbits (Z.abs v)) in *.
      assert (Hzr : exists fuel1, (Se + 2 <= fuel1 + (kd + 16 * Z.to_nat (r / 16)))%nat /\
                 forall more, dec_acf_band ac Se Al fuel kd blk (rep_bits (Z.to_nat (r / 16)) z ++ more)
                              = dec_acf_band ac Se Al fuel1 (kd + 16 * Z.to_nat (r / 16))%nat blk more).
      { destruct (r >=? 16) eqn:E16.
        - apply Z.geb_le in E16.
          assert (Hlt : (kd + 16 * Z.to_nat (r / 16) <= Se)%nat).
          { assert (16 * (r / 16) <= r) by (apply Z.mul_div_le; lia).
            assert (0 <= r / 16) by (apply Z.div_pos; lia). lia. }
          destruct (dec_acf_zrls z Ez (Z.to_nat (r / 16)) fuel kd Hlt Hf) as [fuel1 [H1 H2]].
          exists fuel1. split; [exact H1|]. intros more. apply H2.
        - rewrite Z.geb_leb in E16. apply Z.leb_gt in E16.
          rewrite Z.div_small by lia. exists fuel. split; [cbn; lia|]. intros more. cbn [Z.to_nat rep_bits app].
          f_equal. lia. }
      destruct Hzr as [fuel1 [Hf1 Hzr]].
      rewrite <- !app_assoc. rewrite Hzr.
      assert (Hkk : (kd + 16 * Z.to_nat (r / 16) + Z.to_nat (r mod 16) = k)%nat).
      { pose proof (Z.div_mod r 16 ltac:(lia)). pose proof (Z.mod_pos_bound r 16 ltac:(lia)).
        assert (0 <= r / 16) by (apply Z.div_pos; lia). lia. }
      destruct fuel1 as [|f1]; [lia|]. cbn [dec_acf_band].
      destruct (Se <? kd + 16 * Z.to_nat (r / 16))%nat eqn:E64; [apply Nat.ltb_lt in E64; lia|].
      rewrite (c_ok ac _ c _ Ec).
      pose proof (Z.mod_pos_bound r 16 ltac:(lia)) as Hm.
      replace ((r mod 16 * 16 + nb) / 16) with (r mod 16).
      2:{ apply Z.div_unique with (r := nb); lia. }
      replace ((r mod 16 * 16 + nb) mod 16) with nb.
      2:{ apply Z.mod_unique with (q := r mod 16); lia. }
      destruct (nb =? 0) eqn:En0; [apply Z.eqb_eq in En0; lia|].
      destruct (mag_roundtrip v (rest0 ++ rest) Ev) as [x [Hx Hext]]. fold nb in Hx, Hext.
      rewrite Hx. rewrite Hext. rewrite Hkk.
      destruct (IH 0 (S k) (S k) (upd (order k) (Z.shiftl v Al) blk) f1 rest0 r0 rest) as [fuel' H]; try lia; [exact Et|].
      exists fuel'. exact H.
Qed.

Lemma zero_band : forall l r, forallb (Z.eqb 0) l = true ->
  enc_band ac mcb l r = Some ([], r + Z.of_nat (length l)) /\ forall k blk, writesA l k blk = blk.
Proof.
  induction l as [|v t IH]; intros r H.
  - cbn. split; [f_equal; f_equal; lia|reflexivity].
  - cbn [forallb] in H. apply andb_prop in H. destruct H as [Hv Ht]. apply Z.eqb_eq in Hv. subst v.
    cbn [enc_band writesA]. change (0 =? 0) with true. cbv iota.
    destruct (IH (r + 1) Ht) as [H1 H2]. split; [rewrite H1; f_equal; f_equal; cbn [length]; lia|]. intros. apply H2.
Qed.

Lemma eob_decode e pre fuel k blk rest : 1 <= e <= 32767 -> emit_eobrun ac e [] = Some pre ->
  (k <= Se)%nat -> (1 <= fuel)%nat ->
  dec_acf_band ac Se Al fuel k blk (pre ++ rest) = Some (blk, e - 1, rest).
Proof.
  intros He Hp Hk Hf. unfold emit_eobrun in Hp.
  destruct (e >? 0) eqn:E0; [|rewrite Z.gtb_ltb in E0; apply Z.ltb_ge in E0; lia].
  pose proof (nbits_bounds e ltac:(lia)) as [Hn1 [Hlo Hhi]].
  destruct (nbits e - 1 >? 14) eqn:E14; [discriminate|].
  rewrite Z.gtb_ltb in E14. apply Z.ltb_ge in E14.
  set (nb := nbits e - 1) in *.
  destruct (c_enc ac (nb * 16)) as [c|] eqn:Ec; [|discriminate]. inversion Hp; subst pre. clear Hp.
  destruct fuel as [|f]; [lia|]. cbn [dec_acf_band].
  destruct (Se <? k)%nat eqn:Ek; [apply Nat.ltb_lt in Ek; lia|].
  rewrite <- app_assoc. rewrite (c_ok ac _ c _ Ec).
  rewrite Z.div_mul by lia. rewrite Z.mod_mul by lia. change (0 =? 0) with true. cbv iota.
  destruct (nb =? 15) eqn:E15; [apply Z.eqb_eq in E15; lia|].
  replace (nbits e) with (nb + 1) in * by (unfold nb; lia). replace (nb + 1 - 1) with nb in * by lia.
  destruct (nb =? 0) eqn:En.
  - apply Z.eqb_eq in En. rewrite En in *. cbn in Hlo, Hhi. cbn [Z.to_nat bits_of app].
    f_equal. f_equal. f_equal. lia.
  - apply Z.eqb_neq in En. rewrite app_nil_r. rewrite get_bits_bits_of by lia.
    f_equal. f_equal. f_equal.
    assert (Hp2 : 2 ^ (nb + 1) = 2 * 2 ^ nb) by (rewrite Z.pow_add_r by lia; lia).
    replace (e mod 2 ^ nb) with (e - 2 ^ nb); [lia|].
    apply Z.mod_unique with (q := 1); lia.
Qed.

Lemma dec_acf_skip : forall c1 c2 bs,
  dec_acf_blocks ac Ss Se Al (c1 ++ c2) (Z.of_nat (length c1)) bs =
  match dec_acf_blocks ac Ss Se Al c2 0 bs with
  | Some (bl, bs') => Some (c1 ++ bl, bs')
  | None => None
  end.
Proof.
  induction c1 as [|c c1 IH]; intros c2 bs.
  - cbn [app length Z.of_nat]. destruct (dec_acf_blocks ac Ss Se Al c2 0 bs) as [[? ?]|]; reflexivity.
  - cbn [app length dec_acf_blocks].
    destruct (Z.of_nat (S (length c1)) >? 0) eqn:E; [|rewrite Z.gtb_ltb in E; apply Z.ltb_ge in E; lia].
    replace (Z.of_nat (S (length c1)) - 1) with (Z.of_nat (length c1)) by lia.
    rewrite IH. destruct (dec_acf_blocks ac Ss Se Al c2 0 bs) as [[? ?]|]; reflexivity.
Qed.

Lemma dec_acf_skip' E cur bs : 0 <= E -> (Z.to_nat E <= length cur)%nat ->
  dec_acf_blocks ac Ss Se Al cur E bs =
  match dec_acf_blocks ac Ss Se Al (skipn (Z.to_nat E) cur) 0 bs with
  | Some (bl, bs') => Some (firstn (Z.to_nat E) cur ++ bl, bs')
  | None => None
  end.
Proof.
  intros HE Hl. pose proof (dec_acf_skip (firstn (Z.to_nat E) cur) (skipn (Z.to_nat E) cur) bs) as H.
  rewrite firstn_skipn in H. rewrite firstn_length, Nat.min_l in H by lia. rewrite Z2Nat.id in H by lia. exact H.
Qed.

Lemma acf_band_length b : length (acf_band Ss Se Al b) = (S Se - Ss)%nat.
Proof. unfold acf_band, band_idx. now rewrite map_length, seq_length. Qed.

Definition G0 (bl : list (list Z)) : Prop :=
  forall cur bits rest, length cur = length bl ->
    enc_acf_blocks ac mcb Ss Se Al bl 0 = Some bits ->
    dec_acf_blocks ac Ss Se Al cur 0 (bits ++ rest) = Some (acf_res_list bl cur, rest).

Definition Ge (e : Z) (bl : list (list Z)) : Prop :=
  forall cur bits rest fuel k blk,
    length cur = (Z.to_nat (e - 1) + length bl)%nat -> (k <= Se)%nat -> (Se + 2 <= fuel + k)%nat ->
    enc_acf_blocks ac mcb Ss Se Al bl e = Some bits ->
    exists E1 bs1,
      dec_acf_band ac Se Al fuel k blk (bits ++ rest) = Some (blk, E1, bs1) /\
      dec_acf_blocks ac Ss Se Al cur E1 bs1 =
        Some (firstn (Z.to_nat (e - 1)) cur ++ acf_res_list bl (skipn (Z.to_nat (e - 1)) cur), rest).

Lemma firstn_skipn_succ {A} (d : A) : forall n (l : list A), (n < length l)%nat ->
  firstn (S n) l = firstn n l ++ [nth n l d] /\ skipn n l = nth n l d :: skipn (S n) l.
Proof.
  induction n as [|n IH]; intros l H; destruct l as [|a l]; cbn in H; try lia.
  - split; reflexivity.
  - destruct (IH l ltac:(lia)) as [H1 H2]. split.
    + change (a :: firstn (S n) l = (a :: firstn n l) ++ [nth n l d]). now rewrite H1.
    + change (skipn n l = nth n l d :: skipn (S n) l). exact H2.
Qed.

Lemma acf_blocks_main : forall bl, G0 bl /\ forall e, 1 <= e < 32767 -> Ge e bl.
Proof.
  induction bl as [|b t [IH0 IHe]].
  - split.
    + intros cur bits rest Hl He. destruct cur; [|discriminate]. cbn in He. inversion He; subst. reflexivity.
    + intros e Hrange cur bits rest fuel k blk Hl Hk Hf He. cbn [enc_acf_blocks] in He.
      exists (e - 1), rest. split; [apply eob_decode; auto; lia|].
      cbn [length] in Hl. rewrite Nat.add_0_r in Hl.
      rewrite dec_acf_skip' by lia. rewrite <- Hl. rewrite firstn_all, skipn_all. cbn [dec_acf_blocks]. unfold acf_res_list. cbn [combine map]. reflexivity.
  - (* a block b followed by t *)
    assert (HB : forall e0 c ct bb r rest1 rest,
               enc_band ac mcb (acf_band Ss Se Al b) 0 = Some (bb, r) ->
               length ct = length t ->
               enc_acf_blocks ac mcb Ss Se Al t (if r >? 0 then 1 else 0) = Some rest1 ->
               e0 = 0 ->
               dec_acf_blocks ac Ss Se Al (c :: ct) e0 (bb ++ rest1 ++ rest) =
                 Some (acf_res b c :: acf_res_list t ct, rest)).
    { intros e0 c ct bb r rest1 rest Hb Hlt Ht ->. cbn [dec_acf_blocks]. change (0 >? 0) with false. cbv iota.
      destruct (acf_band_roundtrip (acf_band Ss Se Al b) 0 Ss Ss c 64%nat bb r (rest1 ++ rest)) as [fuel' [Hr0 [Hr1 [Hf' Hd]]]];
        [rewrite acf_band_length; lia|lia|cbn; lia|lia|exact Hb|].
      rewrite Hd. fold (acf_res b c).
      destruct (r >? 0) eqn:Er.
      - apply Z.gtb_lt in Er.
        destruct (IHe 1 ltac:(lia) ct rest1 rest fuel' (S Se - Z.to_nat r)%nat (acf_res b c)) as [E1 [bs1 [H1 H2]]];
          [cbn; lia|lia|lia|exact Ht|].
        rewrite H1. rewrite H2. change (Z.to_nat (1 - 1)) with 0%nat. cbn [firstn skipn app]. reflexivity.
      - rewrite Z.gtb_ltb in Er. apply Z.ltb_ge in Er. assert (r = 0) by lia. subst r.
        cbn [Z.to_nat]. rewrite Nat.sub_0_r. destruct fuel' as [|f]; [lia|]. cbn [dec_acf_band].
        replace (Se <? S Se)%nat with true by (symmetry; apply Nat.ltb_lt; lia).
        rewrite (IH0 ct rest1 rest Hlt Ht). reflexivity. }
    split.
    + (* EOBRUN = 0 at the block boundary *)
      intros cur bits rest Hl He. destruct cur as [|c ct]; [discriminate|]. cbn [length] in Hl.
      cbn [enc_acf_blocks] in He. unfold enc_acf_block in He.
      destruct (forallb (Z.eqb 0) (acf_band Ss Se Al b)) eqn:Ez; cbn [negb] in He.
      * destruct (zero_band _ 0 Ez) as [Hzb Hzw]. rewrite Hzb in He. rewrite acf_band_length in He.
        destruct (0 + Z.of_nat (S Se - Ss) >? 0) eqn:Er; [|rewrite Z.gtb_ltb in Er; apply Z.ltb_ge in Er; lia].
        change (0 + 1 =? EOBRUN_FLUSH) with false in He. cbv iota in He. cbn [app] in He.
        destruct (enc_acf_blocks ac mcb Ss Se Al t (0 + 1)) as [rest1|] eqn:Et; [|discriminate].
        inversion He; subst bits. clear He. cbn [app dec_acf_blocks]. change (0 >? 0) with false. cbv iota.
        destruct (IHe 1 ltac:(lia) ct rest1 rest 64%nat Ss c) as [E1 [bs1 [H1 H2]]]; [cbn; lia|lia|lia|exact Et|].
        rewrite H1, H2. change (Z.to_nat (1 - 1)) with 0%nat. cbn [firstn skipn app]. unfold acf_res_list. cbn [combine map fst snd].
        replace (acf_res b c) with c by (symmetry; apply Hzw). reflexivity.
      * change (emit_eobrun ac 0 []) with (Some (@nil bool)) in He.
        destruct (enc_band ac mcb (acf_band Ss Se Al b) 0) as [[bb r]|] eqn:Eb; [|discriminate].
        assert (Hst : exists bits0, (if r >? 0 then Some ([] ++ bb, 1) else Some ([] ++ bb, 0)) = Some (bits0, if r >? 0 then 1 else 0) /\ bits0 = bb)
          by (destruct (r >? 0); eexists; split; reflexivity).
        assert (He' : match (if r >? 0 then Some (bb, 1) else Some (bb, 0)) with
                      | Some (bits0, e') => match enc_acf_blocks ac mcb Ss Se Al t e' with
                                            | Some rest0 => Some (bits0 ++ rest0) | None => None end
                      | None => None end = Some bits).
        { destruct (r >? 0) eqn:Er; cbn [app] in He.
          - change (0 + 1 =? EOBRUN_FLUSH) with false in He. exact He.
          - exact He. }
        clear He Hst.
        destruct (enc_acf_blocks ac mcb Ss Se Al t (if r >? 0 then 1 else 0)) as [rest1|] eqn:Et.
        2:{ destruct (r >? 0); rewrite Et in He'; discriminate. }
        assert (bits = bb ++ rest1) by (destruct (r >? 0); rewrite Et in He'; inversion He'; reflexivity).
        subst bits. rewrite <- app_assoc.
        rewrite (HB 0 c ct bb r rest1 rest eq_refl ltac:(lia) Et eq_refl).
        unfold acf_res_list. reflexivity.
    + (* pending EOBRUN e >= 1, decoder inside a block *)
      intros e Hrange cur bits rest fuel k blk Hl Hk Hf He. cbn [length] in Hl.
      cbn [enc_acf_blocks] in He. unfold enc_acf_block in He.
      assert (Hn : (Z.to_nat (e - 1) < length cur)%nat) by lia.
      destruct (firstn_skipn_succ [] (Z.to_nat (e - 1)) cur Hn) as [Hfs Hsk].
      set (c := nth (Z.to_nat (e - 1)) cur []) in *.
      replace (S (Z.to_nat (e - 1))) with (Z.to_nat (e + 1 - 1)) in * by lia.
      destruct (forallb (Z.eqb 0) (acf_band Ss Se Al b)) eqn:Ez; cbn [negb] in He.
      * destruct (zero_band _ 0 Ez) as [Hzb Hzw]. rewrite Hzb in He. rewrite acf_band_length in He.
        destruct (0 + Z.of_nat (S Se - Ss) >? 0) eqn:Er; [|rewrite Z.gtb_ltb in Er; apply Z.ltb_ge in Er; lia].
        assert (Hres : acf_res b c = c) by (unfold acf_res; apply Hzw).
        destruct (e + 1 =? EOBRUN_FLUSH) eqn:Efl.
        -- (* forced flush at 0x7FFF *)
           apply Z.eqb_eq in Efl. unfold EOBRUN_FLUSH in Efl.
           destruct (emit_eobrun ac (e + 1) []) as [fl|] eqn:Efl2; [|discriminate]. cbn [app] in He.
           destruct (enc_acf_blocks ac mcb Ss Se Al t 0) as [rest1|] eqn:Et; [|discriminate].
           inversion He; subst bits. clear He. rewrite <- app_assoc.
           exists (e + 1 - 1), (rest1 ++ rest). split; [apply eob_decode; auto; lia|].
           rewrite dec_acf_skip' by lia.
           rewrite (IH0 (skipn (Z.to_nat (e + 1 - 1)) cur) rest1 rest); [|rewrite skipn_length; lia|exact Et].
           rewrite Hfs, Hsk. unfold acf_res_list at 2. cbn [combine map fst snd]. rewrite Hres.
           rewrite <- app_assoc. reflexivity.
        -- apply Z.eqb_neq in Efl. unfold EOBRUN_FLUSH in Efl. cbn [app] in He.
           destruct (enc_acf_blocks ac mcb Ss Se Al t (e + 1)) as [rest1|] eqn:Et; [|discriminate].
           inversion He; subst bits. clear He. cbn [app].
           destruct (IHe (e + 1) ltac:(lia) cur rest1 rest fuel k blk) as [E1 [bs1 [H1 H2]]]; [lia|lia|lia|exact Et|].
           exists E1, bs1. split; [exact H1|]. rewrite H2. rewrite Hfs, Hsk.
           unfold acf_res_list at 2. cbn [combine map fst snd]. rewrite Hres. rewrite <- app_assoc. reflexivity.
      * destruct (emit_eobrun ac e []) as [pre|] eqn:Epre; [|discriminate].
        destruct (enc_band ac mcb (acf_band Ss Se Al b) 0) as [[bb r]|] eqn:Eb; [|discriminate].
        assert (He' : match (if r >? 0 then Some (pre ++ bb, 1) else Some (pre ++ bb, 0)) with
                      | Some (bits0, e') => match enc_acf_blocks ac mcb Ss Se Al t e' with
                                            | Some rest0 => Some (bits0 ++ rest0) | None => None end
                      | None => None end = Some bits).
        { destruct (r >? 0) eqn:Er.
          - change (0 + 1 =? EOBRUN_FLUSH) with false in He. exact He.
          - exact He. }
        clear He.
        destruct (enc_acf_blocks ac mcb Ss Se Al t (if r >? 0 then 1 else 0)) as [rest1|] eqn:Et.
        2:{ destruct (r >? 0); rewrite Et in He'; discriminate. }
        assert (bits = (pre ++ bb) ++ rest1) by (destruct (r >? 0); rewrite Et in He'; inversion He'; reflexivity).
        subst bits. rewrite <- !app_assoc.
        exists (e - 1), (bb ++ rest1 ++ rest). split; [apply eob_decode; auto; lia|].
        rewrite dec_acf_skip' by lia. rewrite Hsk.
        rewrite (HB 0 c (skipn (Z.to_nat (e + 1 - 1)) cur) bb r rest1 rest eq_refl); [|rewrite skipn_length; lia|exact Et|reflexivity].
        unfold acf_res_list. cbn [combine map fst snd]. reflexivity.
Qed.

Theorem acf_blocks_roundtrip bl cur bits rest : length cur = length bl ->
  enc_acf_blocks ac mcb Ss Se Al bl 0 = Some bits ->
  dec_acf_blocks ac Ss Se Al cur 0 (bits ++ rest) = Some (acf_res_list bl cur, rest).
Proof. intros. now apply (proj1 (acf_blocks_main bl)). Qed.
End ACF.

Theorem acf_scan_roundtrip ac mcb Ss Se Al Ri bl cur bytes :
  mcb <= 15 -> (1 <= Ss)%nat -> (Ss <= Se)%nat /\ (Se <= 63)%nat -> length cur = length bl ->
  acf_enc_scan ac mcb Ss Se Al Ri bl = Some bytes ->
  acf_dec_scan ac Ss Se Al Ri cur bytes = Some (acf_res_list Ss Se Al bl cur).
Proof.
  intros Hm H1 H2 Hl He. unfold acf_dec_scan, acf_enc_scan in *.
  apply (scan_roundtrip _ _ _ (fun seg => enc_acf_blocks ac mcb Ss Se Al seg 0) _ (fun _ _ => True) (fun b c => acf_res Ss Se Al b c));
    [|split; [exact Hl|]|exact He].
  - intros ms0 ds bits rest [Hl0 _] Hb. apply acf_blocks_roundtrip with (mcb := mcb); assumption.
  - clear. generalize cur. induction bl as [|b t IH]; intros [|c ct]; cbn; constructor; auto.
Qed.

(* what AC-first leaves in the block: band positions get the magnitude-truncated
   value, everything else is untouched *)
Definition ac_state (a v : Z) : Z := Z.shiftl (pt_ac a v) a.

Lemma acf_res_spec Ss Se Al b blk : (Ss <= Se)%nat -> (Se <= 63)%nat -> length blk = 64%nat ->
  (forall j, (Ss <= j <= Se)%nat -> nth (order j) blk 0 = 0) ->
  length (acf_res Ss Se Al b blk) = 64%nat /\
  forall j, (j < 64)%nat -> nth (order j) (acf_res Ss Se Al b blk) 0 =
    if ((Ss <=? j) && (j <=? Se))%nat then ac_state Al (nth (order j) b 0) else nth (order j) blk 0.
Proof.
  intros H1 H2 Hl Hz. unfold acf_res, acf_band, band_idx.
  assert (G : forall n k blk', (k + n = S Se)%nat -> (Ss <= k)%nat -> length blk' = 64%nat ->
     (forall j, (j < 64)%nat -> nth (order j) blk' 0 =
        if ((Ss <=? j) && (j <? k))%nat then ac_state Al (nth (order j) b 0) else nth (order j) blk 0) ->
     let r := writesA Al (map (fun k0 => pt_ac Al (nth (order k0) b 0)) (seq k n)) k blk' in
     length r = 64%nat /\ forall j, (j < 64)%nat -> nth (order j) r 0 =
        if ((Ss <=? j) && (j <=? Se))%nat then ac_state Al (nth (order j) b 0) else nth (order j) blk 0).
  { induction n as [|n IH]; intros k blk' Hk Hs Hl' Hinv; cbn [seq map writesA].
    - split; [exact Hl'|]. intros j Hj. rewrite (Hinv j Hj). replace k with (S Se) by lia.
      destruct (Ss <=? j)%nat; cbn [andb]; [|reflexivity].
      destruct (j <? S Se)%nat eqn:E1, (j <=? Se)%nat eqn:E2; try reflexivity;
        [apply Nat.ltb_lt in E1; apply Nat.leb_gt in E2; lia|apply Nat.ltb_ge in E1; apply Nat.leb_le in E2; lia].
    - apply IH; [lia|lia| |].
      + destruct (pt_ac Al (nth (order k) b 0) =? 0); [exact Hl'|now rewrite upd_length].
      + intros j Hj. destruct (Nat.eq_dec j k) as [->|Hne].
        * replace ((Ss <=? k) && (k <? S k))%nat with true.
          2:{ symmetry. apply andb_true_intro. split; [apply Nat.leb_le; lia|apply Nat.ltb_lt; lia]. }
          destruct (pt_ac Al (nth (order k) b 0) =? 0) eqn:Ev.
          -- apply Z.eqb_eq in Ev. unfold ac_state. rewrite Ev, Z.shiftl_0_l.
             rewrite (Hinv k Hj). replace (k <? k)%nat with false by (symmetry; apply Nat.ltb_irrefl).
             rewrite andb_false_r. apply Hz. lia.
          -- rewrite nth_upd_same by (rewrite Hl'; apply order_lt). reflexivity.
        * assert (Hsame : nth (order j) (if pt_ac Al (nth (order k) b 0) =? 0 then blk'
                                         else upd (order k) (Z.shiftl (pt_ac Al (nth (order k) b 0)) Al) blk') 0
                          = nth (order j) blk' 0).
          { destruct (pt_ac Al (nth (order k) b 0) =? 0); [reflexivity|].
            apply nth_upd_other. intros Heq. apply Hne. symmetry. apply order_inj; auto; lia. }
          rewrite Hsame, (Hinv j Hj). destruct (Ss <=? j)%nat; cbn [andb]; [|reflexivity].
          destruct (j <? k)%nat eqn:E1, (j <? S k)%nat eqn:E2; try reflexivity;
            [apply Nat.ltb_lt in E1; apply Nat.ltb_ge in E2; lia|apply Nat.ltb_ge in E1; apply Nat.ltb_lt in E2; lia]. }
  apply G; [lia|lia|exact Hl|].
  intros j Hj. replace (j <? Ss)%nat with (negb (Ss <=? j)%nat).
  2:{ destruct (Ss <=? j)%nat eqn:E1, (j <? Ss)%nat eqn:E2; try reflexivity;
      [apply Nat.leb_le in E1; apply Nat.ltb_lt in E2; lia|apply Nat.leb_gt in E1; apply Nat.ltb_ge in E2; lia]. }
  now destruct (Ss <=? j)%nat.
Qed.

Lemma ac_state_0 v : ac_state 0 v = v.
Proof.
  unfold ac_state, pt_ac. rewrite Z.shiftl_0_r. destruct (v <? 0); rewrite Z.shiftr_0_r; lia.
Qed.

(* ============================================================ AC refine *)
(* History relation and expected result of an AC refinement scan at Al: before the scan
   the band holds the magnitude-truncation at Al+1, afterwards at Al. *)
Definition in_band (Ss Se : nat) (j : nat) : bool := ((Ss <=? j) && (j <=? Se))%nat.
Definition acr_hist (Ss Se : nat) (Al : Z) (b blk : list Z) : Prop :=
  length b = 64%nat /\ length blk = 64%nat /\
  forall j, in_band Ss Se j = true -> nth (order j) blk 0 = ac_state (Al + 1) (nth (order j) b 0).
Definition acr_expected (Ss Se : nat) (Al : Z) (b blk : list Z) : list Z :=
  map (fun i => if in_band Ss Se (nth i inv_order 0%nat) then ac_state Al (nth i b 0) else nth i blk 0) (seq 0 64).

(* one restart interval of AC refinement (incl. EOBRUN with buffered correction bits, ZRL
   folding, the flush at 0x7FFF / MAX_CORR_BITS) *)
Definition acr_segment_roundtrip (ac : codec) (Ss Se : nat) (Al : Z) : Prop :=
  forall bl cur bits rest, length cur = length bl ->
    Forall (fun bc => acr_hist Ss Se Al (fst bc) (snd bc)) (combine bl cur) ->
    enc_acr_blocks ac Ss Se Al bl 0 [] = Some bits ->
    dec_acr_blocks ac Ss Se Al cur 0 (bits ++ rest) =
      Some (map (fun bc => acr_expected Ss Se Al (fst bc) (snd bc)) (combine bl cur), rest).

(* the restart/byte layer on top of it holds for every restart interval *)
Theorem acr_scan_roundtrip_from_segment ac Ss Se Al Ri bl cur bytes :
  acr_segment_roundtrip ac Ss Se Al ->
  length cur = length bl ->
  Forall (fun bc => acr_hist Ss Se Al (fst bc) (snd bc)) (combine bl cur) ->
  acr_enc_scan ac Ss Se Al Ri bl = Some bytes ->
  acr_dec_scan ac Ss Se Al Ri cur bytes =
    Some (map (fun bc => acr_expected Ss Se Al (fst bc) (snd bc)) (combine bl cur)).
Proof.
  intros Hseg Hl HF He. unfold acr_dec_scan, acr_enc_scan in *.
  apply (scan_roundtrip _ _ _ (fun seg => enc_acr_blocks ac Ss Se Al seg 0 []) _
           (fun b c => acr_hist Ss Se Al b c) (fun b c => acr_expected Ss Se Al b c));
    [|split; assumption|exact He].
  intros ms0 ds bits rest [Hl0 HF0] Hb. now apply Hseg.
Qed.
