(* C11 -- planar YUV entry points: every plane access is one row [r*stride, r*stride+pw)
   with 0 <= r < ph, hence inside [0, stride*(ph-1)+pw) = tj3YUVPlaneSize. *)
From Coq Require Import List ZArith Lia Bool ZifyBool.
From LJT Require Import lib.Sweep model.Extent gen.GenAlign gen.GenTail proofs.ExtentProofs.
Import ListNotations.
Local Open Scope Z_scope.
Ltac Zify.zify_post_hook ::= Z.div_mod_to_equations.

Lemma row_span_In k comp stride pw crow cnt a :
  In a (row_span k comp stride pw crow cnt) ->
  exists r, crow <= r < crow + Z.of_nat cnt /\ a = plane_row k comp stride pw r.
Proof.
  revert crow. induction cnt as [|c IH]; intros crow; cbn [row_span In]; [tauto|].
  intros [<- | H].
  - exists crow. split; [lia | reflexivity].
  - destruct (IH _ H) as (r & Hr & ->). exists r. split; [lia | reflexivity].
Qed.

Lemma row_span_complete k comp stride pw crow cnt r :
  crow <= r < crow + Z.of_nat cnt -> In (plane_row k comp stride pw r) (row_span k comp stride pw crow cnt).
Proof.
  revert crow. induction cnt as [|c IH]; intros crow Hr; cbn [row_span In]; [lia|].
  destruct (Z.eq_dec crow r) as [->|Hne]; [left; reflexivity | right; apply IH; lia].
Qed.

(* the MIN(th, ph - crow) bound keeps the copy loop inside the plane, whatever th, step,
   v, maxv and the number of outer iterations are *)
Lemma tmp_copy_loop_In k comp stride pw ph th v maxv step row iters a :
  0 <= row -> 0 <= step -> 0 <= v -> 0 < maxv ->
  In a (tmp_copy_loop k comp stride pw ph th v maxv step row iters) ->
  exists r, 0 <= r < ph /\ a = plane_row k comp stride pw r.
Proof.
  intros Hrow Hstep Hv Hm. revert row Hrow. induction iters as [|it IH]; intros row Hrow; cbn [tmp_copy_loop]; [intros []|].
  rewrite in_app_iff. intros [H | H].
  - apply row_span_In in H. destruct H as (r & Hr & ->). exists r. split; [|reflexivity].
    assert (0 <= row * v / maxv) by (apply Z.div_pos; nia). lia.
  - apply (IH (row + step)); [lia | exact H].
Qed.

Lemma enc_copy_loop_In k comp stride pw v maxv m iters a :
  0 <= m -> 0 <= v -> 0 < maxv ->
  In a (enc_copy_loop k comp stride pw v maxv (m * maxv) iters) ->
  exists r, m * v <= r < (m + Z.of_nat iters) * v /\ a = plane_row k comp stride pw r.
Proof.
  intros Hm Hv Hmx. revert m Hm. induction iters as [|it IH]; intros m Hm; cbn [enc_copy_loop]; [intros []|].
  rewrite in_app_iff. intros [H | H].
  - apply row_span_In in H. destruct H as (r & Hr & ->). exists r. split; [|reflexivity].
    replace (m * maxv * v / maxv) with (m * v) in Hr by (rewrite <- Z.mul_assoc, (Z.mul_comm maxv v), Z.mul_assoc, Z.div_mul by lia; reflexivity).
    nia.
  - replace (m * maxv + maxv) with ((m + 1) * maxv) in H by lia.
    destruct (IH (m + 1)) as (r & Hr & ->); [lia | exact H |]. exists r. split; [nia | reflexivity].
Qed.

(* every plane row is produced (used for the "exactly equal" direction of the run-time tie) *)
Lemma enc_copy_loop_complete k comp stride pw v maxv m iters r :
  0 <= m -> 0 <= v -> 0 < maxv -> m * v <= r < (m + Z.of_nat iters) * v ->
  In (plane_row k comp stride pw r) (enc_copy_loop k comp stride pw v maxv (m * maxv) iters).
Proof.
  intros Hm Hv Hmx. revert m Hm. induction iters as [|it IH]; intros m Hm Hr; cbn [enc_copy_loop]; [lia|].
  rewrite in_app_iff. destruct (Z_lt_dec r ((m + 1) * v)) as [Hlt|Hge].
  - left. apply row_span_complete.
    replace (m * maxv * v / maxv) with (m * v) by (rewrite <- Z.mul_assoc, (Z.mul_comm maxv v), Z.mul_assoc, Z.div_mul by lia; reflexivity).
    nia.
  - right. replace (m * maxv + maxv) with ((m + 1) * maxv) by lia. apply IH; [lia | nia].
Qed.

Definition ss_valid (ss comp : Z) : Prop := 0 <= ss <= 6 /\ 0 <= comp < ncomp ss.

Lemma samp_cases ss : 0 <= ss <= 6 ->
  (samp_h ss = 1 \/ samp_h ss = 2 \/ samp_h ss = 4) /\ (samp_v ss = 1 \/ samp_v ss = 2 \/ samp_v ss = 4).
Proof.
  intros H. assert (ss = 0 \/ ss = 1 \/ ss = 2 \/ ss = 3 \/ ss = 4 \/ ss = 5 \/ ss = 6) as C by lia.
  destruct C as [->|[->|[->|[->|[->|[->| ->]]]]]]; cbn; lia.
Qed.

(* the model's sampling factors are the tables of turbojpeg.h *)
Lemma samp_tables : forall ss, 0 <= ss < 7 ->
  nth (Z.to_nat ss) tj_mcu_width 0 = 8 * samp_h ss /\ nth (Z.to_nat ss) tj_mcu_height 0 = 8 * samp_v ss.
Proof.
  intros ss H. assert (ss = 0 \/ ss = 1 \/ ss = 2 \/ ss = 3 \/ ss = 4 \/ ss = 5 \/ ss = 6) as C by lia.
  destruct C as [->|[->|[->|[->|[->|[->| ->]]]]]]; vm_compute; split; reflexivity.
Qed.

Lemma PAD_cases a b : 0 <= a -> (b = 1 \/ b = 2 \/ b = 4) ->
  a <= PAD a b < a + b /\ PAD a b mod b = 0.
Proof.
  intros Ha [->|[->| ->]]; unfold PAD; rewrite ?round_up_1, ?round_up_2, ?round_up_4; lia.
Qed.

Lemma plane_dims comp width height ss : 1 <= width -> 1 <= height -> ss_valid ss comp ->
  1 <= plane_w comp width ss /\ 1 <= plane_h comp height ss /\
  plane_w comp width ss = PAD width (samp_h ss) * comp_h comp ss / samp_h ss /\
  plane_h comp height ss = PAD height (samp_v ss) / samp_v ss * comp_v comp ss.
Proof.
  intros Hw Hh [Hss Hc]. destruct (samp_cases ss Hss) as [Hsh Hsv].
  pose proof (PAD_cases width (samp_h ss) ltac:(lia) Hsh) as [Pw Pwm].
  pose proof (PAD_cases height (samp_v ss) ltac:(lia) Hsv) as [Ph Phm].
  unfold plane_w, plane_h, comp_h, comp_v. destruct (comp =? 0) eqn:E.
  - repeat split; lia.
  - rewrite !(Z.mul_comm _ 8), !Z.div_mul_cancel_l by lia. rewrite !Z.mul_1_r.
    repeat split; try reflexivity.
    + destruct Hsh as [H|[H|H]]; rewrite H in *; lia.
    + destruct Hsv as [H|[H|H]]; rewrite H in *; lia.
Qed.

Definition in_plane (comp pw ph stride : Z) (k : rw) (a : access) : Prop :=
  a_buf a = comp /\ a_rw a = k /\ a_len a = pw /\ exists r, 0 <= r < ph /\ a_off a = r * stride.

Lemma in_plane_bounds comp pw ph stride k a : 0 <= pw <= stride -> in_plane comp pw ph stride k a ->
  0 <= a_off a /\ a_off a + a_len a <= stride * (ph - 1) + pw /\ a_off a mod (Z.max stride 1) < Z.max pw 1.
Proof.
  intros Hs (_ & _ & Hl & r & Hr & Ho). rewrite Ho, Hl. split; [nia|]. split; [nia|].
  destruct (Z.eq_dec stride 0) as [->|Hne].
  - rewrite Z.mul_0_r. cbn. lia.
  - replace (Z.max stride 1) with stride by lia. rewrite Z.mod_mul by lia. lia.
Qed.

Definition stride_valid (stride pw : Z) : Prop := stride = 0 \/ pw <= stride.
Lemma eff_stride_ge stride pw : stride_valid stride pw -> pw <= eff_stride stride pw.
Proof. unfold stride_valid, eff_stride. intros [->|H]; [reflexivity|]. destruct (stride =? 0); lia. Qed.

Theorem rawdata_plane_extent k comp width height ss stride dct a :
  1 <= width -> 1 <= height -> ss_valid ss comp -> 0 <= dct ->
  In a (rawdata_plane k comp width height ss stride dct) ->
  in_plane comp (plane_w comp width ss) (plane_h comp height ss) (eff_stride stride (plane_w comp width ss)) k a.
Proof.
  intros Hw Hh Hv Hd Ha. unfold rawdata_plane in Ha.
  destruct Hv as [Hss Hc]. destruct (samp_cases ss Hss) as [_ Hsv].
  apply tmp_copy_loop_In in Ha; try lia.
  - destruct Ha as (r & Hr & ->). unfold in_plane, plane_row. cbn [a_buf a_rw a_len a_off].
    repeat split. exists r. split; [exact Hr | reflexivity].
  - unfold comp_v. destruct (comp =? 0); lia.
Qed.

Theorem encdec_plane_extent k comp width height ss stride a :
  1 <= width -> 1 <= height -> ss_valid ss comp ->
  In a (encdec_plane k comp width height ss stride) ->
  in_plane comp (plane_w comp width ss) (plane_h comp height ss) (eff_stride stride (plane_w comp width ss)) k a.
Proof.
  intros Hw Hh Hv Ha. unfold encdec_plane in Ha.
  destruct (plane_dims comp width height ss Hw Hh Hv) as (_ & _ & Epw & Eph).
  destruct Hv as [Hss Hc]. destruct (samp_cases ss Hss) as [Hsh Hsv].
  rewrite <- Epw in Ha.
  change 0 with (0 * samp_v ss) in Ha at 1.
  apply enc_copy_loop_In in Ha; try lia.
  - destruct Ha as (r & Hr & ->). unfold in_plane, plane_row. cbn [a_buf a_rw a_len a_off].
    repeat split. exists r. split; [|reflexivity].
    rewrite Eph. rewrite Z2Nat.id in Hr; [lia|].
    pose proof (PAD_cases height (samp_v ss) ltac:(lia) Hsv). apply Z.div_pos; lia.
  - unfold comp_v. destruct (comp =? 0); lia.
Qed.

(* every row of the plane is written by tj3EncodeYUVPlanes8 / read by tj3DecodeYUVPlanes8 *)
Theorem encdec_plane_complete k comp width height ss stride r :
  1 <= width -> 1 <= height -> ss_valid ss comp -> 0 <= r < plane_h comp height ss ->
  In (plane_row k comp (eff_stride stride (plane_w comp width ss)) (plane_w comp width ss) r)
     (encdec_plane k comp width height ss stride).
Proof.
  intros Hw Hh Hv Hr. unfold encdec_plane.
  destruct (plane_dims comp width height ss Hw Hh Hv) as (_ & _ & Epw & Eph).
  destruct Hv as [Hss Hc]. destruct (samp_cases ss Hss) as [Hsh Hsv].
  rewrite <- Epw. change 0 with (0 * samp_v ss) at 1.
  pose proof (PAD_cases height (samp_v ss) ltac:(lia) Hsv).
  apply enc_copy_loop_complete; try lia.
  unfold comp_v. destruct (comp =? 0); lia.
Qed.

(* the statement of the property for planes *)
Theorem yuv_extent_thm k comp width height ss stride a :
  1 <= width -> 1 <= height -> ss_valid ss comp -> stride_valid stride (plane_w comp width ss) ->
  (In a (encdec_plane k comp width height ss stride) \/
   exists dct, 0 <= dct /\ In a (rawdata_plane k comp width height ss stride dct)) ->
  let pw := plane_w comp width ss in let ph := plane_h comp height ss in
  let st := eff_stride stride pw in
  a_buf a = comp /\ a_rw a = k /\ a_len a = pw /\
  (exists r, 0 <= r < ph /\ a_off a = r * st) /\
  0 <= a_off a /\ a_off a + a_len a <= st * (ph - 1) + pw /\
  st * (ph - 1) + pw = plane_size comp width stride height ss.
Proof.
  intros Hw Hh Hv Hs Ha. cbv zeta.
  destruct (plane_dims comp width height ss Hw Hh Hv) as (Hpw & Hph & _ & _).
  assert (Hin : in_plane comp (plane_w comp width ss) (plane_h comp height ss)
                  (eff_stride stride (plane_w comp width ss)) k a).
  { destruct Ha as [Ha | (dct & Hd & Ha)].
    - apply encdec_plane_extent; assumption.
    - eapply rawdata_plane_extent; eassumption. }
  pose proof (eff_stride_ge _ _ Hs) as Hge.
  assert (Hrange : 0 <= plane_w comp width ss <= eff_stride stride (plane_w comp width ss)) by lia.
  destruct (in_plane_bounds _ _ _ _ _ _ Hrange Hin) as (B0 & B1 & _).
  destruct Hin as (Hb & Hk & Hl & Hr).
  repeat split; try assumption.
  unfold plane_size, eff_stride, stride_valid in *.
  destruct Hs as [->|Hs]; cbn [Z.abs Z.eqb]; [reflexivity|].
  replace (Z.abs stride) with stride by lia. reflexivity.
Qed.

(* unified buffers: planes follow each other without overlap and end at tj3YUVBufSize *)
Theorem yuv_unified_layout width height ss align :
  1 <= width -> 1 <= height -> 0 <= ss <= 6 -> (align = 1 \/ align = 2 \/ align = 4 \/ align = 32 \/ align = 64) ->
  forall comp, 0 <= comp < ncomp ss ->
  let st c := PAD (plane_w c width ss) align in
  plane_w comp width ss <= st comp /\
  0 <= unified_off comp width height ss align /\
  unified_off comp width height ss align + st comp * plane_h comp height ss <= yuv_buf_size width align height ss /\
  (0 < comp -> unified_off (comp - 1) width height ss align + st (comp - 1) * plane_h (comp - 1) height ss
               = unified_off comp width height ss align).
Proof.
  intros Hw Hh Hss Hal comp Hc st.
  assert (Hpad : forall m, 0 <= m -> m <= PAD m align).
  { intros m Hm. unfold PAD. destruct Hal as [->|[->|[->|[->| ->]]]];
    rewrite ?round_up_1, ?round_up_2, ?round_up_4, ?round_up_32, ?round_up_64; lia. }
  assert (Hd : forall c, 0 <= c < ncomp ss -> 1 <= plane_w c width ss /\ 1 <= plane_h c height ss).
  { intros c Hcc. destruct (plane_dims c width height ss Hw Hh (conj Hss Hcc)) as (A & B & _). split; assumption. }
  assert (Hn : ncomp ss = 1 \/ ncomp ss = 3) by (unfold ncomp; destruct (ss =? 3); lia).
  unfold yuv_buf_size, unified_off, st.
  destruct Hn as [Hn | Hn]; rewrite Hn in *.
  - assert (comp = 0) as -> by lia. change (Z.to_nat 1) with 1%nat. cbn [comps_from map fold_right Z.eqb].
    destruct (Hd 0 ltac:(lia)) as [A B]. pose proof (Hpad (plane_w 0 width ss) ltac:(lia)). nia.
  - change (Z.to_nat 3) with 3%nat. cbn [comps_from map fold_right].
    destruct (Hd 0 ltac:(lia)) as [A0 B0]. destruct (Hd 1 ltac:(lia)) as [A1 B1]. destruct (Hd 2 ltac:(lia)) as [A2 B2].
    pose proof (Hpad (plane_w 0 width ss) ltac:(lia)) as P0.
    pose proof (Hpad (plane_w 1 width ss) ltac:(lia)) as P1.
    pose proof (Hpad (plane_w 2 width ss) ltac:(lia)) as P2.
    change (0 + 1) with 1. change (1 + 1) with 2.
    assert (E2w : plane_w 2 width ss = plane_w 1 width ss) by reflexivity.
    assert (E2h : plane_h 2 height ss = plane_h 1 height ss) by reflexivity.
    assert (comp = 0 \/ comp = 1 \/ comp = 2) as [->|[->| ->]] by lia.
    + cbn [Z.eqb]. repeat split; try lia; nia.
    + change (1 =? 0) with false. change (1 =? 1) with true. change (1 - 1) with 0. cbn [Z.eqb].
      repeat split; try lia; nia.
    + change (2 =? 0) with false. change (2 =? 1) with false. change (2 - 1) with 1.
      change (1 =? 0) with false. change (1 =? 1) with true. cbv iota.
      repeat split; try lia; nia.
Qed.
