(* Annex H: the lossless decoder of the model (prediction from the reconstructed neighbours,
   H.1.2.1 start / restart rule, DIFF modulo 2^16 with SSSS 0..16, 1-bit padding per restart
   interval) inverts the lossless writer, for abstract prefix codes, any predictor, point
   transform, scan order and restart interval; and the segment walker of the decoder
   reproduces the writer's states. *)
From Coq Require Import List ZArith Bool Lia Arith FMapPositive.
From LJT Require Import model.T81Spec proofs.T81BlockProofs proofs.T81ScanProofs proofs.T81HuffProofs proofs.T81WriterProofs.
Import ListNotations.
Local Open Scope Z_scope.
Ltac Zify.zify_post_hook ::= Z.div_mod_to_equations.

Lemma category_bound : forall d, -32767 <= d <= 32767 -> 0 <= category d <= 15.
Proof.
  intros d H. pose proof (category_nonneg d). split; [assumption|].
  destruct (Z_lt_ge_dec 15 (category d)) as [L|G]; [|lia]. exfalso.
  destruct (Z.eq_dec d 0) as [->|Hd]; [cbn in L; lia|].
  destruct (Z_lt_ge_dec d 0) as [Hn|Hp].
  - destruct (category_neg d Hn) as (A & B & C).
    assert (2 ^ 15 <= 2 ^ (category d - 1)) by (apply Z.pow_le_mono_r; lia). change (2 ^ 15) with 32768 in *. lia.
  - destruct (category_pos d ltac:(lia)) as (A & B & C).
    assert (2 ^ 15 <= 2 ^ (category d - 1)) by (apply Z.pow_le_mono_r; lia). change (2 ^ 15) with 32768 in *. lia.
Qed.

Lemma ldiff_range : forall s px, -32767 <= ldiff s px <= 32768.
Proof.
  intros. unfold ldiff. pose proof (Z.mod_pos_bound (s - px) 65536 ltac:(lia)).
  destruct ((s - px) mod 65536 >? 32768) eqn:E; [apply Z.gtb_lt in E|rewrite Z.gtb_ltb in E; apply Z.ltb_ge in E]; lia.
Qed.

Lemma ldiff_inv : forall s px, 0 <= s < 65536 -> (px + ldiff s px) mod 65536 = s.
Proof.
  intros s px Hs. unfold ldiff. destruct ((s - px) mod 65536 >? 32768); lia.
Qed.

Lemma dec_enc_diff : forall c d bits rest, coder_ok (hc_enc c) (hc_dec c) -> -32767 <= d <= 32768 ->
  enc_diff c d = Some bits -> dec_diff c (bits ++ rest) = Some (d, rest).
Proof.
  intros c d bits rest Hc Hd H. unfold enc_diff in H. unfold dec_diff.
  destruct (d =? 32768) eqn:E.
  - apply Z.eqb_eq in E. subst. rewrite (Hc 16 bits rest H). reflexivity.
  - apply Z.eqb_neq in E. destruct (hc_enc c (category d)) as [b|] eqn:Eb; [|discriminate]. inversion H; subst.
    rewrite <- app_assoc. rewrite (Hc _ b _ Eb).
    pose proof (category_bound d ltac:(lia)) as Cb.
    destruct (category d =? 16) eqn:E1; [apply Z.eqb_eq in E1; lia|].
    destruct (category d >? 16) eqn:E2; [apply Z.gtb_lt in E2; lia|].
    apply recv_ext_extra.
Qed.

Definition lcoders_ok (cs : list hcoder) : Prop := forall j, coder_ok (hc_enc (nth j cs none_coder)) (hc_dec (nth j cs none_coder)).

(* samples of the scan lie in 0 .. 2^16 - 1 *)
Definition src_ok (ws : list Z) (src : list (PM.t Z)) (pos : list (nat * Z * Z)) : Prop :=
  Forall (fun p : nat * Z * Z => let '(j, r, c) := p in 0 <= lget (nth j src (PM.empty Z)) (nth j ws 1) r c < 65536) pos.

Lemma lenc_dec_samples : forall cs ws psv p pt row0 pos src coded bits coded' rest, lcoders_ok cs -> src_ok ws src pos ->
  lenc_samples cs ws psv p pt row0 pos src coded = Some (bits, coded') ->
  ldec_samples cs ws psv p pt row0 pos coded (bits ++ rest) = Some (coded', rest).
Proof.
  intros cs ws psv p pt row0. induction pos as [|[[j r] c] t IH]; intros src coded bits coded' rest Hcs Hs H;
    cbn [lenc_samples ldec_samples] in *.
  - inversion H; subst. reflexivity.
  - inversion Hs as [|x y Hp Ht]; subst. cbn beta iota in Hp.
    set (m := nth j coded (PM.empty Z)) in *. set (w := nth j ws 1) in *.
    set (px := if r =? nth j row0 0 then if c =? 0 then 2 ^ (p - pt - 1) else lget m w r (c - 1)
               else if c =? 0 then lget m w (r - 1) c
               else predict psv (lget m w r (c - 1)) (lget m w (r - 1) c) (lget m w (r - 1) (c - 1))) in *.
    set (s := lget (nth j src (PM.empty Z)) w r c) in *.
    destruct (enc_diff (nth j cs none_coder) (ldiff s px)) as [a|] eqn:Ea; [|discriminate].
    destruct (lenc_samples cs ws psv p pt row0 t src (set_nth j (lset m w r c s) coded)) as [[b cd]|] eqn:Eb; [|discriminate].
    inversion H; subst. rewrite <- app_assoc.
    rewrite (dec_enc_diff _ _ _ _ (Hcs j) (ldiff_range s px) Ea).
    rewrite (ldiff_inv s px Hp). apply (IH _ _ _ _ _ Hcs Ht Eb).
Qed.

(* restart intervals of a scan *)
Lemma lenc_dec_intervals : forall cs ws psv p pt n ivs src coded ds coded', lcoders_ok cs ->
  Forall (src_ok ws src) ivs ->
  lenc_intervals cs ws psv p pt n ivs src coded = Some (ds, coded') ->
  ldec_intervals cs ws psv p pt n ivs ds coded = Some coded'.
Proof.
  intros cs ws psv p pt n. induction ivs as [|pos it IH]; intros src coded ds coded' Hcs Hs H; cbn [lenc_intervals] in H.
  - inversion H; subst. reflexivity.
  - inversion Hs as [|x y Hp Ht]; subst.
    destruct (lenc_samples cs ws psv p pt (first_rows n pos) pos src coded) as [[bits c1]|] eqn:E1; [|discriminate].
    destruct (lenc_intervals cs ws psv p pt n it src c1) as [[ds' c2]|] eqn:E2; [|discriminate]. inversion H; subst.
    cbn [ldec_intervals]. destruct (unpack_pack bits) as (pad & U1 & U2 & U3). rewrite U1.
    rewrite (lenc_dec_samples _ _ _ _ _ _ _ _ _ _ _ pad Hcs Hp E1). rewrite U3.
    destruct (length pad <? 8)%nat eqn:El; [|apply Nat.ltb_ge in El; lia]. cbn [andb].
    apply (IH _ _ _ _ Hcs Ht E2).
Qed.

(* ------------------------------------------------ samples of the image in range *)
Definition vals_ok (m : PM.t Z) : Prop :=
  forall k, match PM.find k m with Some v => 0 <= v < 65536 | None => True end.

Lemma lget_ok : forall m w r c, vals_ok m -> 0 <= lget m w r c < 65536.
Proof. intros m w r c H. unfold lget. specialize (H (Z.to_pos (r * w + c + 1))). destruct (PM.find _ m); lia. Qed.

Lemma pm_of_list_ok : forall l pt, 0 <= pt -> Forall (fun v => 0 <= v < 65536) l -> vals_ok (pm_of_list l pt).
Proof.
  intros l pt Hpt H. unfold pm_of_list.
  assert (G : forall l a, Forall (fun v => 0 <= v < 65536) l -> vals_ok (snd a) ->
              vals_ok (snd (fold_left (fun (a : positive * PM.t Z) v => (Pos.succ (fst a), PM.add (fst a) (v / 2 ^ pt) (snd a))) l a))).
  { induction l0 as [|v t IH]; intros a Hl Ha; [exact Ha|]. inversion Hl; subst. cbn [fold_left]. apply IH; [assumption|].
    cbn [snd fst]. intros k. rewrite PositiveMapAdditionalFacts.gsspec. destruct (PositiveMap.E.eq_dec k (fst a)); [|apply Ha].
    pose proof (Z.pow_pos_nonneg 2 pt ltac:(lia) Hpt). split; [apply Z.div_pos; lia|].
    apply Z.div_lt_upper_bound; [lia|]. nia. }
  apply G; [exact H|]. cbn [snd]. intros k. rewrite PM.gempty. exact I.
Qed.

Definition limage_ok (im : limage) : Prop := Forall (Forall (fun v => 0 <= v < 65536)) (li_samples im).

Definition lstate_ok (st : lstate) : Prop := Forall slot_ok (ls_dc st).

Lemma l_step_ok : forall st s st', lstate_ok st -> l_step st s = Some st' -> lstate_ok st'.
Proof.
  intros st s st' H Hs. destruct s; cbn [l_step] in Hs; try (inversion Hs; subst; exact H).
  - destruct (forallb htab_code_ok tabs) eqn:E; [|discriminate]. inversion Hs; subst. apply install_ok; assumption.
  - destruct (n =? 3); [|discriminate]. inversion Hs; subst. exact H.
  - destruct (ls_sof st) as [[[[p y] x] fc]|]; [|discriminate]. destruct (scan_info fc comps); [|discriminate].
    cbv zeta in Hs. match type of Hs with (if ?c then _ else _) = _ => destruct c; [discriminate|] end.
    destruct (ldec_intervals _ _ _ _ _ _ _ _ _); [|discriminate]. inversion Hs; subst. exact H.
Qed.

(* the decoder's segment walker reproduces the writer's state after every item *)
Lemma lw_step_l_step : forall im st it st' fs, lstate_ok st -> limage_ok im ->
  lw_step im st it = Some (st', fs) ->
  (match it with LScan _ _ _ pt _ => 0 <= pt | _ => True end) ->
  l_step st (snd fs) = Some st'.
Proof.
  intros im st it st' fs Hst Him H Hpt. destruct it as [f s|f|f sc psv pt rf]; cbn [lw_step] in H.
  - destruct s; try discriminate;
      match type of H with match ?d with _ => _ end = _ => destruct d eqn:E; [|discriminate] end;
      inversion H; subst; cbn [snd]; exact E.
  - match type of H with match ?d with _ => _ end = _ => destruct d eqn:E; [|discriminate] end.
    inversion H; subst. cbn [snd]. exact E.
  - destruct (ls_sof st) as [[[[p y] x] fc]|] eqn:Esof; [|discriminate].
    destruct (scan_info fc sc) as [info|] eqn:Ei; [|discriminate]. cbv zeta in H.
    match type of H with (if ?c then _ else _) = _ => destruct c eqn:Eri; [discriminate|] end.
    match type of H with match ?e with _ => _ end = _ => destruct e as [[[|d0 ds] coded]|] eqn:Ee; try discriminate end.
    inversion H; subst. clear H. cbn [snd l_step]. rewrite Esof, Ei. cbv zeta. rewrite Eri.
    rewrite map_snd_combine by (rewrite map_length, seq_length; reflexivity).
    erewrite lenc_dec_intervals; [reflexivity| | |exact Ee].
    + intros j. match goal with |- context [nth j (map ?f info) none_coder] =>
        destruct (nth_in_or_default j (map f info) none_coder) as [Hin|Hd] end.
      * apply in_map_iff in Hin. destruct Hin as [[[[[i h] v] td] ta] [Heq _]]. rewrite <- Heq. apply get_coder_ok. exact Hst.
      * rewrite Hd. apply none_coder_ok.
    + apply Forall_forall. intros pos _. unfold src_ok. apply Forall_forall. intros [[j r] c] _.
      apply lget_ok.
      match goal with |- vals_ok (nth j (map ?f info) _) => destruct (nth_in_or_default j (map f info) (PM.empty Z)) as [Hin|Hd] end.
      * apply in_map_iff in Hin. destruct Hin as [[[[[i h] v] td] ta] [Heq _]]. rewrite <- Heq.
        apply pm_of_list_ok; [exact Hpt|]. unfold limage_ok in Him.
        destruct (nth_in_or_default i (li_samples im) []) as [Hi|Hdd]; [rewrite Forall_forall in Him; apply Him; exact Hi|rewrite Hdd; constructor].
      * rewrite Hd. intros k. rewrite PM.gempty. exact I.
Qed.

Fixpoint lw_final (im : limage) (st : lstate) (its : list litem) : lstate :=
  match its with
  | [] => st
  | it :: t => match lw_step im st it with Some (st', _) => lw_final im st' t | None => st end
  end.

Definition lits_ok (its : list litem) : Prop :=
  Forall (fun it => match it with LScan _ _ _ pt _ => 0 <= pt | _ => True end) its.

Theorem lw_walk_l_walk : forall im its st segs, lstate_ok st -> limage_ok im -> lits_ok its ->
  lw_walk im st its = Some segs -> l_walk st segs = Some (lw_final im st its).
Proof.
  intros im. induction its as [|it t IH]; intros st segs Hst Him Hits H; cbn [lw_walk lw_final] in *.
  - inversion H; subst. reflexivity.
  - inversion Hits as [|a b Hit Ht]; subst.
    destruct (lw_step im st it) as [[st' [f s]]|] eqn:Es; [|discriminate].
    destruct (lw_walk im st' t) as [l|] eqn:Ew; [|discriminate]. inversion H; subst.
    pose proof (lw_step_l_step _ _ _ _ _ Hst Him Es Hit) as D. cbn [snd] in D. cbn [l_walk]. rewrite D.
    apply IH; try assumption. eapply l_step_ok; eassumption.
Qed.

(* every sample the writer/decoder hold is the (point-transformed) source sample at its place *)
Definition agree (src coded : list (PM.t Z)) : Prop :=
  forall j k v, PM.find k (nth j coded (PM.empty Z)) = Some v ->
    v = match PM.find k (nth j src (PM.empty Z)) with Some u => u | None => 0 end.

Lemma nth_set_nth : forall {A} (l : list A) j j' x d, nth j' (set_nth j x l) d = if Nat.eqb j j' then (if (j <? length l)%nat then x else nth j' l d) else nth j' l d.
Proof.
  induction l as [|a t IH]; intros j j' x d.
  - destruct j; cbn [set_nth]; destruct (Nat.eqb _ j'); destruct j'; reflexivity.
  - destruct j, j'; cbn [set_nth nth length Nat.eqb]; try reflexivity.
    rewrite IH. destruct (Nat.eqb j j'); [|reflexivity]. change (S j <? S (length t))%nat with (j <? length t)%nat. reflexivity.
Qed.

Lemma lenc_samples_agree : forall cs ws psv p pt row0 pos src coded bits coded',
  lenc_samples cs ws psv p pt row0 pos src coded = Some (bits, coded') -> agree src coded -> agree src coded'.
Proof.
  intros cs ws psv p pt row0. induction pos as [|[[j r] c] t IH]; intros src coded bits coded' H Ha; cbn [lenc_samples] in H.
  - inversion H; subst. exact Ha.
  - destruct (enc_diff _ _) as [a|]; [|discriminate].
    match type of H with match ?e with _ => _ end = _ => destruct e as [[b cd]|] eqn:Eb; [|discriminate] end.
    inversion H; subst. apply (IH _ _ _ _ Eb). intros j' k v Hf. rewrite nth_set_nth in Hf.
    destruct (Nat.eqb j j') eqn:Ej; [|apply (Ha _ _ _ Hf)]. apply Nat.eqb_eq in Ej. subst j'.
    destruct (j <? length coded)%nat; [|apply (Ha _ _ _ Hf)].
    unfold lset in Hf. rewrite PositiveMapAdditionalFacts.gsspec in Hf.
    destruct (PositiveMap.E.eq_dec k (Z.to_pos (r * nth j ws 1 + c + 1))) as [->|Hne]; [|apply (Ha _ _ _ Hf)].
    inversion Hf; subst. unfold lget. reflexivity.
Qed.
