(* CopyProofs.v -- proofs about model/CopyMarkers.v (C16): the five JCOPYOPT_* policies of
   jcopy_markers_setup / jcopy_markers_execute, alone and end to end on a marker stream. *)
From Coq Require Import List ZArith Bool Lia ZifyBool.
From LJT Require Import lib.Sweep gen.GenIccConst model.MarkerRT model.Icc model.CopyMarkers
  proofs.C16Consts proofs.IccProofs proofs.MarkerProofs.
Import ListNotations.
Local Open Scope Z_scope.

Definition seg_of (m : saved) : segment := (sm_code m, sm_data m).

Lemma copy_execute_filter opt wj wa ms :
  copy_execute opt wj wa ms = map seg_of (filter (copy_keeps opt wj wa) ms).
Proof.
  induction ms as [|m r IH]; [reflexivity|]. cbn [copy_execute filter].
  destruct (copy_keeps opt wj wa m); cbn [map]; rewrite IH; reflexivity.
Qed.

(* the specification of the five options *)
Definition not_dup (wj wa : bool) (m : saved) : bool := negb (is_dup_jfif wj m) && negb (is_dup_adobe wa m).
Definition policy (opt : Z) (wj wa : bool) (m : saved) : bool :=
  if opt =? JCOPYOPT_NONE then false
  else if opt =? JCOPYOPT_COMMENTS then sm_code m =? JPEG_COM
  else if opt =? JCOPYOPT_ALL then not_dup wj wa m
  else if opt =? JCOPYOPT_ALL_EXCEPT_ICC then negb (sm_code m =? JPEG_APP0 + 2) && not_dup wj wa m
  else if opt =? JCOPYOPT_ICC then sm_code m =? JPEG_APP0 + 2
  else not_dup wj wa m.

Lemma dup_needs_code wj wa m : (sm_code m =? JPEG_APP0) = false -> (sm_code m =? JPEG_APP0 + 14) = false -> not_dup wj wa m = true.
Proof.
  intros H0 H14. unfold not_dup, is_dup_jfif, is_dup_adobe. rewrite H0, H14.
  rewrite !andb_false_r. reflexivity.
Qed.

Lemma copy_keeps_policy opt wj wa m : copy_keeps opt wj wa m = policy opt wj wa m.
Proof.
  unfold copy_keeps, policy.
  destruct (opt =? JCOPYOPT_NONE) eqn:E0; [reflexivity|].
  destruct (opt =? JCOPYOPT_COMMENTS) eqn:E1.
  { apply Z.eqb_eq in E1. subst opt. cbn [andb]. change (JCOPYOPT_COMMENTS =? JCOPYOPT_ALL_EXCEPT_ICC) with false.
    change (JCOPYOPT_COMMENTS =? JCOPYOPT_ICC) with false. cbn [andb].
    destruct (sm_code m =? JPEG_COM) eqn:EC; [|reflexivity]. cbn [negb]. apply Z.eqb_eq in EC.
    assert (D : not_dup wj wa m = true) by (apply dup_needs_code; rewrite EC; reflexivity).
    unfold not_dup in D. apply andb_true_iff in D as (D1 & D2). apply negb_true_iff in D1, D2. rewrite D1, D2. reflexivity. }
  cbn [andb].
  destruct (opt =? JCOPYOPT_ALL) eqn:E2.
  { apply Z.eqb_eq in E2. subst opt. change (JCOPYOPT_ALL =? JCOPYOPT_ALL_EXCEPT_ICC) with false.
    change (JCOPYOPT_ALL =? JCOPYOPT_ICC) with false. cbn [andb]. unfold not_dup.
    destruct (is_dup_jfif wj m), (is_dup_adobe wa m); reflexivity. }
  destruct (opt =? JCOPYOPT_ALL_EXCEPT_ICC) eqn:E3.
  { apply Z.eqb_eq in E3. subst opt. change (JCOPYOPT_ALL_EXCEPT_ICC =? JCOPYOPT_ICC) with false. cbn [andb].
    destruct (sm_code m =? JPEG_APP0 + 2); [reflexivity|]. cbn [negb andb]. unfold not_dup.
    destruct (is_dup_jfif wj m), (is_dup_adobe wa m); reflexivity. }
  cbn [andb].
  destruct (opt =? JCOPYOPT_ICC) eqn:E4.
  { cbn [andb]. destruct (sm_code m =? JPEG_APP0 + 2) eqn:EC; [|reflexivity]. cbn [negb]. apply Z.eqb_eq in EC.
    assert (D : not_dup wj wa m = true) by (apply dup_needs_code; rewrite EC; reflexivity).
    unfold not_dup in D. apply andb_true_iff in D as (D1 & D2). apply negb_true_iff in D1, D2. rewrite D1, D2. reflexivity. }
  cbn [andb]. unfold not_dup. destruct (is_dup_jfif wj m), (is_dup_adobe wa m); reflexivity.
Qed.

(* (6) the markers handed to jpeg_write_marker are exactly the sub-list the option specifies,
   in order, with their data *)
Theorem copy_policy opt wj wa ms :
  copy_execute opt wj wa ms = map seg_of (filter (policy opt wj wa) ms).
Proof.
  rewrite copy_execute_filter. f_equal. apply filter_ext. intros m. apply copy_keeps_policy.
Qed.

(* which codes jcopy_markers_setup asks the decompressor to save *)
Definition selected (opt code : Z) : bool :=
  if opt =? JCOPYOPT_NONE then false
  else if opt =? JCOPYOPT_COMMENTS then code =? JPEG_COM
  else if opt =? JCOPYOPT_ALL then is_app_or_com code
  else if opt =? JCOPYOPT_ALL_EXCEPT_ICC then is_app_or_com code && negb (code =? JPEG_APP0 + 2)
  else if opt =? JCOPYOPT_ICC then code =? JPEG_APP0 + 2
  else false.

Lemma copy_setup_sweep :
  sweep2 (fun opt code => copy_setup opt cfg_init code =? (if selected opt code then COPY_SAVE_LIMIT else 0)) 0 5 0 256 = true.
Proof. vm_compute. reflexivity. Qed.

(* T1-finite: 5 options x 256 marker codes *)
Theorem copy_setup_spec opt code : 0 <= opt < 5 -> 0 <= code < 256 ->
  copy_setup opt cfg_init code = if selected opt code then COPY_SAVE_LIMIT else 0.
Proof.
  intros Ho Hc. apply Z.eqb_eq. exact (sweep2_sound _ _ _ _ _ copy_setup_sweep opt code Ho Hc).
Qed.

Lemma copy_setup_nonneg opt : 0 <= opt < 5 -> forall k, 0 <= copy_setup opt cfg_init k.
Proof.
  intros Ho. assert (W : cfg_wf (copy_setup opt cfg_init)).
  { unfold copy_setup.
    assert (S : forall ms c, cfg_wf c -> cfg_wf (save_apps opt ms c)).
    { induction ms as [|m r IH]; intros c Wc; [assumption|]. cbn [save_apps].
      destruct ((opt =? JCOPYOPT_ALL_EXCEPT_ICC) && (m =? 2)); apply IH; [assumption|].
      apply jpeg_save_markers_wf; [assumption | unfold COPY_SAVE_LIMIT; lia]. }
    repeat match goal with |- context [if ?b then _ else _] => destruct b end;
    repeat first [apply jpeg_save_markers_wf | apply S | apply cfg_init_wf | (unfold COPY_SAVE_LIMIT; lia)]. }
  apply W.
Qed.

Lemma policy_selected opt wj wa m : 0 <= opt < 5 -> is_app_or_com (sm_code m) = true ->
  policy opt wj wa m = true -> selected opt (sm_code m) = true.
Proof.
  intros Ho Hc. unfold policy, selected.
  destruct (opt =? JCOPYOPT_NONE) eqn:E0; [discriminate|].
  destruct (opt =? JCOPYOPT_COMMENTS) eqn:E1; [auto|].
  destruct (opt =? JCOPYOPT_ALL) eqn:E2; [auto|].
  destruct (opt =? JCOPYOPT_ALL_EXCEPT_ICC) eqn:E3.
  { intros H. apply andb_true_iff in H as (H1 & _). rewrite Hc, H1. reflexivity. }
  destruct (opt =? JCOPYOPT_ICC) eqn:E; [auto|].
  exfalso. unfold JCOPYOPT_NONE, JCOPYOPT_COMMENTS, JCOPYOPT_ALL, JCOPYOPT_ALL_EXCEPT_ICC, JCOPYOPT_ICC in *. lia.
Qed.

(* (6) end to end: the header markers of the source stream -> the markers written to the output *)
Theorem copy_end_to_end opt wj wa segs rest : 0 <= opt < 5 ->
  Forall seg_ok segs -> Forall (fun s => Forall is_byte (snd s)) segs -> stops rest ->
  exists bytes, write_markers segs = Some bytes /\
    forall fuel, (length segs < fuel)%nat ->
      copy_pipeline opt opt wj wa fuel (bytes ++ rest)
      = Some (filter (fun s => policy opt wj wa (saved_of s)) segs).
Proof.
  intros Ho HF HB Hstop.
  destruct (markers_roundtrip (copy_setup opt cfg_init) segs (copy_setup_nonneg opt Ho) HF rest Hstop) as (bytes & Eb & R).
  exists bytes. split; [assumption|]. intros fuel Hf. unfold copy_pipeline.
  destruct (R fuel hinfo_init [] Hf) as (h' & E). rewrite E. cbn [app]. f_equal.
  rewrite copy_policy. clear - Ho HF HB.
  induction segs as [|s segs IH]; [reflexivity|].
  pose proof (Forall_inv HF) as (S1 & S2). pose proof (Forall_inv HB) as B1. cbn beta in B1.
  specialize (IH (Forall_inv_tail HF) (Forall_inv_tail HB)).
  cbn [flat_map]. rewrite filter_app, map_app, IH. cbn [filter].
  unfold saved_under. pose proof (app_or_com_byte _ S1) as Hbyte. unfold is_byte in Hbyte.
  rewrite copy_setup_spec by assumption.
  destruct (selected opt (fst s)) eqn:Sel.
  - change (COPY_SAVE_LIMIT =? 0) with false. cbn iota.
    assert (Efull : firstn (Z.to_nat (kept_len (copy_setup opt cfg_init) s)) (map byte_of (snd s)) = snd s).
    { unfold kept_len. rewrite copy_setup_spec by assumption. rewrite Sel.
      rewrite map_byte_of_id by assumption.
      replace (Z.to_nat (Z.min (Zlength (snd s)) COPY_SAVE_LIMIT)) with (length (snd s)).
      - apply firstn_exact.
      - unfold WRITE_MARKER_MAX_DATALEN in S2. unfold COPY_SAVE_LIMIT. rewrite Zlength_correct in *. lia. }
    rewrite Efull. fold (saved_of s). cbn [filter].
    destruct (policy opt wj wa (saved_of s)); cbn [map app]; [|reflexivity].
    unfold seg_of, saved_of. cbn [sm_code sm_data]. destruct s; reflexivity.
  - rewrite Z.eqb_refl. cbn [filter map app].
    destruct (policy opt wj wa (saved_of s)) eqn:P; [|reflexivity].
    exfalso. apply policy_selected in P; [| assumption | exact S1]. cbn [saved_of sm_code] in P. congruence.
Qed.

(* ------------------------------------------------ tj3Transform and the instance profile *)
(* The faithful model of tj3Transform violates "the transformed image carries one readable
   ICC profile": with TJPARAM_SAVEMARKERS = 2 the source's APP2 segments are copied and the
   profile set with tj3SetICCProfile is written as well; both are numbered 1 of 1. *)
Theorem tj_transform_double_icc_refuted : TJ_TRANSFORM_ICC_UNCONDITIONAL = 1 ->
  exists p q segs, write_icc p = Some segs /\
    read_icc (markers_of segs) = IccOk p /\
    read_icc (markers_of (tj_transform_extras JCOPYOPT_ALL false true false (markers_of segs) q)) = IccBogus.
Proof.
  intros H. exists [1], [2]. eexists. split; [reflexivity|]. split; [reflexivity|].
  unfold tj_transform_extras. rewrite H. vm_compute. reflexivity.
Qed.
(* ---- the tree with the iccCopied test (TJ_TRANSFORM_ICC_UNCONDITIONAL = 0) *)
Lemma is_icc_tj_marker m : marker_is_icc m = true -> tj_icc_marker m = true.
Proof.
  unfold marker_is_icc, tj_icc_marker. intros H. apply andb_true_iff in H as (H & H3). apply andb_true_iff in H as (H1 & H2).
  apply Z.eqb_eq in H1. apply Z.leb_le in H2. change tj_icc_copied_sig with icc_sig_reader. rewrite H3, H1.
  change (R_ICC_MARKER =? JPEG_APP0 + 2) with true. cbn [andb]. rewrite andb_true_r. apply Z.leb_le.
  unfold TJ_ICC_COPIED_MINLEN, R_ICC_OVERHEAD_LEN in *. lia.
Qed.

(* no ICC marker is copied when iccCopied stays FALSE *)
Lemma not_copied_no_icc opt wj wa src : 0 <= opt < 5 -> tj_icc_copied opt src = false ->
  filter marker_is_icc (markers_of (copy_execute opt wj wa src)) = [].
Proof.
  intros Ho Hc. rewrite copy_policy. unfold markers_of.
  induction src as [|m r IH]; [reflexivity|].
  assert (Hr : tj_icc_copied opt r = false).
  { unfold tj_icc_copied in *. cbn [existsb] in Hc. destruct (copies_app2 opt); [|reflexivity].
    cbn [andb] in *. apply orb_false_iff in Hc. tauto. }
  specialize (IH Hr). cbn [filter]. destruct (policy opt wj wa m) eqn:P; [|assumption]. cbn [map filter].
  assert (Em : marker_is_icc (saved_of (seg_of m)) = marker_is_icc m) by reflexivity. rewrite Em.
  destruct (marker_is_icc m) eqn:I; [|assumption]. exfalso.
  pose proof (is_icc_tj_marker m I) as T.
  unfold tj_icc_copied in Hc. cbn [existsb] in Hc. rewrite T in Hc. cbn [orb] in Hc. rewrite andb_true_r in Hc.
  (* the option does not copy APP2, yet the policy kept an APP2 marker *)
  unfold marker_is_icc in I. apply andb_true_iff in I as (I & _). apply andb_true_iff in I as (I1 & _). apply Z.eqb_eq in I1.
  unfold copies_app2 in Hc. apply orb_false_iff in Hc as (H2 & H4).
  unfold policy in P. rewrite H2, H4 in P.
  destruct (opt =? JCOPYOPT_NONE) eqn:E0; [discriminate|].
  destruct (opt =? JCOPYOPT_COMMENTS) eqn:E1.
  { rewrite I1 in P. vm_compute in P. discriminate. }
  destruct (opt =? JCOPYOPT_ALL_EXCEPT_ICC) eqn:E3.
  { rewrite I1 in P. change (R_ICC_MARKER =? JPEG_APP0 + 2) with true in P. cbn in P. discriminate. }
  unfold JCOPYOPT_NONE, JCOPYOPT_COMMENTS, JCOPYOPT_ALL, JCOPYOPT_ALL_EXCEPT_ICC, JCOPYOPT_ICC in *. lia.
Qed.

(* (6) tj3Transform never emits a second profile: either the source's ICC markers were copied and nothing
   is added, or none was copied and the ICC markers of the output are exactly the instance profile's *)
Theorem tj_transform_single_icc : TJ_TRANSFORM_ICC_UNCONDITIONAL = 0 ->
  forall sm copynone wj wa src q, let opt := tj_execute_option sm copynone in 0 <= opt < 5 ->
  (tj_icc_copied opt src = true -> tj_transform_extras sm copynone wj wa src q = copy_execute opt wj wa src) /\
  (tj_icc_copied opt src = false -> forall segs, q <> [] -> write_icc q = Some segs ->
     filter marker_is_icc (markers_of (tj_transform_extras sm copynone wj wa src q)) = filter marker_is_icc (markers_of segs)).
Proof.
  intros H sm copynone wj wa src q opt Ho. unfold tj_transform_extras. fold opt. rewrite H. change (0 =? 1) with false. cbn [orb].
  split.
  - intros Hc. rewrite Hc. cbn [negb]. apply app_nil_r.
  - intros Hc segs Hq E. rewrite Hc. cbn [negb]. destruct q as [|q0 q']; [congruence|]. rewrite E.
    unfold markers_of. rewrite map_app, filter_app. fold (markers_of (copy_execute opt wj wa src)).
    rewrite (not_copied_no_icc opt wj wa src Ho Hc). reflexivity.
Qed.

(* the input that used to give two profiles: the source profile comes back *)
Lemma tj_transform_regression_check :
  match write_icc [1] with
  | Some segs => match read_icc (markers_of (tj_transform_extras JCOPYOPT_ALL false true false (markers_of segs) [2])) with
                 | IccOk p => zlist_eqb p [1] | _ => false end
  | None => false
  end = negb (TJ_TRANSFORM_ICC_UNCONDITIONAL =? 1).
Proof. vm_compute. reflexivity. Qed.
