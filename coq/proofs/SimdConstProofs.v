(* C05 -- generated-constant agreement beyond the colour kernels: DCT constants,
   shape of the constant rows, gate preconditions read from jsimd.c, and the
   per-file multiset of (mnemonic, constant row / immediate) uses against the
   values the hand transcription in model/Simd*.v was made from. *)
From Coq Require Import List ZArith Lia Bool String.
From LJT Require Import lib.Words gen.GenSimdConst.
Import ListNotations.
Local Open Scope string_scope.
Local Open Scope Z_scope.

(* ---- FIX_* of the C DCT files are round(x * 2^CONST_BITS) of the decimal in their name ---- *)
Definition fix_exact (num den bits : Z) : Z := (2 * num * 2 ^ bits + den) / (2 * den).
Definition fix3_ok (bits : Z) (e : Z * Z * Z) : bool := let '(num, den, v) := e in fix_exact num den bits =? v.
Lemma c_dct_fix_exact :
  forallb (fix3_ok c_jfdctint_CONST_BITS) c_jfdctint_fix && forallb (fix3_ok c_jidctint_CONST_BITS) c_jidctint_fix &&
  forallb (fix3_ok c_jidctred_CONST_BITS) c_jidctred_fix && forallb (fix3_ok c_jfdctfst_CONST_BITS) c_jfdctfst_fix &&
  forallb (fix3_ok c_jidctfst_CONST_BITS) c_jidctfst_fix = true.
Proof. vm_compute. reflexivity. Qed.

(* ---- every asm F_* DCT constant equals the C FIX_* it names ---- *)
Lemma dct_consts_agree : forallb (fun p => fst p =? snd p) dct_const_pairs = true /\ dct_const_pairs_count = 70.
Proof. vm_compute. split; reflexivity. Qed.
Lemma dct_bits_agree :
  jfdctint_sse2_CONST_BITS = c_jfdctint_CONST_BITS /\ jfdctint_avx2_CONST_BITS = c_jfdctint_CONST_BITS /\
  jidctint_sse2_CONST_BITS = c_jidctint_CONST_BITS /\ jidctint_avx2_CONST_BITS = c_jidctint_CONST_BITS /\
  jidctred_sse2_CONST_BITS = c_jidctred_CONST_BITS /\ jfdctfst_sse2_CONST_BITS = c_jfdctfst_CONST_BITS /\
  jidctfst_sse2_CONST_BITS = c_jidctfst_CONST_BITS.
Proof. repeat split; reflexivity. Qed.
(* the combined rows of the islow kernels are the sums/differences the C code forms *)
Lemma jfdctint_rows :
  snd jfdctint_sse2_PW_F130_F054 = List.concat (repeat [c_jfdctint_FIX_0_541196100 + c_jfdctint_FIX_0_765366865; c_jfdctint_FIX_0_541196100] 4) /\
  snd jfdctint_sse2_PW_F054_MF130 = List.concat (repeat [c_jfdctint_FIX_0_541196100; c_jfdctint_FIX_0_541196100 - c_jfdctint_FIX_1_847759065] 4) /\
  snd jfdctint_sse2_PW_MF078_F117 = List.concat (repeat [c_jfdctint_FIX_1_175875602 - c_jfdctint_FIX_1_961570560; c_jfdctint_FIX_1_175875602] 4) /\
  snd jfdctint_sse2_PW_F117_F078 = List.concat (repeat [c_jfdctint_FIX_1_175875602; c_jfdctint_FIX_1_175875602 - c_jfdctint_FIX_0_390180644] 4) /\
  snd jfdctint_sse2_PW_MF060_MF089 = List.concat (repeat [c_jfdctint_FIX_0_298631336 - c_jfdctint_FIX_0_899976223; - c_jfdctint_FIX_0_899976223] 4) /\
  snd jfdctint_sse2_PW_MF089_F060 = List.concat (repeat [- c_jfdctint_FIX_0_899976223; c_jfdctint_FIX_1_501321110 - c_jfdctint_FIX_0_899976223] 4) /\
  snd jfdctint_sse2_PW_MF050_MF256 = List.concat (repeat [c_jfdctint_FIX_2_053119869 - c_jfdctint_FIX_2_562915447; - c_jfdctint_FIX_2_562915447] 4) /\
  snd jfdctint_sse2_PW_MF256_F050 = List.concat (repeat [- c_jfdctint_FIX_2_562915447; c_jfdctint_FIX_3_072711026 - c_jfdctint_FIX_2_562915447] 4) /\
  snd jidctint_sse2_PW_F130_F054 = snd jfdctint_sse2_PW_F130_F054 /\ snd jidctint_sse2_PW_F054_MF130 = snd jfdctint_sse2_PW_F054_MF130 /\
  snd jidctint_sse2_PW_MF078_F117 = snd jfdctint_sse2_PW_MF078_F117 /\ snd jidctint_sse2_PW_F117_F078 = snd jfdctint_sse2_PW_F117_F078 /\
  snd jidctint_sse2_PW_MF060_MF089 = snd jfdctint_sse2_PW_MF060_MF089 /\ snd jidctint_sse2_PW_MF089_F060 = snd jfdctint_sse2_PW_MF089_F060 /\
  snd jidctint_sse2_PW_MF050_MF256 = snd jfdctint_sse2_PW_MF050_MF256 /\ snd jidctint_sse2_PW_MF256_F050 = snd jfdctint_sse2_PW_MF256_F050 /\
  (* the AVX2 rows are the same pairs, two per 256-bit register *)
  snd jfdctint_avx2_PW_F130_F054_MF130_F054 = app (firstn 8 (snd jfdctint_sse2_PW_F130_F054)) (rev (firstn 8 (snd jfdctint_sse2_PW_F054_MF130))) /\
  snd jidctint_avx2_PW_F130_F054_MF130_F054 = snd jfdctint_avx2_PW_F130_F054_MF130_F054 /\
  snd jidctint_avx2_PW_MF078_F117_F078_F117 = snd jfdctint_avx2_PW_MF078_F117_F078_F117 /\
  snd jidctint_avx2_PW_MF060_MF089_MF050_MF256 = snd jfdctint_avx2_PW_MF060_MF089_MF050_MF256.
Proof. vm_compute. repeat split; reflexivity. Qed.
(* every 16-bit row element is representable as a signed word: no silent truncation by the assembler *)
Definition fits16 (row : Z * list Z) : bool := forallb (fun v => (-32768 <=? v) && (v <? 32768)) (snd row).
Lemma dct_rows_fit :
  forallb fits16 [jfdctint_sse2_PW_F130_F054; jfdctint_sse2_PW_F054_MF130; jfdctint_sse2_PW_MF078_F117; jfdctint_sse2_PW_F117_F078;
    jfdctint_sse2_PW_MF060_MF089; jfdctint_sse2_PW_MF089_F060; jfdctint_sse2_PW_MF050_MF256; jfdctint_sse2_PW_MF256_F050;
    jfdctint_avx2_PW_F130_F054_MF130_F054; jfdctint_avx2_PW_MF078_F117_F078_F117; jfdctint_avx2_PW_MF060_MF089_MF050_MF256;
    jfdctint_avx2_PW_F050_MF256_F060_MF089; jidctint_avx2_PW_MF089_F060_MF256_F050;
    jidctred_sse2_PW_F184_MF076; jidctred_sse2_PW_F256_F089; jidctred_sse2_PW_F106_MF217; jidctred_sse2_PW_MF060_MF050;
    jidctred_sse2_PW_F145_MF021; jidctred_sse2_PW_F362_MF127; jidctred_sse2_PW_F085_MF072;
    jfdctfst_sse2_PW_F0707; jfdctfst_sse2_PW_F0382; jfdctfst_sse2_PW_F0541; jfdctfst_sse2_PW_F1306;
    jidctfst_sse2_PW_F1414; jidctfst_sse2_PW_F1847; jidctfst_sse2_PW_MF1613; jidctfst_sse2_PW_F1082;
    jccolor_sse2_PW_F0299_F0337; jccolor_sse2_PW_F0114_F0250; jccolor_sse2_PW_MF016_MF033; jccolor_sse2_PW_MF008_MF041;
    jccolor_avx2_PW_F0299_F0337; jccolor_avx2_PW_F0114_F0250; jccolor_avx2_PW_MF016_MF033; jccolor_avx2_PW_MF008_MF041;
    jcgray_sse2_PW_F0299_F0337; jcgray_sse2_PW_F0114_F0250; jcgray_avx2_PW_F0299_F0337; jcgray_avx2_PW_F0114_F0250;
    jdcolor_sse2_PW_F0402; jdcolor_sse2_PW_MF0228; jdcolor_sse2_PW_MF0344_F0285; jdcolor_avx2_PW_F0402; jdcolor_avx2_PW_MF0228;
    jdcolor_avx2_PW_MF0344_F0285; jdmerge_sse2_PW_F0402; jdmerge_sse2_PW_MF0228; jdmerge_sse2_PW_MF0344_F0285;
    jdmerge_avx2_PW_F0402; jdmerge_avx2_PW_MF0228; jdmerge_avx2_PW_MF0344_F0285] = true.
Proof. vm_compute. reflexivity. Qed.
(* the fast DCT rows are the C FIX_* scaled by CONST_SHIFT = 16 - PRE_MULTIPLY_SCALE_BITS - CONST_BITS *)
Lemma ifast_rows :
  forallb (Z.eqb (c_jfdctfst_FIX_0_707106781 * 2 ^ (16 - jfdctfst_sse2_PRE_MULTIPLY_SCALE_BITS - jfdctfst_sse2_CONST_BITS))) (snd jfdctfst_sse2_PW_F0707) &&
  forallb (Z.eqb (c_jfdctfst_FIX_0_382683433 * 64)) (snd jfdctfst_sse2_PW_F0382) &&
  forallb (Z.eqb (c_jfdctfst_FIX_0_541196100 * 64)) (snd jfdctfst_sse2_PW_F0541) &&
  forallb (Z.eqb (c_jfdctfst_FIX_1_306562965 * 64)) (snd jfdctfst_sse2_PW_F1306) &&
  forallb (Z.eqb (c_jidctfst_FIX_1_414213562 * 64)) (snd jidctfst_sse2_PW_F1414) &&
  forallb (Z.eqb (c_jidctfst_FIX_1_847759065 * 64)) (snd jidctfst_sse2_PW_F1847) &&
  forallb (Z.eqb (- (c_jidctfst_FIX_2_613125930 - 256) * 64)) (snd jidctfst_sse2_PW_MF1613) &&
  forallb (Z.eqb (c_jidctfst_FIX_1_082392200 * 64)) (snd jidctfst_sse2_PW_F1082) = true.
Proof. vm_compute. reflexivity. Qed.

(* ---- shape of the constant rows: each fills exactly one vector; the colour / sample rows
        repeat one pair in every lane pair (the models read lanes 0 and 1 only) ---- *)
Lemma rows_fill_vectors : forallb (fun t => let '(vb, eb, n) := t in eb * n =? vb) asm_row_inventory = true.
Proof. vm_compute. reflexivity. Qed.
Definition per2 (row : Z * list Z) : bool :=
  let l := snd row in forallb (fun i => (nth i l 0 =? nth (i mod 2)%nat l 0)) (seq 0 (List.length l)).
Definition per1 (row : Z * list Z) : bool :=
  let l := snd row in forallb (fun v => v =? nth 0 l 0) l.
Lemma colour_rows_periodic :
  forallb per2 [jccolor_sse2_PW_F0299_F0337; jccolor_sse2_PW_F0114_F0250; jccolor_sse2_PW_MF016_MF033; jccolor_sse2_PW_MF008_MF041;
    jccolor_avx2_PW_F0299_F0337; jccolor_avx2_PW_F0114_F0250; jccolor_avx2_PW_MF016_MF033; jccolor_avx2_PW_MF008_MF041;
    jcgray_sse2_PW_F0299_F0337; jcgray_sse2_PW_F0114_F0250; jcgray_avx2_PW_F0299_F0337; jcgray_avx2_PW_F0114_F0250;
    jdcolor_sse2_PW_MF0344_F0285; jdcolor_avx2_PW_MF0344_F0285; jdmerge_sse2_PW_MF0344_F0285; jdmerge_avx2_PW_MF0344_F0285] &&
  forallb per1 [jccolor_sse2_PD_ONEHALFM1_CJ; jccolor_sse2_PD_ONEHALF; jccolor_avx2_PD_ONEHALFM1_CJ; jccolor_avx2_PD_ONEHALF;
    jcgray_sse2_PD_ONEHALF; jcgray_avx2_PD_ONEHALF;
    jdcolor_sse2_PW_F0402; jdcolor_sse2_PW_MF0228; jdcolor_sse2_PW_ONE; jdcolor_sse2_PD_ONEHALF;
    jdcolor_avx2_PW_F0402; jdcolor_avx2_PW_MF0228; jdcolor_avx2_PW_ONE; jdcolor_avx2_PD_ONEHALF;
    jdmerge_sse2_PW_F0402; jdmerge_sse2_PW_MF0228; jdmerge_sse2_PW_ONE; jdmerge_sse2_PD_ONEHALF;
    jdmerge_avx2_PW_F0402; jdmerge_avx2_PW_MF0228; jdmerge_avx2_PW_ONE; jdmerge_avx2_PD_ONEHALF;
    jdsample_sse2_PW_ONE; jdsample_sse2_PW_TWO; jdsample_sse2_PW_THREE; jdsample_sse2_PW_SEVEN; jdsample_sse2_PW_EIGHT;
    jdsample_avx2_PW_ONE; jdsample_avx2_PW_TWO; jdsample_avx2_PW_THREE; jdsample_avx2_PW_SEVEN; jdsample_avx2_PW_EIGHT] = true.
Proof. vm_compute. reflexivity. Qed.

(* ---- gates (simd/x86_64/jsimd.c): every sample-domain kernel is selected only for 8-bit samples,
        every colour kernel only for pixel sizes 3 and 4 ---- *)
Definition gate (n : string) : option (bool * bool * bool) :=
  match find (fun g => String.eqb (fst (fst (fst g))) n) simd_gates with
  | Some (_, a, b, c) => Some (a, b, c) | None => None end.
Lemma gate_sound :
  map gate ["jsimd_can_rgb_ycc"; "jsimd_can_rgb_gray"; "jsimd_can_ycc_rgb"] = repeat (Some (true, true, true)) 3 /\
  map gate ["jsimd_can_h2v2_downsample"; "jsimd_can_h2v1_downsample"; "jsimd_can_h2v2_upsample"; "jsimd_can_h2v1_upsample";
            "jsimd_can_h2v2_fancy_upsample"; "jsimd_can_h2v1_fancy_upsample"; "jsimd_can_h2v2_merged_upsample";
            "jsimd_can_h2v1_merged_upsample"; "jsimd_can_convsamp"; "jsimd_can_idct_2x2"; "jsimd_can_idct_4x4";
            "jsimd_can_idct_islow"; "jsimd_can_idct_ifast"] = repeat (Some (true, false, true)) 13 /\
  gate "jsimd_can_ycc_rgb565" = Some (false, false, false) /\
  c_fancy_min_width_gt = 2.
Proof. vm_compute. repeat split; reflexivity. Qed.

(* ---- transcription fingerprint: which constant rows / immediates each kernel file uses, how often ---- *)

Lemma uses_jccolext_sse2_ok : uses_jccolext_sse2 =
  [("movdqa [PD_ONEHALFM1_CJ]", 4);
   ("movdqa [PD_ONEHALF]", 2);
   ("pmaddwd [PW_F0114_F0250]", 4);
   ("pmaddwd [PW_F0299_F0337]", 4);
   ("pmaddwd [PW_MF008_MF041]", 4);
   ("pmaddwd [PW_MF016_MF033]", 4);
   ("pslldq 8", 6);
   ("pslldq SIZEOF_DWORD", 1);
   ("pslldq SIZEOF_MMWORD", 2);
   ("psllw BYTE_BIT", 3);
   ("psrld 1", 8);
   ("psrld SCALEBITS", 12);
   ("psrldq 8", 3);
   ("psrlw BYTE_BIT", 2)].
Proof. reflexivity. Qed.
Lemma uses_jccolext_avx2_ok : uses_jccolext_avx2 =
  [("movdqa [PD_ONEHALFM1_CJ]", 4);
   ("movdqa [PD_ONEHALF]", 2);
   ("perm2i128 0x31", 2);
   ("perm2i128 1", 3);
   ("pmaddwd [PW_F0114_F0250]", 4);
   ("pmaddwd [PW_F0299_F0337]", 4);
   ("pmaddwd [PW_MF008_MF041]", 4);
   ("pmaddwd [PW_MF016_MF033]", 4);
   ("pslldq 8", 6);
   ("pslldq SIZEOF_DWORD", 1);
   ("pslldq SIZEOF_MMWORD", 2);
   ("psllw BYTE_BIT", 3);
   ("psrld 1", 8);
   ("psrld SCALEBITS", 12);
   ("psrldq 8", 3);
   ("psrlw BYTE_BIT", 2);
   ("vinserti128 0", 3);
   ("vinserti128 1", 2)].
Proof. reflexivity. Qed.
Lemma uses_jcgryext_sse2_ok : uses_jcgryext_sse2 =
  [("movdqa [PD_ONEHALF]", 2);
   ("pmaddwd [PW_F0114_F0250]", 4);
   ("pmaddwd [PW_F0299_F0337]", 4);
   ("pslldq 8", 6);
   ("pslldq SIZEOF_DWORD", 1);
   ("pslldq SIZEOF_MMWORD", 2);
   ("psllw BYTE_BIT", 1);
   ("psrld SCALEBITS", 4);
   ("psrldq 8", 3);
   ("psrlw BYTE_BIT", 2)].
Proof. reflexivity. Qed.
Lemma uses_jcgryext_avx2_ok : uses_jcgryext_avx2 =
  [("movdqa [PD_ONEHALF]", 2);
   ("perm2i128 0x31", 2);
   ("perm2i128 1", 3);
   ("pmaddwd [PW_F0114_F0250]", 4);
   ("pmaddwd [PW_F0299_F0337]", 4);
   ("pslldq 8", 6);
   ("pslldq SIZEOF_DWORD", 1);
   ("pslldq SIZEOF_MMWORD", 2);
   ("psllw BYTE_BIT", 1);
   ("psrld SCALEBITS", 4);
   ("psrldq 8", 3);
   ("psrlw BYTE_BIT", 2);
   ("vinserti128 0", 3);
   ("vinserti128 1", 2)].
Proof. reflexivity. Qed.
Lemma uses_jdcolext_sse2_ok : uses_jdcolext_sse2 =
  [("paddd [PD_ONEHALF]", 4);
   ("paddw [PW_ONE]", 4);
   ("pmaddwd [PW_MF0344_F0285]", 4);
   ("pmulhw [PW_F0402]", 2);
   ("pmulhw [PW_MF0228]", 2);
   ("pshufd 0x4E", 2);
   ("psllw 7", 1);
   ("psrad SCALEBITS", 4);
   ("psraw 1", 4);
   ("psrldq 2", 3);
   ("psrldq SIZEOF_DWORD", 1);
   ("psrldq SIZEOF_MMWORD", 1);
   ("psrlw BYTE_BIT", 5)].
Proof. reflexivity. Qed.
Lemma uses_jdcolext_avx2_ok : uses_jdcolext_avx2 =
  [("paddd [PD_ONEHALF]", 4);
   ("paddw [PW_ONE]", 4);
   ("perm2i128 0x20", 3);
   ("perm2i128 0x30", 1);
   ("perm2i128 0x31", 3);
   ("perm2i128 1", 2);
   ("pmaddwd [PW_MF0344_F0285]", 4);
   ("pmulhw [PW_F0402]", 2);
   ("pmulhw [PW_MF0228]", 2);
   ("pshufd 0x4E", 2);
   ("psllw 7", 1);
   ("psrad SCALEBITS", 4);
   ("psraw 1", 4);
   ("psrldq 2", 3);
   ("psrldq SIZEOF_DWORD", 1);
   ("psrldq SIZEOF_MMWORD", 1);
   ("psrlw BYTE_BIT", 5)].
Proof. reflexivity. Qed.
Lemma uses_jdmrgext_sse2_ok : uses_jdmrgext_sse2 =
  [("paddd [PD_ONEHALF]", 4);
   ("paddw [PW_ONE]", 4);
   ("pmaddwd [PW_MF0344_F0285]", 4);
   ("pmulhw [PW_F0402]", 2);
   ("pmulhw [PW_MF0228]", 2);
   ("pshufd 0x4E", 2);
   ("psllw 7", 1);
   ("psrad SCALEBITS", 4);
   ("psraw 1", 4);
   ("psrldq 2", 3);
   ("psrldq SIZEOF_DWORD", 1);
   ("psrldq SIZEOF_MMWORD", 1);
   ("psrlw BYTE_BIT", 2)].
Proof. reflexivity. Qed.
Lemma uses_jdmrgext_avx2_ok : uses_jdmrgext_avx2 =
  [("paddd [PD_ONEHALF]", 4);
   ("paddw [PW_ONE]", 4);
   ("perm2i128 0x20", 3);
   ("perm2i128 0x30", 1);
   ("perm2i128 0x31", 3);
   ("perm2i128 1", 2);
   ("permq 0xd8", 2);
   ("pmaddwd [PW_MF0344_F0285]", 4);
   ("pmulhw [PW_F0402]", 2);
   ("pmulhw [PW_MF0228]", 2);
   ("pshufd 0x4E", 2);
   ("psllw 7", 1);
   ("psrad SCALEBITS", 4);
   ("psraw 1", 4);
   ("psrldq 2", 3);
   ("psrldq SIZEOF_DWORD", 1);
   ("psrldq SIZEOF_MMWORD", 1);
   ("psrlw BYTE_BIT", 2)].
Proof. reflexivity. Qed.
Lemma uses_jdsample_sse2_ok : uses_jdsample_sse2 =
  [("paddw [PW_EIGHT]", 4);
   ("paddw [PW_ONE]", 2);
   ("paddw [PW_SEVEN]", 4);
   ("paddw [PW_TWO]", 2);
   ("pmullw [PW_THREE]", 10);
   ("pslldq (SIZEOF_XMMWORD-1)", 2);
   ("pslldq (SIZEOF_XMMWORD-2)", 5);
   ("pslldq 1", 1);
   ("pslldq 2", 4);
   ("psllw BYTE_BIT", 6);
   ("psrldq (SIZEOF_XMMWORD-1)", 2);
   ("psrldq (SIZEOF_XMMWORD-2)", 5);
   ("psrldq 1", 1);
   ("psrldq 2", 4);
   ("psrlw 2", 4);
   ("psrlw 4", 8)].
Proof. reflexivity. Qed.
Lemma uses_jdsample_avx2_ok : uses_jdsample_avx2 =
  [("paddw [PW_EIGHT]", 4);
   ("paddw [PW_ONE]", 2);
   ("paddw [PW_SEVEN]", 4);
   ("paddw [PW_TWO]", 2);
   ("palignr 1", 1);
   ("palignr 14", 4);
   ("palignr 15", 1);
   ("palignr 2", 4);
   ("perm2i128 0x03", 9);
   ("perm2i128 0x20", 19);
   ("perm2i128 0x31", 9);
   ("perm2i128 1", 2);
   ("permq 0xd8", 2);
   ("pmullw [PW_THREE]", 10);
   ("pslldq (SIZEOF_XMMWORD-1)", 1);
   ("pslldq (SIZEOF_XMMWORD-2)", 1);
   ("pslldq 14", 4);
   ("pslldq 15", 1);
   ("psllw BYTE_BIT", 6);
   ("psrldq (SIZEOF_XMMWORD-1)", 2);
   ("psrldq (SIZEOF_XMMWORD-2)", 1);
   ("psrldq 14", 4);
   ("psrlw 2", 4);
   ("psrlw 4", 8)].
Proof. reflexivity. Qed.
Lemma uses_jcsample_sse2_ok : uses_jcsample_sse2 =
  [("pshufd 0x00", 2);
   ("psrlw 1", 2);
   ("psrlw 2", 2);
   ("psrlw BYTE_BIT", 8)].
Proof. reflexivity. Qed.
Lemma uses_jcsample_avx2_ok : uses_jcsample_avx2 =
  [("perm2i128 0", 2);
   ("permq 0xd8", 2);
   ("pshufd 0x00", 2);
   ("psrlw 1", 2);
   ("psrlw 2", 2);
   ("psrlw BYTE_BIT", 8)].
Proof. reflexivity. Qed.
Lemma uses_jquanti_sse2_ok : uses_jquanti_sse2 =
  [("psllw 7", 1);
   ("psraw (WORD_BIT-1)", 4)].
Proof. reflexivity. Qed.
Lemma uses_jquanti_avx2_ok : uses_jquanti_avx2 =
  [("pinsrq 1", 4);
   ("psllw 7", 1)].
Proof. reflexivity. Qed.

(* all of them, for the property file *)
Definition transcription_fingerprint : Prop :=
  uses_jccolext_sse2 = ltac:(let v := eval vm_compute in uses_jccolext_sse2 in exact v) /\
  uses_jccolext_avx2 = ltac:(let v := eval vm_compute in uses_jccolext_avx2 in exact v) /\
  uses_jcgryext_sse2 = ltac:(let v := eval vm_compute in uses_jcgryext_sse2 in exact v) /\
  uses_jcgryext_avx2 = ltac:(let v := eval vm_compute in uses_jcgryext_avx2 in exact v) /\
  uses_jdcolext_sse2 = ltac:(let v := eval vm_compute in uses_jdcolext_sse2 in exact v) /\
  uses_jdcolext_avx2 = ltac:(let v := eval vm_compute in uses_jdcolext_avx2 in exact v) /\
  uses_jdmrgext_sse2 = ltac:(let v := eval vm_compute in uses_jdmrgext_sse2 in exact v) /\
  uses_jdmrgext_avx2 = ltac:(let v := eval vm_compute in uses_jdmrgext_avx2 in exact v) /\
  uses_jdsample_sse2 = ltac:(let v := eval vm_compute in uses_jdsample_sse2 in exact v) /\
  uses_jdsample_avx2 = ltac:(let v := eval vm_compute in uses_jdsample_avx2 in exact v) /\
  uses_jcsample_sse2 = ltac:(let v := eval vm_compute in uses_jcsample_sse2 in exact v) /\
  uses_jcsample_avx2 = ltac:(let v := eval vm_compute in uses_jcsample_avx2 in exact v) /\
  uses_jquanti_sse2 = ltac:(let v := eval vm_compute in uses_jquanti_sse2 in exact v) /\
  uses_jquanti_avx2 = ltac:(let v := eval vm_compute in uses_jquanti_avx2 in exact v).
Lemma transcription_fingerprint_ok : transcription_fingerprint.
Proof. unfold transcription_fingerprint. repeat split; reflexivity. Qed.
