(* C05 -- down/upsampling: the block-wise SIMD models equal the C loops for rows
   of ANY length (induction over the columns / blocks). *)
From Coq Require Import List ZArith Lia Bool Arith ZifyBool.
From LJT Require Import lib.Words gen.GenSimdConst model.SimdSample.
Import ListNotations.
Local Open Scope Z_scope.
Ltac Zify.zify_post_hook ::= Z.div_mod_to_equations.

Definition byte (x : Z) : Prop := 0 <= x <= 255.
Lemma shr_div x n : 0 <= n -> Z.shiftr x n = x / 2 ^ n.
Proof. intros. apply Z.shiftr_div_pow2. lia. Qed.

(* ================================================================ lists *)
Lemma alt_app {A B} (f0 f1 : A -> B) a b :
  alt f0 f1 (a ++ b) = alt f0 f1 a ++ (if Nat.even (length a) then alt f0 f1 b else alt f1 f0 b).
Proof.
  revert f0 f1. induction a as [|x a IH]; intros f0 f1; [reflexivity|].
  cbn [app alt length]. rewrite IH. rewrite Nat.even_succ, <- Nat.negb_even.
  destruct (Nat.even (length a)); reflexivity.
Qed.
Lemma alt_length {A B} (f0 f1 : A -> B) l : length (alt f0 f1 l) = length l.
Proof. revert f0 f1. induction l; intros; cbn; [|rewrite IHl]; reflexivity. Qed.
Lemma firstn_alt {A B} (f0 f1 : A -> B) n l : firstn n (alt f0 f1 l) = alt f0 f1 (firstn n l).
Proof.
  revert f0 f1 l. induction n; intros f0 f1 [|x l]; try reflexivity. cbn. rewrite IHn. reflexivity.
Qed.
Lemma alt_ext {A B} (P : A -> Prop) (f0 f1 g0 g1 : A -> B) l :
  (forall x, P x -> f0 x = g0 x) -> (forall x, P x -> f1 x = g1 x) -> Forall P l -> alt f0 f1 l = alt g0 g1 l.
Proof.
  intros H0 H1 HF. revert f0 f1 g0 g1 H0 H1. induction HF; intros; [reflexivity|].
  cbn. rewrite H0 by assumption. f_equal. apply IHHF; assumption.
Qed.

Lemma down_block_alt {A} (g0 g1 : A -> Z) V blk :
  Nat.even (V / 2) = true -> (V / 2 <= length blk)%nat -> asm_down_block g0 g1 V blk = alt g0 g1 blk.
Proof.
  intros He Hl. unfold asm_down_block.
  rewrite <- (firstn_skipn (V / 2) blk) at 3. rewrite alt_app.
  rewrite firstn_length, Nat.min_l by assumption. rewrite He. reflexivity.
Qed.

Lemma down_row_alt {A} (g0 g1 : A -> Z) zero V : (0 < V)%nat -> Nat.even (V / 2) = true -> Nat.even V = true ->
  forall fuel ps, (length ps < fuel)%nat ->
  firstn (length ps) (asm_down_row fuel g0 g1 zero V ps) = alt g0 g1 ps.
Proof.
  intros HV He HeV. induction fuel as [|f IH]; intros ps Hf; [lia|].
  cbn [asm_down_row].
  assert (Hhalf : (V / 2 <= V)%nat) by (apply Nat.div_le_upper_bound; lia).
  destruct (Nat.ltb_spec (length ps) V) as [Hlt|Hge].
  - rewrite down_block_alt by (try assumption; rewrite app_length, repeat_length; lia).
    rewrite firstn_alt, firstn_app, Nat.sub_diag, firstn_all. cbn [firstn]. rewrite app_nil_r. reflexivity.
  - rewrite down_block_alt by (try assumption; rewrite firstn_length; lia).
    destruct (Nat.eqb_spec (length ps) V) as [Heq|Hne].
    + rewrite app_nil_r. rewrite firstn_all2 by (rewrite alt_length, firstn_length; lia).
      rewrite <- Heq, firstn_all. reflexivity.
    + assert (Hlen : length ps = (V + length (skipn V ps))%nat) by (rewrite skipn_length; lia).
      rewrite Hlen at 1.
      rewrite firstn_app, alt_length, firstn_length, Nat.min_l by lia.
      rewrite firstn_all2 by (rewrite alt_length, firstn_length; lia).
      replace (V + length (skipn V ps) - V)%nat with (length (skipn V ps)) by lia.
      rewrite IH by (rewrite skipn_length; lia).
      rewrite <- (firstn_skipn V ps) at 3. rewrite alt_app.
      rewrite firstn_length, Nat.min_l by lia. rewrite HeV. reflexivity.
Qed.

(* ================================================================ downsample *)
Definition bpair (p : Z * Z) : Prop := byte (fst p) /\ byte (snd p).
Lemma list_ind2 (P : list Z -> Prop) :
  P [] -> (forall a, P [a]) -> (forall a b t, P t -> P (a :: b :: t)) -> forall l, P l.
Proof.
  intros H0 H1 H2. fix IH 1. intros [|a [|b t]]; [exact H0 | apply H1 | apply H2, IH].
Qed.
Lemma pairs_bytes l : Forall byte l -> Forall bpair (pairs l).
Proof.
  induction l as [|a|a b t IH] using list_ind2; intros H; try constructor.
  - inversion H as [|? ? Ha Ht]; inversion Ht; split; assumption.
  - apply IH. inversion H as [|? ? Ha Ht]; inversion Ht; assumption.
Qed.
Lemma pairs_length l : length (pairs l) = (length l / 2)%nat.
Proof.
  induction l as [|a|a b t IH] using list_ind2; try reflexivity.
  cbn [pairs length]. rewrite IH.
  change (S (S (length t))) with (2 + length t)%nat.
  replace (2 + length t)%nat with (length t + 1 * 2)%nat by lia. rewrite Nat.div_add by lia. lia.
Qed.
Lemma In_firstn' {A} n (l : list A) x : In x (firstn n l) -> In x l.
Proof.
  revert l. induction n; intros [|y l] H; cbn in *; try tauto. destruct H; [left; assumption | right; apply IHn; assumption].
Qed.
Lemma firstn_bytes n l : Forall byte l -> Forall byte (firstn n l).
Proof. intros H. apply Forall_forall. intros x Hx. rewrite Forall_forall in H. apply H. revert Hx. apply In_firstn'. Qed.
Lemma expand_bytes iw need row : Forall byte row -> (1 <= iw <= length row)%nat -> Forall byte (expand_right iw need row).
Proof.
  intros H Hi. unfold expand_right. apply Forall_app. split.
  - apply firstn_bytes. assumption.
  - apply Forall_forall. intros x Hx. apply repeat_spec in Hx. subst. rewrite Forall_forall in H. apply H. apply nth_In. lia.
Qed.
Lemma expand_length iw need row : (iw <= length row)%nat -> (iw <= need)%nat -> length (expand_right iw need row) = need.
Proof. intros. unfold expand_right. rewrite app_length, firstn_length, repeat_length. lia. Qed.

(* lanes *)
Lemma h2v1_lane_eq bias p : bpair p -> 0 <= bias <= 1 ->
  asm_h2v1_lane bias 1 p = w8 (Z.shiftr (fst p + snd p + bias) 1).
Proof.
  intros [Ha Hb] Hbias. unfold byte in *. unfold asm_h2v1_lane, paddw.
  rewrite (w16_small (fst p + snd p)) by lia. rewrite w16_small by lia.
  unfold psrlw. rewrite shr_div by lia. change (2 ^ 1) with 2.
  assert (0 <= (fst p + snd p + bias) / 2 <= 255) by lia.
  unfold packuswb. rewrite s16_small by lia.
  destruct (_ <? 0) eqn:?; [lia|]. destruct (255 <? _) eqn:?; [lia|].
  unfold w8. rewrite Z.mod_small by lia. reflexivity.
Qed.
Definition bquad (q : (Z * Z) * (Z * Z)) : Prop := bpair (fst q) /\ bpair (snd q).
Lemma h2v2_lane_eq bias q : bquad q -> 1 <= bias <= 2 ->
  asm_h2v2_lane bias 2 q = w8 (Z.shiftr (fst (fst q) + snd (fst q) + fst (snd q) + snd (snd q) + bias) 2).
Proof.
  intros [[Ha Hb] [Hc Hd]] Hbias. unfold byte in *. unfold asm_h2v2_lane, paddw.
  rewrite (w16_small (fst (fst q) + snd (fst q))) by lia. rewrite (w16_small (fst (snd q) + snd (snd q))) by lia.
  rewrite (w16_small (fst (fst q) + snd (fst q) + (fst (snd q) + snd (snd q)))) by lia. rewrite w16_small by lia.
  unfold psrlw. rewrite shr_div by lia. change (2 ^ 2) with 4.
  replace (fst (fst q) + snd (fst q) + (fst (snd q) + snd (snd q)) + bias) with
    (fst (fst q) + snd (fst q) + fst (snd q) + snd (snd q) + bias) by lia.
  assert (0 <= (fst (fst q) + snd (fst q) + fst (snd q) + snd (snd q) + bias) / 4 <= 255) by lia.
  unfold packuswb. rewrite s16_small by lia.
  destruct (_ <? 0) eqn:?; [lia|]. destruct (255 <? _) eqn:?; [lia|].
  unfold w8. rewrite Z.mod_small by lia. reflexivity.
Qed.

(* the C loops are alternating maps *)
Definition c_h2v1_lane (bias : Z) (p : Z * Z) : Z := w8 (Z.shiftr (fst p + snd p + bias) (c3_2 c_h2v1_down)).
Lemma c_h2v1_loop_alt b x ps : Z.lxor (Z.lxor b x) x = b -> c3_3 c_h2v1_down = x ->
  c_h2v1_loop b ps = alt (c_h2v1_lane b) (c_h2v1_lane (Z.lxor b x)) ps.
Proof.
  intros Hx Hc. revert b Hx. induction ps as [|[a c] t IH]; intros b Hx; [reflexivity|].
  cbn [c_h2v1_loop alt]. rewrite Hc. f_equal. rewrite IH.
  - rewrite Hx. reflexivity.
  - rewrite Hx. reflexivity.
Qed.
Definition c_h2v2_lane (bias : Z) (q : (Z * Z) * (Z * Z)) : Z :=
  w8 (Z.shiftr (fst (fst q) + snd (fst q) + fst (snd q) + snd (snd q) + bias) (c3_2 c_h2v2_down)).
Lemma c_h2v2_loop_alt b x qs : Z.lxor (Z.lxor b x) x = b -> c3_3 c_h2v2_down = x ->
  c_h2v2_loop b qs = alt (c_h2v2_lane b) (c_h2v2_lane (Z.lxor b x)) qs.
Proof.
  intros Hx Hc. revert b Hx. induction qs as [|[[a0 b0] [a1 b1]] t IH]; intros b Hx; [reflexivity|].
  cbn [c_h2v2_loop alt]. rewrite Hc. f_equal. rewrite IH.
  - rewrite Hx. reflexivity.
  - rewrite Hx. reflexivity.
Qed.

Definition down_consts_ok (K : down_consts) : Prop :=
  fst (dn_b1 K) = c3_1 c_h2v1_down /\ snd (dn_b1 K) = Z.lxor (c3_1 c_h2v1_down) (c3_3 c_h2v1_down) /\
  dn_s1 K = c3_2 c_h2v1_down /\
  fst (dn_b2 K) = c3_1 c_h2v2_down /\ snd (dn_b2 K) = Z.lxor (c3_1 c_h2v2_down) (c3_3 c_h2v2_down) /\
  dn_s2 K = c3_2 c_h2v2_down.
Lemma jcsample_sse2_ok : down_consts_ok jcsample_sse2_consts. Proof. vm_compute. repeat split; reflexivity. Qed.
Lemma jcsample_avx2_ok : down_consts_ok jcsample_avx2_consts. Proof. vm_compute. repeat split; reflexivity. Qed.
Lemma c_down_values : c_h2v1_down = (0, 1, 1) /\ c_h2v2_down = (1, 2, 3).
Proof. split; reflexivity. Qed.

Definition vec_ok (V : nat) : Prop := (0 < V)%nat /\ Nat.even (V / 2) = true /\ Nat.even V = true.
Lemma vec16 : vec_ok 16. Proof. repeat split; cbn; lia. Qed.
Lemma vec32 : vec_ok 32. Proof. repeat split; cbn; lia. Qed.

Theorem h2v1_downsample_eq K V iw ocols row :
  down_consts_ok K -> vec_ok V -> Forall byte row -> (1 <= iw <= length row)%nat -> (iw <= 2 * ocols)%nat ->
  asm_h2v1_downsample K V iw ocols row = c_h2v1_downsample iw ocols row.
Proof.
  intros (K1 & K2 & K3 & _) (HV & He & HeV) Hb Hiw Hoc.
  unfold asm_h2v1_downsample, c_h2v1_downsample.
  set (ps := pairs (firstn (2 * ocols) (expand_right iw (2 * ocols) row))).
  assert (Hps : Forall bpair ps) by (apply pairs_bytes, firstn_bytes, expand_bytes; assumption).
  assert (Hlen : length ps = ocols).
  { unfold ps. rewrite pairs_length, firstn_length, expand_length by lia. rewrite Nat.min_id.
    replace (2 * ocols)%nat with (ocols * 2)%nat by lia. apply Nat.div_mul. lia. }
  rewrite <- Hlen at 1. rewrite down_row_alt by (try assumption; lia).
  destruct c_down_values as [C1 _].
  rewrite (c_h2v1_loop_alt _ (c3_3 c_h2v1_down)) by (rewrite ?C1; reflexivity).
  rewrite K1, K2, K3. apply (alt_ext bpair); try assumption; intros p Hp; unfold c_h2v1_lane; rewrite C1; cbn [c3_1 c3_2 c3_3 fst snd];
    apply h2v1_lane_eq; (assumption || (cbn; lia)).
Qed.

Lemma combine_bquad a b : Forall bpair a -> Forall bpair b -> Forall bquad (combine a b).
Proof.
  intros Ha. revert b. induction Ha; intros b Hb; [constructor|].
  destruct Hb; [constructor|]. cbn. constructor; [split; assumption|]. apply IHHa. assumption.
Qed.

Theorem h2v2_downsample_eq K V iw ocols row0 row1 :
  down_consts_ok K -> vec_ok V -> Forall byte row0 -> Forall byte row1 ->
  (1 <= iw <= length row0)%nat -> (iw <= length row1)%nat -> (iw <= 2 * ocols)%nat ->
  asm_h2v2_downsample K V iw ocols row0 row1 = c_h2v2_downsample iw ocols row0 row1.
Proof.
  intros (_ & _ & _ & K1 & K2 & K3) (HV & He & HeV) Hb0 Hb1 Hiw0 Hiw1 Hoc.
  unfold asm_h2v2_downsample, c_h2v2_downsample.
  set (p0 := pairs (firstn (2 * ocols) (expand_right iw (2 * ocols) row0))).
  set (p1 := pairs (firstn (2 * ocols) (expand_right iw (2 * ocols) row1))).
  assert (H0 : Forall bpair p0) by (apply pairs_bytes, firstn_bytes, expand_bytes; assumption || lia).
  assert (H1 : Forall bpair p1) by (apply pairs_bytes, firstn_bytes, expand_bytes; assumption || lia).
  assert (L0 : length p0 = ocols).
  { unfold p0. rewrite pairs_length, firstn_length, expand_length by lia. rewrite Nat.min_id.
    replace (2 * ocols)%nat with (ocols * 2)%nat by lia. apply Nat.div_mul. lia. }
  assert (L1 : length p1 = ocols).
  { unfold p1. rewrite pairs_length, firstn_length, expand_length by lia. rewrite Nat.min_id.
    replace (2 * ocols)%nat with (ocols * 2)%nat by lia. apply Nat.div_mul. lia. }
  set (qs := combine p0 p1).
  assert (Hq : Forall bquad qs) by (apply combine_bquad; assumption).
  assert (Hlen : length qs = ocols) by (unfold qs; rewrite combine_length; lia).
  rewrite <- Hlen at 1. rewrite down_row_alt by (try assumption; lia).
  destruct c_down_values as [_ C2].
  rewrite (c_h2v2_loop_alt _ (c3_3 c_h2v2_down)) by (rewrite ?C2; reflexivity).
  rewrite K1, K2, K3. apply (alt_ext bquad); try assumption; intros q Hq'; unfold c_h2v2_lane; rewrite C2; cbn [c3_1 c3_2 c3_3 fst snd];
    apply h2v2_lane_eq; (assumption || (cbn; lia)).
Qed.

(* ================================================================ stencils *)
Lemma stencil_length {A B} (f : A -> A -> A -> B) l : forall p n, length (stencil f p l n) = length l.
Proof.
  induction l as [|x t IH]; intros p n; [reflexivity|].
  cbn [stencil]. destruct t as [|y t']; [reflexivity|]. cbn [length]. rewrite IH. reflexivity.
Qed.
Lemma last_default {A} (l : list A) d d' : l <> [] -> last l d = last l d'.
Proof.
  induction l as [|x t IH]; intros H; [congruence|].
  destruct t as [|y t']; [reflexivity|]. cbn [last]. apply IH. discriminate.
Qed.
Lemma last_app_ne {A} (a b : list A) d : b <> [] -> last (a ++ b) d = last b d.
Proof.
  intros Hb. induction a as [|x a IH]; [reflexivity|].
  cbn [app]. remember (a ++ b) as l eqn:E. destruct l as [|z l']; [destruct a; cbn in E; congruence|].
  change (last (x :: z :: l') d) with (last (z :: l') d). exact IH.
Qed.
(* a row cut in two: the left part sees the head of the right part, the right part sees the
   last element of the left part *)
Lemma stencil_app {A B} (f : A -> A -> A -> B) a : forall b p n, a <> [] -> b <> [] ->
  stencil f p (a ++ b) n = stencil f p a (hd n b) ++ stencil f (last a p) b n.
Proof.
  induction a as [|x a IH]; intros b p n Ha Hb; [congruence|].
  destruct a as [|y a'].
  - cbn [app]. destruct b as [|z b']; [congruence|]. cbn [stencil hd last app]. reflexivity.
  - change ((x :: y :: a') ++ b) with (x :: (y :: a') ++ b).
    cbn [stencil]. change ((y :: a') ++ b) with (y :: a' ++ b). cbn iota.
    change (y :: a' ++ b) with ((y :: a') ++ b).
    rewrite IH by (assumption || discriminate).
    cbn [app]. f_equal. f_equal. change (last (x :: y :: a') p) with (last (y :: a') p).
    f_equal. apply last_default. discriminate.
Qed.
Lemma firstn_stencil_app {A B} (f : A -> A -> A -> B) a b p n : b <> [] ->
  firstn (length a) (stencil f p (a ++ b) n) = stencil f p a (hd n b).
Proof.
  intros Hb. destruct a as [|x a']; [reflexivity|].
  rewrite stencil_app by (assumption || discriminate).
  rewrite <- (stencil_length f (x :: a') p (hd n b)) at 1.
  rewrite firstn_app, Nat.sub_diag, firstn_all. cbn [firstn]. apply app_nil_r.
Qed.

(* the block loop computes the stencil of the whole (padded) row *)
Lemma fancy_blocks_stencil {A B} (f : A -> A -> A -> B) V : (0 < V)%nat ->
  forall fuel row prev, (length row < fuel)%nat -> row <> [] ->
  asm_fancy_blocks fuel f V prev row = stencil f prev row (last row prev).
Proof.
  intros HV. induction fuel as [|fu IH]; intros row prev Hf Hne; [lia|].
  cbn [asm_fancy_blocks].
  destruct (skipn V row) as [|n rest] eqn:Hs.
  - assert (Hall : firstn V row = row).
    { rewrite <- (firstn_skipn V row) at 2. rewrite Hs. symmetry. apply app_nil_r. }
    rewrite Hall. reflexivity.
  - assert (Hblk : firstn V row <> []).
    { destruct row; [congruence|]. destruct V; [lia|]. discriminate. }
    assert (Hlen : (length (n :: rest) < fu)%nat).
    { assert (Hk : length (skipn V row) = (length row - V)%nat) by apply skipn_length. rewrite Hs in Hk.
      destruct row; [congruence|]. cbn [length] in *. lia. }
    rewrite IH by (assumption || discriminate).
    assert (Hrow : row = firstn V row ++ n :: rest) by (rewrite <- Hs; symmetry; apply firstn_skipn).
    set (blk := firstn V row) in *. clearbody blk. subst row. clear Hs Hf Hne.
    rewrite stencil_app by (assumption || discriminate).
    cbn [hd]. f_equal. f_equal.
    rewrite last_app_ne by discriminate. apply last_default. discriminate.
Qed.

(* padding: the valid columns followed by a copy of the last valid one and anything *)
Lemma fancy_padded {A B} (f : A -> A -> A -> B) V valid g d : (0 < V)%nat -> valid <> [] ->
  let row := valid ++ last valid d :: g in
  firstn (length valid) (asm_fancy_blocks (S (length row)) f V (hd d row) row) =
  stencil f (hd d valid) valid (last valid d).
Proof.
  intros HV Hne row.
  rewrite fancy_blocks_stencil by (try assumption; try lia; unfold row; destruct valid; discriminate).
  unfold row. rewrite firstn_stencil_app by discriminate. cbn [hd].
  destruct valid; [congruence|]. reflexivity.
Qed.
Lemma fancy_exact {A B} (f : A -> A -> A -> B) V valid d : (0 < V)%nat -> valid <> [] ->
  firstn (length valid) (asm_fancy_blocks (S (length valid)) f V (hd d valid) valid) =
  stencil f (hd d valid) valid (last valid d).
Proof.
  intros HV Hne. rewrite fancy_blocks_stencil by (try assumption; lia).
  rewrite <- (stencil_length f valid (hd d valid) (last valid (hd d valid))) at 1. rewrite firstn_all.
  f_equal. apply last_default. assumption.
Qed.

(* the row the kernel really reads: firstn (roundup w V) (dummy w V buf) *)
Lemma roundup_cases w V : (0 < V)%nat ->
  (w mod V = 0 /\ roundup w V = w)%nat \/ (w mod V <> 0 /\ w < roundup w V)%nat.
Proof.
  intros HV. unfold roundup. destruct (Nat.eqb_spec (w mod V) 0) as [E|E]; [left; auto|right].
  split; [assumption|]. pose proof (Nat.div_mod w V ltac:(lia)). pose proof (Nat.mod_upper_bound w V ltac:(lia)). nia.
Qed.
Lemma last_firstn_nth (buf : list Z) w d : (1 <= w <= length buf)%nat -> last (firstn w buf) d = nth (w - 1) buf d.
Proof.
  revert w. induction buf as [|x t IH]; intros w H; [cbn in H; lia|].
  destruct w as [|[|w'']]; [lia | reflexivity |].
  destruct t as [|y t']; [cbn in H; lia|].
  change (firstn (S (S w'')) (x :: y :: t')) with (x :: y :: firstn w'' t').
  change (last (x :: y :: firstn w'' t') d) with (last (y :: firstn w'' t') d).
  change (y :: firstn w'' t') with (firstn (S w'') (y :: t')).
  rewrite IH by (cbn in *; lia).
  replace (S (S w'') - 1)%nat with (S (S w'' - 1)) by lia. reflexivity.
Qed.
Lemma kernel_row_shape w V buf : (0 < V)%nat -> (1 <= w)%nat -> (roundup w V <= length buf)%nat ->
  let valid := firstn w buf in
  let row := firstn (roundup w V) (dummy w V buf) in
  length valid = w /\ valid <> [] /\ (((w mod V)%nat = 0%nat /\ row = valid) \/ ((w mod V)%nat <> 0%nat /\ exists g, row = valid ++ last valid 0 :: g)).
Proof.
  intros HV Hw Hlen valid row.
  assert (Lv : length valid = w).
  { unfold valid. rewrite firstn_length. destruct (roundup_cases w V HV) as [[_ E]|[_ E]]; lia. }
  split; [exact Lv|]. split; [destruct valid; [cbn in Lv; lia|discriminate]|].
  unfold row, dummy. destruct (roundup_cases w V HV) as [[Hm E]|[Hm E]].
  - left. split; [assumption|]. rewrite E. apply Nat.eqb_eq in Hm. rewrite Hm. reflexivity.
  - right. split; [assumption|]. apply Nat.eqb_neq in Hm. rewrite Hm.
    rewrite firstn_app. rewrite firstn_all2 by (fold valid; lia). fold valid. rewrite Lv.
    replace (roundup w V - w)%nat with (S (roundup w V - w - 1)) by lia.
    cbn [app firstn]. eexists. f_equal. f_equal.
    unfold valid. symmetry. apply last_firstn_nth. lia.
Qed.

(* ================================================================ fancy upsample lanes *)
Definition up_consts_ok (U : up_consts) : Prop :=
  u_ONE U = 1 /\ u_TWO U = 2 /\ u_THREE U = 3 /\ u_SEVEN U = 7 /\ u_EIGHT U = 8 /\ u_s1 U = 2 /\ u_s2 U = 4.
Lemma jdsample_sse2_ok : up_consts_ok jdsample_sse2_consts. Proof. vm_compute. repeat split; reflexivity. Qed.
Lemma jdsample_avx2_ok : up_consts_ok jdsample_avx2_consts. Proof. vm_compute. repeat split; reflexivity. Qed.
(* all shifts of a kernel are the same immediate, and the rows used are the expected ones *)
Lemma jdsample_shifts_uniform :
  forallb (Z.eqb 2) jdsample_sse2_h2v1_fancy_psrlw && forallb (Z.eqb 4) jdsample_sse2_h2v2_fancy_psrlw &&
  forallb (Z.eqb 2) jdsample_avx2_h2v1_fancy_psrlw && forallb (Z.eqb 4) jdsample_avx2_h2v2_fancy_psrlw = true.
Proof. vm_compute. reflexivity. Qed.
Lemma c_fancy_values :
  c_h2v1_fancy_first = (3, 2, 2) /\ c_h2v1_fancy_mid = (3, 1, 2, 2, 2) /\ c_h2v1_fancy_last = (3, 1, 2) /\
  c_h2v2_fancy_vmult = 3 /\ c_h2v2_fancy_first = [4; 8; 4; 3; 7; 4] /\ c_h2v2_fancy_mid = [3; 8; 4; 3; 7; 4] /\
  c_h2v2_fancy_last = [3; 8; 4; 4; 7; 4] /\ c_fancy_min_width_gt = 2.
Proof. repeat split; reflexivity. Qed.

(* the uniform ("neighbour clamped") form both sides are compared with *)
Definition g1 (l t r : Z) : Z * Z := (w8 (sh (t * 3 + l + 1) 2), w8 (sh (t * 3 + r + 2) 2)).
Definition g2 (l t r : Z) : Z * Z := (w8 (sh (t * 3 + l + 8) 4), w8 (sh (t * 3 + r + 7) 4)).

Lemma h2v1_lane_f_eq U l t r : up_consts_ok U -> byte l -> byte t -> byte r -> asm_h2v1_lane_f U l t r = g1 l t r.
Proof.
  intros (E1 & E2 & E3 & _ & _ & S1 & _) Hl Ht Hr. unfold byte in *.
  unfold asm_h2v1_lane_f, g1. rewrite E1, E2, E3, S1.
  unfold pmullw, paddw. rewrite (w16_small (t * 3)) by lia.
  rewrite (w16_small (l + 1)), (w16_small (r + 2)) by lia. rewrite !w16_small by lia.
  unfold psrlw, sh. rewrite !shr_div by lia. change (2 ^ 2) with 4.
  destruct (pack_eo_bytes ((l + 1 + t * 3) / 4) ((r + 2 + t * 3) / 4)) as [A B]; try lia.
  rewrite A, B. unfold w8.
  replace (t * 3 + l + 1) with (l + 1 + t * 3) by lia. replace (t * 3 + r + 2) with (r + 2 + t * 3) by lia.
  rewrite !Z.mod_small by lia. reflexivity.
Qed.
Definition sum16 (x : Z) : Prop := 0 <= x <= 1020.
Lemma h2v2_lane_f_eq U l t r : up_consts_ok U -> sum16 l -> sum16 t -> sum16 r -> asm_h2v2_lane_f U l t r = g2 l t r.
Proof.
  intros (_ & _ & E3 & E7 & E8 & _ & S2) Hl Ht Hr. unfold sum16 in *.
  unfold asm_h2v2_lane_f, g2. rewrite E3, E7, E8, S2.
  unfold pmullw, paddw. rewrite (w16_small (t * 3)) by lia.
  rewrite (w16_small (l + 8)), (w16_small (r + 7)) by lia. rewrite !w16_small by lia.
  unfold psrlw, sh. rewrite !shr_div by lia. change (2 ^ 4) with 16.
  destruct (pack_eo_bytes ((l + 8 + t * 3) / 16) ((r + 7 + t * 3) / 16)) as [A B]; try lia.
  rewrite A, B. unfold w8.
  replace (t * 3 + l + 8) with (l + 8 + t * 3) by lia. replace (t * 3 + r + 7) with (r + 7 + t * 3) by lia.
  rewrite !Z.mod_small by lia. reflexivity.
Qed.
Lemma stencil_ext {A B} (P : A -> Prop) (f g : A -> A -> A -> B) l :
  (forall a b c, P a -> P b -> P c -> f a b c = g a b c) -> Forall P l ->
  forall p n, P p -> P n -> stencil f p l n = stencil g p l n.
Proof.
  intros H HF. induction HF as [|x t Hx Ht IH]; intros p n Hp Hn; [reflexivity|].
  cbn [stencil]. destruct t as [|y t'].
  - rewrite H by assumption. reflexivity.
  - inversion Ht; subst. rewrite H by assumption. f_equal. apply IH; assumption.
Qed.

(* ---- the C loops are the clamped stencil ---- *)
Lemma c_h2v1_mid_stencil rest : forall left this, byte this -> Forall byte rest ->
  c_h2v1_mid left this rest = stencil g1 left (this :: rest) (last (this :: rest) 0).
Proof.
  destruct c_fancy_values as (_ & M & L & _).
  induction rest as [|nxt r IH]; intros left this Ht Hr.
  - cbn [c_h2v1_mid stencil last]. rewrite L. cbn [c3_1 c3_2 c3_3 fst snd]. unfold g1. f_equal. f_equal.
    unfold byte in Ht. unfold w8, sh. rewrite shr_div by lia. change (2 ^ 2) with 4.
    replace (this * 3 + this + 2) with (2 + this * 4) by lia. rewrite Z.div_add by lia.
    change (2 / 4) with 0. rewrite Z.mod_small by lia. lia.
  - inversion Hr; subst. cbn [c_h2v1_mid]. rewrite IH by assumption. rewrite M. cbn [c5 nth].
    change (last (this :: nxt :: r) 0) with (last (nxt :: r) 0). cbn [stencil]. reflexivity.
Qed.
Lemma c_h2v1_fancy_stencil row : (2 <= length row)%nat -> Forall byte row ->
  c_h2v1_fancy row = stencil g1 (hd 0 row) row (last row 0).
Proof.
  destruct c_fancy_values as (F & _).
  intros Hl Hb. destruct row as [|x0 [|x1 r]]; try (cbn in Hl; lia).
  inversion Hb as [|? ? H0 Hb']; subst. inversion Hb' as [|? ? H1 Hr]; subst.
  cbn [c_h2v1_fancy]. rewrite c_h2v1_mid_stencil by assumption. rewrite F. cbn [c3_1 c3_2 c3_3 fst snd hd].
  change (last (x0 :: x1 :: r) 0) with (last (x1 :: r) 0). cbn [stencil]. f_equal.
  unfold g1. f_equal. unfold byte in H0. unfold w8, sh. rewrite shr_div by lia. change (2 ^ 2) with 4.
  replace (x0 * 3 + x0 + 1) with (1 + x0 * 4) by lia. rewrite Z.div_add by lia.
  change (1 / 4) with 0. rewrite Z.mod_small by lia. lia.
Qed.

Lemma bytes_last l d : Forall byte l -> byte d -> byte (last l d).
Proof. intros H Hd. induction H; [assumption|]. destruct l; [assumption|]. exact IHForall. Qed.
Lemma bytes_hd l d : Forall byte l -> byte d -> byte (hd d l).
Proof. intros H Hd. destruct H; assumption. Qed.
Lemma byte0 : byte 0. Proof. unfold byte. lia. Qed.

Theorem h2v1_fancy_eq U V w buf :
  up_consts_ok U -> (0 < V)%nat -> (3 <= w)%nat -> (roundup w V <= length buf)%nat -> Forall byte buf ->
  asm_h2v1_fancy U V w buf = c_h2v1_fancy (firstn w buf).
Proof.
  intros HU HV Hw Hlen Hb.
  destruct (kernel_row_shape w V buf HV ltac:(lia) Hlen) as (Lv & Hne & Hshape).
  set (valid := firstn w buf) in *.
  assert (Hvb : Forall byte valid) by (apply firstn_bytes; assumption).
  rewrite c_h2v1_fancy_stencil by (try assumption; lia).
  unfold asm_h2v1_fancy. rewrite <- Lv at 1.
  destruct Hshape as [[_ E] | [_ [g E]]]; rewrite E.
  - rewrite fancy_exact by assumption.
    apply (stencil_ext byte); try assumption.
    + intros. apply h2v1_lane_f_eq; assumption.
    + apply bytes_hd; [assumption | apply byte0].
    + apply bytes_last; [assumption | apply byte0].
  - rewrite fancy_padded by assumption.
    apply (stencil_ext byte); try assumption.
    + intros. apply h2v1_lane_f_eq; assumption.
    + apply bytes_hd; [assumption | apply byte0].
    + apply bytes_last; [assumption | apply byte0].
Qed.

(* ---- h2v2 ---- *)
Lemma map2_app {A B C} (f : A -> B -> C) a a' b b' : length a = length b ->
  map2 f (a ++ a') (b ++ b') = map2 f a b ++ map2 f a' b'.
Proof.
  revert b. induction a as [|x a IH]; intros [|y b] H; cbn in H; try lia; [reflexivity|].
  unfold map2 in *. cbn [app combine map fst snd]. f_equal. apply IH. lia.
Qed.
Lemma map2_length {A B C} (f : A -> B -> C) a b : length a = length b -> length (map2 f a b) = length a.
Proof. intros. unfold map2. rewrite map_length, combine_length. lia. Qed.
Lemma map2_last {A B C} (f : A -> B -> C) a : forall b da db dc, length a = length b -> a <> [] ->
  last (map2 f a b) dc = f (last a da) (last b db).
Proof.
  induction a as [|x a IH]; intros [|y b] da db dc H Hne; cbn in H; try lia; [congruence|].
  destruct a as [|x' a']; destruct b as [|y' b']; cbn in H; try lia; [reflexivity|].
  change (map2 f (x :: x' :: a') (y :: y' :: b')) with (f x y :: map2 f (x' :: a') (y' :: b')).
  change (last (x :: x' :: a') da) with (last (x' :: a') da). change (last (y :: y' :: b') db) with (last (y' :: b') db).
  rewrite <- (IH (y' :: b') da db dc) by (cbn; lia || discriminate).
  change (map2 f (x' :: a') (y' :: b')) with (f x' y' :: map2 f a' b'). reflexivity.
Qed.
Lemma map2_Forall {A B C} (P : A -> Prop) (Q : B -> Prop) (R : C -> Prop) (f : A -> B -> C) a b :
  (forall x y, P x -> Q y -> R (f x y)) -> Forall P a -> Forall Q b -> Forall R (map2 f a b).
Proof.
  intros H Ha. revert b. induction Ha; intros b Hb; [constructor|]. destruct Hb; [constructor|].
  unfold map2 in *. cbn. constructor; [apply H; assumption | apply IHHa; assumption].
Qed.
Lemma map2_ext {A B C} (P : A -> Prop) (Q : B -> Prop) (f g : A -> B -> C) a b :
  (forall x y, P x -> Q y -> f x y = g x y) -> Forall P a -> Forall Q b -> map2 f a b = map2 g a b.
Proof.
  intros H Ha. revert b. induction Ha; intros b Hb; [reflexivity|]. destruct Hb; [reflexivity|].
  unfold map2 in *. cbn. f_equal; [apply H; assumption | apply IHHa; assumption].
Qed.

Lemma colsum_eq U a b : up_consts_ok U -> byte a -> byte b -> asm_colsum U a b = a * 3 + b /\ sum16 (a * 3 + b).
Proof.
  intros (_ & _ & E3 & _) Ha Hb. unfold byte, sum16 in *. unfold asm_colsum, pmullw, paddw. rewrite E3.
  rewrite (w16_small (a * 3)) by lia. rewrite w16_small by lia. lia.
Qed.

Lemma c_h2v2_mid_stencil rest : forall lastc this, sum16 this -> Forall sum16 rest ->
  c_h2v2_mid lastc this rest = stencil g2 lastc (this :: rest) (last (this :: rest) 0).
Proof.
  destruct c_fancy_values as (_ & _ & _ & _ & _ & M & L & _).
  induction rest as [|nxt r IH]; intros lastc this Ht Hr.
  - cbn [c_h2v2_mid stencil last]. rewrite L. cbn [z6 nth]. unfold g2. f_equal. f_equal.
    unfold sum16 in Ht. unfold sh. rewrite !shr_div by lia. change (2 ^ 4) with 16. f_equal. f_equal. lia.
  - inversion Hr; subst. cbn [c_h2v2_mid]. rewrite IH by assumption. rewrite M. cbn [z6 nth].
    change (last (this :: nxt :: r) 0) with (last (nxt :: r) 0). cbn [stencil]. reflexivity.
Qed.
Lemma c_h2v2_fancy_stencil in0 in1 : (2 <= length in0)%nat -> length in0 = length in1 -> Forall byte in0 -> Forall byte in1 ->
  let cs := map2 (fun a b => a * 3 + b) in0 in1 in
  c_h2v2_fancy in0 in1 = stencil g2 (hd 0 cs) cs (last cs 0).
Proof.
  destruct c_fancy_values as (_ & _ & _ & VM & F & _).
  intros Hl Hll H0 H1 cs.
  assert (Hcs : map2 c_colsum in0 in1 = cs).
  { unfold cs. apply (map2_ext byte byte); try assumption. intros. unfold c_colsum. rewrite VM. reflexivity. }
  assert (Hs : Forall sum16 cs).
  { unfold cs. apply (map2_Forall byte byte); try assumption. intros x y Hx Hy. unfold byte, sum16 in *. lia. }
  assert (Lc : length cs = length in0) by (unfold cs; apply map2_length; assumption).
  unfold c_h2v2_fancy. rewrite Hcs.
  destruct cs as [|s0 [|s1 r]]; try (cbn in Lc; lia).
  inversion Hs as [|? ? S0 Hs']; subst. inversion Hs' as [|? ? S1 Hr]; subst.
  rewrite c_h2v2_mid_stencil by assumption. rewrite F. cbn [z6 nth hd].
  change (last (s0 :: s1 :: r) 0) with (last (s1 :: r) 0). cbn [stencil]. f_equal.
  unfold g2. f_equal. unfold sum16 in S0. unfold sh. rewrite !shr_div by lia. change (2 ^ 4) with 16. f_equal. f_equal. lia.
Qed.

Lemma sum16_0 : sum16 0. Proof. unfold sum16. lia. Qed.
Lemma sums_last l d : Forall sum16 l -> sum16 d -> sum16 (last l d).
Proof. intros H Hd. induction H; [assumption|]. destruct l; [assumption|]. exact IHForall. Qed.
Lemma sums_hd l d : Forall sum16 l -> sum16 d -> sum16 (hd d l).
Proof. intros H Hd. destruct H; assumption. Qed.

Theorem h2v2_fancy_eq U V w buf0 buf1 :
  up_consts_ok U -> (0 < V)%nat -> (3 <= w)%nat ->
  (roundup w V <= length buf0)%nat -> (roundup w V <= length buf1)%nat -> Forall byte buf0 -> Forall byte buf1 ->
  asm_h2v2_fancy U V w buf0 buf1 = c_h2v2_fancy (firstn w buf0) (firstn w buf1).
Proof.
  intros HU HV Hw Hl0 Hl1 Hb0 Hb1.
  destruct (kernel_row_shape w V buf0 HV ltac:(lia) Hl0) as (L0 & N0 & S0).
  destruct (kernel_row_shape w V buf1 HV ltac:(lia) Hl1) as (L1 & N1 & S1).
  set (v0 := firstn w buf0) in *. set (v1 := firstn w buf1) in *.
  assert (B0 : Forall byte v0) by (apply firstn_bytes; assumption).
  assert (B1 : Forall byte v1) by (apply firstn_bytes; assumption).
  rewrite c_h2v2_fancy_stencil by (try assumption; lia).
  set (cs := map2 (fun a b => a * 3 + b) v0 v1).
  assert (Hcs : map2 (asm_colsum U) v0 v1 = cs).
  { apply (map2_ext byte byte); try assumption. intros x y Hx Hy. apply colsum_eq; assumption. }
  assert (Hs : Forall sum16 cs).
  { unfold cs. apply (map2_Forall byte byte); try assumption. intros x y Hx Hy. unfold byte, sum16 in *. lia. }
  assert (Lc : length cs = w) by (unfold cs; rewrite map2_length; lia).
  assert (Nc : cs <> []) by (destruct cs; [cbn in Lc; lia | discriminate]).
  unfold asm_h2v2_fancy. rewrite <- Lc at 1.
  destruct S0 as [[M0 E0] | [M0 [g0 E0]]]; destruct S1 as [[M1 E1] | [M1 [g1 E1]]]; try congruence; rewrite E0, E1.
  - rewrite Hcs. rewrite fancy_exact by assumption.
    apply (stencil_ext sum16); try assumption.
    + intros. apply h2v2_lane_f_eq; assumption.
    + apply sums_hd; [assumption | apply sum16_0].
    + apply sums_last; [assumption | apply sum16_0].
  - rewrite map2_app by lia. rewrite Hcs.
    change (map2 (asm_colsum U) (last v0 0 :: g0) (last v1 0 :: g1)) with
      (asm_colsum U (last v0 0) (last v1 0) :: map2 (asm_colsum U) g0 g1).
    replace (asm_colsum U (last v0 0) (last v1 0)) with (last cs 0).
    2:{ rewrite <- Hcs. apply map2_last; [lia | assumption]. }
    rewrite fancy_padded by assumption.
    apply (stencil_ext sum16); try assumption.
    + intros. apply h2v2_lane_f_eq; assumption.
    + apply sums_hd; [assumption | apply sum16_0].
    + apply sums_last; [assumption | apply sum16_0].
Qed.

(* plain (box) upsampling *)
Theorem h2v1_plain_eq V row : asm_h2v1_plain V row = c_h2v1_plain row.
Proof. unfold asm_h2v1_plain, c_h2v1_plain. induction row as [|a t IH]; [reflexivity|]. cbn. rewrite IH. reflexivity. Qed.

(* non-vacuity: a 19-column row (not a multiple of 16), with garbage after the valid part *)
Example fancy_nonvacuous :
  let buf := [10; 200; 30; 255; 0; 7; 90; 91; 92; 1; 2; 3; 250; 251; 252; 17; 18; 19; 20; 99; 98; 97; 96; 95; 94; 93; 92; 91; 90; 89; 88; 87] in
  asm_h2v1_fancy jdsample_sse2_consts 16 19 buf = c_h2v1_fancy (firstn 19 buf) /\
  asm_h2v1_fancy jdsample_avx2_consts 32 19 buf = c_h2v1_fancy (firstn 19 buf) /\
  flat2 (c_h2v1_fancy (firstn 3 buf)) = [10; 58; 152; 158; 72; 30] /\
  asm_h2v2_fancy jdsample_sse2_consts 16 19 buf (rev buf) = c_h2v2_fancy (firstn 19 buf) (firstn 19 (rev buf)).
Proof. vm_compute. repeat split; reflexivity. Qed.
Example down_nonvacuous :
  let row := [1; 2; 3; 4; 5; 6; 7; 8; 9; 10; 11; 12; 13; 250; 251; 252; 253; 254; 255; 0; 0; 0; 0; 0; 0; 0; 0; 0; 0; 0; 0; 0;
              0; 0; 0; 0; 0; 0; 0; 0; 0; 0; 0; 0; 0; 0; 0; 0] in
  asm_h2v1_downsample jcsample_sse2_consts 16 19 16 row = c_h2v1_downsample 19 16 row /\
  asm_h2v1_downsample jcsample_avx2_consts 32 19 24 row = c_h2v1_downsample 19 24 row /\
  c_h2v1_downsample 19 16 row = [1; 4; 5; 8; 9; 12; 131; 252; 253; 255; 255; 255; 255; 255; 255; 255].
Proof. vm_compute. repeat split; reflexivity. Qed.

(* ---- the statements for the two instruction sets, as used by the property file ---- *)
Theorem simd_downsample_eq_all iw ocols row0 row1 :
  Forall byte row0 -> Forall byte row1 -> (1 <= iw <= length row0)%nat -> (iw <= length row1)%nat -> (iw <= 2 * ocols)%nat ->
  asm_h2v1_downsample jcsample_sse2_consts 16 iw ocols row0 = c_h2v1_downsample iw ocols row0 /\
  asm_h2v1_downsample jcsample_avx2_consts 32 iw ocols row0 = c_h2v1_downsample iw ocols row0 /\
  asm_h2v2_downsample jcsample_sse2_consts 16 iw ocols row0 row1 = c_h2v2_downsample iw ocols row0 row1 /\
  asm_h2v2_downsample jcsample_avx2_consts 32 iw ocols row0 row1 = c_h2v2_downsample iw ocols row0 row1.
Proof.
  intros. repeat split.
  - apply h2v1_downsample_eq; auto using jcsample_sse2_ok, vec16.
  - apply h2v1_downsample_eq; auto using jcsample_avx2_ok, vec32.
  - apply h2v2_downsample_eq; auto using jcsample_sse2_ok, vec16.
  - apply h2v2_downsample_eq; auto using jcsample_avx2_ok, vec32.
Qed.
Theorem simd_fancy_eq_all w buf0 buf1 :
  (3 <= w)%nat -> Forall byte buf0 -> Forall byte buf1 ->
  (roundup w 32 <= length buf0)%nat -> (roundup w 32 <= length buf1)%nat ->
  (roundup w 16 <= length buf0)%nat -> (roundup w 16 <= length buf1)%nat ->
  asm_h2v1_fancy jdsample_sse2_consts 16 w buf0 = c_h2v1_fancy (firstn w buf0) /\
  asm_h2v1_fancy jdsample_avx2_consts 32 w buf0 = c_h2v1_fancy (firstn w buf0) /\
  asm_h2v2_fancy jdsample_sse2_consts 16 w buf0 buf1 = c_h2v2_fancy (firstn w buf0) (firstn w buf1) /\
  asm_h2v2_fancy jdsample_avx2_consts 32 w buf0 buf1 = c_h2v2_fancy (firstn w buf0) (firstn w buf1).
Proof.
  intros. repeat split.
  - apply h2v1_fancy_eq; auto using jdsample_sse2_ok; lia.
  - apply h2v1_fancy_eq; auto using jdsample_avx2_ok; lia.
  - apply h2v2_fancy_eq; auto using jdsample_sse2_ok; lia.
  - apply h2v2_fancy_eq; auto using jdsample_avx2_ok; lia.
Qed.
