(* C06 proofs, part 6: ALL geometries.  A request flagged perfect on any size-consistent image
   (partial iMCUs allowed on the edges the operation does not mirror) meets the whole-plane
   specification in every component, and followed by the inverse operation (again flagged perfect,
   again accepted) restores the coefficient arrays.  Trim for the non-perfect case: the result is
   the plain transform of the source restricted to its whole iMCUs on the mirrored edges. *)
From Coq Require Import List ZArith Bool Lia PeanoNat ZifyBool.
From LJT Require Import model.Transform model.TransformSpec
  proofs.TransformProofs proofs.TransformPlane proofs.TransformImage proofs.TransformGeneral.
Import ListNotations.
Local Open Scope Z_scope.

Definition perfect_opts (op : xop) : xopts := mkxopts op true false false None false.
Definition op_inv (op : xop) : xop := match op with XRot90 => XRot270 | XRot270 => XRot90 | _ => op end.

Lemma op_mul_inv op : op_mul (op_inv op) op = XNone /\ op_mul op (op_inv op) = XNone.
Proof. destruct op; vm_compute; split; reflexivity. Qed.

Definition comp_reg (c : comp) : Prop :=
  length (c_q c) = 64%nat /\ wf_in (c_wb c) (c_hb c) (c_blk c).

(* any size; a single component counts as 1x1 (what every transform output satisfies) *)
Definition regular_image (im : image) : Prop :=
  src_consistent im /\
  (length (i_comps im) = 1%nat -> Forall (fun c => c_hs c = 1 /\ c_vs c = 1) (i_comps im)) /\
  quant_ok im = true /\ Forall comp_reg (i_comps im).

Definition perfect_for (op : xop) (im : image) : Prop :=
  (mirrors_src_x op = true -> i_w im mod (max_hs (i_comps im) * 8) = 0) /\
  (mirrors_src_y op = true -> i_h im mod (max_vs (i_comps im) * 8) = 0).

Lemma spec_plane_cw_irrelevant op cw ch cw' ch' X Y src x y :
  (mirror_x op = true -> cw = cw') -> (mirror_y op = true -> ch = ch') ->
  spec_plane op cw ch X Y src x y = spec_plane op cw' ch' X Y src x y.
Proof.
  intros Hx Hy. unfold spec_plane.
  destruct (mirror_x op); destruct (mirror_y op); cbn [andb];
    rewrite ?(Hx eq_refl), ?(Hy eq_refl); reflexivity.
Qed.

Lemma mirror_dst_src op :
  mirror_x op = (if transposes op then mirrors_src_y op else mirrors_src_x op) /\
  mirror_y op = (if transposes op then mirrors_src_x op else mirrors_src_y op).
Proof. destruct op; split; reflexivity. Qed.

Lemma cdiv_exact F s d : 0 < d -> F mod d = 0 -> cdiv (F * s) d = F / d * s.
Proof.
  intros Hd Hm. pose proof (Z.div_mod F d ltac:(lia)) as E. rewrite Hm, Z.add_0_r in E.
  rewrite E at 1. replace (d * (F / d) * s) with (F / d * s * d) by lia. apply cdiv_mul. exact Hd.
Qed.

Lemma floor_le_cdiv F s d : 0 < d -> 0 <= s -> F / d * s <= cdiv (F * s) d.
Proof.
  intros Hd Hs. pose proof (Z.mul_div_le F d Hd). pose proof (cdiv_ge (F * s) d Hd).
  assert (F / d * s * d <= cdiv (F * s) d * d) by nia. nia.
Qed.

(* one component through a plain transform whose mirrored source edges carry no partial iMCU *)
Lemma mk_dst_perfect op ncs W H mh mv c :
  1 <= W -> 1 <= H -> 1 <= mh -> 1 <= mv -> 1 <= c_hs c -> 1 <= c_vs c ->
  c_wb c = cdiv (W * c_hs c) (mh * 8) -> c_hb c = cdiv (H * c_vs c) (mv * 8) -> comp_reg c ->
  (mirrors_src_x op = true -> W mod (mh * 8) = 0) -> (mirrors_src_y op = true -> H mod (mv * 8) = 0) ->
  dst_samp ncs (transposes op) c = (tw op (c_hs c) (c_vs c), th op (c_hs c) (c_vs c)) ->
  let c' := mk_dst op ncs W H (tw op mh mv) (th op mh mv) c in
  comp_rel op c c' /\ comp_reg c' /\ 1 <= c_hs c' /\ 1 <= c_vs c' /\
  c_wb c' = cdiv (tw op W H * c_hs c') (tw op mh mv * 8) /\ c_hb c' = cdiv (th op W H * c_vs c') (th op mh mv * 8).
Proof.
  intros HW HH Hmh Hmv Hhs Hvs Hwb Hhb (Hq & Hsrc) Px Py Hsamp. cbv zeta.
  unfold mk_dst. cbv zeta. rewrite Hsamp. cbn [fst snd].
  assert (Ewb : cdiv (tw op W H * tw op (c_hs c) (c_vs c)) (tw op mh mv * 8) = tw op (c_wb c) (c_hb c)).
  { unfold tw. destruct (transposes op); rewrite ?Hwb, ?Hhb; reflexivity. }
  assert (Ehb : cdiv (th op W H * th op (c_hs c) (c_vs c)) (th op mh mv * 8) = th op (c_wb c) (c_hb c)).
  { unfold th. destruct (transposes op); rewrite ?Hwb, ?Hhb; reflexivity. }
  cbn [c_hs c_vs c_wb c_hb]. rewrite Ewb, Ehb.
  match goal with |- comp_rel _ _ ?c' /\ _ => set (cc := c') end.
  assert (Hblk : forall x y, 0 <= x < tw op (c_wb c) (c_hb c) -> 0 <= y < th op (c_wb c) (c_hb c) ->
                 c_blk cc x y = full_plane op (c_wb c) (c_hb c) (c_blk c) x y).
  { intros x y Hx Hy. unfold cc. cbn [c_blk].
    destruct (mirror_dst_src op) as [Mx My].
    rewrite exec_comp_meets_spec.
    - unfold spec_comp, full_plane, mirror_cols, mirror_rows.
      cbn [g_hs g_vs g_sw g_sh g_maxh g_maxv g_xco g_yco]. rewrite !Z.mul_0_l.
      apply spec_plane_cw_irrelevant.
      + rewrite Mx. unfold tw in *. destruct (transposes op); intros M.
        * rewrite Hhb. symmetry. apply cdiv_exact; [lia|auto].
        * rewrite Hwb. symmetry. apply cdiv_exact; [lia|auto].
      + rewrite My. unfold th in *. destruct (transposes op); intros M.
        * rewrite Hwb. symmetry. apply cdiv_exact; [lia|auto].
        * rewrite Hhb. symmetry. apply cdiv_exact; [lia|auto].
    - unfold geom_ok. cbn [g_hs g_vs g_xco g_yco]. unfold tw, th. destruct (transposes op); lia.
    - cbn [g_wb]. exact Hx.
    - lia.
    - intros -> _ _. unfold inplace_ok. cbn [g_hs g_sw g_maxh g_swb g_wb g_xco].
      unfold tw, th in *. cbn [transposes] in *.
      assert (0 <= W / (mh * 8)) by (apply Z.div_pos; lia).
      pose proof (floor_le_cdiv W (c_hs c) (mh * 8) ltac:(lia) ltac:(lia)). lia. }
  unfold cc in *. clear cc. cbn [c_blk] in Hblk.
  split; [|split; [|split; [|split; [|split]]]].
  - unfold comp_rel. cbn [c_hs c_vs c_wb c_hb c_tq c_q c_blk].
    repeat split; try reflexivity.
    + unfold spec_q. destruct (transposes op); [apply transpose_q_spec; exact Hq|reflexivity].
    + exact Hblk.
  - unfold comp_reg. cbn [c_wb c_hb c_q c_blk]. split.
    + destruct (transposes op) eqn:E; [|exact Hq].
      rewrite transpose_q_spec by exact Hq. rewrite map_length, seq_length. reflexivity.
    + intros xa xb Ha Hb. rewrite Hblk by assumption. apply full_plane_wf; assumption.
  - cbn [c_hs]. unfold tw. destruct (transposes op); lia.
  - cbn [c_vs]. unfold th. destruct (transposes op); lia.
  - reflexivity.
  - reflexivity.
Qed.

Lemma request_perfect_eq op im :
  perfect_arg im (perfect_opts op) = true ->
  request_workspace im (perfect_opts op) = request_workspace im (plain op).
Proof.
  unfold perfect_arg, request_workspace, perfect_opts, plain.
  cbn [xo_op xo_perfect xo_trim xo_gray xo_crop xo_slow andb negb]. cbv zeta.
  intros ->. reflexivity.
Qed.

Lemma transform_perfect_eq op im :
  perfect_arg im (perfect_opts op) = true -> transform im (perfect_opts op) = transform im (plain op).
Proof.
  intros H. unfold transform. rewrite (request_perfect_eq op im H). reflexivity.
Qed.

Lemma perfect_arg_of op im :
  (length (i_comps im) = 1%nat -> Forall (fun c => c_hs c = 1 /\ c_vs c = 1) (i_comps im)) ->
  perfect_for op im -> perfect_arg im (perfect_opts op) = true.
Proof.
  intros H1 [Px Py]. unfold perfect_arg, perfect_opts. cbn [xo_gray xo_op andb]. cbv zeta.
  assert (E : perfect_transform (i_w im) (i_h im) (max_hs (i_comps im) * 8) (max_vs (i_comps im) * 8) op = true)
    by (apply perfect_iff; split; assumption).
  destruct (Z.eqb_spec (Z.of_nat (length (i_comps im))) 1) as [E1|_]; [|exact E].
  assert (Hl : length (i_comps im) = 1%nat) by lia. specialize (H1 Hl).
  destruct (i_comps im) as [|c [|? ?]]; try discriminate Hl.
  inversion H1 as [|? ? [Hh Hv] _]; subst.
  unfold max_hs, max_vs in E. cbn [fold_right] in E. rewrite Hh, Hv in E. exact E.
Qed.

(* a perfect request on ANY regular image: accepted, whole-plane specification in every component,
   the result is regular and perfect for the inverse operation *)
Theorem transform_perfect_regular op im :
  regular_image im -> perfect_for op im ->
  exists im', transform im (perfect_opts op) = inr im' /\ image_rel op im im' /\
              regular_image im' /\ perfect_for (op_inv op) im'.
Proof.
  intros ((HW & HH & Hcons) & H1 & Hqok & Hreg) Pf.
  rewrite (transform_perfect_eq op im (perfect_arg_of op im H1 Pf)).
  pose proof (transform_plain_eq op im Hqok) as HT. cbv zeta in HT.
  eexists. split; [exact HT|].
  set (cs := i_comps im) in *. set (ncs := Z.of_nat (length cs)) in *.
  assert (Hs : forall c, In c cs -> dst_samp ncs (transposes op) c = (tw op (c_hs c) (c_vs c), th op (c_hs c) (c_vs c))).
  { intros c Hc. apply dst_samp_whole; assumption. }
  destruct (samp_mh_whole op ncs cs Hs) as [Emh Emv]. rewrite Emh, Emv.
  pose proof (max_hs_ge1 cs) as Gh. pose proof (max_vs_ge1 cs) as Gv.
  destruct Pf as [Px Py].
  rewrite Forall_forall in Hcons, Hreg.
  pose (mk := mk_dst op ncs (i_w im) (i_h im) (tw op (max_hs cs) (max_vs cs)) (th op (max_hs cs) (max_vs cs))).
  assert (Hmk : forall c, In c cs ->
            comp_rel op c (mk c) /\ comp_reg (mk c) /\ 1 <= c_hs (mk c) /\ 1 <= c_vs (mk c) /\
            c_wb (mk c) = cdiv (tw op (i_w im) (i_h im) * c_hs (mk c)) (tw op (max_hs cs) (max_vs cs) * 8) /\
            c_hb (mk c) = cdiv (th op (i_w im) (i_h im) * c_vs (mk c)) (th op (max_hs cs) (max_vs cs) * 8)).
  { intros c Hc. destruct (Hcons c Hc) as (A1 & A2 & A3 & A4).
    apply mk_dst_perfect; try assumption; try lia; [apply Hreg; exact Hc|apply Hs; exact Hc]. }
  fold mk.
  destruct (max_map_mk op ncs (i_w im) (i_h im) (tw op (max_hs cs) (max_vs cs)) (th op (max_hs cs) (max_vs cs)) cs) as [E1 E2].
  fold mk in E1, E2. rewrite Emh in E1. rewrite Emv in E2.
  split; [|split].
  - unfold image_rel. cbn [i_w i_h i_cs i_comps]. repeat split; try reflexivity.
    apply Forall2_map_r. intros c Hc. apply (Hmk c Hc).
  - unfold regular_image, src_consistent. cbn [i_w i_h i_comps i_slots]. rewrite E1, E2.
    split; [split; [unfold tw; destruct (transposes op); lia|split; [unfold th; destruct (transposes op); lia|]]|split; [|split]].
    + rewrite Forall_map. apply Forall_forall. intros c Hc. destruct (Hmk c Hc) as (_ & _ & B1 & B2 & B3 & B4). auto.
    + rewrite map_length. intros Hl. specialize (H1 Hl).
      rewrite Forall_map. rewrite Forall_forall in *. intros c Hc.
      unfold mk, mk_dst. cbv zeta. cbn [c_hs c_vs]. rewrite (Hs c Hc). cbn [fst snd].
      destruct (H1 c Hc) as [-> ->]. unfold tw, th. destruct (transposes op); split; reflexivity.
    + unfold quant_ok. cbn [i_slots i_comps]. apply (proj2 (forallb_forall _ _)). intros c' Hc'.
      apply in_map_iff in Hc'. destruct Hc' as (c & <- & Hc).
      unfold mk, mk_dst. cbv zeta. cbn [c_q c_tq].
      rewrite (slot_q_follows im _ c Hqok Hc). apply zlist_eqb_refl.
    + rewrite Forall_map. apply Forall_forall. intros c Hc. apply (Hmk c Hc).
  - unfold perfect_for. cbn [i_w i_h i_comps]. rewrite E1, E2.
    unfold tw, th. destruct op; cbn [op_inv transposes mirrors_src_x mirrors_src_y] in *; split; intros M; try discriminate; auto.
Qed.

(* THE ROUND TRIP, all geometries: op flagged perfect, then its inverse flagged perfect, is accepted
   twice and restores dimensions, sampling factors, tables and every block of every component *)
Theorem perfect_round_trip op im :
  regular_image im -> perfect_for op im ->
  exists im1 im2, transform im (perfect_opts op) = inr im1 /\
                  transform im1 (perfect_opts (op_inv op)) = inr im2 /\ image_same im im2.
Proof.
  intros Hr Pf.
  destruct (transform_perfect_regular op im Hr Pf) as (im1 & T1 & R1 & Hr1 & Pf1).
  destruct (transform_perfect_regular (op_inv op) im1 Hr1 Pf1) as (im2 & T2 & R2 & _ & _).
  exists im1, im2. split; [exact T1|]. split; [exact T2|].
  unfold image_same. rewrite <- (proj1 (op_mul_inv op)).
  destruct R1 as (a1 & a2 & a3 & a4). destruct R2 as (b1 & b2 & b3 & b4).
  destruct (tw_compose (op_inv op) op (i_w im) (i_h im)) as [S1 S2].
  unfold image_rel. rewrite b1, b2, b3, a1, a2, a3, S1, S2.
  repeat split; try reflexivity.
  apply Forall2_compose with (R1 := comp_rel op) (R2 := comp_rel (op_inv op)) (l2 := i_comps im1); [|assumption|assumption].
  intros c c1 c2 Hin Hc1 Hc2.
  destruct Hr as (_ & _ & _ & Hreg). rewrite Forall_forall in Hreg. destruct (Hreg c Hin) as (Hq & Hwf).
  apply (comp_rel_compose op (op_inv op) c c1 c2); assumption.
Qed.

(* the perfect flag is exactly this hypothesis: for a regular image the request is accepted iff perfect_for *)
Theorem perfect_request_iff op im :
  regular_image im ->
  (perfect_for op im <-> exists im', transform im (perfect_opts op) = inr im').
Proof.
  intros Hr. split.
  - intros Pf. destruct (transform_perfect_regular op im Hr Pf) as (im' & T & _). exists im'. exact T.
  - intros (im' & T). destruct Hr as (_ & H1 & _ & _).
    destruct (perfect_arg im (perfect_opts op)) eqn:E.
    + unfold perfect_arg, perfect_opts in E. cbn [xo_gray xo_op andb] in E. cbv zeta in E.
      destruct (Z.eqb_spec (Z.of_nat (length (i_comps im))) 1) as [E1|_].
      * assert (Hl : length (i_comps im) = 1%nat) by lia. specialize (H1 Hl).
        destruct (i_comps im) as [|c [|? ?]] eqn:Ec; try discriminate Hl.
        inversion H1 as [|? ? [Hh Hv] _]; subst.
        apply perfect_iff in E. unfold perfect_for. rewrite Ec. unfold max_hs, max_vs. cbn [fold_right]. rewrite Hh, Hv. exact E.
      * apply perfect_iff in E. exact E.
    + exfalso. assert (Hn : request_workspace im (perfect_opts op) = inl ENotPerfect)
        by (apply request_not_perfect_iff; split; [reflexivity|exact E]).
      unfold transform in T. rewrite Hn in T. discriminate.
Qed.

(* ------------------------------------------------------------- trim, non-perfect *)
Definition trim_opts (op : xop) : xopts := mkxopts op false true false None false.

(* source component restricted to the whole iMCUs on the edges the operation mirrors *)
Definition src_wbT (op : xop) (im : image) (c : comp) : Z :=
  if mirrors_src_x op then i_w im / (max_hs (i_comps im) * 8) * c_hs c else c_wb c.
Definition src_hbT (op : xop) (im : image) (c : comp) : Z :=
  if mirrors_src_y op then i_h im / (max_vs (i_comps im) * 8) * c_vs c else c_hb c.
Definition src_wT (op : xop) (im : image) : Z :=
  if mirrors_src_x op then i_w im - i_w im mod (max_hs (i_comps im) * 8) else i_w im.
Definition src_hT (op : xop) (im : image) : Z :=
  if mirrors_src_y op then i_h im - i_h im mod (max_vs (i_comps im) * 8) else i_h im.

Lemma request_trim_plan im op :
  (length (i_comps im) = 1%nat -> Forall (fun c => c_hs c = 1 /\ c_vs c = 1) (i_comps im)) ->
  let ncs := Z.of_nat (length (i_comps im)) in
  let imw := tw op (max_hs (i_comps im)) (max_vs (i_comps im)) * 8 in
  let imh := th op (max_hs (i_comps im)) (max_vs (i_comps im)) * 8 in
  let ow0 := tw op (i_w im) (i_h im) in let oh0 := th op (i_w im) (i_h im) in
  request_workspace im (trim_opts op) =
  inr (mkplan ncs (if mirror_x op then trim_edge ow0 imw 0 ow0 else ow0)
                  (if mirror_y op then trim_edge oh0 imh 0 oh0 else oh0) imw imh 0 0).
Proof.
  intros H1. cbv zeta. unfold request_workspace, trim_opts.
  cbn [xo_op xo_perfect xo_trim xo_gray xo_crop xo_slow andb negb]. cbv zeta.
  assert (E : forall a b : Z, (if Z.of_nat (length (i_comps im)) =? 1 then 8 else a * 8) =
                              (if Z.of_nat (length (i_comps im)) =? 1 then 8 else b * 8) \/ True) by (intros; right; exact I).
  destruct (Z.eqb_spec (Z.of_nat (length (i_comps im))) 1) as [E1|E1].
  - assert (Hl : length (i_comps im) = 1%nat) by lia. specialize (H1 Hl).
    destruct (i_comps im) as [|c [|? ?]]; try discriminate Hl.
    inversion H1 as [|? ? [Hh Hv] _]; subst.
    unfold max_hs, max_vs. cbn [fold_right length]. rewrite Hh, Hv.
    destruct op; cbn [transposes tw th mirror_x mirror_y Z.max Z.compare Pos.compare Pos.compare_cont Z.mul Pos.mul]; reflexivity.
  - destruct op; cbn [transposes tw th mirror_x mirror_y]; reflexivity.
Qed.

Lemma trim_whole full imcu : 0 < imcu -> imcu <= full -> trim_edge full imcu 0 full = full / imcu * imcu.
Proof.
  intros Hi Hf. rewrite trim_edge_nocrop by lia.
  destruct (Z.ltb_spec full imcu); [lia|].
  pose proof (Z.div_mod full imcu ltac:(lia)). lia.
Qed.

Lemma spec_pos_cw_irrelevant op cw ch cw' ch' X Y x y :
  (mirror_x op = true -> cw = cw') -> (mirror_y op = true -> ch = ch') ->
  spec_pos op cw ch X Y x y = spec_pos op cw' ch' X Y x y.
Proof.
  intros Hx Hy. unfold spec_pos.
  destruct (mirror_x op); destruct (mirror_y op); cbn [andb];
    rewrite ?(Hx eq_refl), ?(Hy eq_refl); reflexivity.
Qed.

Lemma Forall2_impl_in {A B} (R R' : A -> B -> Prop) l l' :
  Forall2 R l l' -> (forall a b, In a l -> R a b -> R' a b) -> Forall2 R' l l'.
Proof.
  intros H. induction H as [|a b l l' Hab H IH]; intros Himp; constructor.
  - apply Himp; [left; reflexivity|exact Hab].
  - apply IH. intros a0 b0 Hin. apply Himp. right. exact Hin.
Qed.

(* TRIM on any regular image with at least one whole iMCU along each mirrored edge: accepted; the
   result is the plain, fully mirrored transform of the source restricted to its whole iMCUs on
   the mirrored edges -- no edge block is left unmirrored, the dropped blocks are absent *)
Theorem transform_trim op im :
  regular_image im ->
  (mirrors_src_x op = true -> max_hs (i_comps im) * 8 <= i_w im) ->
  (mirrors_src_y op = true -> max_vs (i_comps im) * 8 <= i_h im) ->
  exists im', transform im (trim_opts op) = inr im' /\
    i_w im' = tw op (src_wT op im) (src_hT op im) /\ i_h im' = th op (src_wT op im) (src_hT op im) /\
    Forall2 (fun c c' =>
      c_hs c' = tw op (c_hs c) (c_vs c) /\ c_vs c' = th op (c_hs c) (c_vs c) /\
      c_wb c' = tw op (src_wbT op im c) (src_hbT op im c) /\ c_hb c' = th op (src_wbT op im c) (src_hbT op im c) /\
      forall x y, 0 <= x < c_wb c' -> 0 <= y < c_hb c' ->
        c_blk c' x y = full_plane op (src_wbT op im c) (src_hbT op im c) (c_blk c) x y)
      (i_comps im) (i_comps im').
Proof.
  intros (Hcons & H1 & Hqok & Hreg) Gx Gy.
  pose proof (request_trim_plan im op H1) as Hp. cbv zeta in Hp.
  destruct (transform im (trim_opts op)) as [e|im'] eqn:ET.
  { exfalso. unfold transform in ET. rewrite Hp, Hqok in ET. cbn [negb trim_opts xo_gray andb] in ET. discriminate. }
  exists im'. split; [reflexivity|].
  destruct (transform_blocks im (trim_opts op) im' Hcons I ET) as (p & Hp' & Ew & Eh & HF).
  rewrite Hp in Hp'. injection Hp' as <-. cbn [p_nc p_ow p_oh p_imw p_imh p_xco p_yco] in *.
  rewrite Nat2Z.id, firstn_all in HF.
  destruct Hcons as (HW & HH & Hc).
  pose proof (max_hs_ge1 (i_comps im)) as Gh. pose proof (max_vs_ge1 (i_comps im)) as Gv.
  set (mh := max_hs (i_comps im)) in *. set (mv := max_vs (i_comps im)) in *.
  destruct (mirror_dst_src op) as [Mx My].
  (* trimmed output size *)
  assert (Eow : (if mirror_x op then trim_edge (tw op (i_w im) (i_h im)) (tw op mh mv * 8) 0 (tw op (i_w im) (i_h im))
                 else tw op (i_w im) (i_h im)) = tw op (src_wT op im) (src_hT op im)).
  { unfold src_wT, src_hT. fold mh mv. rewrite Mx. unfold tw.
    destruct (transposes op).
    - destruct (mirrors_src_y op); [|reflexivity]. rewrite trim_whole by (try apply Gy; auto; lia).
      pose proof (Z.div_mod (i_h im) (mv * 8) ltac:(lia)). lia.
    - destruct (mirrors_src_x op); [|reflexivity]. rewrite trim_whole by (try apply Gx; auto; lia).
      pose proof (Z.div_mod (i_w im) (mh * 8) ltac:(lia)). lia. }
  assert (Eoh : (if mirror_y op then trim_edge (th op (i_w im) (i_h im)) (th op mh mv * 8) 0 (th op (i_w im) (i_h im))
                 else th op (i_w im) (i_h im)) = th op (src_wT op im) (src_hT op im)).
  { unfold src_wT, src_hT. fold mh mv. rewrite My. unfold th.
    destruct (transposes op).
    - destruct (mirrors_src_x op); [|reflexivity]. rewrite trim_whole by (try apply Gx; auto; lia).
      pose proof (Z.div_mod (i_w im) (mh * 8) ltac:(lia)). lia.
    - destruct (mirrors_src_y op); [|reflexivity]. rewrite trim_whole by (try apply Gy; auto; lia).
      pose proof (Z.div_mod (i_h im) (mv * 8) ltac:(lia)). lia. }
  rewrite Eow in *. rewrite Eoh in *.
  split; [exact Ew|]. split; [exact Eh|].
  assert (Hs : forall c, In c (i_comps im) ->
             dst_samp (Z.of_nat (length (i_comps im))) (transposes op) c = (tw op (c_hs c) (c_vs c), th op (c_hs c) (c_vs c))).
  { intros c Hin. apply dst_samp_whole; assumption. }
  rewrite Forall_forall in Hc.
  (* per component *)
  assert (Hin2 : forall c c', In c (i_comps im) ->
     ((c_hs c', c_vs c') = dst_samp (Z.of_nat (length (i_comps im))) (transposes (xo_op (trim_opts op))) c /\
      c_wb c' = cdiv (tw op (src_wT op im) (src_hT op im) * c_hs c') (tw op mh mv * 8) /\
      c_hb c' = cdiv (th op (src_wT op im) (src_hT op im) * c_vs c') (th op mh mv * 8) /\
      (forall x y, 0 <= x < c_wb c' -> 0 <= y < c_hb c' ->
         let '(g, sx, sy) := pos_of (trim_opts op) im
              (mkplan (Z.of_nat (length (i_comps im))) (tw op (src_wT op im) (src_hT op im)) (th op (src_wT op im) (src_hT op im))
                      (tw op mh mv * 8) (th op mh mv * 8) 0 0) c' x y in
         0 <= sx < c_wb c /\ 0 <= sy < c_hb c /\ c_blk c' x y = d4_apply g (c_blk c sx sy))) ->
     c_hs c' = tw op (c_hs c) (c_vs c) /\ c_vs c' = th op (c_hs c) (c_vs c) /\
     c_wb c' = tw op (src_wbT op im c) (src_hbT op im c) /\ c_hb c' = th op (src_wbT op im c) (src_hbT op im c) /\
     forall x y, 0 <= x < c_wb c' -> 0 <= y < c_hb c' ->
       c_blk c' x y = full_plane op (src_wbT op im c) (src_hbT op im c) (c_blk c) x y).
  { intros c c' Hin (Es & Ewb & Ehb & Hb).
    cbn [trim_opts xo_op] in Es. rewrite (Hs c Hin) in Es. injection Es as Ehs Evs.
    destruct (Hc c Hin) as (Hhs & Hvs & Cwb & Chb). fold mh in Cwb. fold mv in Chb.
    assert (Ewb' : c_wb c' = tw op (src_wbT op im c) (src_hbT op im c)).
    { rewrite Ewb, Ehs. unfold src_wT, src_hT, src_wbT, src_hbT. fold mh mv. unfold tw.
      destruct (transposes op).
      - destruct (mirrors_src_y op).
        + replace (i_h im - i_h im mod (mv * 8)) with (i_h im / (mv * 8) * (mv * 8))
            by (pose proof (Z.div_mod (i_h im) (mv * 8) ltac:(lia)); lia).
          replace (i_h im / (mv * 8) * (mv * 8) * c_vs c) with (i_h im / (mv * 8) * c_vs c * (mv * 8)) by lia.
          apply cdiv_mul. lia.
        + symmetry. exact Chb.
      - destruct (mirrors_src_x op).
        + replace (i_w im - i_w im mod (mh * 8)) with (i_w im / (mh * 8) * (mh * 8))
            by (pose proof (Z.div_mod (i_w im) (mh * 8) ltac:(lia)); lia).
          replace (i_w im / (mh * 8) * (mh * 8) * c_hs c) with (i_w im / (mh * 8) * c_hs c * (mh * 8)) by lia.
          apply cdiv_mul. lia.
        + symmetry. exact Cwb. }
    assert (Ehb' : c_hb c' = th op (src_wbT op im c) (src_hbT op im c)).
    { rewrite Ehb, Evs. unfold src_wT, src_hT, src_wbT, src_hbT. fold mh mv. unfold th.
      destruct (transposes op).
      - destruct (mirrors_src_x op).
        + replace (i_w im - i_w im mod (mh * 8)) with (i_w im / (mh * 8) * (mh * 8))
            by (pose proof (Z.div_mod (i_w im) (mh * 8) ltac:(lia)); lia).
          replace (i_w im / (mh * 8) * (mh * 8) * c_hs c) with (i_w im / (mh * 8) * c_hs c * (mh * 8)) by lia.
          apply cdiv_mul. lia.
        + symmetry. exact Cwb.
      - destruct (mirrors_src_y op).
        + replace (i_h im - i_h im mod (mv * 8)) with (i_h im / (mv * 8) * (mv * 8))
            by (pose proof (Z.div_mod (i_h im) (mv * 8) ltac:(lia)); lia).
          replace (i_h im / (mv * 8) * (mv * 8) * c_vs c) with (i_h im / (mv * 8) * c_vs c * (mv * 8)) by lia.
          apply cdiv_mul. lia.
        + symmetry. exact Chb. }
    split; [exact Ehs|]. split; [exact Evs|]. split; [exact Ewb'|]. split; [exact Ehb'|].
    intros x y Hx Hy. specialize (Hb x y Hx Hy).
    unfold pos_of in Hb. cbn [trim_opts xo_op p_imw p_imh p_xco p_yco] in Hb.
    unfold full_plane. rewrite spec_plane_pos.
    rewrite (spec_pos_cw_irrelevant op _ _ (tw op (src_wbT op im c) (src_hbT op im c)) (th op (src_wbT op im c) (src_hbT op im c))) in Hb.
    - rewrite !Z.mul_0_l in Hb.
      destruct (spec_pos op _ _ 0 0 x y) as [[g sx] sy]. destruct Hb as (_ & _ & Hb). exact Hb.
    - rewrite Mx, Ehs. unfold src_wbT, src_hbT. fold mh mv. unfold tw. destruct (transposes op); intros ->; reflexivity.
    - rewrite My, Evs. unfold src_wbT, src_hbT. fold mh mv. unfold th. destruct (transposes op); intros ->; reflexivity. }
  exact (Forall2_impl_in _ _ _ _ HF Hin2).
Qed.

(* ------------------------------------------------------------ non-vacuity *)
(* 4:2:0, 48 x 29: whole iMCUs across, a partial iMCU row at the bottom *)
Definition ex_image4 : image :=
  mkimage 48 29 3 [map (fun k => Z.of_nat k + 1) (seq 0 64)] [ex_comp2 2 2 6 4 0; ex_comp2 1 1 3 2 500; ex_comp2 1 1 3 2 900].

Lemma ex_image4_regular :
  regular_image ex_image4 /\ perfect_for XRot270 ex_image4 /\ perfect_for XFlipH ex_image4 /\
  ~ perfect_for XRot90 ex_image4 /\
  (mirrors_src_y XRot90 = true -> max_vs (i_comps ex_image4) * 8 <= i_h ex_image4).
Proof.
  split; [|split; [|split; [|split]]].
  - unfold regular_image. split; [|split; [|split]].
    + unfold src_consistent, ex_image4. cbn [i_w i_h i_comps]. split; [lia|]. split; [lia|].
      repeat constructor; vm_compute; congruence.
    + discriminate.
    + vm_compute. reflexivity.
    + unfold ex_image4. cbn [i_comps].
      repeat (apply Forall_cons; [split; [reflexivity|];
        unfold ex_comp2; cbn [c_wb c_hb c_blk]; intros a b Ha Hb; apply ex_blk_wf; cbn [In]; auto; lia|]).
      apply Forall_nil.
  - vm_compute. split; intros; reflexivity || discriminate.
  - vm_compute. split; intros; reflexivity || discriminate.
  - intros [_ H]. specialize (H eq_refl). vm_compute in H. discriminate.
  - intros _. vm_compute. discriminate.
Qed.
