(* C03: the literal restarts_to_go / next_restart_num bookkeeping emits (encoder) and expects (decoder) RSTn
   exactly at the chunk boundaries of the chunked restart layer of model/Seq.v, with n = interval index mod 8,
   for every restart interval and every MCU count; hence its bytes are enc_scan's bytes and the chunked
   round-trip theorems apply to the literal code. *)
From Coq Require Import List ZArith Lia Bool Arith.
From LJT Require Import model.Huff model.Seq model.RestartCtr proofs.SeqProofs.
Import ListNotations.
Local Open Scope Z_scope.

Lemma land7_mod8 x : 0 <= x -> Z.land x RST_MASK = x mod 8.
Proof. intros H. unfold RST_MASK. change 7 with (Z.ones 3). rewrite Z.land_ones by lia. reflexivity. Qed.

Section P.
Variable M : Type.

Definition tail_events (f Ri : nat) (num : Z) (rest : list M) : list (ev M) :=
  match rest with [] => [] | _ => EvRst num :: chunk_events M f Ri ((num + 1) mod 8) rest end.

Lemma chunk_events_S f Ri n ms :
  chunk_events M (S f) Ri n ms = map EvMcu (seg_take Ri ms) ++ tail_events f Ri n (seg_drop Ri ms).
Proof. cbn [chunk_events]. unfold tail_events. destruct (seg_drop Ri ms); reflexivity. Qed.

(* in the middle of an interval with rtg MCUs to go *)
Lemma enc_ctr_mid r : forall ms rtg num f, (rtg <= S r)%nat -> (length ms <= f)%nat -> 0 <= num < 8 ->
  enc_ctr M (S r) rtg num ms = map EvMcu (firstn rtg ms) ++ tail_events f (S r) num (skipn rtg ms).
Proof.
  induction ms as [|m t IH]; intros rtg num f Hr Hf Hn.
  - rewrite firstn_nil, skipn_nil. reflexivity.
  - cbn [enc_ctr]. change (S r =? 0)%nat with false. cbn [negb andb].
    destruct rtg as [|k].
    + cbn [Nat.eqb firstn skipn map app]. unfold tail_events at 1.
      destruct f as [|f']; [cbn in Hf; lia|]. rewrite chunk_events_S. cbn [seg_take seg_drop firstn skipn map app].
      replace (S r - 1)%nat with r by lia. rewrite land7_mod8 by lia.
      rewrite (IH r ((num + 1) mod 8) f'); [reflexivity|lia|cbn in Hf; lia|apply Z.mod_pos_bound; lia].
    + cbn [Nat.eqb firstn skipn map app]. replace (S k - 1)%nat with k by lia.
      rewrite (IH k num f); [reflexivity|lia|cbn in Hf; lia|exact Hn].
Qed.

Lemma enc_ctr_no_restart : forall ms rtg num, enc_ctr M 0 rtg num ms = map EvMcu ms.
Proof. induction ms as [|m t IH]; intros rtg num; [reflexivity|]. cbn [enc_ctr Nat.eqb negb andb app map]. now rewrite IH. Qed.

(* the counters from start_pass (restarts_to_go = restart_interval, next_restart_num = 0) *)
Theorem enc_ctr_is_chunked Ri ms : enc_ctr M Ri Ri 0 ms = chunk_events M (S (length ms)) Ri 0 ms.
Proof.
  rewrite chunk_events_S. destruct Ri as [|r].
  - rewrite enc_ctr_no_restart. cbn [seg_take seg_drop tail_events]. now rewrite app_nil_r.
  - rewrite (enc_ctr_mid r ms (S r) 0 (length ms)); [reflexivity|lia|lia|lia].
Qed.

(* the decoder's counters expect a marker exactly where, and with the number which, the encoder's emit it *)
Theorem dec_ctr_matches_enc : forall ms Ri rtg num, dec_ctr Ri rtg num (length ms) = map (forget M) (enc_ctr M Ri rtg num ms).
Proof.
  induction ms as [|m t IH]; intros Ri rtg num; [reflexivity|]. cbn [length dec_ctr enc_ctr].
  destruct (Ri =? 0)%nat eqn:E0; cbn [negb andb app map forget].
  - now rewrite IH.
  - destruct (rtg =? 0)%nat; cbn [app map forget]; now rewrite IH.
Qed.

(* interval index of every marker: the k-th restart (k = 0, 1, ..) carries k mod 8 *)
Fixpoint rst_numbers (evs : list (ev M)) : list Z :=
  match evs with [] => [] | EvRst n :: t => n :: rst_numbers t | EvMcu _ :: t => rst_numbers t end.

Lemma rst_numbers_app a b : rst_numbers (a ++ b) = rst_numbers a ++ rst_numbers b.
Proof. induction a as [|[n|m] a IH]; cbn; [reflexivity|now rewrite IH|exact IH]. Qed.
Lemma rst_numbers_mcus l : rst_numbers (map EvMcu l) = [].
Proof. induction l; cbn; auto. Qed.

Lemma chunk_numbers : forall fuel Ri n ms, 0 <= n < 8 ->
  exists k, rst_numbers (chunk_events M fuel Ri n ms) = map (fun i => (n + Z.of_nat i) mod 8) (seq 0 k).
Proof.
  induction fuel as [|f IH]; intros Ri n ms Hn; [exists 0%nat; reflexivity|].
  cbn [chunk_events]. rewrite rst_numbers_app, rst_numbers_mcus. cbn [app].
  destruct (seg_drop Ri ms) as [|m0 mt]; [exists 0%nat; reflexivity|].
  destruct (IH Ri ((n + 1) mod 8) (m0 :: mt) ltac:(apply Z.mod_pos_bound; lia)) as [k Hk].
  exists (S k). cbn [rst_numbers]. rewrite Hk. cbn [seq map]. f_equal; [rewrite Z.add_0_r; symmetry; apply Z.mod_small; lia|].
  rewrite <- seq_shift, map_map. apply map_ext. intros i. rewrite Zplus_mod_idemp_l. f_equal. lia.
Qed.

(* ------------------------------------------------------------------ bytes *)
Variable enc_seg : list M -> option (list bool).

Lemma render_mcus : forall l rest cur, render M enc_seg (map EvMcu l ++ rest) cur = render M enc_seg rest (cur ++ l).
Proof.
  induction l as [|m l IH]; intros rest cur; [now rewrite app_nil_r|].
  cbn [map app render]. rewrite IH. now rewrite <- app_assoc.
Qed.

Lemma render_chunked : forall fuel Ri n ms, (length ms < fuel)%nat ->
  render M enc_seg (chunk_events M fuel Ri n ms) [] = enc_segs M enc_seg fuel Ri n ms.
Proof.
  induction fuel as [|f IH]; intros Ri n ms Hl; [lia|].
  cbn [chunk_events enc_segs]. rewrite render_mcus. cbn [app].
  pose proof (seg_drop_length Ri ms) as Hd.
  destruct (seg_drop Ri ms) as [|m0 mt] eqn:Ed.
  - cbn [render]. destruct (enc_seg (seg_take Ri ms)); reflexivity.
  - cbn [render]. destruct (enc_seg (seg_take Ri ms)) as [bits|]; [|reflexivity].
    rewrite IH; [reflexivity|]. rewrite Hd. destruct Ri; [cbn in Hd; lia|]. cbn [length] in Hd. lia.
Qed.

(* the literal per-MCU code with its interval accumulator writes the bytes of the chunked layer *)
Theorem render_enc_ctr Ri ms : render M enc_seg (enc_ctr M Ri Ri 0 ms) [] = enc_scan M enc_seg Ri ms.
Proof. rewrite enc_ctr_is_chunked. unfold enc_scan. apply render_chunked. lia. Qed.
End P.

(* the constants of the bookkeeping, as found in the source (gen/GenRestartCtr.v) *)
From LJT Require Import gen.GenRestartCtr.
Lemma source_restart_counters :
  forallb (Z.eqb RST_MASK) gen_enc_rst_masks = true /\ (10 <= length gen_enc_rst_masks)%nat /\
  gen_dec_rst_mask = RST_MASK /\ gen_dec_rst_step = 1 /\
  gen_enc_reload_is_interval = true /\ gen_dec_reload_is_interval = true /\
  gen_enc_init_interval_and_zero = true /\ gen_dec_init_zero = true /\
  (forall x, 0 <= x -> Z.land x RST_MASK = x mod 8).
Proof. repeat split; try (cbn; lia). exact land7_mod8. Qed.
