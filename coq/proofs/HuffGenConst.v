(* HuffGenConst.v -- the constants of model/Huff.v (jpeg_gen_optimal_table) are
   the ones tools/gen_HuffGen.py reads from the CURRENT src/jchuff.c; a change
   of MAX_CLEN, of the sentinels, of the pseudo symbol or of the limiting-loop
   bound in the C breaks this proof. *)
From Coq Require Import List ZArith Lia.
From LJT Require Import model.Huff gen.GenHuffGen.
Import ListNotations.
Local Open Scope Z_scope.

Lemma huffgen_constants_match :
  MAX_CLEN = gen_MAX_CLEN /\ SENT = gen_SENT /\ DEAD = gen_DEAD /\
  LIMIT_LEN = gen_LIMIT_LEN /\ PSEUDO_SYM = gen_PSEUDO_SYM /\ PSEUDO_COUNT = gen_PSEUDO_COUNT /\
  S MAX_CLEN = gen_BITS_LEN /\            (* UINT8 bits[MAX_CLEN + 1] = the model's repeat 0 (S MAX_CLEN) *)
  S LIMIT_LEN = gen_HTBL_BITS /\          (* htbl->bits[17] = firstn 17 *)
  gen_clen_test_strict = true /\          (* codesize[i] > MAX_CLEN, as count_bits's  c >? MAX_CLEN *)
  SENT < DEAD /\ (LIMIT_LEN < MAX_CLEN)%nat.
Proof. repeat split; try reflexivity. unfold LIMIT_LEN, MAX_CLEN. lia. Qed.

(* the model really uses these constants: the pipeline on the empty histogram
   has one symbol, the pseudo symbol gen_PSEUDO_SYM with code size 0, and the
   scratch array has gen_BITS_LEN entries *)
Lemma huffgen_constants_used :
  gen_codesizes (repeat 0 300) = inr ([Z.of_nat gen_PSEUDO_SYM], [0]) /\
  count_bits [Z.of_nat gen_MAX_CLEN] (repeat 0 (S MAX_CLEN)) =
    Some (repeat 0 gen_MAX_CLEN ++ [1]) /\
  count_bits [Z.of_nat gen_MAX_CLEN + 1] (repeat 0 (S MAX_CLEN)) = None.
Proof. repeat split; vm_compute; reflexivity. Qed.
