(* C18 -- GetCode reads the three bytes code_buf[offs .. offs+2] (offs = cur_bit >> 3); offs+1 and
   offs+2 can lie at or beyond last_byte, where code_buf holds stale bytes of earlier blocks.  The code
   extracted depends only on the bytes below last_byte whenever cur_bit + code_size <= last_bit, so the
   model's choice (0) for stale bytes is immaterial. *)
From Coq Require Import List ZArith Lia Bool ZifyBool.
From LJT Require Import gen.GenImgRd model.RdCommon model.Gif proofs.PnmProofs proofs.GifProofs.
Import ListNotations.
Local Open Scope Z_scope.
Ltac Zify.zify_post_hook ::= Z.div_mod_to_equations.

(* the extraction of GetCode over an arbitrary code_buf content b *)
Definition extract (b : Z -> Z) (cur cs : Z) : Z :=
  let offs := cur / 8 in
  ((b (offs + 2) * 65536 + b (offs + 1) * 256 + b offs) / 2 ^ (cur mod 8)) mod 2 ^ cs.

Lemma extract_low k cs c0 c1 c2 c1' c2' : 0 <= k <= 7 -> 1 <= cs <= 12 -> k + cs <= 8 ->
  0 <= c0 <= 255 -> 0 <= c1 <= 255 -> 0 <= c2 <= 255 -> 0 <= c1' <= 255 -> 0 <= c2' <= 255 ->
  ((c2 * 65536 + c1 * 256 + c0) / 2 ^ k) mod 2 ^ cs = ((c2' * 65536 + c1' * 256 + c0) / 2 ^ k) mod 2 ^ cs.
Proof.
  intros Hk Hcs Hs H0 H1 H2 H1' H2'.
  assert (k = 0 \/ k = 1 \/ k = 2 \/ k = 3 \/ k = 4 \/ k = 5 \/ k = 6 \/ k = 7) as Ck by lia.
  assert (cs = 1 \/ cs = 2 \/ cs = 3 \/ cs = 4 \/ cs = 5 \/ cs = 6 \/ cs = 7 \/ cs = 8) as Cc by lia.
  repeat (destruct Ck as [-> | Ck]); try subst k; repeat (destruct Cc as [-> | Cc]); try subst cs; try lia;
    cbn [Z.pow Z.pow_pos Pos.iter Z.mul Pos.mul]; lia.
Qed.

Lemma extract_mid k cs c0 c1 c2 c2' : 0 <= k <= 7 -> 1 <= cs <= 12 -> k + cs <= 16 ->
  0 <= c0 <= 255 -> 0 <= c1 <= 255 -> 0 <= c2 <= 255 -> 0 <= c2' <= 255 ->
  ((c2 * 65536 + c1 * 256 + c0) / 2 ^ k) mod 2 ^ cs = ((c2' * 65536 + c1 * 256 + c0) / 2 ^ k) mod 2 ^ cs.
Proof.
  intros Hk Hcs Hs H0 H1 H2 H2'.
  assert (k = 0 \/ k = 1 \/ k = 2 \/ k = 3 \/ k = 4 \/ k = 5 \/ k = 6 \/ k = 7) as Ck by lia.
  assert (cs = 1 \/ cs = 2 \/ cs = 3 \/ cs = 4 \/ cs = 5 \/ cs = 6 \/ cs = 7 \/ cs = 8 \/ cs = 9 \/ cs = 10 \/ cs = 11 \/ cs = 12) as Cc by lia.
  repeat (destruct Ck as [-> | Ck]); try subst k; repeat (destruct Cc as [-> | Cc]); try subst cs; try lia;
    cbn [Z.pow Z.pow_pos Pos.iter Z.mul Pos.mul]; lia.
Qed.

(* two contents of code_buf that agree below last_byte give the same code *)
Theorem extract_ignores_stale (b b' : Z -> Z) lb cur cs :
  (forall i, 0 <= i < lb -> b i = b' i) -> (forall i, 0 <= b i <= 255) -> (forall i, 0 <= b' i <= 255) ->
  0 <= cur -> 1 <= cs <= 12 -> cur + cs <= 8 * lb ->
  extract b cur cs = extract b' cur cs.
Proof.
  intros Agree Bb Bb' Hcur Hcs Hfit. unfold extract.
  set (offs := cur / 8). set (k := cur mod 8).
  assert (Hk : 0 <= k <= 7) by (unfold k; lia).
  assert (Hoffs : 0 <= offs < lb) by (unfold offs; lia).
  rewrite <- (Agree offs Hoffs).
  destruct (Z_lt_le_dec (offs + 1) lb) as [L1|G1].
  - rewrite <- (Agree (offs + 1) ltac:(lia)).
    destruct (Z_lt_le_dec (offs + 2) lb) as [L2|G2].
    + rewrite <- (Agree (offs + 2) ltac:(lia)). reflexivity.
    + apply extract_mid; auto. unfold k, offs in *. lia.
  - apply extract_low; auto. unfold k, offs in *. lia.
Qed.

(* the model's GetCode, when it extracts, returns exactly [extract] of its buffer (stale bytes read as 0) *)
Lemma get_code_is_extract fuel st c st' :
  (z_cur_bit st + z_cs st >? z_last_bit st) = false -> get_code fuel st = ROk (c, st') ->
  c = extract (fun i => znth (z_buf st) i 0) (z_cur_bit st) (z_cs st).
Proof.
  intros W H. destruct fuel; cbn [get_code] in H; rewrite W in H; unfold rbind, buf_get in H;
    repeat match type of H with context [if ?c then RErr R_OOB else _] => destruct c; [discriminate|] end;
    inversion H; reflexivity.
Qed.

(* hence: replacing everything at or beyond last_byte by arbitrary bytes does not change the code *)
Theorem getcode_result_independent_of_stale_bytes fuel st c st' (stale : Z -> Z) :
  io_ok st -> 1 <= z_cs st <= 12 -> (forall i, 0 <= stale i <= 255) -> Forall (fun x => 0 <= x < 256) (z_buf st) ->
  (z_cur_bit st + z_cs st >? z_last_bit st) = false -> get_code fuel st = ROk (c, st') ->
  c = extract (fun i => if i <? Z.of_nat (length (z_buf st)) then znth (z_buf st) i 0 else stale i) (z_cur_bit st) (z_cs st).
Proof.
  intros (_ & Hlb & Hcur & Hlast & _) Hcs Hst Bb W H.
  rewrite (get_code_is_extract _ _ _ _ W H).
  apply (extract_ignores_stale _ _ (Z.of_nat (length (z_buf st)))); try lia.
  - intros i Hi. replace (i <? Z.of_nat (length (z_buf st))) with true by lia. reflexivity.
  - intro i. apply znth_byte. exact Bb.
  - intro i. destruct (i <? Z.of_nat (length (z_buf st))); [apply znth_byte; exact Bb|apply Hst].
Qed.
