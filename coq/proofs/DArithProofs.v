(* DArithProofs.v -- arithmetic decoder (jdarith.c): statistics-bin offsets, natural_order index and loop
   termination for EVERY decision sequence; table facts of jpeg_aritab that make arith_decode well defined. *)
From Coq Require Import List ZArith Bool Lia ZifyBool.
From LJT Require Import gen.GenLimits model.Huff model.DMarkers model.DProg model.DArith
  proofs.DMarkersProofs proofs.DMarkersBlockProofs proofs.DProgProofs.
Import ListNotations.
Local Open Scope Z_scope.
Ltac Zify.zify_post_hook ::= Z.div_mod_to_equations.
Ltac ulia ::= unfold L_DC_STAT_BINS, L_AC_STAT_BINS, bound_fixed_bin, bound_dc_context in *; ucon; lia.

Lemma mag_loop_spec d bins : forall fuel n st e tr, 0 <= st -> 0 <= e <= 14 -> st + (15 - e) <= bins - 14 ->
  15 - e <= Z.of_nat fuel -> tr_ok tr ->
  match mag_loop fuel d n st e bins tr with
  | AOk _ st' e' tr' => tr_ok tr' /\ 0 <= st' /\ 0 <= e' <= 14 /\ st' + 14 < bins
  | AErr _ tr' => tr_ok tr'
  | AFuel _ => False
  end.
Proof.
  induction fuel as [|f IH]; intros n st e tr Hs He Hb Hf Ht; cbn [mag_loop]; [lia|].
  assert (T1 : tr_ok (lg st bins tr)) by (apply lg_ok; auto; lia).
  destruct (d n).
  - destruct (e + 1 =? 15) eqn:E; [exact T1|]. apply IH; auto; lia.
  - repeat split; auto; lia.
Qed.

Lemma bits_loop_spec bins : forall k n st tr, 0 <= st < bins -> tr_ok tr -> tr_ok (snd (bits_loop k n st bins tr)).
Proof. induction k; intros n st tr Hs Ht; cbn [bits_loop]; auto. apply IHk; auto. apply lg_ok; auto. Qed.

Definition ctx_ok (c : Z) : Prop := c = 0 \/ c = 4 \/ c = 8 \/ c = 12 \/ c = 16.

Lemma dc_decode_spec d n ctx small large tr : ctx_ok ctx -> tr_ok tr ->
  match dc_decode d n ctx small large tr with
  | DOk _ ctx' tr' => ctx_ok ctx' /\ tr_ok tr'
  | DErr _ tr' => tr_ok tr'
  | DFuel _ => False
  end.
Proof.
  intros Hc Ht. unfold dc_decode. cbv zeta.
  assert (T0 : tr_ok (lg ctx L_DC_STAT_BINS tr)) by (apply lg_ok; auto; unfold ctx_ok in Hc; ulia).
  destruct (negb (d n)); [split; [left; reflexivity|exact T0]|].
  set (sign := if d (S n) then 1 else 0). assert (Hsg : 0 <= sign <= 1) by (unfold sign; destruct (d (S n)); lia).
  assert (T2 : tr_ok (lg (ctx + 2 + sign) L_DC_STAT_BINS (lg (ctx + 1) L_DC_STAT_BINS (lg ctx L_DC_STAT_BINS tr)))).
  { unfold ctx_ok in Hc. repeat apply lg_ok; auto; ulia. }
  assert (Fin : forall n' st' e tr', 0 <= st' -> st' + 14 < L_DC_STAT_BINS -> tr_ok tr' ->
     match (let '(n'', tr'') := bits_loop (Z.to_nat e) n' (st' + 14) L_DC_STAT_BINS tr' in
            DOk n'' (if small then 0 else if large then 12 + sign * 4 else 4 + sign * 4) tr'') with
     | DOk _ ctx' tr'' => ctx_ok ctx' /\ tr_ok tr'' | DErr _ tr'' => tr_ok tr'' | DFuel _ => False end).
  { intros n' st' e tr' H1 H2 H3. pose proof (bits_loop_spec L_DC_STAT_BINS (Z.to_nat e) n' (st' + 14) tr' ltac:(lia) H3) as B.
    destruct (bits_loop _ n' (st' + 14) L_DC_STAT_BINS tr') as [n'' tr'']. cbn [snd] in B. split; [|exact B].
    unfold ctx_ok. destruct small; [lia|]. destruct large; lia. }
  destruct (negb (d (S (S n)))).
  - apply Fin; auto; unfold ctx_ok in Hc; ulia.
  - pose proof (mag_loop_spec d L_DC_STAT_BINS 16 (S (S (S n))) 20 0 _ ltac:(lia) ltac:(lia) ltac:(ulia) ltac:(lia) T2) as M.
    destruct (mag_loop 16 d _ 20 0 L_DC_STAT_BINS _) as [n' st' e tr'|n' tr'|tr']; auto.
    destruct M as (M1 & M2 & M3 & M4). apply Fin; auto.
Qed.

Lemma run_loop_spec d : forall fuel n k tr, 1 <= k <= 63 -> 64 - k <= Z.of_nat fuel -> tr_ok tr ->
  match run_loop fuel d n k tr with
  | ROk _ k' tr' => k <= k' <= 63 /\ tr_ok tr'
  | RErr _ tr' => tr_ok tr'
  | RFuel2 _ => False
  end.
Proof.
  induction fuel as [|f IH]; intros n k tr Hk Hf Ht; cbn [run_loop]; [lia|].
  assert (T1 : tr_ok (lg (3 * (k - 1) + 1) L_AC_STAT_BINS tr)) by (apply lg_ok; auto; ulia).
  destruct (d n); [split; [lia|exact T1]|].
  destruct (k + 1 >? L_DCTSIZE2 - 1) eqn:E; [exact T1|].
  specialize (IH (S n) (k + 1) _ ltac:(ulia) ltac:(lia) T1).
  destruct (run_loop f d (S n) (k + 1) _); auto. destruct IH; split; auto; lia.
Qed.

Lemma ac_decode_spec d kle : forall fuel n k tr, 1 <= k <= 64 -> 64 - k <= Z.of_nat fuel -> tr_ok tr ->
  match ac_decode fuel d kle n k tr with
  | DOk _ k' tr' => 1 <= k' <= 64 /\ tr_ok tr'
  | DErr _ tr' => tr_ok tr'
  | DFuel _ => False
  end.
Proof.
  induction fuel as [|f IH]; intros n k tr Hk Hf Ht; cbn [ac_decode].
  - destruct (k <=? L_DCTSIZE2 - 1) eqn:E; [ulia|]. split; [ulia|exact Ht].
  - destruct (k <=? L_DCTSIZE2 - 1) eqn:E; [|split; [ulia|exact Ht]].
    assert (Hk63 : k <= 63) by ulia. cbv zeta.
    assert (T0 : tr_ok (lg (3 * (k - 1)) L_AC_STAT_BINS tr)) by (apply lg_ok; auto; ulia).
    destruct (d n); [split; [lia|exact T0]|].
    pose proof (run_loop_spec d 64 (S n) k _ ltac:(lia) ltac:(lia) T0) as R.
    destruct (run_loop 64 d (S n) k _) as [n1 k1 tr1|n1 tr1|tr1]; auto.
    destruct R as [Rk Rt].
    assert (T3 : tr_ok (lg (3 * (k1 - 1) + 2) L_AC_STAT_BINS (lg 0 bound_fixed_bin tr1))) by (repeat apply lg_ok; auto; ulia).
    assert (Fin : forall n' st' e tr', 0 <= st' -> st' + 14 < L_AC_STAT_BINS -> tr_ok tr' ->
      match (let '(n'', tr'') := bits_loop (Z.to_nat e) n' (st' + 14) L_AC_STAT_BINS tr' in
             ac_decode f d kle n'' (k1 + 1)
               (lg (nthd natural_order k1 (-1)) L_DCTSIZE2 (lg k1 bound_natural_order tr''))) with
      | DOk _ k' tr'' => 1 <= k' <= 64 /\ tr_ok tr'' | DErr _ tr'' => tr_ok tr'' | DFuel _ => False end).
    { intros n' st' e tr' H1 H2 H3.
      pose proof (bits_loop_spec L_AC_STAT_BINS (Z.to_nat e) n' (st' + 14) tr' ltac:(lia) H3) as B.
      destruct (bits_loop _ n' (st' + 14) L_AC_STAT_BINS tr') as [n'' tr'']. cbn [snd] in B.
      apply IH; try lia. apply lg_ok; [apply no_pos; lia|]. apply lg_ok; [ulia|exact B]. }
    destruct (negb (d (S n1))); [apply Fin; auto; ulia|].
    assert (T3' : tr_ok (lg (3 * (k1 - 1) + 2) L_AC_STAT_BINS (lg (3 * (k1 - 1) + 2) L_AC_STAT_BINS (lg 0 bound_fixed_bin tr1))))
      by (apply lg_ok; auto; ulia).
    destruct (negb (d (S (S n1)))); [apply Fin; auto; ulia|].
    assert (Hst : 189 <= (if kle k1 then 189 else 217) <= 217) by (destruct (kle k1); lia).
    pose proof (mag_loop_spec d L_AC_STAT_BINS 16 (S (S (S n1))) (if kle k1 then 189 else 217) 1 _ ltac:(lia) ltac:(lia) ltac:(ulia) ltac:(lia) T3') as M.
    destruct (mag_loop 16 d _ _ 1 L_AC_STAT_BINS _) as [n' st' e tr'|n' tr'|tr']; auto.
    destruct M as (M1 & M2 & M3 & M4). apply Fin; auto.
Qed.

(* statements used by props/C01.v *)
Lemma arith_index_safe_ : forall (d : nat -> bool) (kle : Z -> bool) n ctx small large,
  ctx_ok ctx ->
  match dc_decode d n ctx small large [] with
  | DOk _ ctx' tr => ctx_ok ctx' /\ tr_ok tr | DErr _ tr => tr_ok tr | DFuel _ => False end /\
  match ac_decode 64 d kle n 1 [] with
  | DOk _ k tr => 1 <= k <= 64 /\ tr_ok tr | DErr _ tr => tr_ok tr | DFuel _ => False end.
Proof.
  intros d kle n ctx small large Hc. split.
  - apply dc_decode_spec; auto. constructor.
  - apply ac_decode_spec; try lia. constructor.
Qed.

(* jpeg_aritab: 114 states; Qe in 1 .. 0x7FFF (so A - Qe > 0 whenever A >= 0x8000 and the renormalisation loop,
   which doubles a positive A, ends within 15 steps); both successor states are valid indices *)
Definition aritab_ok : bool :=
  (length aritab =? 114)%nat &&
  forallb (fun r => match r with (qe, nl, nm, sw) =>
             (1 <=? qe) && (qe <? 32768) && (0 <=? nl) && (nl <? 114) && (0 <=? nm) && (nm <? 114) && ((sw =? 0) || (sw =? 1)) end) aritab.
Lemma aritab_ok_true : aritab_ok = true.
Proof. vm_compute. reflexivity. Qed.

Lemma renorm_terminates : forall a, 1 <= a < 32768 -> exists n, (n <= 15)%nat /\ 32768 <= a * 2 ^ Z.of_nat n < 65536.
Proof.
  intros a Ha. exists (Z.to_nat (15 - Z.log2 a)).
  pose proof (Z.log2_spec a ltac:(lia)) as [L1 L2]. pose proof (Z.log2_nonneg a).
  assert (Z.log2 a < 15). { apply Z.log2_lt_pow2; lia. }
  split; [lia|]. rewrite Z2Nat.id by lia.
  replace (2 ^ Z.succ (Z.log2 a)) with (2 * 2 ^ Z.log2 a) in L2 by (rewrite Z.pow_succ_r; lia).
  assert (E : 2 ^ 15 = 2 ^ Z.log2 a * 2 ^ (15 - Z.log2 a)) by (rewrite <- Z.pow_add_r by lia; f_equal; lia).
  change (2 ^ 15) with 32768 in E. assert (0 < 2 ^ (15 - Z.log2 a)) by (apply Z.pow_pos_nonneg; lia). nia.
Qed.

(* every statistics area that process_restart re-initialises or an MCU decoder dereferences in a scan was validated
   (tbl < NUM_ARITH_TBLS) and allocated by start_pass for that scan: the four conditions are read from the source *)
Lemma stats_areas_allocated_ : forall prog Ss Ah,
  (restart_uses_dc prog Ss Ah = true -> sp_allocs_dc prog Ss Ah = true) /\
  (restart_uses_ac prog Ss Ah = true -> sp_allocs_ac prog Ss Ah = true) /\
  (decoder_uses_dc prog Ss Ah = true -> sp_allocs_dc prog Ss Ah = true) /\
  (decoder_uses_ac prog Ss Ah = true -> sp_allocs_ac prog Ss Ah = true).
Proof.
  intros prog Ss Ah. unfold restart_uses_dc, restart_uses_ac, sp_allocs_dc, sp_allocs_ac, decoder_uses_dc, decoder_uses_ac.
  destruct prog, (Ss =? 0), (Ah =? 0); cbn; repeat split; intros H; try exact H; try reflexivity; try discriminate.
Qed.
