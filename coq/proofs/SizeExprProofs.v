(* C14 -- interval analysis of the malloc size expressions is sound: if every node fits its C type for the variable
   bounds, the C evaluation equals the integer evaluation (no wrap) for every admissible environment. *)
From Coq Require Import List ZArith Bool Lia.
From LJT Require Import model.SizeExpr.
Import ListNotations.
Local Open Scope Z_scope.

Theorem fits_sound : forall bd e env, fits bd e = true -> env_ok bd env ->
  wrapped e env = exact e env /\ 0 <= exact e env <= ub bd e.
Proof.
  intros bd e env. induction e as [n|v|w a IHa b IHb|w a IHa b IHb|a IHa b IHb|w a IHa p]; simpl; intros Hf He.
  - apply Z.leb_le in Hf. split; auto. lia.
  - apply andb_true_iff in Hf. destruct Hf as (H1 & H2). apply Z.leb_le in H1. specialize (He v). split; auto. lia.
  - apply andb_true_iff in Hf; destruct Hf as (Hf & Hw). apply andb_true_iff in Hf; destruct Hf as (Hf & H0).
    apply andb_true_iff in Hf. destruct Hf as (Ha & Hb).
    destruct (IHa Ha He) as (Ea & Ra). destruct (IHb Hb He) as (Eb & Rb). rewrite Ea, Eb.
    assert (0 <= exact a env * exact b env <= ub bd a * ub bd b) by (split; [apply Z.mul_nonneg_nonneg; lia | apply Z.mul_le_mono_nonneg; lia]).
    apply Z.ltb_lt in H0. split; [apply Z.mod_small; lia | lia].
  - apply andb_true_iff in Hf; destruct Hf as (Hf & Hw). apply andb_true_iff in Hf; destruct Hf as (Hf & H0).
    apply andb_true_iff in Hf. destruct Hf as (Ha & Hb).
    destruct (IHa Ha He) as (Ea & Ra). destruct (IHb Hb He) as (Eb & Rb). rewrite Ea, Eb.
    apply Z.ltb_lt in H0. split; [apply Z.mod_small; lia | lia].
  - apply andb_true_iff in Hf. destruct Hf as (Hf & Hd). apply andb_true_iff in Hf. destruct Hf as (Ha & Hb).
    destruct (IHa Ha He) as (Ea & Ra). destruct (IHb Hb He) as (Eb & Rb). rewrite Ea, Eb. split; auto.
    assert (1 <= exact b env).
    { destruct b; try discriminate; simpl in *; apply Z.leb_le in Hd; [lia | specialize (He id); lia]. }
    split; [apply Z.div_pos; lia|]. apply Z.le_trans with (exact a env); [|lia]. apply Z.div_le_upper_bound; nia.
  - apply andb_true_iff in Hf; destruct Hf as (Hf & Hw). apply andb_true_iff in Hf; destruct Hf as (Hf & H0).
    apply andb_true_iff in Hf; destruct Hf as (Hf & H1).
    destruct (IHa Hf He) as (Ea & Ra). rewrite Ea. apply Z.leb_le in H1. apply Z.ltb_lt in H0.
    rewrite Z.mod_small by lia. split; auto.
    pose proof (Z.mul_div_le (exact a env + p - 1) p ltac:(lia)).
    assert (0 <= (exact a env + p - 1) / p) by (apply Z.div_pos; lia).
    rewrite (Z.mul_comm _ p). split; [apply Z.mul_nonneg_nonneg; lia | lia].
Qed.
