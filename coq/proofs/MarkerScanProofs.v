(* MarkerScanProofs.v -- C16: next_marker on EVERY byte string.  It terminates (structural recursion on the input);
   when it returns, the input is  pre ++ 255 :: m :: rest  with m not in {0, 255}, no earlier FF is followed by such a
   byte (first marker at or after the cursor), exactly pre ++ [255; m] is consumed, and discarded_bytes = the non-FF
   bytes of pre plus one more for every stuffed zero (FF.. 00 pair counts 2, FF fill bytes count 0); when the data
   runs out no marker was in it. *)
From Coq Require Import List ZArith Bool Lia.
From LJT Require Import gen.GenIccConst model.MarkerScan.
Import ListNotations.
Local Open Scope Z_scope.

(* no byte of l that directly follows an FF (or the cursor, when prev_ff) is a marker code *)
Fixpoint clean (prev_ff : bool) (l : list Z) : Prop :=
  match l with
  | [] => True
  | c :: r => (prev_ff = true -> c = 0 \/ c = 255) /\ clean (c =? 255) r
  end.
Definition state_after (prev_ff : bool) (l : list Z) : bool := fold_left (fun _ c => c =? 255) l prev_ff.
(* what next_marker adds to discarded_bytes while skipping l *)
Fixpoint disc_count (prev_ff : bool) (l : list Z) : Z :=
  match l with
  | [] => 0
  | c :: r => if c =? 255 then disc_count true r
              else (if prev_ff && (c =? 0) then 2 else 1) + disc_count false r
  end.

Lemma scan_general bs : forall ff d,
  match next_marker_scan bs ff d with
  | None => clean ff bs
  | Some (m, d', rest) =>
      exists pre, bs = pre ++ m :: rest /\ clean ff pre /\ state_after ff pre = true /\ m <> 0 /\ m <> 255 /\
                  d' = d + disc_count ff pre
  end.
Proof.
  induction bs as [|c r IH]; intros ff d; [exact I|]. cbn [next_marker_scan].
  destruct ff.
  - destruct (c =? 255) eqn:E1.
    + apply Z.eqb_eq in E1. subst c. specialize (IH true d).
      destruct (next_marker_scan r true d) as [[[m d'] rest]|].
      * destruct IH as (pre & Eb & Cl & St & M0 & M1 & Ed). exists (255 :: pre). cbn [app clean disc_count]. unfold state_after in *. cbn [fold_left].
        change (255 =? 255) with true. cbn iota. repeat split; try assumption; [congruence | auto].
      * cbn [clean]. change (255 =? 255) with true. split; [auto | assumption].
    + destruct (c =? 0) eqn:E0.
      * apply Z.eqb_eq in E0. subst c. specialize (IH false (d + 2)).
        destruct (next_marker_scan r false (d + 2)) as [[[m d'] rest]|].
        -- destruct IH as (pre & Eb & Cl & St & M0 & M1 & Ed). exists (0 :: pre). cbn [app clean disc_count]. unfold state_after in *. cbn [fold_left].
           change (0 =? 255) with false. cbn [andb]. change (0 =? 0) with true. cbn iota.
           repeat split; try assumption; [congruence | auto | lia].
        -- cbn [clean]. change (0 =? 255) with false. split; [auto | assumption].
      * exists []. cbn [app clean disc_count]. unfold state_after. cbn [fold_left].
        apply Z.eqb_neq in E1, E0. repeat split; auto; lia.
  - destruct (c =? 255) eqn:E1.
    + apply Z.eqb_eq in E1. subst c. specialize (IH true d).
      destruct (next_marker_scan r true d) as [[[m d'] rest]|].
      * destruct IH as (pre & Eb & Cl & St & M0 & M1 & Ed). exists (255 :: pre). cbn [app clean disc_count]. unfold state_after in *. cbn [fold_left].
        change (255 =? 255) with true. cbn iota. repeat split; try assumption; [congruence | discriminate].
      * cbn [clean]. change (255 =? 255) with true. split; [discriminate | assumption].
    + specialize (IH false (d + 1)).
      destruct (next_marker_scan r false (d + 1)) as [[[m d'] rest]|].
      * destruct IH as (pre & Eb & Cl & St & M0 & M1 & Ed). exists (c :: pre). cbn [app clean disc_count]. unfold state_after in *. cbn [fold_left].
        rewrite E1. cbn [andb]. repeat split; try assumption; [congruence | discriminate | lia].
      * cbn [clean]. rewrite E1. split; [discriminate | assumption].
Qed.

Lemma state_after_true l : state_after false l = true -> exists l', l = l' ++ [255].
Proof.
  destruct l as [|x l] using rev_ind; [discriminate|]. unfold state_after. rewrite fold_left_app. cbn [fold_left].
  intros H. apply Z.eqb_eq in H. subst. eauto.
Qed.
Lemma clean_app ff a b : clean ff (a ++ b) -> clean ff a.
Proof. revert ff; induction a as [|x a IH]; intros ff H; [exact I|]. cbn [app clean] in *. destruct H; split; auto. Qed.

(* number of bytes of l that are not FF / stuffed zeros (a 00 directly after an FF) *)
Definition nonff (l : list Z) : Z := Z.of_nat (length (filter (fun c => negb (c =? 255)) l)).
Fixpoint stuffed (prev_ff : bool) (l : list Z) : Z :=
  match l with [] => 0 | c :: r => (if prev_ff && (c =? 0) then 1 else 0) + stuffed (c =? 255) r end.
Lemma disc_count_split l : forall ff, disc_count ff l = nonff l + stuffed ff l.
Proof.
  unfold nonff. induction l as [|c r IH]; intros ff; [reflexivity|]. cbn [disc_count filter stuffed].
  destruct (c =? 255) eqn:E; cbn [negb].
  - rewrite IH. apply Z.eqb_eq in E. subst c. change (255 =? 0) with false. rewrite andb_false_r. lia.
  - cbn [length]. rewrite IH. destruct (ff && (c =? 0)); lia.
Qed.

(* ALL byte strings *)
Theorem next_marker_spec bs :
  match next_marker_full bs with
  | Some (m, d, rest) =>
      exists pre, bs = pre ++ 255 :: m :: rest /\ m <> 0 /\ m <> 255 /\
                  clean false (pre ++ [255]) /\                       (* no marker before this one *)
                  d = nonff pre + stuffed false pre /\                  (* discarded_bytes *)
                  length bs = (length pre + 2 + length rest)%nat       (* consumes exactly up to the marker *)
  | None => clean false bs                                             (* data ran out: there was no marker in it *)
  end.
Proof.
  unfold next_marker_full. pose proof (scan_general bs false 0) as H.
  destruct (next_marker_scan bs false 0) as [[[m d] rest]|]; [|assumption].
  destruct H as (pre0 & Eb & Cl & St & M0 & M1 & Ed).
  destruct (state_after_true pre0 St) as (pre & ->). exists pre.
  rewrite <- app_assoc in Eb. cbn [app] in Eb. repeat split; try assumption.
  - rewrite Ed, Z.add_0_l, disc_count_split.
    assert (N : nonff (pre ++ [255]) = nonff pre) by (unfold nonff; rewrite filter_app; cbn [filter]; change (255 =? 255) with true; cbn [negb]; rewrite app_nil_r; reflexivity).
    assert (S : forall ff, stuffed ff (pre ++ [255]) = stuffed ff pre).
    { clear. induction pre as [|c r IH]; intros ff; cbn [app stuffed].
      - change (255 =? 0) with false. rewrite andb_false_r. reflexivity.
      - rewrite IH. reflexivity. }
    rewrite N, S. reflexivity.
  - rewrite Eb, app_length. cbn [length]. lia.
Qed.

Theorem first_marker_spec bs :
  (forall r, first_marker bs = FOk r <-> bs = 255 :: M_SOI :: r) /\ (first_marker bs = FSuspend <-> (length bs < 2)%nat).
Proof.
  unfold first_marker. destruct bs as [|c [|c2 r]]; split; try (intros r0); split; intros H; try discriminate; try (cbn in H; lia); try reflexivity; try (cbn; lia).
  - destruct ((c =? 255) && (c2 =? M_SOI)) eqn:E; [|discriminate]. apply andb_true_iff in E as (E1 & E2).
    apply Z.eqb_eq in E1, E2. inversion H. congruence.
  - inversion H; subst. rewrite !Z.eqb_refl. reflexivity.
  - destruct ((c =? 255) && (c2 =? M_SOI)); discriminate.
Qed.

(* non-vacuity: garbage, fill bytes and a stuffed zero in front of a COM marker *)
Lemma ex_scan_junk : next_marker_full [1; 2; 255; 255; 0; 7; 255; 255; 254; 0; 2] = Some (254, 5, [0; 2]).
Proof. reflexivity. Qed.
