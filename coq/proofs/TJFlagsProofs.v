From Coq Require Import List ZArith Lia Bool.
From LJT Require Import gen.GenLayouts model.TJFlags.
Import ListNotations.
Local Open Scope Z_scope.

Lemma pf_step_agree flags q op e st1 st2 k : st1 k = st2 k -> pf_step flags q op e st1 k = pf_step flags q op e st2 k.
Proof.
  destruct e as [[[[fld kind] m1] m2] v]. unfold pf_step. intro H.
  destruct (k =? fld); [|exact H].
  destruct (kind =? 0); [reflexivity|]. destruct (kind =? 1); [now rewrite H|].
  destruct (kind =? 2); [reflexivity | exact H].
Qed.

Lemma pf_step_assign flags q op e st1 st2 k :
  (let '(f, kind, _, _, _) := e in (f =? k) && ((kind =? 0) || (kind =? 2))) = true ->
  pf_step flags q op e st1 k = pf_step flags q op e st2 k.
Proof.
  destruct e as [[[[fld kind] m1] m2] v]. unfold pf_step. intro H.
  apply andb_prop in H. destruct H as [Hf Hk]. apply Z.eqb_eq in Hf. subst fld. rewrite Z.eqb_refl.
  apply orb_prop in Hk. destruct Hk as [Hk|Hk].
  - now rewrite Hk.
  - apply Z.eqb_eq in Hk. subst kind. reflexivity.
Qed.

Lemma pf_run_agree flags q op : forall tab st1 st2 k,
  pf_assigned tab k = true \/ st1 k = st2 k -> pf_run flags q op tab st1 k = pf_run flags q op tab st2 k.
Proof.
  induction tab as [|e t IH]; intros st1 st2 k H.
  - destruct H as [H|H]; [discriminate H | exact H].
  - cbn [pf_run]. apply IH. destruct H as [H|H].
    + unfold pf_assigned in H. cbn [existsb] in H. apply orb_prop in H. destruct H as [H|H].
      * right. now apply pf_step_assign.
      * left. exact H.
    + right. now apply pf_step_agree.
Qed.

(* after processFlags every per-call parameter is a function of (flags, quality, operation) alone:
   nothing a previous call left in the instance survives *)
Theorem process_flags_history_free : forall flags q op st1 st2 k, In k per_call_fields ->
  process_flags flags q op st1 k = process_flags flags q op st2 k.
Proof.
  intros flags q op st1 st2 k Hk. unfold process_flags. apply pf_run_agree. left.
  cbv [per_call_fields In] in Hk.
  repeat (destruct Hk as [<- | Hk]); try contradiction; vm_compute; reflexivity.
Qed.

(* and the row order is the flag of THIS call *)
Theorem process_flags_bottomup : forall flags q op st,
  process_flags flags q op st F_bottomUp = b2z (has flags TJFLAG_BOTTOMUP).
Proof.
  intros. transitivity (process_flags flags q op (fun _ => b2z (has flags TJFLAG_BOTTOMUP)) F_bottomUp).
  - apply process_flags_history_free. cbv [per_call_fields In]. auto.
  - unfold process_flags.
    assert (G : forall tab st, Forall (fun e => let '(f, kind, m1, _, _) := e in f <> F_bottomUp \/ (kind = 0 /\ m1 = TJFLAG_BOTTOMUP)) tab ->
                st F_bottomUp = b2z (has flags TJFLAG_BOTTOMUP) ->
                pf_run flags q op tab st F_bottomUp = b2z (has flags TJFLAG_BOTTOMUP)).
    { induction tab as [|e t IH]; intros st0 HF H0; [exact H0|].
      inversion HF as [|? ? He Ht]; subst. cbn [pf_run]. apply IH; [exact Ht|].
      destruct e as [[[[fld kind] m1] m2] v]. unfold pf_step.
      destruct (F_bottomUp =? fld) eqn:E; [|exact H0].
      apply Z.eqb_eq in E. destruct He as [He|[-> ->]]; [congruence|]. reflexivity. }
    apply G; [|reflexivity].
    unfold process_flags_entries.
    repeat (apply Forall_cons; [cbv beta iota; ((left; vm_compute; discriminate) || (right; split; reflexivity))|]).
    apply Forall_nil.
Qed.
