(* C17: validate_script -- index safety and well-formedness of every accepted script. *)
From Coq Require Import List ZArith Bool Lia ZifyBool.
From LJT Require Import model.Huff gen.GenParams model.CParams proofs.CParamsHoare.
Import ListNotations.
Local Open Scope Z_scope.

Ltac consts := cbv [g_DCTSIZE g_DCTSIZE2 g_MAX_COMPONENTS g_MAX_COMPS_IN_SCAN g_C_MAX_BLOCKS_IN_MCU g_MAX_SAMP_FACTOR
                    g_AHAL_PREC g_MAX_AH_AL_HI g_MAX_AH_AL_LO g_PSV_MIN g_PSV_MAX g_JPEG_MAX_DIMENSION
                    g_LOSSLESS_PREC_MIN g_LOSSLESS_PREC_MAX g_LOSSY_PREC_A g_LOSSY_PREC_B g_RESTART_MAX arr_size] in *.

(* what an accepted scan looks like *)
Definition comps_wf (nc : Z) (s : scan) : Prop :=
  1 <= s_ncomps s <= g_MAX_COMPS_IN_SCAN /\
  forall ci, 0 <= ci < s_ncomps s ->
    0 <= getZ (s_comps s) ci < nc /\ (0 < ci -> getZ (s_comps s) (ci - 1) < getZ (s_comps s) ci).

Definition params_wf (mode : smode) (prec : Z) (s : scan) : Prop :=
  match mode with
  | Progressive =>
      0 <= s_Ss s <= s_Se s /\ s_Se s <= g_DCTSIZE2 - 1 /\
      0 <= s_Ah s <= (if prec =? g_AHAL_PREC then g_MAX_AH_AL_HI else g_MAX_AH_AL_LO) /\
      0 <= s_Al s <= (if prec =? g_AHAL_PREC then g_MAX_AH_AL_HI else g_MAX_AH_AL_LO) /\
      (s_Ss s = 0 -> s_Se s = 0) /\ (s_Ss s <> 0 -> s_ncomps s = 1)
  | Sequential => s_Ss s = 0 /\ s_Se s = g_DCTSIZE2 - 1 /\ s_Ah s = 0 /\ s_Al s = 0
  | Lossless => g_PSV_MIN <= s_Ss s <= g_PSV_MAX /\ s_Se s = 0 /\ s_Ah s = 0 /\ 0 <= s_Al s < prec
  end.

Definition scan_wf (nc : Z) (mode : smode) (prec : Z) (s : scan) : Prop := comps_wf nc s /\ params_wf mode prec s.

Lemma check_comp_indexes_sat nc s :
  1 <= s_ncomps s <= g_MAX_COMPS_IN_SCAN ->
  sat (check_comp_indexes nc s) (fun _ => comps_wf nc s).
Proof.
  intro Hn. unfold check_comp_indexes.
  eapply sat_weaken.
  - apply (sat_for _ 0 _ tt
      (fun j _ => forall ci, 0 <= ci < j ->
         0 <= getZ (s_comps s) ci < nc /\ (0 < ci -> getZ (s_comps s) (ci - 1) < getZ (s_comps s) ci))).
    + intros ci Hci. lia.
    + intros j [] Hj Inv.
      eapply sat_seq with (P := True).
      { apply sat_touch; [consts; lia|exact I]. }
      intros _. eapply sat_seq.
      { apply sat_guard. intro Hg. exact Hg. }
      intro Hg. apply sat_if; intro Hc.
      * eapply sat_seq with (P := True).
        { apply sat_touch; [consts; lia|exact I]. }
        intros _. apply sat_guard. intro Hg2.
        intros ci Hci. destruct (Z.eq_dec ci j) as [->|Hne]; [lia|apply Inv; lia].
      * apply sat_ret. intros ci Hci. destruct (Z.eq_dec ci j) as [->|Hne]; [lia|apply Inv; lia].
  - intros [] H. split; [exact Hn|]. intros ci Hci. apply H. lia.
Qed.

Lemma prog_coef_loop_sat s c lb :
  0 <= c < g_MAX_COMPONENTS -> 0 <= s_Ss s -> s_Se s <= g_DCTSIZE2 - 1 ->
  sat (prog_coef_loop s c lb) (fun _ => True).
Proof.
  intros Hc Hs He. unfold prog_coef_loop.
  eapply sat_weaken.
  - apply (sat_for _ (s_Ss s) _ lb (fun _ _ => True)); [exact I|].
    intros j lb' Hj _.
    eapply sat_seq with (P := True).
    { apply sat_touch; [consts; lia|exact I]. }
    intros _. eapply sat_seq with (P := True).
    { destruct (lb_get lb' c j <? 0); apply sat_guard; intros _; exact I. }
    intros _. apply sat_ret. exact I.
  - intros; exact I.
Qed.

Lemma prog_scan_sat nc prec s lb :
  nc <= g_MAX_COMPONENTS -> comps_wf nc s ->
  sat (prog_scan prec s lb) (fun _ => params_wf Progressive prec s).
Proof.
  intros Hnc [Hn Hcomp]. unfold prog_scan. cbv zeta.
  eapply sat_seq. { apply sat_guard. intro Hg. exact Hg. }
  intro Hg.
  eapply sat_seq with (P := (s_Ss s = 0 -> s_Se s = 0) /\ (s_Ss s <> 0 -> s_ncomps s = 1)).
  { apply sat_if; intro Hs; apply sat_guard; intro Hg2; lia. }
  intros [Hdc Hac].
  eapply sat_weaken.
  - apply (sat_for _ 0 _ lb (fun _ _ => True)); [exact I|].
    intros j lb' Hj _.
    eapply sat_seq with (P := True). { apply sat_touch; [consts; lia|exact I]. }
    intros _.
    assert (Hcj : 0 <= getZ (s_comps s) j < nc) by (apply Hcomp; lia).
    eapply sat_seq with (P := True).
    { apply sat_if; intro Hss.
      - eapply sat_seq with (P := True). { apply sat_touch; [consts; lia|exact I]. }
        intros _. apply sat_guard. intros _; exact I.
      - apply sat_ret; exact I. }
    intros _. apply prog_coef_loop_sat; consts; lia.
  - intros _ _. unfold params_wf.
    destruct (prec =? g_AHAL_PREC); consts; repeat split; lia.
Qed.

Lemma seq_scan_sat nc prec (lossless : bool) s sent :
  nc <= g_MAX_COMPONENTS -> comps_wf nc s ->
  sat (seq_scan lossless prec s sent) (fun _ => params_wf (if lossless then Lossless else Sequential) prec s).
Proof.
  intros Hnc [Hn Hcomp]. unfold seq_scan. cbv zeta.
  eapply sat_seq with (P := params_wf (if lossless then Lossless else Sequential) prec s).
  { destruct lossless; apply sat_guard; intro Hg; unfold params_wf; consts; lia. }
  intro Hp.
  eapply sat_weaken.
  - apply (sat_for _ 0 _ sent (fun _ _ => True)); [exact I|].
    intros j sent' Hj _.
    assert (Hcj : 0 <= getZ (s_comps s) j < nc) by (apply Hcomp; lia).
    eapply sat_seq with (P := True). { apply sat_touch; [consts; lia|exact I]. }
    intros _. eapply sat_seq with (P := True). { apply sat_touch; [consts; lia|exact I]. }
    intros _. eapply sat_seq with (P := True). { apply sat_guard; intros _; exact I. }
    intros _. apply sat_ret; exact I.
  - intros _ _. exact Hp.
Qed.

Lemma one_scan_sat mode nc prec s st :
  nc <= g_MAX_COMPONENTS -> sat (one_scan mode nc prec s st) (fun _ => scan_wf nc mode prec s).
Proof.
  intro Hnc. unfold one_scan.
  eapply sat_seq. { apply sat_guard. intro Hg. exact Hg. }
  intro Hg.
  eapply sat_seq. { apply check_comp_indexes_sat. consts. lia. }
  intro Hc.
  destruct mode.
  - eapply sat_bind. { apply (seq_scan_sat nc prec false); assumption. }
    intros sn Hp. apply sat_ret. split; assumption.
  - eapply sat_bind. { apply (prog_scan_sat nc prec); assumption. }
    intros lb Hp. apply sat_ret. split; assumption.
  - eapply sat_bind. { apply (seq_scan_sat nc prec true); assumption. }
    intros sn Hp. apply sat_ret. split; assumption.
Qed.

Lemma scan_loop_sat mode nc prec scans st :
  nc <= g_MAX_COMPONENTS -> sat (scan_loop mode nc prec scans st) (fun _ => Forall (scan_wf nc mode prec) scans).
Proof.
  intro Hnc. revert st. induction scans as [|s r IH]; intro st; cbn [scan_loop].
  - apply sat_ret. constructor.
  - eapply sat_bind. { apply one_scan_sat; exact Hnc. }
    intros st' Hs. eapply sat_weaken. { apply IH. }
    intros u Hr. constructor; assumption.
Qed.

Lemma init_state_sat mode nc : nc <= g_MAX_COMPONENTS -> sat (init_state mode nc) (fun _ => True).
Proof.
  intro Hnc.
  assert (Hseq : sat (for_loop (Z.to_nat nc) 0 (fun ci _ => touch A_component_sent ci) tt ;;;
                      ret {| v_sent := repeat false (Z.to_nat nc); v_lb := [] |}) (fun _ => True)).
  { eapply sat_seq with (P := True).
    - eapply sat_weaken.
      + apply (sat_for _ 0 _ tt (fun _ _ => True)); [exact I|].
        intros j [] Hj _. apply sat_touch; [consts; lia|exact I].
      + intros; exact I.
    - intros _. apply sat_ret. exact I. }
  destruct mode; cbn [init_state]; try exact Hseq.
  eapply sat_seq with (P := True).
  - eapply sat_weaken.
    + apply (sat_for _ 0 _ tt (fun _ _ => True)); [exact I|].
      intros j [] Hj _.
      eapply sat_weaken.
      * apply (sat_for _ 0 _ tt (fun _ _ => True)); [exact I|].
        intros k [] Hk _. apply sat_touch; [consts; lia|exact I].
      * intros; exact I.
    + intros; exact I.
  - intros _. apply sat_ret. exact I.
Qed.

Lemma final_check_sat mode nc st : nc <= g_MAX_COMPONENTS -> sat (final_check mode nc st) (fun _ => True).
Proof.
  intro Hnc. unfold final_check. eapply sat_weaken.
  - apply (sat_for _ 0 _ tt (fun _ _ => True)); [exact I|].
    intros j [] Hj _. destruct mode.
    + eapply sat_seq with (P := True). { apply sat_touch; [consts; lia|exact I]. }
      intros _. apply sat_guard; intros _; exact I.
    + eapply sat_seq with (P := True). { apply sat_touch; [consts; lia|exact I]. }
      intros _. apply sat_guard; intros _; exact I.
    + eapply sat_seq with (P := True). { apply sat_touch; [consts; lia|exact I]. }
      intros _. apply sat_guard; intros _; exact I.
  - intros; exact I.
Qed.

(* the component-count check at the head of validate_script is present in the tree (generated fact) *)
Lemma ncomp_check_present : g_NCOMP_CHECK_IN_VALIDATE = 1.
Proof. reflexivity. Qed.

(* validate_script: for EVERY num_components, precision and script (no precondition):
   all array accesses are in range, and an accepted script is well formed *)
Theorem validate_script_safe_lemma : forall nc prec scans,
  sat (validate_script nc prec scans)
      (fun mode => nc <= g_MAX_COMPONENTS /\ scans <> [] /\ mode = script_mode (hd {| s_ncomps := 0; s_comps := []; s_Ss := 0; s_Se := 0; s_Ah := 0; s_Al := 0 |} scans) /\
                   Forall (scan_wf nc mode prec) scans).
Proof.
  intros nc prec scans. unfold validate_script. destruct scans as [|s0 r]; [apply sat_fail|].
  rewrite ncomp_check_present. cbn [Z.eqb Pos.eqb].
  eapply sat_seq. { apply sat_guard. intro Hg. exact Hg. }
  intro Hg. assert (Hnc : nc <= g_MAX_COMPONENTS) by lia.
  cbv zeta.
  eapply sat_bind. { apply init_state_sat; exact Hnc. }
  intros st0 _.
  eapply sat_bind. { apply scan_loop_sat; exact Hnc. }
  intros st Hall.
  eapply sat_seq with (P := True). { eapply sat_weaken; [apply final_check_sat; exact Hnc|intros; exact I]. }
  intros _. apply sat_ret. repeat split; try assumption. discriminate.
Qed.
