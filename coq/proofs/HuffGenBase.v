(* HuffGenBase.v -- list/sum lemmas and the correctness of the two-smallest
   selection loop of jpeg_gen_optimal_table (model/Huff.v sel_scan). *)
From Coq Require Import List ZArith Lia Bool Permutation Arith.
From LJT Require Import model.Huff.
Import ListNotations.
Local Open Scope Z_scope.

(* ------------------------------------------------------------ upd / nth *)
Lemma upd_length {A} (i : nat) (x : A) l : length (upd i x l) = length l.
Proof. revert i; induction l as [|h t IH]; intros [|i]; cbn; auto. Qed.

Lemma nth_upd_eq {A} (i : nat) (x d : A) l : (i < length l)%nat -> nth i (upd i x l) d = x.
Proof.
  revert i; induction l as [|h t IH]; intros [|i] H; cbn in *; try lia; auto.
  apply IH; lia.
Qed.

Lemma nth_upd_ne {A} (i j : nat) (x d : A) l : i <> j -> nth j (upd i x l) d = nth j l d.
Proof.
  revert i j; induction l as [|h t IH]; intros [|i] [|j] H; cbn; auto; try lia; try (apply IH; lia).
Qed.

Lemma nthZ_upd_eq i x l : (i < length l)%nat -> nthZ (upd i x l) i = x.
Proof. apply nth_upd_eq. Qed.
Lemma nthZ_upd_ne i j x l : i <> j -> nthZ (upd i x l) j = nthZ l j.
Proof. apply nth_upd_ne. Qed.

Lemma upd_comm {A} (i j : nat) (x y : A) l :
  i <> j -> upd i x (upd j y l) = upd j y (upd i x l).
Proof.
  revert i j; induction l as [|h t IH]; intros [|i] [|j] H; cbn; auto; try lia.
  f_equal. apply IH. lia.
Qed.

Lemma map_upd {A B} (f : A -> B) (i : nat) (x : A) l : map f (upd i x l) = upd i (f x) (map f l).
Proof.
  revert i; induction l as [|h t IH]; intros [|i]; cbn; auto. f_equal. apply IH.
Qed.

Lemma In_upd {A} (i : nat) (x y : A) l : In y (upd i x l) -> y = x \/ In y l.
Proof.
  revert i; induction l as [|h t IH]; intros [|i] H; cbn in *; auto.
  - destruct H as [H|H]; auto.
  - destruct H as [H|H]; auto. destruct (IH _ H); auto.
Qed.

Lemma nth_In_Z l i : (i < length l)%nat -> In (nthZ l i) l.
Proof. intros; apply nth_In; assumption. Qed.

Lemma nthZ_app1 pre f j : (j < length pre)%nat -> nthZ (pre ++ [f]) j = nthZ pre j.
Proof. intros; unfold nthZ; apply app_nth1; assumption. Qed.
Lemma nthZ_app_last pre f : nthZ (pre ++ [f]) (length pre) = f.
Proof. unfold nthZ. rewrite app_nth2 by lia. rewrite Nat.sub_diag. reflexivity. Qed.

Lemma nthZ_overflow l i : (length l <= i)%nat -> nthZ l i = 0.
Proof. intros; unfold nthZ; apply nth_overflow; assumption. Qed.

Lemma map_nth_seq {A} (l : list A) d : map (fun i => nth i l d) (seq 0 (length l)) = l.
Proof.
  induction l as [|h t IH]; cbn [length seq map]; [reflexivity|].
  cbn [nth]. f_equal. rewrite <- seq_shift, map_map. exact IH.
Qed.

(* ------------------------------------------------------------------ sums *)
Lemma sumZ_app a b : sumZ (a ++ b) = sumZ a + sumZ b.
Proof. induction a as [|x t IH]; cbn [sumZ app]; lia. Qed.

Lemma sumZ_map_upd (g : Z -> Z) i x l :
  (i < length l)%nat -> sumZ (map g (upd i x l)) = sumZ (map g l) - g (nthZ l i) + g x.
Proof.
  unfold nthZ. revert i; induction l as [|h t IH]; intros [|i] H; cbn in *; try lia.
  rewrite IH by lia. lia.
Qed.

Lemma sumZ_upd i x l : (i < length l)%nat -> sumZ (upd i x l) = sumZ l - nthZ l i + x.
Proof.
  intros H. pose proof (sumZ_map_upd (fun z => z) i x l H) as E.
  rewrite !map_id in E. exact E.
Qed.

Lemma sumZ_map_nonneg {A} (g : A -> Z) l : (forall x, In x l -> 0 <= g x) -> 0 <= sumZ (map g l).
Proof.
  induction l as [|h t IH]; intros H; cbn; [lia|].
  assert (0 <= g h) by (apply H; left; reflexivity).
  assert (0 <= sumZ (map g t)) by (apply IH; intros; apply H; right; assumption). lia.
Qed.

Lemma sumZ_map_zero {A} (g : A -> Z) l : (forall x, In x l -> g x = 0) -> sumZ (map g l) = 0.
Proof.
  induction l as [|h t IH]; intros H; cbn; [lia|].
  rewrite (H h) by (left; reflexivity). rewrite IH; [lia|]. intros; apply H; right; assumption.
Qed.

Lemma sumZ_map_ext_in {A} (f g : A -> Z) l :
  (forall x, In x l -> f x = g x) -> sumZ (map f l) = sumZ (map g l).
Proof. intros H. f_equal. apply map_ext_in. exact H. Qed.

Lemma sumZ_map_perm {A} (g : A -> Z) l l' : Permutation l l' -> sumZ (map g l) = sumZ (map g l').
Proof. induction 1; cbn [map sumZ]; lia. Qed.

Lemma sumZ_map_scale {A} (g : A -> Z) k l : sumZ (map (fun x => k * g x) l) = k * sumZ (map g l).
Proof. induction l as [|h t IH]; cbn [map sumZ]; lia. Qed.

(* one term of a sum of non-negative terms is bounded by the sum; two distinct too *)
Lemma sumZ_map_term (g : Z -> Z) l i :
  (forall x, In x l -> 0 <= g x) -> (i < length l)%nat -> g (nthZ l i) <= sumZ (map g l).
Proof.
  intros Hn Hi.
  unfold nthZ. revert i Hi; induction l as [|h t IH]; intros [|i] Hi; cbn in *; try lia.
  - assert (0 <= sumZ (map g t)) by (apply sumZ_map_nonneg; intros; apply Hn; right; assumption). lia.
  - assert (0 <= g h) by (apply Hn; left; reflexivity).
    assert (g (nth i t 0) <= sumZ (map g t)) by (apply IH; [intros; apply Hn; right; assumption|lia]). lia.
Qed.

Lemma sumZ_map_two_terms (g : Z -> Z) l i j :
  (forall x, In x l -> 0 <= g x) -> (i < length l)%nat -> (j < length l)%nat -> i <> j ->
  g (nthZ l i) + g (nthZ l j) <= sumZ (map g l).
Proof.
  unfold nthZ. revert i j; induction l as [|h t IH]; intros [|i] [|j] Hn Hi Hj Hne; cbn in *; try lia.
  - assert (g (nth j t 0) <= sumZ (map g t)).
    { apply (sumZ_map_term g t j); [intros; apply Hn; right; assumption|lia]. } lia.
  - assert (g (nth i t 0) <= sumZ (map g t)).
    { apply (sumZ_map_term g t i); [intros; apply Hn; right; assumption|lia]. } lia.
  - assert (0 <= g h) by (apply Hn; left; reflexivity).
    assert (g (nth i t 0) + g (nth j t 0) <= sumZ (map g t)).
    { apply IH; try lia. intros; apply Hn; right; assumption. } lia.
Qed.

Lemma sumZ_term l i : (forall x, In x l -> 0 <= x) -> nthZ l i <= sumZ l.
Proof.
  intros Hn. destruct (Nat.lt_ge_cases i (length l)) as [Hi|Hi].
  - pose proof (sumZ_map_term (fun z => z) l i Hn Hi) as E. rewrite map_id in E. exact E.
  - rewrite nthZ_overflow by assumption.
    pose proof (sumZ_map_nonneg (fun z => z) l Hn) as E. rewrite map_id in E. exact E.
Qed.

Lemma sumZ_two_terms l i j :
  (forall x, In x l -> 0 <= x) -> (i < length l)%nat -> (j < length l)%nat -> i <> j ->
  nthZ l i + nthZ l j <= sumZ l.
Proof.
  intros Hn Hi Hj Hne.
  pose proof (sumZ_map_two_terms (fun z => z) l i j Hn Hi Hj Hne) as E. rewrite map_id in E. exact E.
Qed.

Lemma sumZ_zero l : (forall x, In x l -> x = 0) -> sumZ l = 0.
Proof.
  intros H. pose proof (sumZ_map_zero (fun z => z) l H) as E. rewrite map_id in E. exact E.
Qed.

(* ---------------------------------------------------------------- concat *)
Lemma concat_extract {A} (l : list (list A)) i :
  (i < length l)%nat -> Permutation (concat l) (nth i l [] ++ concat (upd i [] l)).
Proof.
  revert i; induction l as [|h t IH]; intros [|i] H; cbn [length] in H; try lia.
  - cbn. reflexivity.
  - cbn [concat nth upd].
    rewrite (IH i) at 1 by lia. apply Permutation_app_swap_app.
Qed.

Lemma concat_upd_perm {A} (l : list (list A)) i x :
  (i < length l)%nat -> Permutation (concat (upd i x l)) (x ++ concat (upd i [] l)).
Proof.
  revert i; induction l as [|h t IH]; intros [|i] H; cbn [length] in H; try lia.
  - cbn. reflexivity.
  - cbn [concat upd].
    rewrite (IH i) by lia. apply Permutation_app_swap_app.
Qed.

Lemma concat_merge {A} (K : list (list A)) a b :
  (a < length K)%nat -> (b < length K)%nat -> a <> b ->
  Permutation (concat (upd b [] (upd a (nth a K [] ++ nth b K []) K))) (concat K).
Proof.
  intros Ha Hb Hne.
  rewrite upd_comm by auto.
  rewrite concat_upd_perm by (rewrite upd_length; exact Ha).
  rewrite (concat_extract K b Hb).
  rewrite (concat_extract (upd b [] K) a) by (rewrite upd_length; exact Ha).
  rewrite nth_upd_ne by auto.
  rewrite <- app_assoc.
  apply Permutation_app_swap_app.
Qed.

Lemma concat_all_nil {A} (l : list (list A)) :
  (forall j, (j < length l)%nat -> nth j l [] = []) -> concat l = [].
Proof.
  induction l as [|h t IH]; intros H; [reflexivity|].
  cbn [concat].
  pose proof (H 0%nat ltac:(cbn; lia)) as H0. cbn in H0. subst h. cbn.
  apply IH. intros j Hj. apply (H (S j)). cbn; lia.
Qed.

Lemma concat_single {A} (l : list (list A)) a :
  (forall j, (j < length l)%nat -> j <> a -> nth j l [] = []) -> concat l = nth a l [].
Proof.
  revert a; induction l as [|h t IH]; intros a H.
  - destruct a; reflexivity.
  - destruct a as [|a]; cbn [concat nth].
    + rewrite (concat_all_nil t); [apply app_nil_r|].
      intros j Hj. apply (H (S j)); cbn; lia.
    + pose proof (H 0%nat ltac:(cbn; lia) ltac:(lia)) as H0. cbn in H0. subst h. cbn [app].
      apply IH. intros j Hj Hne. apply (H (S j)); cbn; lia.
Qed.

(* ------------------------------------------------------ selection loop *)
Definition SInv (pre : list Z) (s : sel) : Prop :=
  v s <= v2 s /\ v2 s <= SENT /\
  match c1 s, c2 s with
  | None, None => v s = SENT /\ v2 s = SENT /\
                  forall j, (j < length pre)%nat -> nthZ pre j > SENT
  | None, Some _ => False
  | Some a, None => (a < length pre)%nat /\ nthZ pre a = v s /\ v2 s = SENT /\
                    forall j, (j < length pre)%nat -> j <> a -> nthZ pre j > SENT
  | Some a, Some b => (a < length pre)%nat /\ (b < length pre)%nat /\ a <> b /\
                      nthZ pre a = v s /\ nthZ pre b = v2 s
  end.

Lemma SInv_init : SInv [] sel0.
Proof. unfold SInv, sel0; cbn. repeat split; try lia. Qed.

Lemma nthZ_snoc pre f j :
  (j < S (length pre))%nat ->
  nthZ (pre ++ [f]) j = if Nat.eq_dec j (length pre) then f else nthZ pre j.
Proof.
  intros H. destruct (Nat.eq_dec j (length pre)) as [->|Hne].
  - apply nthZ_app_last.
  - apply nthZ_app1. lia.
Qed.

Lemma SInv_step pre s f :
  SInv pre s -> SInv (pre ++ [f]) (sel_step s (length pre) f).
Proof.
  destruct s as [k1 k2 w w2]. unfold SInv, sel_step; cbn [c1 c2 v v2].
  intros (Hle & Hs & H).
  assert (Ll : length (pre ++ [f]) = S (length pre)) by (rewrite app_length; cbn; lia).
  destruct (f <=? w2) eqn:E2; [apply Z.leb_le in E2|apply Z.leb_gt in E2].
  - destruct (f <=? w) eqn:E1; [apply Z.leb_le in E1|apply Z.leb_gt in E1]; cbn [c1 c2 v v2].
    + (* new minimum *)
      split; [lia|]. split; [lia|]. rewrite Ll.
      destruct k1 as [a|].
      * assert (Ha : (a < length pre)%nat /\ nthZ pre a = w).
        { destruct k2 as [b|]; tauto. }
        destruct Ha as [Ha Va].
        split; [lia|]. split; [lia|]. split; [lia|].
        split; [apply nthZ_app_last|]. rewrite nthZ_app1 by lia. exact Va.
      * destruct k2 as [b|]; [contradiction|].
        destruct H as (Hw & Hw2 & Hall).
        split; [lia|]. split; [apply nthZ_app_last|]. split; [lia|].
        intros j Hj Hne. rewrite nthZ_app1 by lia. apply Hall. lia.
    + (* new second *)
      split; [lia|]. split; [lia|]. rewrite Ll.
      destruct k1 as [a|].
      * assert (Ha : (a < length pre)%nat /\ nthZ pre a = w).
        { destruct k2 as [b|]; tauto. }
        destruct Ha as [Ha Va].
        split; [lia|]. split; [lia|]. split; [lia|].
        split; [rewrite nthZ_app1 by lia; exact Va|apply nthZ_app_last].
      * destruct k2 as [b|]; [contradiction|]. lia.
  - (* unchanged *)
    cbn [c1 c2 v v2]. split; [lia|]. split; [lia|]. rewrite Ll.
    destruct k1 as [a|]; destruct k2 as [b|]; try contradiction.
    + destruct H as (Ha & Hb & Hne & Va & Vb).
      split; [lia|]. split; [lia|]. split; [exact Hne|].
      rewrite !nthZ_app1 by lia. tauto.
    + destruct H as (Ha & Va & Hw2 & Hall).
      split; [lia|]. split; [rewrite nthZ_app1 by lia; exact Va|]. split; [exact Hw2|].
      intros j Hj Hne. rewrite nthZ_snoc by lia.
      destruct (Nat.eq_dec j (length pre)); [lia|]. apply Hall; lia.
    + destruct H as (Hw & Hw2 & Hall).
      split; [exact Hw|]. split; [exact Hw2|].
      intros j Hj. rewrite nthZ_snoc by lia.
      destruct (Nat.eq_dec j (length pre)); [lia|]. apply Hall; lia.
Qed.

Lemma SInv_scan fs : forall pre s, SInv pre s -> SInv (pre ++ fs) (sel_scan fs (length pre) s).
Proof.
  induction fs as [|f r IH]; intros pre s H; cbn [sel_scan].
  - rewrite app_nil_r. exact H.
  - replace (pre ++ f :: r) with ((pre ++ [f]) ++ r) by (rewrite <- app_assoc; reflexivity).
    replace (S (length pre)) with (length (pre ++ [f])) by (rewrite app_length; cbn; lia).
    apply IH. apply SInv_step. exact H.
Qed.

Lemma sel_scan_spec fs : SInv fs (sel_scan fs 0 sel0).
Proof. exact (SInv_scan fs [] sel0 SInv_init). Qed.

(* (R1) both selected indices are distinct, in range and not above the sentinel *)
Lemma sel_some fs a b :
  c1 (sel_scan fs 0 sel0) = Some a -> c2 (sel_scan fs 0 sel0) = Some b ->
  (a < length fs)%nat /\ (b < length fs)%nat /\ a <> b /\ nthZ fs a <= SENT /\ nthZ fs b <= SENT.
Proof.
  intros E1 E2. pose proof (sel_scan_spec fs) as H. unfold SInv in H.
  rewrite E1, E2 in H. destruct H as (Hle & Hs & Ha & Hb & Hne & Va & Vb).
  repeat split; auto; lia.
Qed.

(* (R2) no second index: at most one entry is not above the sentinel *)
Lemma sel_none fs :
  c1 (sel_scan fs 0 sel0) = None \/ c2 (sel_scan fs 0 sel0) = None ->
  exists a, forall j, (j < length fs)%nat -> j <> a -> nthZ fs j > SENT.
Proof.
  intros E. pose proof (sel_scan_spec fs) as H. unfold SInv in H.
  destruct (c1 (sel_scan fs 0 sel0)) as [a|]; destruct (c2 (sel_scan fs 0 sel0)) as [b|].
  - destruct E; discriminate.
  - exists a. tauto.
  - tauto.
  - exists 0%nat. intros j Hj _. apply H. exact Hj.
Qed.
