(* HuffGenBase.v -- list/sum lemmas and the correctness of the two-smallest
   selection loop of jpeg_gen_optimal_table (model/Huff.v sel_scan). *)
From Coq Require Import List ZArith Lia Bool Permutation Arith.
From LJT Require Import model.Huff.
Import ListNotations.
Local Open Scope Z_scope.

(* ------------------------------------------------------------ upd / nth *)
Lemma upd_length {A} (i : nat) (x : A) l : length (upd i x l) = length l.
Proof. revert i; induction l as [|h t IH]; intros [|i]; cbn; auto. Qed.

Lemma nth_upd_eq {A} (i : nat) (x d : A) l : (i < length l)%nat -> nth i (upd i x l) d = x.
Proof. revert i; induction l as [|h t IH]; intros [|i] H; cbn in *; try lia; auto. apply IH; lia. Qed.

Lemma nth_upd_ne {A} (i j : nat) (x d : A) l : i <> j -> nth j (upd i x l) d = nth j l d.
Proof.
  revert i j; induction l as [|h t IH]; intros [|i] [|j] H; cbn; auto; try lia.
  apply IH; lia.
Qed.

Lemma nthZ_upd_eq i x l : (i < length l)%nat -> nthZ (upd i x l) i = x.
Proof. apply nth_upd_eq. Qed.
Lemma nthZ_upd_ne i j x l : i <> j -> nthZ (upd i x l) j = nthZ l j.
Proof. apply nth_upd_ne. Qed.

(* ------------------------------------------------------------------ sums *)
Lemma sumZ_app a b : sumZ (a ++ b) = sumZ a + sumZ b.
Proof. induction a as [|x t IH]; cbn [sumZ app]; lia. Qed.

Lemma sumZ_map_upd (g : Z -> Z) i x l :
  (i < length l)%nat -> sumZ (map g (upd i x l)) = sumZ (map g l) - g (nthZ l i) + g x.
Proof.
  unfold nthZ. revert i; induction l as [|h t IH]; intros [|i] H; cbn in *; try lia.
  rewrite IH by lia. lia.
Qed.

Lemma sumZ_upd i x l : (i < length l)%nat -> sumZ (upd i x l) = sumZ l - nthZ l i + x.
Proof.
  intros H. pose proof (sumZ_map_upd (fun z => z) i x l H) as E.
  rewrite !map_id in E. exact E.
Qed.

Lemma sumZ_map_nonneg (g : Z -> Z) l : (forall x, In x l -> 0 <= g x) -> 0 <= sumZ (map g l).
Proof.
  induction l as [|h t IH]; intros H; cbn; [lia|].
  assert (0 <= g h) by (apply H; left; reflexivity).
  assert (0 <= sumZ (map g t)) by (apply IH; intros; apply H; right; assumption). lia.
Qed.

Lemma sumZ_map_zero (g : Z -> Z) l : (forall x, In x l -> g x = 0) -> sumZ (map g l) = 0.
Proof.
  induction l as [|h t IH]; intros H; cbn; [lia|].
  rewrite (H h) by (left; reflexivity). rewrite IH; [lia|]. intros; apply H; right; assumption.
Qed.

Lemma nth_In_Z l i : (i < length l)%nat -> In (nthZ l i) l.
Proof. intros; apply nth_In; assumption. Qed.

Lemma In_upd {A} (i : nat) (x y : A) l : In y (upd i x l) -> y = x \/ In y l.
Proof.
  revert i; induction l as [|h t IH]; intros [|i] H; cbn in *; auto.
  - destruct H as [H|H]; auto.
  - destruct H as [H|H]; auto. destruct (IH _ H); auto.
Qed.

(* one term of a sum of non-negative terms is bounded by the sum; two distinct too *)
Lemma sumZ_map_term (g : Z -> Z) l i :
  (forall x, In x l -> 0 <= g x) -> (i < length l)%nat -> g (nthZ l i) <= sumZ (map g l).
Proof.
  intros Hn Hi.
  (* replace entry i by itself through upd with a zero-valued witness is awkward: do induction *)
  unfold nthZ. revert i Hi; induction l as [|h t IH]; intros [|i] Hi; cbn in *; try lia.
  - assert (0 <= sumZ (map g t)) by (apply sumZ_map_nonneg; intros; apply Hn; right; assumption). lia.
  - assert (0 <= g h) by (apply Hn; left; reflexivity).
    assert (g (nth i t 0) <= sumZ (map g t)) by (apply IH; [intros; apply Hn; right; assumption|lia]). lia.
Qed.

Lemma sumZ_map_two_terms (g : Z -> Z) l i j :
  (forall x, In x l -> 0 <= g x) -> (i < length l)%nat -> (j < length l)%nat -> i <> j ->
  g (nthZ l i) + g (nthZ l j) <= sumZ (map g l).
Proof.
  unfold nthZ. revert i j; induction l as [|h t IH]; intros [|i] [|j] Hn Hi Hj Hne; cbn in *; try lia.
  - assert (g (nth j t 0) <= sumZ (map g t)).
    { apply (sumZ_map_term g t j); [intros; apply Hn; right; assumption|lia]. } lia.
  - assert (g (nth i t 0) <= sumZ (map g t)).
    { apply (sumZ_map_term g t i); [intros; apply Hn; right; assumption|lia]. } lia.
  - assert (0 <= g h) by (apply Hn; left; reflexivity).
    assert (g (nth i t 0) + g (nth j t 0) <= sumZ (map g t)).
    { apply IH; try lia. intros; apply Hn; right; assumption. } lia.
Qed.

(* ------------------------------------------------------ selection loop *)
Definition alive (f : Z) : Prop := f <= SENT.

Definition SInv (pre : list Z) (s : sel) : Prop :=
  (c1 s = None -> (forall f, In f pre -> f > SENT) /\ c2 s = None /\ v s = SENT /\ v2 s = SENT) /\
  (forall a, c1 s = Some a ->
     (a < length pre)%nat /\ nthZ pre a = v s /\ v s <= v2 s /\ v2 s <= SENT /\
     (c2 s = None -> v2 s = SENT /\ forall j, (j < length pre)%nat -> j <> a -> nthZ pre j > SENT) /\
     (forall b, c2 s = Some b -> (b < length pre)%nat /\ b <> a /\ nthZ pre b = v2 s)).

Lemma SInv_init : SInv [] sel0.
Proof.
  split.
  - intros _. cbn. repeat split; auto. intros f [].
  - intros a H; discriminate H.
Qed.

Lemma nthZ_app1 pre f j : (j < length pre)%nat -> nthZ (pre ++ [f]) j = nthZ pre j.
Proof. intros; unfold nthZ; apply app_nth1; assumption. Qed.
Lemma nthZ_app_last pre f : nthZ (pre ++ [f]) (length pre) = f.
Proof. unfold nthZ. rewrite app_nth2 by lia. rewrite Nat.sub_diag. reflexivity. Qed.

Lemma SInv_step pre s f :
  SInv pre s -> SInv (pre ++ [f]) (sel_step s (length pre) f).
Proof.
  intros [H1 H2]. unfold sel_step.
  destruct (f <=? v2 s) eqn:E2.
  - apply Z.leb_le in E2.
    destruct (f <=? v s) eqn:E1.
    + apply Z.leb_le in E1. split; cbn [c1 c2 v v2]; [intros D; discriminate D|].
      intros a Ha. injection Ha as <-.
      rewrite app_length; cbn [length]. rewrite nthZ_app_last.
      destruct (c1 s) as [a0|] eqn:Ec1.
      * destruct (H2 a0 eq_refl) as (La & Va & Vle & V2le & Hnone & Hsome).
        repeat split; try lia.
        -- intros D; discriminate D.
        -- intros D; discriminate D.
        -- injection H as <-. lia.
        -- injection H as <-. lia.
        -- injection H as <-. rewrite nthZ_app1 by lia. exact Va.
      * destruct (H1 eq_refl) as (Hall & Hc2 & Hv & Hv2).
        repeat split; try lia.
        -- intros j Hj Hne. rewrite nthZ_app1 by lia. apply Hall. apply nth_In_Z. lia.
        -- discriminate H.
        -- discriminate H.
        -- discriminate H.
    + apply Z.leb_gt in E1. split; cbn [c1 c2 v v2].
      * intros Hc1. destruct (H1 Hc1) as (_ & _ & Hv & _). lia.
      * intros a Ha. destruct (H2 a Ha) as (La & Va & Vle & V2le & Hnone & Hsome).
        rewrite app_length; cbn [length].
        repeat split; try lia.
        -- rewrite nthZ_app1 by lia. exact Va.
        -- intros D; discriminate D.
        -- intros D; discriminate D.
        -- injection H as <-. lia.
        -- injection H as <-. lia.
        -- injection H as <-. apply nthZ_app_last.
  - apply Z.leb_gt in E2. split.
    + intros Hc1. destruct (H1 Hc1) as (Hall & Hc2 & Hv & Hv2). repeat split; auto.
      intros g Hg. apply in_app_or in Hg. destruct Hg as [Hg|[<-|[]]]; [apply Hall; assumption|lia].
    + intros a Ha. destruct (H2 a Ha) as (La & Va & Vle & V2le & Hnone & Hsome).
      rewrite app_length; cbn [length].
      repeat split; try lia.
      * rewrite nthZ_app1 by lia. exact Va.
      * apply Hnone; assumption.
      * intros j Hj Hne. destruct (Nat.eq_dec j (length pre)) as [->|Hd].
        -- rewrite nthZ_app_last. destruct (Hnone H) as [Hv2 _]. lia.
        -- rewrite nthZ_app1 by lia. apply Hnone; [assumption|lia|assumption].
      * destruct (Hsome b H) as (Lb & _ & _). lia.
      * destruct (Hsome b H) as (_ & Nb & _). exact Nb.
      * destruct (Hsome b H) as (Lb & _ & Vb). rewrite nthZ_app1 by lia. exact Vb.
Qed.

Lemma SInv_scan fs : forall pre s, SInv pre s -> SInv (pre ++ fs) (sel_scan fs (length pre) s).
Proof.
  induction fs as [|f r IH]; intros pre s H; cbn [sel_scan].
  - rewrite app_nil_r. exact H.
  - replace (pre ++ f :: r) with ((pre ++ [f]) ++ r) by (rewrite <- app_assoc; reflexivity).
    replace (S (length pre)) with (length (pre ++ [f])) by (rewrite app_length; cbn; lia).
    apply IH. apply SInv_step. exact H.
Qed.

Lemma sel_scan_spec fs : SInv fs (sel_scan fs 0 sel0).
Proof. exact (SInv_scan fs [] sel0 SInv_init). Qed.
