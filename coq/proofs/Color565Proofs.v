(* C10 round 3 proofs: range-limit table, CMYK/YCCK, RGB565 *)
From Coq Require Import List ZArith Lia Bool.
From LJT Require Import gen.GenLayouts model.Color model.Color565 proofs.ColorProofs.
Import ListNotations.
Local Open Scope Z_scope.

(* ------------------------------------------------------------------ prepare_range_limit_table *)
Ltac decide_cmp :=
  repeat match goal with
         | |- context [?a <=? ?b] =>
             first [ replace (a <=? b) with true by (symmetry; apply Z.leb_le; lia)
                   | replace (a <=? b) with false by (symmetry; apply Z.leb_gt; lia) ]
         | |- context [?a <? ?b] =>
             first [ replace (a <? b) with true by (symmetry; apply Z.ltb_lt; lia)
                   | replace (a <? b) with false by (symmetry; apply Z.ltb_ge; lia) ]
         end.

Ltac split_cmp :=
  repeat match goal with
         | |- context [?a <=? ?b] => destruct (Z.leb_spec a b)
         | |- context [?a <? ?b] => destruct (Z.ltb_spec a b)
         end.

Theorem range_limit_table_shape : forall M C i, 0 < C -> 2 * C = M + 1 ->
  range_limit_tab M C i =
    if (i <? - (M + 1)) then None
    else if (i <? 0) then Some 0
    else if (i <=? M) then Some i
    else if (i <? 2 * (M + 1) + C) then Some M
    else if (i <? 4 * (M + 1)) then Some 0
    else if (i <? 4 * (M + 1) + C) then Some (i - 4 * (M + 1))
    else None.
Proof.
  intros M C i HC HM.
  destruct (Z.ltb_spec i (- (M + 1))); [|destruct (Z.ltb_spec i 0); [|destruct (Z.leb_spec i M);
    [|destruct (Z.ltb_spec i (2 * (M + 1) + C)); [|destruct (Z.ltb_spec i (4 * (M + 1)));
    [|destruct (Z.ltb_spec i (4 * (M + 1) + C))]]]]];
  unfold range_limit_tab, range_limit_ops;
  cbn [rl_eval rl_start rl_len rl_kind Z.eqb Pos.eqb];
  decide_cmp; cbn [andb]; try reflexivity; f_equal; lia.
Qed.

Theorem range_limit_alloc_exact :
  range_limit_alloc = (5, 1) /\
  forall M C, 0 < C -> 2 * C = M + 1 -> (4 * (M + 1) + C) - (- (M + 1)) = fst range_limit_alloc * (M + 1) + snd range_limit_alloc * C.
Proof. split; [reflexivity|]. intros. cbn [fst snd range_limit_alloc]. lia. Qed.

Lemma rl_is_clamp p : (p = prec8 \/ p = prec12) -> forall i,
  - (sp_max p + 1) <= i < 2 * (sp_max p + 1) + sp_center p -> rl p i = clamp p i.
Proof.
  intros Hp i Hi. unfold rl, clamp.
  rewrite range_limit_table_shape by (destruct Hp as [-> | ->]; vm_compute; reflexivity).
  split_cmp; try reflexivity; lia.
Qed.

Theorem range_limit_16bit : forall i, - (MAXJ16SAMPLE + 1) <= i < 2 * (MAXJ16SAMPLE + 1) + CENTERJ16SAMPLE ->
  range_limit_tab MAXJ16SAMPLE CENTERJ16SAMPLE i = Some (if i <? 0 then 0 else if MAXJ16SAMPLE <? i then MAXJ16SAMPLE else i).
Proof.
  intros i Hi. rewrite range_limit_table_shape by (vm_compute; reflexivity).
  change MAXJ16SAMPLE with 65535 in *. change CENTERJ16SAMPLE with 32768 in *.
  split_cmp; try reflexivity; lia.
Qed.

(* ------------------------------------------------------------------ CMYK <-> YCCK *)
Lemma range_in_id p v : (p = prec8 \/ p = prec12) -> 0 <= v <= sp_max p -> range_in p v = v.
Proof.
  intros Hp Hv. unfold range_in. destruct Hp as [-> | ->]; cbn [sp_bits prec8 prec12 Z.eqb Pos.eqb]; [reflexivity|].
  change c_range_mask12 with (Z.ones 12). rewrite Z.land_ones by lia. apply Z.mod_small.
  change (sp_max prec12) with 4095 in Hv. change (2 ^ 12) with 4096. lia.
Qed.

(* compression: K passes through untouched; Y,Cb,Cr are the RGB->YCbCr conversion of (MAX-C, MAX-M, MAX-Y) *)
Theorem cmyk_ycck_channels p buf ip :
  let '(y, cb, cr, k) := cmyk_ycck_pixel p buf ip in
  k = rd buf (ip + 3) /\
  ((p = prec8 \/ p = prec12) ->
   0 <= rd buf ip <= sp_max p -> 0 <= rd buf (ip + 1) <= sp_max p -> 0 <= rd buf (ip + 2) <= sp_max p ->
   (y, cb, cr) = ycc_of_rgb p (sp_max p - rd buf ip, sp_max p - rd buf (ip + 1), sp_max p - rd buf (ip + 2))).
Proof.
  unfold cmyk_ycck_pixel. change (z5 cmyk_in_offsets 0) with 0. change (z5 cmyk_in_offsets 1) with 1.
  change (z5 cmyk_in_offsets 2) with 2. change cmyk_in_k with 3. rewrite Z.add_0_r.
  split; [reflexivity|]. intros Hp H0 H1 H2.
  unfold ycc_of_rgb, c0, c1, c2. cbn [fst snd].
  rewrite !(range_in_id p) by (auto; lia). reflexivity.
Qed.

(* the compressor reads nothing but the four samples of each pixel: pitch, row order, padding cannot matter *)
Lemma cmyk_ycck_cols_get4 p buf : forall n ip,
  cmyk_ycck_cols p buf ip n =
  map (fun t => let '(c, m, y, k) := t in
                let r := sp_max p - range_in p c in let g := sp_max p - range_in p m in let b := sp_max p - range_in p y in
                (y_of_rgb p r g b, cb_of_rgb p r g b, cr_of_rgb p r g b, k)) (get4_cols buf ip n).
Proof.
  induction n; intro ip; [reflexivity|]. cbn [cmyk_ycck_cols get4_cols map]. rewrite IHn.
  change cmyk_in_pixelsize with 4. f_equal.
  unfold cmyk_ycck_pixel, get4. change (z5 cmyk_in_offsets 0) with 0. change (z5 cmyk_in_offsets 1) with 1.
  change (z5 cmyk_in_offsets 2) with 2. change cmyk_in_k with 3. now rewrite Z.add_0_r.
Qed.

Theorem cmyk_ycck_any_memory p buf1 buf2 ptrs1 ptrs2 w :
  unpack4 buf1 ptrs1 w = unpack4 buf2 ptrs2 w -> cmyk_ycck_convert p buf1 ptrs1 w = cmyk_ycck_convert p buf2 ptrs2 w.
Proof.
  unfold cmyk_ycck_convert, unpack4. intro H.
  rewrite (map_ext _ _ (fun ip => cmyk_ycck_cols_get4 p buf1 w ip)).
  rewrite (map_ext _ _ (fun ip => cmyk_ycck_cols_get4 p buf2 w ip)).
  rewrite <- !(map_map (fun ip => get4_cols _ ip w)). now rewrite H.
Qed.

Lemma clamp_compl p v : 0 <= sp_max p -> clamp p (sp_max p - v) = sp_max p - clamp p v.
Proof. intro H. unfold clamp. split_cmp; lia. Qed.

Lemma ycck_index_in_clamp_range p : p = prec8 \/ p = prec12 -> forall y cb cr,
  0 <= y <= sp_max p -> 0 <= cb <= sp_max p -> 0 <= cr <= sp_max p ->
  let ch := chroma p false cb cr in
  - (sp_max p + 1) <= sp_max p - (y + c0 ch) < 2 * (sp_max p + 1) + sp_center p /\
  - (sp_max p + 1) <= sp_max p - (y + c1 ch) < 2 * (sp_max p + 1) + sp_center p /\
  - (sp_max p + 1) <= sp_max p - (y + c2 ch) < 2 * (sp_max p + 1) + sp_center p.
Proof.
  intros Hp y cb cr Hy Hcb Hcr. cbv zeta. unfold chroma, c0, c1, c2, Cr_r, Cb_b, Cr_g, Cb_g. cbn [fst snd].
  rewrite !merged_or_not_sb.
  rewrite !Z.shiftr_div_pow2 by (vm_compute; discriminate).
  change (2 ^ 16) with 65536. change (2 ^ (16 - 1)) with 32768.
  repeat match goal with
         | |- context [dfix ?m ?k] => let v := eval vm_compute in (dfix m k) in change (dfix m k) with v
         end.
  destruct Hp as [-> | ->];
    change (sp_max prec8) with 255 in *; change (sp_max prec12) with 4095 in *;
    change (sp_center prec8) with 128; change (sp_center prec12) with 2048;
    repeat split; Z.div_mod_to_equations; lia.
Qed.

(* decompression: C,M,Y are the complements of the R,G,B of YCbCr->RGB; K passes through *)
Theorem ycck_cmyk_channels p : (p = prec8 \/ p = prec12) -> forall y cb cr k,
  0 <= y <= sp_max p -> 0 <= cb <= sp_max p -> 0 <= cr <= sp_max p ->
  let '(r, g, b) := rgb_of_ycc p (y, cb, cr) in
  ycck_cmyk_pixel p (y, cb, cr, k) = (sp_max p - r, sp_max p - g, sp_max p - b, k).
Proof.
  intros Hp y cb cr k Hy Hcb Hcr.
  pose proof (ycck_index_in_clamp_range p Hp y cb cr Hy Hcb Hcr) as H. cbv zeta in H.
  unfold rgb_of_ycc, rgb_of_ycc_gen, ycck_cmyk_pixel, c0, c1, c2 in *. cbn [fst snd] in *.
  set (ch := chroma p false cb cr) in *. destruct ch as [[a b] c]. cbn [fst snd] in *.
  assert (HM : 0 <= sp_max p) by lia.
  destruct H as (H0 & H1 & H2).
  rewrite !rl_is_clamp by assumption. rewrite !clamp_compl by assumption. reflexivity.
Qed.

