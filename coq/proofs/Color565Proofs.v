(* C10 round 3 proofs: range-limit table, CMYK/YCCK, RGB565 *)
From Coq Require Import List ZArith Lia Bool.
From LJT Require Import gen.GenLayouts model.Color model.Color565 proofs.ColorProofs.
Import ListNotations.
Local Open Scope Z_scope.

(* ------------------------------------------------------------------ prepare_range_limit_table *)
Ltac decide_cmp :=
  repeat match goal with
         | |- context [?a <=? ?b] =>
             first [ replace (a <=? b) with true by (symmetry; apply Z.leb_le; lia)
                   | replace (a <=? b) with false by (symmetry; apply Z.leb_gt; lia) ]
         | |- context [?a <? ?b] =>
             first [ replace (a <? b) with true by (symmetry; apply Z.ltb_lt; lia)
                   | replace (a <? b) with false by (symmetry; apply Z.ltb_ge; lia) ]
         end.

Ltac split_cmp :=
  repeat match goal with
         | |- context [?a <=? ?b] => destruct (Z.leb_spec a b)
         | |- context [?a <? ?b] => destruct (Z.ltb_spec a b)
         end.

Theorem range_limit_table_shape : forall M C i, 0 < C -> 2 * C = M + 1 ->
  range_limit_tab M C i =
    if (i <? - (M + 1)) then None
    else if (i <? 0) then Some 0
    else if (i <=? M) then Some i
    else if (i <? 2 * (M + 1) + C) then Some M
    else if (i <? 4 * (M + 1)) then Some 0
    else if (i <? 4 * (M + 1) + C) then Some (i - 4 * (M + 1))
    else None.
Proof.
  intros M C i HC HM.
  destruct (Z.ltb_spec i (- (M + 1))); [|destruct (Z.ltb_spec i 0); [|destruct (Z.leb_spec i M);
    [|destruct (Z.ltb_spec i (2 * (M + 1) + C)); [|destruct (Z.ltb_spec i (4 * (M + 1)));
    [|destruct (Z.ltb_spec i (4 * (M + 1) + C))]]]]];
  unfold range_limit_tab, range_limit_ops;
  cbn [rl_eval rl_start rl_len rl_kind Z.eqb Pos.eqb];
  decide_cmp; cbn [andb]; try reflexivity; f_equal; lia.
Qed.

Theorem range_limit_alloc_exact :
  range_limit_alloc = (5, 1) /\
  forall M C, 0 < C -> 2 * C = M + 1 -> (4 * (M + 1) + C) - (- (M + 1)) = fst range_limit_alloc * (M + 1) + snd range_limit_alloc * C.
Proof. split; [reflexivity|]. intros. cbn [fst snd range_limit_alloc]. lia. Qed.

Lemma rl_is_clamp p : (p = prec8 \/ p = prec12) -> forall i,
  - (sp_max p + 1) <= i < 2 * (sp_max p + 1) + sp_center p -> rl p i = clamp p i.
Proof.
  intros Hp i Hi. unfold rl, clamp.
  rewrite range_limit_table_shape by (destruct Hp as [-> | ->]; vm_compute; reflexivity).
  split_cmp; try reflexivity; lia.
Qed.

Theorem range_limit_16bit : forall i, - (MAXJ16SAMPLE + 1) <= i < 2 * (MAXJ16SAMPLE + 1) + CENTERJ16SAMPLE ->
  range_limit_tab MAXJ16SAMPLE CENTERJ16SAMPLE i = Some (if i <? 0 then 0 else if MAXJ16SAMPLE <? i then MAXJ16SAMPLE else i).
Proof.
  intros i Hi. rewrite range_limit_table_shape by (vm_compute; reflexivity).
  change MAXJ16SAMPLE with 65535 in *. change CENTERJ16SAMPLE with 32768 in *.
  split_cmp; try reflexivity; lia.
Qed.

(* ------------------------------------------------------------------ CMYK <-> YCCK *)
Lemma range_in_id p v : (p = prec8 \/ p = prec12) -> 0 <= v <= sp_max p -> range_in p v = v.
Proof.
  intros Hp Hv. unfold range_in. destruct Hp as [-> | ->]; cbn [sp_bits prec8 prec12 Z.eqb Pos.eqb]; [reflexivity|].
  change c_range_mask12 with (Z.ones 12). rewrite Z.land_ones by lia. apply Z.mod_small.
  change (sp_max prec12) with 4095 in Hv. change (2 ^ 12) with 4096. lia.
Qed.

(* compression: K passes through untouched; Y,Cb,Cr are the RGB->YCbCr conversion of (MAX-C, MAX-M, MAX-Y) *)
Theorem cmyk_ycck_channels p buf ip :
  let '(y, cb, cr, k) := cmyk_ycck_pixel p buf ip in
  k = rd buf (ip + 3) /\
  ((p = prec8 \/ p = prec12) ->
   0 <= rd buf ip <= sp_max p -> 0 <= rd buf (ip + 1) <= sp_max p -> 0 <= rd buf (ip + 2) <= sp_max p ->
   (y, cb, cr) = ycc_of_rgb p (sp_max p - rd buf ip, sp_max p - rd buf (ip + 1), sp_max p - rd buf (ip + 2))).
Proof.
  unfold cmyk_ycck_pixel. change (z5 cmyk_in_offsets 0) with 0. change (z5 cmyk_in_offsets 1) with 1.
  change (z5 cmyk_in_offsets 2) with 2. change cmyk_in_k with 3. rewrite Z.add_0_r.
  split; [reflexivity|]. intros Hp H0 H1 H2.
  unfold ycc_of_rgb, c0, c1, c2. cbn [fst snd].
  rewrite !(range_in_id p) by (auto; lia). reflexivity.
Qed.

(* the compressor reads nothing but the four samples of each pixel: pitch, row order, padding cannot matter *)
Lemma cmyk_ycck_cols_get4 p buf : forall n ip,
  cmyk_ycck_cols p buf ip n =
  map (fun t => let '(c, m, y, k) := t in
                let r := sp_max p - range_in p c in let g := sp_max p - range_in p m in let b := sp_max p - range_in p y in
                (y_of_rgb p r g b, cb_of_rgb p r g b, cr_of_rgb p r g b, k)) (get4_cols buf ip n).
Proof.
  induction n; intro ip; [reflexivity|]. cbn [cmyk_ycck_cols get4_cols map]. rewrite IHn.
  change cmyk_in_pixelsize with 4. f_equal.
  unfold cmyk_ycck_pixel, get4. change (z5 cmyk_in_offsets 0) with 0. change (z5 cmyk_in_offsets 1) with 1.
  change (z5 cmyk_in_offsets 2) with 2. change cmyk_in_k with 3. now rewrite Z.add_0_r.
Qed.

Theorem cmyk_ycck_any_memory p buf1 buf2 ptrs1 ptrs2 w :
  unpack4 buf1 ptrs1 w = unpack4 buf2 ptrs2 w -> cmyk_ycck_convert p buf1 ptrs1 w = cmyk_ycck_convert p buf2 ptrs2 w.
Proof.
  unfold cmyk_ycck_convert, unpack4. intro H.
  rewrite (map_ext _ _ (fun ip => cmyk_ycck_cols_get4 p buf1 w ip)).
  rewrite (map_ext _ _ (fun ip => cmyk_ycck_cols_get4 p buf2 w ip)).
  rewrite <- !(map_map (fun ip => get4_cols _ ip w)). now rewrite H.
Qed.

Lemma clamp_compl p v : 0 <= sp_max p -> clamp p (sp_max p - v) = sp_max p - clamp p v.
Proof. intro H. unfold clamp. split_cmp; lia. Qed.

Lemma ycck_index_in_clamp_range p : p = prec8 \/ p = prec12 -> forall y cb cr,
  0 <= y <= sp_max p -> 0 <= cb <= sp_max p -> 0 <= cr <= sp_max p ->
  let ch := chroma p false cb cr in
  - (sp_max p + 1) <= sp_max p - (y + c0 ch) < 2 * (sp_max p + 1) + sp_center p /\
  - (sp_max p + 1) <= sp_max p - (y + c1 ch) < 2 * (sp_max p + 1) + sp_center p /\
  - (sp_max p + 1) <= sp_max p - (y + c2 ch) < 2 * (sp_max p + 1) + sp_center p.
Proof.
  intros Hp y cb cr Hy Hcb Hcr. cbv zeta. unfold chroma, c0, c1, c2, Cr_r, Cb_b, Cr_g, Cb_g. cbn [fst snd].
  rewrite !merged_or_not_sb.
  rewrite !Z.shiftr_div_pow2 by (vm_compute; discriminate).
  change (2 ^ 16) with 65536. change (2 ^ (16 - 1)) with 32768.
  repeat match goal with
         | |- context [dfix ?m ?k] => let v := eval vm_compute in (dfix m k) in change (dfix m k) with v
         end.
  destruct Hp as [-> | ->];
    change (sp_max prec8) with 255 in *; change (sp_max prec12) with 4095 in *;
    change (sp_center prec8) with 128; change (sp_center prec12) with 2048;
    repeat split; Z.div_mod_to_equations; lia.
Qed.

(* decompression: C,M,Y are the complements of the R,G,B of YCbCr->RGB; K passes through *)
Theorem ycck_cmyk_channels p : (p = prec8 \/ p = prec12) -> forall y cb cr k,
  0 <= y <= sp_max p -> 0 <= cb <= sp_max p -> 0 <= cr <= sp_max p ->
  let '(r, g, b) := rgb_of_ycc p (y, cb, cr) in
  ycck_cmyk_pixel p (y, cb, cr, k) = (sp_max p - r, sp_max p - g, sp_max p - b, k).
Proof.
  intros Hp y cb cr k Hy Hcb Hcr.
  pose proof (ycck_index_in_clamp_range p Hp y cb cr Hy Hcb Hcr) as H. cbv zeta in H.
  unfold rgb_of_ycc, rgb_of_ycc_gen, ycck_cmyk_pixel, c0, c1, c2 in *. cbn [fst snd] in *.
  set (ch := chroma p false cb cr) in *. destruct ch as [[a b] c]. cbn [fst snd] in *.
  assert (HM : 0 <= sp_max p) by lia.
  destruct H as (H0 & H1 & H2).
  rewrite !rl_is_clamp by assumption. rewrite !clamp_compl by assumption. reflexivity.
Qed.

(* ------------------------------------------------------------------ RGB565: packing and bytes (little-endian machine) *)
From LJT Require Import lib.Sweep.

Lemma lor_mul_pow2 a b n : 0 <= n -> 0 <= b < 2 ^ n -> Z.lor (a * 2 ^ n) b = a * 2 ^ n + b.
Proof.
  intros Hn Hb. apply Z.bits_inj'. intros k Hk. rewrite Z.lor_spec.
  destruct (Z.lt_ge_cases k n) as [Hlt|Hge].
  - rewrite Z.mul_pow2_bits_low by lia. cbn [orb].
    rewrite <- (Z.mod_pow2_bits_low (a * 2 ^ n + b) n k) by lia.
    rewrite Z.add_comm, Z.mod_add by lia. rewrite Z.mod_small by lia. reflexivity.
  - assert (Hb0 : Z.testbit b k = false).
    { destruct (Z.eq_dec b 0) as [->|Hnz]; [apply Z.bits_0|].
      apply Z.bits_above_log2; [lia|]. apply Z.log2_lt_pow2; [lia|].
      eapply Z.lt_le_trans; [apply Hb|]. apply Z.pow_le_mono_r; lia. }
    rewrite Hb0, orb_false_r.
    rewrite Z.mul_pow2_bits by lia.
    replace k with ((k - n) + n) at 2 by lia.
    rewrite <- Z.div_pow2_bits by lia.
    rewrite Z.add_comm, Z.div_add by lia. rewrite Z.div_small by lia. reflexivity.
Qed.

Lemma pack_r_sweep : sweep (fun r => Z.land (Z.shiftl r (z5 pack565_le 0)) (z5 pack565_le 1) =? (r / 8) * 2048) 0 256 = true.
Proof. vm_compute. reflexivity. Qed.
Lemma pack_g_sweep : sweep (fun g => Z.land (Z.shiftl g (z5 pack565_le 2)) (z5 pack565_le 3) =? (g / 4) * 32) 0 256 = true.
Proof. vm_compute. reflexivity. Qed.

(* the documented RGB565 word: 5 bits of red, 6 of green, 5 of blue *)
Theorem pack565_fields r g b : 0 <= r <= 255 -> 0 <= g <= 255 -> 0 <= b <= 255 ->
  pack565 false r g b = (r / 8) * 2048 + (g / 4) * 32 + b / 8 /\ 0 <= pack565 false r g b < 65536.
Proof.
  intros Hr Hg Hb.
  assert (E : pack565 false r g b = (r / 8) * 2048 + (g / 4) * 32 + b / 8).
  { unfold pack565.
    pose proof (sweep_sound _ _ _ pack_r_sweep r ltac:(lia)) as Er. apply Z.eqb_eq in Er.
    pose proof (sweep_sound _ _ _ pack_g_sweep g ltac:(lia)) as Eg. apply Z.eqb_eq in Eg.
    rewrite Er, Eg. change (z5 pack565_le 4) with 3. rewrite Z.shiftr_div_pow2 by lia. change (2 ^ 3) with 8.
    change 2048 with (2 ^ 11) at 1. rewrite lor_mul_pow2 by (try lia; change (2 ^ 11) with 2048; Z.div_mod_to_equations; lia).
    replace (r / 8 * 2 ^ 11 + g / 4 * 32) with ((r / 8 * 64 + g / 4) * 2 ^ 5) by (change (2 ^ 11) with 2048; change (2 ^ 5) with 32; ring).
    rewrite lor_mul_pow2 by (try lia; change (2 ^ 5) with 32; Z.div_mod_to_equations; lia).
    change (2 ^ 5) with 32. ring. }
  split; [exact E|]. rewrite E. Z.div_mod_to_equations. lia.
Qed.

Lemma length_store16 buf op v : length (store16 false buf op v) = length buf.
Proof. unfold store16. now rewrite !length_upd. Qed.
Lemma length_store32 buf op v : length (store32 false buf op v) = length buf.
Proof. unfold store32. now rewrite !length_upd. Qed.

Lemma store16_frame buf op v j : 0 <= j -> (j < op \/ op + 2 <= j) -> rd (store16 false buf op v) j = rd buf j.
Proof. intros Hj H. unfold store16. rewrite !rd_upd_other by lia. reflexivity. Qed.
Lemma store32_frame buf op v j : 0 <= j -> (j < op \/ op + 4 <= j) -> rd (store32 false buf op v) j = rd buf j.
Proof. intros Hj H. unfold store32. rewrite !rd_upd_other by lia. reflexivity. Qed.

Lemma land255 v : Z.land v 255 = v mod 256.
Proof. change 255 with (Z.ones 8). now rewrite Z.land_ones by lia. Qed.

Lemma load16_store16 buf op v : 0 <= op -> op + 2 <= Z.of_nat (length buf) -> 0 <= v < 65536 ->
  load16 false (store16 false buf op v) op = v.
Proof.
  intros Hop Hlen Hv. unfold load16, store16.
  rewrite rd_upd_other by lia. rewrite rd_upd_same by lia.
  rewrite rd_upd_same by (rewrite length_upd; lia).
  rewrite !land255, Z.shiftr_div_pow2 by lia. change (2 ^ 8) with 256. Z.div_mod_to_equations. lia.
Qed.

Lemma load16_store32 buf op v1 v2 : 0 <= op -> op + 4 <= Z.of_nat (length buf) -> 0 <= v1 < 65536 -> 0 <= v2 < 65536 ->
  load16 false (store32 false buf op (pack_two false v1 v2)) op = v1 /\
  load16 false (store32 false buf op (pack_two false v1 v2)) (op + 2) = v2.
Proof.
  intros Hop Hlen H1 H2. unfold load16, store32, pack_two.
  rewrite Z.shiftl_mul_pow2 by lia. rewrite lor_mul_pow2 by (try lia; change (2 ^ 16) with 65536; lia).
  change (2 ^ 16) with 65536.
  split.
  - rewrite !rd_upd_other by lia. rewrite rd_upd_same by lia.
    rewrite (rd_upd_other _ (op + 3)) by lia. rewrite (rd_upd_other _ (op + 2)) by lia.
    rewrite rd_upd_same by (rewrite !length_upd; lia).
    rewrite !land255, !Z.shiftr_div_pow2 by lia. change (2 ^ 8) with 256. Z.div_mod_to_equations. lia.
  - rewrite (rd_upd_other _ (op + 3)) by lia. rewrite rd_upd_same by (rewrite !length_upd; lia).
    replace (op + 2 + 1) with (op + 3) by lia. rewrite rd_upd_same by (rewrite !length_upd; lia).
    rewrite !land255, !Z.shiftr_div_pow2 by lia. change (2 ^ 16) with 65536. change (2 ^ 24) with 16777216.
    Z.div_mod_to_equations. lia.
Qed.

(* ------------------------------------------------------------------ RGB565: rows (no dithering, little-endian) *)
Lemma px565_nodither src d t : px565 src false d t = px565 src false 0 t.
Proof. unfold px565. destruct (src =? 0); [reflexivity|]. destruct (src =? 1); reflexivity. Qed.

Definition val565 (src : Z) (t : px3) : Z := pk false (px565 src false 0 t).

Lemma cols565_ext b1 b2 : forall n op, (forall j, op <= j < op + 2 * Z.of_nat n -> rd b1 j = rd b2 j) ->
  cols565 false b1 op n = cols565 false b2 op n.
Proof.
  induction n; intros op H; [reflexivity|]. cbn [cols565]. f_equal.
  - unfold load16. rewrite !H by lia. reflexivity.
  - apply IHn. intros j Hj. apply H. lia.
Qed.

Lemma cols565_app buf : forall a b op,
  cols565 false buf op (a + b) = cols565 false buf op a ++ cols565 false buf (op + 2 * Z.of_nat a) b.
Proof.
  induction a; intros b op; cbn [cols565 Nat.add app].
  - f_equal. lia.
  - f_equal. rewrite IHa. f_equal. f_equal. lia.
Qed.

Definition ok16 (src : Z) (inp : list px3) : Prop := Forall (fun t => 0 <= val565 src t < 65536) inp.

Lemma pairs565_spec src : forall n inp buf op d,
  (2 * n <= length inp)%nat -> ok16 src inp -> 0 <= op -> op + 4 * Z.of_nat n <= Z.of_nat (length buf) ->
  let '(inp', buf', op', d') := pairs565 false src false n inp buf op d in
  inp' = skipn (2 * n) inp /\ op' = op + 4 * Z.of_nat n /\ d' = d /\ length buf' = length buf /\
  (forall j, 0 <= j -> (j < op \/ op + 4 * Z.of_nat n <= j) -> rd buf' j = rd buf j) /\
  cols565 false buf' op (2 * n) = map (val565 src) (firstn (2 * n) inp).
Proof.
  induction n; intros inp buf op d Hlen Hok Hop Hb.
  - cbn. repeat split; auto. lia.
  - destruct inp as [|t1 [|t2 rest]]; cbn [length] in Hlen; try lia.
    cbn [pairs565 hd tl]. rewrite (px565_nodither src d t1), (px565_nodither src d t2).
    fold (val565 src t1). fold (val565 src t2).
    inversion Hok as [|? ? H1 Hok1]; subst. inversion Hok1 as [|? ? H2 Hok2]; subst.
    set (buf1 := store32 false buf op (pack_two false (val565 src t1) (val565 src t2))).
    assert (L1 : length buf1 = length buf) by apply length_store32.
    specialize (IHn rest buf1 (op + 4) d). 
    destruct (pairs565 false src false n rest buf1 (op + 4) d) as [[[inp' buf'] op'] d'].
    destruct IHn as (I1 & I2 & I3 & I4 & I5 & I6); [lia | assumption | lia | rewrite L1; lia |].
    replace (2 * S n)%nat with (S (S (2 * n))) by lia.
    cbn [skipn firstn map cols565]. repeat split.
    + exact I1.
    + lia.
    + exact I3.
    + now rewrite I4.
    + intros j Hj Ho. rewrite I5 by lia. apply store32_frame; lia.
    + destruct (load16_store32 buf op (val565 src t1) (val565 src t2)) as [E1 E2]; try assumption; try lia.
      f_equal; [|f_equal].
      * unfold load16. rewrite !I5 by lia. exact E1.
      * unfold load16. rewrite !I5 by lia. exact E2.
      * replace (op + 2 + 2) with (op + 4) by lia. exact I6.
Qed.

(* one row: whatever the alignment of the row pointer, exactly the w pixels of the row are written, the
   num_cols handed to the next row differs (w or w-1) -- which is why it must be reset per row *)
Lemma row565_spec src base inp buf op d :
  let w := Z.of_nat (length inp) in
  (1 <= length inp)%nat -> w < 2 ^ 32 -> ok16 src inp -> 0 <= op -> op + 2 * w <= Z.of_nat (length buf) ->
  let '(buf', nc', d') := row565 false src false base inp buf op w d in
  length buf' = length buf /\ d' = d /\
  nc' = (if negb (Z.land (base + op) pack_align_mask =? 0) then w - 1 else w) /\
  (forall j, 0 <= j -> (j < op \/ op + 2 * w <= j) -> rd buf' j = rd buf j) /\
  cols565 false buf' op (length inp) = map (val565 src) inp.
Proof.
  cbv zeta. intros Hw1 Hw32 Hok Hop Hb. unfold row565.
  destruct (negb (Z.land (base + op) pack_align_mask =? 0)) eqn:Ea.
  - (* unaligned: one pixel first *)
    destruct inp as [|t0 rest]; [cbn in Hw1; lia|]. cbn [hd tl length] in *.
    rewrite px565_nodither. fold (val565 src t0). inversion Hok as [|? ? H0 Hok']; subst.
    rewrite Nat2Z.inj_succ in *.
    replace ((Z.succ (Z.of_nat (length rest)) - 1) mod 2 ^ 32) with (Z.of_nat (length rest)) by (rewrite Z.mod_small; lia).
    set (buf1 := store16 false buf op (val565 src t0)).
    assert (L1 : length buf1 = length buf) by apply length_store16.
    set (n := Z.to_nat (Z.shiftr (Z.of_nat (length rest)) 1)).
    assert (Hn : (2 * n <= length rest)%nat /\ Z.of_nat (length rest) = 2 * Z.of_nat n + (if Z.odd (Z.of_nat (length rest)) then 1 else 0)).
    { unfold n. rewrite Z.shiftr_div_pow2 by lia. change (2 ^ 1) with 2.
      pose proof (Zdiv2_odd_eqn (Z.of_nat (length rest))) as E. rewrite Z.div2_div in E.
      rewrite Z2Nat.id by (apply Z.div_pos; lia). split; [|lia].
      destruct (Z.odd (Z.of_nat (length rest))); lia. }
    destruct Hn as [Hn1 Hn2].
    pose proof (pairs565_spec src n rest buf1 (op + 2) d Hn1 Hok' ltac:(lia)) as P.
    destruct (pairs565 false src false n rest buf1 (op + 2) d) as [[[inp2 buf2] op2] d2].
    destruct P as (P1 & P2 & P3 & P4 & P5 & P6); [rewrite L1; destruct (Z.odd (Z.of_nat (length rest))); lia|].
    assert (E0 : load16 false buf1 op = val565 src t0) by (apply load16_store16; lia).
    destruct (Z.odd (Z.of_nat (length rest))) eqn:Eo.
    + (* odd tail *)
      assert (Hr : length rest = (2 * n + 1)%nat) by lia.
      assert (Hin2 : exists tl0, inp2 = [tl0] /\ rest = firstn (2 * n) rest ++ [tl0]).
      { subst inp2. pose proof (firstn_skipn (2 * n) rest) as FS.
        destruct (skipn (2 * n) rest) as [|x [|y r]] eqn:Es.
        - rewrite <- FS, app_nil_r, firstn_length in Hr. lia.
        - exists x. split; [reflexivity | now rewrite FS].
        - assert (length rest = length (firstn (2 * n) rest) + S (S (length r)))%nat by (rewrite <- FS at 1; rewrite app_length; reflexivity).
          rewrite firstn_length in H. lia. }
      destruct Hin2 as (tl0 & -> & Hrest). cbn [hd].
      rewrite px565_nodither. fold (val565 src tl0).
      assert (Htl : 0 <= val565 src tl0 < 65536).
      { rewrite Hrest in Hok'. apply Forall_app in Hok'. destruct Hok' as [_ Hk]. now inversion Hk. }
      repeat split.
      * rewrite length_store16. lia.
      * exact P3.
      * lia.
      * intros j Hj Ho. rewrite store16_frame by lia. rewrite P5 by lia. apply store16_frame; lia.
      * cbn [cols565 map]. f_equal.
        -- unfold load16. rewrite !store16_frame by lia. rewrite !P5 by lia. exact E0.
        -- rewrite Hr. rewrite cols565_app.
           replace (map (val565 src) rest) with (map (val565 src) (firstn (2 * n) rest ++ [tl0])) by (now rewrite <- Hrest).
           rewrite map_app. f_equal.
           ++ rewrite <- P6. apply cols565_ext. intros j Hj. apply store16_frame; lia.
           ++ cbn [cols565 map]. f_equal. replace (op + 2 + 2 * Z.of_nat (2 * n)) with op2 by lia.
              apply load16_store16; [lia | rewrite P4, L1; lia | exact Htl].
    + (* even remainder *)
      assert (Hr : length rest = (2 * n)%nat) by lia.
      repeat split.
      * lia.
      * exact P3.
      * lia.
      * intros j Hj Ho. rewrite P5 by lia. apply store16_frame; lia.
      * cbn [cols565 map]. f_equal.
        -- unfold load16. rewrite !P5 by lia. exact E0.
        -- rewrite Hr, P6. rewrite <- Hr, firstn_all. reflexivity.
  - (* aligned *)
    set (w := length inp) in *.
    set (n := Z.to_nat (Z.shiftr (Z.of_nat w) 1)).
    assert (Hn : (2 * n <= w)%nat /\ Z.of_nat w = 2 * Z.of_nat n + (if Z.odd (Z.of_nat w) then 1 else 0)).
    { unfold n. rewrite Z.shiftr_div_pow2 by lia. change (2 ^ 1) with 2.
      pose proof (Zdiv2_odd_eqn (Z.of_nat w)) as E. rewrite Z.div2_div in E.
      rewrite Z2Nat.id by (apply Z.div_pos; lia). split; [|lia].
      destruct (Z.odd (Z.of_nat w)); lia. }
    destruct Hn as [Hn1 Hn2]. subst w.
    pose proof (pairs565_spec src n inp buf op d Hn1 Hok Hop) as P.
    destruct (pairs565 false src false n inp buf op d) as [[[inp2 buf2] op2] d2].
    destruct P as (P1 & P2 & P3 & P4 & P5 & P6); [destruct (Z.odd (Z.of_nat (length inp))); lia|].
    destruct (Z.odd (Z.of_nat (length inp))) eqn:Eo.
    + assert (Hr : length inp = (2 * n + 1)%nat) by lia.
      assert (Hin2 : exists tl0, inp2 = [tl0] /\ inp = firstn (2 * n) inp ++ [tl0]).
      { subst inp2. pose proof (firstn_skipn (2 * n) inp) as FS.
        destruct (skipn (2 * n) inp) as [|x [|y r]] eqn:Es.
        - rewrite <- FS, app_nil_r, firstn_length in Hr. lia.
        - exists x. split; [reflexivity | now rewrite FS].
        - assert (length inp = length (firstn (2 * n) inp) + S (S (length r)))%nat by (rewrite <- FS at 1; rewrite app_length; reflexivity).
          rewrite firstn_length in H. lia. }
      destruct Hin2 as (tl0 & -> & Hrest). cbn [hd].
      rewrite px565_nodither. fold (val565 src tl0).
      assert (Htl : 0 <= val565 src tl0 < 65536).
      { rewrite Hrest in Hok. apply Forall_app in Hok. destruct Hok as [_ Hk]. now inversion Hk. }
      repeat split.
      * rewrite length_store16. lia.
      * exact P3.
      * intros j Hj Ho. rewrite store16_frame by lia. apply P5; lia.
      * rewrite Hr, cols565_app.
        replace (map (val565 src) inp) with (map (val565 src) (firstn (2 * n) inp ++ [tl0])) by (now rewrite <- Hrest).
        rewrite map_app. f_equal.
        -- rewrite <- P6. apply cols565_ext. intros j Hj. apply store16_frame; lia.
        -- cbn [cols565 map]. f_equal. replace (op + 2 * Z.of_nat (2 * n)) with op2 by lia.
           apply load16_store16; [lia | rewrite P4; lia | exact Htl].
    + assert (Hr : length inp = (2 * n)%nat) by lia.
      repeat split.
      * lia.
      * exact P3.
      * intros j Hj Ho. apply P5; lia.
      * rewrite Hr, P6. rewrite <- Hr. now rewrite firstn_all.
Qed.

Lemma pairs565_d src : forall n inp buf op d, snd (pairs565 false src false n inp buf op d) = d.
Proof. induction n; intros; [reflexivity|]. cbn [pairs565]. apply IHn. Qed.

Lemma row565_d src base inp buf op nc d : snd (row565 false src false base inp buf op nc d) = d.
Proof.
  unfold row565.
  destruct (negb (Z.land (base + op) pack_align_mask =? 0)).
  - pose proof (pairs565_d src (Z.to_nat (Z.shiftr ((nc - 1) mod 2 ^ 32) 1)) (tl inp)
                  (store16 false buf op (pk false (px565 src false d (hd (0, 0, 0) inp)))) (op + 2) d) as H.
    destruct (pairs565 false src false _ _ _ _ d) as [[[a b] c] e]. cbn [snd] in *. now subst.
  - pose proof (pairs565_d src (Z.to_nat (Z.shiftr nc 1)) inp buf op d) as H.
    destruct (pairs565 false src false _ _ _ _ d) as [[[a b] c] e]. cbn [snd] in *. now subst.
Qed.

Definition wr565 (src base w : Z) (d : Z) (row : list px3) (buf : list Z) (op : Z) : list Z :=
  fst (fst (row565 false src false base row buf op w d)).

Lemma rows565_reset_is_write_rows src base w d : forall img buf ptrs nc,
  rows565 true false src false base w img buf ptrs nc d = write_rows (wr565 src base w d) img buf ptrs.
Proof.
  induction img as [|row ri IH]; intros buf [|op rp] nc; try reflexivity.
  cbn [rows565 write_rows]. unfold wr565.
  pose proof (row565_d src base row buf op w d) as Hd.
  destruct (row565 false src false base row buf op w d) as [[b n'] d']. cbn [fst snd] in *. subst d'. apply IH.
Qed.

Definition ok16b (src : Z) (row : list px3) : bool :=
  forallb (fun t => (0 <=? val565 src t) && (val565 src t <? 65536)) row.
Lemma ok16b_ok src row : ok16b src row = true -> ok16 src row.
Proof.
  unfold ok16b, ok16. rewrite forallb_forall, Forall_forall. intros H t Ht. specialize (H t Ht).
  apply andb_prop in H. destruct H as [A B]. apply Z.leb_le in A. apply Z.ltb_lt in B. lia.
Qed.
Lemma ok_ok16b src row : ok16 src row -> ok16b src row = true.
Proof.
  unfold ok16b, ok16. rewrite forallb_forall, Forall_forall. intros H t Ht. specialize (H t Ht).
  apply andb_true_intro. split; [apply Z.leb_le | apply Z.ltb_lt]; lia.
Qed.

(* every row complete, whatever the alignment of the row pointers and however many rows one call converts *)
Theorem rgb565_rows_all_alignments src base wn : (1 <= wn)%nat -> Z.of_nat wn < 2 ^ 32 ->
  forall img buf ptrs nc d,
  length img = length ptrs -> Forall (fun row => length row = wn /\ ok16 src row) img ->
  in_bounds (2 * Z.of_nat wn) (length buf) ptrs -> separated (2 * Z.of_nat wn) ptrs ->
  let out := rows565 true false src false base (Z.of_nat wn) img buf ptrs nc d in
  length out = length buf /\
  (forall j, 0 <= j -> outside_rows (2 * Z.of_nat wn) ptrs j -> rd out j = rd buf j) /\
  unpack565 false out ptrs wn = map (map (val565 src)) img.
Proof.
  intros Hw1 Hw32 img buf ptrs nc d Hlen Himg Hin Hsep. cbv zeta.
  rewrite rows565_reset_is_write_rows.
  set (g := fun (row : list px3) (b : list Z) (op : Z) =>
              if Nat.eqb (length row) wn && ok16b src row then wr565 src base (Z.of_nat wn) d row b op else b).
  assert (E : forall img' buf' ptrs', Forall (fun row => length row = wn /\ ok16 src row) img' ->
            write_rows g img' buf' ptrs' = write_rows (wr565 src base (Z.of_nat wn) d) img' buf' ptrs').
  { induction img' as [|r ri IH]; intros buf' [|o rp] HF; try reflexivity.
    inversion HF as [|? ? [Hl Hk] HF']; subst. cbn [write_rows]. unfold g at 2.
    rewrite Nat.eqb_refl, (ok_ok16b _ _ Hk). cbn [andb]. now apply IH. }
  set (okrow := fun (row : list px3) (got : list Z) => length row = wn -> ok16 src row -> got = map (val565 src) row).
  pose proof (write_rows_spec g (fun b op => cols565 false b op wn) (2 * Z.of_nat wn) okrow) as G.
  assert (HA : forall row b op, 0 <= op -> op + 2 * Z.of_nat wn <= Z.of_nat (length b) ->
     length (g row b op) = length b /\
     (forall j, 0 <= j -> (j < op \/ op + 2 * Z.of_nat wn <= j) -> rd (g row b op) j = rd b j) /\
     okrow row (cols565 false (g row b op) op wn)).
  { intros row b op Hop Hopd. unfold g, okrow.
    destruct (Nat.eqb (length row) wn && ok16b src row) eqn:Eg.
    - apply andb_prop in Eg. destruct Eg as [El Ek]. apply Nat.eqb_eq in El. apply ok16b_ok in Ek.
      pose proof (row565_spec src base row b op d) as R. cbv zeta in R. rewrite El in R.
      unfold wr565. destruct (row565 false src false base row b op (Z.of_nat wn) d) as [[b' n'] d'].
      destruct R as (R1 & R2 & R3 & R4 & R5); try lia; auto. all: try (cbn [fst]; auto).
    - split; [reflexivity|]. split; [reflexivity|]. intros Hl Hk.
      rewrite Hl, Nat.eqb_refl, (ok_ok16b _ _ Hk) in Eg. discriminate Eg. }
  assert (HB : forall b1 b2 op, 0 <= op -> (forall j, op <= j < op + 2 * Z.of_nat wn -> rd b1 j = rd b2 j) ->
     cols565 false b1 op wn = cols565 false b2 op wn).
  { intros. now apply cols565_ext. }
  destruct (G HA HB img buf ptrs Hlen Hin Hsep) as (G1 & G2 & G3).
  rewrite E in * by assumption.
  set (out := write_rows (wr565 src base (Z.of_nat wn) d) img buf ptrs) in *. clearbody out.
  repeat split; auto.
  unfold unpack565. clear - G3 Himg. induction G3 as [|x y l l' H G3 IH]; [reflexivity|].
  inversion Himg as [|? ? [Hx Hk] Hl]. cbn [map]. f_equal; [|apply IH; exact Hl]. exact (H Hx Hk).
Qed.

(* the source fact the theorem above is about: the current jdcol565.c re-initialises num_cols per row *)
Theorem source_rgb565_resets_num_cols : rgb565_numcols_reset_per_row = true.
Proof. reflexivity. Qed.

Corollary convert565_all_alignments src base scan wn : (1 <= wn)%nat -> Z.of_nat wn < 2 ^ 32 ->
  forall img buf ptrs,
  length img = length ptrs -> Forall (fun row => length row = wn /\ ok16 src row) img ->
  in_bounds (2 * Z.of_nat wn) (length buf) ptrs -> separated (2 * Z.of_nat wn) ptrs ->
  let out := convert565 false src false base scan (Z.of_nat wn) img buf ptrs in
  length out = length buf /\
  (forall j, 0 <= j -> outside_rows (2 * Z.of_nat wn) ptrs j -> rd out j = rd buf j) /\
  unpack565 false out ptrs wn = map (map (val565 src)) img.
Proof.
  intros Hw1 Hw32 img buf ptrs Hl Hi Hb Hs. cbv zeta. unfold convert565. rewrite source_rgb565_resets_num_cols.
  now apply rgb565_rows_all_alignments.
Qed.

(* regression witness: the loop structure before the fix (num_cols carried from row to row) loses the last
   pixel of the second unaligned row of a call; with the reset it is written *)
Theorem rgb565_carried_num_cols_defect :
  let img := [[(255, 0, 8); (9, 10, 11); (4, 255, 8)]; [(9, 10, 11); (7, 0, 255); (9, 10, 11)]] in
  let buf := repeat 238 18 in
  rows565 false false 1 false 2 3 img buf [0; 8] 3 0 =
    [1; 248; 65; 8; 225; 7; 238; 238; 65; 8; 31; 0; 238; 238; 238; 238; 238; 238] /\
  rows565 true false 1 false 2 3 img buf [0; 8] 3 0 =
    [1; 248; 65; 8; 225; 7; 238; 238; 65; 8; 31; 0; 65; 8; 238; 238; 238; 238].
Proof. cbv zeta. split; vm_compute; reflexivity. Qed.

(* ------------------------------------------------------------------ YCCK -> CMYK rows: frame and read-back *)
Lemma put4_spec buf op t : 0 <= op -> op + 4 <= Z.of_nat (length buf) ->
  length (put4 buf op t) = length buf /\
  (forall j, 0 <= j -> (j < op \/ op + 4 <= j) -> rd (put4 buf op t) j = rd buf j) /\
  get4 (put4 buf op t) op = t.
Proof.
  intros Hop Hlen. destruct t as [[[a b] c] k]. unfold put4, get4.
  change (z5 ycck_out_offsets 0) with 0. change (z5 ycck_out_offsets 1) with 1. change (z5 ycck_out_offsets 2) with 2.
  change ycck_out_k with 3. rewrite Z.add_0_r.
  split; [now rewrite !length_upd|]. split.
  - intros j Hj Ho. rewrite !rd_upd_other by lia. reflexivity.
  - f_equal; [f_equal; [f_equal|]|].
    + rewrite !rd_upd_other by lia. apply rd_upd_same. lia.
    + rewrite !rd_upd_other by lia. apply rd_upd_same. rewrite !length_upd. lia.
    + rewrite !rd_upd_other by lia. apply rd_upd_same. rewrite !length_upd. lia.
    + apply rd_upd_same. rewrite !length_upd. lia.
Qed.

Lemma get4_cols_ext b1 b2 : forall n ip, (forall j, ip <= j < ip + 4 * Z.of_nat n -> rd b1 j = rd b2 j) ->
  get4_cols b1 ip n = get4_cols b2 ip n.
Proof.
  induction n; intros ip H; [reflexivity|]. cbn [get4_cols]. f_equal.
  - unfold get4. rewrite !H by lia. reflexivity.
  - apply IHn. intros j Hj. apply H. lia.
Qed.

Lemma put4_cols_spec : forall px buf op, 0 <= op -> op + 4 * Z.of_nat (length px) <= Z.of_nat (length buf) ->
  let out := put4_cols px buf op in
  length out = length buf /\
  (forall j, 0 <= j -> (j < op \/ op + 4 * Z.of_nat (length px) <= j) -> rd out j = rd buf j) /\
  get4_cols out op (length px) = px.
Proof.
  induction px as [|t r IH]; intros buf op Hop Hlen.
  - cbn. repeat split; auto.
  - cbn [put4_cols length] in *. rewrite Nat2Z.inj_succ in Hlen. change ycck_out_pixelsize with 4.
    destruct (put4_spec buf op t Hop ltac:(lia)) as (Q1 & Q2 & Q3).
    destruct (IH (put4 buf op t) (op + 4)) as (I1 & I2 & I3); [lia | rewrite Q1; lia |].
    cbv zeta. repeat split.
    + now rewrite I1.
    + intros j Hj Ho. rewrite I2 by lia. apply Q2; lia.
    + cbn [get4_cols]. f_equal; [|exact I3].
      transitivity (get4 (put4 buf op t) op); [unfold get4; rewrite !I2 by lia; reflexivity | exact Q3].
Qed.

Theorem ycck_cmyk_rows w : forall p (img : list (list px4)) buf ptrs,
  length img = length ptrs -> Forall (fun row => length row = w) img ->
  in_bounds (4 * Z.of_nat w) (length buf) ptrs -> separated (4 * Z.of_nat w) ptrs ->
  let out := ycck_cmyk_convert p img buf ptrs in
  length out = length buf /\
  (forall j, 0 <= j -> outside_rows (4 * Z.of_nat w) ptrs j -> rd out j = rd buf j) /\
  unpack4 out ptrs w = map (map (ycck_cmyk_pixel p)) img.
Proof.
  intros p img0 buf ptrs Hlen0 Hw0 Hin Hsep. cbv zeta. unfold ycck_cmyk_convert.
  set (img := map (map (ycck_cmyk_pixel p)) img0).
  assert (Hlen : length img = length ptrs) by (unfold img; now rewrite map_length).
  assert (Hw : Forall (fun row => length row = w) img).
  { unfold img. apply Forall_map. eapply Forall_impl; [|exact Hw0]. cbv beta. intros. now rewrite map_length. }
  clearbody img. clear Hlen0 Hw0 img0.
  set (g := fun (row : list px4) (b : list Z) (op : Z) => if Nat.eqb (length row) w then put4_cols row b op else b).
  assert (E : forall img' buf' ptrs', Forall (fun row => length row = w) img' ->
            write_rows g img' buf' ptrs' = write_rows put4_cols img' buf' ptrs').
  { induction img' as [|r ri IH]; intros buf' [|o rp] HF; try reflexivity.
    inversion HF; subst. cbn [write_rows]. unfold g at 2. rewrite Nat.eqb_refl. now apply IH. }
  set (okrow := fun (row : list px4) (got : list px4) => length row = w -> got = row).
  pose proof (write_rows_spec g (fun b op => get4_cols b op w) (4 * Z.of_nat w) okrow) as G.
  assert (HA : forall row b op, 0 <= op -> op + 4 * Z.of_nat w <= Z.of_nat (length b) ->
     length (g row b op) = length b /\
     (forall j, 0 <= j -> (j < op \/ op + 4 * Z.of_nat w <= j) -> rd (g row b op) j = rd b j) /\
     okrow row (get4_cols (g row b op) op w)).
  { intros row b op Hop Hopd. unfold g, okrow. destruct (Nat.eqb (length row) w) eqn:Ew.
    - apply Nat.eqb_eq in Ew. pose proof (put4_cols_spec row b op Hop) as P. cbv zeta in P. rewrite Ew in P.
      destruct (P Hopd) as (P1 & P2 & P3). auto.
    - split; [reflexivity|]. split; [reflexivity|]. intro Hc. apply Nat.eqb_neq in Ew. contradiction. }
  assert (HB : forall b1 b2 op, 0 <= op -> (forall j, op <= j < op + 4 * Z.of_nat w -> rd b1 j = rd b2 j) ->
     get4_cols b1 op w = get4_cols b2 op w) by (intros; now apply get4_cols_ext).
  destruct (G HA HB img buf ptrs Hlen Hin Hsep) as (G1 & G2 & G3).
  rewrite E in * by assumption.
  set (out := write_rows put4_cols img buf ptrs) in *. clearbody out. repeat split; auto.
  unfold unpack4. clear - G3 Hw. induction G3 as [|x y l l' H G3 IH]; [reflexivity|].
  inversion Hw as [|? ? Hx Hl]. cbn [map]. f_equal; [|apply IH; exact Hl]. exact (H Hx).
Qed.

(* ------------------------------------------------------------------ jdmrg565.c: no per-row state, no alignment branch; frame *)
Lemma write_two_frame buf op v : length (write_two false buf op v) = length buf /\
  forall j, 0 <= j -> (j < op \/ op + 4 <= j) -> rd (write_two false buf op v) j = rd buf j.
Proof.
  unfold write_two. split; [now rewrite !length_store16|].
  intros j Hj Ho. rewrite !store16_frame by lia. reflexivity.
Qed.

Lemma m565_pairs_frame dith : forall n ys cbs crs buf op d,
  let '(_, _, _, buf', op', _) := m565_pairs false dith n ys cbs crs buf op d in
  op' = op + 4 * Z.of_nat n /\ length buf' = length buf /\
  forall j, 0 <= j -> (j < op \/ op + 4 * Z.of_nat n <= j) -> rd buf' j = rd buf j.
Proof.
  induction n; intros ys cbs crs buf op d.
  - cbn. repeat split; auto. lia.
  - cbn [m565_pairs].
    set (b1 := write_two false buf op _).
    destruct (write_two_frame buf op
                (pack_two false (pk false (mpx565 dith d (hd 0 ys) (chroma prec8 true (hd 0 cbs) (hd 0 crs))))
                   (pk false (mpx565 dith (if dith then dither_rot d else d) (hd 0 (tl ys)) (chroma prec8 true (hd 0 cbs) (hd 0 crs))))))
      as [W1 W2]. fold b1 in W1, W2.
    specialize (IHn (tl (tl ys)) (tl cbs) (tl crs) b1 (op + 4)
                    (if dith then dither_rot (if dith then dither_rot d else d) else (if dith then dither_rot d else d))).
    destruct (m565_pairs false dith n (tl (tl ys)) (tl cbs) (tl crs) b1 (op + 4) _) as [[[[[a b] c] buf'] op'] d'].
    destruct IHn as (I1 & I2 & I3). repeat split.
    + lia.
    + now rewrite I2.
    + intros j Hj Ho. rewrite I3 by lia. apply W2; lia.
Qed.

Lemma m565_row_frame dith w ys cbs crs buf op d : 0 <= w ->
  length (m565_row false dith w ys cbs crs buf op d) = length buf /\
  forall j, 0 <= j -> (j < op \/ op + 2 * w <= j) -> rd (m565_row false dith w ys cbs crs buf op d) j = rd buf j.
Proof.
  intro Hw. unfold m565_row.
  pose proof (m565_pairs_frame dith (Z.to_nat (Z.shiftr w 1)) ys cbs crs buf op d) as P.
  destruct (m565_pairs false dith (Z.to_nat (Z.shiftr w 1)) ys cbs crs buf op d) as [[[[[a b] c] buf'] op'] d'].
  destruct P as (P1 & P2 & P3).
  assert (Hn : w = 2 * Z.of_nat (Z.to_nat (Z.shiftr w 1)) + (if Z.odd w then 1 else 0)).
  { rewrite Z.shiftr_div_pow2 by lia. change (2 ^ 1) with 2. rewrite Z2Nat.id by (apply Z.div_pos; lia).
    pose proof (Zdiv2_odd_eqn w) as E. rewrite Z.div2_div in E. destruct (Z.odd w); lia. }
  destruct (Z.odd w).
  - split; [rewrite length_store16; exact P2|]. intros j Hj Ho. rewrite store16_frame by lia. apply P3; lia.
  - split; [exact P2|]. intros j Hj Ho. apply P3; lia.
Qed.

Lemma m565_rows_frame dith w : 0 <= w -> forall ys cbs crs buf ptrs scan,
  length (m565_rows false dith w scan ys cbs crs buf ptrs) = length buf /\
  forall j, 0 <= j -> outside_rows (2 * w) ptrs j -> rd (m565_rows false dith w scan ys cbs crs buf ptrs) j = rd buf j.
Proof.
  intro Hw. induction ys as [|y ty IH]; intros cbs crs buf ptrs scan; [cbn; auto|].
  destruct cbs as [|cb tcb]; [cbn; auto|]. destruct crs as [|cr tcr]; [cbn; auto|]. destruct ptrs as [|op tp]; [cbn; auto|].
  cbn [m565_rows].
  destruct (m565_row_frame dith w y cb cr buf op (if dith then dither_row scan else 0) Hw) as [R1 R2].
  destruct (IH tcb tcr (m565_row false dith w y cb cr buf op (if dith then dither_row scan else 0)) tp (scan + 1)) as [I1 I2].
  split; [now rewrite I1|]. intros j Hj Ho. rewrite I2.
  - apply R2; auto. apply Ho. now left.
  - assumption.
  - intros q Hq. apply Ho. now right.
Qed.

(* merged upsampling to RGB565, dithered or not, h2v1 or h2v2: the result is a function of the samples, the
   pitch-derived row pointers and output_scanline only (there is no address/alignment input at all), the buffer
   keeps its length and nothing outside the 2*w bytes of the rows is written *)
Theorem merged565_frame dith v2 w scan ys cbs crs buf ptrs : 0 <= w ->
  length (merged565 false dith v2 w scan ys cbs crs buf ptrs) = length buf /\
  forall j, 0 <= j -> outside_rows (2 * w) ptrs j -> rd (merged565 false dith v2 w scan ys cbs crs buf ptrs) j = rd buf j.
Proof. intro Hw. unfold merged565. destruct v2; now apply m565_rows_frame. Qed.

(* ------------------------------------------------------------------ ordered dithering: what the output depends on *)
(* one color_convert call takes d0 = dither_matrix[output_scanline & 3] ONCE and threads it through its rows *)
Theorem dither565_call_state src base scan w img buf ptrs :
  convert565 false src true base scan w img buf ptrs =
  rows565 rgb565_numcols_reset_per_row false src true base w img buf ptrs w (nth (Z.to_nat (Z.land scan DITHER_MASK)) dither_matrix 0).
Proof. reflexivity. Qed.

(* ... hence the dithered image depends on how many scanlines one call converts: two rows in one call (both from the
   dither row of scanline 0) differ from the same two rows converted by two calls (scanlines 0 and 1) ... *)
Theorem dither565_depends_on_lines_per_call :
  let img := [[(100, 110, 120); (101, 111, 121); (102, 112, 122); (103, 113, 123)];
              [(100, 110, 120); (101, 111, 121); (102, 112, 122); (103, 113, 123)]] in
  let buf := repeat 0 16 in
  let one_call := convert565 false 1 true 0 0 4 img buf [0; 8] in
  let two_calls := convert565 false 1 true 0 1 4 (tl img) (convert565 false 1 true 0 0 4 [hd [] img] buf [0]) [8] in
  firstn 8 one_call = firstn 8 two_calls /\ one_call <> two_calls.
Proof. cbv zeta. split; [vm_compute; reflexivity | vm_compute; discriminate]. Qed.

(* ... and on the alignment of the row pointer: the alignment branch emits one pixel without rotating d0 *)
Theorem dither565_depends_on_alignment :
  let row := [[(100, 110, 120); (101, 111, 121); (102, 112, 122); (103, 113, 123)]] in
  let buf := repeat 0 8 in
  convert565 false 1 true 0 0 4 row buf [0] <> convert565 false 1 true 2 0 4 row buf [0] /\
  convert565 false 1 false 0 0 4 row buf [0] = convert565 false 1 false 2 0 4 row buf [0].
Proof. cbv zeta. split; [vm_compute; discriminate | vm_compute; reflexivity]. Qed.

(* ------------------------------------------------------------------ ordered dithering: the documented pattern (positive statement) *)
(* pixel k of a row is dithered with the row's dither word rotated k times *)
Fixpoint vals_from (src d : Z) (inp : list px3) : list Z :=
  match inp with [] => [] | t :: r => pk false (px565 src true d t) :: vals_from src (dither_rot d) r end.

Lemma iter_succ_r {A} (f : A -> A) : forall n x, Nat.iter (S n) f x = Nat.iter n f (f x).
Proof.
  induction n; intro x; [reflexivity|].
  change (f (Nat.iter (S n) f x) = f (Nat.iter n f (f x))). now rewrite IHn.
Qed.

Lemma vals_from_app src : forall l1 l2 d,
  vals_from src d (l1 ++ l2) = vals_from src d l1 ++ vals_from src (Nat.iter (length l1) dither_rot d) l2.
Proof.
  induction l1 as [|t r IH]; intros l2 d; [reflexivity|].
  cbn [app vals_from length]. rewrite IH. rewrite iter_succ_r. reflexivity.
Qed.
Lemma vals_from_firstn src : forall k l d, firstn k (vals_from src d l) = vals_from src d (firstn k l).
Proof. induction k; intros [|t r] d; cbn [firstn vals_from]; try reflexivity. now rewrite IHk. Qed.
Lemma vals_from_length src : forall l d, length (vals_from src d l) = length l.
Proof. induction l; intro d; cbn [vals_from length]; [reflexivity | now rewrite IHl]. Qed.

Definition okD (src d : Z) (inp : list px3) : Prop := Forall (fun v => 0 <= v < 65536) (vals_from src d inp).

Lemma pairs565D_spec src : forall n inp buf op d,
  (2 * n <= length inp)%nat -> okD src d inp -> 0 <= op -> op + 4 * Z.of_nat n <= Z.of_nat (length buf) ->
  let '(inp', buf', op', d') := pairs565 false src true n inp buf op d in
  inp' = skipn (2 * n) inp /\ op' = op + 4 * Z.of_nat n /\ d' = Nat.iter (2 * n) dither_rot d /\ length buf' = length buf /\
  (forall j, 0 <= j -> (j < op \/ op + 4 * Z.of_nat n <= j) -> rd buf' j = rd buf j) /\
  cols565 false buf' op (2 * n) = firstn (2 * n) (vals_from src d inp).
Proof.
  induction n; intros inp buf op d Hlen Hok Hop Hb.
  - cbn. repeat split; auto. lia.
  - destruct inp as [|t1 [|t2 rest]]; cbn [length] in Hlen; try lia.
    cbn [pairs565 hd tl]. unfold okD in Hok. cbn [vals_from] in Hok.
    inversion Hok as [|? ? H1 Hok1]; subst. inversion Hok1 as [|? ? H2 Hok2]; subst.
    set (v1 := pk false (px565 src true d t1)) in *. set (v2 := pk false (px565 src true (dither_rot d) t2)) in *.
    set (buf1 := store32 false buf op (pack_two false v1 v2)).
    assert (L1 : length buf1 = length buf) by apply length_store32.
    specialize (IHn rest buf1 (op + 4) (dither_rot (dither_rot d))).
    destruct (pairs565 false src true n rest buf1 (op + 4) (dither_rot (dither_rot d))) as [[[inp' buf'] op'] d'].
    destruct IHn as (I1 & I2 & I3 & I4 & I5 & I6); [lia | exact Hok2 | lia | rewrite L1; lia |].
    replace (2 * S n)%nat with (S (S (2 * n))) by lia.
    cbn [skipn firstn vals_from cols565]. repeat split.
    + exact I1.
    + lia.
    + rewrite I3. now rewrite !iter_succ_r.
    + now rewrite I4.
    + intros j Hj Ho. rewrite I5 by lia. apply store32_frame; lia.
    + destruct (load16_store32 buf op v1 v2) as [E1 E2]; try assumption; try lia.
      fold v1 v2. f_equal; [|f_equal].
      * unfold load16. rewrite !I5 by lia. exact E1.
      * unfold load16. rewrite !I5 by lia. exact E2.
      * replace (op + 2 + 2) with (op + 4) by lia. exact I6.
Qed.

(* an aligned row, dithered: pixel k carries the dither word rotated k times (the documented ordered dither) *)
Lemma row565D_aligned src base inp buf op d :
  let w := Z.of_nat (length inp) in
  Z.land (base + op) pack_align_mask = 0 -> okD src d inp -> 0 <= op -> op + 2 * w <= Z.of_nat (length buf) ->
  let '(buf', _, _) := row565 false src true base inp buf op w d in
  length buf' = length buf /\
  (forall j, 0 <= j -> (j < op \/ op + 2 * w <= j) -> rd buf' j = rd buf j) /\
  cols565 false buf' op (length inp) = vals_from src d inp.
Proof.
  cbv zeta. intros Ha Hok Hop Hb. unfold row565. rewrite Ha. cbn [Z.eqb negb].
  set (n := Z.to_nat (Z.shiftr (Z.of_nat (length inp)) 1)).
  assert (Hn : (2 * n <= length inp)%nat /\ Z.of_nat (length inp) = 2 * Z.of_nat n + (if Z.odd (Z.of_nat (length inp)) then 1 else 0)).
  { unfold n. rewrite Z.shiftr_div_pow2 by lia. change (2 ^ 1) with 2.
    pose proof (Zdiv2_odd_eqn (Z.of_nat (length inp))) as E. rewrite Z.div2_div in E.
    rewrite Z2Nat.id by (apply Z.div_pos; lia). split; [|lia].
    destruct (Z.odd (Z.of_nat (length inp))); lia. }
  destruct Hn as [Hn1 Hn2].
  pose proof (pairs565D_spec src n inp buf op d Hn1 Hok Hop) as P.
  destruct (pairs565 false src true n inp buf op d) as [[[inp2 buf2] op2] d2].
  destruct P as (P1 & P2 & P3 & P4 & P5 & P6); [destruct (Z.odd (Z.of_nat (length inp))); lia|].
  destruct (Z.odd (Z.of_nat (length inp))) eqn:Eo.
  - assert (Hr : length inp = (2 * n + 1)%nat) by lia.
    pose proof (firstn_skipn (2 * n) inp) as FS.
    destruct (skipn (2 * n) inp) as [|x [|y r]] eqn:Es.
    + rewrite <- FS, app_nil_r, firstn_length in Hr. lia.
    + subst inp2. cbn [hd].
      assert (Hx : 0 <= pk false (px565 src true d2 x) < 65536).
      { unfold okD in Hok. rewrite <- FS, vals_from_app in Hok. apply Forall_app in Hok. destruct Hok as [_ Hk].
        cbn [vals_from] in Hk. inversion Hk as [|? ? Hv _]. rewrite firstn_length, Nat.min_l in Hv by lia. now rewrite P3. }
      repeat split.
      * rewrite length_store16. lia.
      * intros j Hj Ho. rewrite store16_frame by lia. apply P5; lia.
      * rewrite Hr, cols565_app.
        replace (vals_from src d inp) with (vals_from src d (firstn (2 * n) inp ++ [x])) by (now rewrite FS).
        rewrite vals_from_app. f_equal.
        -- rewrite <- vals_from_firstn, <- P6. apply cols565_ext. intros j Hj. apply store16_frame; lia.
        -- rewrite firstn_length, Nat.min_l by lia. cbn [vals_from cols565]. f_equal.
           replace (op + 2 * Z.of_nat (2 * n)) with op2 by lia. rewrite <- P3.
           apply load16_store16; [lia | rewrite P4; lia | exact Hx].
    + assert (length inp = length (firstn (2 * n) inp) + S (S (length r)))%nat by (rewrite <- FS at 1; rewrite app_length; reflexivity).
      rewrite firstn_length in H. lia.
  - assert (Hr : length inp = (2 * n)%nat) by lia.
    repeat split.
    + lia.
    + intros j Hj Ho. apply P5; lia.
    + rewrite Hr, P6. rewrite <- Hr. rewrite <- (vals_from_length src inp d) at 1. now rewrite firstn_all.
Qed.

(* one scanline per call into a row at 0 mod 4: the dithered row is the ordered dither of scanline `scan` *)
Theorem dither565_one_aligned_row src base scan row buf op :
  Z.land (base + op) pack_align_mask = 0 -> okD src (dither_row scan) row -> 0 <= op ->
  op + 2 * Z.of_nat (length row) <= Z.of_nat (length buf) ->
  let out := convert565 false src true base scan (Z.of_nat (length row)) [row] buf [op] in
  length out = length buf /\
  (forall j, 0 <= j -> (j < op \/ op + 2 * Z.of_nat (length row) <= j) -> rd out j = rd buf j) /\
  cols565 false out op (length row) = vals_from src (dither_row scan) row.
Proof.
  intros Ha Hok Hop Hb. cbv zeta. unfold convert565. cbn [rows565].
  replace (if rgb565_numcols_reset_per_row then Z.of_nat (length row) else Z.of_nat (length row)) with (Z.of_nat (length row))
    by (destruct rgb565_numcols_reset_per_row; reflexivity).
  pose proof (row565D_aligned src base row buf op (dither_row scan) Ha Hok Hop Hb) as R.
  destruct (row565 false src true base row buf op (Z.of_nat (length row)) (dither_row scan)) as [[b' n'] d']. exact R.
Qed.
