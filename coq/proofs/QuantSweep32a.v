(* C07 -- the per-divisor certificate of proofs/QuantCert.v evaluated by vm_compute for the
   divisors 1..32767 of the 32-bit DCTELEM build (one of four files, so that they compile in parallel) *)
From Coq Require Import List ZArith Bool.
From LJT Require Import lib.Sweep gen.GenDctConst model.Quant proofs.QuantCert.
Local Open Scope Z_scope.

Lemma recip_cert_32_a : sweep (recip_cert cf32) 1 32768 = true.
Proof. vm_compute. reflexivity. Qed.
