(* C12 -- getters after failed calls: a call that fails at a given stage leaves every member it does not write
   on that path unchanged.  The failure-stage tests of a program are resolved for the stage (partial evaluation,
   proved equivalent to the program), what follows an unconditional jump is dropped, and the members written by
   the residual program, the handlers and the bailout block are collected (frame lemma). *)
From Coq Require Import List ZArith String Bool Lia.
From LJT Require Import gen.GenErrPaths model.ApiState model.ApiOps model.ApiUniverse proofs.ApiStateProofs.
Import ListNotations.
Local Open Scope Z_scope.

Fixpoint always_jumps (c : cmd) : bool :=
  match c with
  | CRaise | CGoto _ => true
  | CSeq a b => always_jumps a || always_jumps b
  | CIf _ a b => always_jumps a && always_jumps b
  | CIfNull _ a b => always_jumps a && always_jumps b
  | _ => false
  end.

Lemma always_jumps_sound en c : forall x, always_jumps c = true -> snd (exec en c x) <> KNext.
Proof.
  induction c; intros x H; cbn in H; try discriminate;
    try (solve [try destruct t; cbn; intro E; discriminate E]).
  - cbn [exec]. destruct (exec en c1 x) as [x1 k1] eqn:E1. apply orb_true_iff in H. destruct H as [H|H].
    + pose proof (IHc1 x H) as N. rewrite E1 in N. cbn in N.
      destruct k1; cbn; try (intro E; discriminate E). exfalso. apply N. reflexivity.
    + destruct k1; cbn; try (intro E; discriminate E). apply IHc2. exact H.
  - apply andb_true_iff in H. destruct H as [H1 H2]. cbn [exec]. destruct (pt (xs x) p); [apply IHc2 | apply IHc1]; assumption.
  - apply andb_true_iff in H. destruct H as [H1 H2]. cbn [exec]. destruct (Z.eqb _ 0); [apply IHc2 | apply IHc1]; assumption.
Qed.

(* is e the test "fail == j" ? *)
Definition fail_test (e : expr) : option Z :=
  match e with
  | EEq (EA n) (EC j) => if String.eqb n "fail" then Some j else None
  | _ => None
  end.

Fixpoint pe (k : Z) (c : cmd) : cmd :=
  match c with
  | CSeq a b => let a' := pe k a in if always_jumps a' then a' else CSeq a' (pe k b)
  | CIf e a b => match fail_test e with
                 | Some j => if Z.eqb k j then pe k a else pe k b
                 | None => CIf e (pe k a) (pe k b)
                 end
  | CIfNull p a b => CIfNull p (pe k a) (pe k b)
  | _ => c
  end.

Lemma fail_test_eval en s e j : fail_test e = Some j -> eval en s e = b2z (Z.eqb (en "fail"%string) j).
Proof.
  destruct e; cbn; try discriminate. destruct e1; try discriminate. destruct e2; try discriminate.
  destruct (String.eqb name "fail") eqn:E; [|discriminate]. apply String.eqb_eq in E. subst. intro H. inversion H. reflexivity.
Qed.

Lemma pe_sound en k c : en "fail"%string = k -> forall x, exec en (pe k c) x = exec en c x.
Proof.
  intro Hk. induction c; intro x; cbn [pe]; try reflexivity.
  - destruct (always_jumps (pe k c1)) eqn:A.
    + cbn [exec]. rewrite <- IHc1. pose proof (always_jumps_sound en _ x A) as N.
      destruct (exec en (pe k c1) x) as [x1 k1]. cbn in N. destruct k1; try reflexivity. exfalso. apply N. reflexivity.
    + cbn [exec]. rewrite IHc1. destruct (exec en c1 x) as [x1 k1]. destruct k1; try reflexivity. apply IHc2.
  - cbn [exec]. destruct (pt (xs x) p); [apply IHc2 | apply IHc1].
  - destruct (fail_test e) as [j|] eqn:F.
    + cbn [exec]. rewrite (fail_test_eval en (xs x) e j F), Hk.
      destruct (Z.eqb k j); cbn; [apply IHc1 | apply IHc2].
    + cbn [exec]. destruct (Z.eqb _ 0); [apply IHc2 | apply IHc1].
Qed.

(* scalar members a command may write *)
Fixpoint wr (c : cmd) : list fld :=
  match c with
  | CSeq a b => wr a ++ wr b
  | CSet f _ => [f]
  | CIf _ a b => wr a ++ wr b
  | CIfNull _ a b => wr a ++ wr b
  | CAbort OC => [gsc]
  | CAbort OD => [gsd]
  | _ => []
  end.

Lemma memf_app f l m : memf f (l ++ m) = memf f l || memf f m.
Proof. induction l as [|g t IH]; cbn; [reflexivity|]. rewrite IH, orb_assoc. reflexivity. Qed.

Lemma frame en c f : forall x, memf f (wr c) = false -> sc (xs (fst (exec en c x))) f = sc (xs x) f.
Proof.
  induction c; intros x H; cbn [wr] in H; try reflexivity.
  - rewrite memf_app in H. apply orb_false_iff in H. destruct H as [H1 H2].
    cbn [exec]. pose proof (IHc1 x H1) as F1. destruct (exec en c1 x) as [x1 k1]. cbn [fst] in F1.
    destruct k1; cbn [fst]; try exact F1. rewrite IHc2 by exact H2. exact F1.
  - cbn in H. rewrite orb_false_r in H. cbn [exec fst xs set_xs upd_sc sc]. rewrite H. reflexivity.
  - cbn [exec]. destruct (pstat (xs x) p); reflexivity.
  - rewrite memf_app in H. apply orb_false_iff in H. destruct H as [H1 H2].
    cbn [exec]. destruct (pt (xs x) p); [apply IHc2 | apply IHc1]; assumption.
  - rewrite memf_app in H. apply orb_false_iff in H. destruct H as [H1 H2].
    cbn [exec]. destruct (Z.eqb _ 0); [apply IHc2 | apply IHc1]; assumption.
  - cbn [exec fst xs set_xs]. destruct o; cbn in H; try rewrite orb_false_r in H; unfold abort; cbn [sc upd_sc upd_pt];
      try rewrite H; reflexivity.
  - destruct t; reflexivity.
Qed.

(* whole program at failure stage k *)
Definition wr_prog (k : Z) (p : prog) : list fld :=
  wr (pe k (p_body p)) ++ flat_map wr (CGoto TBailout :: p_handlers p) ++ wr (p_bailout p).

Lemma memf_flat_map_false f hs h : memf f (flat_map wr hs) = false -> In h hs -> memf f (wr h) = false.
Proof.
  induction hs as [|a t IH]; intros H Hin; [destruct Hin|]. cbn in H. rewrite memf_app in H.
  apply orb_false_iff in H. destruct H as [H1 H2]. destruct Hin as [->|Hin]; auto.
Qed.

Lemma run_prog_frame en k p f x :
  en "fail"%string = k -> memf f (wr_prog k p) = false -> sc (xs (run_prog en p x)) f = sc (xs x) f.
Proof.
  intros Hk H. unfold wr_prog in H. rewrite !memf_app in H.
  apply orb_false_iff in H. destruct H as [Hb H]. apply orb_false_iff in H. destruct H as [Hh Hbl].
  unfold run_prog. rewrite <- (pe_sound en k (p_body p) Hk x).
  pose proof (frame en (pe k (p_body p)) f x Hb) as F1.
  destruct (exec en (pe k (p_body p)) x) as [x1 k1]. cbn [fst] in F1.
  destruct k1.
  - rewrite frame by exact Hbl. exact F1.
  - pose proof (nth_In_or_default (xh x1) (p_handlers p) (CGoto TBailout)) as Hin.
    pose proof (memf_flat_map_false f _ _ Hh Hin) as Hw.
    pose proof (frame en _ f x1 Hw) as F2.
    destruct (exec en (nth (xh x1) (p_handlers p) (CGoto TBailout)) x1) as [x2 k2]. cbn [fst] in F2.
    destruct k2; try (rewrite frame by exact Hbl); congruence.
  - rewrite frame by exact Hbl. exact F1.
  - exact F1.
Qed.

(* the members the getters report *)
Definition getter_fields : list fld := param_fields.
Definition keeps_params (fx : fixes) (k : opk) (stage : Z) : bool :=
  forallb (fun f => negb (memf f (wr_prog stage (prog_of fx k)))) getter_fields.

Lemma step_keeps_params fx c x stage :
  keeps_params fx (c_kind c) stage = true -> env_of (c_args c) "fail"%string = stage ->
  forall f, In f getter_fields -> sc (xs (step fx c x)) f = sc (xs x) f.
Proof.
  intros H Hs f Hf. unfold keeps_params in H. rewrite forallb_forall in H. specialize (H f Hf).
  apply negb_true_iff in H. unfold step. rewrite (run_prog_frame _ stage _ f _ Hs H). reflexivity.
Qed.

(* failing in the argument checks: every kind that has them up front; failing inside jpeg_read_header:
   tj3DecompressHeader / tjDecompressHeader3 *)
Definition args_kinds : list opk :=
  filter (fun k => match k with KSet | KSetScaling | KSetCrop | KSetICC | KHeader _ true | KLegacyCompress
                               | KLegacyDecompress _ _ | KLegacyTransform _ | KLegacyDecompressYUV _ => false | _ => true end) all_kinds.
Lemma args_failure_keeps_params : forallb (fun k => keeps_params faithful k S_ARGS) args_kinds = true.
Proof. vm_cast_no_check (eq_refl true). Qed.
Lemma header_failure_keeps_params :
  forallb (fun k => keeps_params faithful k S_HDR) [KHeader true true; KHeader true false; KHeader false true; KHeader false false] = true.
Proof. vm_cast_no_check (eq_refl true). Qed.
Lemma legacy_args_failure_keeps_params :
  forallb (fun k => keeps_params faithful k S_LARGS)
          [KLegacyCompress; KLegacyDecompress true true; KLegacyDecompress true false; KLegacyTransform true; KLegacyDecompressYUV true] = true.
Proof. vm_cast_no_check (eq_refl true). Qed.

Lemma failed_args_keep_getters :
  forall c x, In (c_kind c) args_kinds -> env_of (c_args c) "fail"%string = S_ARGS ->
  forall f, In f getter_fields -> sc (xs (step faithful c x)) f = sc (xs x) f.
Proof.
  intros c x Hk Hs. apply step_keeps_params with (stage := S_ARGS); [|exact Hs].
  pose proof args_failure_keeps_params as H. rewrite forallb_forall in H. apply H. exact Hk.
Qed.
Lemma failed_header_keeps_getters :
  forall c x s v, c_kind c = KHeader s v -> env_of (c_args c) "fail"%string = S_HDR ->
  forall f, In f getter_fields -> sc (xs (step faithful c x)) f = sc (xs x) f.
Proof.
  intros c x s v Hk Hs. apply step_keeps_params with (stage := S_HDR); [|exact Hs].
  pose proof header_failure_keeps_params as H. rewrite forallb_forall in H. apply H. rewrite Hk.
  destruct s, v; cbn; tauto.
Qed.
