(* C17: partial-correctness + index-safety logic for the trace monad of model/CParams.v.
   sat m Q  :=  every array access recorded by m is in bounds, and if m returns x then Q x. *)
From Coq Require Import List ZArith Bool Lia.
From LJT Require Import model.Huff gen.GenParams model.CParams.
Import ListNotations.
Local Open Scope Z_scope.

Definition trace_ok (t : list access) : Prop := Forall (fun a => in_bounds a = true) t.
Definition sat {A} (m : M A) (Q : A -> Prop) : Prop :=
  trace_ok (fst m) /\ forall x, snd m = inr x -> Q x.

Lemma sat_ret {A} (x : A) (Q : A -> Prop) : Q x -> sat (ret x) Q.
Proof. intro H. split; [constructor|]. cbn. intros y E. inversion E; subst; exact H. Qed.

Lemma sat_fail {A} (e : cerr) (Q : A -> Prop) : sat (fail e) Q.
Proof. split; [constructor|]. cbn. intros y E. discriminate. Qed.

Lemma sat_bind {A B} (m : M A) (f : A -> M B) (P : A -> Prop) (Q : B -> Prop) :
  sat m P -> (forall x, P x -> sat (f x) Q) -> sat (bind m f) Q.
Proof.
  intros [Ht Hr] Hf. destruct m as [t [e|x]]; cbn in *.
  - split; [exact Ht|]. cbn. intros y E; discriminate.
  - specialize (Hf x (Hr x eq_refl)). destruct Hf as [Ht' Hr'].
    split; cbn.
    + unfold trace_ok in *. apply Forall_app. split; assumption.
    + exact Hr'.
Qed.

Lemma sat_weaken {A} (m : M A) (P Q : A -> Prop) : sat m P -> (forall x, P x -> Q x) -> sat m Q.
Proof. intros [Ht Hr] H. split; [exact Ht|]. intros x E. apply H, Hr, E. Qed.

Lemma sat_touch (a : arr) (i : Z) (Q : unit -> Prop) :
  0 <= i < arr_size a -> Q tt -> sat (touch a i) Q.
Proof.
  intros Hi HQ. split; cbn.
  - constructor; [|constructor]. unfold in_bounds. cbn. apply andb_true_intro. split; [apply Z.leb_le|apply Z.ltb_lt]; lia.
  - intros [] _. exact HQ.
Qed.

Lemma sat_guard (b : bool) (e : cerr) (Q : unit -> Prop) : (b = false -> Q tt) -> sat (guard b e) Q.
Proof. intro H. unfold guard. destruct b; [apply sat_fail|]. apply sat_ret. apply H. reflexivity. Qed.

(* sequencing with a unit result *)
Lemma sat_seq {B} (m : M unit) (f : M B) (P : Prop) (Q : B -> Prop) :
  sat m (fun _ => P) -> (P -> sat f Q) -> sat (bind m (fun _ => f)) Q.
Proof. intros H1 H2. eapply sat_bind; [exact H1|]. intros x HP. apply H2, HP. Qed.

Lemma sat_for {St} (n : nat) (i : Z) (body : Z -> St -> M St) (s : St) (Inv : Z -> St -> Prop) :
  Inv i s ->
  (forall j s, i <= j < i + Z.of_nat n -> Inv j s -> sat (body j s) (Inv (j + 1))) ->
  sat (for_loop n i body s) (Inv (i + Z.of_nat n)).
Proof.
  revert i s. induction n as [|n IH]; intros i s H0 Hb.
  - cbn [for_loop]. apply sat_ret. replace (i + Z.of_nat 0) with i by lia. exact H0.
  - cbn [for_loop]. eapply sat_bind.
    + apply Hb; [lia|exact H0].
    + intros s' Hs'. replace (i + Z.of_nat (S n)) with ((i + 1) + Z.of_nat n) by lia.
      apply IH; [exact Hs'|]. intros j s'' Hj. apply Hb. lia.
Qed.

(* conjunction of two postconditions proved separately is not needed; this one is: *)
Lemma sat_and {A} (m : M A) (P Q : A -> Prop) : sat m P -> sat m Q -> sat m (fun x => P x /\ Q x).
Proof. intros [Ht H1] [_ H2]. split; [exact Ht|]. intros x E. split; [apply H1|apply H2]; exact E. Qed.

Lemma sat_if {A} (b : bool) (m1 m2 : M A) (Q : A -> Prop) :
  (b = true -> sat m1 Q) -> (b = false -> sat m2 Q) -> sat (if b then m1 else m2) Q.
Proof. destruct b; intros H1 H2; [apply H1|apply H2]; reflexivity. Qed.

Lemma sat_result {A} (m : M A) (Q : A -> Prop) x : sat m Q -> snd m = inr x -> Q x.
Proof. intros [_ H] E. apply H, E. Qed.
Lemma sat_trace {A} (m : M A) (Q : A -> Prop) : sat m Q -> trace_ok (fst m).
Proof. intros [H _]. exact H. Qed.
