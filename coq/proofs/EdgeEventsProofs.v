(* C20 round 4 -- the event list of one tj3CompressFromYUVPlanes8 iteration passes the initialised-cell checker of
   model/RawData.v for ALL parameters that satisfy the index-level facts of C20_cfp_edge_replication. *)
From Coq Require Import ZArith List Bool Lia ZifyBool.
From LJT Require Import lib.Sweep lib.PadLemmas gen.GenSubsamp model.Geometry model.YuvCopy model.RawData
  proofs.GeometryProofs proofs.YuvCopyProofs proofs.RawDataProofs.
Import ListNotations.
Local Open Scope Z_scope.
Local Open Scope bool_scope.

(* the checker as a state transformer *)
Fixpoint tev_exec (rows width : Z) (st : list (Z * Z)) (l : list tev) : option (list (Z * Z)) :=
  match l with
  | [] => Some st
  | e :: t => match tev_step rows width st e with Some st' => tev_exec rows width st' t | None => None end
  end.

Lemma tev_run_exec rows width l : forall st,
  tev_run rows width st l = match tev_exec rows width st l with Some _ => true | None => false end.
Proof. induction l as [|e t IH]; intros st; cbn; [reflexivity|]. destruct (tev_step rows width st e); [apply IH|reflexivity]. Qed.

Lemma tev_exec_app rows width l1 : forall st l2,
  tev_exec rows width st (l1 ++ l2) =
    match tev_exec rows width st l1 with Some st' => tev_exec rows width st' l2 | None => None end.
Proof. induction l1 as [|e t IH]; intros st l2; cbn; [reflexivity|]. destruct (tev_step rows width st e); [apply IH|reflexivity]. Qed.

(* ---- the prefix bookkeeping ---- *)
Definition upd (j : Z) (acc : Z) (p : Z * Z) : Z := if fst p =? j then Z.max acc (snd p) else acc.

Lemma fold_upd_max j st : forall a, fold_left (upd j) st a = Z.max a (fold_left (upd j) st 0) \/ a < 0.
Proof.
  induction st as [|p st IH]; intros a; cbn [fold_left].
  - destruct (Z_lt_ge_dec a 0); [right; assumption|left; lia].
  - destruct (Z_lt_ge_dec a 0) as [Ha|Ha]; [right; assumption|left].
    unfold upd at 2 4. destruct (fst p =? j).
    + destruct (IH (Z.max a (snd p))) as [E|E]; [|lia]. destruct (IH (Z.max 0 (snd p))) as [E0|E0]; [|lia]. rewrite E, E0. lia.
    + destruct (IH a) as [E|E]; [|lia]. destruct (IH 0) as [E0|E0]; [|lia]. rewrite E. lia.
Qed.

Lemma row_init_nonneg st j : 0 <= row_init st j.
Proof.
  unfold row_init. fold (upd j). destruct (fold_upd_max j st 0) as [E|E]; [|lia].
  assert (forall l a, 0 <= a -> 0 <= fold_left (upd j) l a).
  { induction l as [|p l IH]; intros a Ha; cbn; [assumption|]. apply IH. unfold upd. destruct (fst p =? j); lia. }
  apply H. lia.
Qed.

Lemma row_init_cons j' n st j :
  row_init ((j', n) :: st) j = if j' =? j then Z.max (Z.max 0 n) (row_init st j) else row_init st j.
Proof.
  unfold row_init. fold (upd j). cbn [fold_left]. unfold upd at 2. cbn [fst snd].
  destruct (j' =? j); [|reflexivity].
  destruct (fold_upd_max j st (Z.max 0 n)) as [E|E]; [|lia]. exact E.
Qed.

Section Iteration.
  Variables pw iw th : Z.
  Hypothesis Hpw : 1 <= pw <= iw.
  Hypothesis Hth : 1 <= th.

  (* column replication in row j: k = cur, cur+1, ... *)
  Lemma pads_ok j : 0 <= j < th -> forall n cur st,
    row_init st j = cur -> pw <= cur -> cur + Z.of_nat n <= iw ->
    exists st', tev_exec th iw st (map (fun k => TPad j k (cfp_pad_src pw)) (zseq cur n)) = Some st' /\
                row_init st' j = cur + Z.of_nat n /\ (forall j', j' <> j -> row_init st' j' = row_init st j').
  Proof.
    intros Hj. induction n as [|n IH]; intros cur st Hc Hp Hn; cbn [zseq map tev_exec].
    - exists st. split; [reflexivity|]. split; [lia|]. intros; reflexivity.
    - unfold tev_step, cfp_pad_src. rewrite Hc.
      assert (X : (0 <=? j) && (j <? th) && (0 <=? pw - 1) && (pw - 1 <? cur) && (cur =? cur) && (cur <? iw) = true) by lia.
      rewrite X.
      destruct (IH (cur + 1) ((j, cur + 1) :: st)) as (st' & E & R & O).
      + rewrite row_init_cons, Z.eqb_refl, Hc. lia.
      + lia.
      + lia.
      + exists st'. split; [exact E|]. split; [lia|].
        intros j' Hne. rewrite O by assumption. rewrite row_init_cons. assert (Y : j =? j' = false) by lia. rewrite Y. reflexivity.
  Qed.

  (* rows j0 .. j0+n-1: copy pw samples, replicate the last one up to iw *)
  Lemma copies_ok crow : forall n j0 st,
    0 <= j0 -> j0 + Z.of_nat n <= th -> (forall j, j0 <= j -> row_init st j = 0) ->
    exists st',
      tev_exec th iw st
        (flat_map (fun j => TCopy j (cfp_copy_src crow j) (cfp_copy_len pw)
                            :: map (fun k => TPad j k (cfp_pad_src pw)) (zseq (cfp_pad_from pw) (Z.to_nat (cfp_pad_to iw - cfp_pad_from pw))))
                  (zseq j0 n)) = Some st' /\
      (forall j, j0 <= j < j0 + Z.of_nat n -> row_init st' j = iw) /\
      (forall j, j < j0 -> row_init st' j = row_init st j) /\
      (forall j, j0 + Z.of_nat n <= j -> row_init st' j = 0).
  Proof.
    induction n as [|n IH]; intros j0 st H0 Hn Hz; cbn [zseq flat_map].
    - exists st. split; [reflexivity|]. split; [intros; lia|]. split; [intros; reflexivity|]. intros j Hj. apply Hz. lia.
    - rewrite <- app_comm_cons. cbn [tev_exec]. unfold tev_step at 1. unfold cfp_copy_len.
      assert (X : (0 <=? j0) && (j0 <? th) && (0 <=? pw) && (pw <=? iw) = true) by lia. rewrite X.
      rewrite tev_exec_app. unfold cfp_pad_from, cfp_pad_to.
      destruct (pads_ok j0 ltac:(lia) (Z.to_nat (iw - pw)) pw ((j0, pw) :: st)) as (st1 & E1 & R1 & O1).
      + rewrite row_init_cons, Z.eqb_refl. rewrite (Hz j0) by lia. lia.
      + lia.
      + lia.
      + rewrite E1.
        destruct (IH (j0 + 1) st1) as (st' & E & A & B & C).
        * lia.
        * lia.
        * intros j Hj. rewrite O1 by lia. rewrite row_init_cons. assert (Y : j0 =? j = false) by lia. rewrite Y. apply Hz. lia.
        * exists st'. split; [exact E|]. split; [|split].
          -- intros j Hj. destruct (Z.eq_dec j j0) as [->|Hne].
             ++ rewrite B by lia. rewrite R1. lia.
             ++ apply A. lia.
          -- intros j Hj. rewrite B by lia. rewrite O1 by lia. rewrite row_init_cons. assert (Y : j0 =? j = false) by lia. rewrite Y. reflexivity.
          -- intros j Hj. apply C. lia.
  Qed.

  (* row replication: rows j0 .. j0+n-1 receive a copy of row src, which is complete *)
  Lemma dups_ok src : 0 <= src < th -> forall n j0 st,
    0 <= j0 -> src < j0 -> j0 + Z.of_nat n <= th -> row_init st src = iw ->
    exists st', tev_exec th iw st (map (fun j => TDup j src (cfp_dup_len iw)) (zseq j0 n)) = Some st' /\
      (forall j, j0 <= j < j0 + Z.of_nat n -> iw <= row_init st' j) /\ (forall j, j < j0 -> row_init st' j = row_init st j).
  Proof.
    intros Hs. induction n as [|n IH]; intros j0 st H0 Hlt Hn Hsrc; cbn [zseq map tev_exec].
    - exists st. split; [reflexivity|]. split; [intros; lia|]. intros; reflexivity.
    - unfold tev_step, cfp_dup_len. rewrite Hsrc.
      assert (X : (0 <=? j0) && (j0 <? th) && ((0 <=? src) && (src <? th)) && (iw <=? iw) && (iw <=? iw) = true) by lia. rewrite X.
      destruct (IH (j0 + 1) ((j0, iw) :: st)) as (st' & E & A & B); try lia.
      + rewrite row_init_cons. assert (Y : j0 =? src = false) by lia. rewrite Y. exact Hsrc.
      + exists st'. split; [exact E|]. split.
        * intros j Hj. destruct (Z.eq_dec j j0) as [->|Hne].
          -- rewrite B by lia. rewrite row_init_cons, Z.eqb_refl. pose proof (row_init_nonneg st j0). lia.
          -- apply A. lia.
        * intros j Hj. rewrite B by lia. rewrite row_init_cons. assert (Y : j0 =? j = false) by lia. rewrite Y. reflexivity.
  Qed.

  (* the codec's reads *)
  Lemma libs_ok : forall n j0 st, 0 <= j0 -> j0 + Z.of_nat n <= th -> (forall j, 0 <= j < th -> iw <= row_init st j) ->
    tev_exec th iw st (map (fun j => TLib j iw) (zseq j0 n)) = Some st.
  Proof.
    induction n as [|n IH]; intros j0 st H0 Hn Hall; cbn [zseq map tev_exec]; [reflexivity|].
    unfold tev_step. pose proof (Hall j0 ltac:(lia)).
    assert (X : (0 <=? j0) && (j0 <? th) && (iw <=? row_init st j0) = true) by lia. rewrite X. apply IH; try lia. assumption.
  Qed.
End Iteration.

(* ---- one whole iteration ---- *)
Theorem cfp_iteration_checked pw ph iw ih th crow :
  1 <= pw <= iw -> 1 <= th -> 0 <= crow < ph -> cfp_iteration_ok pw ph iw ih th crow = true.
Proof.
  intros Hpw Hth Hc. unfold cfp_iteration_ok. rewrite tev_run_exec. unfold cfp_iteration. rewrite !tev_exec_app.
  set (n1 := cfp_copy_n th ph crow).
  assert (Hn1 : n1 = Z.min th (ph - crow)) by (subst n1; unfold cfp_copy_n; destruct (th <? ph - crow) eqn:E; lia).
  destruct (copies_ok pw iw th Hpw crow (Z.to_nat n1) 0 []) as (st1 & E1 & A1 & _ & C1); try lia.
  { intros j _. reflexivity. }
  rewrite E1. rewrite Z2Nat.id in A1, C1 by lia.
  unfold cfp_dup_from, cfp_dup_to.
  assert (P2 : exists st2, tev_exec th iw st1 (map (fun j => TDup j (cfp_dup_src ph crow) (cfp_dup_len iw))
                                               (zseq (ph - crow) (Z.to_nat (th - (ph - crow))))) = Some st2 /\
                           forall j, 0 <= j < th -> iw <= row_init st2 j).
  { destruct (Z_le_gt_dec th (ph - crow)) as [Hge|Hlt].
    - replace (Z.to_nat (th - (ph - crow))) with 0%nat by lia. exists st1. split; [reflexivity|].
      intros j Hj. rewrite A1 by lia. lia.
    - unfold cfp_dup_src.
      destruct (dups_ok iw th (ph - crow - 1) ltac:(lia) (Z.to_nat (th - (ph - crow))) (ph - crow) st1) as (st2 & E2 & A2 & B2); try lia.
      + apply A1. lia.
      + exists st2. split; [exact E2|]. intros j Hj.
        destruct (Z_lt_ge_dec j (ph - crow)).
        * rewrite B2 by lia. rewrite A1 by lia. lia.
        * apply A2. lia. }
  destruct P2 as (st2 & E2 & A2). rewrite tev_exec_app, E2.
  rewrite (libs_ok iw th) by (try assumption; lia). reflexivity.
Qed.

(* ---- for every image, level, component and iteration of tj3CompressFromYUVPlanes8 ---- *)
Definition cfp_events_statement : Prop :=
  forall i w h s row, valid_samp s -> 0 <= i < ncomp s -> valid_dim w -> valid_dim h ->
  0 <= row < h -> row mod (cfp_loopstep (comp_vsamp0 s)) = 0 ->
  cfp_iteration_ok (spec_pw i w s) (spec_ph i h s) (cfp_iw (lj_wib i w s)) (cfp_ih (lj_hib i h s)) (cfp_th (lj_vs i s))
                   (cfp_crow row (lj_vs i s) (comp_vsamp0 s)) = true.

Lemma cfp_events_proof : cfp_events_statement.
Proof.
  intros i w h s row Hs Hi Hw Hh Hrow Hmod.
  destruct (cfp_edge_proof i w h s row Hs Hi Hw Hh Hrow Hmod) as (F1 & _ & F3 & F4 & _).
  apply cfp_iteration_checked; [exact F1| |exact F3]. lia.
Qed.
