(* HuffGenProofs.v -- the Huffman merge loop of jpeg_gen_optimal_table
   (model/Huff.v merge_step / merge_loop / codesizes): invariant, termination
   within the fuel, and the Kraft equality of the resulting code sizes. *)
From Coq Require Import List ZArith Lia Bool Permutation Arith.
From LJT Require Import model.Huff proofs.HuffGenBase.
Import ListNotations.
Local Open Scope Z_scope.

(* depth budget: every code size stays below D, so 2^(D-c) is an exact weight *)
Definition D : Z := 300.
Definition pw (c : Z) : Z := 2 ^ (D - c).
Definition kw (ch : chain) : Z := sumZ (map (fun sc => pw (snd sc)) ch).

Lemma D_pos : 0 < D. Proof. reflexivity. Qed.
Lemma pw_pos c : c <= D -> 0 < pw c.
Proof. intros; unfold pw; apply Z.pow_pos_nonneg; lia. Qed.
Lemma pw_0 : pw 0 = 2 ^ D.
Proof. unfold pw. rewrite Z.sub_0_r. reflexivity. Qed.
Lemma pw_step c : c < D -> 2 * pw (c + 1) = pw c.
Proof.
  intros H. unfold pw. replace (D - c) with (Z.succ (D - (c + 1))) by lia.
  rewrite Z.pow_succ_r by lia. reflexivity.
Qed.

Lemma kw_app a b : kw (a ++ b) = kw a + kw b.
Proof. unfold kw. rewrite map_app, sumZ_app. reflexivity. Qed.

Lemma kw_bump ch : (forall sc, In sc ch -> snd sc < D) -> 2 * kw (bump ch) = kw ch.
Proof.
  unfold kw, bump. induction ch as [|[s c] t IH]; intros H; cbn [map sumZ fst snd]; [lia|].
  assert (Hc : c < D) by (apply (H (s, c)); left; reflexivity).
  pose proof (pw_step c Hc).
  assert (2 * sumZ (map (fun sc => pw (snd sc)) (map (fun sc => (fst sc, snd sc + 1)) t)) =
          sumZ (map (fun sc => pw (snd sc)) t)) by (apply IH; intros; apply H; right; assumption).
  lia.
Qed.

Lemma keys_bump ch : map fst (bump ch) = map fst ch.
Proof. unfold bump. rewrite map_map. apply map_ext. reflexivity. Qed.

Lemma In_bump sc ch : In sc (bump ch) -> exists sc0, In sc0 ch /\ sc = (fst sc0, snd sc0 + 1).
Proof.
  unfold bump. intros H. apply in_map_iff in H. destruct H as (sc0 & E & H).
  exists sc0. split; auto.
Qed.

(* ------------------------------------------------------------ invariant *)
Definition glive (f : Z) : Z := if f <=? SENT then f else 0.
Definition g1 (f : Z) : Z := if f <=? SENT then 1 else 0.

Definition slot_ok (f : Z) (ch : chain) : Prop :=
  (f = DEAD /\ ch = []) \/ (1 <= f <= SENT /\ kw ch = 2 ^ D).

Record MInv (n m : nat) (T : Z) (st : mstate) : Prop := {
  mi_lf : length (freq st) = n;
  mi_lc : length (chains st) = n;
  mi_slot : forall i, (i < n)%nat -> slot_ok (nthZ (freq st) i) (nth i (chains st) []);
  mi_sum : sumZ (map glive (freq st)) = T;
  mi_live : sumZ (map g1 (freq st)) = Z.of_nat n - Z.of_nat m;
  mi_m : (m < n)%nat;
  mi_perm : Permutation (map fst (concat (chains st))) (seq 0 n);
  mi_cs : forall sc, In sc (concat (chains st)) -> 0 <= snd sc <= Z.of_nat m }.

Lemma DEAD_gt : DEAD > SENT. Proof. reflexivity. Qed.

Lemma slot_live f ch : slot_ok f ch -> f <= SENT -> 1 <= f <= SENT /\ kw ch = 2 ^ D.
Proof. intros [[E _]|H] Hf; [pose proof DEAD_gt; lia|exact H]. Qed.

Lemma slot_dead f ch : slot_ok f ch -> f > SENT -> ch = [].
Proof. intros [[_ E]|[H _]] Hf; [exact E|lia]. Qed.

Lemma glive_nonneg n m T st x : MInv n m T st -> In x (freq st) -> 0 <= glive x.
Proof.
  intros I Hx. destruct (In_nth _ _ 0 Hx) as (i & Hi & E).
  rewrite (mi_lf _ _ _ _ I) in Hi.
  pose proof (mi_slot _ _ _ _ I i Hi) as S. unfold nthZ in S. rewrite E in S.
  unfold glive. destruct (x <=? SENT) eqn:L; [|lia]. apply Z.leb_le in L.
  destruct (slot_live _ _ S L). lia.
Qed.

Lemma g1_nonneg x : 0 <= g1 x.
Proof. unfold g1. destruct (x <=? SENT); lia. Qed.

Section Merge.
Variables (n : nat) (T : Z).
Hypothesis Hn : Z.of_nat n < D.
Hypothesis HT : T <= SENT.

Lemma merge_step_inv m st st' :
  MInv n m T st -> merge_step st = Some st' -> MInv n (S m) T st'.
Proof.
  intros I E. unfold merge_step in E.
  destruct (c1 (sel_scan (freq st) 0 sel0)) as [a|] eqn:E1; [|discriminate E].
  destruct (c2 (sel_scan (freq st) 0 sel0)) as [b|] eqn:E2; [|discriminate E].
  destruct (sel_some _ _ _ E1 E2) as (Ha & Hb & Hne & La & Lb).
  pose proof (mi_lf _ _ _ _ I) as Lf. pose proof (mi_lc _ _ _ _ I) as Lc.
  rewrite Lf in Ha, Hb.
  set (fa := nthZ (freq st) a) in *. set (fb := nthZ (freq st) b) in *.
  set (A := nth a (chains st) []) in *. set (B := nth b (chains st) []) in *.
  destruct (slot_live _ _ (mi_slot _ _ _ _ I a Ha) La) as [Fa KA].
  destruct (slot_live _ _ (mi_slot _ _ _ _ I b Hb) Lb) as [Fb KB].
  fold fa in Fa. fold fb in Fb. fold A in KA. fold B in KB.
  assert (Gab : glive fa + glive fb <= T).
  { rewrite <- (mi_sum _ _ _ _ I). apply sumZ_map_two_terms; try lia.
    intros x Hx. eapply glive_nonneg; eauto. }
  assert (Gfa : glive fa = fa) by (unfold glive; destruct (fa <=? SENT) eqn:?; lia).
  assert (Gfb : glive fb = fb) by (unfold glive; destruct (fb <=? SENT) eqn:?; lia).
  assert (Nab : g1 fa + g1 fb <= Z.of_nat n - Z.of_nat m).
  { rewrite <- (mi_live _ _ _ _ I). apply sumZ_map_two_terms; try lia.
    intros x _. apply g1_nonneg. }
  assert (G1a : g1 fa = 1) by (unfold g1; destruct (fa <=? SENT) eqn:?; lia).
  assert (G1b : g1 fb = 1) by (unfold g1; destruct (fb <=? SENT) eqn:?; lia).
  assert (Hm : (S m < n)%nat) by lia.
  assert (CA : forall sc, In sc A -> 0 <= snd sc <= Z.of_nat m).
  { intros sc Hsc. apply (mi_cs _ _ _ _ I). apply in_concat. exists A. split; [|exact Hsc].
    apply nth_In. lia. }
  assert (CB : forall sc, In sc B -> 0 <= snd sc <= Z.of_nat m).
  { intros sc Hsc. apply (mi_cs _ _ _ _ I). apply in_concat. exists B. split; [|exact Hsc].
    apply nth_In. lia. }
  injection E as <-.
  assert (Nb : nthZ (upd a (fa + fb) (freq st)) b = fb) by (apply nthZ_upd_ne; exact Hne).
  constructor; cbn [freq chains].
  - rewrite !upd_length. exact Lf.
  - rewrite !upd_length. exact Lc.
  - intros i Hi.
    destruct (Nat.eq_dec i b) as [->|Hib].
    + left. split.
      * apply nthZ_upd_eq. rewrite upd_length. lia.
      * apply nth_upd_eq. rewrite upd_length. lia.
    + rewrite nthZ_upd_ne by auto. rewrite (nth_upd_ne b i) by auto.
      destruct (Nat.eq_dec i a) as [->|Hia].
      * right. rewrite nthZ_upd_eq by lia. rewrite nth_upd_eq by lia.
        split; [lia|]. rewrite kw_app.
        assert (2 * kw (bump A) = kw A) by (apply kw_bump; intros sc Hsc; specialize (CA sc Hsc); lia).
        assert (2 * kw (bump B) = kw B) by (apply kw_bump; intros sc Hsc; specialize (CB sc Hsc); lia).
        lia.
      * rewrite nthZ_upd_ne by auto. rewrite (nth_upd_ne a i) by auto.
        apply (mi_slot _ _ _ _ I). exact Hi.
  - rewrite sumZ_map_upd by (rewrite upd_length; lia).
    rewrite sumZ_map_upd by lia. rewrite Nb. fold fa.
    rewrite (mi_sum _ _ _ _ I).
    assert (glive (fa + fb) = fa + fb) by (unfold glive; destruct (fa + fb <=? SENT) eqn:?; lia).
    assert (glive DEAD = 0) by reflexivity. lia.
  - rewrite sumZ_map_upd by (rewrite upd_length; lia).
    rewrite sumZ_map_upd by lia. rewrite Nb. fold fa.
    rewrite (mi_live _ _ _ _ I).
    assert (g1 (fa + fb) = 1) by (unfold g1; destruct (fa + fb <=? SENT) eqn:?; lia).
    assert (g1 DEAD = 0) by reflexivity. lia.
  - exact Hm.
  - rewrite concat_map, !map_upd, map_app, !keys_bump.
    rewrite <- (mi_perm _ _ _ _ I). rewrite (concat_map fst (chains st)).
    assert (EA : map fst A = nth a (map (map fst) (chains st)) []).
    { unfold A. exact (eq_sym (map_nth (map fst) (chains st) [] a)). }
    assert (EB : map fst B = nth b (map (map fst) (chains st)) []).
    { unfold B. exact (eq_sym (map_nth (map fst) (chains st) [] b)). }
    rewrite EA, EB. cbn [map].
    assert (Lc' : length (map (map fst) (chains st)) = n) by (rewrite map_length; exact Lc).
    apply concat_merge; rewrite ?Lc'; lia.
  - intros sc Hsc. apply in_concat in Hsc. destruct Hsc as (ch & Hch & Hsc).
    apply In_upd in Hch. destruct Hch as [->|Hch]; [destruct Hsc|].
    apply In_upd in Hch. destruct Hch as [->|Hch].
    + apply in_app_or in Hsc.
      destruct Hsc as [Hsc|Hsc]; apply In_bump in Hsc; destruct Hsc as (sc0 & H0 & ->); cbn [snd].
      * specialize (CA sc0 H0). lia.
      * specialize (CB sc0 H0). lia.
    + assert (0 <= snd sc <= Z.of_nat m); [|lia].
      apply (mi_cs _ _ _ _ I). apply in_concat. exists ch. split; assumption.
Qed.

Lemma merge_loop_spec : forall fuel st m,
  MInv n m T st -> Z.of_nat n - Z.of_nat m <= Z.of_nat fuel ->
  exists st' m', merge_loop fuel st = Some st' /\ MInv n m' T st' /\ merge_step st' = None.
Proof.
  induction fuel as [|k IH]; intros st m I Hf.
  - pose proof (mi_m _ _ _ _ I). lia.
  - cbn [merge_loop]. destruct (merge_step st) as [st1|] eqn:E.
    + apply (IH st1 (S m)); [apply merge_step_inv with (st := st); assumption|lia].
    + exists st, m. auto.
Qed.

(* ------------------------------------------------------------- read-out *)
Lemma lookup_In i ch : In i (map fst ch) -> In (i, lookup_cs i ch) ch.
Proof.
  induction ch as [|[s c] t IH]; intros H; [destruct H|].
  cbn [lookup_cs]. destruct (Nat.eqb s i) eqn:E.
  - apply Nat.eqb_eq in E. subst. left. reflexivity.
  - apply Nat.eqb_neq in E. right. apply IH. destruct H as [H|H]; [cbn in H; lia|exact H].
Qed.

Lemma lookup_keys ch : NoDup (map fst ch) ->
  map (fun i => lookup_cs i ch) (map fst ch) = map snd ch.
Proof.
  induction ch as [|[s c] t IH]; intros H; [reflexivity|].
  cbn [map fst snd] in *. inversion H as [|x l Hnin Hnd]; subst.
  cbn [lookup_cs]. rewrite Nat.eqb_refl. f_equal.
  rewrite <- IH by assumption. apply map_ext_in. intros i Hi.
  destruct (Nat.eqb s i) eqn:E; [|reflexivity].
  apply Nat.eqb_eq in E. subst. contradiction.
Qed.

Lemma codesizes_spec m st :
  MInv n m T st -> merge_step st = None ->
  let cs := codesizes n st in
  length cs = n /\ (forall c, In c cs -> 0 <= c <= Z.of_nat n - 1) /\ sumZ (map pw cs) = 2 ^ D.
Proof.
  clear Hn HT. intros I E cs.
  pose proof (mi_lf _ _ _ _ I) as Lf. pose proof (mi_lc _ _ _ _ I) as Lc.
  pose proof (mi_m _ _ _ _ I) as Hm.
  assert (Hex : exists a, forall j, (j < n)%nat -> j <> a -> nthZ (freq st) j > SENT).
  { rewrite <- Lf. apply sel_none. unfold merge_step in E.
    destruct (c1 (sel_scan (freq st) 0 sel0)); [|left; reflexivity].
    destruct (c2 (sel_scan (freq st) 0 sel0)); [discriminate E|right; reflexivity]. }
  destruct Hex as (a & Hdead).
  set (all := concat (chains st)) in *.
  assert (Eall : all = nth a (chains st) []).
  { apply concat_single. intros j Hj Hne. assert (Hj' : (j < n)%nat) by (rewrite <- Lc; exact Hj).
    apply (slot_dead _ _ (mi_slot _ _ _ _ I j Hj')). apply Hdead; assumption. }
  pose proof (mi_perm _ _ _ _ I) as P. fold all in P.
  assert (Ha : (a < n)%nat).
  { destruct (Nat.lt_ge_cases a n) as [H|H]; [exact H|].
    rewrite nth_overflow in Eall by lia. rewrite Eall in P. cbn in P.
    apply Permutation_length in P. rewrite seq_length in P. cbn in P. lia. }
  assert (Kall : kw all = 2 ^ D).
  { destruct (mi_slot _ _ _ _ I a Ha) as [[_ Enil]|[_ K]].
    - rewrite <- Eall in Enil. rewrite Enil in P. cbn in P.
      apply Permutation_length in P. rewrite seq_length in P. cbn in P. lia.
    - rewrite Eall. exact K. }
  assert (ND : NoDup (map fst all)).
  { apply Permutation_NoDup with (l := seq 0 n); [symmetry; exact P|apply seq_NoDup]. }
  unfold cs, codesizes. fold all.
  split; [rewrite map_length, seq_length; reflexivity|]. split.
  - intros c Hc. apply in_map_iff in Hc. destruct Hc as (i & <- & Hi).
    assert (Hk : In i (map fst all)) by (apply Permutation_in with (l := seq 0 n); [symmetry; exact P|exact Hi]).
    pose proof (mi_cs _ _ _ _ I _ (lookup_In i all Hk)) as Hb. cbn [snd] in Hb. lia.
  - rewrite map_map.
    rewrite <- (sumZ_map_perm (fun i => pw (lookup_cs i all)) _ _ P).
    rewrite <- (map_map (fun i => lookup_cs i all) pw).
    rewrite lookup_keys by exact ND. rewrite map_map. exact Kall.
Qed.

End Merge.

(* a Kraft-complete family with at least two members has no member of size 0 *)
Lemma kraft_no_zero cs :
  (2 <= length cs)%nat -> (forall c, In c cs -> 0 <= c < D) -> sumZ (map pw cs) = 2 ^ D ->
  forall c, In c cs -> 1 <= c.
Proof.
  intros Hl Hb Hs c Hc.
  destruct (In_nth _ _ 0 Hc) as (i & Hi & Ei).
  set (j := if Nat.eq_dec i 0 then 1%nat else 0%nat).
  assert (Hj : (j < length cs)%nat) by (unfold j; destruct (Nat.eq_dec i 0); lia).
  assert (Hij : i <> j) by (unfold j; destruct (Nat.eq_dec i 0); lia).
  assert (Hpos : forall x, In x cs -> 0 <= pw x).
  { intros x Hx. specialize (Hb x Hx). pose proof (pw_pos x). lia. }
  pose proof (sumZ_map_two_terms pw cs i j Hpos Hi Hj Hij) as H2.
  rewrite Hs in H2. unfold nthZ in H2. rewrite Ei in H2.
  assert (Hcj : In (nth j cs 0) cs) by (apply nth_In; exact Hj).
  assert (Hpj : 0 < pw (nth j cs 0)) by (apply pw_pos; specialize (Hb _ Hcj); lia).
  destruct (Z.eq_dec c 0) as [->|Hc0]; [rewrite pw_0 in H2; lia|].
  specialize (Hb c Hc). lia.
Qed.

(* ------------------------------------------------- nz_scan / initial state *)
Lemma nz_scan_app a b i :
  nz_scan (a ++ b) i = nz_scan a i ++ nz_scan b (i + Z.of_nat (length a)).
Proof.
  revert i; induction a as [|f t IH]; intros i; cbn [nz_scan app length].
  - f_equal. lia.
  - rewrite IH. replace (i + 1 + Z.of_nat (length t)) with (i + Z.of_nat (S (length t))) by lia.
    destruct (f =? 0); reflexivity.
Qed.

Lemma nz_scan_snd l i f : In f (map snd (nz_scan l i)) -> In f l /\ f <> 0.
Proof.
  revert i; induction l as [|h t IH]; intros i H; cbn [nz_scan] in H; [destruct H|].
  destruct (h =? 0) eqn:E.
  - destruct (IH _ H). split; [right|]; assumption.
  - apply Z.eqb_neq in E. destruct H as [H|H].
    + cbn in H. subst. split; [left; reflexivity|exact E].
    + destruct (IH _ H). split; [right|]; assumption.
Qed.

Lemma nz_scan_sum l i : sumZ (map snd (nz_scan l i)) = sumZ l.
Proof.
  revert i; induction l as [|h t IH]; intros i; cbn [nz_scan]; [reflexivity|].
  destruct (h =? 0) eqn:E; cbn [map snd sumZ]; rewrite IH; [apply Z.eqb_eq in E|]; lia.
Qed.

Lemma nz_scan_fst l i k : In k (map fst (nz_scan l i)) -> i <= k < i + Z.of_nat (length l).
Proof.
  revert i; induction l as [|h t IH]; intros i H; cbn [nz_scan] in H; [destruct H|].
  cbn [length]. destruct (h =? 0).
  - specialize (IH _ H). lia.
  - destruct H as [H|H]; [cbn in H; lia|]. specialize (IH _ H). lia.
Qed.

Lemma nz_scan_NoDup l i : NoDup (map fst (nz_scan l i)).
Proof.
  revert i; induction l as [|h t IH]; intros i; cbn [nz_scan]; [constructor|].
  destruct (h =? 0); [apply IH|]. cbn [map fst]. constructor; [|apply IH].
  intros H. apply nz_scan_fst in H. lia.
Qed.

Lemma init_chains_length n i : length (init_chains n i) = n.
Proof. revert i; induction n as [|k IH]; intros i; cbn; auto. Qed.

Lemma init_chains_nth n : forall i j, (j < n)%nat -> nth j (init_chains n i) [] = [((i + j)%nat, 0)].
Proof.
  induction n as [|k IH]; intros i j H; [lia|]. cbn [init_chains].
  destruct j as [|j]; cbn [nth]; [rewrite Nat.add_0_r; reflexivity|].
  rewrite IH by lia. do 2 f_equal. lia.
Qed.

Lemma init_chains_keys n : forall i, map fst (concat (init_chains n i)) = seq i n.
Proof.
  induction n as [|k IH]; intros i; [reflexivity|].
  cbn [init_chains concat app map fst seq]. rewrite IH. reflexivity.
Qed.

Lemma init_chains_cs n : forall i sc, In sc (concat (init_chains n i)) -> snd sc = 0.
Proof.
  induction n as [|k IH]; intros i sc H; [destruct H|].
  cbn [init_chains concat app] in H. destruct H as [<-|H]; [reflexivity|]. eapply IH; eauto.
Qed.

Lemma sumZ_g1_all l : (forall x, In x l -> x <= SENT) -> sumZ (map g1 l) = Z.of_nat (length l).
Proof.
  induction l as [|h t IH]; intros H; [reflexivity|]. cbn [map sumZ length].
  rewrite IH by (intros; apply H; right; assumption).
  assert (h <= SENT) by (apply H; left; reflexivity).
  unfold g1. destruct (h <=? SENT) eqn:?; lia.
Qed.

Lemma init_MInv fs :
  fs <> [] -> (forall f, In f fs -> 1 <= f) -> sumZ fs <= SENT ->
  MInv (length fs) 0 (sumZ fs) {| freq := fs; chains := init_chains (length fs) 0 |}.
Proof.
  intros Hne Hpos Hsum.
  assert (Hle : forall f, In f fs -> f <= SENT).
  { intros f Hf. destruct (In_nth _ _ 0 Hf) as (i & Hi & <-).
    pose proof (sumZ_term fs i ltac:(intros x Hx; specialize (Hpos x Hx); lia)) as H.
    unfold nthZ in H. lia. }
  constructor; cbn [freq chains].
  - reflexivity.
  - apply init_chains_length.
  - intros i Hi. right. split.
    + pose proof (nth_In_Z fs i Hi) as H. split; [apply Hpos|apply Hle]; exact H.
    + rewrite init_chains_nth by exact Hi. unfold kw. cbn [map snd sumZ]. rewrite pw_0. lia.
  - rewrite <- (map_id fs) at 2. apply sumZ_map_ext_in. intros x Hx.
    specialize (Hle x Hx). unfold glive. destruct (x <=? SENT) eqn:?; lia.
  - rewrite sumZ_g1_all by exact Hle. lia.
  - destruct fs; [contradiction|cbn; lia].
  - rewrite init_chains_keys. reflexivity.
  - intros sc H. rewrite (init_chains_cs _ _ _ H). lia.
Qed.

(* ----------------------------------------------------- gen_codesizes spec *)
Definition hist_ok (a : list Z) : Prop :=
  (forall f, In f a -> 0 <= f) /\ sumZ a + 1 <= SENT /\ (length (nz_scan a 0) <= 254)%nat.

Lemma nz_scan_pseudo a :
  nz_scan (a ++ [1]) 0 = nz_scan a 0 ++ [(Z.of_nat (length a), 1)].
Proof. rewrite nz_scan_app. cbn [nz_scan]. reflexivity. Qed.

Lemma gen_codesizes_spec freq256 :
  hist_ok (firstn 256 freq256) ->
  let a := firstn 256 freq256 in
  let syms := map fst (nz_scan a 0) in
  let n := S (length syms) in
  exists cs,
    gen_codesizes freq256 = inr (syms ++ [Z.of_nat (length a)], cs) /\
    length cs = n /\ (forall c, In c cs -> 0 <= c <= Z.of_nat n - 1) /\
    sumZ (map pw cs) = 2 ^ D /\
    ((2 <= n)%nat -> forall c, In c cs -> 1 <= c).
Proof.
  intros (Hnn & Hsum & Hcnt) a syms n. fold a in Hnn, Hsum, Hcnt.
  unfold gen_codesizes. change PSEUDO_SYM with 256%nat. change PSEUDO_COUNT with 1.
  fold a. rewrite nz_scan_pseudo.
  set (nzs := nz_scan a 0 ++ [(Z.of_nat (length a), 1)]).
  assert (Ln : length nzs = n).
  { unfold nzs, n, syms. rewrite app_length, map_length. cbn. lia. }
  assert (Lm : length (map snd nzs) = n) by (rewrite map_length; exact Ln).
  rewrite Ln.
  assert (Hfs : forall f, In f (map snd nzs) -> 1 <= f).
  { intros f Hf. unfold nzs in Hf. rewrite map_app in Hf. apply in_app_or in Hf.
    destruct Hf as [Hf|Hf].
    - apply nz_scan_snd in Hf. destruct Hf as [Hf Hz]. specialize (Hnn f Hf). lia.
    - cbn in Hf. destruct Hf as [<-|[]]. lia. }
  assert (Hs : sumZ (map snd nzs) = sumZ a + 1).
  { unfold nzs. rewrite map_app, sumZ_app, nz_scan_sum. cbn. lia. }
  assert (Hne : map snd nzs <> []).
  { intros E. rewrite E in Lm. cbn in Lm. unfold n in Lm. lia. }
  pose proof (init_MInv (map snd nzs) Hne Hfs ltac:(lia)) as I0. rewrite Lm in I0.
  assert (HnD : Z.of_nat n < D).
  { unfold n, syms. rewrite map_length. unfold D. lia. }
  assert (HT : sumZ (map snd nzs) <= SENT) by lia.
  destruct (merge_loop_spec n (sumZ (map snd nzs)) HnD HT n _ 0%nat I0 ltac:(lia))
    as (st' & m' & EL & I' & EN).
  rewrite EL. exists (codesizes n st').
  destruct (codesizes_spec n _ m' st' I' EN) as (L & B & K).
  split.
  { f_equal. f_equal. unfold nzs, syms. rewrite map_app. reflexivity. }
  split; [exact L|]. split; [exact B|]. split; [exact K|].
  intros H2. apply kraft_no_zero; [rewrite L; exact H2| |exact K].
  intros c Hc. specialize (B c Hc). lia.
Qed.
