(* C15 -- every TurboJPEG function that can emit JPEG bytes installs the caller's destination buffer first (over the
   generated call trees, re-proved every run). *)
From Coq Require Import List ZArith Bool Arith String.
From LJT Require Import model.Globals model.DestFlow gen.GenGlobals.
Import ListNotations.
Local Open Scope string_scope.

Definition expected_emitters : list string :=
  ["tj3Compress12"; "tj3Compress16"; "tj3Compress8"; "tj3CompressFromYUVPlanes8"; "tj3CompressFromYUV8"; "tj3Transform";
   "tjCompress2"; "tjCompress"; "tjCompressFromYUV"; "tjCompressFromYUVPlanes"; "tjTransform"].

Lemma dest_check : chk_all [] emit_trees = true.
Proof. vm_compute. reflexivity. Qed.

Lemma emitters_check : list_eqb String.eqb (map fst emit_trees) expected_emitters = true.
Proof. vm_compute. reflexivity. Qed.

(* sanity of the checker itself: emitting first, or installing the buffer only under an unrelated condition, is rejected *)
Lemma chk_rejects :
  chk [] (false, []) (NSeq [NCall 2; NCall 1]) = None /\
  chk [] (false, []) (NSeq [NIf 1 [NCall 1]; NIf 2 [NCall 2]]) = None /\
  chk [] (false, []) (NLoop (NSeq [NIf 1 [NCall 2]; NIf 1 [NCall 1]])) = None /\
  chk [] (false, []) (NSeq [NLoop (NIf 1 [NCall 1]); NIf 1 [NCall 2]]) = None /\
  chk [] (false, []) (NCallF "helper") = None /\
  chk [] (false, []) (NSeq [NIf 1 [NCall 1]; NIf 1 [NCall 2]]) <> None.
Proof. vm_compute. repeat split; try reflexivity. discriminate. Qed.

Theorem dest_before_emit_proof :
  chk_all [] emit_trees = true /\ map fst emit_trees = expected_emitters.
Proof.
  split; [exact dest_check|].
  pose proof emitters_check as H.
  assert (G : forall a b, list_eqb String.eqb a b = true -> a = b).
  { induction a as [|x a IH]; destruct b as [|y b]; cbn [list_eqb]; intros E; try discriminate; auto.
    apply andb_true_iff in E. destruct E as [E1 E2]. apply String.eqb_eq in E1. rewrite E1, (IH b E2). reflexivity. }
  apply G. exact H.
Qed.

(* ---- soundness of chk: if the static check accepts a tree, every execution (any branch choices consistent with the
   identified conditions, any number of loop iterations, stopping anywhere) emits only after the buffer was installed *)
Definition valid (s : cstate) (rho : nat -> bool) (d : bool) : Prop :=
  (fst s = true -> d = true) /\ (forall g, In g (snd s) -> g <> 0 -> rho g = true -> d = true).

Lemma valid_mono s rho d d' : valid s rho d -> (d = true -> d' = true) -> valid s rho d'.
Proof. intros [H1 H2] H. split; [intros E; apply H, H1, E | intros g Hg Hn Hr; apply H; apply (H2 g Hg Hn Hr)]. Qed.

Lemma tsafe_app d t1 t2 : tsafe d (t1 ++ t2) = tsafe d t1 && tsafe (after d t1) t2.
Proof.
  revert d. induction t1 as [|c r IH]; intros d.
  - unfold after. cbn. rewrite orb_false_r. reflexivity.
  - cbn [app tsafe]. unfold after. cbn [existsb]. destruct (Nat.eqb c 2) eqn:E2.
    + rewrite IH. unfold after. apply Nat.eqb_eq in E2. subst. cbn. rewrite andb_assoc. reflexivity.
    + rewrite IH. unfold after. rewrite (Nat.eqb_sym 1 c). rewrite orb_assoc. reflexivity.
Qed.

Lemma after_app d t1 t2 : after (after d t1) t2 = after d (t1 ++ t2).
Proof. unfold after. rewrite existsb_app, orb_assoc. reflexivity. Qed.

Lemma after_ge d t : d = true -> after d t = true.
Proof. intros ->. reflexivity. Qed.

Fixpoint chk_list (safe : list string) (s : cstate) (l : list node) : option cstate :=
  match l with
  | [] => Some s
  | n :: r => match chk safe s n with Some s' => chk_list safe s' r | None => None end
  end.

Lemma chk_seq safe s l : chk safe s (NSeq l) = chk_list safe s l.
Proof. revert s. induction l as [|n r IH]; intros s; [reflexivity|]. cbn [chk chk_list]. destruct (chk safe s n); [apply IH | reflexivity]. Qed.

Theorem chk_sound safe : forall rho n t b, exec safe rho n t b ->
  forall s s' d, chk safe s n = Some s' -> valid s rho d ->
    tsafe d t = true /\ (b = true -> valid s' rho (after d t)).
Proof.
  induction 1; intros s s' d Hc Hv.
  - split; [reflexivity | discriminate].
  - (* NCall *) destruct Hv as [Hv1 Hv2].
    destruct c as [|[|[|c]]]; cbn in Hc |- *.
    + inversion Hc; subst. unfold after; cbn. rewrite ?orb_false_r. split; [reflexivity|]. intros _. split; assumption.
    + inversion Hc; subst. unfold after; cbn. rewrite ?orb_true_r. split; [reflexivity|]. intros _. split; auto.
    + destruct (fst s) eqn:Ef; [|discriminate]. inversion Hc; subst. rewrite (Hv1 eq_refl). unfold after; cbn.
      split; [reflexivity|]. intros _. split; auto.
    + inversion Hc; subst. unfold after; cbn. rewrite ?orb_false_r. split; [reflexivity|]. intros _. split; assumption.
  - (* NCallF *) cbn [chk] in Hc. unfold callf_event. cbn [tsafe]. unfold after. cbn [existsb].
    destruct (existsb (String.eqb f) safe) eqn:Es.
    + inversion Hc; subst. cbn. rewrite ?orb_false_r. split; [reflexivity|]. intros _. rewrite ?orb_false_r. exact Hv.
    + destruct (fst s) eqn:Ef; [|discriminate]. inversion Hc; subst. destruct Hv as [Hv1 Hv2]. rewrite (Hv1 Ef). cbn.
      split; [reflexivity|]. intros _. split; auto.
  - (* NSeq [] *) cbn in Hc. inversion Hc; subst. split; [reflexivity|]. intros _. unfold after. cbn. rewrite ?orb_false_r. exact Hv.
  - (* cons *) rewrite chk_seq in Hc. cbn [chk_list] in Hc. destruct (chk safe s n) as [s1|] eqn:E1; [|discriminate].
    rewrite <- chk_seq in Hc.
    destruct (IHexec1 s s1 d E1 Hv) as [T1 V1]. specialize (V1 eq_refl).
    destruct (IHexec2 s1 s' (after d t1) Hc V1) as [T2 V2].
    rewrite tsafe_app, T1, T2. split; [reflexivity|]. intros Hb. rewrite <- after_app. apply V2. exact Hb.
  - (* abort *) rewrite chk_seq in Hc. cbn [chk_list] in Hc. destruct (chk safe s n) as [s1|] eqn:E1; [|discriminate].
    destruct (IHexec s s1 d E1 Hv) as [T1 _]. split; [exact T1 | discriminate].
  - (* if [] *) cbn in Hc. inversion Hc; subst. split; [reflexivity|]. intros _. unfold after. cbn. rewrite ?orb_false_r. exact Hv.
  - (* then *) cbn [chk] in Hc.
    set (known := negb (Nat.eqb g 0) && existsb (Nat.eqb g) (snd s)) in Hc.
    destruct (chk safe (fst s || known, snd s) th) as [st|] eqn:Et; [|discriminate].
    destruct (forallb _ rest); [|discriminate]. inversion Hc; subst s'. clear Hc.
    assert (Hv' : valid (fst s || known, snd s) rho d).
    { destruct Hv as [Hv1 Hv2]. split; [|exact Hv2]. cbn [fst]. intros E. apply orb_true_iff in E. destruct E as [E|E]; [apply Hv1, E|].
      unfold known in E. apply andb_true_iff in E. destruct E as [Eg Ein]. apply negb_true_iff, Nat.eqb_neq in Eg.
      rewrite existsb_exists in Ein. destruct Ein as [x [Hx Hxe]]. apply Nat.eqb_eq in Hxe. subst x.
      apply (Hv2 g Hx Eg). apply H. exact Eg. }
    destruct (IHexec _ _ d Et Hv') as [T V]. split; [exact T|]. intros Hb. specialize (V Hb).
    destruct Hv as [Hv1 Hv2]. split; cbn [fst snd].
    + intros E. apply after_ge. apply Hv1, E.
    + intros g' Hg' Hn Hr. destruct (negb (Nat.eqb g 0) && fst st) eqn:Eg.
      * destruct Hg' as [<-|Hg']; [|apply after_ge; apply (Hv2 g' Hg' Hn Hr)].
        apply andb_true_iff in Eg. destruct Eg as [_ Est]. destruct V as [V1 _]. apply V1. exact Est.
      * apply after_ge. apply (Hv2 g' Hg' Hn Hr).
  - (* else *) cbn [chk] in Hc.
    destruct (chk safe _ th) as [st|] eqn:Et; [|discriminate].
    destruct (forallb _ rest) eqn:Ef; [|discriminate]. inversion Hc; subst s'. clear Hc.
    rewrite forallb_forall in Ef. specialize (Ef n H0). destruct (chk safe s n) as [sn|] eqn:En; [|discriminate].
    destruct (IHexec _ _ d En Hv) as [T V]. split; [exact T|]. intros _.
    destruct Hv as [Hv1 Hv2]. split; cbn [fst snd].
    + intros E. apply after_ge. apply Hv1, E.
    + intros g' Hg' Hn Hr. destruct (negb (Nat.eqb g 0) && fst st) eqn:Eg.
      * destruct Hg' as [<-|Hg']; [|apply after_ge; apply (Hv2 g' Hg' Hn Hr)].
        rewrite (H Hn) in Hr. discriminate.
      * apply after_ge. apply (Hv2 g' Hg' Hn Hr).
  - (* skip *) cbn [chk] in Hc.
    destruct (chk safe _ th) as [st|] eqn:Et; [|discriminate].
    destruct (forallb _ rest); [|discriminate]. inversion Hc; subst s'. clear Hc.
    split; [reflexivity|]. intros _. unfold after. cbn [existsb]. rewrite ?orb_false_r.
    destruct Hv as [Hv1 Hv2]. split; cbn [fst snd]; [exact Hv1|].
    intros g' Hg' Hn Hr. destruct (negb (Nat.eqb g 0) && fst st) eqn:Eg.
    + destruct Hg' as [<-|Hg']; [|apply (Hv2 g' Hg' Hn Hr)]. rewrite (H Hn) in Hr. discriminate.
    + apply (Hv2 g' Hg' Hn Hr).
  - (* loop0 *) cbn [chk] in Hc. destruct (chk safe (fst s, []) b); [|discriminate]. inversion Hc; subst.
    split; [reflexivity|]. intros _. unfold after. cbn. rewrite ?orb_false_r. exact Hv.
  - (* loop iter *) pose proof Hc as Hc0. cbn [chk] in Hc. destruct (chk safe (fst s, []) b) as [sb|] eqn:Eb; [|discriminate].
    inversion Hc; subst s'. clear Hc.
    assert (Hv0 : valid (fst s, []) rho' d) by (destruct Hv as [Hv1 _]; split; [exact Hv1 | intros g []]).
    destruct (IHexec1 _ _ d Eb Hv0) as [T1 _].
    assert (Hv1 : valid s rho (after d t1)) by (apply (valid_mono s rho d); [exact Hv | apply after_ge]).
    destruct (IHexec2 s s (after d t1) Hc0 Hv1) as [T2 V2].
    rewrite tsafe_app, T1, T2. split; [reflexivity|]. intros Hb. rewrite <- after_app. apply V2, Hb.
  - (* loop abort *) cbn [chk] in Hc. destruct (chk safe (fst s, []) b) as [sb|] eqn:Eb; [|discriminate].
    assert (Hv0 : valid (fst s, []) rho' d) by (destruct Hv as [Hv1 _]; split; [exact Hv1 | intros g []]).
    destruct (IHexec _ _ d Eb Hv0) as [T1 _]. split; [exact T1 | discriminate].
Qed.

(* corollary for a whole function: started with the dummy destination still installed (d = false), every execution of an
   accepted tree is safe *)
Corollary chk_function_safe safe n s' : chk safe (false, []) n = Some s' ->
  forall rho t b, exec safe rho n t b -> tsafe false t = true.
Proof.
  intros Hc rho t b Hx. apply (chk_sound safe rho n t b Hx (false, []) s' false Hc).
  split; [discriminate | intros g []].
Qed.
