(* TjProofs.v -- C16: the subsampling level reported by getSubsamp is the one setCompDefaults
   used, for every level and every colourspace/component count TurboJPEG produces (finite
   domain, decided by computation on the tables generated from turbojpeg.h). *)
From Coq Require Import List ZArith Bool Lia.
From LJT Require Import lib.Sweep gen.GenIccConst model.MarkerRT model.TjHeader.
Import ListNotations.
Local Open Scope Z_scope.

Definition color_cases : list (cspace * nat) := [(CS_YCbCr, 3%nat); (CS_RGB, 3%nat); (CS_CMYK, 4%nat); (CS_YCCK, 4%nat)].

Definition subsamp_check (level : Z) : bool :=
  (get_subsamp CS_GRAY (tj_factors level 1) =? TJSAMP_GRAY) &&
  forallb (fun cn => get_subsamp (fst cn) (tj_factors level (snd cn)) =? (if level =? TJSAMP_GRAY then TJSAMP_444 else level)) color_cases.

Lemma subsamp_sweep : sweep subsamp_check 0 TJ_NUMSAMP = true.
Proof. vm_compute. reflexivity. Qed.

(* T1-finite: 7 levels x {gray, YCbCr, RGB, CMYK, YCCK}.  TJSAMP_GRAY with a colour JPEG colourspace
   means 1x1 factors and is reported as 4:4:4. *)
Theorem subsamp_roundtrip level : 0 <= level < TJ_NUMSAMP ->
  get_subsamp CS_GRAY (tj_factors level 1) = TJSAMP_GRAY /\
  forall cs n, In (cs, n) color_cases ->
    get_subsamp cs (tj_factors level n) = if level =? TJSAMP_GRAY then TJSAMP_444 else level.
Proof.
  intros H. pose proof (sweep_sound _ _ _ subsamp_sweep level H) as C. unfold subsamp_check in C.
  apply andb_true_iff in C as (C1 & C2). split; [apply Z.eqb_eq; assumption|].
  intros cs n Hin. rewrite forallb_forall in C2. specialize (C2 _ Hin). apply Z.eqb_eq. exact C2.
Qed.
