(* C13: the growth arithmetic of empty_mem_output_buffer (both managers).
   (a) the cursor (next_output_byte, free_in_buffer) stays inside the current allocation after every
       producer step: offset + free = bufsize <= size of the live block at the buffer;
   (b) bufsize <= max(initial capacity, 2 * bytes stored so far): `nextsize = bufsize * 2` is only ever
       computed when the buffer is full, so it never exceeds twice the output produced so far and the
       size_t product cannot wrap while the output is below 2^63 bytes. *)
From Coq Require Import List ZArith Bool Lia.
From LJT Require Import gen.GenDest model.Dest proofs.DestProofs proofs.DestChunk.
Import ListNotations.
Local Open Scope Z_scope.

(* ---- (a) *)
Definition cursor_inside (h : heap) (d : dest) : Prop :=
  exists b, blk h (d_next_base d) = Some b /\ b_freed b = false /\ d_next_base d = d_buffer d /\
    0 <= d_next_off d /\ 0 <= d_free d /\ d_next_off d + d_free d = d_bufsize d /\ d_bufsize d <= b_size b.

Lemma Jg_cursor h cur buf d wr : Jg h cur buf d wr -> cursor_inside h d.
Proof.
  intros HG. pose proof HG as (_ & _ & _ & Hbase & Hfr & Hoff & _).
  destruct (Jg_block _ _ _ _ _ HG) as (b & Hb & Hl & _ & H0 & Hroom).
  exists b. repeat split; try assumption; lia.
Qed.

Theorem cursor_inside_all m ops w d wr : J (w_heap w) (w_cur w) (w_buf w) d wr -> forallb chunk_ok ops = true ->
  match run_ops m ops w d with (w', d', _) => cursor_inside (w_heap w') d' end.
Proof.
  intros HJ Hc. pose proof (run_ops_ok m ops w d wr HJ Hc) as R.
  destruct (run_ops m ops w d) as [[w' d'] st]. destruct R as (_ & R). destruct st.
  - destruct R as ((HG & _) & _). eapply Jg_cursor; exact HG.
  - destruct R as ((wr' & HG) & _). eapply Jg_cursor; exact HG.
  - destruct R as ((wr' & HG) & _). eapply Jg_cursor; exact HG.
  - destruct R as ((wr' & HG) & _). eapply Jg_cursor; exact HG.
Qed.

(* ---- (b) *)
Definition GB (cap0 : Z) (d : dest) : Prop :=
  0 <= d_free d /\ 0 <= d_bufsize d /\ 0 <= d_next_off d /\ d_bufsize d <= Z.max cap0 (2 * d_next_off d).

Lemma empty_gb m cap0 w d : GB cap0 d -> match empty_output_buffer m w d with (_, d', _) => GB cap0 d' end.
Proof.
  intros (A & B & C & D). unfold empty_output_buffer. destruct (d_alloc d); cbn [negb]; [|repeat split; assumption].
  destruct (h_malloc _ _ _ _) as [h1 nb]. rewrite growth_2. unfold GB. cbn [d_free d_bufsize d_next_off]. lia.
Qed.

Lemma sub_size_t_nonneg a b : 0 <= a -> 0 <= b < SIZE_T_MOD -> 0 <= sub_size_t a b.
Proof. intros Ha Hb. unfold sub_size_t. destruct (b <=? a) eqn:E; [apply Z.leb_le in E|apply Z.leb_gt in E]; lia. Qed.

Lemma put_byte_gb m cap0 x w d : GB cap0 d -> match put_byte m x w d with (_, d', _) => GB cap0 d' end.
Proof.
  intros (A & B & C & D). unfold put_byte.
  set (d1 := mkD _ _ _ _ _ _ _).
  assert (G1 : GB cap0 d1).
  { unfold GB, d1. cbn [d_free d_bufsize d_next_off]. pose proof (sub_size_t_nonneg (d_free d) 1 A ltac:(unfold SIZE_T_MOD; lia)). lia. }
  destruct (sub_size_t (d_free d) 1 =? 0); [|exact G1]. apply empty_gb. exact G1.
Qed.

Lemma store_local_gb m cap0 : forall fuel xs w d, GB cap0 d -> match store_local fuel m xs w d with (_, d', _) => GB cap0 d' end.
Proof.
  induction fuel as [|f IH]; intros xs w d G; destruct xs as [|x0 xs']; cbn [store_local]; try exact G.
  set (xs := x0 :: xs'). set (n := Z.min _ _). set (h1 := h_write_list _ _ _ _). set (d1 := mkD _ _ _ _ _ _ _).
  assert (G1 : GB cap0 d1).
  { destruct G as (A & B & C & D). unfold GB, d1, n. cbn [d_free d_bufsize d_next_off]. lia. }
  destruct (d_free d1 =? 0).
  - pose proof (empty_gb m cap0 (set_heap h1 w) d1 G1) as HE.
    destruct (empty_output_buffer m (set_heap h1 w) d1) as [[w2 d2] [st|]]; [exact HE|]. apply IH. exact HE.
  - apply IH. exact G1.
Qed.

Lemma run_ops_gb m cap0 : forall ops w d, GB cap0 d -> forallb chunk_ok ops = true ->
  match run_ops m ops w d with (_, d', _) => GB cap0 d' end.
Proof.
  induction ops as [|o t IH]; intros w d G Hc; cbn [run_ops]; [exact G|].
  cbn [forallb] in Hc. apply andb_true_iff in Hc as (Hc1 & Hc2).
  assert (S1 : match run_op m o w d with (_, d1, _) => GB cap0 d1 end).
  { destruct o as [x|xs|]; cbn [run_op].
    - apply put_byte_gb. exact G.
    - unfold put_chunk. destruct (d_free d <? huff_local_bufsize); [apply store_local_gb; exact G|].
      cbn [chunk_ok] in Hc1. apply Z.ltb_lt in Hc1. destruct G as (A & B & C & D).
      unfold GB. cbn [d_free d_bufsize d_next_off].
      pose proof (sub_size_t_nonneg (d_free d) (Z.of_nat (length xs)) A
                    ltac:(unfold SIZE_T_MOD; change huff_local_bufsize with 512 in Hc1; lia)). lia.
    - exact G. }
  destruct (run_op m o w d) as [[w1 d1] [st|]]; [exact S1|]. apply IH; assumption.
Qed.

(* capacity after any producer from a freshly armed destination (offset 0, free = bufsize = cap0) *)
Theorem growth_bounded_all m ops w d : d_next_off d = 0 -> 0 <= d_free d -> 0 <= d_bufsize d ->
  forallb chunk_ok ops = true ->
  match run_ops m ops w d with
  | (_, d', _) => d_bufsize d' <= Z.max (d_bufsize d) (2 * d_next_off d') /\ 0 <= d_next_off d'
  end.
Proof.
  intros H0 Hf Hb Hc.
  pose proof (run_ops_gb m (d_bufsize d) ops w d ltac:(unfold GB; lia) Hc) as H.
  destruct (run_ops m ops w d) as [[w' d'] st]. destruct H as (_ & _ & A & B). split; assumption.
Qed.

(* hence `bufsize * 2` never wraps as long as the caller's capacity and the output stay below 2^63 *)
Corollary doubling_never_wraps m ops w d : d_next_off d = 0 -> 0 <= d_free d -> 0 <= d_bufsize d < 2 ^ 63 ->
  forallb chunk_ok ops = true ->
  match run_ops m ops w d with
  | (_, d', _) => d_next_off d' < 2 ^ 62 -> d_bufsize d' * growth m < SIZE_T_MOD
  end.
Proof.
  intros H0 Hf Hb Hc. pose proof (growth_bounded_all m ops w d H0 Hf (proj1 Hb) Hc) as H.
  destruct (run_ops m ops w d) as [[w' d'] st]. destruct H as (A & B). intros Hn. rewrite growth_2.
  unfold SIZE_T_MOD. change (2 ^ 64) with (2 * 2 ^ 63). change (2 ^ 63) with (2 * 2 ^ 62) in *. lia.
Qed.

(* ---- jpeg_mem_dest[_tj] arms the destination inside the buffer, after every history *)
Theorem armed_invariant c hs alloc : good_cfg c ->
  w_ok (run c hs) = true -> forallb hop_chunks_ok hs = true ->
  let w := run c hs in
  pass_ok c alloc w = true -> zero_reuse c alloc w = false ->
  match mem_dest c alloc (set_cur (w_buf w) w) with
  | (w1, None) => exists d1, w_dest w1 = Some d1 /\ J (w_heap w1) (w_cur w1) (w_buf w1) d1 [] /\
                    d_next_off d1 = 0 /\ d_free d1 = d_bufsize d1 /\ cursor_inside (w_heap w1) d1
  | (w1, Some st) => st = StBufSize /\ eff_alloc c alloc = false
  end.
Proof.
  intros G Hok Hch w Hp Hz. pose proof G as (Hrb & G').
  pose proof (hist_ok c G hs world0 Inv0 Hok Hch) as HI. fold w in HI.
  set (w0 := set_cur (w_buf w) w).
  destruct (cf_mgr c) eqn:Hm.
  - assert (Hclr : cf_clr c = true) by (destruct G' as [H|H]; [congruence|exact H]).
    pose proof (mem_dest_tj_ok c alloc w0 Hm Hclr Hrb HI eq_refl Hp Hz) as H.
    destruct (mem_dest c alloc w0) as [w1 [st|]].
    + destruct H as (A & B & _). split; [exact A|]. unfold eff_alloc. rewrite Hm. exact B.
    + destruct H as (d1 & Hd & HJ & _). exists d1. split; [exact Hd|]. split; [exact HJ|].
      pose proof HJ as ((_ & _ & _ & _ & Hfr & Hoff & Hlen) & _). cbn [length Z.of_nat] in Hlen.
      split; [exact Hlen|]. split; [lia|]. eapply Jg_cursor. exact (proj1 HJ).
  - pose proof (mem_dest_ijg_ok c alloc w0 Hm Hrb HI eq_refl Hp) as H.
    destruct (mem_dest c alloc w0) as [w1 [st|]]; [contradiction|].
    destruct H as (d1 & Hd & HJ & _). exists d1. split; [exact Hd|]. split; [exact HJ|].
    pose proof HJ as ((_ & _ & _ & _ & Hfr & Hoff & Hlen) & _). cbn [length Z.of_nat] in Hlen.
    split; [exact Hlen|]. split; [lia|]. eapply Jg_cursor. exact (proj1 HJ).
Qed.

(* ---- the constants the proofs rest on are the ones read from the source *)
Theorem source_facts :
  out_buf_size TJ = tj_output_buf_size /\ out_buf_size IJG = ijg_output_buf_size /\
  growth TJ = tj_growth /\ growth IJG = ijg_growth /\ tj_growth = 2 /\ ijg_growth = 2 /\
  0 < tj_output_buf_size /\ 0 < ijg_output_buf_size /\
  cf_clr cfg_tj = tj_clears_newbuffer /\ cf_zfix cfg_tj = tj_zero_size_keeps_reused /\
  cf_rebind cfg_tj = tj_rebinds_out_always /\ cf_rebind cfg_ijg = ijg_rebinds_out_always /\
  tj_clears_newbuffer = true /\ tj_rebinds_out_always = true /\ ijg_rebinds_out_always = true /\
  icc_max_data = icc_max_bytes_in_marker - icc_overhead_len.
Proof. repeat split. Qed.
