(* DMarkersProofs.v -- proofs about model/DMarkers.v (C01), part 1:
   Hoare-style rules for the parser monad, the marker routines, the marker loop. *)
From Coq Require Import List ZArith Bool Lia ZifyBool.
From LJT Require Import gen.GenLimits model.Huff model.DMarkers.
Import ListNotations.
Local Open Scope Z_scope.
Ltac Zify.zify_post_hook ::= Z.div_mod_to_equations.

(* ---------------------------------------------------- generated-table facts *)
Lemma natural_order_facts :
  length natural_order = 80%nat /\
  Forall (fun v => 0 <= v < 64) natural_order /\
  bound_natural_order = 80 /\ bound_quantval = 64 /\ L_DCTSIZE2 = 64.
Proof.
  repeat split; try reflexivity.
  apply Forall_forall. intros v Hv.
  assert (H : forallb (fun v => (0 <=? v) && (v <? 64)) natural_order = true) by (vm_compute; reflexivity).
  rewrite forallb_forall in H. specialize (H v Hv). lia.
Qed.

Lemma natural_order_nth : forall i, 0 <= i < 80 -> 0 <= nthd natural_order i 0 < 64.
Proof.
  intros i Hi. destruct natural_order_facts as (Hl & Hf & _).
  unfold nthd. rewrite Forall_forall in Hf. apply Hf. apply nth_In. lia.
Qed.

(* all generated constants, for lia *)
Ltac ucon := unfold L_DCTSIZE, L_DCTSIZE2, L_NUM_QUANT_TBLS, L_NUM_HUFF_TBLS, L_NUM_ARITH_TBLS, L_MAX_COMPS_IN_SCAN,
  L_MAX_SAMP_FACTOR, L_C_MAX_BLOCKS_IN_MCU, L_D_MAX_BLOCKS_IN_MCU, L_MAX_COMPONENTS, L_JPEG_MAX_DIMENSION,
  L_HUFF_LOOKAHEAD, L_APP0_DATA_LEN, L_APP14_DATA_LEN, L_APPN_DATA_LEN,
  bound_quantval, bound_bits, bound_huffval, bound_quant_tbl_ptrs, bound_dc_huff_tbl_ptrs, bound_ac_huff_tbl_ptrs,
  bound_arith_dc_L, bound_arith_dc_U, bound_arith_ac_K, bound_cur_comp_info, bound_MCU_membership,
  bound_first_MCU_col, bound_get_dht_bits, bound_get_dht_huffval, bound_process_APPn, bound_appn_b,
  bound_dc_derived_tbls, bound_ac_derived_tbls, bound_dc_cur_tbls, bound_last_dc_val, bound_maxcode, bound_lookup,
  bound_phuff_derived_tbls, bound_lhuff_derived_tbls, bound_arith_dc_stats, bound_arith_ac_stats, bound_natural_order,
  M_SOI, M_EOI, M_SOS, M_DAC, M_DHT, M_DQT, M_DRI, M_APP0, M_APP14, M_APP15, M_COM, M_RST0, M_RST7, M_TEM, M_DNL in *.
Ltac ulia := ucon; lia.

(* ------------------------------------------------------------- invariants *)
Definition idx_ok (p : Z * Z) : Prop := 0 <= fst p < snd p.
Definition byte (b : Z) : Prop := 0 <= b <= 255.
Definition len (s : io) : nat := length (real s).

Record inv (s : io) : Prop := mkinv { inv_tr : Forall idx_ok (trace s); inv_by : Forall byte (real s) }.

(* what every computation of the model guarantees, from any state satisfying inv:
   - Done  : inv again (so: every index recorded so far is inside its array), the
             source mode is unchanged, input is only consumed, and Q holds of the value
   - Susp  : only a suspending source suspends (never the memory source)
   - Fail  : inv again, and the failure is a real error code, never lack of fuel *)
Definition post {A} (m : M A) (Q : A -> Prop) : Prop :=
  forall s, inv s ->
    match m s with
    | Done a s' => inv s' /\ fake s' = fake s /\ (len s' <= len s)%nat /\ Q a
    | Susp => fake s = false
    | Fail e s' => inv s' /\ e <> E_OUT_OF_FUEL
    end.

Lemma post_ret {A} (a : A) (Q : A -> Prop) : Q a -> post (ret a) Q.
Proof. intros H s Hs. cbn. auto. Qed.

Lemma post_fail {A} e (Q : A -> Prop) : e <> E_OUT_OF_FUEL -> post (fail e) Q.
Proof. intros H s Hs. cbn. auto. Qed.

Lemma post_bind {A B} (m : M A) (f : A -> M B) (P : A -> Prop) (Q : B -> Prop) :
  post m P -> (forall a, P a -> post (f a) Q) -> post (bind m f) Q.
Proof.
  intros Hm Hf s Hs. unfold bind. specialize (Hm s Hs).
  destruct (m s) as [a s1| |e s1]; auto.
  destruct Hm as (Hi & Hfk & Hl & Hp).
  specialize (Hf a Hp s1 Hi).
  destruct (f a s1) as [b s2| |e s2]; auto.
  - destruct Hf as (Hi2 & Hfk2 & Hl2 & Hq). split; [exact Hi2|]. split; [congruence|]. split; [lia|exact Hq].
  - congruence.
Qed.

Lemma post_weaken {A} (m : M A) (P Q : A -> Prop) : post m P -> (forall a, P a -> Q a) -> post m Q.
Proof.
  intros Hm HPQ s Hs. specialize (Hm s Hs). destruct (m s); auto.
  destruct Hm as (? & ? & ? & ?). auto.
Qed.

Lemma post_get_byte : post get_byte byte.
Proof.
  intros s [Ht Hb]. unfold get_byte.
  destruct (real s) as [|b t] eqn:Hr.
  - destruct (fake s) eqn:Hf; auto.
    destruct (phase s); cbn; unfold len; cbn; rewrite Hr; repeat split; cbn; auto; unfold byte; try lia.
  - inversion Hb; subst. unfold len. cbn. rewrite Hr. repeat split; cbn; auto; try lia; apply H1.
Qed.

Lemma post_get2 : post get2 (fun v => 0 <= v <= 65535).
Proof.
  unfold get2. eapply post_bind; [apply post_get_byte|]. intros a Ha.
  eapply post_bind; [apply post_get_byte|]. intros b Hb.
  apply post_ret. unfold byte in *. lia.
Qed.

Lemma post_log i b : 0 <= i < b -> post (log i b) (fun _ => True).
Proof.
  intros H s [Ht Hb]. unfold log, len. cbn. repeat split; cbn; auto.
Qed.

Lemma post_warn : post warn (fun _ => True).
Proof. intros s [Ht Hb]. unfold warn, len. cbn. repeat split; cbn; auto. Qed.
Lemma post_warn_n n : post (warn_n n) (fun _ => True).
Proof. intros s [Ht Hb]. unfold warn_n, len. cbn. repeat split; cbn; auto. Qed.
Lemma post_add_discard n : post (add_discard n) (fun _ => True).
Proof. intros s [Ht Hb]. unfold add_discard, len. cbn. repeat split; cbn; auto. Qed.
Lemma post_flush_discard : post flush_discard (fun _ => True).
Proof.
  intros s [Ht Hb]. unfold flush_discard, len. destruct (discarded s =? 0); cbn; repeat split; cbn; auto.
Qed.

Lemma Forall_skipn {A} (P : A -> Prop) n l : Forall P l -> Forall P (skipn n l).
Proof. revert l. induction n; intros l H; cbn; auto. destruct l; auto. inversion H; auto. Qed.

Lemma post_skip_input n : post (skip_input n) (fun _ => True).
Proof.
  intros s [Ht Hb]. unfold skip_input, len.
  destruct (n <=? _) eqn:E1.
  - destruct (real s) eqn:Hr; cbn; repeat split; cbn; auto.
    + rewrite <- Hr. apply Forall_skipn. rewrite Hr. auto.
    + rewrite skipn_length. simpl length. lia.
  - destruct (fake s) eqn:Hf; cbn; repeat split; cbn; auto; try lia.
Qed.

Lemma post_log_range k : forall i b, 0 <= i -> i + Z.of_nat k <= b -> post (log_range k i b) (fun _ => True).
Proof.
  induction k; intros i b H0 H1; cbn [log_range].
  - apply post_ret. auto.
  - eapply post_bind; [apply post_log; lia|]. intros _ _. apply IHk; lia.
Qed.

Ltac pbind L := eapply post_bind; [ apply L | cbv beta; intros ].
Ltac plog := eapply post_bind; [ apply post_log; try ulia | cbv beta; intros _ _ ].
Ltac pfail := apply post_fail; discriminate.
Ltac difc := match goal with |- context [if ?c then _ else _] => destruct c eqn:? end.
Ltac dif := match goal with |- post (if ?c then _ else _) _ => destruct c eqn:? end.

(* ------------------------------------------------------------ list helpers *)
Lemma Forall_upd {A} (P : A -> Prop) n x l : Forall P l -> P x -> Forall P (upd n x l).
Proof.
  revert n. induction l as [|a l IH]; intros n Hl Hx; destruct n; cbn; auto; inversion Hl; subst; constructor; auto.
Qed.
Lemma upd_length {A} n (x : A) l : length (upd n x l) = length l.
Proof. revert n. induction l; intros n; destruct n; cbn; auto. Qed.
Lemma Forall_nth {A} (P : A -> Prop) l n d : Forall P l -> P d -> P (nth n l d).
Proof. revert n. induction l; intros n Hl Hd; destruct n; cbn; auto; inversion Hl; auto. Qed.
Lemma Forall_repeat {A} (P : A -> Prop) x n : P x -> Forall P (repeat x n).
Proof. intros; induction n; cbn; auto. Qed.
Lemma sumZ_app a b : sumZ (a ++ b) = sumZ a + sumZ b.
Proof. induction a; cbn; lia. Qed.

(* ------------------------------------------------------- parsed-state facts *)
Definition nib (x : Z) : Prop := 0 <= x <= 15.
Definition comp_ok (c : comp) : Prop :=
  byte (c_id c) /\ nib (c_h c) /\ nib (c_v c) /\ byte (c_tq c) /\ nib (c_td c) /\ nib (c_ta c).
Definition frame_ok (f : frame) : Prop :=
  1 <= f_nc f <= 255 /\ Z.of_nat (length (f_comps f)) = f_nc f /\ Forall comp_ok (f_comps f) /\
  1 <= f_height f <= 65535 /\ 1 <= f_width f <= 65535 /\ byte (f_prec f).
Definition htbl_ok (t : htbl) : Prop :=
  length (fst t) = 17%nat /\ Forall byte (fst t) /\ length (snd t) = 256%nat /\ Forall byte (snd t) /\
  sumZ (skipn 1 (fst t)) <= 256.
Definition opt_ok {A} (P : A -> Prop) (o : option A) : Prop := match o with None => True | Some x => P x end.
Definition scan_ok (f : frame) (sc : scan) : Prop :=
  1 <= s_n sc <= 4 /\ Z.of_nat (length (s_cur sc)) = s_n sc /\ Forall (fun ci => 0 <= ci < f_nc f) (s_cur sc) /\
  byte (s_Ss sc) /\ byte (s_Se sc) /\ nib (s_Ah sc) /\ nib (s_Al sc).
Definition hdr_ok (h : hdr) : Prop :=
  (saw_SOF h = true -> frame_ok (h_frame h)) /\
  Forall (opt_ok htbl_ok) (dc_tbls h) /\ Forall (opt_ok htbl_ok) (ac_tbls h).

Lemma comp0_ok : comp_ok (mkcomp 0 0 0 0 0 0).
Proof. unfold comp_ok, byte, nib; cbn; lia. Qed.

Lemma hdr0_ok : hdr_ok hdr0.
Proof.
  unfold hdr_ok, hdr0; cbn. split; [discriminate|]. split; repeat constructor.
Qed.

(* ------------------------------------------------------------------ get_soi *)
Lemma L_get_soi h : hdr_ok h -> post (get_soi h) hdr_ok.
Proof.
  intros Hh. unfold get_soi. destruct (saw_SOI h); [pfail|].
  eapply post_bind; [apply post_log_range; ulia|]. intros _ _.
  eapply post_bind; [apply post_log_range; ulia|]. intros _ _.
  eapply post_bind; [apply post_log_range; ulia|]. intros _ _.
  apply post_ret. destruct Hh as (H1 & H2 & H3). unfold hdr_ok; cbn. auto.
Qed.

(* ------------------------------------------------------------------ get_sof *)
Lemma L_sof_comps : forall k ci nc, 0 <= ci -> ci + Z.of_nat k <= nc ->
  post (sof_comps k ci nc) (fun cs => length cs = k /\ Forall comp_ok cs).
Proof.
  induction k; intros ci nc H0 H1; cbn [sof_comps].
  - apply post_ret. auto.
  - plog. pbind post_get_byte. pbind post_get_byte. pbind post_get_byte.
    eapply post_bind; [apply IHk; lia|]. intros rest [Hl Hf].
    apply post_ret. split; [cbn; lia|]. constructor; auto.
    unfold comp_ok, byte, nib in *; cbn. lia.
Qed.

Lemma L_get_sof p l a h : hdr_ok h -> post (get_sof p l a h) (fun h' => hdr_ok h' /\ saw_SOF h' = true).
Proof.
  intros (H1 & H2 & H3). unfold get_sof. destruct (saw_SOF h); [pfail|].
  pbind post_get2. pbind post_get_byte. pbind post_get2. pbind post_get2. pbind post_get_byte.
  dif; [pfail|].
  dif; [pfail|].
  eapply post_bind; [apply L_sof_comps; lia|]. intros cs [Hl Hf].
  apply post_ret. unfold hdr_ok, frame_ok; cbn. unfold byte in *. repeat split; auto; try lia.
Qed.

(* ------------------------------------------------------------------ get_sos *)
Lemma L_in_scan : forall k pi cur ci, 0 <= pi -> pi + Z.of_nat k <= 4 -> post (in_scan k pi cur ci) (fun _ => True).
Proof.
  induction k; intros pi cur ci H0 H1; cbn [in_scan].
  - apply post_ret; auto.
  - plog. destruct (nthd cur pi None).
    + dif; [apply post_ret; auto | apply IHk; lia].
    + apply IHk; lia.
Qed.

Lemma L_find_comp cc cur i : 0 <= i <= 4 -> forall cs ci nc, 0 <= ci ->
  post (find_comp cc cs cur i ci nc) (fun r => opt_ok (fun x => 0 <= x < nc) r).
Proof.
  intros Hi. induction cs as [|c t IH]; intros ci nc H0; cbn [find_comp].
  - apply post_ret. exact I.
  - destruct (ci <? nc) eqn:E; [|apply post_ret; exact I].
    plog. destruct (cc =? c_id c).
    + eapply post_bind; [apply L_in_scan; lia|]. intros b _.
      destruct b; [apply IH; lia|]. apply post_ret. cbn. lia.
    + apply IH; lia.
Qed.

Lemma L_dup_check : forall k pi cur ci, 0 <= pi -> pi + Z.of_nat k <= 4 -> post (dup_check k pi cur ci) (fun _ => True).
Proof.
  induction k; intros pi cur ci H0 H1; cbn [dup_check].
  - apply post_ret; auto.
  - plog. destruct (nthd cur pi None).
    + dif; [pfail | apply IHk; lia].
    + apply IHk; lia.
Qed.

Lemma L_sos_comps : forall k i nc comps cur, 0 <= i -> i + Z.of_nat k <= 4 -> 1 <= nc ->
  Forall comp_ok comps -> Forall (opt_ok (fun x => 0 <= x < nc)) cur ->
  post (sos_comps k i nc comps cur)
       (fun p => Forall comp_ok (fst p) /\ length (fst p) = length comps /\
                 Forall (opt_ok (fun x => 0 <= x < nc)) (snd p) /\ length (snd p) = length cur).
Proof.
  induction k; intros i nc comps cur H0 H1 Hnc Hc Hcur; cbn [sos_comps].
  - apply post_ret. cbn. auto.
  - pbind post_get_byte. pbind post_get_byte.
    eapply post_bind; [apply L_find_comp; lia|]. intros r Hr.
    destruct r as [ci|]; [|pfail].
    plog.
    eapply post_bind; [apply L_dup_check; lia|]. intros _ _.
    eapply post_weaken.
    + apply IHk; try lia.
      * unfold updz. apply Forall_upd; auto.
        assert (Hn : comp_ok (nthd comps ci (mkcomp 0 0 0 0 0 0))) by (unfold nthd; apply Forall_nth; auto using comp0_ok).
        unfold comp_ok, set_tbl_no, byte, nib in *; cbn. lia.
      * unfold updz. apply Forall_upd; auto.
    + cbv beta. intros [cs' cur'] (A & B & C & D). cbn in *. unfold updz in *. rewrite !upd_length in *. auto.
Qed.

Lemma In_firstn {A} (x : A) n l : In x (firstn n l) -> In x l.
Proof. revert l. induction n; intros l H; cbn in *; [tauto|]. destruct l; cbn in *; [tauto|]. destruct H; auto. Qed.

Lemma firstn_map_length {A B} (f : A -> B) n l : (n <= length l)%nat -> length (map f (firstn n l)) = n.
Proof. intros. rewrite map_length, firstn_length. lia. Qed.

Lemma L_get_sos h : hdr_ok h ->
  post (get_sos h) (fun h' => hdr_ok h' /\ saw_SOF h' = true /\ scan_ok (h_frame h') (h_scan h')).
Proof.
  intros (H1 & H2 & H3). unfold get_sos. destruct (saw_SOF h) eqn:Hsof; cbn [negb]; [|pfail].
  specialize (H1 eq_refl). destruct H1 as (F1 & F2 & F3 & F4 & F5 & F6).
  pbind post_get2. pbind post_get_byte.
  dif; [pfail|].
  eapply post_bind; [apply post_log_range; ulia|]. intros _ _.
  eapply post_bind.
  { apply (L_sos_comps (Z.to_nat a0) 0 (f_nc (h_frame h)) (f_comps (h_frame h)) (repeat None 4)); try ulia; auto.
    repeat constructor. }
  cbv beta. intros [comps cur] (A & B & C & D). cbn [fst snd] in *.
  pbind post_get_byte. pbind post_get_byte. pbind post_get_byte.
  apply post_ret. unfold hdr_ok, frame_ok, scan_ok; cbn.
  assert (Hn : 1 <= a0 <= 4) by ulia.
  repeat split; auto; try lia; try (unfold byte, nib in *; lia).
  - rewrite firstn_map_length; [lia|]. rewrite D. cbn. lia.
  - apply Forall_forall. intros x Hx. apply in_map_iff in Hx. destruct Hx as (o & <- & Ho).
    apply In_firstn in Ho. rewrite Forall_forall in C. specialize (C o Ho). destruct o; cbn in *; lia.
Qed.

(* ------------------------------------------------------------------ get_dac *)
Lemma L_dac_loop : forall fuel length L U K, Z.of_nat fuel >= length ->
  post (dac_loop fuel length L U K) (fun _ => True).
Proof.
  induction fuel; intros length L U K Hf; cbn [dac_loop].
  - destruct (length >? 0) eqn:E; [lia|]. dif; [apply post_ret; auto | pfail].
  - destruct (length >? 0) eqn:E.
    + pbind post_get_byte. pbind post_get_byte.
      dif; [pfail|].
      destruct (a >=? L_NUM_ARITH_TBLS) eqn:E2.
      * plog. apply IHfuel; lia.
      * plog. plog. cbv zeta. destruct (a0 mod 16 >? a0 / 16); [pfail|]. apply IHfuel; lia.
    + dif; [apply post_ret; auto | pfail].
Qed.

Lemma hdr_ok_tables h dc ac f sc q l u k r j ad n s1 s2 :
  hdr_ok h -> f = h_frame h -> s2 = saw_SOF h -> Forall (opt_ok htbl_ok) dc -> Forall (opt_ok htbl_ok) ac ->
  hdr_ok (mkhdr s1 s2 f sc dc ac q l u k r j ad n).
Proof. intros (H1 & H2 & H3) -> -> Hd Ha. unfold hdr_ok; cbn. auto. Qed.

Lemma L_get_dac h : hdr_ok h -> post (get_dac h) hdr_ok.
Proof.
  intros Hh. unfold get_dac. pbind post_get2.
  eapply post_bind; [apply L_dac_loop; lia|]. intros [[L U] K] _.
  apply post_ret. destruct Hh as (H1 & H2 & H3). eapply hdr_ok_tables; eauto. unfold hdr_ok; auto.
Qed.

(* ------------------------------------------------------------------ get_dht *)
Lemma L_dht_bits : forall k i, 0 <= i -> i + Z.of_nat k <= 17 ->
  post (dht_bits k i) (fun p => length (fst p) = k /\ Forall byte (fst p) /\ snd p = sumZ (fst p) /\ 0 <= snd p).
Proof.
  induction k; intros i H0 H1; cbn [dht_bits].
  - apply post_ret. cbn. repeat split; auto. lia.
  - plog. pbind post_get_byte.
    eapply post_bind; [apply IHk; lia|]. intros [rest cnt] (A & B & C & D). cbn [fst snd] in *.
    apply post_ret. cbn. unfold byte in *. repeat split; auto; try lia.
Qed.

Lemma L_dht_vals : forall k i, 0 <= i -> i + Z.of_nat k <= 256 ->
  post (dht_vals k i) (fun vs => length vs = k /\ Forall byte vs).
Proof.
  induction k; intros i H0 H1; cbn [dht_vals].
  - apply post_ret. auto.
  - plog. pbind post_get_byte.
    eapply post_bind; [apply IHk; lia|]. intros rest (A & B).
    apply post_ret. cbn. split; auto.
Qed.

Lemma byte0 : byte 0. Proof. unfold byte; lia. Qed.

Lemma L_dht_loop : forall fuel length dc ac, Z.of_nat fuel >= length ->
  Forall (opt_ok htbl_ok) dc -> Forall (opt_ok htbl_ok) ac ->
  post (dht_loop fuel length dc ac) (fun p => Forall (opt_ok htbl_ok) (fst p) /\ Forall (opt_ok htbl_ok) (snd p)).
Proof.
  induction fuel; intros length dc ac Hf Hd Ha; cbn [dht_loop].
  - destruct (length >? 16) eqn:E; [lia|]. dif; [apply post_ret; auto | pfail].
  - destruct (length >? 16) eqn:E.
    + pbind post_get_byte. plog.
      eapply post_bind; [apply L_dht_bits; lia|]. intros [bits count] (A & B & C & D). cbn [fst snd] in *.
      dif; [pfail|].
      eapply post_bind; [apply L_dht_vals; lia|]. intros vals (V1 & V2).
      assert (Hok : htbl_ok (0 :: bits, vals ++ repeat 0 (Z.to_nat (256 - count)))).
      { unfold htbl_ok; cbn [fst snd]. repeat split.
        - cbn. lia.
        - constructor; auto using byte0.
        - rewrite app_length, repeat_length. lia.
        - apply Forall_app. split; auto. apply Forall_repeat. apply byte0.
        - cbn [skipn]. lia. }
      destruct (Z.testbit a 4).
      * dif; [pfail|]. plog.
        apply IHfuel; auto; try lia. unfold updz. apply Forall_upd; auto.
      * dif; [pfail|]. plog.
        apply IHfuel; auto; try lia. unfold updz. apply Forall_upd; auto.
    + dif; [apply post_ret; auto | pfail].
Qed.

Lemma L_get_dht h : hdr_ok h -> post (get_dht h) hdr_ok.
Proof.
  intros Hh. unfold get_dht. pbind post_get2.
  destruct Hh as (H1 & H2 & H3).
  eapply post_bind; [apply L_dht_loop; auto; lia|]. intros [dc ac] (A & B). cbn [fst snd] in *.
  apply post_ret. eapply hdr_ok_tables; eauto. unfold hdr_ok; auto.
Qed.

(* ------------------------------------------------------------------ get_dqt *)
Lemma L_dqt_vals : forall k i prec q, 0 <= i -> i + Z.of_nat k <= 64 -> post (dqt_vals k i prec q) (fun _ => True).
Proof.
  induction k; intros i prec q H0 H1; cbn [dqt_vals].
  - apply post_ret; auto.
  - eapply post_bind with (P := fun _ => True).
    { destruct (prec =? 0); eapply post_weaken; [apply post_get_byte|auto|apply post_get2|auto]. }
    intros tmp _. plog.
    pose proof (natural_order_nth i ltac:(lia)) as Hn.
    plog. apply IHk; lia.
Qed.

Lemma L_dqt_loop : forall fuel length qt, Z.of_nat fuel >= length -> post (dqt_loop fuel length qt) (fun _ => True).
Proof.
  induction fuel; intros length qt Hf; cbn [dqt_loop].
  - destruct (length >? 0) eqn:E; [lia|]. dif; [apply post_ret; auto | pfail].
  - destruct (length >? 0) eqn:E.
    + pbind post_get_byte. dif; [pfail|].
      unfold byte in *. plog.
      eapply post_bind; [apply L_dqt_vals; ulia|]. intros q _.
      apply IHfuel. cbv zeta. difc; ulia.
    + dif; [apply post_ret; auto | pfail].
Qed.

Lemma L_get_dqt h : hdr_ok h -> post (get_dqt h) hdr_ok.
Proof.
  intros Hh. unfold get_dqt. pbind post_get2.
  eapply post_bind; [apply L_dqt_loop; lia|]. intros qt _.
  apply post_ret. destruct Hh as (H1 & H2 & H3). eapply hdr_ok_tables; eauto. unfold hdr_ok; auto.
Qed.

(* ------------------------------------------------------------------ get_dri *)
Lemma L_get_dri h : hdr_ok h -> post (get_dri h) hdr_ok.
Proof.
  intros Hh. unfold get_dri. pbind post_get2. dif; [pfail|]. pbind post_get2.
  apply post_ret. destruct Hh as (H1 & H2 & H3). eapply hdr_ok_tables; eauto. unfold hdr_ok; auto.
Qed.

(* ------------------------------------------------- skip_variable and APPn *)
Lemma L_skip_variable : post skip_variable (fun _ => True).
Proof.
  unfold skip_variable. pbind post_get2. dif; [apply post_skip_input | apply post_ret; auto].
Qed.

Lemma L_appn_bytes : forall k i, 0 <= i -> i + Z.of_nat k <= 14 -> post (appn_bytes k i) (fun _ => True).
Proof.
  induction k; intros i H0 H1; cbn [appn_bytes].
  - apply post_ret; auto.
  - plog. pbind post_get_byte. eapply post_bind; [apply IHk; lia|]. intros. apply post_ret; auto.
Qed.

Lemma L_get_interesting_appn m h : hdr_ok h -> post (get_interesting_appn m h) hdr_ok.
Proof.
  intros Hh. unfold get_interesting_appn. pbind post_get2.
  eapply post_bind; [apply L_appn_bytes; [lia|]|].
  { cbv zeta. difc; [ulia|]. difc; ulia. }
  intros b _.
  assert (Hk : forall j ad, hdr_ok (mkhdr (saw_SOI h) (saw_SOF h) (h_frame h) (h_scan h) (dc_tbls h) (ac_tbls h) (q_tbls h)
                                         (ar_L h) (ar_U h) (ar_K h) (h_ri h) j ad (h_nscans h))).
  { intros. destruct Hh as (H1 & H2 & H3). eapply hdr_ok_tables; eauto. unfold hdr_ok; auto. }
  eapply post_bind with (P := hdr_ok).
  { destruct (m =? M_APP0).
    - dif; [|apply post_ret; auto].
      eapply post_bind with (P := fun _ => True); [dif; [apply post_warn | apply post_ret; auto]|].
      intros _ _. apply post_ret. apply Hk.
    - dif; apply post_ret; auto. }
  intros h' Hh'.
  eapply post_bind with (P := fun _ => True); [dif; [apply post_skip_input | apply post_ret; auto]|].
  intros _ _. apply post_ret. auto.
Qed.

(* ------------------------------------------------------------------ dispatch *)
Definition step_ok (r : step) : Prop :=
  match r with
  | Continue h => hdr_ok h
  | ReachedSOS h => hdr_ok h /\ saw_SOF h = true /\ scan_ok (h_frame h) (h_scan h)
  | ReachedEOI h => hdr_ok h
  end.

Lemma L_cont (m : M hdr) (P : hdr -> Prop) : post m P -> (forall h, P h -> hdr_ok h) -> post (cont m) step_ok.
Proof. intros H HP. unfold cont. pbind H. apply post_ret. cbn. auto. Qed.

Lemma L_dispatch c h : hdr_ok h -> post (dispatch c h) step_ok.
Proof.
  intros Hh. unfold dispatch.
  destruct (c =? M_SOI); [eapply L_cont; [apply L_get_soi; auto|auto]|].
  destruct (assocZ c sof_dispatch) as [[[p l] a]|].
  { eapply L_cont; [apply L_get_sof; auto|]. cbv beta. tauto. }
  dif; [pfail|].
  destruct (c =? M_SOS). { pbind L_get_sos; auto. apply post_ret. cbn. auto. }
  destruct (c =? M_EOI). { apply post_ret. cbn. auto. }
  destruct (c =? M_DAC); [eapply L_cont; [apply L_get_dac; auto|auto]|].
  destruct (c =? M_DHT); [eapply L_cont; [apply L_get_dht; auto|auto]|].
  destruct (c =? M_DQT); [eapply L_cont; [apply L_get_dqt; auto|auto]|].
  destruct (c =? M_DRI); [eapply L_cont; [apply L_get_dri; auto|auto]|].
  dif.
  { plog. dif.
    - eapply L_cont; [apply L_get_interesting_appn; auto|auto].
    - pbind L_skip_variable. apply post_ret. cbn. auto. }
  destruct (c =? M_COM). { pbind L_skip_variable. apply post_ret. cbn. auto. }
  dif. { apply post_ret. cbn. auto. }
  destruct (c =? M_DNL). { pbind L_skip_variable. apply post_ret. cbn. auto. }
  pfail.
Qed.

Lemma dispatch_eoi h s : dispatch 217 h s = Done (ReachedEOI h) s.
Proof. reflexivity. Qed.

(* ---------------------------------------------- first_marker / next_marker *)
(* a completed marker fetch consumed >= 2 bytes of the caller's buffer, or it ran
   into the fake EOI of the memory source and returns EOI *)
Definition fetched (s : io) (c : Z) (s' : io) : Prop :=
  inv s' /\ fake s' = fake s /\ (len s' <= len s)%nat /\ ((len s' + 2 <= len s)%nat \/ c = 217).

Lemma inv_mk s r : inv s -> Forall byte r -> forall f p e w d, inv (mkio r f p e w d (trace s)).
Proof. intros [Ht Hb] Hr; intros; constructor; cbn; auto. Qed.

Lemma nm_loop_spec : forall l fuel inFF s, real s = l -> (length l + 4 <= fuel)%nat -> inv s ->
  match nm_loop fuel inFF s with
  | Done c s' => inv s' /\ fake s' = fake s /\ (len s' <= len s)%nat /\ ((len s' + (if inFF then 1 else 2) <= len s)%nat \/ c = 217)
  | Susp => fake s = false
  | Fail e s' => False
  end.
Proof.
  induction l as [|b t IH]; intros fuel inFF s Hr Hfuel Hs.
  - (* buffer exhausted: at most three reads from the fake EOI *)
    destruct fuel as [|[|[|[|f]]]]; cbn in Hfuel; try lia.
    destruct (fake s) eqn:Hf.
    + destruct inFF, (phase s) eqn:Hp;
        cbn [nm_loop]; unfold bind, get_byte, add_discard; cbn; rewrite ?Hr, ?Hf, ?Hp; cbn;
        (split; [apply inv_mk; auto|]); cbn; (split; [reflexivity|]); (split; [unfold len; cbn; lia|]); auto.
    + destruct inFF; cbn [nm_loop]; unfold bind, get_byte; rewrite Hr, Hf; auto.
  - destruct fuel as [|k]; [cbn in Hfuel; lia|].
    assert (Hb : byte b /\ Forall byte t).
    { destruct Hs as [_ Hby]. rewrite Hr in Hby. inversion Hby; auto. }
    destruct Hb as [Hb Ht].
    cbn [nm_loop]. unfold bind at 1. unfold get_byte. rewrite Hr.
    set (s1 := mkio t (fake s) (phase s) (eofw s) (warns s) (discarded s) (trace s)).
    assert (Hs1 : inv s1) by (apply inv_mk; auto).
    assert (Hl : len s = S (len s1)) by (unfold len; rewrite Hr; reflexivity).
    assert (Hk : (length t + 4 <= k)%nat) by (cbn in Hfuel; lia).
    destruct inFF.
    + destruct (b =? 255).
      * specialize (IH k true s1 eq_refl Hk Hs1).
        destruct (nm_loop k true s1) as [c s'| |e s']; auto.
        destruct IH as (A & B & L0 & C). split; [exact A|]. split; [exact B|]. split; [lia|]. destruct C; [left; lia|right; auto].
      * destruct (b =? 0).
        -- unfold bind, add_discard.
           set (s2 := mkio _ _ _ _ _ _ _).
           assert (Hs2 : inv s2) by (apply inv_mk; auto).
           specialize (IH k false s2 eq_refl Hk Hs2).
           destruct (nm_loop k false s2) as [c s'| |e s']; auto.
           destruct IH as (A & B & L0 & C). assert (L2 : len s2 = len s1) by reflexivity.
           split; [exact A|]. split; [exact B|]. split; [lia|]. destruct C as [C|C]; [left; lia|right; auto].
        -- unfold ret. split; [exact Hs1|]. split; [reflexivity|]. split; [lia|]. left. rewrite Hl. lia.
    + destruct (b =? 255).
      * specialize (IH k true s1 eq_refl Hk Hs1).
        destruct (nm_loop k true s1) as [c s'| |e s']; auto.
        destruct IH as (A & B & L0 & C). split; [exact A|]. split; [exact B|]. split; [lia|]. destruct C; [left; lia|right; auto].
      * unfold bind, add_discard.
        set (s2 := mkio _ _ _ _ _ _ _).
        assert (Hs2 : inv s2) by (apply inv_mk; auto).
        specialize (IH k false s2 eq_refl Hk Hs2).
        destruct (nm_loop k false s2) as [c s'| |e s']; auto.
        destruct IH as (A & B & L0 & C). assert (L2 : len s2 = len s1) by reflexivity.
        split; [exact A|]. split; [exact B|]. split; [lia|]. destruct C as [C|C]; [left; lia|right; auto].
Qed.

Lemma next_marker_spec s : inv s ->
  match next_marker s with
  | Done c s' => fetched s c s'
  | Susp => fake s = false
  | Fail e s' => False
  end.
Proof.
  intros Hs. unfold next_marker, bind.
  pose proof (nm_loop_spec (real s) (length (real s) + 4) false s eq_refl (le_n _) Hs) as H.
  destruct (nm_loop _ false s) as [c s1| |e s1]; auto.
  destruct H as (A & B & L0 & C).
  pose proof (post_flush_discard s1 A) as F.
  destruct (flush_discard s1) as [u s2| |e s2] eqn:FD;
    [| unfold flush_discard in FD; destruct (discarded s1 =? 0); discriminate
     | unfold flush_discard in FD; destruct (discarded s1 =? 0); discriminate].
  - destruct F as (F1 & F2 & F3 & _). cbn. unfold fetched. split; [exact F1|]. split; [congruence|]. split; [lia|].
    destruct C; [left; lia|right; auto].
Qed.

Lemma first_marker_spec s : inv s ->
  match first_marker s with
  | Done c s' => fetched s c s'
  | Susp => fake s = false
  | Fail e s' => inv s' /\ e <> E_OUT_OF_FUEL
  end.
Proof.
  intros Hs. unfold first_marker.
  pose proof (post_get_byte s Hs) as H1. unfold bind at 1.
  destruct (get_byte s) as [c s1| |e s1] eqn:G1; auto.
  destruct H1 as (A1 & B1 & C1 & D1).
  pose proof (post_get_byte s1 A1) as H2. unfold bind at 1.
  destruct (get_byte s1) as [c2 s2| |e s2] eqn:G2; [| congruence |auto].
  destruct H2 as (A2 & B2 & C2 & D2).
  destruct (negb (c =? 255) || negb (c2 =? M_SOI)) eqn:E; cbn; [split; [auto|discriminate]|].
  unfold fetched. split; [exact A2|]. split; [congruence|]. split; [lia|].
  (* both bytes came from the buffer: a fake byte is FF/D9, never FF D8 *)
  left. unfold get_byte in G1, G2.
  destruct (real s) as [|x t] eqn:R1.
  - destruct (fake s); [|discriminate]. destruct (phase s); inversion G1; subst; cbn in G2; inversion G2; subst; cbn in E; discriminate.
  - inversion G1; subst. cbn in G2. destruct t as [|y t'].
    + destruct (fake s); [|discriminate]. destruct (phase s); inversion G2; subst; unfold M_SOI in E; cbn in E; lia.
    + inversion G2; subst. unfold len; cbn. rewrite R1. cbn. lia.
Qed.

(* --------------------------------------------------------- the marker loop *)
Definition not_continue (r : step) : Prop := match r with Continue _ => False | _ => True end.
Definition is_eoi (r : step) : Prop := match r with ReachedEOI _ => True | _ => False end.

(* Totality with an explicit time bound: one iteration per two bytes of input (plus
   the fake EOI) is always enough fuel. *)
Lemma read_markers_spec : forall fuel h s, hdr_ok h -> inv s -> (len s + 4 <= 2 * fuel)%nat ->
  match read_markers fuel h s with
  | Done r s' => inv s' /\ fake s' = fake s /\ (len s' <= len s)%nat /\ step_ok r /\ not_continue r /\
                 ((len s' + 2 <= len s)%nat \/ is_eoi r)
  | Susp => fake s = false
  | Fail e s' => inv s' /\ e <> E_OUT_OF_FUEL
  end.
Proof.
  induction fuel as [|k IH]; intros h s Hh Hs Hf; [lia|].
  cbn [read_markers]. unfold bind at 1.
  assert (HF : match (if saw_SOI h then next_marker else first_marker) s with
               | Done c s' => fetched s c s'
               | Susp => fake s = false
               | Fail e s' => inv s' /\ e <> E_OUT_OF_FUEL end).
  { destruct (saw_SOI h).
    - pose proof (next_marker_spec s Hs) as H. destruct (next_marker s); auto. contradiction.
    - apply first_marker_spec; auto. }
  destruct ((if saw_SOI h then next_marker else first_marker) s) as [c s1| |e s1]; auto.
  destruct HF as (A1 & B1 & L1 & C1).
  unfold bind at 1.
  pose proof (L_dispatch c h Hh s1 A1) as HD.
  destruct (dispatch c h s1) as [r s2| |e s2] eqn:ED; [| congruence | auto].
  destruct HD as (A2 & B2 & C2 & D2).
  destruct r as [h'|h'|h']; cbn.
  - (* Continue: at least two real bytes were consumed *)
    assert (Hc : (len s1 + 2 <= len s)%nat).
    { destruct C1 as [C1|C1]; auto. subst c. rewrite dispatch_eoi in ED. discriminate. }
    specialize (IH h' s2 D2 A2 ltac:(lia)).
    destruct (read_markers k h' s2) as [r s3| |e s3]; auto; try congruence.
    destruct IH as (A3 & B3 & C3 & D3 & E3 & _). split; [exact A3|]. split; [congruence|]. split; [lia|]. split; [exact D3|]. split; [exact E3|]. left; lia.
  - split; [exact A2|]. split; [congruence|]. split; [lia|]. split; [exact D2|]. split; [exact I|].
    destruct C1 as [C1|C1]; [left; lia|]. subst c. rewrite dispatch_eoi in ED. discriminate.
  - split; [exact A2|]. split; [congruence|]. split; [lia|]. split; [exact D2|]. split; [exact I|]. right. exact I.
Qed.

Lemma div2_bound n : (n + 4 <= 2 * (Nat.div2 n + 3))%nat.
Proof. pose proof (Nat.div2_odd n) as H. destruct (Nat.odd n); unfold Nat.b2n in H; lia. Qed.

(* -------------------------------------------------------------- initial_setup *)
Definition samp_ok (c : comp) : Prop := 1 <= c_h c <= 4 /\ 1 <= c_v c <= 4.

Lemma L_samp_check : forall cs mh mv, 1 <= mh <= 4 -> 1 <= mv <= 4 ->
  post (samp_check cs mh mv) (fun p => Forall samp_ok cs /\ 1 <= fst p <= 4 /\ 1 <= snd p <= 4).
Proof.
  induction cs as [|c t IH]; intros mh mv H1 H2; cbn [samp_check].
  - apply post_ret. cbn. auto.
  - dif; [pfail|]. eapply post_weaken; [apply IH; ulia|].
    cbv beta. intros p (A & B & C). split; auto. constructor; auto. unfold samp_ok. ulia.
Qed.

Lemma L_comp_dims : forall cs ci w hgt mh mv du, 0 <= ci -> ci + Z.of_nat (length cs) <= 10 ->
  post (comp_dims cs ci w hgt mh mv du) (fun p => length (fst p) = length cs /\ length (snd p) = length cs).
Proof.
  induction cs as [|c t IH]; intros ci w hgt mh mv du H0 H1; cbn [comp_dims].
  - apply post_ret. cbn. auto.
  - cbn [length] in H1. plog.
    eapply post_bind; [apply IH; lia|]. intros [ws hs] [A B]. cbn [fst snd] in *.
    apply post_ret. cbn. auto.
Qed.

(* what jpeg_read_header guarantees about an accepted frame + first scan header *)
Definition accepted_header (h : hdr) (su : setup) : Prop :=
  let f := h_frame h in let sc := h_scan h in
  1 <= f_nc f <= 10 /\ Z.of_nat (length (f_comps f)) = f_nc f /\
  Forall samp_ok (f_comps f) /\ Forall comp_ok (f_comps f) /\
  1 <= f_height f <= 65500 /\ 1 <= f_width f <= 65500 /\
  (if f_lossless f then 2 <= f_prec f <= 16 else f_prec f = 8 \/ f_prec f = 12) /\
  scan_ok f sc /\
  1 <= su_maxh su <= 4 /\ 1 <= su_maxv su <= 4 /\
  length (su_wib su) = length (f_comps f) /\ length (su_hib su) = length (f_comps f) /\
  hdr_ok h.

Lemma L_initial_setup h : hdr_ok h -> saw_SOF h = true -> scan_ok (h_frame h) (h_scan h) ->
  post (initial_setup h) (fun su => accepted_header h su).
Proof.
  intros Hh Hsof Hsc. pose proof Hh as (H1 & H2 & H3). specialize (H1 Hsof).
  destruct H1 as (F1 & F2 & F3 & F4 & F5 & F6).
  unfold initial_setup. cbv zeta.
  dif; [pfail|]. dif; [pfail|]. dif; [pfail|].
  eapply post_bind; [apply L_samp_check; lia|]. intros [mh mv] (S1 & S2 & S3). cbn [fst snd] in *.
  eapply post_bind; [apply L_comp_dims; ulia|]. intros [ws hs] (D1 & D2). cbn [fst snd] in *.
  apply post_ret. unfold accepted_header; cbn.
  split; [ulia|]. split; [assumption|]. split; [assumption|]. split; [assumption|].
  split; [ulia|]. split; [ulia|]. split; [destruct (f_lossless (h_frame h)); ulia|].
  split; [exact Hsc|]. split; [lia|]. split; [lia|]. split; [exact D1|]. split; [exact D2|]. exact Hh.
Qed.

Lemma L_default_parms_warn h : post (default_parms_warn h) (fun _ => True).
Proof.
  unfold default_parms_warn. cbv zeta.
  repeat (dif; try (apply post_ret; exact I); try apply post_warn).
Qed.

Definition outcome_ok (o : outcome) : Prop :=
  match o with HeaderOK h su => accepted_header h su | TablesOnly h => hdr_ok h end.

Lemma read_header_spec s : inv s ->
  match read_header s with
  | Done o s' => inv s' /\ fake s' = fake s /\ (len s' <= len s)%nat /\ outcome_ok o
  | Susp => fake s = false
  | Fail e s' => inv s' /\ e <> E_OUT_OF_FUEL
  end.
Proof.
  intros Hs. unfold read_header, bind at 1.
  pose proof (read_markers_spec (marker_fuel s) hdr0 s hdr0_ok Hs (div2_bound _)) as H.
  destruct (read_markers (marker_fuel s) hdr0 s) as [r s1| |e s1]; auto.
  destruct H as (A & B & C & D & E & _).
  destruct r as [h|h|h]; cbn in E; [contradiction| |].
  - destruct D as (D1 & D2 & D3).
    assert (P : post (su <- initial_setup h;; default_parms_warn h;;; ret (HeaderOK h su)) outcome_ok).
    { eapply post_bind; [apply L_initial_setup; auto|]. intros su Hsu.
      eapply post_bind; [apply L_default_parms_warn|]. intros _ _. apply post_ret. exact Hsu. }
    specialize (P s1 A).
    destruct ((su <- initial_setup h;; default_parms_warn h;;; ret (HeaderOK h su)) s1) as [o s2| |e s2]; auto; try congruence.
    destruct P as (P1 & P2 & P3 & P4). split; [exact P1|]. split; [congruence|]. split; [lia|exact P4].
  - destruct (saw_SOF h); cbn; [split; [exact A|discriminate]|].
    split; [exact A|]. split; [exact B|]. split; [exact C|exact D].
Qed.
