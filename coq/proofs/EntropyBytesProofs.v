(* C03: the byte layer (stuffing, 1-fill, RSTn) of the models is the one of jchuff.c / jcphuff.c /
   jdhuff.c, and the statistics-bin layout of model/ArithBin.v is the one of jcarith.c / jdarith.c
   (gen/GenEntropyBytes.v is regenerated from the source on every run). *)
From Coq Require Import List ZArith Lia.
From LJT Require Import model.Huff model.Seq model.Prog model.ArithBin gen.GenEntropyBytes.
Import ListNotations.
Local Open Scope Z_scope.

Lemma source_entropy_bytes :
  (* encoder stuffing: jcphuff.c emit_bits, jchuff.c EMIT_BYTE *)
  stuff [gen_phuff_stuff_trigger] = [gen_phuff_stuff_trigger; gen_phuff_stuffed] /\
  stuff [gen_chuff_stuff_trigger] = [gen_chuff_stuff_trigger; gen_chuff_stuffed] /\
  stuff [gen_phuff_stuff_trigger - 1] = [gen_phuff_stuff_trigger - 1] /\
  (* decoder unstuffing: jdhuff.c jpeg_fill_bit_buffer *)
  load_seg [gen_dhuff_stuff_trigger; gen_dhuff_stuffed; 7] = ([gen_dhuff_data; 7], []) /\
  load_seg [gen_dhuff_stuff_trigger; gen_rst0; 7] = ([], [gen_dhuff_stuff_trigger; gen_rst0; 7]) /\
  (* fill of a partial byte with ones: emit_bits(0x7F, 7) / (0xFF >> put_bits) *)
  seg_bytes [false] = [gen_phuff_fill_code] /\ gen_phuff_fill_bits = 7 /\
  byte_val (pad8 []) 0 = gen_chuff_fill_mask /\
  (* restart marker between two intervals: FF, JPEG_RST0 + n *)
  enc_scan unit (fun _ => Some []) 1 [tt; tt] = Some [gen_phuff_marker_prefix; gen_rst0] /\
  gen_chuff_marker_prefix = gen_phuff_marker_prefix /\
  (* arithmetic coder bins *)
  X1 = gen_arith_x1 /\
  x_base gen_arith_default_K 5 = gen_arith_xlow /\ x_base gen_arith_default_K 6 = gen_arith_xhigh /\
  (forall k, se_bin k = gen_arith_se_mult * (Z.of_nat k - gen_arith_se_sub)) /\
  enc_mag_ac 0 100 2 = [(0, true); (0, true); (100, false); (100 + gen_arith_m_offset, false)] /\
  snd (enc_magnitude 3 2) = 2 /\ gen_arith_mag_overflow = 32768 /\ gen_arith_dc_mask + 1 = 65536 /\
  a_L acomp0 = gen_arith_default_L /\ a_U acomp0 = gen_arith_default_U /\ a_K acomp0 = gen_arith_default_K.
Proof. repeat split. Qed.
